#!/bin/bash
# tools_run_all.sh [tier] [seed]: runs every claimed check once, prints one summary line per property.
tier=${1:-quick}; seed=${2:-1}
cd "$(dirname "$0")"
for p in $(python3 -c "import json;print(' '.join(c['property_id'] for c in json.load(open('MANIFEST.json'))['checks']))"); do
  s=$(date +%s)
  out=$(VERIF_SEED=$seed ./check $p --tier $tier 2>&1); rc=$?
  e=$(( $(date +%s) - s ))
  echo "$p rc=$rc ${e}s $(echo "$out" | grep -c '^VIOLATION') violations $(echo "$out" | grep -c '^KNOWN-FINDING') known | $(echo "$out" | grep '\[check\] C' | sed 's/.*seed=[0-9]*: //' | cut -c1-120)"
  [ $rc -ne 0 ] && echo "$out" | grep -E "^VIOLATION|no longer checks|infrastructure" | cut -c1-300
done
