/-
RFC 2326 (RTSP 1.0) session state machine — the specification side of property C02.

Two tables:

* `A2` — appendix A.2 of the RFC verbatim: server states Init / Ready / Playing / Recording and the
  state-changing methods SETUP, PLAY, RECORD, PAUSE, TEARDOWN ("OPTIONS, ANNOUNCE, DESCRIBE,
  GET_PARAMETER, SET_PARAMETER do not have any effect on client or server state and are therefore
  not listed in the state tables").

* the five-state refinement used by the property text (initial, pre-play, play, pre-record, record):
  `Ready` is split by the direction the session was prepared for (a session whose media were set up
  for playing cannot RECORD and vice versa; ANNOUNCE, which A.2 does not list, selects the record
  direction and is only meaningful before anything else was prepared).

`allowedStrict` is the literal table.  `allowed` additionally lets PAUSE through in the two ready
states as a no-op (RFC 7826 §13.6 spells this out for RTSP 2.0; RFC 2326 A.2 simply does not list
the pair).  Core Lean only: this file is linked into the oracle executable.
-/
namespace Rtsp.Rfc2326

inductive Meth
  | options | describe | announce | setup | play | record | pause | teardown | getParameter | setParameter
  deriving DecidableEq, Repr, Inhabited

inductive St
  | initial | prePlay | play | preRecord | record
  deriving DecidableEq, Repr, Inhabited

/-- Methods that A.2 says never touch the session state. -/
def Meth.neutral : Meth → Bool
  | .options | .describe | .getParameter | .setParameter => true
  | _ => false

/-! ## Appendix A.2, verbatim -/

inductive A2St
  | init | ready | playing | recording
  deriving DecidableEq, Repr

/-- A.2 server state table: `none` = the pair is not in the table. -/
def a2next : A2St → Meth → Option A2St
  | .init, .setup => some .ready
  | .init, .teardown => some .init
  | .ready, .play => some .playing
  | .ready, .setup => some .ready
  | .ready, .teardown => some .init
  | .ready, .record => some .recording
  | .playing, .play => some .playing
  | .playing, .pause => some .ready
  | .playing, .teardown => some .init
  | .playing, .setup => some .playing
  | .recording, .record => some .recording
  | .recording, .pause => some .ready
  | .recording, .teardown => some .init
  | .recording, .setup => some .recording
  | _, _ => none

/-! ## Five-state refinement -/

/-- The literal table over the five states (neutral methods are always legal). -/
def allowedStrict : St → Meth → Bool
  | _, .options | _, .describe | _, .getParameter | _, .setParameter => true
  | _, .teardown => true
  | .initial, .announce => true
  | .initial, .setup => true
  | .prePlay, .setup | .prePlay, .play => true
  | .play, .play | .play, .pause | .play, .setup => true
  | .preRecord, .setup | .preRecord, .record => true
  | .record, .record | .record, .pause | .record, .setup => true
  | _, _ => false

/-- PAUSE in a ready state: not in A.2, harmless (see header). -/
def pauseInReady : St → Meth → Bool
  | .prePlay, .pause | .preRecord, .pause => true
  | _, _ => false

/-- Legal requests: the literal table plus the idempotent PAUSE. -/
def allowed (s : St) (m : Meth) : Bool := allowedStrict s m || pauseInReady s m

/-- State after a *successful* request (TEARDOWN ends the session: back to `initial`). -/
def next : St → Meth → St
  | _, .teardown => .initial
  | .initial, .announce => .preRecord
  | .initial, .setup => .prePlay
  | .prePlay, .play => .play
  | .play, .pause => .prePlay
  | .preRecord, .record => .record
  | .record, .pause => .preRecord
  | s, _ => s

/-- State after a request given whether it succeeded (2xx): failures never move the state. -/
def step (s : St) (m : Meth) (success : Bool) : St := if success then next s m else s

/-- Abstraction to the four A.2 states: a record-direction session is still `Init` until its first
SETUP succeeded (ANNOUNCE has no effect on the A.2 state). -/
def abs (s : St) (setupped : Nat) : A2St :=
  match s with
  | .initial => .init
  | .prePlay => .ready
  | .play => .playing
  | .preRecord => if setupped = 0 then .init else .ready
  | .record => .recording

end Rtsp.Rfc2326
