/-
Specification: a bounded FIFO queue with `close` / `reset`, the abstract object the outbound
write queue (pkg/ringbuffer) is proved to refine and to which concurrent histories linearize.

  push x : accepted iff fewer than `cap` items are held (also when closed)
  pull   : closed → `closed`; otherwise the oldest item; `wait` when there is none
  close  : discards what is held, sets closed
  reset  : discards what is held, clears closed

Core Lean only.
-/
import Rtsp.Model.Ring
namespace Rtsp.Fifo
open Rtsp.Ring (PullRes Op Res)

structure Fifo (α : Type) where
  cap    : Nat
  items  : List α
  closed : Bool
deriving Repr

variable {α : Type}

def new (cap : Nat) : Fifo α := { cap, items := [], closed := false }

def push (q : Fifo α) (x : α) : Fifo α × Bool :=
  if q.items.length < q.cap then ({ q with items := q.items ++ [x] }, true) else (q, false)

def pull (q : Fifo α) : Fifo α × PullRes α :=
  if q.closed then (q, .closed)
  else match q.items with
    | x :: xs => ({ q with items := xs }, .item x)
    | [] => (q, .wait)

def close (q : Fifo α) : Fifo α := { q with items := [], closed := true }
def reset (q : Fifo α) : Fifo α := { q with items := [], closed := false }

def step (q : Fifo α) : Op α → Fifo α × Res α
  | .push x => let (q', ok) := push q x; (q', .pushed ok)
  | .pull   => let (q', p) := pull q; (q', .pulled p)
  | .close  => (close q, .done)
  | .reset  => (reset q, .done)

def run (q : Fifo α) : List (Op α) → Fifo α × List (Res α)
  | [] => (q, [])
  | op :: ops =>
    let (q1, o) := step q op
    let (q2, os) := run q1 ops
    (q2, o :: os)

end Rtsp.Fifo
