import Rtsp.Proofs.Sec.Roc
/-
C17, packet level: encrypt / decrypt of `wrappedSRTPContext` over the abstract cipher, the
per-SSRC state map, and what sender and receiver agree on.
-/
namespace Rtsp.Sec
open Rtsp.Facts

/-! ### the association list -/

theorem lookup_insert_eq {α} (m : List (Nat × α)) (k : Nat) (v : α) : lookup (insert m k v) k = some v := by
  induction m with
  | nil => simp [insert, lookup]
  | cons kv rest ih =>
    obtain ⟨k', v'⟩ := kv
    by_cases h : k' = k
    · simp [insert, lookup, h]
    · simp [insert, lookup, h, ih]

theorem lookup_insert_ne {α} (m : List (Nat × α)) (k k2 : Nat) (v : α) (h : k2 ≠ k) :
    lookup (insert m k v) k2 = lookup m k2 := by
  induction m with
  | nil => simp [insert, lookup, Ne.symm h]
  | cons kv rest ih =>
    obtain ⟨k', v'⟩ := kv
    by_cases h1 : k' = k
    · subst h1
      simp [insert, lookup, Ne.symm h]
    · by_cases h2 : k' = k2
      · subst h2
        simp [insert, lookup, h]
      · simp [insert, lookup, h1, h2, ih]

/-! ### `Fits`: the true index `j` of a packet is one the state estimates correctly -/

/-- `j` is the first packet after `SetROC` / creation and lies in the signalled ROC epoch, or it is
within 2^15 of the highest index processed so far. -/
def Fits (s : SsrcState) (j : Nat) : Prop :=
  j < two48 ∧
  (if s.processed then s.index < two48 ∧ (j : Int) - (s.index : Int) < 32768 ∧ (s.index : Int) - (j : Int) < 32768
   else s.index = j / 65536 * 65536)

/-- the state after a fitting packet: the highest index seen -/
def advance (s : SsrcState) (j : Nat) : SsrcState :=
  { index := if s.processed then max s.index j else j, processed := true }

theorem fits_nextRoc (s : SsrcState) (j : Nat) (h : Fits s j) :
    ∃ d, nextRoc s (j % 65536) = (j / 65536, d, false) ∧ updateRoc s (j % 65536) d = advance s j := by
  obtain ⟨i, p⟩ := s
  obtain ⟨hj, h⟩ := h
  cases p with
  | true =>
    simp only [if_true] at h
    obtain ⟨hi, h1, h2⟩ := h
    refine ⟨(j : Int) - (i : Int), nextRoc_window' i j hi hj h1 h2, ?_⟩
    rw [updateRoc_window' i j hi hj]
    simp [advance]
  | false =>
    simp only [Bool.false_eq_true, if_false] at h
    subst h
    refine ⟨0, ?_, ?_⟩
    · rw [nextRoc_unprocessed]
      have e1 : j / 65536 * 65536 / 65536 % 4294967296 = j / 65536 := by
        simp only [two48] at hj; omega
      have e2 : (j / 65536 == 0 && j / 65536 == 4294967295) = false := by
        simp only [Bool.and_eq_false_iff, beq_eq_false_iff_ne]; omega
      rw [e1, e2]
    · rw [updateRoc_unprocessed _ _ _ (by omega)]
      have : j / 65536 * 65536 + j % 65536 = j := by omega
      simp [advance, this]

theorem advance_processed (s : SsrcState) (j : Nat) : (advance s j).processed = true := rfl

/-- consecutive packets always fit -/
theorem fits_succ (s : SsrcState) (j : Nat) (h : Fits s j) (hj : j + 1 < two48) : Fits (advance s j) (j + 1) := by
  obtain ⟨i, p⟩ := s
  obtain ⟨hj0, h⟩ := h
  refine ⟨hj, ?_⟩
  simp only [advance, if_true]
  cases p with
  | true =>
    simp only [if_true] at h ⊢
    obtain ⟨hi, h1, h2⟩ := h
    simp only [two48] at *
    refine ⟨by omega, by omega, by omega⟩
  | false =>
    simp only [Bool.false_eq_true, if_false]
    simp only [two48] at *
    refine ⟨by omega, by omega, by omega⟩

/-! ### contexts -/

theorem state_insert_eq (c : Ctx) (ssrc : Nat) (s : SsrcState) :
    ({ c with rtp := insert c.rtp ssrc s } : Ctx).state ssrc = s := by
  simp [Ctx.state, lookup_insert_eq]

theorem state_insert_ne (c : Ctx) (ssrc s2 : Nat) (s : SsrcState) (h : s2 ≠ ssrc) :
    ({ c with rtp := insert c.rtp ssrc s } : Ctx).state s2 = c.state s2 := by
  simp [Ctx.state, lookup_insert_ne _ _ _ _ h]

/-- `Ctx.roc` is the ROC of the state (0 for an unknown SSRC) -/
theorem roc_eq_state (c : Ctx) (ssrc : Nat) : c.roc ssrc = (c.state ssrc).roc := by
  unfold Ctx.roc Ctx.state
  cases lookup c.rtp ssrc <;> simp [SsrcState.roc]

/-- what the sender does with a fitting packet -/
theorem encrypt_fits {W WC} (ci : Cipher W WC) (c : Ctx) (ssrc j : Nat) (p : Rtsp.Mikey.Bytes)
    (h : Fits (c.state ssrc) j) :
    ∃ c', c.encryptRTP ci ssrc (j % 65536) p = some (c', ci.E c.key c.mki ssrc (j / 65536) (j % 65536) p) ∧
      c'.key = c.key ∧ c'.mki = c.mki ∧ c'.ssrcs = c.ssrcs ∧ c'.rtcp = c.rtcp ∧
      c'.state ssrc = advance (c.state ssrc) j ∧ ∀ s2, s2 ≠ ssrc → c'.state s2 = c.state s2 := by
  obtain ⟨d, h1, h2⟩ := fits_nextRoc _ _ h
  refine ⟨{ c with rtp := insert c.rtp ssrc (advance (c.state ssrc) j) }, ?_, rfl, rfl, rfl, rfl, state_insert_eq _ _ _,
    fun s2 hs => state_insert_ne _ _ _ _ hs⟩
  simp [Ctx.encryptRTP, h1, h2]

/-- what a receiver with the same key does with the sender's packet when the index fits -/
theorem decrypt_fits {W WC} (ci : Cipher W WC)
    (hDE : ∀ k m s r q p, ci.D k m s r q (ci.E k m s r q p) = some p)
    (c : Ctx) (ssrc j : Nat) (p : Rtsp.Mikey.Bytes) (h : Fits (c.state ssrc) j) :
    ∃ c', c.decryptRTP ci ssrc (j % 65536) (ci.E c.key c.mki ssrc (j / 65536) (j % 65536) p) = some (c', p) ∧
      c'.key = c.key ∧ c'.mki = c.mki ∧ c'.ssrcs = c.ssrcs ∧
      c'.state ssrc = advance (c.state ssrc) j ∧ ∀ s2, s2 ≠ ssrc → c'.state s2 = c.state s2 := by
  obtain ⟨d, h1, h2⟩ := fits_nextRoc _ _ h
  refine ⟨{ c with rtp := insert c.rtp ssrc (advance (c.state ssrc) j) }, ?_, rfl, rfl, rfl, state_insert_eq _ _ _,
    fun s2 hs => state_insert_ne _ _ _ _ hs⟩
  simp [Ctx.decryptRTP, h1, h2, hDE]

/-- authenticity: whatever `decryptRTP` returns is an `E` image under the receiver's own key and
MKI, for the SSRC and sequence number of the packet, of exactly the returned payload -/
theorem decrypt_sound {W WC} (ci : Cipher W WC)
    (hD : ∀ k m s r q y p, ci.D k m s r q y = some p → y = ci.E k m s r q p)
    (c c' : Ctx) (ssrc seq : Nat) (w : W) (p : Rtsp.Mikey.Bytes)
    (h : c.decryptRTP ci ssrc seq w = some (c', p)) :
    ∃ roc, w = ci.E c.key c.mki ssrc roc seq p := by
  unfold Ctx.decryptRTP at h
  simp only at h
  split at h
  · cases h
  · rename_i p' hp
    injection h with h
    injection h with _ h
    subst h
    exact ⟨_, hD _ _ _ _ _ _ _ hp⟩

/-- a failed authentication leaves the context untouched (the model returns no new context) and
an altered packet is never accepted -/
theorem decrypt_rejects {W WC} (ci : Cipher W WC)
    (hD : ∀ k m s r q y p, ci.D k m s r q y = some p → y = ci.E k m s r q p)
    (c : Ctx) (ssrc seq : Nat) (w : W)
    (hw : ∀ roc p, w ≠ ci.E c.key c.mki ssrc roc seq p) :
    c.decryptRTP ci ssrc seq w = none := by
  cases h : c.decryptRTP ci ssrc seq w with
  | none => rfl
  | some r =>
    obtain ⟨c', p⟩ := r
    obtain ⟨roc, e⟩ := decrypt_sound ci hD c c' ssrc seq w p h
    exact absurd e (hw roc p)

end Rtsp.Sec
