import Rtsp.Model.Secure
/-
C17, admission: what `isTransportSupported` / `pickFirstSupportedTransport` / the SETUP branch can
let through, the client's choice of profile, and the redirect chain.
-/
namespace Rtsp.Sec
open Rtsp.Facts

theorem isSecure_iff (p : Profile) : isSecure p = true ↔ p = .savp := by
  cases p <;> simp [isSecure, Sec.isSecureIsSAVP]

theorem isSecure_false_iff (p : Profile) : isSecure p = false ↔ p = .avp := by
  cases p <;> simp [isSecure, Sec.isSecureIsSAVP]

/-- a transport the server supports respects both profile rules -/
theorem supported_rules (cfg : ServerCfg) (tunnel : Bool) (tr : Transport)
    (h : isTransportSupported cfg tunnel tr = true) :
    (tr.profile = .savp → cfg.tls = true) ∧
    (tr.protocol = .udp → cfg.tls = true → tr.profile = .savp) ∧
    (tr.protocol = .udp → tunnel = false) := by
  obtain ⟨proto, mc, prof, cp, il, md⟩ := tr
  obtain ⟨tls, udp, mcast⟩ := cfg
  cases proto <;> cases prof <;> cases tls <;> cases tunnel <;> cases mc <;> cases udp <;> cases mcast <;>
    simp_all [isTransportSupported, isSecure, Sec.isSecureIsSAVP, Sec.ruleNoPlainUDPOverTLS, Sec.ruleNoSecureOverPlain]

theorem pickFirst_supported (cfg : ServerCfg) (tunnel : Bool) (ts : List Transport) (tr : Transport)
    (h : pickFirst cfg tunnel ts = some tr) : tr ∈ ts ∧ isTransportSupported cfg tunnel tr = true := by
  induction ts with
  | nil => simp [pickFirst] at h
  | cons t rest ih =>
    by_cases ht : isTransportSupported cfg tunnel t = true
    · simp [pickFirst, ht] at h
      subst h
      exact ⟨List.mem_cons_self, ht⟩
    · simp [pickFirst, ht] at h
      exact ⟨List.mem_cons_of_mem _ (ih h).1, (ih h).2⟩

/-- `pickFirst` returns the FIRST supported transport: everything before it is unsupported. -/
theorem pickFirst_first (cfg : ServerCfg) (tunnel : Bool) (ts : List Transport) (tr : Transport)
    (h : pickFirst cfg tunnel ts = some tr) :
    ∃ pre post, ts = pre ++ tr :: post ∧ ∀ t ∈ pre, isTransportSupported cfg tunnel t = false := by
  induction ts with
  | nil => simp [pickFirst] at h
  | cons t rest ih =>
    by_cases ht : isTransportSupported cfg tunnel t = true
    · simp [pickFirst, ht] at h
      subst h
      exact ⟨[], rest, rfl, by simp⟩
    · simp [pickFirst, ht] at h
      obtain ⟨pre, post, e, hp⟩ := ih h
      refine ⟨t :: pre, post, by simp [e], ?_⟩
      intro x hx
      cases hx with
      | head => simpa using ht
      | tail _ hx => exact hp x hx

theorem pickFirst_none (cfg : ServerCfg) (tunnel : Bool) (ts : List Transport)
    (h : pickFirst cfg tunnel ts = none) : ∀ t ∈ ts, isTransportSupported cfg tunnel t = false := by
  induction ts with
  | nil => simp
  | cons t rest ih =>
    by_cases ht : isTransportSupported cfg tunnel t = true
    · simp [pickFirst, ht] at h
    · simp [pickFirst, ht] at h
      intro x hx
      cases hx with
      | head => simpa using ht
      | tail _ hx => exact ih h x hx

/-- everything `serverSetup` accepts went through `pickFirst` and carries contexts exactly for
the secure profile -/
theorem serverSetup_ok (cfg : ServerCfg) (tunnel : Bool) (st : SessState) (setupped : Option (SessProto × Profile))
    (inUse : Nat → Bool) (sc : Option Ctx) (fresh : Ctx) (now : Int) (req : SetupReq) (sm : SessMedia)
    (h : serverSetup cfg tunnel st setupped inUse sc fresh now req = .ok sm) :
    ∃ ts tr, req.transports = some ts ∧ pickFirst cfg tunnel ts = some tr ∧
      sm.protocol = sessProto tr ∧ sm.profile = tr.profile ∧
      (setupped.isSome → setupped = some (sm.protocol, sm.profile)) ∧
      (sm.srtpIn.isSome = isSecure tr.profile) ∧
      (∀ c, sm.srtpIn = some c → ∃ m, req.keyMgmt = .msg m ∧ mikeyToContext m now = .ok c) ∧
      sm.srtpOut = (if isSecure tr.profile then
          (if st = .preRecord ∨ req.backChannel then some fresh else sc) else none) := by
  unfold serverSetup at h
  split at h
  · cases h
  · rename_i ts hts
    split at h
    · cases h
    · rename_i tr htr
      refine ⟨ts, tr, hts, htr, ?_⟩
      simp only at h
      split at h
      · cases h
      · rename_i srtpIn hin
        split at h; · cases h
        rename_i hset
        split at h; · cases h
        split at h; · cases h
        split at h; · cases h
        split at h; · cases h
        split at h; · cases h
        injection h with h
        subst h
        refine ⟨rfl, rfl, ?_, ?_, ?_, rfl⟩
        · intro hs
          simp only [not_and, Decidable.not_not] at hset
          exact hset hs
        · by_cases hsec : isSecure tr.profile = true
          · simp only [hsec, if_true] at hin
            cases hk : req.keyMgmt with
            | bad => simp [hk] at hin
            | msg m =>
              simp only [hk] at hin
              cases hm : mikeyToContext m now with
              | error e => simp [hm] at hin
              | ok c => simp [hm] at hin; subst hin; simp [hsec]
          · simp only [hsec] at hin
            simp at hin
            subst hin
            simp [hsec]
        · intro c hc
          by_cases hsec : isSecure tr.profile = true
          · simp only [hsec, if_true] at hin
            cases hk : req.keyMgmt with
            | bad => simp [hk] at hin
            | msg m =>
              simp only [hk] at hin
              cases hm : mikeyToContext m now with
              | error e => simp [hm] at hin
              | ok c' =>
                simp [hm] at hin; subst hin
                simp at hc; subst hc
                exact ⟨m, rfl, hm⟩
          · simp only [hsec] at hin
            simp at hin
            subst hin
            simp at hc

end Rtsp.Sec
