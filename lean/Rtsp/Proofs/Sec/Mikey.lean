import Rtsp.Proofs.Sec.Pipe
/-
C17, key exchange: what `mikeyToContext` accepts (exactly the policy), and what survives
`contextToMikey` → `mikeyToContext`.
-/
namespace Rtsp.Sec
open Rtsp.Facts
open Rtsp.Mikey (Bytes Message Payload KeyData PolicyParam SrtpIdEntry)

/-! ### `applyROCs` -/

theorem applyROCs_fields (c : Ctx) (ss rs : List Nat) :
    (applyROCs c ss rs).key = c.key ∧ (applyROCs c ss rs).mki = c.mki ∧
    (applyROCs c ss rs).ssrcs = c.ssrcs ∧ (applyROCs c ss rs).startROCs = c.startROCs ∧
    (applyROCs c ss rs).rtcp = c.rtcp := by
  induction ss generalizing c rs with
  | nil => simp [applyROCs]
  | cons a ss ih =>
    cases rs with
    | nil => simp [applyROCs]
    | cons r rs =>
      simp only [applyROCs]
      have := ih (c.setROC a r) rs
      simpa [Ctx.setROC] using this

theorem state_setROC_eq (c : Ctx) (a r : Nat) :
    (c.setROC a r).state a = { index := (r * two16) % two64, processed := false } := by
  simp [Ctx.setROC, Ctx.state, lookup_insert_eq]

theorem state_setROC_ne (c : Ctx) (a r s : Nat) (h : s ≠ a) : (c.setROC a r).state s = c.state s := by
  simp [Ctx.setROC, Ctx.state, lookup_insert_ne _ _ _ _ h]

/-- after the `SetROC` loop every listed SSRC holds the ROC announced for it (`f` gives the same ROC
to every occurrence of an SSRC, as `contextToMikey` does), unprocessed; other SSRCs are untouched -/
theorem applyROCs_state (c : Ctx) (f : Nat → Nat) (ss : List Nat) (s : Nat) :
    (applyROCs c ss (ss.map f)).state s =
      if s ∈ ss then { index := (f s * two16) % two64, processed := false } else c.state s := by
  induction ss generalizing c with
  | nil => simp [applyROCs]
  | cons a ss ih =>
    simp only [List.map_cons, applyROCs]
    rw [ih]
    by_cases h1 : s ∈ ss
    · simp [h1]
    · by_cases h2 : s = a
      · subst h2
        simp [h1, state_setROC_eq]
      · simp [h1, h2, state_setROC_ne _ _ _ _ h2]

/-! ### the policy -/

theorem policyBad_false_iff (ps : List PolicyParam) (t x : Nat) :
    policyBad ps t x = false ↔ getPolicy ps t = some [UInt8.ofNat x] := by
  unfold policyBad
  cases getPolicy ps t <;> simp

/-- The policy of `mikeyToContext`, as a predicate on the parsed message. -/
structure Policy (m : Message) (now : Int) (kd : KeyData) : Prop where
  time : ∃ a ts, getT m.payloads = some (a, ts) ∧
    -hourNs ≤ now - Rtsp.Ntp.decode ts ∧ now - Rtsp.Ntp.decode ts ≤ hourNs
  sp : ∃ ps, getSP m.payloads = some ps ∧
    getPolicy ps Sec.ppEncrAlg = some [1] ∧ getPolicy ps Sec.ppSessionEncrKeyLen = some [16] ∧
    getPolicy ps Sec.ppAuthAlg = some [1] ∧ getPolicy ps Sec.ppSRTPEncrOffOn = some [1] ∧
    getPolicy ps Sec.ppSRTCPEncrOffOn = some [1] ∧ getPolicy ps Sec.ppSRTPAuthOffOn = some [1]
  key : getKemac m.payloads = some [kd] ∧ kd.keyData.length = 30

/-- the context `mikeyToContext` builds from an accepted message -/
def ctxOf (m : Message) (kd : KeyData) : Ctx :=
  applyROCs { key := kd.keyData, mki := kd.spi, ssrcs := m.header.csIdMapInfo.map (·.ssrc),
              startROCs := m.header.csIdMapInfo.map (·.roc) }
    (m.header.csIdMapInfo.map (·.ssrc)) (m.header.csIdMapInfo.map (·.roc))

theorem initCtx_30 (key mki : Bytes) (ss rs : List Nat) (h : key.length = 30) :
    initCtx key mki ss rs = some (applyROCs { key, mki, ssrcs := ss, startROCs := rs } ss rs) := by
  simp [initCtx, Sec.masterKeySplit, Sec.masterSaltSplit, h]

/-- soundness: whatever is accepted satisfies the whole policy (so every single violation is rejected) -/
theorem mikeyToContext_sound (m : Message) (now : Int) (c : Ctx) (h : mikeyToContext m now = .ok c) :
    ∃ kd, Policy m now kd ∧ c = ctxOf m kd := by
  unfold mikeyToContext at h
  split at h
  · cases h
  · rename_i a ts hT
    simp only at h
    split at h
    · cases h
    · rename_i hwin
      split at h
      · cases h
      · rename_i ps hSP
        split at h; · cases h
        rename_i p1
        split at h; · cases h
        rename_i p2
        split at h; · cases h
        rename_i p3
        split at h; · cases h
        rename_i p4
        split at h; · cases h
        rename_i p5
        split at h; · cases h
        rename_i p6
        split at h
        · cases h
        · rename_i subs hK
          split at h
          · rename_i kd
            split at h
            · cases h
            · rename_i hlen
              simp only [Sec.srtpKeyLength, ne_eq, Decidable.not_not] at hlen
              rw [initCtx_30 _ _ _ _ hlen] at h
              simp only [Except.ok.injEq] at h
              refine ⟨kd, ⟨⟨a, ts, hT, by omega, by omega⟩, ⟨ps, hSP, ?_, ?_, ?_, ?_, ?_, ?_⟩, hK, hlen⟩, h.symm⟩
              · simpa [Sec.reqEncrAlg] using (policyBad_false_iff ps Sec.ppEncrAlg Sec.reqEncrAlg).1 (by simpa using p1)
              · simpa [Sec.reqSessionEncrKeyLen] using (policyBad_false_iff ps Sec.ppSessionEncrKeyLen Sec.reqSessionEncrKeyLen).1 (by simpa using p2)
              · simpa [Sec.reqAuthAlg] using (policyBad_false_iff ps Sec.ppAuthAlg Sec.reqAuthAlg).1 (by simpa using p3)
              · simpa [Sec.reqSRTPEncrOffOn] using (policyBad_false_iff ps Sec.ppSRTPEncrOffOn Sec.reqSRTPEncrOffOn).1 (by simpa using p4)
              · simpa [Sec.reqSRTCPEncrOffOn] using (policyBad_false_iff ps Sec.ppSRTCPEncrOffOn Sec.reqSRTCPEncrOffOn).1 (by simpa using p5)
              · simpa [Sec.reqSRTPAuthOffOn] using (policyBad_false_iff ps Sec.ppSRTPAuthOffOn Sec.reqSRTPAuthOffOn).1 (by simpa using p6)
          · cases h

/-- completeness: everything inside the policy is accepted -/
theorem mikeyToContext_complete (m : Message) (now : Int) (kd : KeyData) (h : Policy m now kd) :
    mikeyToContext m now = .ok (ctxOf m kd) := by
  obtain ⟨⟨a, ts, hT, w1, w2⟩, ⟨ps, hSP, q1, q2, q3, q4, q5, q6⟩, hK, hlen⟩ := h
  have b1 : policyBad ps Sec.ppEncrAlg Sec.reqEncrAlg = false := (policyBad_false_iff _ _ _).2 (by simpa [Sec.reqEncrAlg] using q1)
  have b2 : policyBad ps Sec.ppSessionEncrKeyLen Sec.reqSessionEncrKeyLen = false := (policyBad_false_iff _ _ _).2 (by simpa [Sec.reqSessionEncrKeyLen] using q2)
  have b3 : policyBad ps Sec.ppAuthAlg Sec.reqAuthAlg = false := (policyBad_false_iff _ _ _).2 (by simpa [Sec.reqAuthAlg] using q3)
  have b4 : policyBad ps Sec.ppSRTPEncrOffOn Sec.reqSRTPEncrOffOn = false := (policyBad_false_iff _ _ _).2 (by simpa [Sec.reqSRTPEncrOffOn] using q4)
  have b5 : policyBad ps Sec.ppSRTCPEncrOffOn Sec.reqSRTCPEncrOffOn = false := (policyBad_false_iff _ _ _).2 (by simpa [Sec.reqSRTCPEncrOffOn] using q5)
  have b6 : policyBad ps Sec.ppSRTPAuthOffOn Sec.reqSRTPAuthOffOn = false := (policyBad_false_iff _ _ _).2 (by simpa [Sec.reqSRTPAuthOffOn] using q6)
  have hw : ¬(now - Rtsp.Ntp.decode ts < -hourNs ∨ now - Rtsp.Ntp.decode ts > hourNs) := by omega
  unfold mikeyToContext
  simp only [hT, hw, if_false, hSP, b1, b2, b3, b4, b5, b6, Bool.false_eq_true, hK, Sec.srtpKeyLength, hlen, ne_eq,
    not_true_eq_false, initCtx_30 _ _ _ _ hlen]
  rfl

/-! ### `contextToMikey` → `mikeyToContext` -/

theorem contextToMikey_policy (c : Ctx) (csb : Nat) (rand : Bytes) (ts : Nat) (now : Int)
    (hk : c.key.length = 30)
    (hw : -hourNs ≤ now - Rtsp.Ntp.decode ts ∧ now - Rtsp.Ntp.decode ts ≤ hourNs) :
    Policy (contextToMikey c csb rand ts) now
      { type := Sec.keyTypeTEK, kv := if c.mki.length ≠ 0 then Sec.kvSPI else Sec.kvNull, keyData := c.key, spi := c.mki } := by
  refine ⟨⟨0, ts, rfl, hw.1, hw.2⟩, ⟨announcedPolicy, rfl, ?_, ?_, ?_, ?_, ?_, ?_⟩, rfl, hk⟩ <;> decide

end Rtsp.Sec
