import Rtsp.Proofs.Sec.Mikey
/-
C17, stream level: a sender context and a receiver context that share key and MKI, over whole
packet histories.
-/
namespace Rtsp.Sec
open Rtsp.Facts
open Rtsp.Mikey (Bytes)

/-- every packet of the history fits the state it meets -/
def FitsAll : SsrcState → List Nat → Prop
  | _, [] => True
  | s, j :: js => Fits s j ∧ FitsAll (advance s j) js

/-- the frame a sender with key `k`, MKI `m` emits for the packet with true index `j` -/
def frameOf {W WC} (ci : Cipher W WC) (k m : Bytes) (ssrc : Nat) (jp : Nat × Bytes) : Frame W :=
  { ssrc := ssrc, seq := jp.1 % 65536, body := .prot (ci.E k m ssrc (jp.1 / 65536) (jp.1 % 65536) jp.2) }

/-- `writePacketRTP` for a sequence of packets of one SSRC -/
def sendAll {W WC} (ci : Cipher W WC) (out : Option Ctx) (ssrc : Nat) : List (Nat × Bytes) → Option (Option Ctx × List (Frame W))
  | [] => some (out, [])
  | jp :: rest =>
    match writeRTP ci out { ssrc := ssrc, seq := jp.1 % 65536, payload := jp.2 } with
    | none => none
    | some (out', f) =>
      match sendAll ci out' ssrc rest with
      | none => none
      | some (out'', fs) => some (out'', f :: fs)

/-- `readPacketRTP` for a sequence of frames -/
def recvAll {W WC} (ci : Cipher W WC) (r : RecvFmt) : List (Frame W) → RecvFmt × List ReadRes
  | [] => (r, [])
  | f :: rest =>
    let (r', x) := readRTP ci r f
    let (r'', xs) := recvAll ci r' rest
    (r'', x :: xs)

theorem sender_emits {W WC} (ci : Cipher W WC) (c : Ctx) (ssrc : Nat) (jps : List (Nat × Bytes))
    (h : FitsAll (c.state ssrc) (jps.map (·.1))) :
    ∃ c', sendAll ci (some c) ssrc jps = some (some c', jps.map (frameOf ci c.key c.mki ssrc)) ∧
      c'.key = c.key ∧ c'.mki = c.mki ∧ c'.ssrcs = c.ssrcs ∧ (∀ s2, s2 ≠ ssrc → c'.state s2 = c.state s2) ∧
      c'.state ssrc = (jps.map (·.1)).foldl advance (c.state ssrc) := by
  induction jps generalizing c with
  | nil => exact ⟨c, rfl, rfl, rfl, rfl, fun _ _ => rfl, rfl⟩
  | cons jp rest ih =>
    obtain ⟨hf, hrest⟩ := h
    obtain ⟨c1, e1, k1, m1, s1, _, st1, o1⟩ := encrypt_fits ci c ssrc jp.1 jp.2 hf
    rw [← st1] at hrest
    obtain ⟨c2, e2, k2, m2, s2, o2, f2⟩ := ih c1 hrest
    refine ⟨c2, ?_, k2.trans k1, m2.trans m1, s2.trans s1, fun x hx => (o2 x hx).trans (o1 x hx), ?_⟩
    · simp only [sendAll, writeRTP, e1, e2, List.map_cons, k1, m1, frameOf]
    · rw [f2, st1]; rfl

theorem receiver_delivers {W WC} (ci : Cipher W WC)
    (hDE : ∀ k m s r q p, ci.D k m s r q (ci.E k m s r q p) = some p)
    (c : Ctx) (remote : Option Nat) (ssrc : Nat) (hr : remote = none ∨ remote = some ssrc)
    (arr : List (Nat × Bytes)) (h : FitsAll (c.state ssrc) (arr.map (·.1))) :
    (recvAll ci { inCtx := some c, remoteSSRC := remote } (arr.map (frameOf ci c.key c.mki ssrc))).2 =
      arr.map (fun jp => ReadRes.deliver jp.2) := by
  induction arr generalizing c remote with
  | nil => rfl
  | cons jp rest ih =>
    obtain ⟨hf, hrest⟩ := h
    obtain ⟨c1, e1, k1, m1, _, st1, _⟩ := decrypt_fits ci hDE c ssrc jp.1 jp.2 hf
    rw [← st1] at hrest
    have step : readRTP ci { inCtx := some c, remoteSSRC := remote } (frameOf ci c.key c.mki ssrc jp) =
        ({ inCtx := some c1, remoteSSRC := some ssrc }, .deliver jp.2) := by
      rcases hr with hr | hr <;> subst hr <;> simp [readRTP, wrongSSRC, latch, frameOf, e1]
    have := ih c1 (some ssrc) (Or.inr rfl) hrest
    simp only [List.map_cons, recvAll, step]
    rw [← k1, ← m1, this]

/-- consecutive packets (the sender's normal case): all of them fit -/
theorem fitsAll_consecutive (s : SsrcState) (j n : Nat) (h : Fits s j) (hb : j + n < two48) :
    FitsAll s ((List.range n).map (j + ·)) := by
  induction n generalizing s j with
  | zero => simp [FitsAll]
  | succ n ih =>
    have e : (List.range (n + 1)).map (j + ·) = j :: (List.range n).map (j + 1 + ·) := by
      rw [List.range_succ_eq_map]
      simp [List.map_map, Function.comp_def]
      intro a _; omega
    rw [e]
    refine ⟨h, ih (advance s j) (j + 1) (fits_succ s j h (by omega)) (by omega)⟩

/-- a sender that moves forward: after `n ≥ 1` consecutive packets from `j0` its state holds `j0+n-1` -/
theorem foldl_advance_consecutive (s : SsrcState) (j n : Nat) (hfw : s.processed = true → s.index ≤ j) :
    ((List.range (n + 1)).map (j + ·)).foldl advance s = { index := j + n, processed := true } := by
  induction n generalizing s j with
  | zero =>
    have e : ((List.range (0 + 1)).map (j + ·)) = [j] := by simp
    rw [e]
    simp only [List.foldl_cons, List.foldl_nil, advance, Nat.add_zero]
    cases hp : s.processed with
    | false => simp
    | true => simp [Nat.max_eq_right (hfw hp)]
  | succ n ih =>
    have e : (List.range (n + 1 + 1)).map (j + ·) = j :: (List.range (n + 1)).map (j + 1 + ·) := by
      rw [List.range_succ_eq_map]
      simp [List.map_map, Function.comp_def]
      intro a _; omega
    rw [e, List.foldl_cons]
    have h1 : (advance s j).processed = true → (advance s j).index ≤ j + 1 := by
      intro _
      simp only [advance]
      cases hp : s.processed with
      | false => simp
      | true => simp [Nat.max_eq_right (hfw hp)]
    rw [ih (advance s j) (j + 1) h1]
    congr 1; omega

end Rtsp.Sec

namespace Rtsp.Sec
open Rtsp.Mikey (Bytes)

/-- `readRTP` never changes the key material of the receiving context -/
theorem readRTP_keeps_key {W WC} (ci : Cipher W WC) (r : RecvFmt) (f : Frame W) (c : Ctx) (hc : r.inCtx = some c) :
    ∃ c', (readRTP ci r f).1.inCtx = some c' ∧ c'.key = c.key ∧ c'.mki = c.mki := by
  obtain ⟨inCtx, remote⟩ := r
  simp only at hc
  subst hc
  obtain ⟨ssrc, seq, body⟩ := f
  unfold readRTP
  split
  · exact ⟨c, rfl, rfl, rfl⟩
  · cases body with
    | plain b => exact ⟨c, rfl, rfl, rfl⟩
    | prot w =>
      simp only
      cases hd : c.decryptRTP ci ssrc seq w with
      | none => exact ⟨c, rfl, rfl, rfl⟩
      | some cp =>
        obtain ⟨c', p'⟩ := cp
        refine ⟨c', rfl, ?_⟩
        unfold Ctx.decryptRTP at hd
        simp only at hd
        split at hd
        · cases hd
        · injection hd with hd
          injection hd with h1 _
          subst h1
          exact ⟨rfl, rfl⟩

/-- a rejected frame leaves no trace in the receiver (neither in the context nor in the SSRC latch) -/
theorem readRTP_reject_no_trace {W WC} (ci : Cipher W WC) (r : RecvFmt) (f : Frame W)
    (h : (readRTP ci r f).2 = .decodeError) : (readRTP ci r f).1 = r := by
  obtain ⟨inCtx, remote⟩ := r
  obtain ⟨ssrc, seq, body⟩ := f
  unfold readRTP at h ⊢
  by_cases hw : wrongSSRC { inCtx := inCtx, remoteSSRC := remote } ssrc = true
  · simp [hw]
  · simp only [hw, Bool.false_eq_true, if_false] at h ⊢
    cases inCtx with
    | none => cases body <;> simp at h
    | some c =>
      cases body with
      | plain b => rfl
      | prot w =>
        simp only at h ⊢
        cases hd : c.decryptRTP ci ssrc seq w with
        | none => rfl
        | some cp => simp [hd] at h

end Rtsp.Sec
