import Rtsp.Proofs.Sec.Mikey
import Rtsp.Proofs.Hdr.Mikey
/-
C17 ∘ C09: the message `contextToMikey` builds is well formed for the MIKEY wire format, so it
survives `Marshal` → `Unmarshal` (theorem of C09) before `mikeyToContext` sees it.
-/
namespace Rtsp.Sec
open Rtsp.Facts
open Rtsp.Mikey (Bytes Message Payload KeyData PolicyParam SrtpIdEntry)

theorem roc_lt' (c : Ctx) (s : Nat) : c.roc s < 2 ^ 32 := by
  unfold Ctx.roc
  cases lookup c.rtp s with
  | none => simp
  | some st => simp only [SsrcState.roc, two32]; omega

theorem contextToMikey_wf (c : Ctx) (csb : Nat) (rand : Bytes) (ts : Nat)
    (hk : c.key.length = 30) (hm : c.mki.length < 256) (hn : c.ssrcs.length < 256)
    (hs : ∀ s ∈ c.ssrcs, s < 2 ^ 32) (hc : csb < 2 ^ 32) (hr1 : 16 ≤ rand.length) (hr2 : rand.length < 256)
    (ht : ts < 2 ^ 64) : (contextToMikey c csb rand ts).WF := by
  refine ⟨⟨rfl, rfl, rfl, rfl, hc, rfl, by simpa [contextToMikey] using hn, ?_⟩, ?_⟩
  · intro e he
    simp only [contextToMikey, List.mem_map] at he
    obtain ⟨s, hsm, rfl⟩ := he
    exact ⟨by simp, hs s hsm, roc_lt' c s⟩
  · intro p hp
    simp only [contextToMikey, List.mem_cons, List.not_mem_nil, or_false] at hp
    rcases hp with rfl | rfl | rfl | rfl
    · exact .t ts ht
    · exact .rand rand hr1 hr2
    · refine .sp 0 announcedPolicy (by decide) ?_ (by decide)
      intro q hq
      simp only [announcedPolicy, List.mem_cons, List.not_mem_nil, or_false] at hq
      rcases hq with rfl | rfl | rfl | rfl | rfl | rfl | rfl | rfl <;> exact ⟨by decide, by decide⟩
    · have kwf : KeyData.WF { type := Sec.keyTypeTEK, kv := if c.mki.length ≠ 0 then Sec.kvSPI else Sec.kvNull, keyData := c.key, spi := c.mki } := by
        refine ⟨rfl, by simp [hk], ?_⟩
        by_cases h0 : c.mki.length = 0
        · left; simp [Sec.kvNull, List.eq_nil_of_length_eq_zero h0]
        · right; simp [h0, Sec.kvSPI, hm]
      refine .kemac _ (by simp) (by simpa using kwf) ?_
      simp only [Rtsp.Mikey.marshalSubs, Rtsp.Mikey.KeyData.marshal, Rtsp.Mikey.put16, List.length_append, List.length_cons,
        List.length_nil, hk]
      by_cases h0 : c.mki.length = 0
      · simp [h0, Sec.kvNull, Rtsp.Facts.Hdr.keyDataKVSPI]
      · simp [h0, Sec.kvSPI, Rtsp.Facts.Hdr.keyDataKVSPI]; omega

end Rtsp.Sec
