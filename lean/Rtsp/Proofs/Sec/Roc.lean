import Rtsp.Model.Secure
/-
C17, roll-over counter: pion's `nextRolloverCount` / `updateRolloverCount` recover the true
48-bit packet index from the 16-bit sequence number whenever the packet lies within 2^15 of the
highest index processed so far.
-/
namespace Rtsp.Sec
open Rtsp.Facts

def two48 : Nat := 281474976710656

theorem or_low (R q : Nat) (h : q < 65536) : (R * 65536) ||| q = R * 65536 + q := by
  have := Nat.shiftLeft_add_eq_or_of_lt (i := 16) (b := q) (by simpa using h) R
  simp [Nat.shiftLeft_eq] at this
  omega

/-- the first packet of an SSRC (fresh state or after `SetROC`): the signalled ROC is used as is -/
theorem nextRoc_unprocessed (s : SsrcState) (q : Nat) (h : s.processed = false) :
    nextRoc s q = (s.roc, 0, s.roc == 0 && s.roc == Sec.maxROC) := by
  simp [nextRoc, h]

theorem updateRoc_unprocessed (R q : Nat) (d : Int) (hq : q < 65536) :
    updateRoc { index := R * 65536, processed := false } q d = { index := R * 65536 + q, processed := true } := by
  simp [updateRoc, or_low R q hq]

/-- estimation is exact within the window -/
theorem nextRoc_window (s : SsrcState) (j : Nat) (hp : s.processed = true)
    (hi : s.index < two48) (hj : j < two48)
    (h1 : (j : Int) - (s.index : Int) < 32768) (h2 : (s.index : Int) - (j : Int) < 32768) :
    nextRoc s (j % 65536) = (j / 65536, (j : Int) - (s.index : Int), false) := by
  obtain ⟨i, p⟩ := s
  simp only at hp hi h1 h2
  subst hp
  simp only [nextRoc, SsrcState.roc, SsrcState.seq, Sec.seqNumMedian, Sec.seqNumMax, Sec.maxROC, two16, two32, two48,
    if_true] at *
  by_cases c1 : i > 32768
  · by_cases c2 : ((i % 65536 : Nat) : Int) < ((32768 : Nat) : Int)
    · by_cases c3 : ((j % 65536 : Nat) : Int) - ((i % 65536 : Nat) : Int) > ((32768 : Nat) : Int)
      · simp only [c1, c2, c3, if_true]
        refine Prod.ext ?_ (Prod.ext ?_ ?_) <;> simp <;> omega
      · simp only [c1, c2, c3, if_true, if_false]
        refine Prod.ext ?_ (Prod.ext ?_ ?_) <;> simp <;> omega
    · by_cases c3 : ((i % 65536 : Nat) : Int) - ((32768 : Nat) : Int) > ((j % 65536 : Nat) : Int)
      · simp only [c1, c2, c3, if_true, if_false]
        refine Prod.ext ?_ (Prod.ext ?_ ?_) <;> simp <;> omega
      · simp only [c1, c2, c3, if_true, if_false]
        refine Prod.ext ?_ (Prod.ext ?_ ?_) <;> simp <;> omega
  · simp only [c1, if_false]
    refine Prod.ext ?_ (Prod.ext ?_ ?_) <;> simp <;> omega

/-- after a packet inside the window the state holds the highest index seen -/
theorem updateRoc_window (s : SsrcState) (j : Nat) (hp : s.processed = true)
    (hi : s.index < two48) (hj : j < two48) :
    updateRoc s (j % 65536) ((j : Int) - (s.index : Int)) = { index := max s.index j, processed := true } := by
  obtain ⟨i, p⟩ := s
  simp only at hp hi
  subst hp
  simp only [updateRoc, two64, two48] at *
  by_cases c : (j : Int) - (i : Int) > 0
  · have e : (i + ((j : Int) - (i : Int)).toNat) % 18446744073709551616 = max i j := by omega
    simp [c, e]
  · have e : max i j = i := by omega
    simp [c, e]

end Rtsp.Sec
