import Rtsp.Model.Secure
/-
C17, roll-over counter: pion's `nextRolloverCount` / `updateRolloverCount` recover the true
48-bit packet index from the 16-bit sequence number whenever the packet lies within 2^15 of the
highest index processed so far (and use the signalled ROC for the first packet).
-/
namespace Rtsp.Sec
open Rtsp.Facts

def two48 : Nat := 281474976710656

theorem or_low (R q : Nat) (h : q < 65536) : (R * 65536) ||| q = R * 65536 + q := by
  have := Nat.shiftLeft_add_eq_or_of_lt (i := 16) (b := q) (by simpa using h) R
  simp [Nat.shiftLeft_eq] at this
  omega

/-- the first packet of an SSRC (fresh state or after `SetROC`): the signalled ROC is used as is -/
theorem nextRoc_unprocessed (i q : Nat) :
    nextRoc { index := i, processed := false } q =
      (i / 65536 % 4294967296, 0, i / 65536 % 4294967296 == 0 && i / 65536 % 4294967296 == 4294967295) := by
  simp [nextRoc, SsrcState.roc, two16, two32, Sec.maxROC]

theorem updateRoc_unprocessed (R q : Nat) (d : Int) (hq : q < 65536) :
    updateRoc { index := R * 65536, processed := false } q d = { index := R * 65536 + q, processed := true } := by
  simp [updateRoc, or_low R q hq]


/-- `nextRoc` as plain arithmetic -/
theorem nextRoc_processed (i q : Nat) :
    nextRoc { index := i, processed := true } q =
      (let r := i / 65536 % 4294967296
       let l : Int := ((i % 65536 : Nat) : Int)
       let g : Nat × Int :=
         if i > 32768 then
           if l < 32768 then
             if (q : Int) - l > 32768 then ((r + 4294967296 - 1) % 4294967296, (q : Int) - l - 65536) else (r, (q : Int) - l)
           else
             if l - 32768 > (q : Int) then ((r + 1) % 4294967296, (q : Int) - l + 65536) else (r, (q : Int) - l)
         else (r, (q : Int) - l)
       (g.1, g.2, g.1 == 0 && r == 4294967295)) := by
  simp only [nextRoc, SsrcState.roc, SsrcState.seq, Sec.seqNumMedian, Sec.seqNumMax, Sec.maxROC, two16, two32, if_true]
  rfl
theorem nextRoc_window' (i j : Nat)
    (hi : i < 281474976710656) (hj : j < 281474976710656)
    (h1 : (j : Int) - (i : Int) < 32768) (h2 : (i : Int) - (j : Int) < 32768) :
    nextRoc { index := i, processed := true } (j % 65536) = (j / 65536, (j : Int) - (i : Int), false) := by
  rw [nextRoc_processed]
  have e3 : (j / 65536 == 0 && i / 65536 % 4294967296 == 4294967295) = false := by
    simp only [Bool.and_eq_false_iff, beq_eq_false_iff_ne]; omega
  have e4 : (j / 65536 == 0 && j / 65536 == 4294967295) = false := by
    simp only [Bool.and_eq_false_iff, beq_eq_false_iff_ne]; omega
  by_cases c1 : i > 32768
  · by_cases c2 : ((i % 65536 : Nat) : Int) < 32768
    · by_cases c3 : ((j % 65536 : Nat) : Int) - ((i % 65536 : Nat) : Int) > 32768
      · simp only [c1, c2, c3, if_true]
        have e1 : (i / 65536 % 4294967296 + 4294967296 - 1) % 4294967296 = j / 65536 := by omega
        have e2 : ((j % 65536 : Nat) : Int) - ((i % 65536 : Nat) : Int) - 65536 = (j : Int) - (i : Int) := by omega
        rw [e1, e2]; first | rw [e3] | rw [e4]
      · simp only [c1, c2, c3, if_true, if_false]
        have e1 : i / 65536 % 4294967296 = j / 65536 := by omega
        have e2 : ((j % 65536 : Nat) : Int) - ((i % 65536 : Nat) : Int) = (j : Int) - (i : Int) := by omega
        rw [e1, e2]; first | rw [e3] | rw [e4]
    · by_cases c3 : ((i % 65536 : Nat) : Int) - 32768 > ((j % 65536 : Nat) : Int)
      · simp only [c1, c2, c3, if_true, if_false]
        have e1 : (i / 65536 % 4294967296 + 1) % 4294967296 = j / 65536 := by omega
        have e2 : ((j % 65536 : Nat) : Int) - ((i % 65536 : Nat) : Int) + 65536 = (j : Int) - (i : Int) := by omega
        rw [e1, e2]; first | rw [e3] | rw [e4]
      · simp only [c1, c2, c3, if_true, if_false]
        have e1 : i / 65536 % 4294967296 = j / 65536 := by omega
        have e2 : ((j % 65536 : Nat) : Int) - ((i % 65536 : Nat) : Int) = (j : Int) - (i : Int) := by omega
        rw [e1, e2]; first | rw [e3] | rw [e4]
  · simp only [c1, if_false]
    have e1 : i / 65536 % 4294967296 = j / 65536 := by omega
    have e2 : ((j % 65536 : Nat) : Int) - ((i % 65536 : Nat) : Int) = (j : Int) - (i : Int) := by omega
    rw [e1, e2]; first | rw [e3] | rw [e4]
theorem updateRoc_window' (i j : Nat) (hi : i < 281474976710656) (hj : j < 281474976710656) :
    updateRoc { index := i, processed := true } (j % 65536) ((j : Int) - (i : Int)) = { index := max i j, processed := true } := by
  by_cases c : i < j
  · have e : (i + (j - i)) % 18446744073709551616 = max i j := by omega
    simp [updateRoc, two64, c, e]
  · have e : max i j = i := by omega
    simp [updateRoc, c, e]


end Rtsp.Sec
