import Rtsp.Model.ClientSm
/-
The run loop only ever waits on behalf of an API call: whenever the model blocks in waitResponse the
call being served (`pending`) is still the one that was accepted.  Same continuation-passing lemma
family as Unwind.lean / Blocked.lean, for the predicate `BlockedFor a`.
-/
namespace Rtsp.ClientSm

/-- the call `a` is being served -/
def Pend (ap : Api) (s : St) : Prop := s.pending = some ap

/-- idle / closed, or waiting on behalf of `a` -/
def BlockedFor (ap : Api) (s : St) : Prop :=
  s.stack = [] ∨ (∃ m n tp k, s.stack = .wait m n tp :: k) ∧ s.pending = some ap

theorem blockedFor_wait {ap : Api} (s : St) (m : Meth) (n tp : Nat) (k : List Fr) (h : Pend ap s) :
    BlockedFor ap { s with stack := .wait m n tp :: k } := Or.inr ⟨⟨m, n, tp, k, rfl⟩, h⟩

theorem runExit_blockedFor (ap : Api) (s : St) (e : Res) : BlockedFor ap (runExit s e) := by
  left
  simp only [runExit, closeConn, sendReq, emit]
  repeat' split
  all_goals rfl

theorem swEnd_pend {ap : Api} (retK : St → Val → St) (hR : ∀ s' v, Pend ap s' → BlockedFor ap (retK s' v)) :
    ∀ s' v, Pend ap s' → BlockedFor ap (swEnd retK s' v) := by
  intro s' v hd
  unfold swEnd
  cases v <;> simp only []
  all_goals first
    | exact runExit_blockedFor _ _ _
    | exact hR _ _ hd

theorem connOpen_pend {s s1 : St} (h : connOpen s = some s1) (hd : Pend ap s) : Pend ap s1 := by
  unfold connOpen at h
  split at h
  · cases h; exact hd
  · split at h
    · cases h; simpa [Pend, emit] using hd
    · cases h

theorem sendReq_pend (s : St) (m : Meth) (tp : Nat) (hd : Pend ap s) : Pend ap (sendReq s m tp) := by
  simpa [Pend, sendReq, emit] using hd

theorem startDo_pend {ap : Api} (s : St) (m : Meth) (skip : Bool) (tp : Nat) (fs k : List Fr)
    (onErr : St → Err → St) (onSkip : St → St) (hd : Pend ap s)
    (hE : ∀ s' e, Pend ap s' → BlockedFor ap (onErr s' e)) (hS : skip = true → ∀ s', Pend ap s' → BlockedFor ap (onSkip s')) :
    BlockedFor ap (startDo s m skip tp fs k onErr onSkip) := by
  unfold startDo
  split
  · split
    · split
      · exact hE _ _ hd
      · rename_i s1 h1
        have h2 := sendReq_pend s1 .options 0 (connOpen_pend h1 hd)
        simp only []
        split
        · exact hE _ _ (by simpa [Pend] using h2)
        · exact blockedFor_wait _ _ _ _ _ h2
    · exact hE _ _ hd
  · have h2 := sendReq_pend s m tp hd
    simp only []
    split
    · rename_i hsk
      exact hS hsk _ h2
    · split
      · exact hE _ _ (by simpa [Pend] using h2)
      · exact blockedFor_wait _ _ _ _ _ h2

theorem describeStart_pend {ap : Api} (s : St) (rd : Nat) (fs k : List Fr) (retK : St → Val → St)
    (hd : Pend ap s) (hR : ∀ s' v, Pend ap s' → BlockedFor ap (retK s' v)) : BlockedFor ap (describeStart s rd fs k retK) := by
  unfold describeStart
  split
  · split
    · exact hR _ _ hd
    · rename_i s1 h1
      exact startDo_pend _ _ _ _ _ _ _ _ (connOpen_pend h1 hd) (fun s' e h => hR _ _ h) (fun hf => by cases hf)
  · exact hR _ _ hd

theorem setupStart_pend {ap : Api} (c : Cfg) (s : St) (a : SetupArgs) (fs k : List Fr)
    (retK : St → Val → St) (hd : Pend ap s) (hR : ∀ s' v, Pend ap s' → BlockedFor ap (retK s' v)) :
    BlockedFor ap (setupStart c s a fs k retK) := by
  unfold setupStart
  split
  · split
    · exact hR _ _ hd
    · rename_i s1 h1
      have hd1 := connOpen_pend h1 hd
      simp only []
      repeat' split
      all_goals first
        | exact hR _ _ hd1
        | exact startDo_pend _ _ _ _ _ _ _ _ hd1 (fun s' e h => hR _ _ h) (fun hf => by cases hf)
  · exact hR _ _ hd

theorem closeConn_pend {ap : Api} (s : St) (hd : Pend ap s) : Pend ap (closeConn s) := by
  unfold closeConn
  simp only []
  split <;> simpa [Pend, emit] using hd

theorem clearSession_pend {ap : Api} (s : St) (hd : Pend ap s) : Pend ap (clearSession s) := by
  have h := closeConn_pend s hd
  simpa [Pend, clearSession] using h

theorem playStart_pend {ap : Api} (s : St) (fs k : List Fr) (retK : St → Val → St)
    (hd : Pend ap s) (hR : ∀ s' v, Pend ap s' → BlockedFor ap (retK s' v)) : BlockedFor ap (playStart s fs k retK) := by
  unfold playStart
  split
  · exact startDo_pend _ _ _ _ _ _ _ _ (by simpa [Pend] using hd)
      (fun s' e h => hR _ _ (by simpa [Pend, playUndo] using h)) (fun hf => by cases hf)
  · exact hR _ _ hd

theorem afterReset_pend {ap : Api} (s : St) (n : AfterReset) (k : List Fr)
    (retK : St → Val → St) (hd : Pend ap s) (hR : ∀ s' v, Pend ap s' → BlockedFor ap (retK s' v)) :
    BlockedFor ap (afterReset s n k retK) := by
  have hc := clearSession_pend s hd
  unfold afterReset
  cases n with
  | redirect loc n =>
    cases loc <;> simp only []
    all_goals first
      | exact hR _ _ hc
      | exact describeStart_pend _ _ _ _ _ (by simpa [Pend] using hc) hR
  | switchTcp a =>
    exact describeStart_pend _ _ _ _ _ (by simpa [Pend] using hc) hR
  | switchAll ms =>
    exact describeStart_pend _ _ _ _ _ (by simpa [Pend] using hc) (swEnd_pend retK hR)

theorem resetStart_pend {ap : Api} (c : Cfg) (s : St) (n : AfterReset) (k : List Fr)
    (retK : St → Val → St) (hd : Pend ap s) (hR : ∀ s' v, Pend ap s' → BlockedFor ap (retK s' v)) :
    BlockedFor ap (resetStart c s n k retK) := by
  unfold resetStart
  split
  · exact startDo_pend _ _ _ _ _ _ _ _ hd (fun s' _ h => afterReset_pend _ _ _ _ (by simpa [Pend] using h) hR)
      (fun _ s' h => afterReset_pend _ _ _ _ (by simpa [Pend] using h) hR)
  · exact afterReset_pend _ _ _ _ hd hR

theorem commitSetup_pend (s : St) (a : SetupArgs) (p : Proto) (ch : Nat) (hd : Pend ap s) :
    Pend ap (commitSetup s a p ch) := by
  simpa [Pend, commitSetup] using hd

theorem setupResp_pend {ap : Api} (c : Cfg) (s : St) (a : SetupArgs) (p : Proto) (r : Resp)
    (k : List Fr) (retK : St → Val → St) (hd : Pend ap s) (hR : ∀ s' v, Pend ap s' → BlockedFor ap (retK s' v)) :
    BlockedFor ap (setupResp c s a p r k retK) := by
  unfold setupResp
  split
  · exact hR _ _ (commitSetup_pend _ _ _ _ hd)
  · exact hR _ _ hd
  · exact setupStart_pend _ _ _ _ _ _ (by simpa [Pend] using hd) hR
  · exact resetStart_pend _ _ _ _ _ (by simpa [Pend] using hd) hR

theorem describeResp_pend {ap : Api} (c : Cfg) (s : St) (rd : Nat) (r : Resp) (k : List Fr)
    (retK : St → Val → St) (hd : Pend ap s) (hR : ∀ s' v, Pend ap s' → BlockedFor ap (retK s' v)) :
    BlockedFor ap (describeResp c s rd r k retK) := by
  unfold describeResp
  repeat' split
  all_goals first
    | exact hR _ _ hd
    | exact hR _ _ (by simpa [Pend] using hd)
    | exact resetStart_pend _ _ _ _ _ hd hR

theorem captureSession_pend (s : St) (k : SessK) (hd : Pend ap s) : Pend ap (captureSession s k) := by
  cases k <;> simpa [Pend, captureSession] using hd

theorem doTail_pend {ap : Api} (c : Cfg) (s : St) (m : Meth) (tp : Nat) (r : Resp)
    (k : List Fr) (retK : St → Val → St) (hd : Pend ap s) (hR : ∀ s' v, Pend ap s' → BlockedFor ap (retK s' v)) :
    BlockedFor ap (doTail c s m tp r k retK) := by
  have hd1 := captureSession_pend s r.sess hd
  unfold doTail
  split
  · exact hR _ _ hd
  · simp only []
    split
    · split
      · exact startDo_pend _ _ _ _ _ _ _ _ (by simpa [Pend] using hd1) (fun s' e h => hR _ _ h) (fun hf => by cases hf)
      · exact hR _ _ hd1
    · exact hR _ _ hd1

theorem frameRet_pend {ap : Api} (c : Cfg) (f : Fr) (k : List Fr) (retK : St → Val → St)
    (s : St) (v : Val) (hd : Pend ap s)
    (hR : ∀ s' v, Pend ap s' → BlockedFor ap (retK s' v)) : BlockedFor ap (frameRet c f k retK s v) := by
  have hp : ∀ b, Pend ap (playUndo s b) := fun b => by simpa [Pend, playUndo] using hd
  unfold frameRet
  cases f with
  | wait m n tp => exact hR _ _ hd
  | doOpt m skip tp =>
    cases v <;> simp only []
    all_goals first
      | exact hR _ _ hd
      | (have h2 := sendReq_pend s m tp hd
         split
         · exact hR _ _ h2
         · split
           · exact hR _ _ (by simpa [Pend] using h2)
           · exact blockedFor_wait _ _ _ _ _ h2)
  | optionsK =>
    cases v <;> simp only []
    all_goals first
      | exact hR _ _ hd
      | (repeat' split
         all_goals first
           | exact hR _ _ hd
           | exact hR _ _ (by simpa [Pend] using hd))
  | describeK rd =>
    cases v <;> simp only []
    all_goals first
      | exact hR _ _ hd
      | exact describeResp_pend _ _ _ _ _ _ hd hR
  | announceK =>
    cases v <;> simp only []
    all_goals first
      | exact hR _ _ hd
      | (repeat' split
         all_goals first
           | exact hR _ _ hd
           | exact hR _ _ (by simpa [Pend] using hd))
  | setupK a p =>
    cases v <;> simp only []
    all_goals first
      | exact hR _ _ hd
      | exact setupResp_pend _ _ _ _ _ _ _ hd hR
  | playK =>
    cases v <;> simp only []
    all_goals first
      | exact hR _ _ (hp _)
      | (repeat' split
         all_goals first
           | exact hR _ _ (hp _)
           | exact hR _ _ (by simpa [Pend] using hd))
  | recordK =>
    cases v <;> simp only []
    all_goals first
      | exact hR _ _ (hp _)
      | (repeat' split
         all_goals first
           | exact hR _ _ (hp _)
           | exact hR _ _ (by simpa [Pend] using hd))
  | pauseK =>
    cases v <;> simp only []
    all_goals first
      | exact hR _ _ (by simpa [Pend] using hd)
      | (repeat' split
         all_goals exact hR _ _ (by simpa [Pend] using hd))
  | redescK a =>
    cases v <;> simp only []
    all_goals first
      | exact hR _ _ hd
      | exact setupStart_pend _ _ _ _ _ _ hd hR
  | resetK n saved => exact afterReset_pend _ _ _ _ (by simpa [Pend] using hd) hR
  | swDescK ms =>
    cases v <;> simp only []
    all_goals first
      | exact runExit_blockedFor _ _ _
      | (cases ms <;> simp only []
         all_goals first
           | exact playStart_pend _ _ _ _ hd (swEnd_pend retK hR)
           | exact setupStart_pend _ _ _ _ _ _ hd (swEnd_pend retK hR))
  | swSetupK rest =>
    cases v <;> simp only []
    all_goals first
      | exact runExit_blockedFor _ _ _
      | (cases rest <;> simp only []
         all_goals first
           | exact playStart_pend _ _ _ _ hd (swEnd_pend retK hR)
           | exact setupStart_pend _ _ _ _ _ _ hd (swEnd_pend retK hR))
  | swPlayK =>
    cases v <;> simp only []
    all_goals first
      | exact runExit_blockedFor _ _ _
      | exact hR _ _ hd


end Rtsp.ClientSm
