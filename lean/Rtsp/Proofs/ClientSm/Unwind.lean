import Rtsp.Model.ClientSm
/-
Unwinding lemmas for the client model: what `resume` (returning a value into the call stack of the
run loop) can lead to.  Every helper of the model is written in continuation-passing style
(`retK` = return into the callers), so each lemma has the form
    (what holds of the states handed to the continuations) → (what holds of the result).
-/
namespace Rtsp.ClientSm

/-- the context is cancelled: the run loop is on its way out, nothing blocks any more -/
def Dying (s : St) : Prop := s.ctxDone = true

theorem connOpen_dying {s s1 : St} (h : connOpen s = some s1) (hd : Dying s) : Dying s1 := by
  unfold connOpen at h
  split at h
  · cases h; exact hd
  · split at h
    · cases h; simpa [Dying, emit] using hd
    · cases h

theorem sendReq_dying (s : St) (m : Meth) (tp : Nat) (hd : Dying s) : Dying (sendReq s m tp) := by
  simpa [Dying, sendReq, emit] using hd

theorem startDo_dying {P : St → Prop} (s : St) (m : Meth) (skip : Bool) (tp : Nat) (fs k : List Fr)
    (onErr : St → Err → St) (onSkip : St → St) (hd : Dying s)
    (hE : ∀ s' e, Dying s' → P (onErr s' e)) (hS : skip = true → ∀ s', Dying s' → P (onSkip s')) :
    P (startDo s m skip tp fs k onErr onSkip) := by
  unfold startDo
  split
  · split
    · split
      · exact hE _ _ hd
      · rename_i s1 h1
        have h2 := sendReq_dying s1 .options 0 (connOpen_dying h1 hd)
        have h3 : (sendReq s1 .options 0).ctxDone = true := h2
        simp only [h3, if_true]
        exact hE _ _ (by simpa [Dying] using h2)
    · exact hE _ _ hd
  · have h2 := sendReq_dying s m tp hd
    have h3 : (sendReq s m tp).ctxDone = true := h2
    simp only []
    split
    · rename_i hsk
      exact hS hsk _ h2
    · simp only [h3, if_true]
      exact hE _ _ (by simpa [Dying] using h2)

theorem describeStart_dying {P : St → Prop} (s : St) (rd : Nat) (fs k : List Fr) (retK : St → Val → St)
    (hd : Dying s) (hR : ∀ s' v, Dying s' → P (retK s' v)) : P (describeStart s rd fs k retK) := by
  unfold describeStart
  split
  · split
    · exact hR _ _ hd
    · rename_i s1 h1
      exact startDo_dying _ _ _ _ _ _ _ _ (connOpen_dying h1 hd) (fun s' e h => hR _ _ h) (fun hf => by cases hf)
  · exact hR _ _ hd

theorem setupStart_dying {P : St → Prop} (c : Cfg) (s : St) (a : SetupArgs) (fs k : List Fr)
    (retK : St → Val → St) (hd : Dying s) (hR : ∀ s' v, Dying s' → P (retK s' v)) :
    P (setupStart c s a fs k retK) := by
  unfold setupStart
  split
  · split
    · exact hR _ _ hd
    · rename_i s1 h1
      have hd1 := connOpen_dying h1 hd
      simp only []
      repeat' split
      all_goals first
        | exact hR _ _ hd1
        | exact startDo_dying _ _ _ _ _ _ _ _ hd1 (fun s' e h => hR _ _ h) (fun hf => by cases hf)
  · exact hR _ _ hd

theorem closeConn_dying (s : St) (hd : Dying s) : Dying (closeConn s) := by
  unfold closeConn
  simp only []
  split <;> simpa [Dying, emit] using hd

theorem clearSession_dying (s : St) (hd : Dying s) : Dying (clearSession s) := by
  have h := closeConn_dying s hd
  simpa [Dying, clearSession] using h

theorem swEnd_dying {P : St → Prop} (retK : St → Val → St)
    (hR : ∀ s' v, Dying s' → P (retK s' v)) (hX : ∀ s' e, P (runExit s' (some e))) :
    ∀ s' v, Dying s' → P (swEnd retK s' v) := by
  intro s' v hd
  unfold swEnd
  cases v <;> simp only []
  all_goals first
    | exact hX _ _
    | exact hR _ _ hd

theorem playStart_dying {P : St → Prop} (s : St) (fs k : List Fr) (retK : St → Val → St)
    (hd : Dying s) (hR : ∀ s' v, Dying s' → P (retK s' v)) : P (playStart s fs k retK) := by
  unfold playStart
  split
  · exact startDo_dying _ _ _ _ _ _ _ _ (by simpa [Dying] using hd)
      (fun s' e h => hR _ _ (by simpa [Dying, playUndo] using h)) (fun hf => by cases hf)
  · exact hR _ _ hd

theorem afterReset_dying {P : St → Prop} (s : St) (n : AfterReset) (k : List Fr)
    (retK : St → Val → St) (hd : Dying s) (hR : ∀ s' v, Dying s' → P (retK s' v))
    (hX : ∀ s' e, P (runExit s' (some e))) :
    P (afterReset s n k retK) := by
  have hc := clearSession_dying s hd
  unfold afterReset
  cases n with
  | redirect loc n =>
    cases loc <;> simp only []
    all_goals first
      | exact hR _ _ hc
      | exact describeStart_dying _ _ _ _ _ (by simpa [Dying] using hc) hR
  | switchTcp a =>
    exact describeStart_dying _ _ _ _ _ (by simpa [Dying] using hc) hR
  | switchAll ms =>
    exact describeStart_dying _ _ _ _ _ (by simpa [Dying] using hc) (swEnd_dying retK hR hX)

theorem resetStart_dying {P : St → Prop} (c : Cfg) (s : St) (n : AfterReset) (k : List Fr)
    (retK : St → Val → St) (hd : Dying s) (hR : ∀ s' v, Dying s' → P (retK s' v))
    (hX : ∀ s' e, P (runExit s' (some e))) :
    P (resetStart c s n k retK) := by
  unfold resetStart
  split
  · exact startDo_dying _ _ _ _ _ _ _ _ hd (fun s' _ h => afterReset_dying _ _ _ _ (by simpa [Dying] using h) hR hX)
      (fun _ s' h => afterReset_dying _ _ _ _ (by simpa [Dying] using h) hR hX)
  · exact afterReset_dying _ _ _ _ hd hR hX

theorem commitSetup_dying (s : St) (a : SetupArgs) (p : Proto) (ch : Nat) (hd : Dying s) :
    Dying (commitSetup s a p ch) := by
  simpa [Dying, commitSetup] using hd

theorem setupResp_dying {P : St → Prop} (c : Cfg) (s : St) (a : SetupArgs) (p : Proto) (r : Resp)
    (k : List Fr) (retK : St → Val → St) (hd : Dying s) (hR : ∀ s' v, Dying s' → P (retK s' v))
    (hX : ∀ s' e, P (runExit s' (some e))) :
    P (setupResp c s a p r k retK) := by
  unfold setupResp
  split
  · exact hR _ _ (commitSetup_dying _ _ _ _ hd)
  · exact hR _ _ hd
  · exact setupStart_dying _ _ _ _ _ _ (by simpa [Dying] using hd) hR
  · exact resetStart_dying _ _ _ _ _ (by simpa [Dying] using hd) hR hX

theorem describeResp_dying {P : St → Prop} (c : Cfg) (s : St) (rd : Nat) (r : Resp) (k : List Fr)
    (retK : St → Val → St) (hd : Dying s) (hR : ∀ s' v, Dying s' → P (retK s' v))
    (hX : ∀ s' e, P (runExit s' (some e))) :
    P (describeResp c s rd r k retK) := by
  unfold describeResp
  repeat' split
  all_goals first
    | exact hR _ _ hd
    | exact hR _ _ (by simpa [Dying] using hd)
    | exact resetStart_dying _ _ _ _ _ hd hR hX

theorem captureSession_dying (s : St) (k : SessK) (hd : Dying s) : Dying (captureSession s k) := by
  cases k <;> simpa [Dying, captureSession] using hd

theorem doTail_dying {P : St → Prop} (c : Cfg) (s : St) (m : Meth) (tp : Nat) (r : Resp)
    (k : List Fr) (retK : St → Val → St) (hd : Dying s) (hR : ∀ s' v, Dying s' → P (retK s' v)) :
    P (doTail c s m tp r k retK) := by
  have hd1 := captureSession_dying s r.sess hd
  unfold doTail
  split
  · exact hR _ _ hd
  · simp only []
    split
    · split
      · exact startDo_dying _ _ _ _ _ _ _ _ (by simpa [Dying] using hd1) (fun s' e h => hR _ _ h) (fun hf => by cases hf)
      · exact hR _ _ hd1
    · exact hR _ _ hd1

theorem frameRet_dying {P : St → Prop} (c : Cfg) (f : Fr) (k : List Fr) (retK : St → Val → St)
    (s : St) (v : Val) (hd : Dying s)
    (hR : ∀ s' v, Dying s' → P (retK s' v)) (hX : ∀ s' e, P (runExit s' (some e))) :
    P (frameRet c f k retK s v) := by
  have hp : ∀ b, Dying (playUndo s b) := fun b => by simpa [Dying, playUndo] using hd
  unfold frameRet
  cases f with
  | wait m n tp => exact hR _ _ hd
  | doOpt m skip tp =>
    cases v <;> simp only []
    all_goals first
      | exact hR _ _ hd
      | (have h2 := sendReq_dying s m tp hd
         have h3 : (sendReq s m tp).ctxDone = true := h2
         split
         · exact hR _ _ h2
         · simp only [h3, if_true]
           exact hR _ _ (by simpa [Dying] using h2))
  | optionsK =>
    cases v <;> simp only []
    all_goals first
      | exact hR _ _ hd
      | (repeat' split
         all_goals first
           | exact hR _ _ hd
           | exact hR _ _ (by simpa [Dying] using hd))
  | describeK rd =>
    cases v <;> simp only []
    all_goals first
      | exact hR _ _ hd
      | exact describeResp_dying _ _ _ _ _ _ hd hR hX
  | announceK =>
    cases v <;> simp only []
    all_goals first
      | exact hR _ _ hd
      | (repeat' split
         all_goals first
           | exact hR _ _ hd
           | exact hR _ _ (by simpa [Dying] using hd))
  | setupK a p =>
    cases v <;> simp only []
    all_goals first
      | exact hR _ _ hd
      | exact setupResp_dying _ _ _ _ _ _ _ hd hR hX
  | playK =>
    cases v <;> simp only []
    all_goals first
      | exact hR _ _ (hp _)
      | (repeat' split
         all_goals first
           | exact hR _ _ (hp _)
           | exact hR _ _ (by simpa [Dying] using hd))
  | recordK =>
    cases v <;> simp only []
    all_goals first
      | exact hR _ _ (hp _)
      | (repeat' split
         all_goals first
           | exact hR _ _ (hp _)
           | exact hR _ _ (by simpa [Dying] using hd))
  | pauseK =>
    cases v <;> simp only []
    all_goals first
      | exact hR _ _ (by simpa [Dying] using hd)
      | (repeat' split
         all_goals exact hR _ _ (by simpa [Dying] using hd))
  | redescK a =>
    cases v <;> simp only []
    all_goals first
      | exact hR _ _ hd
      | exact setupStart_dying _ _ _ _ _ _ hd hR
  | resetK n saved => exact afterReset_dying _ _ _ _ (by simpa [Dying] using hd) hR hX
  | swDescK ms =>
    cases v <;> simp only []
    all_goals first
      | exact hX _ _
      | (cases ms <;> simp only []
         all_goals first
           | exact playStart_dying _ _ _ _ hd (swEnd_dying retK hR hX)
           | exact setupStart_dying _ _ _ _ _ _ hd (swEnd_dying retK hR hX))
  | swSetupK rest =>
    cases v <;> simp only []
    all_goals first
      | exact hX _ _
      | (cases rest <;> simp only []
         all_goals first
           | exact playStart_dying _ _ _ _ hd (swEnd_dying retK hR hX)
           | exact setupStart_dying _ _ _ _ _ _ hd (swEnd_dying retK hR hX))
  | swPlayK =>
    cases v <;> simp only []
    all_goals first
      | exact hX _ _
      | exact hR _ _ hd


/-! ### the same for error values only: under `Dying` every helper hands an ERROR to its continuation -/

theorem describeStart_dyingE {P : St → Prop} (s : St) (rd : Nat) (fs k : List Fr) (retK : St → Val → St)
    (hd : Dying s) (hR : ∀ s' e, Dying s' → P (retK s' (.err e))) : P (describeStart s rd fs k retK) := by
  unfold describeStart
  split
  · split
    · exact hR _ _ hd
    · rename_i s1 h1
      exact startDo_dying _ _ _ _ _ _ _ _ (connOpen_dying h1 hd) (fun s' e h => hR _ _ h) (fun hf => by cases hf)
  · exact hR _ _ hd

theorem afterReset_dyingE {P : St → Prop} (s : St) (n : AfterReset) (k : List Fr)
    (retK : St → Val → St) (hd : Dying s) (hR : ∀ s' e, Dying s' → P (retK s' (.err e)))
    (hX : ∀ s' e, P (runExit s' (some e))) :
    P (afterReset s n k retK) := by
  have hc := clearSession_dying s hd
  unfold afterReset
  cases n with
  | redirect loc n =>
    cases loc <;> simp only []
    all_goals first
      | exact hR _ _ hc
      | exact describeStart_dyingE _ _ _ _ _ (by simpa [Dying] using hc) hR
  | switchTcp a =>
    exact describeStart_dyingE _ _ _ _ _ (by simpa [Dying] using hc) hR
  | switchAll ms =>
    exact describeStart_dyingE _ _ _ _ _ (by simpa [Dying] using hc) (fun s' e _ => by simpa [swEnd] using hX s' e)

theorem frameRet_dyingE {P : St → Prop} (c : Cfg) (f : Fr) (k : List Fr) (retK : St → Val → St)
    (s : St) (e : Err) (hd : Dying s)
    (hR : ∀ s' e, Dying s' → P (retK s' (.err e))) (hX : ∀ s' e, P (runExit s' (some e))) :
    P (frameRet c f k retK s (.err e)) := by
  have hp : ∀ b, Dying (playUndo s b) := fun b => by simpa [Dying, playUndo] using hd
  unfold frameRet
  cases f <;> simp only []
  all_goals first
    | exact hR _ _ hd
    | exact hR _ _ (hp _)
    | exact hR _ _ (by simpa [Dying] using hd)
    | exact afterReset_dyingE _ _ _ _ (by simpa [Dying] using hd) hR hX
    | exact hX _ _

end Rtsp.ClientSm
