import Rtsp.Model.ClientSm
/-
A silent server: how many timeouts does it take until the run loop stops waiting?
An error returned into a stack travels up through the caller frames; only a `reset` frame ignores
it and goes on (with a new connection), and below a `reset` frame there is no other one.  So the first
timeout ends the call unless a reset was in progress, and the second one ends it in any case.
-/
namespace Rtsp.ClientSm

/-- no `reset` frame -/
def Calm1 (k : List Fr) : Prop := ∀ f ∈ k, ∀ n b, f ≠ .resetK n b

/-- the loop is not inside waitResponse, or it is and no reset is in progress -/
def Settled (s : St) : Prop := waiting s = false ∨ ∃ m n tp k, s.stack = .wait m n tp :: k ∧ Calm1 k

theorem calm1_tail {f : Fr} {k : List Fr} (h : Calm1 (f :: k)) : Calm1 k :=
  fun g hg => h g (List.mem_cons_of_mem _ hg)

theorem calm1_cons {f : Fr} {k : List Fr} (hf : ∀ n b, f ≠ .resetK n b) (hk : Calm1 k) : Calm1 (f :: k) := by
  intro g hg
  rcases List.mem_cons.mp hg with rfl | hg
  · exact hf
  · exact hk g hg

theorem calm1_append {a b : List Fr} (ha : Calm1 a) (hb : Calm1 b) : Calm1 (a ++ b) := by
  intro g hg
  rcases List.mem_append.mp hg with hg | hg
  · exact ha g hg
  · exact hb g hg

theorem waiting_runExit (s : St) (e : Res) : waiting (runExit s e) = false := by
  have : (runExit s e).closed = true := by
    simp only [runExit, closeConn, sendReq, emit]
    repeat' split
    all_goals simp_all
  simp [waiting, this]

theorem settled_runExit (s : St) (e : Res) : Settled (runExit s e) := Or.inl (waiting_runExit s e)

theorem settled_wait (s : St) (m : Meth) (n tp : Nat) (k : List Fr) (hk : Calm1 k) :
    Settled { s with stack := .wait m n tp :: k } := Or.inr ⟨m, n, tp, k, rfl, hk⟩

theorem handOver_stack' (s : St) (r : Res) : (handOver s r).stack = [] := by
  unfold handOver
  cases s.pending <;> simp [emit]

theorem waiting_deliver (s : St) (v : Val) : waiting (deliver s v) = false := by
  unfold deliver
  simp only []
  repeat' split
  all_goals first
    | exact waiting_runExit _ _
    | simp [waiting, handOver_stack']

/-! ### Lemma A: an error returned into a stack without reset frames ends the waiting -/

theorem frameRet_err_calm (c : Cfg) (f : Fr) (k : List Fr) (retK : St → Val → St) (s : St) (e : Err)
    (hf : ∀ n b, f ≠ .resetK n b) :
    (∃ s', frameRet c f k retK s (.err e) = retK s' (.err e)) ∨
    (∃ s' e', frameRet c f k retK s (.err e) = runExit s' (some e')) := by
  cases f
  all_goals first
    | exact Or.inl ⟨_, rfl⟩
    | exact Or.inr ⟨_, _, rfl⟩
    | exact absurd rfl (hf _ _)

theorem resume_err_not_waiting (c : Cfg) (k : List Fr) (hk : Calm1 k) :
    ∀ s e, waiting (resume c k s (.err e)) = false := by
  induction k with
  | nil => intro s e; exact waiting_deliver _ _
  | cons f k ih =>
    intro s e
    simp only [resume]
    rcases frameRet_err_calm c f k (resume c k) s e (hk f (List.mem_cons_self ..)) with ⟨s', h⟩ | ⟨s', e', h⟩
    · rw [h]; exact ih (calm1_tail hk) _ _
    · rw [h]; exact waiting_runExit _ _

/-! ### Lemma B: with one reset frame, the error ends the waiting or leaves a wait without reset -/

theorem startDo_settled (s : St) (m : Meth) (skip : Bool) (tp : Nat) (fs k : List Fr)
    (onErr : St → Err → St) (onSkip : St → St) (hk : Calm1 (fs ++ k))
    (hE : ∀ s' e, Settled (onErr s' e)) (hS : skip = true → ∀ s', Settled (onSkip s')) :
    Settled (startDo s m skip tp fs k onErr onSkip) := by
  unfold startDo
  split
  · split
    · split
      · exact hE _ _
      · simp only []
        split
        · exact hE _ _
        · exact settled_wait _ _ _ _ _
            (calm1_cons (by intro n b h; cases h) (calm1_cons (by intro n b h; cases h) hk))
    · exact hE _ _
  · simp only []
    split
    · rename_i hsk
      exact hS hsk _
    · split
      · exact hE _ _
      · exact settled_wait _ _ _ _ _ hk

theorem describeStart_settled (s : St) (rd : Nat) (fs k : List Fr) (retK : St → Val → St)
    (hk : Calm1 (fs ++ k)) (hR : ∀ s' e, Settled (retK s' (.err e))) :
    Settled (describeStart s rd fs k retK) := by
  unfold describeStart
  repeat' split
  all_goals first
    | exact hR _ _
    | exact startDo_settled _ _ _ _ _ _ _ _ (calm1_cons (by intro n b h; cases h) hk)
        (fun s' e => hR _ _) (fun hf => by cases hf)

theorem afterReset_settled (s : St) (n : AfterReset) (k : List Fr) (retK : St → Val → St)
    (hk : Calm1 k) (hR : ∀ s' e, Settled (retK s' (.err e))) :
    Settled (afterReset s n k retK) := by
  unfold afterReset
  cases n with
  | redirect loc n =>
    cases loc <;> simp only []
    all_goals first
      | exact hR _ _
      | exact describeStart_settled _ _ _ _ _ (by simpa using hk) hR
  | switchTcp a =>
    exact describeStart_settled _ _ _ _ _ (calm1_cons (by intro n b h; cases h) hk) hR
  | switchAll ms =>
    exact describeStart_settled _ _ _ _ _ (calm1_cons (by intro n b h; cases h) hk)
      (fun s' e => by simpa [swEnd] using settled_runExit s' (some e))

/-- every `reset` frame has only non-reset frames below it (at most one reset is in progress) -/
def AtMostOneReset : List Fr → Prop
  | [] => True
  | .resetK _ _ :: k => Calm1 k
  | _ :: k => AtMostOneReset k

theorem settled_of_not_waiting {s : St} (h : waiting s = false) : Settled s := Or.inl h

theorem resume_err_settled (c : Cfg) (k : List Fr) (hk : AtMostOneReset k) :
    ∀ s e, Settled (resume c k s (.err e)) := by
  induction k with
  | nil => intro s e; exact settled_of_not_waiting (waiting_deliver _ _)
  | cons f k ih =>
    intro s e
    simp only [resume]
    cases f with
    | resetK n saved =>
      have hc : Calm1 k := hk
      exact afterReset_settled _ _ _ _ hc (fun s' e' => settled_of_not_waiting (resume_err_not_waiting c k hc s' e'))
    | wait m n tp => exact ih hk _ _
    | doOpt m skip tp => exact ih hk _ _
    | optionsK => exact ih hk _ _
    | describeK rd => exact ih hk _ _
    | announceK => exact ih hk _ _
    | setupK a p => exact ih hk _ _
    | playK => exact ih hk _ _
    | recordK => exact ih hk _ _
    | pauseK => exact ih hk _ _
    | redescK a => exact ih hk _ _
    | swDescK ms => exact settled_runExit _ _
    | swSetupK rest => exact settled_runExit _ _
    | swPlayK => exact settled_runExit _ _

end Rtsp.ClientSm
