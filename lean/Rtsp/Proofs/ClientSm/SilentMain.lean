import Rtsp.Proofs.ClientSm.WF
/-
Stack well-formedness is an invariant of the run loop; two timeouts end any wait.
-/
namespace Rtsp.ClientSm

theorem startApi_wfs (c : Cfg) (s : St) (a : Api) : WFs (startApi c s a) := by
  have hR := resume_wfs c [] trivial
  have hc : Calm1 ([] : List Fr) := fun f hf => by cases hf
  unfold startApi
  cases a with
  | options =>
    simp only []
    repeat' split
    all_goals first
      | exact hR _ _
      | exact startDo_wfs _ _ _ _ _ _ _ _ (by simp [WF]) (fun s' e => hR _ _) (fun hf => by cases hf)
  | describe => exact describeStart_wfs _ _ _ _ _ (by simpa using hc) hR
  | announce =>
    simp only []
    repeat' split
    all_goals first
      | exact hR _ _
      | exact startDo_wfs _ _ _ _ _ _ _ _ (by simpa [WF] using hc) (fun s' e => hR _ _) (fun hf => by cases hf)
  | setup a => exact setupStart_wfs _ _ _ _ _ _ (by simpa using hc) hR
  | play => exact playStart_wfs _ _ _ _ (by simpa using hc) hR
  | record =>
    simp only []
    repeat' split
    all_goals first
      | exact hR _ _
      | exact startDo_wfs _ _ _ _ _ _ _ _ (by simpa [WF] using hc) (fun s' e => hR _ _) (fun hf => by cases hf)
  | pause =>
    simp only []
    repeat' split
    all_goals first
      | exact hR _ _
      | exact startDo_wfs _ _ _ _ _ _ _ _ (by simpa [WF] using hc) (fun s' e => hR _ _) (fun hf => by cases hf)

theorem wfs_emit (s : St) (o : Out) (h : WFs s) : WFs (emit s o) := by simpa [WFs, emit] using h

theorem checkTimeout_wfs (c : Cfg) (s : St) (got stale : Bool) (h : WFs s) :
    WFs (checkTimeout c s got stale) := by
  simp only [checkTimeout, switchStart]
  repeat' split
  all_goals first
    | exact h
    | exact wfs_runExit _ _
    | (simpa [WFs] using h)
    | exact resetStart_wfs c _ _ _ _ (fun f hf => by cases hf) (resume_wfs c [] trivial)

theorem step_wfs (c : Cfg) (s : St) (e : Ev) (h : WFs s) : WFs (step c s e) := by
  unfold step
  split
  · cases e <;> simp only []
    all_goals first
      | exact h
      | exact wfs_emit _ _ h
  · split
    · cases e with
      | call a => exact startApi_wfs c s a
      | resp r => exact h
      | sreq o =>
        cases o
        · exact wfs_runExit _ _
        · exact wfs_emit _ _ h
      | frame ch =>
        simp only []
        split
        · exact h
        · exact wfs_runExit _ _
      | readErr => exact wfs_runExit _ _
      | timer => exact h
      | liveness got stale => exact checkTimeout_wfs c s got stale h
      | close => exact wfs_runExit _ _
    · rename_i m n tp k hst
      have hk : WF k := by
        have := h
        simp only [WFs, hst, WF] at this
        exact this
      have hR := resume_wfs c k hk
      cases e with
      | call a => exact h
      | resp r =>
        simp only []
        split
        · exact doTail_wfs _ _ _ _ _ _ _ hk hR
        · exact h
      | sreq o =>
        cases o
        · exact hR _ _
        · exact wfs_emit _ _ h
      | frame ch =>
        simp only []
        split
        · exact h
        · exact hR _ _
      | readErr => exact hR _ _
      | timer => exact hR _ _
      | liveness got stale => exact h
      | close => exact hR _ _
    · exact h

theorem run_wfs (c : Cfg) (es : List Ev) : ∀ s, WFs s → WFs (run c s es) := by
  induction es with
  | nil => intro s h; exact h
  | cons e es ih => intro s h; exact ih _ (step_wfs c s e h)

theorem not_waiting_timer (c : Cfg) (s : St) (h : waiting s = false) : waiting (step c s .timer) = false := by
  unfold step
  split
  · exact h
  · split
    · exact h
    · rename_i hc m n tp k hst
      simp [waiting, hst] at h
      simp_all
    · exact h

/-- one timeout settles the loop (no wait left, or a wait without reset in progress); a second one ends
the waiting -/
theorem timer_settles (c : Cfg) (s : St) (h : WFs s) : Settled (step c s .timer) := by
  unfold step
  split
  · rename_i hc
    exact Or.inl (by simp [waiting, hc])
  · split
    · rename_i hst
      exact Or.inl (by simp [waiting, hst])
    · rename_i m n tp k hst
      have hk : WF k := by
        have := h
        simp only [WFs, hst, WF] at this
        exact this
      exact resume_err_settled c k (amo_of_wf k hk) _ _
    · rename_i hc h1 h2
      -- neither idle nor waiting: such a state is not reachable, but it is not waiting either
      refine Or.inl ?_
      cases hs : s.stack with
      | nil => exact absurd hs h1
      | cons f k =>
        cases f <;> simp [waiting, hs]
        exact absurd hs (h2 _ _ _ _)

theorem settled_timer (c : Cfg) (s : St) (h : Settled s) : waiting (step c s .timer) = false := by
  rcases h with h | ⟨m, n, tp, k, hst, hk⟩
  · exact not_waiting_timer c s h
  · unfold step
    split
    · rename_i hc
      simp [waiting, hc]
    · simp only [hst, waitFail]
      exact resume_err_not_waiting c k hk _ _

end Rtsp.ClientSm
