import Rtsp.Proofs.ClientSm.Unwind
import Rtsp.Proofs.ClientSm.Blocked
import Rtsp.Proofs.ClientSm.Pending
/-
Consequences of the unwinding lemmas: invariants of `step`, Close, the timer.
-/
namespace Rtsp.ClientSm

/-! ### runExit / deliver -/

theorem runExit_fields (s : St) (e : Res) :
    (runExit s e).closed = true ∧ (runExit s e).closeRes = e ∧ (runExit s e).conn = false ∧
    (runExit s e).reader = false ∧ (runExit s e).allow = false ∧ (runExit s e).stack = [] ∧
    (runExit s e).pending = s.pending ∧ (∀ o ∈ s.out, o ∈ (runExit s e).out) := by
  simp only [runExit, closeConn, sendReq, emit]
  repeat' split
  all_goals simp_all

theorem handOver_flags (s : St) (r : Res) :
    (handOver s r).mustClose = s.mustClose ∧ (handOver s r).ctxDone = s.ctxDone := by
  unfold handOver
  cases s.pending <;> simp [emit]

theorem deliver_dying (s : St) (v : Val) (hd : Dying s) :
    (deliver s v).closed = true ∧
    ((deliver s v).closeRes = valRes v ∨ (deliver s v).closeRes = some .terminated) := by
  have hc : (handOver s (valRes v)).ctxDone = true := by rw [(handOver_flags _ _).2]; exact hd
  unfold deliver
  simp only [hc, if_true]
  split
  · exact ⟨(runExit_fields _ _).1, Or.inl (runExit_fields _ _).2.1⟩
  · exact ⟨(runExit_fields _ _).1, Or.inr (runExit_fields _ _).2.1⟩

/-- Once the context is cancelled, returning ANY value into ANY stack ends with the client closed:
nothing can block any more. -/
theorem resume_dying (c : Cfg) (k : List Fr) :
    ∀ s v, Dying s → (resume c k s v).closed = true := by
  induction k with
  | nil => intro s v hd; exact (deliver_dying s v hd).1
  | cons f k ih =>
    intro s v hd
    simp only [resume]
    exact frameRet_dying (P := fun r => r.closed = true) _ _ _ _ _ _ hd ih
      (fun s' e => (runExit_fields s' (some e)).1)

/-! ### the loop waits only on behalf of the call it serves -/

theorem deliver_blockedFor (ap : Api) (s : St) (v : Val) : BlockedFor ap (deliver s v) := by
  left
  unfold deliver
  simp only []
  repeat' split
  all_goals first
    | exact (runExit_fields _ _).2.2.2.2.2.1
    | exact handOver_stack _ _

theorem resume_pend (c : Cfg) (ap : Api) (k : List Fr) :
    ∀ s v, Pend ap s → BlockedFor ap (resume c k s v) := by
  induction k with
  | nil => intro s v _; exact deliver_blockedFor ap s v
  | cons f k ih =>
    intro s v hd
    simp only [resume]
    exact frameRet_pend _ _ _ _ _ _ hd ih

theorem startApi_blockedFor (c : Cfg) (s : St) (a : Api) : BlockedFor a (startApi c s a) := by
  have hp : Pend a { s with pending := some a } := rfl
  have hR := resume_pend c a []
  unfold startApi
  cases a with
  | options =>
    simp only []
    repeat' split
    all_goals first
      | exact hR _ _ hp
      | (rename_i s1 h1
         exact startDo_pend _ _ _ _ _ _ _ _ (connOpen_pend h1 hp) (fun s' e h => hR _ _ h) (fun hf => by cases hf))
  | describe => exact describeStart_pend _ _ _ _ _ hp hR
  | announce =>
    simp only []
    repeat' split
    all_goals first
      | exact hR _ _ hp
      | (rename_i s1 h1
         exact startDo_pend _ _ _ _ _ _ _ _ (connOpen_pend h1 hp) (fun s' e h => hR _ _ h) (fun hf => by cases hf))
  | setup a => exact setupStart_pend _ _ _ _ _ _ hp hR
  | play => exact playStart_pend _ _ _ _ hp hR
  | record =>
    simp only []
    repeat' split
    all_goals first
      | exact hR _ _ hp
      | exact startDo_pend _ _ _ _ _ _ _ _ (by simpa [Pend] using hp) (fun s' e h => hR _ _ (by simpa [Pend, playUndo] using h)) (fun hf => by cases hf)
  | pause =>
    simp only []
    repeat' split
    all_goals first
      | exact hR _ _ hp
      | exact startDo_pend _ _ _ _ _ _ _ _ (by simpa [Pend] using hp) (fun s' e h => hR _ _ (by simpa [Pend] using h)) (fun hf => by cases hf)

theorem startApi_blocked (c : Cfg) (s : St) (a : Api) : Blocked (startApi c s a) := by
  have hR := resume_blocked c []
  unfold startApi
  cases a with
  | options =>
    simp only []
    repeat' split
    all_goals first
      | exact hR _ _
      | exact startDo_blocked _ _ _ _ _ _ _ _ (fun s' e => hR _ _) (fun hf => by cases hf)
  | describe => exact describeStart_blocked _ _ _ _ _ hR
  | announce =>
    simp only []
    repeat' split
    all_goals first
      | exact hR _ _
      | exact startDo_blocked _ _ _ _ _ _ _ _ (fun s' e => hR _ _) (fun hf => by cases hf)
  | setup a => exact setupStart_blocked _ _ _ _ _ _ hR
  | play => exact playStart_blocked _ _ _ _ hR
  | record =>
    simp only []
    repeat' split
    all_goals first
      | exact hR _ _
      | exact startDo_blocked _ _ _ _ _ _ _ _ (fun s' e => hR _ _) (fun hf => by cases hf)
  | pause =>
    simp only []
    repeat' split
    all_goals first
      | exact hR _ _
      | exact startDo_blocked _ _ _ _ _ _ _ _ (fun s' e => hR _ _) (fun hf => by cases hf)

theorem checkTimeout_blocked (c : Cfg) (s : St) (got stale : Bool) (h : Blocked s) :
    Blocked (checkTimeout c s got stale) := by
  simp only [checkTimeout, switchStart]
  repeat' split
  all_goals first
    | exact h
    | exact runExit_blocked _ _
    | (rcases h with h | ⟨m, n, tp, k, h⟩
       · exact Or.inl (by simpa using h)
       · exact Or.inr ⟨m, n, tp, k, by simpa using h⟩)
    | exact resetStart_blocked c _ _ _ _ (resume_blocked c [])

/-- invariant of the run loop: it is always at a blocking point — idle / closed (empty stack) or
inside waitResponse (`wait` on top of the stack) -/
def Inv (s : St) : Prop := Blocked s

theorem inv_runExit (s : St) (e : Res) : Inv (runExit s e) := runExit_blocked s e

theorem blocked_emit (s : St) (o : Out) (h : Blocked s) : Blocked (emit s o) := by
  rcases h with h | ⟨m, n, tp, k, h⟩
  · exact Or.inl (by simpa [emit] using h)
  · exact Or.inr ⟨m, n, tp, k, by simpa [emit] using h⟩

theorem step_inv (c : Cfg) (s : St) (e : Ev) (h : Inv s) : Inv (step c s e) := by
  unfold step
  split
  · cases e <;> simp only []
    all_goals first
      | exact h
      | exact blocked_emit _ _ h
  · split
    · -- idle
      cases e with
      | call a => exact startApi_blocked c s a
      | resp r => exact h
      | sreq o =>
        cases o
        · exact inv_runExit _ _
        · exact blocked_emit _ _ h
      | frame ch =>
        simp only []
        split
        · exact h
        · exact inv_runExit _ _
      | readErr => exact inv_runExit _ _
      | timer => exact h
      | liveness got stale => exact checkTimeout_blocked c s got stale h
      | close => exact inv_runExit _ _
    · -- waiting
      rename_i m n tp k hst
      have hR := resume_blocked c k
      cases e with
      | call a => exact h
      | resp r =>
        simp only []
        split
        · exact doTail_blocked _ _ _ _ _ _ _ hR
        · exact h
      | sreq o =>
        cases o
        · exact hR _ _
        · exact blocked_emit _ _ h
      | frame ch =>
        simp only []
        split
        · exact h
        · exact hR _ _
      | readErr => exact hR _ _
      | timer => exact hR _ _
      | liveness got stale => exact h
      | close => exact hR _ _
    · exact h

theorem run_inv (c : Cfg) (es : List Ev) : ∀ s, Inv s → Inv (run c s es) := by
  induction es with
  | nil => intro s h; exact h
  | cons e es ih => intro s h; exact ih _ (step_inv c s e h)

/-- while an API call is being served the loop waits only on ITS behalf: after any event the loop is
idle / closed again or still waiting for the same call -/
theorem step_keeps_pending (c : Cfg) (s : St) (e : Ev) (m : Meth) (n tp : Nat) (k : List Fr) (ap : Api)
    (hc : s.closed = false) (hst : s.stack = .wait m n tp :: k) (hap : s.pending = some ap) :
    BlockedFor ap (step c s e) := by
  have hself : BlockedFor ap s := Or.inr ⟨⟨m, n, tp, k, hst⟩, hap⟩
  unfold step
  split
  · rename_i h; rw [hc] at h; cases h
  · split
    · rename_i h; rw [hst] at h; cases h
    · rename_i m' n' tp' k' hst'
      have hR := resume_pend c ap k'
      cases e with
      | call a => exact hself
      | resp r =>
        simp only []
        split
        · exact doTail_pend _ _ _ _ _ _ _ (by simpa [Pend] using hap) hR
        · exact hself
      | sreq o =>
        cases o
        · exact hR _ _ (by simpa [Pend] using hap)
        · exact Or.inr ⟨⟨m, n, tp, k, by simpa [emit] using hst⟩, by simpa [emit] using hap⟩
      | frame ch =>
        simp only []
        split
        · exact hself
        · exact hR _ _ (by simpa [Pend] using hap)
      | readErr => exact hR _ _ (by simpa [Pend] using hap)
      | timer => exact hR _ _ (by simpa [Pend] using hap)
      | liveness got stale => exact hself
      | close => exact hR _ _ (by simpa [Pend] using hap)
    · exact hself

/-- an accepted API call is served on its own behalf -/
theorem call_accepted (c : Cfg) (s : St) (a : Api) (hc : s.closed = false) (hs : s.stack = []) :
    BlockedFor a (step c s (.call a)) := by
  simp only [step, hc, hs]
  exact startApi_blockedFor c s a

end Rtsp.ClientSm

namespace Rtsp.ClientSm

/-! ### an error returned into a stack without `reset` frames reaches the caller unchanged -/

/-- what a caller frame undoes when the `do` below it fails -/
def undoOf (f : Fr) (s : St) : St :=
  match f with
  | .playK => playUndo s .prePlay
  | .recordK => playUndo s .preRecord
  | .pauseK => { s with writer := true }
  | _ => s

/-- frames that hand an error of the `do` below them on to their caller (all but `reset`, which ignores
it, and the frames of trySwitchingProtocol, which leave the run loop with it) -/
def Propagating (f : Fr) : Prop :=
  match f with
  | .resetK _ _ | .swDescK _ | .swSetupK _ | .swPlayK => False
  | _ => True

theorem frameRet_err (c : Cfg) (f : Fr) (k : List Fr) (retK : St → Val → St) (s : St) (e : Err)
    (hf : Propagating f) : frameRet c f k retK s (.err e) = retK (undoOf f s) (.err e) := by
  cases f <;> simp [frameRet, undoOf] <;> exact absurd hf (by simp [Propagating])

def undoAll : List Fr → St → St
  | [], s => s
  | f :: k, s => undoAll k (undoOf f s)

theorem undoOf_keeps (f : Fr) (s : St) :
    (undoOf f s).mustClose = s.mustClose ∧ (undoOf f s).pending = s.pending ∧ (undoOf f s).out = s.out ∧
    (undoOf f s).closed = s.closed := by
  cases f <;> simp [undoOf, playUndo]

theorem undoAll_keeps (k : List Fr) : ∀ s,
    (undoAll k s).mustClose = s.mustClose ∧ (undoAll k s).pending = s.pending ∧ (undoAll k s).out = s.out ∧
    (undoAll k s).closed = s.closed := by
  induction k with
  | nil => intro s; simp [undoAll]
  | cons f k ih =>
    intro s
    have h1 := ih (undoOf f s)
    have h2 := undoOf_keeps f s
    simp only [undoAll]
    exact ⟨h1.1.trans h2.1, h1.2.1.trans h2.2.1, h1.2.2.1.trans h2.2.2.1, h1.2.2.2.trans h2.2.2.2⟩

def NoReset (k : List Fr) : Prop := ∀ f ∈ k, Propagating f

theorem resume_err (c : Cfg) (k : List Fr) (hk : NoReset k) :
    ∀ s e, resume c k s (.err e) = deliver (undoAll k s) (.err e) := by
  induction k with
  | nil => intro s e; rfl
  | cons f k ih =>
    intro s e
    simp only [resume, undoAll]
    rw [frameRet_err c f k _ s e (hk f (List.mem_cons_self ..))]
    exact ih (fun g hg => hk g (List.mem_cons_of_mem _ hg)) _ _

/-- delivering an error with mustClose latched: the caller gets it, the client closes with it -/
theorem deliver_err_mustClose (s : St) (e : Err) (a : Api) (hm : s.mustClose = true)
    (hp : s.pending = some a) :
    (deliver s (.err e)).closed = true ∧ (deliver s (.err e)).closeRes = some e ∧
    Out.ret a (some e) ∈ (deliver s (.err e)).out ∧ (deliver s (.err e)).stack = [] := by
  have hh : handOver s (valRes (.err e)) = emit { s with stack := [], pending := none } (.ret a (some e)) := by
    simp [handOver, hp, valRes]
  unfold deliver
  rw [hh]
  have hm1 : (emit { s with stack := [], pending := none } (Out.ret a (some e))).mustClose = true := by
    simp [emit, hm]
  simp only [hm1, if_true]
  have hf := runExit_fields (emit { s with stack := [], pending := none } (Out.ret a (some e))) (valRes (.err e))
  exact ⟨hf.1, hf.2.1, hf.2.2.2.2.2.2.2 _ (by simp [emit]), hf.2.2.2.2.2.1⟩

end Rtsp.ClientSm

namespace Rtsp.ClientSm

/-- … and when the value returned is an error, the error latched as closeError is an error too -/
theorem resume_dyingE (c : Cfg) (k : List Fr) :
    ∀ s e, Dying s → (resume c k s (.err e)).closed = true ∧ (resume c k s (.err e)).closeRes ≠ none := by
  induction k with
  | nil =>
    intro s e hd
    have h := deliver_dying s (.err e) hd
    simp only [resume]
    refine ⟨h.1, ?_⟩
    rcases h.2 with h2 | h2 <;> rw [h2] <;> simp [valRes]
  | cons f k ih =>
    intro s e hd
    simp only [resume]
    exact frameRet_dyingE (P := fun r => r.closed = true ∧ r.closeRes ≠ none) _ _ _ _ _ _ hd ih
      (fun s' e => ⟨(runExit_fields s' (some e)).1, by rw [(runExit_fields s' (some e)).2.1]; simp⟩)

end Rtsp.ClientSm
