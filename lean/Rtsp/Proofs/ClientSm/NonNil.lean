import Rtsp.Model.ClientSm
/-
The client never terminates with a nil error: whenever the run loop exits, the error latched as
closeError is an error.  Same continuation-passing lemma family as Unwind / Blocked / Pending.
-/
namespace Rtsp.ClientSm

/-- every `reset` frame on the stack remembers mustClose = false -/
def StackOK (k : List Fr) : Prop := ∀ f ∈ k, ∀ n b, f = .resetK n b → b = false

/-- what may be handed to a continuation: the loop is running, and if it is doomed (mustClose latched
or context cancelled) the value handed over is an error -/
def Handed (s : St) (v : Val) : Prop :=
  s.closed = false ∧ ((s.mustClose = true ∨ s.ctxDone = true) → ∃ e, v = .err e)

/-- the property of blocking points: closed ⇒ closeError is an error; running ⇒ nothing latched -/
def Good (s : St) : Prop :=
  (s.closed = true → s.closeRes ≠ none) ∧
  (s.closed = false → s.mustClose = false ∧ s.ctxDone = false ∧ StackOK s.stack)

/-- running, nothing latched (the context may be cancelled) -/
def Calm (s : St) : Prop := s.closed = false ∧ s.mustClose = false

theorem handed_err {s : St} (e : Err) (h : s.closed = false) : Handed s (.err e) := ⟨h, fun _ => ⟨e, rfl⟩⟩

theorem handed_calm {s : St} (v : Val) (h : Calm s) (hc : s.ctxDone = false) : Handed s v :=
  ⟨h.1, fun hh => by rcases hh with hh | hh <;> simp_all [Calm]⟩

theorem stackOK_cons {f : Fr} {k : List Fr} (hf : ∀ n b, f = .resetK n b → b = false) (hk : StackOK k) :
    StackOK (f :: k) := by
  intro g hg n b hgb
  rcases List.mem_cons.mp hg with rfl | hg
  · exact hf n b hgb
  · exact hk g hg n b hgb

theorem stackOK_tail {f : Fr} {k : List Fr} (h : StackOK (f :: k)) : StackOK k :=
  fun g hg => h g (List.mem_cons_of_mem _ hg)

theorem stackOK_append {a b : List Fr} (ha : StackOK a) (hb : StackOK b) : StackOK (a ++ b) := by
  intro g hg n bb hgb
  rcases List.mem_append.mp hg with hg | hg
  · exact ha g hg n bb hgb
  · exact hb g hg n bb hgb

theorem good_wait (s : St) (m : Meth) (n tp : Nat) (rest : List Fr) (hs : Calm s) (hc : s.ctxDone = false)
    (hk : StackOK rest) : Good { s with stack := .wait m n tp :: rest } := by
  refine ⟨fun h => ?_, fun _ => ⟨hs.2, hc, stackOK_cons (by intro n b h; cases h) hk⟩⟩
  simp [hs.1] at h

theorem runExit_good (s : St) (e : Err) : Good (runExit s (some e)) := by
  have hc : (runExit s (some e)).closed = true := by
    simp only [runExit, closeConn, sendReq, emit]
    repeat' split
    all_goals simp_all
  have hr : (runExit s (some e)).closeRes = some e := by
    simp only [runExit, closeConn, sendReq, emit]
    repeat' split
    all_goals simp_all
  exact ⟨fun _ => by rw [hr]; simp, fun h => by rw [hc] at h; cases h⟩

theorem swEnd_good (retK : St → Val → St) (hR : ∀ s' v, Handed s' v → Good (retK s' v)) :
    ∀ s' v, Handed s' v → Good (swEnd retK s' v) := by
  intro s' v hA
  unfold swEnd
  cases v <;> simp only []
  all_goals first
    | exact runExit_good _ _
    | exact hR _ _ hA

theorem connOpen_calm {s s1 : St} (h : connOpen s = some s1) (hd : Calm s) : Calm s1 ∧ s1.ctxDone = s.ctxDone := by
  unfold connOpen at h
  split at h
  · cases h; exact ⟨hd, rfl⟩
  · split at h
    · cases h; exact ⟨by simpa [Calm, emit] using hd, by simp [emit]⟩
    · cases h

theorem sendReq_calm (s : St) (m : Meth) (tp : Nat) (hd : Calm s) :
    Calm (sendReq s m tp) ∧ (sendReq s m tp).ctxDone = s.ctxDone := by
  exact ⟨by simpa [Calm, sendReq, emit] using hd, by simp [sendReq, emit]⟩

theorem startDo_good (s : St) (m : Meth) (skip : Bool) (tp : Nat) (fs k : List Fr)
    (onErr : St → Err → St) (onSkip : St → St) (hd : Calm s) (hk : StackOK (fs ++ k))
    (hE : ∀ s' e, s'.closed = false → Good (onErr s' e)) (hS : skip = true → ∀ s', Calm s' → Good (onSkip s')) :
    Good (startDo s m skip tp fs k onErr onSkip) := by
  unfold startDo
  split
  · split
    · split
      · exact hE _ _ hd.1
      · rename_i s1 h1
        have h2 := sendReq_calm s1 .options 0 (connOpen_calm h1 hd).1
        simp only []
        split
        · exact hE _ _ (by simpa using h2.1.1)
        · rename_i hc
          exact good_wait _ _ _ _ _ h2.1 (by simpa using hc)
            (stackOK_cons (by intro n b h; cases h) (stackOK_cons (by intro n b h; cases h) hk))
    · exact hE _ _ hd.1
  · have h2 := sendReq_calm s m tp hd
    simp only []
    split
    · rename_i hsk
      exact hS hsk _ h2.1
    · split
      · exact hE _ _ (by simpa using h2.1.1)
      · rename_i hc
        exact good_wait _ _ _ _ _ h2.1 (by simpa using hc) hk

theorem describeStart_good (s : St) (rd : Nat) (fs k : List Fr) (retK : St → Val → St)
    (hd : Calm s) (hk : StackOK (fs ++ k)) (hR : ∀ s' v, Handed s' v → Good (retK s' v)) :
    Good (describeStart s rd fs k retK) := by
  unfold describeStart
  split
  · split
    · exact hR _ _ (handed_err _ hd.1)
    · rename_i s1 h1
      exact startDo_good _ _ _ _ _ _ _ _ (connOpen_calm h1 hd).1
        (stackOK_cons (by intro n b h; cases h) hk)
        (fun s' e h => hR _ _ (handed_err _ h)) (fun hf => by cases hf)
  · exact hR _ _ (handed_err _ hd.1)

theorem setupStart_good (c : Cfg) (s : St) (a : SetupArgs) (fs k : List Fr)
    (retK : St → Val → St) (hd : Calm s) (hk : StackOK (fs ++ k)) (hR : ∀ s' v, Handed s' v → Good (retK s' v)) :
    Good (setupStart c s a fs k retK) := by
  unfold setupStart
  split
  · split
    · exact hR _ _ (handed_err _ hd.1)
    · rename_i s1 h1
      have hd1 := (connOpen_calm h1 hd).1
      simp only []
      repeat' split
      all_goals first
        | exact hR _ _ (handed_err _ hd1.1)
        | exact startDo_good _ _ _ _ _ _ _ _ hd1 (stackOK_cons (by intro n b h; cases h) hk)
            (fun s' e h => hR _ _ (handed_err _ h)) (fun hf => by cases hf)
  · exact hR _ _ (handed_err _ hd.1)

theorem playStart_good (s : St) (fs k : List Fr) (retK : St → Val → St)
    (hd : Calm s) (hk : StackOK (fs ++ k)) (hR : ∀ s' v, Handed s' v → Good (retK s' v)) :
    Good (playStart s fs k retK) := by
  unfold playStart
  split
  · exact startDo_good _ _ _ _ _ _ _ _ (by simpa [Calm] using hd)
      (stackOK_cons (by intro n b h; cases h) hk)
      (fun s' e h => hR _ _ (handed_err _ (by simpa [playUndo] using h))) (fun hf => by cases hf)
  · exact hR _ _ (handed_err _ hd.1)

theorem closeConn_calm (s : St) (hd : Calm s) : Calm (closeConn s) := by
  unfold closeConn
  simp only []
  split <;> simpa [Calm, emit] using hd

theorem clearSession_calm (s : St) (hd : Calm s) : Calm (clearSession s) := by
  have h := closeConn_calm s hd
  simpa [Calm, clearSession] using h

theorem afterReset_good (s : St) (n : AfterReset) (k : List Fr)
    (retK : St → Val → St) (hd : Calm s) (hk : StackOK k) (hR : ∀ s' v, Handed s' v → Good (retK s' v)) :
    Good (afterReset s n k retK) := by
  have hc := clearSession_calm s hd
  unfold afterReset
  cases n with
  | redirect loc n =>
    cases loc <;> simp only []
    all_goals first
      | exact hR _ _ (handed_err _ hc.1)
      | exact describeStart_good _ _ _ _ _ (by simpa [Calm] using hc) (by simpa using hk) hR
  | switchTcp a =>
    exact describeStart_good _ _ _ _ _ (by simpa [Calm] using hc)
      (stackOK_cons (by intro n b h; cases h) hk) hR
  | switchAll ms =>
    exact describeStart_good _ _ _ _ _ (by simpa [Calm] using hc)
      (stackOK_cons (by intro n b h; cases h) hk) (swEnd_good retK hR)

theorem resetStart_good (c : Cfg) (s : St) (n : AfterReset) (k : List Fr)
    (retK : St → Val → St) (hd : Calm s) (hk : StackOK k) (hR : ∀ s' v, Handed s' v → Good (retK s' v)) :
    Good (resetStart c s n k retK) := by
  unfold resetStart
  split
  · refine startDo_good _ _ _ _ _ _ _ _ hd
      (stackOK_cons (by intro n' b h; cases h; exact hd.2) hk)
      (fun s' _ h => afterReset_good _ _ _ _ ?_ hk hR)
      (fun _ s' h => afterReset_good _ _ _ _ ?_ hk hR)
    · exact ⟨by simpa using h, by simpa using hd.2⟩
    · exact ⟨by simpa using h.1, by simpa using hd.2⟩
  · exact afterReset_good _ _ _ _ hd hk hR

theorem commitSetup_calm (s : St) (a : SetupArgs) (p : Proto) (ch : Nat) (hd : Calm s) :
    Calm (commitSetup s a p ch) ∧ (commitSetup s a p ch).ctxDone = s.ctxDone := by
  exact ⟨by simpa [Calm, commitSetup] using hd, by simp [commitSetup]⟩

theorem setupResp_good (c : Cfg) (s : St) (a : SetupArgs) (p : Proto) (r : Resp)
    (k : List Fr) (retK : St → Val → St) (hd : Calm s) (hc : s.ctxDone = false) (hk : StackOK k)
    (hR : ∀ s' v, Handed s' v → Good (retK s' v)) :
    Good (setupResp c s a p r k retK) := by
  unfold setupResp
  split
  · rename_i ch _
    have h := commitSetup_calm s a p ch hd
    exact hR _ _ (handed_calm _ h.1 (by rw [h.2]; exact hc))
  · exact hR _ _ (handed_err _ hd.1)
  · exact setupStart_good _ _ _ _ _ _ (by simpa [Calm] using hd) (by simpa using hk) hR
  · exact resetStart_good _ _ _ _ _ (by simpa [Calm] using hd) hk hR

theorem describeResp_good (c : Cfg) (s : St) (rd : Nat) (r : Resp) (k : List Fr)
    (retK : St → Val → St) (hd : Calm s) (hc : s.ctxDone = false) (hk : StackOK k)
    (hR : ∀ s' v, Handed s' v → Good (retK s' v)) :
    Good (describeResp c s rd r k retK) := by
  unfold describeResp
  repeat' split
  all_goals first
    | exact hR _ _ (handed_err _ hd.1)
    | exact hR _ _ (handed_calm _ (by simpa [Calm] using hd) (by simpa using hc))
    | exact resetStart_good _ _ _ _ _ hd hk hR

theorem captureSession_calm (s : St) (k : SessK) (hd : Calm s) :
    Calm (captureSession s k) ∧ (captureSession s k).ctxDone = s.ctxDone := by
  cases k <;> exact ⟨by simpa [Calm, captureSession] using hd, by simp [captureSession]⟩

theorem doTail_good (c : Cfg) (s : St) (m : Meth) (tp : Nat) (r : Resp)
    (k : List Fr) (retK : St → Val → St) (hd : Calm s) (hc : s.ctxDone = false) (hk : StackOK k)
    (hR : ∀ s' v, Handed s' v → Good (retK s' v)) :
    Good (doTail c s m tp r k retK) := by
  have hd1 := captureSession_calm s r.sess hd
  unfold doTail
  split
  · exact hR _ _ (handed_err _ hd.1)
  · simp only []
    split
    · split
      · exact startDo_good _ _ _ _ _ _ _ _ (by simpa [Calm] using hd1.1) (by simpa using hk)
          (fun s' e h => hR _ _ (handed_err _ h)) (fun hf => by cases hf)
      · exact hR _ _ (handed_err _ hd1.1.1)
    · exact hR _ _ (handed_calm _ hd1.1 (by rw [hd1.2]; exact hc))


theorem frameRet_good (c : Cfg) (f : Fr) (k : List Fr) (retK : St → Val → St)
    (s : St) (v : Val) (hA : Handed s v) (hk : StackOK (f :: k))
    (hR : ∀ s' v, Handed s' v → Good (retK s' v)) : Good (frameRet c f k retK s v) := by
  have hk' := stackOK_tail hk
  have hpu : ∀ b, (playUndo s b).closed = false := fun b => by simpa [playUndo] using hA.1
  -- a value that is not an error is only handed over by a calm, uncancelled loop
  have hcalm : (∀ e, v ≠ .err e) → Calm s ∧ s.ctxDone = false := by
    intro hv
    have : ¬ (s.mustClose = true ∨ s.ctxDone = true) := fun hh => by
      obtain ⟨e, he⟩ := hA.2 hh
      exact hv e he
    constructor
    · exact ⟨hA.1, by cases h : s.mustClose <;> simp_all⟩
    · cases h : s.ctxDone <;> simp_all
  unfold frameRet
  cases f with
  | wait m n tp => exact hR _ _ hA
  | doOpt m skip tp =>
    cases v with
    | err e => exact hR _ _ (handed_err _ hA.1)
    | resp r =>
      have hc := hcalm (by intro e h; cases h)
      have h2 := sendReq_calm s m tp hc.1
      simp only []
      split
      · exact hR _ _ (handed_calm _ h2.1 (by rw [h2.2]; exact hc.2))
      · split
        · exact hR _ _ (handed_err _ (by simpa using h2.1.1))
        · rename_i hcd
          exact good_wait _ _ _ _ _ h2.1 (by simpa using hcd) hk'
    | nil =>
      have hc := hcalm (by intro e h; cases h)
      have h2 := sendReq_calm s m tp hc.1
      simp only []
      split
      · exact hR _ _ (handed_calm _ h2.1 (by rw [h2.2]; exact hc.2))
      · split
        · exact hR _ _ (handed_err _ (by simpa using h2.1.1))
        · rename_i hcd
          exact good_wait _ _ _ _ _ h2.1 (by simpa using hcd) hk'
  | optionsK =>
    cases v with
    | err e => exact hR _ _ hA
    | nil => exact hR _ _ hA
    | resp r =>
      have hc := hcalm (by intro e h; cases h)
      simp only []
      repeat' split
      all_goals first
        | exact hR _ _ hA
        | exact hR _ _ (handed_err _ hA.1)
        | exact hR _ _ (handed_calm _ (by simpa [Calm] using hc.1) (by simpa using hc.2))
  | describeK rd =>
    cases v with
    | err e => exact hR _ _ hA
    | nil => exact hR _ _ hA
    | resp r =>
      have hc := hcalm (by intro e h; cases h)
      exact describeResp_good _ _ _ _ _ _ hc.1 hc.2 hk' hR
  | announceK =>
    cases v with
    | err e => exact hR _ _ hA
    | nil => exact hR _ _ hA
    | resp r =>
      have hc := hcalm (by intro e h; cases h)
      simp only []
      repeat' split
      all_goals first
        | exact hR _ _ (handed_err _ hA.1)
        | exact hR _ _ (handed_calm _ (by simpa [Calm] using hc.1) (by simpa using hc.2))
  | setupK a p =>
    cases v with
    | err e => exact hR _ _ hA
    | nil => exact hR _ _ hA
    | resp r =>
      have hc := hcalm (by intro e h; cases h)
      exact setupResp_good _ _ _ _ _ _ _ hc.1 hc.2 hk' hR
  | playK =>
    cases v with
    | err e => exact hR _ _ (handed_err _ (hpu _))
    | nil =>
      have hc := hcalm (by intro e h; cases h)
      exact hR _ _ (handed_calm _ (by simpa [Calm, playUndo] using hc.1) (by simpa [playUndo] using hc.2))
    | resp r =>
      have hc := hcalm (by intro e h; cases h)
      simp only []
      repeat' split
      all_goals first
        | exact hR _ _ (handed_err _ (hpu _))
        | exact hR _ _ (handed_calm _ (by simpa [Calm] using hc.1) (by simpa using hc.2))
  | recordK =>
    cases v with
    | err e => exact hR _ _ (handed_err _ (hpu _))
    | nil =>
      have hc := hcalm (by intro e h; cases h)
      exact hR _ _ (handed_calm _ (by simpa [Calm, playUndo] using hc.1) (by simpa [playUndo] using hc.2))
    | resp r =>
      have hc := hcalm (by intro e h; cases h)
      simp only []
      repeat' split
      all_goals first
        | exact hR _ _ (handed_err _ (hpu _))
        | exact hR _ _ (handed_calm _ (by simpa [Calm] using hc.1) (by simpa using hc.2))
  | pauseK =>
    cases v with
    | err e => exact hR _ _ (handed_err _ (by simpa using hA.1))
    | nil =>
      have hc := hcalm (by intro e h; cases h)
      exact hR _ _ (handed_calm _ (by simpa [Calm] using hc.1) (by simpa using hc.2))
    | resp r =>
      have hc := hcalm (by intro e h; cases h)
      simp only []
      repeat' split
      all_goals first
        | exact hR _ _ (handed_err _ (by simpa using hA.1))
        | exact hR _ _ (handed_calm _ (by simpa [Calm] using hc.1) (by simpa using hc.2))
  | redescK a =>
    cases v with
    | err e => exact hR _ _ (handed_err _ hA.1)
    | nil =>
      have hc := hcalm (by intro e h; cases h)
      exact setupStart_good _ _ _ _ _ _ hc.1 (by simpa using hk') hR
    | resp r =>
      have hc := hcalm (by intro e h; cases h)
      exact setupStart_good _ _ _ _ _ _ hc.1 (by simpa using hk') hR
  | resetK n saved =>
    have hs : saved = false := hk _ (List.mem_cons_self ..) n saved rfl
    subst hs
    exact afterReset_good _ _ _ _ ⟨by simpa using hA.1, rfl⟩ hk' hR
  | swDescK ms =>
    cases v with
    | err e => exact runExit_good _ _
    | nil =>
      have hc := hcalm (by intro e h; cases h)
      cases ms <;> simp only []
      · exact playStart_good _ _ _ _ hc.1 (stackOK_cons (by intro n b h; cases h) hk') (swEnd_good retK hR)
      · exact setupStart_good _ _ _ _ _ _ hc.1 (stackOK_cons (by intro n b h; cases h) hk') (swEnd_good retK hR)
    | resp r =>
      have hc := hcalm (by intro e h; cases h)
      cases ms <;> simp only []
      · exact playStart_good _ _ _ _ hc.1 (stackOK_cons (by intro n b h; cases h) hk') (swEnd_good retK hR)
      · exact setupStart_good _ _ _ _ _ _ hc.1 (stackOK_cons (by intro n b h; cases h) hk') (swEnd_good retK hR)
  | swSetupK rest =>
    cases v with
    | err e => exact runExit_good _ _
    | nil =>
      have hc := hcalm (by intro e h; cases h)
      cases rest <;> simp only []
      · exact playStart_good _ _ _ _ hc.1 (stackOK_cons (by intro n b h; cases h) hk') (swEnd_good retK hR)
      · exact setupStart_good _ _ _ _ _ _ hc.1 (stackOK_cons (by intro n b h; cases h) hk') (swEnd_good retK hR)
    | resp r =>
      have hc := hcalm (by intro e h; cases h)
      cases rest <;> simp only []
      · exact playStart_good _ _ _ _ hc.1 (stackOK_cons (by intro n b h; cases h) hk') (swEnd_good retK hR)
      · exact setupStart_good _ _ _ _ _ _ hc.1 (stackOK_cons (by intro n b h; cases h) hk') (swEnd_good retK hR)
  | swPlayK =>
    cases v with
    | err e => exact runExit_good _ _
    | nil =>
      have hc := hcalm (by intro e h; cases h)
      exact hR _ _ (handed_calm _ hc.1 hc.2)
    | resp r =>
      have hc := hcalm (by intro e h; cases h)
      exact hR _ _ (handed_calm _ hc.1 hc.2)

theorem handOver_keeps (s : St) (r : Res) :
    (handOver s r).mustClose = s.mustClose ∧ (handOver s r).ctxDone = s.ctxDone ∧
    (handOver s r).closed = s.closed ∧ (handOver s r).stack = [] := by
  unfold handOver
  cases s.pending <;> simp [emit]

theorem deliver_good (s : St) (v : Val) (hA : Handed s v) : Good (deliver s v) := by
  have hk := handOver_keeps s (valRes v)
  unfold deliver
  simp only []
  split
  · rename_i hm
    rw [hk.1] at hm
    obtain ⟨e, he⟩ := hA.2 (Or.inl hm)
    subst he
    exact runExit_good _ e
  · split
    · exact runExit_good _ _
    · rename_i hm hc
      refine ⟨fun h => ?_, fun _ => ⟨by simpa using hm, by simpa using hc, ?_⟩⟩
      · rw [hk.2.2.1, hA.1] at h; cases h
      · rw [hk.2.2.2]; intro f hf; cases hf

theorem resume_good (c : Cfg) (k : List Fr) (hk : StackOK k) :
    ∀ s v, Handed s v → Good (resume c k s v) := by
  induction k with
  | nil => intro s v hA; exact deliver_good s v hA
  | cons f k ih =>
    intro s v hA
    simp only [resume]
    exact frameRet_good _ _ _ _ _ _ hA hk (ih (stackOK_tail hk))


theorem startApi_good (c : Cfg) (s : St) (a : Api) (hd : Calm s) (hc : s.ctxDone = false) :
    Good (startApi c s a) := by
  have hp : Calm { s with pending := some a } := by simpa [Calm] using hd
  have hk : StackOK ([] : List Fr) := fun f hf => by cases hf
  have hR := resume_good c [] hk
  unfold startApi
  cases a with
  | options =>
    simp only []
    repeat' split
    all_goals first
      | exact hR _ _ (handed_err _ hp.1)
      | (rename_i s1 h1
         exact startDo_good _ _ _ _ _ _ _ _ (connOpen_calm h1 hp).1 (stackOK_cons (by intro n b h; cases h) hk)
           (fun s' e h => hR _ _ (handed_err _ h)) (fun hf => by cases hf))
  | describe => exact describeStart_good _ _ _ _ _ hp (by simpa using hk) hR
  | announce =>
    simp only []
    repeat' split
    all_goals first
      | exact hR _ _ (handed_err _ hp.1)
      | (rename_i s1 h1
         exact startDo_good _ _ _ _ _ _ _ _ (connOpen_calm h1 hp).1 (stackOK_cons (by intro n b h; cases h) hk)
           (fun s' e h => hR _ _ (handed_err _ h)) (fun hf => by cases hf))
  | setup a => exact setupStart_good _ _ _ _ _ _ hp (by simpa using hk) hR
  | play => exact playStart_good _ _ _ _ hp (by simpa using hk) hR
  | record =>
    simp only []
    repeat' split
    all_goals first
      | exact hR _ _ (handed_err _ hp.1)
      | exact startDo_good _ _ _ _ _ _ _ _ (by simpa [Calm] using hp) (stackOK_cons (by intro n b h; cases h) hk)
          (fun s' e h => hR _ _ (handed_err _ (by simpa [playUndo] using h))) (fun hf => by cases hf)
  | pause =>
    simp only []
    repeat' split
    all_goals first
      | exact hR _ _ (handed_err _ hp.1)
      | exact startDo_good _ _ _ _ _ _ _ _ (by simpa [Calm] using hp) (stackOK_cons (by intro n b h; cases h) hk)
          (fun s' e h => hR _ _ (handed_err _ (by simpa using h))) (fun hf => by cases hf)

theorem good_emit (s : St) (o : Out) (h : Good s) : Good (emit s o) := by
  simpa [Good, emit] using h

/-- `Good` is an invariant of the run loop -/
theorem step_good (c : Cfg) (s : St) (e : Ev) (h : Good s) : Good (step c s e) := by
  unfold step
  split
  · cases e <;> simp only []
    all_goals first
      | exact h
      | exact good_emit _ _ h
  · rename_i hcl
    have hcl' : s.closed = false := by simpa using hcl
    have hg := h.2 hcl'
    have hcalm : Calm s := ⟨hcl', hg.1⟩
    split
    · -- idle
      cases e with
      | call a => exact startApi_good c s a hcalm hg.2.1
      | resp r => exact h
      | sreq o =>
        cases o
        · exact runExit_good _ _
        · exact good_emit _ _ h
      | frame ch =>
        simp only []
        split
        · exact h
        · exact runExit_good _ _
      | readErr => exact runExit_good _ _
      | timer => exact h
      | liveness got stale =>
        simp only [checkTimeout, switchStart]
        repeat' split
        all_goals first
          | exact h
          | exact runExit_good _ _
          | (refine ⟨fun hh => ?_, fun _ => ?_⟩
             · simp [hcl'] at hh
             · exact ⟨by simpa using hg.1, by simpa using hg.2.1, by simpa using hg.2.2⟩)
          | exact resetStart_good c _ _ _ _ (by simpa [Calm] using hcalm) (fun f hf => by cases hf)
              (resume_good c [] (fun f hf => by cases hf))
      | close => exact runExit_good _ _
    · -- waiting
      rename_i m n tp k hst
      have hk : StackOK k := by
        have := hg.2.2
        rw [hst] at this
        exact stackOK_tail this
      have hR := resume_good c k hk
      cases e with
      | call a => exact h
      | resp r =>
        simp only []
        split
        · exact doTail_good _ _ _ _ _ _ _ (by simpa [Calm] using hcalm) (by simpa using hg.2.1) hk hR
        · exact h
      | sreq o =>
        cases o
        · exact hR _ _ (handed_err _ (by simpa using hcl'))
        · exact good_emit _ _ h
      | frame ch =>
        simp only []
        split
        · exact h
        · exact hR _ _ (handed_err _ (by simpa using hcl'))
      | readErr => exact hR _ _ (handed_err _ (by simpa using hcl'))
      | timer => exact hR _ _ (handed_err _ (by simpa using hcl'))
      | liveness got stale => exact h
      | close => exact hR _ _ (handed_err _ (by simpa using hcl'))
    · exact h

theorem good_init : Good init := by
  constructor
  · intro h; cases h
  · intro _
    exact ⟨rfl, rfl, fun f hf => by cases hf⟩

theorem run_good (c : Cfg) (es : List Ev) : ∀ s, Good s → Good (run c s es) := by
  induction es with
  | nil => intro s h; exact h
  | cons e es ih => intro s h; exact ih _ (step_good c s e h)

end Rtsp.ClientSm
