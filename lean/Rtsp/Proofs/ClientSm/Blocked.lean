import Rtsp.Model.ClientSm
/-
Shape of the states the model produces: the run loop is always at a blocking point — idle / closed
(empty stack) or inside waitResponse (`wait` on top of the stack).  No helper ever leaves another
frame on top, so `step`'s catch-all branch (an event that nobody consumes) is never reached.
-/
namespace Rtsp.ClientSm

/-- the run loop is at a blocking point -/
def Blocked (s : St) : Prop := s.stack = [] ∨ ∃ m n tp k, s.stack = .wait m n tp :: k

theorem blocked_wait (s : St) (m : Meth) (n tp : Nat) (k : List Fr) :
    Blocked { s with stack := .wait m n tp :: k } := Or.inr ⟨m, n, tp, k, rfl⟩

theorem runExit_blocked (s : St) (e : Res) : Blocked (runExit s e) := by
  left
  simp only [runExit, closeConn, sendReq, emit]
  repeat' split
  all_goals rfl

theorem swEnd_blocked (retK : St → Val → St) (hR : ∀ s' v, Blocked (retK s' v)) :
    ∀ s' v, Blocked (swEnd retK s' v) := by
  intro s' v
  unfold swEnd
  cases v <;> simp only []
  all_goals first
    | exact runExit_blocked _ _
    | exact hR _ _

theorem startDo_blocked (s : St) (m : Meth) (skip : Bool) (tp : Nat) (fs k : List Fr)
    (onErr : St → Err → St) (onSkip : St → St)
    (hE : ∀ s' e, Blocked (onErr s' e)) (hS : skip = true → ∀ s', Blocked (onSkip s')) :
    Blocked (startDo s m skip tp fs k onErr onSkip) := by
  unfold startDo
  split
  · split
    · split
      · exact hE _ _
      · simp only []
        split
        · exact hE _ _
        · exact blocked_wait _ _ _ _ _
    · exact hE _ _
  · simp only []
    split
    · rename_i hsk
      exact hS hsk _
    · split
      · exact hE _ _
      · exact blocked_wait _ _ _ _ _

theorem describeStart_blocked (s : St) (rd : Nat) (fs k : List Fr) (retK : St → Val → St)
    (hR : ∀ s' v, Blocked (retK s' v)) : Blocked (describeStart s rd fs k retK) := by
  unfold describeStart
  repeat' split
  all_goals first
    | exact hR _ _
    | exact startDo_blocked _ _ _ _ _ _ _ _ (fun s' e => hR _ _) (fun hf => by cases hf)

theorem setupStart_blocked (c : Cfg) (s : St) (a : SetupArgs) (fs k : List Fr)
    (retK : St → Val → St) (hR : ∀ s' v, Blocked (retK s' v)) :
    Blocked (setupStart c s a fs k retK) := by
  unfold setupStart
  split
  · split
    · exact hR _ _
    · simp only []
      repeat' split
      all_goals first
        | exact hR _ _
        | exact startDo_blocked _ _ _ _ _ _ _ _ (fun s' e => hR _ _) (fun hf => by cases hf)
  · exact hR _ _

theorem playStart_blocked (s : St) (fs k : List Fr) (retK : St → Val → St)
    (hR : ∀ s' v, Blocked (retK s' v)) : Blocked (playStart s fs k retK) := by
  unfold playStart
  split
  · exact startDo_blocked _ _ _ _ _ _ _ _ (fun s' e => hR _ _) (fun hf => by cases hf)
  · exact hR _ _

theorem afterReset_blocked (s : St) (n : AfterReset) (k : List Fr)
    (retK : St → Val → St) (hR : ∀ s' v, Blocked (retK s' v)) :
    Blocked (afterReset s n k retK) := by
  unfold afterReset
  cases n with
  | redirect loc n =>
    cases loc <;> simp only []
    all_goals first
      | exact hR _ _
      | exact describeStart_blocked _ _ _ _ _ hR
  | switchTcp a => exact describeStart_blocked _ _ _ _ _ hR
  | switchAll ms => exact describeStart_blocked _ _ _ _ _ (swEnd_blocked retK hR)

theorem resetStart_blocked (c : Cfg) (s : St) (n : AfterReset) (k : List Fr)
    (retK : St → Val → St) (hR : ∀ s' v, Blocked (retK s' v)) :
    Blocked (resetStart c s n k retK) := by
  unfold resetStart
  split
  · exact startDo_blocked _ _ _ _ _ _ _ _ (fun s' _ => afterReset_blocked _ _ _ _ hR)
      (fun _ s' => afterReset_blocked _ _ _ _ hR)
  · exact afterReset_blocked _ _ _ _ hR

theorem setupResp_blocked (c : Cfg) (s : St) (a : SetupArgs) (p : Proto) (r : Resp)
    (k : List Fr) (retK : St → Val → St) (hR : ∀ s' v, Blocked (retK s' v)) :
    Blocked (setupResp c s a p r k retK) := by
  unfold setupResp
  split
  · exact hR _ _
  · exact hR _ _
  · exact setupStart_blocked _ _ _ _ _ _ hR
  · exact resetStart_blocked _ _ _ _ _ hR

theorem describeResp_blocked (c : Cfg) (s : St) (rd : Nat) (r : Resp) (k : List Fr)
    (retK : St → Val → St) (hR : ∀ s' v, Blocked (retK s' v)) :
    Blocked (describeResp c s rd r k retK) := by
  unfold describeResp
  repeat' split
  all_goals first
    | exact hR _ _
    | exact resetStart_blocked _ _ _ _ _ hR

theorem doTail_blocked (c : Cfg) (s : St) (m : Meth) (tp : Nat) (r : Resp)
    (k : List Fr) (retK : St → Val → St) (hR : ∀ s' v, Blocked (retK s' v)) :
    Blocked (doTail c s m tp r k retK) := by
  unfold doTail
  split
  · exact hR _ _
  · simp only []
    repeat' split
    all_goals first
      | exact hR _ _
      | exact startDo_blocked _ _ _ _ _ _ _ _ (fun s' e => hR _ _) (fun hf => by cases hf)

theorem frameRet_blocked (c : Cfg) (f : Fr) (k : List Fr) (retK : St → Val → St)
    (s : St) (v : Val) (hR : ∀ s' v, Blocked (retK s' v)) :
    Blocked (frameRet c f k retK s v) := by
  unfold frameRet
  cases f with
  | wait m n tp => exact hR _ _
  | doOpt m skip tp =>
    cases v <;> simp only []
    all_goals first
      | exact hR _ _
      | (repeat' split
         all_goals first
           | exact hR _ _
           | exact blocked_wait _ _ _ _ _)
  | optionsK =>
    cases v <;> simp only []
    all_goals first
      | exact hR _ _
      | (repeat' split
         all_goals exact hR _ _)
  | describeK rd =>
    cases v <;> simp only []
    all_goals first
      | exact hR _ _
      | exact describeResp_blocked _ _ _ _ _ _ hR
  | announceK =>
    cases v <;> simp only []
    all_goals first
      | exact hR _ _
      | (repeat' split
         all_goals exact hR _ _)
  | setupK a p =>
    cases v <;> simp only []
    all_goals first
      | exact hR _ _
      | exact setupResp_blocked _ _ _ _ _ _ _ hR
  | playK =>
    cases v <;> simp only []
    all_goals first
      | exact hR _ _
      | (repeat' split
         all_goals exact hR _ _)
  | recordK =>
    cases v <;> simp only []
    all_goals first
      | exact hR _ _
      | (repeat' split
         all_goals exact hR _ _)
  | pauseK =>
    cases v <;> simp only []
    all_goals first
      | exact hR _ _
      | (repeat' split
         all_goals exact hR _ _)
  | redescK a =>
    cases v <;> simp only []
    all_goals first
      | exact hR _ _
      | exact setupStart_blocked _ _ _ _ _ _ hR
  | resetK n saved => exact afterReset_blocked _ _ _ _ hR
  | swDescK ms =>
    cases v <;> simp only []
    all_goals first
      | exact runExit_blocked _ _
      | (cases ms <;> simp only []
         all_goals first
           | exact playStart_blocked _ _ _ _ (swEnd_blocked retK hR)
           | exact setupStart_blocked _ _ _ _ _ _ (swEnd_blocked retK hR))
  | swSetupK rest =>
    cases v <;> simp only []
    all_goals first
      | exact runExit_blocked _ _
      | (cases rest <;> simp only []
         all_goals first
           | exact playStart_blocked _ _ _ _ (swEnd_blocked retK hR)
           | exact setupStart_blocked _ _ _ _ _ _ (swEnd_blocked retK hR))
  | swPlayK =>
    cases v <;> simp only []
    all_goals first
      | exact runExit_blocked _ _
      | exact hR _ _

theorem handOver_stack (s : St) (r : Res) : (handOver s r).stack = [] := by
  unfold handOver
  cases s.pending <;> simp [emit]

theorem deliver_blocked (s : St) (v : Val) : Blocked (deliver s v) := by
  unfold deliver
  simp only []
  repeat' split
  all_goals first
    | exact runExit_blocked _ _
    | exact Or.inl (handOver_stack _ _)

/-- whatever is returned into whatever stack, the loop ends at a blocking point -/
theorem resume_blocked (c : Cfg) (k : List Fr) : ∀ s v, Blocked (resume c k s v) := by
  induction k with
  | nil => intro s v; exact deliver_blocked s v
  | cons f k ih =>
    intro s v
    simp only [resume]
    exact frameRet_blocked _ _ _ _ _ _ ih

end Rtsp.ClientSm
