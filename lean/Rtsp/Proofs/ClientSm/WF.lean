import Rtsp.Proofs.ClientSm.Silent
/-
Well-formed stacks: a `reset` frame has only non-reset frames below it, and it sits directly under the
frames of its TEARDOWN's implicit OPTIONS (`wait`, `optionsK`, `doOpt`); every other frame sits on a
stack without reset frames.  Invariant of the run loop (same lemma family once more).
-/
namespace Rtsp.ClientSm

def WF : List Fr → Prop
  | [] => True
  | .resetK _ _ :: k => Calm1 k
  | .wait _ _ _ :: k => WF k
  | .optionsK :: k => WF k
  | .doOpt _ _ _ :: k => WF k
  | _ :: k => Calm1 k

theorem wf_of_calm1 : ∀ k, Calm1 k → WF k := by
  intro k
  induction k with
  | nil => intro _; trivial
  | cons f k ih =>
    intro h
    have hk := calm1_tail h
    cases f <;> simp only [WF]
    all_goals first
      | exact hk
      | exact ih hk

theorem amo_of_wf : ∀ k, WF k → AtMostOneReset k := by
  intro k
  induction k with
  | nil => intro _; trivial
  | cons f k ih =>
    intro h
    cases f <;> simp only [WF] at h <;> simp only [AtMostOneReset]
    all_goals first
      | exact h
      | exact ih h
      | exact ih (wf_of_calm1 _ h)

def WFs (s : St) : Prop := WF s.stack

theorem wfs_wait (s : St) (m : Meth) (n tp : Nat) (k : List Fr) (hk : WF k) :
    WFs { s with stack := .wait m n tp :: k } := hk

theorem wfs_runExit (s : St) (e : Res) : WFs (runExit s e) := by
  have : (runExit s e).stack = [] := by
    simp only [runExit, closeConn, sendReq, emit]
    repeat' split
    all_goals rfl
  simp [WFs, this, WF]

theorem wfs_deliver (s : St) (v : Val) : WFs (deliver s v) := by
  unfold deliver
  simp only []
  repeat' split
  all_goals first
    | exact wfs_runExit _ _
    | simp [WFs, handOver_stack', WF]

theorem swEnd_wfs (retK : St → Val → St) (hR : ∀ s' v, WFs (retK s' v)) : ∀ s' v, WFs (swEnd retK s' v) := by
  intro s' v
  unfold swEnd
  cases v <;> simp only []
  all_goals first
    | exact wfs_runExit _ _
    | exact hR _ _

theorem startDo_wfs (s : St) (m : Meth) (skip : Bool) (tp : Nat) (fs k : List Fr)
    (onErr : St → Err → St) (onSkip : St → St) (hk : WF (fs ++ k))
    (hE : ∀ s' e, WFs (onErr s' e)) (hS : skip = true → ∀ s', WFs (onSkip s')) :
    WFs (startDo s m skip tp fs k onErr onSkip) := by
  unfold startDo
  split
  · split
    · split
      · exact hE _ _
      · simp only []
        split
        · exact hE _ _
        · exact wfs_wait _ _ _ _ _ (by simpa [WF] using hk)
    · exact hE _ _
  · simp only []
    split
    · rename_i hsk
      exact hS hsk _
    · split
      · exact hE _ _
      · exact wfs_wait _ _ _ _ _ hk

theorem describeStart_wfs (s : St) (rd : Nat) (fs k : List Fr) (retK : St → Val → St)
    (hk : Calm1 (fs ++ k)) (hR : ∀ s' v, WFs (retK s' v)) : WFs (describeStart s rd fs k retK) := by
  unfold describeStart
  repeat' split
  all_goals first
    | exact hR _ _
    | exact startDo_wfs _ _ _ _ _ _ _ _ (by simpa [WF] using hk) (fun s' e => hR _ _) (fun hf => by cases hf)

theorem setupStart_wfs (c : Cfg) (s : St) (a : SetupArgs) (fs k : List Fr) (retK : St → Val → St)
    (hk : Calm1 (fs ++ k)) (hR : ∀ s' v, WFs (retK s' v)) : WFs (setupStart c s a fs k retK) := by
  unfold setupStart
  split
  · split
    · exact hR _ _
    · simp only []
      repeat' split
      all_goals first
        | exact hR _ _
        | exact startDo_wfs _ _ _ _ _ _ _ _ (by simpa [WF] using hk) (fun s' e => hR _ _) (fun hf => by cases hf)
  · exact hR _ _

theorem playStart_wfs (s : St) (fs k : List Fr) (retK : St → Val → St)
    (hk : Calm1 (fs ++ k)) (hR : ∀ s' v, WFs (retK s' v)) : WFs (playStart s fs k retK) := by
  unfold playStart
  split
  · exact startDo_wfs _ _ _ _ _ _ _ _ (by simpa [WF] using hk) (fun s' e => hR _ _) (fun hf => by cases hf)
  · exact hR _ _

theorem afterReset_wfs (s : St) (n : AfterReset) (k : List Fr) (retK : St → Val → St)
    (hk : Calm1 k) (hR : ∀ s' v, WFs (retK s' v)) : WFs (afterReset s n k retK) := by
  unfold afterReset
  cases n with
  | redirect loc n =>
    cases loc <;> simp only []
    all_goals first
      | exact hR _ _
      | exact describeStart_wfs _ _ _ _ _ (by simpa using hk) hR
  | switchTcp a =>
    exact describeStart_wfs _ _ _ _ _ (calm1_cons (by intro n b h; cases h) hk) hR
  | switchAll ms =>
    exact describeStart_wfs _ _ _ _ _ (calm1_cons (by intro n b h; cases h) hk) (swEnd_wfs retK hR)

theorem resetStart_wfs (c : Cfg) (s : St) (n : AfterReset) (k : List Fr) (retK : St → Val → St)
    (hk : Calm1 k) (hR : ∀ s' v, WFs (retK s' v)) : WFs (resetStart c s n k retK) := by
  unfold resetStart
  split
  · exact startDo_wfs _ _ _ _ _ _ _ _ (by simpa [WF] using hk)
      (fun s' _ => afterReset_wfs _ _ _ _ hk hR) (fun _ s' => afterReset_wfs _ _ _ _ hk hR)
  · exact afterReset_wfs _ _ _ _ hk hR

theorem setupResp_wfs (c : Cfg) (s : St) (a : SetupArgs) (p : Proto) (r : Resp) (k : List Fr)
    (retK : St → Val → St) (hk : Calm1 k) (hR : ∀ s' v, WFs (retK s' v)) :
    WFs (setupResp c s a p r k retK) := by
  unfold setupResp
  split
  · exact hR _ _
  · exact hR _ _
  · exact setupStart_wfs _ _ _ _ _ _ (by simpa using hk) hR
  · exact resetStart_wfs _ _ _ _ _ hk hR

theorem describeResp_wfs (c : Cfg) (s : St) (rd : Nat) (r : Resp) (k : List Fr)
    (retK : St → Val → St) (hk : Calm1 k) (hR : ∀ s' v, WFs (retK s' v)) :
    WFs (describeResp c s rd r k retK) := by
  unfold describeResp
  repeat' split
  all_goals first
    | exact hR _ _
    | exact resetStart_wfs _ _ _ _ _ hk hR

theorem doTail_wfs (c : Cfg) (s : St) (m : Meth) (tp : Nat) (r : Resp) (k : List Fr)
    (retK : St → Val → St) (hk : WF k) (hR : ∀ s' v, WFs (retK s' v)) :
    WFs (doTail c s m tp r k retK) := by
  unfold doTail
  split
  · exact hR _ _
  · simp only []
    repeat' split
    all_goals first
      | exact hR _ _
      | exact startDo_wfs _ _ _ _ _ _ _ _ (by simpa using hk) (fun s' e => hR _ _) (fun hf => by cases hf)

theorem frameRet_wfs (c : Cfg) (f : Fr) (k : List Fr) (retK : St → Val → St) (s : St) (v : Val)
    (hk : WF (f :: k)) (hR : ∀ s' v, WFs (retK s' v)) : WFs (frameRet c f k retK s v) := by
  unfold frameRet
  cases f with
  | wait m n tp => exact hR _ _
  | doOpt m skip tp =>
    have hk' : WF k := hk
    cases v <;> simp only []
    all_goals first
      | exact hR _ _
      | (repeat' split
         all_goals first
           | exact hR _ _
           | exact wfs_wait _ _ _ _ _ hk')
  | optionsK =>
    cases v <;> simp only []
    all_goals first
      | exact hR _ _
      | (repeat' split
         all_goals exact hR _ _)
  | describeK rd =>
    have hk' : Calm1 k := hk
    cases v <;> simp only []
    all_goals first
      | exact hR _ _
      | exact describeResp_wfs _ _ _ _ _ _ hk' hR
  | announceK =>
    cases v <;> simp only []
    all_goals first
      | exact hR _ _
      | (repeat' split
         all_goals exact hR _ _)
  | setupK a p =>
    have hk' : Calm1 k := hk
    cases v <;> simp only []
    all_goals first
      | exact hR _ _
      | exact setupResp_wfs _ _ _ _ _ _ _ hk' hR
  | playK =>
    cases v <;> simp only []
    all_goals first
      | exact hR _ _
      | (repeat' split
         all_goals exact hR _ _)
  | recordK =>
    cases v <;> simp only []
    all_goals first
      | exact hR _ _
      | (repeat' split
         all_goals exact hR _ _)
  | pauseK =>
    cases v <;> simp only []
    all_goals first
      | exact hR _ _
      | (repeat' split
         all_goals exact hR _ _)
  | redescK a =>
    have hk' : Calm1 k := hk
    cases v <;> simp only []
    all_goals first
      | exact hR _ _
      | exact setupStart_wfs _ _ _ _ _ _ (by simpa using hk') hR
  | resetK n saved =>
    have hk' : Calm1 k := hk
    exact afterReset_wfs _ _ _ _ hk' hR
  | swDescK ms =>
    have hk' : Calm1 k := hk
    cases v <;> simp only []
    all_goals first
      | exact wfs_runExit _ _
      | (cases ms <;> simp only []
         all_goals first
           | exact playStart_wfs _ _ _ _ (calm1_cons (by intro n b h; cases h) hk') (swEnd_wfs retK hR)
           | exact setupStart_wfs _ _ _ _ _ _ (calm1_cons (by intro n b h; cases h) hk') (swEnd_wfs retK hR))
  | swSetupK rest =>
    have hk' : Calm1 k := hk
    cases v <;> simp only []
    all_goals first
      | exact wfs_runExit _ _
      | (cases rest <;> simp only []
         all_goals first
           | exact playStart_wfs _ _ _ _ (calm1_cons (by intro n b h; cases h) hk') (swEnd_wfs retK hR)
           | exact setupStart_wfs _ _ _ _ _ _ (calm1_cons (by intro n b h; cases h) hk') (swEnd_wfs retK hR))
  | swPlayK =>
    cases v <;> simp only []
    all_goals first
      | exact wfs_runExit _ _
      | exact hR _ _

theorem wf_tail : ∀ (f : Fr) (k : List Fr), WF (f :: k) → WF k := by
  intro f k h
  cases f <;> simp only [WF] at h
  all_goals first
    | exact h
    | exact wf_of_calm1 _ h

theorem resume_wfs (c : Cfg) (k : List Fr) (hk : WF k) : ∀ s v, WFs (resume c k s v) := by
  induction k with
  | nil => intro s v; exact wfs_deliver s v
  | cons f k ih =>
    intro s v
    simp only [resume]
    exact frameRet_wfs _ _ _ _ _ _ hk (ih (wf_tail f k hk))

end Rtsp.ClientSm
