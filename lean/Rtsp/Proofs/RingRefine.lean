import Rtsp.Proofs.RingSeq
/-
Refinement theorems: every ring operation, on a state satisfying `RingInv`, is the corresponding
operation of the bounded FIFO on the abstraction `abs`; by induction, so is every run.
-/
namespace Rtsp.Ring
open Rtsp.Fifo (Fifo)
variable {α : Type}

theorem ringInv_new {size : Nat} (h : 0 < size) : RingInv (new (α := α) size) := ⟨0, [], inv_new size h⟩

theorem abs_new {size : Nat} (h : 0 < size) : abs (new (α := α) size) = Fifo.new size := by
  rw [abs_of_inv (inv_new size h)]; rfl

theorem push_size (r : Ring α) (x : α) : (push r x).1.size = r.size := by
  simp only [push]; split <;> rfl
theorem push_closed (r : Ring α) (x : α) : (push r x).1.closed = r.closed := by
  simp only [push]; split <;> rfl
theorem pullTry_size (r : Ring α) : (pullTry r).1.size = r.size := by
  simp only [pullTry]; split
  · rfl
  · split <;> rfl
theorem pullTry_closed (r : Ring α) : (pullTry r).1.closed = r.closed := by
  simp only [pullTry]; split
  · rfl
  · split <;> rfl

theorem push_false_eq (r : Ring α) (x : α) (h : (push r x).2 = false) : (push r x).1 = r := by
  simp only [push] at h ⊢
  split <;> simp_all

theorem absItems_push_ok {r : Ring α} (hr : RingInv r) (x : α) (hok : (push r x).2 = true) :
    absItems (push r x).1 = absItems r ++ [x] := by
  obtain ⟨base, items, h⟩ := hr
  by_cases hfull : items.length = r.size
  · rw [push_full h hfull] at hok; cases hok
  · have hroom : items.length < r.size := by have := h.n_le; omega
    rw [absItems_of_inv (push_room h hroom x).2, absItems_of_inv h]

theorem absItems_pull_item {r : Ring α} (hr : RingInv r) {x : α} (hx : (pullTry r).2 = .item x) :
    r.closed = false ∧ absItems r = x :: absItems (pullTry r).1 := by
  obtain ⟨base, items, h⟩ := hr
  by_cases hc' : r.closed = true
  · rw [pull_closed hc'] at hx; cases hx
  · have hc : r.closed = false := by simpa using hc'
    cases items with
    | nil => rw [pull_empty h hc] at hx; cases hx
    | cons y ys =>
      obtain ⟨hres, hinv⟩ := pull_item h hc
      rw [hres] at hx
      injection hx with hx; subst hx
      exact ⟨hc, by rw [absItems_of_inv h, absItems_of_inv hinv]⟩

theorem pullTry_not_item_eq (r : Ring α) (h : ∀ x, (pullTry r).2 ≠ .item x) : (pullTry r).1 = r := by
  simp only [pullTry] at h ⊢
  split
  · rfl
  · split
    · rename_i x hx; simp only [hx] at h; split at h <;> simp_all
    · rfl

theorem pullTry_closed_iff (r : Ring α) : (pullTry r).2 = .closed ↔ r.closed = true := by
  simp only [pullTry]
  split
  · simp_all
  · split <;> simp_all

theorem push_refines {r : Ring α} (hr : RingInv r) (x : α) :
    RingInv (push r x).1 ∧ Fifo.push (abs r) x = (abs (push r x).1, (push r x).2) := by
  obtain ⟨base, items, h⟩ := hr
  by_cases hfull : items.length = r.size
  · rw [push_full h hfull]
    refine ⟨⟨base, items, h⟩, ?_⟩
    simp only [abs_of_inv h, Fifo.push, hfull, Nat.lt_irrefl, if_false]
  · have hroom : items.length < r.size := by have := h.n_le; omega
    obtain ⟨hok, hinv⟩ := push_room h hroom x
    refine ⟨⟨base, _, hinv⟩, ?_⟩
    rw [abs_of_inv hinv, hok, abs_of_inv h]
    simp only [Fifo.push, hroom, if_true, push_size, push_closed]

theorem pull_refines {r : Ring α} (hr : RingInv r) :
    RingInv (pullTry r).1 ∧ Fifo.pull (abs r) = (abs (pullTry r).1, (pullTry r).2) := by
  obtain ⟨base, items, h⟩ := hr
  by_cases hc' : r.closed = true
  · rw [pull_closed hc']
    exact ⟨⟨base, items, h⟩, by simp only [Fifo.pull, abs, hc', if_true]⟩
  · have hc : r.closed = false := by simpa using hc'
    cases items with
    | nil =>
      rw [pull_empty h hc]
      refine ⟨⟨base, [], h⟩, ?_⟩
      simp only [abs_of_inv h, Fifo.pull, hc]
      rfl
    | cons x xs =>
      obtain ⟨hres, hinv⟩ := pull_item h hc
      refine ⟨⟨_, xs, hinv⟩, ?_⟩
      rw [abs_of_inv hinv, hres, abs_of_inv h]
      simp only [Fifo.pull, hc, pullTry_size, pullTry_closed]
      rfl

theorem close_refines {r : Ring α} (hr : RingInv r) :
    RingInv (close r) ∧ Fifo.close (abs r) = abs (close r) := by
  obtain ⟨base, items, h⟩ := hr
  exact ⟨⟨_, [], inv_close h⟩, by rw [abs_of_inv (inv_close h), abs_of_inv h]; rfl⟩

theorem reset_refines {r : Ring α} (hr : RingInv r) :
    RingInv (reset r) ∧ Fifo.reset (abs r) = abs (reset r) := by
  obtain ⟨base, items, h⟩ := hr
  exact ⟨⟨_, [], inv_reset h⟩, by rw [abs_of_inv (inv_reset h), abs_of_inv h]; rfl⟩

theorem step_refines {r : Ring α} (hr : RingInv r) (op : Op α) :
    RingInv (step r op).1 ∧ Fifo.step (abs r) op = (abs (step r op).1, (step r op).2) := by
  cases op with
  | push x =>
    obtain ⟨hi, he⟩ := push_refines hr x
    exact ⟨hi, by simp only [Fifo.step, step, he]⟩
  | pull =>
    obtain ⟨hi, he⟩ := pull_refines hr
    exact ⟨hi, by simp only [Fifo.step, step, he]⟩
  | close =>
    obtain ⟨hi, he⟩ := close_refines hr
    exact ⟨hi, by simp only [Fifo.step, step, he]⟩
  | reset =>
    obtain ⟨hi, he⟩ := reset_refines hr
    exact ⟨hi, by simp only [Fifo.step, step, he]⟩

/-- `RingInv` is preserved by every operation -/
theorem ringInv_step {r : Ring α} (hr : RingInv r) (op : Op α) : RingInv (step r op).1 :=
  (step_refines hr op).1

theorem run_refines {r : Ring α} (hr : RingInv r) (ops : List (Op α)) :
    RingInv (run r ops).1 ∧ Fifo.run (abs r) ops = (abs (run r ops).1, (run r ops).2) := by
  induction ops generalizing r with
  | nil => exact ⟨hr, rfl⟩
  | cons op ops ih =>
    obtain ⟨hi, he⟩ := step_refines hr op
    obtain ⟨hi2, he2⟩ := ih hi
    refine ⟨by simpa only [run] using hi2, ?_⟩
    simp only [Fifo.run, run, he, he2]

/-- the invariant holds in every state reachable from `New` -/
theorem ringInv_run {size : Nat} (h : 0 < size) (ops : List (Op α)) :
    RingInv (run (new size) ops).1 := (run_refines (ringInv_new h) ops).1

/-- every run of the ring from `New(size)` returns exactly what the bounded FIFO of capacity
`size` returns, and ends in a state whose abstraction is the FIFO's final state -/
theorem run_new_refines {size : Nat} (h : 0 < size) (ops : List (Op α)) :
    Fifo.run (Fifo.new size) ops = (abs (run (new size) ops).1, (run (new size) ops).2) := by
  rw [← abs_new h]; exact (run_refines (ringInv_new h) ops).2

/-- `Push` returns false exactly when the queue holds `size` items -/
theorem refused_iff_full {r : Ring α} (hr : RingInv r) (x : α) :
    (push r x).2 = false ↔ (abs r).items.length = r.size := by
  have he := (push_refines hr x).2
  have : (Fifo.push (abs r) x).2 = (push r x).2 := by rw [he]
  rw [← this]
  have hcap : (abs r).cap = r.size := rfl
  obtain ⟨base, items, h⟩ := hr
  have hle : (abs r).items.length ≤ r.size := by rw [abs_of_inv h]; exact h.n_le
  simp only [Fifo.push, hcap]
  split <;> simp <;> omega

/-- the queue never holds more than `size` items -/
theorem abs_length_le {r : Ring α} (hr : RingInv r) : (abs r).items.length ≤ r.size := by
  obtain ⟨base, items, h⟩ := hr
  rw [abs_of_inv h]; exact h.n_le

end Rtsp.Ring
