import Rtsp.Proofs.TimeDec
/-
History-level facts about `GlobalDecoder.Decode` (core Lean only): per-track traces, the chaining
invariant, the leader reference.
-/
namespace Rtsp.TimeDec

/-- the packets of track `id` that were given a PTS by a run, in order: `(timestamp, PTS)` -/
def trace (id : Nat) : List Op → List (Option Int) → List (UInt32 × Int)
  | o :: os, some p :: rs => if o.id = id then (o.ts, p) :: trace id os rs else trace id os rs
  | _ :: os, none :: rs => trace id os rs
  | _, _ => []

/-- consecutive trace entries differ by the signed 32-bit delta, starting from track data `t` -/
def chainFrom (t : Track) : List (UInt32 × Int) → Prop
  | [] => True
  | (ts, p) :: rest => p = t.overall + sdelta ts t.prev ∧ chainFrom { overall := p, prev := ts } rest

/-- a trace is chained: each PTS is the previous one plus the signed delta of the timestamps -/
def Chained : List (UInt32 × Int) → Prop
  | [] => True
  | (ts, p) :: rest => chainFrom { overall := p, prev := ts } rest

/-- Σ of signed 32-bit differences along a list of timestamps that follows `prev` -/
def sumDeltas (prev : UInt32) : List UInt32 → Int
  | [] => 0
  | t :: ts => sdelta t prev + sumDeltas t ts

/-! ### single steps -/

theorem decode_rate_zero (s : State) (o : Op) (h : o.rate = 0) : decode s o = (s, none) := by
  simp [decode, h]

theorem decode_new_refused (s : State) (o : Op) (hr : o.rate ≠ 0) (hn : s.tracks o.id = none)
    (he : o.eq = false) : decode s o = (s, none) := by
  simp [decode, hr, hn, he]

theorem elect_tracks (s : State) (o : Op) : (elect s o).tracks = s.tracks := by
  unfold elect; split <;> rfl

theorem decode_new (s : State) (o : Op) (hr : o.rate ≠ 0) (hn : s.tracks o.id = none)
    (he : o.eq = true) :
    (decode s o).2 = some (startOf (elect s o) o) ∧
    (decode s o).1.tracks = setTrack s.tracks o.id { overall := startOf (elect s o) o, prev := o.ts } ∧
    (decode s o).1.leading = (elect s o).leading ∧ (decode s o).1.startSystem = (elect s o).startSystem ∧
    (decode s o).1.startPTS = (elect s o).startPTS ∧ (decode s o).1.startRate = (elect s o).startRate := by
  simp [decode, hr, hn, he, elect_tracks]

theorem decode_old (s : State) (o : Op) (hr : o.rate ≠ 0) (t : Track) (ht : s.tracks o.id = some t) :
    (decode s o).2 = some (t.overall + sdelta o.ts t.prev) ∧
    (decode s o).1.tracks = setTrack s.tracks o.id (t.decode o.ts) := by
  simp only [decode, hr, ht, if_false]
  constructor
  · rfl
  · split <;> rfl

/-- a `Decode` on one track never touches another track's data -/
theorem decode_frame (s : State) (o : Op) (id : Nat) (h : o.id ≠ id) :
    (decode s o).1.tracks id = s.tracks id := by
  by_cases hr : o.rate = 0
  · rw [decode_rate_zero s o hr]
  · cases ht : s.tracks o.id with
    | none =>
      cases he : o.eq with
      | false => rw [decode_new_refused s o hr ht he]
      | true =>
        rw [(decode_new s o hr ht he).2.1]
        simp only [setTrack]
        rw [if_neg (fun e => h (Eq.symm e))]
    | some t =>
      rw [(decode_old s o hr t ht).2]
      simp only [setTrack]
      rw [if_neg (fun e => h (Eq.symm e))]

/-- what a `Decode` on track `o.id` does to that track and what it returns -/
theorem decode_self (s : State) (o : Op) :
    match s.tracks o.id, (decode s o).2 with
    | some t, some p => p = t.overall + sdelta o.ts t.prev ∧
                        (decode s o).1.tracks o.id = some { overall := p, prev := o.ts }
    | some t, none   => (decode s o).1.tracks o.id = some t
    | none,   some p => (decode s o).1.tracks o.id = some { overall := p, prev := o.ts }
    | none,   none   => (decode s o).1.tracks o.id = none := by
  by_cases hr : o.rate = 0
  · rw [decode_rate_zero s o hr]
    cases s.tracks o.id <;> simp
  · cases ht : s.tracks o.id with
    | none =>
      cases he : o.eq with
      | false => rw [decode_new_refused s o hr ht he]; simp [ht]
      | true =>
        have h := decode_new s o hr ht he
        rw [h.1]
        simp only [h.2.1, setTrack, if_true]
    | some t =>
      have h := decode_old s o hr t ht
      rw [h.1]
      simp only [h.2, setTrack, if_true, Track.decode, and_self]

/-! ### the chaining invariant over histories -/

theorem trace_chain (id : Nat) (ops : List Op) :
    ∀ s : State,
      match s.tracks id with
      | some t => chainFrom t (trace id ops (run s ops).2)
      | none => Chained (trace id ops (run s ops).2) := by
  induction ops with
  | nil => intro s; cases s.tracks id <;> simp [trace, chainFrom, Chained]
  | cons o os ih =>
    intro s
    have ih' := ih (decode s o).1
    have hrun : (run s (o :: os)).2 = (decode s o).2 :: (run (decode s o).1 os).2 := rfl
    rw [hrun]
    by_cases hid : o.id = id
    · subst hid
      have hs := decode_self s o
      cases ht : s.tracks o.id with
      | some t =>
        cases hp : (decode s o).2 with
        | some p =>
          rw [ht, hp] at hs
          simp only [trace, if_true, chainFrom]
          rw [hs.2] at ih'
          exact ⟨hs.1, ih'⟩
        | none =>
          rw [ht, hp] at hs
          simp only [trace]
          rw [hs] at ih'
          exact ih'
      | none =>
        cases hp : (decode s o).2 with
        | some p =>
          rw [ht, hp] at hs
          simp only [trace, if_true, Chained]
          rw [hs] at ih'
          exact ih'
        | none =>
          rw [ht, hp] at hs
          simp only [trace]
          rw [hs] at ih'
          exact ih'
    · have hf := decode_frame s o id hid
      rw [hf] at ih'
      cases hp : (decode s o).2 with
      | some p => simp only [trace, if_neg hid]; exact ih'
      | none => simp only [trace]; exact ih'

/-- every run of `Decode` calls, from any state, yields a chained trace for every track -/
theorem trace_chained (s : State) (ops : List Op) (id : Nat) :
    Chained (trace id ops (run s ops).2) := by
  have h := trace_chain id ops s
  cases ht : s.tracks id with
  | none => rw [ht] at h; exact h
  | some t =>
    rw [ht] at h
    cases htr : trace id ops (run s ops).2 with
    | nil => trivial
    | cons a rest =>
      rw [htr] at h
      obtain ⟨ts, p⟩ := a
      exact h.2

/-! ### differences along a chained trace -/

theorem chainFrom_getElem (tr : List (UInt32 × Int)) :
    ∀ (t : Track), chainFrom t tr → ∀ (j : Nat) (hj : j < tr.length),
      tr[j].2 = t.overall + sumDeltas t.prev ((tr.take (j + 1)).map Prod.fst) := by
  induction tr with
  | nil => intro t _ j hj; simp at hj
  | cons a rest ih =>
    intro t h j hj
    obtain ⟨ts, p⟩ := a
    obtain ⟨hp, hrest⟩ := h
    cases j with
    | zero => simp [sumDeltas, hp]
    | succ j =>
      have := ih _ hrest j (by simpa using hj)
      simp only [List.getElem_cons_succ, List.take_succ_cons, List.map_cons, sumDeltas]
      rw [this, hp]
      simp only []
      omega

theorem chainFrom_drop (tr : List (UInt32 × Int)) :
    ∀ (t : Track), chainFrom t tr → ∀ (i : Nat) (hi : i < tr.length),
      chainFrom { overall := tr[i].2, prev := tr[i].1 } (tr.drop (i + 1)) := by
  induction tr with
  | nil => intro t _ i hi; simp at hi
  | cons a rest ih =>
    intro t h i hi
    obtain ⟨ts, p⟩ := a
    obtain ⟨_, hrest⟩ := h
    cases i with
    | zero => simpa using hrest
    | succ i =>
      have := ih _ hrest i (by simpa using hi)
      simpa using this

theorem Chained_drop (tr : List (UInt32 × Int)) (h : Chained tr) (i : Nat) (hi : i < tr.length) :
    chainFrom { overall := tr[i].2, prev := tr[i].1 } (tr.drop (i + 1)) := by
  cases tr with
  | nil => simp at hi
  | cons a rest =>
    obtain ⟨ts, p⟩ := a
    cases i with
    | zero => simpa [Chained] using h
    | succ i =>
      have := chainFrom_drop rest _ h i (by simpa using hi)
      simpa using this

/-- in a chained trace the PTS difference between any two entries is the sum of the signed 32-bit
differences of the timestamps in between -/
theorem Chained_diff (tr : List (UInt32 × Int)) (h : Chained tr) (i j : Nat) (hij : i ≤ j)
    (hj : j < tr.length) :
    tr[j].2 - tr[i].2 = sumDeltas tr[i].1 (((tr.drop (i + 1)).take (j - i)).map Prod.fst) := by
  have hc := Chained_drop tr h i (by omega)
  rcases Nat.eq_or_lt_of_le hij with e | hlt
  · subst e; simp [sumDeltas]
  · have hlen : j - i - 1 < (tr.drop (i + 1)).length := by simp; omega
    have := chainFrom_getElem _ _ hc (j - i - 1) hlen
    have e1 : (tr.drop (i + 1))[j - i - 1] = tr[j] := by
      rw [List.getElem_drop]; congr 1; omega
    have e2 : j - i - 1 + 1 = j - i := by omega
    rw [e1, e2] at this
    rw [this]
    simp only []
    omega

/-! ### a writer clock with steps below 2^31 is reproduced exactly -/

/-- the 32-bit RTP timestamp field of a 64-bit (here: unbounded) media clock value -/
def low32 (w : Int) : UInt32 := UInt32.ofNat (w % 4294967296).toNat

theorem low32_toNat (w : Int) : ((low32 w).toNat : Int) = w % 4294967296 := by
  unfold low32
  have h1 : 0 ≤ w % 4294967296 := Int.emod_nonneg _ (by decide)
  have h2 : w % 4294967296 < 4294967296 := Int.emod_lt_of_pos _ (by decide)
  have h3 : (w % 4294967296).toNat < 4294967296 := by omega
  rw [UInt32.toNat_ofNat_of_lt' h3]
  omega

theorem Chained_step (tr : List (UInt32 × Int)) (h : Chained tr) (k : Nat) (hk : k + 1 < tr.length) :
    tr[k + 1].2 = tr[k].2 + sdelta tr[k + 1].1 tr[k].1 := by
  have := Chained_diff tr h k (k + 1) (by omega) hk
  have e : k + 1 - k = 1 := by omega
  rw [e] at this
  have hd : (tr.drop (k + 1)).take 1 = [tr[k + 1]] := by
    rw [List.drop_eq_getElem_cons hk]; rfl
  rw [hd] at this
  simp [sumDeltas] at this
  omega

theorem Chained_writer (tr : List (UInt32 × Int)) (h : Chained tr) (w : Nat → Int)
    (hts : ∀ k (hk : k < tr.length), tr[k].1 = low32 (w k))
    (hstep : ∀ k, k + 1 < tr.length → -2147483648 ≤ w (k + 1) - w k ∧ w (k + 1) - w k < 2147483648)
    (i j : Nat) (hij : i ≤ j) (hj : j < tr.length) :
    tr[j].2 - tr[i].2 = w j - w i := by
  induction j with
  | zero => have : i = 0 := by omega
            subst this; omega
  | succ j ih =>
    rcases Nat.eq_or_lt_of_le hij with e | hlt
    · subst e; omega
    · have ih' := ih (by omega) (by omega)
      have hs := Chained_step tr h j hj
      have hst := hstep j hj
      have e1 := hts (j + 1) hj
      have e2 := hts j (by omega)
      have hd : sdelta tr[j + 1].1 tr[j].1 = w (j + 1) - w j := by
        apply sdelta_of_step _ _ _ hst.1 hst.2
        rw [e1, e2, low32_toNat, low32_toNat]
        omega
      omega

end Rtsp.TimeDec
