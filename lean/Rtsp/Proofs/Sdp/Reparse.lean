import Rtsp.Proofs.Sdp.DocRT
/-
Every document the tolerant parser returns is well formed — so writing it out and parsing it again
returns the same document (text-layer idempotence, for arbitrary input bytes).
-/
namespace Rtsp.Sdp

/-! ### pieces of a split -/

theorem splitOn_mem {sep : UInt8} {s p : Str} (h : p ∈ splitOn sep s) : sep ∉ p ∧ ∀ c ∈ p, c ∈ s := by
  induction s generalizing p with
  | nil =>
    simp only [splitOn, List.mem_singleton] at h
    subst h
    simp
  | cons x xs ih =>
    simp only [splitOn] at h
    split at h
    · simp only [List.mem_cons] at h
      rcases h with rfl | h
      · simp
      · have := ih h
        exact ⟨this.1, fun c hc => List.mem_cons_of_mem _ (this.2 c hc)⟩
    · rename_i hx
      cases hsp : splitOn sep xs with
      | nil => exact absurd hsp (splitOn_ne_nil sep xs)
      | cons q qs =>
        rw [hsp] at h
        simp only [List.mem_cons] at h
        have hq := ih (p := q) (by rw [hsp]; simp)
        rcases h with rfl | h
        · refine ⟨?_, ?_⟩
          · intro hm
            simp only [List.mem_cons] at hm
            rcases hm with e | hm
            · exact hx e.symm
            · exact hq.1 hm
          · intro c hc
            simp only [List.mem_cons] at hc ⊢
            rcases hc with rfl | hc
            · exact Or.inl rfl
            · exact Or.inr (hq.2 c hc)
        · have := ih (p := p) (by rw [hsp]; simp [h])
          exact ⟨this.1, fun c hc => List.mem_cons_of_mem _ (this.2 c hc)⟩

theorem lines_ok (t : Str) : ∀ l ∈ linesOf t, NoNL l ∧ l ≠ [] := by
  intro l hl
  simp only [linesOf, List.mem_filter, Bool.not_eq_true'] at hl
  have hs := splitOn_mem hl.1
  refine ⟨?_, ?_⟩
  · intro c hc
    refine ⟨fun e => hs.1 (e ▸ hc), ?_⟩
    have := hs.2 c hc
    simp only [List.mem_filter, bne_iff_ne, ne_eq] at this
    exact this.2
  · intro e; rw [e] at hl; simp at hl

/-! ### fields -/

theorem fields_mem {s w : Str} (h : w ∈ fields s) : w ≠ [] ∧ NoSp w ∧ ∀ c ∈ w, c ∈ s := by
  induction s generalizing w with
  | nil => simp [fields] at h
  | cons x xs ih =>
    rw [fields.eq_def] at h
    simp only at h
    split at h
    · have := ih h
      exact ⟨this.1, this.2.1, fun c hc => List.mem_cons_of_mem _ (this.2.2 c hc)⟩
    · rename_i hx
      have hx' : isSpace x = false := by simpa using hx
      cases xs with
      | nil =>
        simp only [List.mem_singleton] at h
        subst h
        refine ⟨by simp, ?_, by simp⟩
        intro c hc
        simp only [List.mem_singleton] at hc
        subst hc; exact hx'
      | cons d ds =>
        simp only at h
        split at h
        · simp only [List.mem_cons] at h
          rcases h with rfl | h
          · refine ⟨by simp, ?_, by simp⟩
            intro c hc
            simp only [List.mem_singleton] at hc
            subst hc; exact hx'
          · have := ih h
            exact ⟨this.1, this.2.1, fun c hc => List.mem_cons_of_mem _ (this.2.2 c hc)⟩
        · cases hf : fields (d :: ds) with
          | nil =>
            rw [hf] at h
            simp only [List.mem_singleton] at h
            subst h
            refine ⟨by simp, ?_, by simp⟩
            intro c hc
            simp only [List.mem_singleton] at hc
            subst hc; exact hx'
          | cons q qs =>
            rw [hf] at h
            simp only [List.mem_cons] at h
            have hq := ih (w := q) (by rw [hf]; simp)
            rcases h with rfl | h
            · refine ⟨by simp, ?_, ?_⟩
              · intro c hc
                simp only [List.mem_cons] at hc
                rcases hc with rfl | hc
                · exact hx'
                · exact hq.2.1 c hc
              · intro c hc
                simp only [List.mem_cons] at hc ⊢
                rcases hc with rfl | hc
                · exact Or.inl rfl
                · exact Or.inr (by simpa using hq.2.2 c hc)
            · have := ih (w := w) (by rw [hf]; simp [h])
              exact ⟨this.1, this.2.1, fun c hc => List.mem_cons_of_mem _ (this.2.2 c hc)⟩

/-! ### attributes returned by `parseAttr` -/

theorem indexOf_single_spec {c : UInt8} {s : Str} {i : Nat} (h : indexOf [c] s = some i) :
    c ∉ s.take i ∧ i < s.length := by
  induction s generalizing i with
  | nil => simp [indexOf] at h
  | cons x xs ih =>
    simp only [indexOf, List.isPrefixOf] at h
    by_cases hx : c = x
    · subst hx
      simp at h
      subst h
      simp
    · have hx' : (c == x) = false := by simpa using hx
      simp only [hx', Bool.false_and, Bool.false_eq_true, if_false, Option.map_eq_some_iff] at h
      obtain ⟨j, hj, rfl⟩ := h
      have := ih hj
      refine ⟨?_, by simp; omega⟩
      intro hm
      simp only [List.take_succ_cons, List.mem_cons] at hm
      rcases hm with e | hm
      · exact hx e
      · exact this.1 hm

theorem attrRT_parseAttr (v : Str) (hnl : NoNL v) (hasc : Ascii v) : AttrRT (parseAttr v) := by
  unfold parseAttr
  split
  · rename_i i hi
    have hspec := indexOf_single_spec hi
    have hsub1 : ∀ c ∈ v.take (i + 1), c ∈ v := fun c hc => List.mem_of_mem_take hc
    have hsub2 : ∀ c ∈ v.drop (i + 2), c ∈ v := fun c hc => List.mem_of_mem_drop hc
    apply attrRT_of_wf
    exact
      { key_ne := by
          intro e
          have := congrArg List.length e
          simp only [List.length_take, List.length_nil] at this
          omega
        key_nocolon := hspec.1
        key_nonl := fun c hc => hnl c (hsub1 c hc)
        val_nonl := fun c hc => hnl c (hsub2 c hc)
        key_ascii := fun c hc => hasc c (hsub1 c hc)
        val_ascii := fun c hc => hasc c (hsub2 c hc) }
  · rename_i hno
    have hr : renderAttr ⟨v, []⟩ = v := by simp [renderAttr]
    refine ⟨?_, by rw [hr]; exact hnl, by rw [hr]; exact hasc⟩
    rw [hr]
    unfold parseAttr
    split
    · rename_i i hi; exact absurd hi (hno i)
    · rfl

/-! ### media lines returned by `parseMediaLine` -/

theorem wfMedia_parseMediaLine {val : Str} {m : MediaD} (hasc : Ascii val) (h : parseMediaLine val = some m) : WfMedia m := by
  unfold parseMediaLine at h
  split at h
  · rename_i f0 f1 f2 f3 rest hf
    have hmem : ∀ w, w ∈ f0 :: f1 :: f2 :: f3 :: rest → w ≠ [] ∧ NoSp w ∧ ∀ c ∈ w, c ∈ val := by
      intro w hw; rw [← hf] at hw; exact fields_mem hw
    split at h
    · cases h
    · rename_i ht
      split at h
      · cases h
      · split at h
        · cases h
        · rename_i hp
          simp only [Option.some.injEq] at h
          subst h
          have h0 := hmem f0 (by simp)
          have h2 := hmem f2 (by simp)
          exact
            { type_ok := by simpa using ht
              type_nosp := h0.2.1
              type_ascii := fun c hc => hasc c (h0.2.2 c hc)
              protos_ne := splitOn_ne_nil 47 f2
              protos_ok := by
                have : (splitOn 47 f2).all protoOk = true := by simpa using hp
                rw [List.all_eq_true] at this
                exact this
              fmts_ne := by simp
              fmts_ok := by
                intro f hf'
                have hfm : f ∈ f0 :: f1 :: f2 :: f3 :: rest := by
                  simp only [List.mem_cons] at hf' ⊢
                  rcases hf' with rfl | hf'
                  · exact Or.inr (Or.inr (Or.inr (Or.inl rfl)))
                  · exact Or.inr (Or.inr (Or.inr (Or.inr hf')))
                have := hmem f hfm
                exact ⟨this.1, this.2.1, fun c hc => hasc c (this.2.2 c hc)⟩
              attrs_ok := by intro a ha; simp at ha }
  · cases h

/-! ### the invariant of the line machine -/

theorem wfDoc_addAttr {d : Doc} (h : WfDoc d) {a : Attr} (ha : AttrRT a) : WfDoc { d with attrs := d.attrs ++ [a] } where
  name_nonl := h.name_nonl
  attrs_ok := by
    intro x hx
    simp only [List.mem_append, List.mem_singleton] at hx
    rcases hx with hx | rfl
    · exact h.attrs_ok x hx
    · exact ha
  medias_ok := h.medias_ok

theorem wfDoc_addMedia {d : Doc} (h : WfDoc d) {m : MediaD} (hm : WfMedia m) : WfDoc { d with medias := d.medias ++ [m] } where
  name_nonl := h.name_nonl
  attrs_ok := h.attrs_ok
  medias_ok := by
    intro x hx
    simp only [List.mem_append, List.mem_singleton] at hx
    rcases hx with hx | rfl
    · exact h.medias_ok x hx
    · exact hm

theorem wfDoc_addMediaAttr {d : Doc} (h : WfDoc d) {a : Attr} (ha : AttrRT a) : WfDoc (addMediaAttr d a) := by
  unfold addMediaAttr
  split
  · rename_i m hm
    have hmem : m ∈ d.medias := List.mem_of_getLast? hm
    have hwm := h.medias_ok m hmem
    refine ⟨h.name_nonl, h.attrs_ok, ?_⟩
    intro x hx
    simp only [List.mem_append, List.mem_singleton] at hx
    rcases hx with hx | rfl
    · exact h.medias_ok x ((List.dropLast_sublist _).subset hx)
    · exact
        { type_ok := hwm.type_ok, type_nosp := hwm.type_nosp, type_ascii := hwm.type_ascii, protos_ne := hwm.protos_ne,
          protos_ok := hwm.protos_ok, fmts_ne := hwm.fmts_ne, fmts_ok := hwm.fmts_ok
          attrs_ok := by
            intro y hy
            simp only [List.mem_append, List.mem_singleton] at hy
            rcases hy with hy | rfl
            · exact hwm.attrs_ok y hy
            · exact ha }
  · exact h

theorem wfDoc_sessionLine {d d' : Doc} {st' : St} {key : UInt8} {val : Str} (h : WfDoc d) (hnl : NoNL val)
    (hasc : opaqueKey key = false → Ascii val) (hs : sessionLine d key val = .ok (st', d')) : WfDoc d' := by
  unfold sessionLine at hs
  by_cases h1 : key = 111
  · simp only [h1, if_true] at hs
    split at hs
    · cases hs; exact h
    · cases hs
  simp only [h1, if_false] at hs
  by_cases h2 : key = 115
  · simp only [h2, if_true] at hs
    cases hs
    exact ⟨hnl, h.attrs_ok, h.medias_ok⟩
  simp only [h2, if_false] at hs
  by_cases h3 : key = 105 ∨ key = 101 ∨ key = 112 ∨ key = 107
  · simp only [h3, if_true] at hs
    cases hs; exact h
  simp only [h3, if_false] at hs
  by_cases h4 : key = 117
  · simp only [h4, if_true] at hs; cases hs
  simp only [h4, if_false] at hs
  by_cases h5 : key = 99
  · simp only [h5, if_true] at hs
    cases hc : connOk val with
    | ok u => rw [hc] at hs; simp only [Res.bind] at hs; cases hs; exact h
    | err => rw [hc] at hs; cases hs
    | unm => rw [hc] at hs; cases hs
  simp only [h5, if_false] at hs
  by_cases h6 : key = 98
  · simp only [h6, if_true] at hs
    split at hs
    · cases hs; exact h
    · cases hs
  simp only [h6, if_false] at hs
  by_cases h7 : key = 122
  · simp only [h7, if_true] at hs
    split at hs
    · cases hs; exact h
    · cases hs
  simp only [h7, if_false] at hs
  by_cases h8 : key = 97
  · simp only [h8, if_true] at hs
    cases hs
    exact wfDoc_addAttr h (attrRT_parseAttr val hnl (hasc (by subst h8; rfl)))
  simp only [h8, if_false] at hs
  by_cases h9 : key = 116
  · simp only [h9, if_true] at hs
    split at hs
    · cases hs; exact h
    · cases hs
  simp only [h9, if_false] at hs
  by_cases h10 : key = 109
  · simp only [h10, if_true] at hs
    split at hs
    · rename_i m hm
      cases hs
      exact wfDoc_addMedia h (wfMedia_parseMediaLine (hasc (by subst h10; rfl)) hm)
    · cases hs
  simp only [h10, if_false] at hs
  cases hs

theorem wfDoc_mediaLine {d d' : Doc} {st' : St} {key : UInt8} {val : Str} (h : WfDoc d) (hnl : NoNL val)
    (hasc : opaqueKey key = false → Ascii val) (hs : mediaLine d key val = .ok (st', d')) : WfDoc d' := by
  unfold mediaLine at hs
  by_cases h1 : key = 109
  · simp only [h1, if_true] at hs
    split at hs
    · rename_i m hm
      cases hs
      exact wfDoc_addMedia h (wfMedia_parseMediaLine (hasc (by subst h1; rfl)) hm)
    · cases hs
  simp only [h1, if_false] at hs
  by_cases h2 : key = 105 ∨ key = 107
  · simp only [h2, if_true] at hs
    cases hs; exact h
  simp only [h2, if_false] at hs
  by_cases h3 : key = 99
  · simp only [h3, if_true] at hs
    split at hs
    · cases hs; exact h
    · cases hc : connOk val with
      | ok u => rw [hc] at hs; simp only [Res.bind] at hs; cases hs; exact h
      | err => rw [hc] at hs; cases hs
      | unm => rw [hc] at hs; cases hs
  simp only [h3, if_false] at hs
  by_cases h4 : key = 98
  · simp only [h4, if_true] at hs
    split at hs
    · cases hs; exact h
    · cases hs
  simp only [h4, if_false] at hs
  by_cases h5 : key = 97
  · simp only [h5, if_true] at hs
    cases hs
    exact wfDoc_addMediaAttr h (attrRT_parseAttr val hnl (hasc (by subst h5; rfl)))
  simp only [h5, if_false] at hs
  cases hs

theorem nonAsciiLine_not_ok (st : St) (key : UInt8) (x : St × Doc) : nonAsciiLine st key ≠ .ok x := by
  unfold nonAsciiLine
  cases st <;> simp only <;> repeat' split
  all_goals (intro e; cases e)

theorem wfDoc_stepLine {st st' : St} {d d' : Doc} {line : Str} (h : WfDoc d) (hnl : NoNL line)
    (hs : stepLine st d line = .ok (st', d')) : WfDoc d' := by
  unfold stepLine at hs
  split at hs
  · rename_i key val
    have hvnl : NoNL val := fun c hc => hnl c (by simp [hc])
    split at hs
    · exact absurd hs (nonAsciiLine_not_ok _ _ _)
    · rename_i hcond
      have hasc : opaqueKey key = false → Ascii val := by
        intro hk
        simp only [hk, Bool.not_false, Bool.true_and, Bool.not_eq_true', Bool.not_eq_false] at hcond
        intro c hc
        have := List.all_eq_true.mp (by simpa using hcond) c hc
        exact this
      unfold keyLine at hs
      cases st with
      | initial =>
        simp only at hs
        split at hs
        · split at hs
          · cases hs; exact h
          · cases hs
        · exact wfDoc_sessionLine h hvnl hasc hs
      | session => exact wfDoc_sessionLine h hvnl hasc hs
      | media => exact wfDoc_mediaLine h hvnl hasc hs
      | time =>
        simp only at hs
        split at hs
        · split at hs
          · cases hs; exact h
          · cases hs
        · exact wfDoc_sessionLine h hvnl hasc hs
  · cases hs

theorem wfDoc_runLines {st : St} {d d' : Doc} {ls : List Str} (h : WfDoc d) (hls : ∀ l ∈ ls, NoNL l)
    (hr : runLines st d ls = .ok d') : WfDoc d' := by
  induction ls generalizing st d with
  | nil => simp only [runLines, Res.ok.injEq] at hr; subst hr; exact h
  | cons l ls ih =>
    simp only [runLines] at hr
    cases hstep : stepLine st d l with
    | ok x =>
      obtain ⟨st1, d1⟩ := x
      rw [hstep] at hr
      exact ih (wfDoc_stepLine h (hls l (by simp)) hstep) (fun x hx => hls x (by simp [hx])) hr
    | err => rw [hstep] at hr; cases hr
    | unm => rw [hstep] at hr; cases hr

/-- every document returned by the parser is well formed -/
theorem wfDoc_parse {t : Str} {d : Doc} (h : parse t = .ok d) : WfDoc d := by
  unfold parse at h
  refine wfDoc_runLines ⟨by intro c hc; simp [Doc.empty] at hc, by intro a ha; simp [Doc.empty] at ha,
    by intro m hm; simp [Doc.empty] at hm⟩ (fun l hl => (lines_ok t l hl).1) h

/-- **Text-layer idempotence, for every input**: whatever bytes the parser accepted, writing the resulting
document (with pion's marshaller and the header `Session.Marshal` sets) and parsing it again gives the same
document. -/
theorem parse_render_parse (mc : Bool) (t : Str) (d : Doc) (h : parse t = .ok d) : parse (render mc d) = .ok d :=
  parse_render mc d (wfDoc_parse h)

end Rtsp.Sdp
