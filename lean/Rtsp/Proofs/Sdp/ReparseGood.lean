import Rtsp.Proofs.Sdp.Accepted
import Rtsp.Proofs.Sdp.Reparse
import Rtsp.Proofs.Sdp.RoundTrip
/-
Re-parse clause for accepted descriptions: every structural hypothesis of the round trip holds of whatever
the parser accepted; what remains is the per-format condition (and a coherent MIKEY oracle).
-/
namespace Rtsp.Sdp

theorem getAttribute_chars {attrs : List Attr} {key : Str} (h : ∀ a ∈ attrs, AttrRT a) :
    ∀ c ∈ getAttribute attrs key, c ≠ 10 ∧ c ≠ 13 ∧ isAscii c = true := by
  intro c hc
  unfold getAttribute at hc
  split at hc
  · rename_i a ha
    have hmem : a ∈ attrs := List.mem_of_find?_eq_some ha
    have hrt := h a hmem
    have hin : c ∈ renderAttr a := by
      unfold renderAttr
      split
      · rename_i he; rw [List.isEmpty_iff.mp he] at hc; simp at hc
      · simp [hc]
    exact ⟨(hrt.nonl c hin).1, (hrt.nonl c hin).2, hrt.ascii c hin⟩
  · simp at hc

theorem unmarshalKeyMgmt_post {O : Oracle} {attrs : List Attr} {k : Bytes} (h : unmarshalKeyMgmt O attrs = .ok (some k)) :
    ∃ raw, O.mikey raw = some k := by
  unfold unmarshalKeyMgmt at h
  simp only at h
  split at h
  · cases h
  · split at h
    · cases h
    · split at h
      · cases h
      · rename_i raw _
        split at h
        · rename_i m hm
          simp only [Res.ok.injEq, Option.some.injEq] at h
          subst h
          exact ⟨raw, hm⟩
        · cases h

theorem unmarshalMedia_post2 {O : Oracle} {md : MediaD} {m : Media} (hw : WfMedia md) (h : unmarshalMedia O md = .ok m) :
    mediaTypeOk m.typ = true ∧ (∀ c ∈ m.typ, isSpace c = false ∧ isAscii c = true)
    ∧ (∀ c ∈ m.control, c ≠ 10 ∧ c ≠ 13 ∧ isAscii c = true)
    ∧ (∀ k, m.keyMgmt = some k → ∃ raw, O.mikey raw = some k) := by
  unfold unmarshalMedia at h
  by_cases hid : (!(getAttribute md.attrs b!"mid").isEmpty && !(getAttribute md.attrs b!"mid").all isAlnum) = true
  · simp only [hid, if_true] at h; cases h
  · simp only [hid, Bool.false_eq_true, if_false] at h
    cases hk : unmarshalKeyMgmt O md.attrs with
    | err => rw [hk] at h; cases h
    | unm => rw [hk] at h; cases h
    | ok km =>
      rw [hk] at h
      simp only [Res.bind] at h
      cases hf : unmarshalFormats O md md.fmts with
      | err => rw [hf] at h; cases h
      | unm => rw [hf] at h; cases h
      | ok fs =>
        rw [hf] at h
        simp only at h
        by_cases hne : fs.isEmpty = true
        · simp only [hne, if_true] at h; cases h
        · simp only [hne, Bool.false_eq_true, if_false, Res.ok.injEq] at h
          subst h
          refine ⟨hw.type_ok, fun c hc => ⟨hw.type_nosp c hc, hw.type_ascii c hc⟩, getAttribute_chars hw.attrs_ok, ?_⟩
          intro k hk'
          simp only at hk'
          subst hk'
          exact unmarshalKeyMgmt_post hk

theorem unmarshalMedias_from {O : Oracle} (acc : List Media) (mds : List MediaD) (ms : List Media)
    (h : unmarshalMedias O acc mds = .ok ms) :
    ∃ new, ms = acc ++ new ∧ ∀ m ∈ new, ∃ md ∈ mds, unmarshalMedia O md = .ok m := by
  induction mds generalizing acc with
  | nil =>
    simp only [unmarshalMedias, Res.ok.injEq] at h
    subst h
    exact ⟨[], by simp, by simp⟩
  | cons md rest ih =>
    simp only [unmarshalMedias] at h
    cases hm : unmarshalMedia O md with
    | err => rw [hm] at h; cases h
    | unm => rw [hm] at h; cases h
    | ok m =>
      rw [hm] at h
      simp only at h
      split at h
      · cases h
      · obtain ⟨new, hms, hnew⟩ := ih (acc ++ [m]) h
        refine ⟨m :: new, by simp [hms], ?_⟩
        intro x hx
        simp only [List.mem_cons] at hx
        rcases hx with rfl | hx
        · exact ⟨md, by simp, hm⟩
        · obtain ⟨md', hmd', hx'⟩ := hnew x hx
          exact ⟨md', by simp [hmd'], hx'⟩

/-- every media of an accepted description (after the back-channel unmarking) is a parsed media up to its
back-channel flag -/
theorem unmarshalDoc_medias {O : Oracle} {d : Doc} {s : Session} (h : unmarshalDoc O d = .ok s) :
    (∀ m ∈ s.medias, ∃ md ∈ d.medias, ∃ m0, unmarshalMedia O md = .ok m0 ∧ m = { m0 with backChannel := m.backChannel })
    ∧ (∀ k, s.keyMgmt = some k → ∃ raw, O.mikey raw = some k)
    ∧ s.title = (if d.name = [32] then [] else d.name) := by
  unfold unmarshalDoc at h
  cases hk : unmarshalKeyMgmt O d.attrs with
  | err => rw [hk] at h; cases h
  | unm => rw [hk] at h; cases h
  | ok km =>
    rw [hk] at h
    simp only [Res.bind] at h
    split at h
    · cases h
    · cases hm : unmarshalMedias O [] d.medias with
      | err => rw [hm] at h; cases h
      | unm => rw [hm] at h; cases h
      | ok ms =>
        rw [hm] at h
        simp only at h
        split at h
        · cases h
        · obtain ⟨new, hms, hnew⟩ := unmarshalMedias_from [] d.medias ms hm
          simp only [List.nil_append] at hms
          have hms2 : new = ms := hms.symm
          subst hms2
          split at h
          · cases h
          · simp only [Res.ok.injEq] at h
            subst h
            refine ⟨?_, ?_, rfl⟩
            · intro m hm'
              simp only at hm'
              split at hm'
              · simp only [List.mem_map] at hm'
                obtain ⟨n, hn, rfl⟩ := hm'
                obtain ⟨md, hmd, hn'⟩ := hnew n hn
                exact ⟨md, hmd, n, hn', rfl⟩
              · obtain ⟨md, hmd, hn'⟩ := hnew m hm'
                exact ⟨md, hmd, m, hn', rfl⟩
            · intro k hk'
              simp only at hk'
              subst hk'
              exact unmarshalKeyMgmt_post hk

/-- **Every structural hypothesis of the round trip holds of an accepted description**: for any text the
parser accepts, the description is a `GoodSession` as soon as (i) the MIKEY oracle is coherent (a message it
re-encodes is accepted again with the same encoding) and (ii) each format is a `GoodFormat` and the payload
types of each media are distinct. -/
theorem goodSession_of_accepted (O : Oracle) (t : Str) (s : Session) (h : unmarshal O t = .ok s)
    (hmk : ∀ raw k, O.mikey raw = some k → O.mikey k = some k)
    (hfm : ∀ m ∈ s.medias, (∀ f ∈ m.formats, GoodFormat O m.typ f) ∧ m.formats.Pairwise fun a b => a.pt ≠ b.pt) :
    GoodSession O s := by
  have hacc := unmarshal_post O t s h
  unfold unmarshal at h
  cases hp : parse t with
  | err => rw [hp] at h; cases h
  | unm => rw [hp] at h; cases h
  | ok d =>
    rw [hp] at h
    have hd : WfDoc d := wfDoc_parse hp
    have hdoc : unmarshalDoc O d = .ok s := h
    obtain ⟨hmed, hkm, htitle⟩ := unmarshalDoc_medias hdoc
    exact
      { title_ok := by
          intro c hc
          rw [htitle] at hc
          split at hc
          · simp at hc
          · exact hd.name_nonl c hc
        title_not_blank := hacc.title_not_blank
        keymgmt_ok := by
          intro k hk
          obtain ⟨raw, hraw⟩ := hkm k hk
          exact hmk raw k hraw
        medias_ne := hacc.medias_ne
        medias_ok := by
          intro m hm
          obtain ⟨md, hmd, m0, hm0, hmeq⟩ := hmed m hm
          have hw := hd.medias_ok md hmd
          have hp2 := unmarshalMedia_post2 hw hm0
          have htyp : m.typ = m0.typ := by rw [hmeq]
          have hctl : m.control = m0.control := by rw [hmeq]
          have hkme : m.keyMgmt = m0.keyMgmt := by rw [hmeq]
          exact
            { type_ok := by rw [htyp]; exact hp2.1
              type_chars := by rw [htyp]; exact hp2.2.1
              id_alnum := hacc.ids_alnum m hm
              keymgmt_ok := by
                intro k hk
                rw [hkme] at hk
                obtain ⟨raw, hraw⟩ := hp2.2.2.2 k hk
                exact hmk raw k hraw
              control_ok := by rw [hctl]; exact hp2.2.2.1
              formats_ne := hacc.formats_ne m hm
              formats_ok := (hfm m hm).1
              pts_distinct := (hfm m hm).2 }
        ids := hacc.ids
        not_all_back := hacc.not_all_back
        fec_ok := by
          intro g hg
          have := hacc.fec g hg
          refine ⟨this.1, ?_⟩
          intro id hid
          obtain ⟨m, hm, hmid⟩ := this.2 id hid
          exact ⟨by rw [← hmid]; exact hacc.ids_alnum m hm, m, hm, hmid⟩ }

/-- **Re-parse clause for accepted descriptions**: whatever text was accepted, if the MIKEY oracle is coherent
and every format of the accepted description is a `GoodFormat` (with distinct payload types per media), then
marshalling the description and parsing the text again gives the same description. -/
theorem reparse_good (O : Oracle) (multicast : Bool) (t : Str) (s : Session) (h : unmarshal O t = .ok s)
    (hmk : ∀ raw k, O.mikey raw = some k → O.mikey k = some k)
    (hfm : ∀ m ∈ s.medias, (∀ f ∈ m.formats, GoodFormat O m.typ f) ∧ m.formats.Pairwise fun a b => a.pt ≠ b.pt) :
    unmarshal O (marshal multicast s) = .ok s :=
  unmarshal_marshal_good O multicast s (goodSession_of_accepted O t s h hmk hfm)

end Rtsp.Sdp
