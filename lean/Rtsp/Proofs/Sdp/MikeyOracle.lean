import Rtsp.Model.Sdp.Formats
import Rtsp.Proofs.Hdr.Mikey
/-
The MIKEY component of the oracle can be instantiated by the byte-level model of pkg/mikey
(Model/Mikey.lean, property C09's domain): for every well-formed message the validity hypothesis
`O.mikey k = some k` of C05 holds for its encoding.
-/
namespace Rtsp.Sdp

/-- `mikey.Message.Unmarshal` followed by `Marshal`, from the MIKEY model -/
def mikeyOracle (b : Bytes) : Option Bytes := (Rtsp.Mikey.Message.unmarshal b).map Rtsp.Mikey.Message.marshal

theorem mikeyOracle_marshal (m : Rtsp.Mikey.Message) (wf : m.WF) : mikeyOracle m.marshal = some m.marshal := by
  simp [mikeyOracle, Rtsp.Mikey.Message.unmarshal_marshal m wf]

end Rtsp.Sdp
