import Rtsp.Model.Sdp.Valid
import Rtsp.Proofs.Sdp.Str
/-
Per-format round trips, part 1: formats without codec configuration blobs.
Statement shape: `unmarshalCtx O (ctxOf mt f) = .ok f` — `format.Unmarshal`, after the attribute lookup,
applied to the rtpmap / fmtp that `f` itself generates, returns `f`.
-/
namespace Rtsp.Sdp
open Rtsp.Facts.Sdp Format

theorem rt_mpeg1video (O : Oracle) (mt : Str) : unmarshalCtx O (ctxOf mt .mpeg1video) = .ok .mpeg1video := by rfl
theorem rt_mjpeg (O : Oracle) (mt : Str) : unmarshalCtx O (ctxOf mt .mjpeg) = .ok .mjpeg := by rfl
theorem rt_mpeg1audio (O : Oracle) (mt : Str) : unmarshalCtx O (ctxOf mt .mpeg1audio) = .ok .mpeg1audio := by rfl
theorem rt_g722 (O : Oracle) (mt : Str) : unmarshalCtx O (ctxOf mt .g722) = .ok .g722 := by rfl
theorem rt_mpegts (O : Oracle) (mt : Str) : unmarshalCtx O (ctxOf mt .mpegts) = .ok .mpegts := by rfl

theorem rt_klv (O : Oracle) (mt : Str) (pt : Nat) (h : Dyn pt) : unmarshalCtx O (ctxOf mt (.klv pt)) = .ok (.klv pt) := by
  obtain ⟨h1, h2⟩ := h
  simp [unmarshalCtx, ctxOf, Format.rtpmap, Format.pt, getCodecAndClock, cut, toLower, lowerB, isUpper, select, unmarshalKind,
    dynLo, dynHi, h1, h2, isG726Codec]

/-! ### optional numeric parameters -/

theorem rt_vp8 (O : Oracle) (mt : Str) (pt : Nat) (a b : Option Nat) (h : ValidFormat O mt (.vp8 pt a b)) :
    unmarshalCtx O (ctxOf mt (.vp8 pt a b)) = .ok (.vp8 pt a b) := by
  obtain ⟨⟨h1, h2⟩, ha, hb⟩ := h
  have hsel : select b!"vp8" b!"90000" pt = .vp8 := by simp [select, dynLo, dynHi, h1, h2]
  have hcc : getCodecAndClock b!"VP8/90000" = (b!"vp8", b!"90000") := by rfl
  simp only [unmarshalCtx, ctxOf, Format.rtpmap, Format.pt, hcc, hsel, unmarshalKind, Format.fmtp]
  cases a <;> cases b <;>
    simp_all [optKV, lookupLast, optUint31, toLower, lowerB, isUpper, OptP31, paramBits, parseUint_dec, P31]

theorem rt_vp9 (O : Oracle) (mt : Str) (pt : Nat) (a b c : Option Nat) (h : ValidFormat O mt (.vp9 pt a b c)) :
    unmarshalCtx O (ctxOf mt (.vp9 pt a b c)) = .ok (.vp9 pt a b c) := by
  obtain ⟨⟨h1, h2⟩, ha, hb, hc⟩ := h
  have hsel : select b!"vp9" b!"90000" pt = .vp9 := by simp [select, dynLo, dynHi, h1, h2]
  have hcc : getCodecAndClock b!"VP9/90000" = (b!"vp9", b!"90000") := by rfl
  simp only [unmarshalCtx, ctxOf, Format.rtpmap, Format.pt, hcc, hsel, unmarshalKind, Format.fmtp]
  cases a <;> cases b <;> cases c <;>
    simp_all [optKV, lookupLast, optUint31, toLower, lowerB, isUpper, OptP31, paramBits, parseUint_dec, P31]

theorem rt_av1 (O : Oracle) (mt : Str) (pt : Nat) (a b c : Option Nat) (h : ValidFormat O mt (.av1 pt a b c)) :
    unmarshalCtx O (ctxOf mt (.av1 pt a b c)) = .ok (.av1 pt a b c) := by
  obtain ⟨⟨h1, h2⟩, ha, hb, hc⟩ := h
  have hsel : select b!"av1" b!"90000" pt = .av1 := by simp [select, dynLo, dynHi, h1, h2]
  have hcc : getCodecAndClock b!"AV1/90000" = (b!"av1", b!"90000") := by rfl
  simp only [unmarshalCtx, ctxOf, Format.rtpmap, Format.pt, hcc, hsel, unmarshalKind, Format.fmtp]
  cases a <;> cases b <;> cases c <;>
    simp_all [optKV, lookupLast, optUint31, toLower, lowerB, isUpper, OptP31, paramBits, parseUint_dec, P31]

/-! ### rate / channels in the rtpmap -/

theorem slash_not_mem_dec (n : Nat) : (47 : UInt8) ∉ dec n := not_mem_dec (by decide) n

theorem rateChannels_dec2 {r ch : Nat} (hr : Pos31 r) (hc : Pos31 ch) (d : Nat) :
    rateChannels (dec r ++ 47 :: dec ch) d = some (r, ch) := by
  have h1 : r ≠ 0 := by have := hr.1; omega
  have h2 : ch ≠ 0 := by have := hc.1; omega
  simp [rateChannels, cut_append _ (slash_not_mem_dec r), rateBits, parseUint_dec hr.2, parseUint_dec hc.2, h1, h2]

theorem rateChannels_dec1 {r : Nat} (hr : Pos31 r) (d : Nat) : rateChannels (dec r) d = some (r, d) := by
  have h1 : r ≠ 0 := by have := hr.1; omega
  simp [rateChannels, cut_none (slash_not_mem_dec r), rateBits, parseUint_dec hr.2, h1]

theorem rt_ac3 (O : Oracle) (mt : Str) (pt r ch : Nat) (h : ValidFormat O mt (.ac3 pt r ch)) :
    unmarshalCtx O (ctxOf mt (.ac3 pt r ch)) = .ok (.ac3 pt r ch) := by
  obtain ⟨⟨h1, h2⟩, hr, hc⟩ := h
  have hcc : getCodecAndClock (b!"AC3/" ++ dec r ++ 47 :: dec ch) = (b!"ac3", dec r ++ 47 :: dec ch) := by
    simp [getCodecAndClock, cut, toLower, lowerB, isUpper]
  have hsel : ∀ k, select b!"ac3" k pt = .ac3 := by intro k; simp [select, dynLo, dynHi, h1, h2]
  simp only [unmarshalCtx, ctxOf, Format.rtpmap, Format.pt, hcc, hsel, unmarshalKind, rateChannels_dec2 hr hc]

theorem rt_speex (O : Oracle) (mt : Str) (pt r : Nat) (v : Option Bool) (h : ValidFormat O mt (.speex pt r v)) :
    unmarshalCtx O (ctxOf mt (.speex pt r v)) = .ok (.speex pt r v) := by
  obtain ⟨⟨h1, h2⟩, hr⟩ := h
  have hcc : getCodecAndClock (b!"speex/" ++ dec r) = (b!"speex", dec r) := by
    simp [getCodecAndClock, cut, toLower, lowerB, isUpper]
  have hsel : ∀ k, select b!"speex" k pt = .speex := by intro k; simp [select, dynLo, dynHi, h1, h2]
  have h0 : r ≠ 0 := by have := hr.1; omega
  simp only [unmarshalCtx, ctxOf, Format.rtpmap, Format.pt, hcc, hsel, unmarshalKind, parseUint_dec hr.2, Format.fmtp]
  cases v with
  | none => simp [fmtpSpeex, lookupLast, h0]
  | some b => cases b <;> simp [fmtpSpeex, lookupLast, h0, toLower, lowerB, isUpper]

theorem dec_16 : dec 16 = b!"16" := by decide
theorem dec_24 : dec 24 = b!"24" := by decide
theorem dec_32 : dec 32 = b!"32" := by decide
theorem dec_40 : dec 40 = b!"40" := by decide

theorem rt_g726 (O : Oracle) (mt : Str) (pt br : Nat) (be : Bool) (h : ValidFormat O mt (.g726 pt br be)) :
    unmarshalCtx O (ctxOf mt (.g726 pt br be)) = .ok (.g726 pt br be) := by
  obtain ⟨⟨h1, h2⟩, hb⟩ := h
  cases be <;> rcases hb with rfl | rfl | rfl | rfl <;>
    simp [unmarshalCtx, ctxOf, Format.rtpmap, Format.pt, Format.fmtp, dec_16, dec_24, dec_32, dec_40, getCodecAndClock, cut,
      toLower, lowerB, isUpper, select, isG726Codec, dynLo, dynHi, h1, h2, unmarshalKind, hasSuffix, hasPrefix, List.isPrefixOf]

end Rtsp.Sdp
