import Rtsp.Proofs.Sdp.Fmt2
import Rtsp.Proofs.Sdp.Codec
/-
Per-format round trips, part 3: formats with codec configuration blobs (Vorbis, MPEG-4 video, H264, H265).
-/
namespace Rtsp.Sdp
open Rtsp.Facts.Sdp Format

theorem cc_vorbis (pt r ch : Nat) (c : Option Bytes) :
    getCodecAndClock (vorbis pt r ch c).rtpmap = (b!"vorbis", dec r ++ 47 :: dec ch) := by
  simp [Format.rtpmap, getCodecAndClock, cut, toLower, lowerB, isUpper]

theorem rt_vorbis (O : Oracle) (mt : Str) (pt r ch : Nat) (c : Option Bytes) (h : ValidFormat O mt (.vorbis pt r ch c)) :
    unmarshalCtx O (ctxOf mt (.vorbis pt r ch c)) = .ok (.vorbis pt r ch c) := by
  obtain ⟨⟨h1, h2⟩, hr, hc, hcfg⟩ := h
  have hsel : ∀ k, select b!"vorbis" k pt = .vorbis := by intro k; simp [select, dynLo, dynHi, h1, h2]
  have hr0 : r ≠ 0 := by have := hr.1; omega
  have hc0 : ch ≠ 0 := by have := hc.1; omega
  cases c with
  | none => simp at hcfg
  | some cfg =>
    simp [unmarshalCtx, ctxOf, cc_vorbis, Format.pt, hsel, unmarshalKind, cut_append _ (slash_not_mem_dec r),
      parseUint_dec hr.2, parseUint_dec hc.2, hr0, hc0, Format.fmtp, lookupLast, toLower, lowerB, isUpper, b64dec_b64]

theorem rt_mpeg4video (O : Oracle) (mt : Str) (pt plid : Nat) (c : Option Bytes) (h : ValidFormat O mt (.mpeg4video pt plid c)) :
    unmarshalCtx O (ctxOf mt (.mpeg4video pt plid c)) = .ok (.mpeg4video pt plid c) := by
  obtain ⟨⟨h1, h2⟩, hp, hcfg⟩ := h
  have hsel : select b!"mp4v-es" b!"90000" pt = .mpeg4video := by simp [select, dynLo, dynHi, h1, h2]
  have hcc : getCodecAndClock b!"MP4V-ES/90000" = (b!"mp4v-es", b!"90000") := by rfl
  simp only [unmarshalCtx, ctxOf, Format.rtpmap, Format.pt, hcc, hsel, unmarshalKind, Format.fmtp]
  cases c with
  | none =>
    simp [fmtpMpeg4video, lookupLast, optUint31, toLower, lowerB, isUpper, paramBits, parseUint_dec hp]
  | some cfg =>
    simp [fmtpMpeg4video, lookupLast, optUint31, toLower, lowerB, isUpper, paramBits, parseUint_dec hp,
      hexDecode_hexEncodeUpper, hcfg cfg rfl]

theorem comma_not_mem_b64 (b : Bytes) : (44 : UInt8) ∉ b64 b := not_mem_b64 (by decide) b

theorem rt_h264 (O : Oracle) (mt : Str) (pt : Nat) (sps pps : Option Bytes) (pm : Nat) (h : ValidFormat O mt (.h264 pt sps pps pm)) :
    unmarshalCtx O (ctxOf mt (.h264 pt sps pps pm)) = .ok (.h264 pt sps pps pm) := by
  obtain ⟨hpt, hpm, hblob⟩ := h
  have hsel : select b!"h264" b!"90000" pt = .h264 := by
    rcases hpt with ⟨h1, h2⟩ | rfl
    · simp [select, dynLo, dynHi, h1, h2]
    · simp [select, dynLo, dynHi, h264StaticPT]
  have hcc : getCodecAndClock b!"H264/90000" = (b!"h264", b!"90000") := by rfl
  simp only [unmarshalCtx, ctxOf, Format.rtpmap, Format.pt, hcc, hsel, unmarshalKind, Format.fmtp]
  rcases hblob with ⟨rfl, rfl⟩ | ⟨s, p, rfl, rfl, hs, hp, hok⟩
  · by_cases h0 : pm = 0
    · subst h0
      simp [fmtpH264, h264ProfileLevelId, h264ParameterSets, lookupLast, optUint31]
    · simp [fmtpH264, h264ProfileLevelId, h264ParameterSets, h0, lookupLast, optUint31, toLower, lowerB, isUpper, paramBits,
        parseUint_dec hpm]
  · have hsplit : splitOn 44 (b64 s ++ 44 :: b64 p) = [b64 s, b64 p] := by
      rw [splitOn_append _ (comma_not_mem_b64 s), splitOn_noSep (comma_not_mem_b64 p)]
    have hs' : trimAnnexB s = s := hs
    have hp' : trimAnnexB p = p := hp
    by_cases h0 : pm = 0 <;> by_cases h4 : s.length ≥ 4 <;>
      simp [fmtpH264, h264ProfileLevelId, h264ParameterSets, h0, h4, lookupLast, optUint31, toLower, lowerB, isUpper, paramBits,
        parseUint_dec hpm, hsplit, b64dec_b64, hs', hp', hok]

theorem rt_h265 (O : Oracle) (mt : Str) (pt : Nat) (vps sps pps : Option Bytes) (mdd : Nat)
    (h : ValidFormat O mt (.h265 pt vps sps pps mdd)) :
    unmarshalCtx O (ctxOf mt (.h265 pt vps sps pps mdd)) = .ok (.h265 pt vps sps pps mdd) := by
  obtain ⟨⟨h1, h2⟩, hm, hv, hs, hp⟩ := h
  have hsel : select b!"h265" b!"90000" pt = .h265 := by simp [select, dynLo, dynHi, h1, h2]
  have hcc : getCodecAndClock b!"H265/90000" = (b!"h265", b!"90000") := by rfl
  simp only [unmarshalCtx, ctxOf, Format.rtpmap, Format.pt, hcc, hsel, unmarshalKind, Format.fmtp]
  have hv' : ∀ b, vps = some b → trimAnnexB b = b := hv
  have hs' : ∀ b, sps = some b → trimAnnexB b = b ∧ O.h265sps b = true := hs
  have hp' : ∀ b, pps = some b → trimAnnexB b = b ∧ O.h265pps b = true := hp
  by_cases h0 : mdd = 0 <;> cases vps <;> cases sps <;> cases pps <;>
    simp_all [fmtpH265, lookupLast, optUint31, toLower, lowerB, isUpper, paramBits, parseUint_dec hm, b64dec_b64]

end Rtsp.Sdp
