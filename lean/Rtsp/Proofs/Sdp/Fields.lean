import Rtsp.Proofs.Sdp.Lines
/-
`strings.Fields` / `strings.Join` / `strings.Split` inverses.
-/
namespace Rtsp.Sdp

/-- a word: no white space -/
abbrev NoSp (w : Str) : Prop := ∀ c ∈ w, isSpace c = false

theorem fields_sp (rest : Str) : fields (32 :: rest) = fields rest := by
  simp [fields, isSpace]

theorem fields_word_sp {w : Str} (hne : w ≠ []) (h : NoSp w) (rest : Str) :
    fields (w ++ 32 :: rest) = w :: fields rest := by
  induction w with
  | nil => exact absurd rfl hne
  | cons c cs ih =>
    have hc : isSpace c = false := h c (by simp)
    cases cs with
    | nil =>
      have h32 : isSpace 32 = true := by decide
      simp [fields, hc, h32]
    | cons d ds =>
      have hd : isSpace d = false := h d (by simp)
      have ih' := ih (by simp) (fun x hx => h x (by simp [hx]))
      simp only [List.cons_append] at ih' ⊢
      rw [fields]
      simp only [hc, Bool.false_eq_true, if_false, hd]
      rw [ih']

theorem fields_word {w : Str} (hne : w ≠ []) (h : NoSp w) : fields w = [w] := by
  induction w with
  | nil => exact absurd rfl hne
  | cons c cs ih =>
    have hc : isSpace c = false := h c (by simp)
    cases cs with
    | nil => simp [fields, hc]
    | cons d ds =>
      have hd : isSpace d = false := h d (by simp)
      have ih' := ih (by simp) (fun x hx => h x (by simp [hx]))
      rw [fields]
      simp only [hc, Bool.false_eq_true, if_false, hd]
      rw [ih']

theorem joinWith_cons_cons (sep p q : Str) (ps : List Str) :
    joinWith sep (p :: q :: ps) = p ++ sep ++ joinWith sep (q :: ps) := rfl

theorem fields_join (ws : List Str) (h : ∀ w ∈ ws, w ≠ [] ∧ NoSp w) : fields (joinWith [32] ws) = ws := by
  induction ws with
  | nil => rfl
  | cons w ws ih =>
    cases ws with
    | nil => simpa [joinWith] using fields_word (h w (by simp)).1 (h w (by simp)).2
    | cons q qs =>
      rw [joinWith_cons_cons]
      simp only [List.append_assoc, List.singleton_append]
      rw [fields_word_sp (h w (by simp)).1 (h w (by simp)).2, ih (fun x hx => h x (by simp [hx]))]

theorem splitOn_join (sep : UInt8) (ps : List Str) (hne : ps ≠ []) (h : ∀ p ∈ ps, sep ∉ p) :
    splitOn sep (joinWith [sep] ps) = ps := by
  induction ps with
  | nil => exact absurd rfl hne
  | cons p ps ih =>
    cases ps with
    | nil => simpa [joinWith] using splitOn_noSep (h p (by simp))
    | cons q qs =>
      rw [joinWith_cons_cons]
      simp only [List.append_assoc, List.singleton_append]
      rw [splitOn_append _ (h p (by simp)), ih (by simp) (fun x hx => h x (by simp [hx]))]

theorem noSp_join_slash (ps : List Str) (h : ∀ p ∈ ps, NoSp p) : NoSp (joinWith [47] ps) := by
  induction ps with
  | nil => intro c hc; simp [joinWith] at hc
  | cons p ps ih =>
    cases ps with
    | nil => simpa [joinWith] using h p (by simp)
    | cons q qs =>
      rw [joinWith_cons_cons]
      intro c hc
      simp only [List.append_assoc, List.singleton_append, List.mem_append, List.mem_cons] at hc
      rcases hc with hc | rfl | hc
      · exact h p (by simp) c hc
      · decide
      · exact ih (fun x hx => h x (by simp [hx])) c hc

theorem join_ne_nil (sep : Str) (ps : List Str) (h : ∃ p ∈ ps, p ≠ []) : joinWith sep ps ≠ [] := by
  induction ps with
  | nil => obtain ⟨p, hp, _⟩ := h; simp at hp
  | cons p ps ih =>
    cases ps with
    | nil =>
      obtain ⟨q, hq, hne⟩ := h
      simp only [List.mem_singleton] at hq
      subst hq
      simpa [joinWith] using hne
    | cons q qs =>
      rw [joinWith_cons_cons]
      obtain ⟨x, hx, hne⟩ := h
      simp only [List.mem_cons] at hx
      rcases hx with rfl | hx
      · intro e
        have : x = [] := by
          have := congrArg List.length e
          simp only [List.length_append, List.length_nil] at this
          exact List.eq_nil_of_length_eq_zero (by omega)
        exact hne this
      · intro e
        have := congrArg List.length e
        simp only [List.length_append, List.length_nil] at this
        have h2 : joinWith sep (q :: qs) = [] := List.eq_nil_of_length_eq_zero (by omega)
        exact ih ⟨x, by simp only [List.mem_cons]; exact hx, hne⟩ h2

end Rtsp.Sdp
