import Rtsp.Proofs.Sdp.Good
/-
Media layer: `format.Unmarshal` finds, in the attributes `Media.Marshal` wrote, each format's own
rtpmap / fmtp and rebuilds the format; `Media.Unmarshal` rebuilds the media.
-/
namespace Rtsp.Sdp
open Rtsp.Facts.Sdp Format

/-! ### `decodeFMTP (renderFmtp kvs)` -/

def kvText (kv : Str × Str) : Str := kv.1 ++ 61 :: kv.2

theorem renderFmtp_cons (kv : Str × Str) (rest : List (Str × Str)) :
    renderFmtp (kv :: rest) = kvText kv ++ rest.flatMap (fun x => 59 :: 32 :: kvText x) := by
  induction rest generalizing kv with
  | nil => simp [renderFmtp, joinWith, kvText]
  | cons x xs ih =>
    have := ih x
    simp only [renderFmtp, List.map_cons, joinWith_cons_cons] at this ⊢
    rw [this]
    simp [kvText]

theorem semi_not_mem_kvText {kv : Str × Str} (hk : KeyOk kv.1) (hv : ValOk kv.2) : (59 : UInt8) ∉ kvText kv := by
  intro h
  simp only [kvText, List.mem_append, List.mem_cons] at h
  rcases h with h | h | h
  · exact (hk.chars _ h).1 rfl
  · revert h; decide
  · exact hv.nosemi _ h rfl

theorem trimBlank_kvText {kv : Str × Str} (hk : KeyOk kv.1) (hv : ValOk kv.2) : trimBlank (kvText kv) = kvText kv := by
  apply trimBlank_id
  · intro c hc
    obtain ⟨k, v⟩ := kv
    cases k with
    | nil => exact absurd rfl hk.ne
    | cons x xs =>
      simp only [kvText, List.cons_append, List.head?_cons, Option.some.injEq] at hc
      subst hc
      exact (hk.chars _ (by simp)).2.2.1
  · intro c hc
    obtain ⟨k, v⟩ := kv
    simp only [kvText] at hc
    cases v with
    | nil =>
      simp only [List.getLast?_append, List.getLast?_singleton, Option.some_or, Option.some.injEq] at hc
      subst hc; decide
    | cons y ys =>
      have : (k ++ 61 :: y :: ys).getLast? = (y :: ys).getLast? := by
        rw [List.getLast?_append, List.getLast?_cons_cons]
        cases hl : (y :: ys).getLast? with
        | none => simp at hl
        | some z => simp
      rw [this] at hc
      intro e; subst e
      have := hv.last _ hc
      revert this; decide

theorem trimBlank_sp_kvText {kv : Str × Str} (hk : KeyOk kv.1) (hv : ValOk kv.2) : trimBlank (32 :: kvText kv) = kvText kv := by
  have h := trimBlank_kvText hk hv
  unfold trimBlank at h ⊢
  simp only [trimLeft, beq_self_eq_true, if_true]
  exact h

theorem cut_kvText {kv : Str × Str} (hk : KeyOk kv.1) : cut 61 (kvText kv) = some (kv.1, kv.2) :=
  cut_append _ (fun h => (hk.chars _ h).2.1 rfl)

theorem kvText_ne_nil (kv : Str × Str) : (kvText kv).isEmpty = false := by
  obtain ⟨k, v⟩ := kv
  cases k <;> simp [kvText]

theorem splitOn_tail (rest : List (Str × Str)) (hk : ∀ kv ∈ rest, KeyOk kv.1) (hv : ∀ kv ∈ rest, ValOk kv.2) (a : Str)
    (ha : (59 : UInt8) ∉ a) :
    splitOn 59 (a ++ rest.flatMap (fun x => 59 :: 32 :: kvText x)) = a :: rest.map (fun x => 32 :: kvText x) := by
  induction rest generalizing a with
  | nil => simpa using splitOn_noSep ha
  | cons x xs ih =>
    simp only [List.flatMap_cons, List.cons_append, List.map_cons]
    rw [splitOn_append _ ha]
    have hx : (59 : UInt8) ∉ 32 :: kvText x := by
      intro h
      simp only [List.mem_cons] at h
      rcases h with h | h
      · revert h; decide
      · exact semi_not_mem_kvText (hk x (by simp)) (hv x (by simp)) h
    have := ih (fun kv hkv => hk kv (by simp [hkv])) (fun kv hkv => hv kv (by simp [hkv])) (32 :: kvText x) hx
    simp only [List.cons_append] at this
    rw [this]

/-- **fmtp text round trip**: `decodeFMTP` of the rendered entries gives the entries with lower-cased keys. -/
theorem decodeFMTP_render (kvs : List (Str × Str)) (hne : kvs ≠ []) (hk : ∀ kv ∈ kvs, KeyOk kv.1) (hv : ∀ kv ∈ kvs, ValOk kv.2) :
    decodeFMTP (renderFmtp kvs) = kvs.map fun kv => (toLower kv.1, kv.2) := by
  cases kvs with
  | nil => exact absurd rfl hne
  | cons kv rest =>
    have hne' : (renderFmtp (kv :: rest)).isEmpty = false := by
      rw [renderFmtp_cons]
      have := kvText_ne_nil kv
      cases hkt : kvText kv with
      | nil => rw [hkt] at this; simp at this
      | cons _ _ => simp
    unfold decodeFMTP
    rw [hne']
    simp only [Bool.false_eq_true, if_false]
    rw [renderFmtp_cons, splitOn_tail rest (fun x hx => hk x (by simp [hx])) (fun x hx => hv x (by simp [hx])) _
      (semi_not_mem_kvText (hk kv (by simp)) (hv kv (by simp)))]
    simp only [List.filterMap_cons, trimBlank_kvText (hk kv (by simp)) (hv kv (by simp)), kvText_ne_nil,
      Bool.false_eq_true, if_false, cut_kvText (hk kv (by simp)), List.map_cons]
    congr 1
    have hrest : ∀ (l : List (Str × Str)), (∀ x ∈ l, KeyOk x.1) → (∀ x ∈ l, ValOk x.2) →
        List.filterMap (fun kv => let kv := trimBlank kv; if kv.isEmpty = true then none else
            match cut 61 kv with
            | some (k, v) => some (toLower k, v)
            | none => none) (l.map fun x => 32 :: kvText x) = l.map fun kv => (toLower kv.1, kv.2) := by
      intro l
      induction l with
      | nil => intros; rfl
      | cons x xs ih =>
        intro hk' hv'
        simp only [List.map_cons, List.filterMap_cons, trimBlank_sp_kvText (hk' x (by simp)) (hv' x (by simp)), kvText_ne_nil,
          Bool.false_eq_true, if_false, cut_kvText (hk' x (by simp))]
        rw [ih (fun y hy => hk' y (by simp [hy])) (fun y hy => hv' y (by simp [hy]))]
    exact hrest rest (fun x hx => hk x (by simp [hx])) (fun x hx => hv x (by simp [hx]))

end Rtsp.Sdp

namespace Rtsp.Sdp
open Rtsp.Facts.Sdp Format

/-! ### `sortKV` on sorted entries -/

theorem sortKV_sorted {l : List (Str × Str)} (h : KeysSorted l) : sortKV l = l := by
  induction l with
  | nil => rfl
  | cons x xs ih =>
    obtain ⟨k, v⟩ := x
    have hx := List.pairwise_cons.mp h
    rw [sortKV, ih hx.2]
    cases xs with
    | nil => rfl
    | cons y ys =>
      obtain ⟨k', v'⟩ := y
      have hlt : strLt k k' = true := hx.1 (k', v') (by simp)
      have hne : k ≠ k' := strLt_ne hlt
      simp [insertKV, hne, hlt]

/-! ### last character of a rendered fmtp -/

theorem kvText_last {kv : Str × Str} (hv : ValOk kv.2) : ∀ c, (kvText kv).getLast? = some c → isSpace c = false := by
  intro c hc
  obtain ⟨k, v⟩ := kv
  simp only [kvText] at hc
  cases v with
  | nil =>
    simp only [List.getLast?_append, List.getLast?_singleton, Option.some_or, Option.some.injEq] at hc
    subst hc; decide
  | cons y ys =>
    have : (k ++ 61 :: y :: ys).getLast? = (y :: ys).getLast? := by
      rw [List.getLast?_append, List.getLast?_cons_cons]
      cases hl : (y :: ys).getLast? with
      | none => simp at hl
      | some z => simp
    rw [this] at hc
    exact hv.last _ hc

theorem renderFmtp_last (kvs : List (Str × Str)) (hv : ∀ kv ∈ kvs, ValOk kv.2) :
    ∀ c, (renderFmtp kvs).getLast? = some c → isSpace c = false := by
  induction kvs with
  | nil => intro c hc; simp [renderFmtp, joinWith] at hc
  | cons kv rest ih =>
    cases rest with
    | nil =>
      intro c hc
      have : renderFmtp [kv] = kvText kv := by simp [renderFmtp, joinWith, kvText]
      rw [this] at hc
      exact kvText_last (hv kv (by simp)) c hc
    | cons x xs =>
      intro c hc
      have e : renderFmtp (kv :: x :: xs) = (kvText kv ++ b!"; ") ++ renderFmtp (x :: xs) := by
        simp [renderFmtp, joinWith_cons_cons, kvText]
      rw [e, List.getLast?_append] at hc
      have hne : (renderFmtp (x :: xs)).getLast? ≠ none := by
        rw [renderFmtp_cons]
        obtain ⟨k, v⟩ := x
        cases k <;> simp [kvText]
      cases hl : (renderFmtp (x :: xs)).getLast? with
      | none => exact absurd hl hne
      | some z =>
        rw [hl] at hc
        simp only [Option.some_or, Option.some.injEq] at hc
        subst hc
        exact ih (fun y hy => hv y (by simp [hy])) z hl

theorem renderFmtp_ne_nil (kv : Str × Str) (rest : List (Str × Str)) : renderFmtp (kv :: rest) ≠ [] := by
  rw [renderFmtp_cons]
  obtain ⟨k, v⟩ := kv
  cases k <;> simp [kvText]

/-! ### `getFormatAttribute` on the attributes `Media.Marshal` writes -/

theorem sp_not_mem_dec (n : Nat) : (32 : UInt8) ∉ dec n := not_mem_dec (by decide) n

theorem trimSpace_ptBody (q : Nat) (body : Str) (hne : body ≠ []) (hlast : ∀ c, body.getLast? = some c → isSpace c = false) :
    trimSpace (dec q ++ 32 :: body) = dec q ++ 32 :: body := by
  apply trimSpace_id
  · intro c hc
    obtain ⟨x, xs, hd, hx⟩ := dec_head_isDigit q
    rw [hd] at hc
    simp only [List.cons_append, List.head?_cons, Option.some.injEq] at hc
    subst hc
    exact isDigit_not_space hx
  · intro c hc
    have : (dec q ++ 32 :: body).getLast? = body.getLast? := by
      cases body with
      | nil => exact absurd rfl hne
      | cons y ys =>
        rw [List.getLast?_append, List.getLast?_cons_cons]
        cases hl : (y :: ys).getLast? with
        | none => simp at hl
        | some z => simp
    rw [this] at hc
    exact hlast c hc

theorem gfa_hit (pt : Nat) (hpt : pt < 256) (key body : Str) (hne : body ≠ [])
    (hlast : ∀ c, body.getLast? = some c → isSpace c = false) (rest : List Attr) :
    getFormatAttribute (⟨key, dec pt ++ 32 :: body⟩ :: rest) pt key = body := by
  have hp : parseUint attrPtBits (dec pt) = some pt := parseUint_dec (by simpa [attrPtBits] using hpt)
  simp [getFormatAttribute, trimSpace_ptBody pt body hne hlast, cut_append _ (sp_not_mem_dec pt), hp]

theorem gfa_skip_key (a : Attr) (key : Str) (h : a.key ≠ key) (rest : List Attr) (pt : Nat) :
    getFormatAttribute (a :: rest) pt key = getFormatAttribute rest pt key := by
  simp [getFormatAttribute, h]

theorem parseUint_dec_ne {bits q pt : Nat} (h : q ≠ pt) : parseUint bits (dec q) ≠ some pt := by
  intro e
  have hne : (dec q).isEmpty = false := by
    cases hd : dec q with
    | nil => exact absurd hd (dec_ne_nil q)
    | cons _ _ => rfl
  simp only [parseUint, hne, Bool.false_eq_true, if_false, decVal_dec] at e
  split at e
  · simp only [Option.some.injEq] at e; exact h e
  · cases e

theorem gfa_skip_pt (q pt : Nat) (hq : q ≠ pt) (key body : Str) (hne : body ≠ [])
    (hlast : ∀ c, body.getLast? = some c → isSpace c = false) (rest : List Attr) :
    getFormatAttribute (⟨key, dec q ++ 32 :: body⟩ :: rest) pt key = getFormatAttribute rest pt key := by
  have hp : parseUint attrPtBits (dec q) ≠ some pt := parseUint_dec_ne hq
  simp [getFormatAttribute, trimSpace_ptBody q body hne hlast, cut_append _ (sp_not_mem_dec q), hp]

theorem gfa_post (post : List Attr) (key : Str) (h : ∀ a ∈ post, a.key ≠ key) (pt : Nat) :
    getFormatAttribute post pt key = [] := by
  induction post with
  | nil => rfl
  | cons a as ih =>
    rw [gfa_skip_key a key (h a (by simp)), ih (fun x hx => h x (by simp [hx]))]

/-- the body that a format writes after `<pt> ` in its `fmtp` attribute -/
def fmtpBody (f : Format) : Str := renderFmtp (sortKV f.fmtp)

theorem formatAttrs_eq (f : Format) :
    formatAttrs f = (if f.rtpmap.isEmpty then [] else [⟨b!"rtpmap", dec f.pt ++ 32 :: f.rtpmap⟩])
      ++ (if f.fmtp.isEmpty then [] else [⟨b!"fmtp", dec f.pt ++ 32 :: fmtpBody f⟩]) := rfl

theorem fmtpBody_ok {f : Format} (h : FmtTextOk f) (hne : f.fmtp.isEmpty = false) :
    fmtpBody f ≠ [] ∧ ∀ c, (fmtpBody f).getLast? = some c → isSpace c = false := by
  unfold fmtpBody
  rw [sortKV_sorted h.sorted]
  cases hf : f.fmtp with
  | nil => rw [hf] at hne; simp at hne
  | cons kv rest =>
    refine ⟨renderFmtp_ne_nil kv rest, ?_⟩
    have := renderFmtp_last f.fmtp h.vals
    rwa [hf] at this

/-- skipping all the attributes of a format with another payload type -/
theorem gfa_skip_format (g : Format) (hg : FmtTextOk g) (pt : Nat) (hpt : g.pt ≠ pt) (key : Str) (rest : List Attr) :
    getFormatAttribute (formatAttrs g ++ rest) pt key = getFormatAttribute rest pt key := by
  rw [formatAttrs_eq]
  by_cases hr : g.rtpmap.isEmpty <;> by_cases hf : g.fmtp.isEmpty
  · simp [hr, hf]
  · have hb := fmtpBody_ok hg (by simpa using hf)
    simp only [hr, hf, if_true, Bool.false_eq_true, if_false, List.nil_append, List.singleton_append]
    by_cases hk : b!"fmtp" = key
    · subst hk; exact gfa_skip_pt _ _ hpt _ _ hb.1 hb.2 _
    · exact gfa_skip_key _ _ hk _ _
  · have hrne : g.rtpmap ≠ [] := by intro e; rw [e] at hr; simp at hr
    simp only [hr, hf, if_true, Bool.false_eq_true, if_false, List.append_nil, List.singleton_append]
    by_cases hk : b!"rtpmap" = key
    · subst hk; exact gfa_skip_pt _ _ hpt _ _ hrne hg.rtpmap_last _
    · exact gfa_skip_key _ _ hk _ _
  · have hb := fmtpBody_ok hg (by simpa using hf)
    have hrne : g.rtpmap ≠ [] := by intro e; rw [e] at hr; simp at hr
    simp only [hr, hf, Bool.false_eq_true, if_false, List.cons_append, List.nil_append]
    have step1 : getFormatAttribute (⟨b!"rtpmap", dec g.pt ++ 32 :: g.rtpmap⟩ :: ⟨b!"fmtp", dec g.pt ++ 32 :: fmtpBody g⟩ :: rest) pt key
        = getFormatAttribute (⟨b!"fmtp", dec g.pt ++ 32 :: fmtpBody g⟩ :: rest) pt key := by
      by_cases hk : b!"rtpmap" = key
      · subst hk; exact gfa_skip_pt _ _ hpt _ _ hrne hg.rtpmap_last _
      · exact gfa_skip_key _ _ hk _ _
    rw [step1]
    by_cases hk : b!"fmtp" = key
    · subst hk; exact gfa_skip_pt _ _ hpt _ _ hb.1 hb.2 _
    · exact gfa_skip_key _ _ hk _ _

theorem gfa_none (gs : List Format) (hok : ∀ g ∈ gs, FmtTextOk g) (pt : Nat) (hpt : ∀ g ∈ gs, g.pt ≠ pt) (key : Str)
    (post : List Attr) (hpost : ∀ a ∈ post, a.key ≠ key) :
    getFormatAttribute (gs.flatMap formatAttrs ++ post) pt key = [] := by
  induction gs with
  | nil => simpa using gfa_post post key hpost pt
  | cons g gs ih =>
    simp only [List.flatMap_cons, List.append_assoc]
    rw [gfa_skip_format g (hok g (by simp)) pt (hpt g (by simp)),
      ih (fun x hx => hok x (by simp [hx])) (fun x hx => hpt x (by simp [hx]))]

/-- **rtpmap lookup**: in the attributes written for a list of formats with distinct payload types,
the rtpmap found for `f`'s payload type is `f`'s own (empty if `f` writes none). -/
theorem gfa_rtpmap (fs : List Format) (hok : ∀ g ∈ fs, FmtTextOk g) (hd : fs.Pairwise fun a b => a.pt ≠ b.pt)
    (post : List Attr) (hpost : ∀ a ∈ post, a.key ≠ b!"rtpmap") (f : Format) (hf : f ∈ fs) :
    getFormatAttribute (fs.flatMap formatAttrs ++ post) f.pt b!"rtpmap" = f.rtpmap := by
  induction fs with
  | nil => simp at hf
  | cons g gs ih =>
    have hd' := List.pairwise_cons.mp hd
    simp only [List.flatMap_cons, List.append_assoc]
    by_cases hfg : f = g
    · subst hfg
      have hfo := hok f (by simp)
      have hnone := gfa_none gs (fun x hx => hok x (by simp [hx])) f.pt (fun x hx => (hd'.1 x hx).symm) b!"rtpmap" post hpost
      rw [formatAttrs_eq]
      by_cases hr : f.rtpmap.isEmpty <;> by_cases hfm : f.fmtp.isEmpty
      · simp only [hr, hfm, if_true, List.append_nil, List.nil_append]
        rw [hnone]; exact (List.isEmpty_iff.mp hr).symm
      · simp only [hr, hfm, if_true, Bool.false_eq_true, if_false, List.nil_append, List.singleton_append]
        rw [gfa_skip_key _ _ (by simp), hnone]; exact (List.isEmpty_iff.mp hr).symm
      · have hrne : f.rtpmap ≠ [] := by intro e; rw [e] at hr; simp at hr
        simp only [hr, hfm, if_true, Bool.false_eq_true, if_false, List.append_nil, List.singleton_append]
        exact gfa_hit f.pt hfo.pt_lt _ _ hrne hfo.rtpmap_last _
      · have hrne : f.rtpmap ≠ [] := by intro e; rw [e] at hr; simp at hr
        simp only [hr, hfm, Bool.false_eq_true, if_false, List.cons_append, List.nil_append]
        exact gfa_hit f.pt hfo.pt_lt _ _ hrne hfo.rtpmap_last _
    · have hfgs : f ∈ gs := by
        simp only [List.mem_cons] at hf
        rcases hf with rfl | hf
        · exact absurd rfl hfg
        · exact hf
      rw [gfa_skip_format g (hok g (by simp)) f.pt (hd'.1 f hfgs)]
      exact ih (fun x hx => hok x (by simp [hx])) hd'.2 hfgs

/-- **fmtp lookup** -/
theorem gfa_fmtp (fs : List Format) (hok : ∀ g ∈ fs, FmtTextOk g) (hd : fs.Pairwise fun a b => a.pt ≠ b.pt)
    (post : List Attr) (hpost : ∀ a ∈ post, a.key ≠ b!"fmtp") (f : Format) (hf : f ∈ fs) :
    getFormatAttribute (fs.flatMap formatAttrs ++ post) f.pt b!"fmtp" = if f.fmtp.isEmpty then [] else fmtpBody f := by
  induction fs with
  | nil => simp at hf
  | cons g gs ih =>
    have hd' := List.pairwise_cons.mp hd
    simp only [List.flatMap_cons, List.append_assoc]
    by_cases hfg : f = g
    · subst hfg
      have hfo := hok f (by simp)
      have hnone := gfa_none gs (fun x hx => hok x (by simp [hx])) f.pt (fun x hx => (hd'.1 x hx).symm) b!"fmtp" post hpost
      rw [formatAttrs_eq]
      by_cases hr : f.rtpmap.isEmpty <;> by_cases hfm : f.fmtp.isEmpty
      · simp only [hr, hfm, if_true, List.append_nil, List.nil_append]
        exact hnone
      · have hb := fmtpBody_ok hfo (by simpa using hfm)
        simp only [hr, hfm, if_true, Bool.false_eq_true, if_false, List.nil_append, List.singleton_append]
        exact gfa_hit f.pt hfo.pt_lt _ _ hb.1 hb.2 _
      · simp only [hr, hfm, if_true, Bool.false_eq_true, if_false, List.append_nil, List.singleton_append]
        rw [gfa_skip_key _ _ (by simp)]; exact hnone
      · have hb := fmtpBody_ok hfo (by simpa using hfm)
        simp only [hr, hfm, Bool.false_eq_true, if_false, List.cons_append, List.nil_append]
        rw [gfa_skip_key _ _ (by simp)]
        exact gfa_hit f.pt hfo.pt_lt _ _ hb.1 hb.2 _
    · have hfgs : f ∈ gs := by
        simp only [List.mem_cons] at hf
        rcases hf with rfl | hf
        · exact absurd rfl hfg
        · exact hf
      rw [gfa_skip_format g (hok g (by simp)) f.pt (hd'.1 f hfgs)]
      exact ih (fun x hx => hok x (by simp [hx])) hd'.2 hfgs

end Rtsp.Sdp

namespace Rtsp.Sdp
open Rtsp.Facts.Sdp Format

/-! ### `format.Unmarshal` on a marshalled media -/

theorem isSmartPT_dec (n : Nat) : isSmartPT (dec n) = false := by
  obtain ⟨x, xs, hd, hx⟩ := dec_head_isDigit n
  rw [hd]
  have : x ≠ 115 := by intro e; subst e; revert hx; decide
  unfold isSmartPT
  split
  · rename_i heq
    simp only [List.cons.injEq] at heq
    exact absurd heq.1 this
  · rfl

theorem gfa_skip_pre (pre : List Attr) (key : Str) (h : ∀ a ∈ pre, a.key ≠ key) (rest : List Attr) (pt : Nat) :
    getFormatAttribute (pre ++ rest) pt key = getFormatAttribute rest pt key := by
  induction pre with
  | nil => rfl
  | cons a as ih =>
    simp only [List.cons_append]
    rw [gfa_skip_key a key (h a (by simp)), ih (fun x hx => h x (by simp [hx]))]

/-- the attributes `Media.Marshal` writes before the formats' attributes -/
def preAttrs (m : Media) : List Attr :=
  (if m.id.isEmpty then [] else [⟨b!"mid", m.id⟩])
  ++ (if m.backChannel then [⟨b!"sendonly", []⟩] else [])
  ++ keyMgmtAttr m.keyMgmt
  ++ [⟨b!"control", m.control⟩]

def postAttrs (anyBack : Bool) (m : Media) : List Attr :=
  if !m.backChannel && anyBack then [⟨b!"recvonly", []⟩] else []

theorem marshalMedia_attrs (ab : Bool) (m : Media) :
    (marshalMedia ab m).attrs = preAttrs m ++ (m.formats.flatMap formatAttrs ++ postAttrs ab m) := by
  simp [marshalMedia, preAttrs, postAttrs]

theorem preAttrs_keys (m : Media) : ∀ a ∈ preAttrs m, a.key = b!"mid" ∨ a.key = b!"sendonly" ∨ a.key = b!"key-mgmt" ∨ a.key = b!"control" := by
  intro a ha
  simp only [preAttrs, keyMgmtAttr, List.mem_append, List.mem_singleton] at ha
  rcases ha with ((ha | ha) | ha) | ha
  · split at ha
    · simp at ha
    · simp only [List.mem_singleton] at ha; subst ha; simp
  · split at ha
    · simp only [List.mem_singleton] at ha; subst ha; simp
    · simp at ha
  · split at ha
    · simp only [List.mem_singleton] at ha; subst ha; simp
    · simp at ha
  · subst ha; simp

theorem postAttrs_keys (ab : Bool) (m : Media) : ∀ a ∈ postAttrs ab m, a.key = b!"recvonly" := by
  intro a ha
  simp only [postAttrs] at ha
  split at ha
  · simp only [List.mem_singleton] at ha; subst ha; rfl
  · simp at ha

/-- **`format.Unmarshal` on the library's own media description**: for each format of a valid media, looking
it up by its payload type in what `Media.Marshal` wrote rebuilds the format. -/
theorem unmarshalFormat_marshal (O : Oracle) (ab : Bool) (m : Media) (hm : GoodMedia O m) (f : Format) (hf : f ∈ m.formats) :
    unmarshalFormat O (marshalMedia ab m) (dec f.pt) = .ok f := by
  have hok : ∀ g ∈ m.formats, FmtTextOk g := fun g hg => (hm.formats_ok g hg).1
  have hfo := hok f hf
  have hpre_r : ∀ a ∈ preAttrs m, a.key ≠ b!"rtpmap" := by
    intro a ha; rcases preAttrs_keys m a ha with h | h | h | h <;> (rw [h]; decide)
  have hpre_f : ∀ a ∈ preAttrs m, a.key ≠ b!"fmtp" := by
    intro a ha; rcases preAttrs_keys m a ha with h | h | h | h <;> (rw [h]; decide)
  have hpost_r : ∀ a ∈ postAttrs ab m, a.key ≠ b!"rtpmap" := by
    intro a ha; rw [postAttrs_keys ab m a ha]; decide
  have hpost_f : ∀ a ∈ postAttrs ab m, a.key ≠ b!"fmtp" := by
    intro a ha; rw [postAttrs_keys ab m a ha]; decide
  have hr : getFormatAttribute (marshalMedia ab m).attrs f.pt b!"rtpmap" = f.rtpmap := by
    rw [marshalMedia_attrs, gfa_skip_pre _ _ hpre_r]
    exact gfa_rtpmap m.formats hok hm.pts_distinct _ hpost_r f hf
  have hfm : decodeFMTP (getFormatAttribute (marshalMedia ab m).attrs f.pt b!"fmtp") = f.fmtp.map fun kv => (toLower kv.1, kv.2) := by
    rw [marshalMedia_attrs, gfa_skip_pre _ _ hpre_f, gfa_fmtp m.formats hok hm.pts_distinct _ hpost_f f hf]
    by_cases he : f.fmtp.isEmpty
    · simp only [he, if_true]
      rw [List.isEmpty_iff.mp he]; rfl
    · simp only [he, Bool.false_eq_true, if_false, fmtpBody, sortKV_sorted hfo.sorted]
      exact decodeFMTP_render f.fmtp (by intro e; rw [e] at he; simp at he) hfo.keys hfo.vals
  have hpt : parseUint ptBits (dec f.pt) = some f.pt := parseUint_dec (by simpa [ptBits] using hfo.pt_lt)
  have hty : (marshalMedia ab m).media = m.typ := rfl
  unfold unmarshalFormat
  simp only [replaceSmartPayloadType, isSmartPT_dec, Bool.false_eq_true, if_false, hpt, hr, hfm, hty]
  exact (hm.formats_ok f hf).2

theorem unmarshalFormats_marshal (O : Oracle) (ab : Bool) (m : Media) (hm : GoodMedia O m) (fs : List Format)
    (hfs : ∀ f ∈ fs, f ∈ m.formats) :
    unmarshalFormats O (marshalMedia ab m) (fs.map fun f => dec f.pt) = .ok fs := by
  induction fs with
  | nil => rfl
  | cons f fs ih =>
    simp only [List.map_cons, unmarshalFormats]
    rw [unmarshalFormat_marshal O ab m hm f (hfs f (by simp)), ih (fun x hx => hfs x (by simp [hx]))]
    rfl

end Rtsp.Sdp
