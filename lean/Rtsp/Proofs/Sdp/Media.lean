import Rtsp.Proofs.Sdp.FmtText
/-
Media layer: `format.Unmarshal` finds, in the attributes `Media.Marshal` wrote, each format's own
rtpmap / fmtp and rebuilds the format; `Media.Unmarshal` rebuilds the media.
-/
namespace Rtsp.Sdp
open Rtsp.Facts.Sdp Format

/-! ### `decodeFMTP (renderFmtp kvs)` -/

def kvText (kv : Str × Str) : Str := kv.1 ++ 61 :: kv.2

theorem renderFmtp_cons (kv : Str × Str) (rest : List (Str × Str)) :
    renderFmtp (kv :: rest) = kvText kv ++ rest.flatMap (fun x => 59 :: 32 :: kvText x) := by
  induction rest generalizing kv with
  | nil => simp [renderFmtp, joinWith, kvText]
  | cons x xs ih =>
    have := ih x
    simp only [renderFmtp, List.map_cons, joinWith_cons_cons] at this ⊢
    rw [this]
    simp [kvText]

theorem semi_not_mem_kvText {kv : Str × Str} (hk : KeyOk kv.1) (hv : ValOk kv.2) : (59 : UInt8) ∉ kvText kv := by
  intro h
  simp only [kvText, List.mem_append, List.mem_cons] at h
  rcases h with h | h | h
  · exact (hk.chars _ h).1 rfl
  · revert h; decide
  · exact hv.nosemi _ h rfl

theorem trimBlank_kvText {kv : Str × Str} (hk : KeyOk kv.1) (hv : ValOk kv.2) : trimBlank (kvText kv) = kvText kv := by
  apply trimBlank_id
  · intro c hc
    obtain ⟨k, v⟩ := kv
    cases k with
    | nil => exact absurd rfl hk.ne
    | cons x xs =>
      simp only [kvText, List.cons_append, List.head?_cons, Option.some.injEq] at hc
      subst hc
      exact (hk.chars _ (by simp)).2.2.1
  · intro c hc
    obtain ⟨k, v⟩ := kv
    simp only [kvText] at hc
    cases v with
    | nil =>
      simp only [List.getLast?_append, List.getLast?_singleton, Option.some_or, Option.some.injEq] at hc
      subst hc; decide
    | cons y ys =>
      have : (k ++ 61 :: y :: ys).getLast? = (y :: ys).getLast? := by
        rw [List.getLast?_append, List.getLast?_cons_cons]
        cases hl : (y :: ys).getLast? with
        | none => simp at hl
        | some z => simp
      rw [this] at hc
      intro e; subst e
      have := hv.last _ hc
      revert this; decide

theorem trimBlank_sp_kvText {kv : Str × Str} (hk : KeyOk kv.1) (hv : ValOk kv.2) : trimBlank (32 :: kvText kv) = kvText kv := by
  have h := trimBlank_kvText hk hv
  unfold trimBlank at h ⊢
  simp only [trimLeft, beq_self_eq_true, if_true]
  exact h

theorem cut_kvText {kv : Str × Str} (hk : KeyOk kv.1) : cut 61 (kvText kv) = some (kv.1, kv.2) :=
  cut_append _ (fun h => (hk.chars _ h).2.1 rfl)

theorem kvText_ne_nil (kv : Str × Str) : (kvText kv).isEmpty = false := by
  obtain ⟨k, v⟩ := kv
  cases k <;> simp [kvText]

theorem splitOn_tail (rest : List (Str × Str)) (hk : ∀ kv ∈ rest, KeyOk kv.1) (hv : ∀ kv ∈ rest, ValOk kv.2) (a : Str)
    (ha : (59 : UInt8) ∉ a) :
    splitOn 59 (a ++ rest.flatMap (fun x => 59 :: 32 :: kvText x)) = a :: rest.map (fun x => 32 :: kvText x) := by
  induction rest generalizing a with
  | nil => simpa using splitOn_noSep ha
  | cons x xs ih =>
    simp only [List.flatMap_cons, List.cons_append, List.map_cons]
    rw [splitOn_append _ ha]
    have hx : (59 : UInt8) ∉ 32 :: kvText x := by
      intro h
      simp only [List.mem_cons] at h
      rcases h with h | h
      · revert h; decide
      · exact semi_not_mem_kvText (hk x (by simp)) (hv x (by simp)) h
    have := ih (fun kv hkv => hk kv (by simp [hkv])) (fun kv hkv => hv kv (by simp [hkv])) (32 :: kvText x) hx
    simp only [List.cons_append] at this
    rw [this]

/-- **fmtp text round trip**: `decodeFMTP` of the rendered entries gives the entries with lower-cased keys. -/
theorem decodeFMTP_render (kvs : List (Str × Str)) (hne : kvs ≠ []) (hk : ∀ kv ∈ kvs, KeyOk kv.1) (hv : ∀ kv ∈ kvs, ValOk kv.2) :
    decodeFMTP (renderFmtp kvs) = kvs.map fun kv => (toLower kv.1, kv.2) := by
  cases kvs with
  | nil => exact absurd rfl hne
  | cons kv rest =>
    have hne' : (renderFmtp (kv :: rest)).isEmpty = false := by
      rw [renderFmtp_cons]
      have := kvText_ne_nil kv
      cases hkt : kvText kv with
      | nil => rw [hkt] at this; simp at this
      | cons _ _ => simp
    unfold decodeFMTP
    rw [hne']
    simp only [Bool.false_eq_true, if_false]
    rw [renderFmtp_cons, splitOn_tail rest (fun x hx => hk x (by simp [hx])) (fun x hx => hv x (by simp [hx])) _
      (semi_not_mem_kvText (hk kv (by simp)) (hv kv (by simp)))]
    simp only [List.filterMap_cons, trimBlank_kvText (hk kv (by simp)) (hv kv (by simp)), kvText_ne_nil,
      Bool.false_eq_true, if_false, cut_kvText (hk kv (by simp)), List.map_cons]
    congr 1
    have hrest : ∀ (l : List (Str × Str)), (∀ x ∈ l, KeyOk x.1) → (∀ x ∈ l, ValOk x.2) →
        List.filterMap (fun kv => let kv := trimBlank kv; if kv.isEmpty = true then none else
            match cut 61 kv with
            | some (k, v) => some (toLower k, v)
            | none => none) (l.map fun x => 32 :: kvText x) = l.map fun kv => (toLower kv.1, kv.2) := by
      intro l
      induction l with
      | nil => intros; rfl
      | cons x xs ih =>
        intro hk' hv'
        simp only [List.map_cons, List.filterMap_cons, trimBlank_sp_kvText (hk' x (by simp)) (hv' x (by simp)), kvText_ne_nil,
          Bool.false_eq_true, if_false, cut_kvText (hk' x (by simp))]
        rw [ih (fun y hy => hk' y (by simp [hy])) (fun y hy => hv' y (by simp [hy]))]
    exact hrest rest (fun x hx => hk x (by simp [hx])) (fun x hx => hv x (by simp [hx]))

end Rtsp.Sdp
