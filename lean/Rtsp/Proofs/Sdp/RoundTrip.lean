import Rtsp.Proofs.Sdp.Session
/-
The composed round trip: a valid session, marshalled to SDP text and parsed back, is the session.
-/
namespace Rtsp.Sdp
open Rtsp.Facts.Sdp Format

/-- character-wise facts: ASCII and not CR / LF -/
abbrev LineCh (c : UInt8) : Prop := isAscii c = true ∧ c ≠ 10 ∧ c ≠ 13

theorem lineCh_of_alnum {c : UInt8} (h : isAlnum c = true) : LineCh c := by
  have hb : isB64 c = true := by simp [isB64, h]
  have := plainCh_spec (isB64_plain c hb)
  exact ⟨this.1, this.2.2.2.1, this.2.2.2.2.1⟩

theorem lineCh_of_plain {c : UInt8} (h : plainCh c = true) : LineCh c := by
  have := plainCh_spec h
  exact ⟨this.1, this.2.2.2.1, this.2.2.2.2.1⟩

theorem lineCh_dec {n : Nat} {c : UInt8} (h : c ∈ dec n) : LineCh c := lineCh_of_plain (plain_dec n c h)

theorem wfAttr_of {k v : Str} (hk : k ≠ []) (hc : (58 : UInt8) ∉ k) (hkc : ∀ c ∈ k, LineCh c) (hvc : ∀ c ∈ v, LineCh c) :
    WfAttr ⟨k, v⟩ where
  key_ne := hk
  key_nocolon := hc
  key_nonl := fun c h => (hkc c h).2
  val_nonl := fun c h => (hvc c h).2
  key_ascii := fun c h => (hkc c h).1
  val_ascii := fun c h => (hvc c h).1

theorem lineCh_lit (s : Str) (h : ∀ c ∈ s, isAscii c = true ∧ c ≠ 10 ∧ c ≠ 13) : ∀ c ∈ s, LineCh c := h

theorem lineCh_kvText {kv : Str × Str} (hk : KeyOk kv.1) (hv : ValOk kv.2) : ∀ c ∈ kvText kv, LineCh c := by
  intro c hc
  simp only [kvText, List.mem_append, List.mem_cons] at hc
  rcases hc with hc | rfl | hc
  · have := hk.chars c hc
    exact ⟨this.2.2.2.2.2, this.2.2.2.1, this.2.2.2.2.1⟩
  · exact ⟨by decide, by decide, by decide⟩
  · exact ⟨hv.ascii c hc, hv.nonl c hc⟩

theorem lineCh_renderFmtp (kvs : List (Str × Str)) (hk : ∀ kv ∈ kvs, KeyOk kv.1) (hv : ∀ kv ∈ kvs, ValOk kv.2) :
    ∀ c ∈ renderFmtp kvs, LineCh c := by
  cases kvs with
  | nil => intro c hc; simp [renderFmtp, joinWith] at hc
  | cons kv rest =>
    rw [renderFmtp_cons]
    intro c hc
    simp only [List.mem_append, List.mem_flatMap, List.mem_cons] at hc
    rcases hc with hc | ⟨x, hx, rfl | rfl | hc⟩
    · exact lineCh_kvText (hk kv (by simp)) (hv kv (by simp)) c hc
    · exact ⟨by decide, by decide, by decide⟩
    · exact ⟨by decide, by decide, by decide⟩
    · exact lineCh_kvText (hk x (by simp [hx])) (hv x (by simp [hx])) c hc

theorem wf_formatAttrs {f : Format} (h : FmtTextOk f) : ∀ a ∈ formatAttrs f, WfAttr a := by
  intro a ha
  rw [formatAttrs_eq] at ha
  simp only [List.mem_append] at ha
  rcases ha with ha | ha
  · split at ha
    · simp at ha
    · simp only [List.mem_singleton] at ha
      subst ha
      refine wfAttr_of (by decide) (by decide) (by intro c hc; revert c; decide) ?_
      intro c hc
      simp only [List.mem_append, List.mem_cons] at hc
      rcases hc with hc | rfl | hc
      · exact lineCh_dec hc
      · exact ⟨by decide, by decide, by decide⟩
      · exact ⟨h.rtpmap_ascii c hc, h.rtpmap_nonl c hc⟩
  · split at ha
    · simp at ha
    · simp only [List.mem_singleton] at ha
      subst ha
      refine wfAttr_of (by decide) (by decide) (by intro c hc; revert c; decide) ?_
      intro c hc
      simp only [List.mem_append, List.mem_cons] at hc
      rcases hc with hc | rfl | hc
      · exact lineCh_dec hc
      · exact ⟨by decide, by decide, by decide⟩
      · unfold fmtpBody at hc
        rw [sortKV_sorted h.sorted] at hc
        exact lineCh_renderFmtp f.fmtp h.keys h.vals c hc

theorem wf_keyMgmtAttr (k : Option Bytes) : ∀ a ∈ keyMgmtAttr k, WfAttr a := by
  intro a ha
  cases k with
  | none => simp [keyMgmtAttr] at ha
  | some enc =>
    simp only [keyMgmtAttr, List.mem_singleton] at ha
    subst ha
    refine wfAttr_of (by decide) (by decide) (by intro c hc; revert c; decide) ?_
    intro c hc
    simp only [List.mem_append] at hc
    rcases hc with hc | hc
    · revert c; decide
    · exact lineCh_of_plain (plain_b64 enc c hc)

theorem wf_marshalMedia (O : Oracle) (ab : Bool) (m : Media) (hm : GoodMedia O m) : WfMedia (marshalMedia ab m) where
  type_ok := hm.type_ok
  type_nosp := fun c hc => (hm.type_chars c hc).1
  type_ascii := fun c hc => (hm.type_chars c hc).2
  protos_ne := by simp only [marshalMedia]; split <;> simp
  protos_ok := by
    intro p hp
    simp only [marshalMedia] at hp
    split at hp <;> (simp only [List.mem_cons, List.not_mem_nil, or_false] at hp; rcases hp with rfl | rfl <;> decide)
  fmts_ne := by
    simp only [marshalMedia]
    cases hf : m.formats with
    | nil => exact absurd hf hm.formats_ne
    | cons _ _ => simp
  fmts_ok := by
    intro f hf
    simp only [marshalMedia, List.mem_map] at hf
    obtain ⟨g, _, rfl⟩ := hf
    refine ⟨dec_ne_nil _, ?_, ?_⟩
    · intro c hc; exact (plainCh_spec (plain_dec _ c hc)).2.1
    · intro c hc; exact (lineCh_dec hc).1
  attrs_ok := by
    intro a ha
    apply attrRT_of_wf
    rw [marshalMedia_attrs] at ha
    simp only [List.mem_append, List.mem_flatMap] at ha
    rcases ha with ha | ⟨f, hf, ha⟩ | ha
    · simp only [preAttrs, List.mem_append, List.mem_singleton] at ha
      rcases ha with ((ha | ha) | ha) | ha
      · split at ha
        · simp at ha
        · simp only [List.mem_singleton] at ha
          subst ha
          exact wfAttr_of (by decide) (by decide) (by intro c hc; revert c; decide)
            (fun c hc => lineCh_of_alnum (hm.id_alnum c hc))
      · split at ha
        · simp only [List.mem_singleton] at ha
          subst ha
          exact wfAttr_of (by decide) (by decide) (by intro c hc; revert c; decide) (by intro c hc; simp at hc)
        · simp at ha
      · exact wf_keyMgmtAttr m.keyMgmt a ha
      · subst ha
        exact wfAttr_of (by decide) (by decide) (by intro c hc; revert c; decide)
          (fun c hc => ⟨(hm.control_ok c hc).2.2, (hm.control_ok c hc).1, (hm.control_ok c hc).2.1⟩)
    · exact wf_formatAttrs (hm.formats_ok f hf).1 a ha
    · simp only [postAttrs] at ha
      split at ha
      · simp only [List.mem_singleton] at ha
        subst ha
        exact wfAttr_of (by decide) (by decide) (by intro c hc; revert c; decide) (by intro c hc; simp at hc)
      · simp at ha

theorem wf_marshalDoc (O : Oracle) (s : Session) (hs : GoodSession O s) : WfDoc (marshalDoc s) where
  name_nonl := by
    intro c hc
    simp only [marshalDoc] at hc
    split at hc
    · simp only [List.mem_singleton] at hc; subst hc; exact ⟨by decide, by decide⟩
    · exact hs.title_ok c hc
  attrs_ok := by
    intro a ha
    apply attrRT_of_wf
    rw [marshalDoc_attrs] at ha
    simp only [List.mem_append] at ha
    rcases ha with ha | ha
    · simp only [groupAttrs, List.mem_map] at ha
      obtain ⟨g, hg, rfl⟩ := ha
      refine wfAttr_of (by decide) (by decide) (by intro c hc; revert c; decide) ?_
      intro c hc
      simp only [List.mem_append] at hc
      rcases hc with hc | hc
      · revert c; decide
      · have : ∀ (ids : List Str), (∀ id ∈ ids, ∀ c ∈ id, isAlnum c = true) → ∀ c ∈ joinWith [32] ids, LineCh c := by
          intro ids
          induction ids with
          | nil => intro _ c hc; simp [joinWith] at hc
          | cons x xs ih =>
            intro hx c hc
            cases xs with
            | nil => exact lineCh_of_alnum (hx x (by simp) c (by simpa [joinWith] using hc))
            | cons y ys =>
              rw [joinWith_cons_cons] at hc
              simp only [List.mem_append, List.mem_singleton] at hc
              rcases hc with (hc | rfl) | hc
              · exact lineCh_of_alnum (hx x (by simp) c hc)
              · exact ⟨by decide, by decide, by decide⟩
              · exact ih (fun z hz => hx z (by simp [hz])) c hc
        exact this g (fun id hid => ((hs.fec_ok g hg).2 id hid).1) c hc
    · exact wf_keyMgmtAttr s.keyMgmt a ha
  medias_ok := by
    intro m hm
    simp only [marshalDoc, List.mem_map] at hm
    obtain ⟨m0, hm0, rfl⟩ := hm
    exact wf_marshalMedia O _ m0 (hs.medias_ok m0 hm0)

/-- the round trip for good sessions -/
theorem unmarshal_marshal_good (O : Oracle) (multicast : Bool) (s : Session) (hs : GoodSession O s) :
    unmarshal O (marshal multicast s) = .ok s := by
  unfold unmarshal marshal
  rw [parse_render multicast _ (wf_marshalDoc O s hs)]
  exact unmarshalDoc_marshal O s hs

/-- **C05, the round trip**: marshalling a valid session to SDP text and parsing the text gives the session. -/
theorem unmarshal_marshal (O : Oracle) (multicast : Bool) (s : Session) (hs : ValidSession O s) :
    unmarshal O (marshal multicast s) = .ok s := unmarshal_marshal_good O multicast s (goodSession_of_valid hs)

end Rtsp.Sdp
