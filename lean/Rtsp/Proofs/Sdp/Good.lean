import Rtsp.Proofs.Sdp.FmtText
/-
`GoodSession`: the hypotheses the round-trip proof actually uses.  It is `ValidSession` with the per-format
condition replaced by its two consequences (the format writes well-formed attribute text; `format.Unmarshal`
rebuilds it from its own rtpmap / fmtp).  Every valid session is good; the re-parse theorem is stated for
good sessions, so that for an accepted description only the per-format condition remains to be shown.
-/
namespace Rtsp.Sdp

/-- a format that survives its own attributes -/
def GoodFormat (O : Oracle) (mt : Str) (f : Format) : Prop := FmtTextOk f ∧ unmarshalCtx O (ctxOf mt f) = .ok f

theorem goodFormat_of_valid {O : Oracle} {mt : Str} {f : Format} (h : ValidFormat O mt f) : GoodFormat O mt f :=
  ⟨fmtTextOk h, fmt_roundtrip_all O mt f h⟩

structure GoodMedia (O : Oracle) (m : Media) : Prop where
  type_ok : mediaTypeOk m.typ = true
  type_chars : ∀ c ∈ m.typ, isSpace c = false ∧ isAscii c = true
  id_alnum : ∀ c ∈ m.id, isAlnum c = true
  keymgmt_ok : ∀ k, m.keyMgmt = some k → O.mikey k = some k
  control_ok : ∀ c ∈ m.control, c ≠ 10 ∧ c ≠ 13 ∧ isAscii c = true
  formats_ne : m.formats ≠ []
  formats_ok : ∀ f ∈ m.formats, GoodFormat O m.typ f
  pts_distinct : m.formats.Pairwise fun a b => a.pt ≠ b.pt

structure GoodSession (O : Oracle) (s : Session) : Prop where
  title_ok : ∀ c ∈ s.title, c ≠ 10 ∧ c ≠ 13
  title_not_blank : s.title ≠ [32]
  keymgmt_ok : ∀ k, s.keyMgmt = some k → O.mikey k = some k
  medias_ne : s.medias ≠ []
  medias_ok : ∀ m ∈ s.medias, GoodMedia O m
  ids : (∀ m ∈ s.medias, m.id = []) ∨ ((∀ m ∈ s.medias, m.id ≠ []) ∧ s.medias.Pairwise fun a b => a.id ≠ b.id)
  not_all_back : ∃ m ∈ s.medias, m.backChannel = false
  fec_ok : ∀ g ∈ s.fecGroups, g ≠ [] ∧ ∀ id ∈ g, (∀ c ∈ id, isAlnum c = true) ∧ ∃ m ∈ s.medias, m.id = id

theorem goodMedia_of_valid {O : Oracle} {m : Media} (h : ValidMedia O m) : GoodMedia O m :=
  { type_ok := h.type_ok, type_chars := h.type_chars, id_alnum := h.id_alnum, keymgmt_ok := h.keymgmt_ok,
    control_ok := h.control_ok, formats_ne := h.formats_ne,
    formats_ok := fun f hf => goodFormat_of_valid (h.formats_ok f hf), pts_distinct := h.pts_distinct }

theorem goodSession_of_valid {O : Oracle} {s : Session} (h : ValidSession O s) : GoodSession O s :=
  { title_ok := h.title_ok, title_not_blank := h.title_not_blank, keymgmt_ok := h.keymgmt_ok, medias_ne := h.medias_ne,
    medias_ok := fun m hm => goodMedia_of_valid (h.medias_ok m hm), ids := h.ids, not_all_back := h.not_all_back,
    fec_ok := h.fec_ok }

end Rtsp.Sdp
