import Rtsp.Proofs.Sdp.Fmt4
/-
Per-format round trips, part 5: Generic; the canonical form of fmtp maps.
-/
namespace Rtsp.Sdp
open Rtsp.Facts.Sdp Format

theorem strLt_irrefl (a : Str) : strLt a a = false := by
  induction a with
  | nil => rfl
  | cons x xs ih => simp [strLt, ih]

theorem strLt_asymm {a b : Str} (h : strLt a b = true) : strLt b a = false := by
  induction a generalizing b with
  | nil => cases b <;> simp_all [strLt]
  | cons x xs ih =>
    cases b with
    | nil => simp [strLt] at h
    | cons y ys =>
      simp only [strLt, Bool.or_eq_true, decide_eq_true_eq, Bool.and_eq_true, beq_iff_eq] at h
      rcases h with h | ⟨rfl, h⟩
      · have h' : x.toNat < y.toNat := UInt8.lt_iff_toNat_lt.mp h
        have hne : (y == x) = false := by
          simp only [beq_eq_false_iff_ne, ne_eq]; intro e; subst e; omega
        have hlt : ¬ y < x := by intro h2; have := UInt8.lt_iff_toNat_lt.mp h2; omega
        simp [strLt, hlt, hne]
      · have hlt : ¬ x < x := by intro h2; have := UInt8.lt_iff_toNat_lt.mp h2; omega
        simp [strLt, hlt, ih h]

theorem strLt_ne {a b : Str} (h : strLt a b = true) : a ≠ b := by
  intro e; subst e; rw [strLt_irrefl] at h; cases h

theorem insertKV_append {k v : Str} {acc : List (Str × Str)} (h : ∀ y ∈ acc, strLt y.1 k = true) :
    insertKV k v acc = acc ++ [(k, v)] := by
  induction acc with
  | nil => rfl
  | cons y ys ih =>
    obtain ⟨k', v'⟩ := y
    have hy : strLt k' k = true := h (k', v') (by simp)
    have hne : k ≠ k' := fun e => strLt_ne hy e.symm
    have hnl : strLt k k' = false := strLt_asymm hy
    simp [insertKV, hne, hnl, ih (fun z hz => h z (by simp [hz]))]

theorem foldl_insertKV_sorted (acc rest : List (Str × Str)) (h : KeysSorted (acc ++ rest)) :
    rest.foldl (fun m kv => insertKV kv.1 kv.2 m) acc = acc ++ rest := by
  induction rest generalizing acc with
  | nil => simp
  | cons x xs ih =>
    have hx : ∀ y ∈ acc, strLt y.1 x.1 = true := by
      intro y hy
      have := List.pairwise_append.mp h
      exact this.2.2 y hy x (by simp)
    simp only [List.foldl_cons]
    rw [insertKV_append hx, ih]
    · simp
    · simpa using h

/-- a sorted association list is its own canonical map -/
theorem mapOf_sorted {l : List (Str × Str)} (h : KeysSorted l) : mapOf l = l := by
  have := foldl_insertKV_sorted [] l (by simpa using h)
  simpa [mapOf] using this

theorem lowerB_id {c : UInt8} (h : isUpper c = false) : lowerB c = c := by simp [lowerB, h]

theorem toLower_id {k : Str} (h : ∀ c ∈ k, isUpper c = false) : toLower k = k := by
  induction k with
  | nil => rfl
  | cons c cs ih =>
    simp only [toLower, List.map_cons]
    rw [lowerB_id (h c (by simp))]
    have := ih (fun x hx => h x (by simp [hx]))
    simp only [toLower] at this
    rw [this]

theorem lowerKeys_id {l : List (Str × Str)} (h : ∀ kv ∈ l, ∀ c ∈ kv.1, isUpper c = false) :
    l.map (fun kv => (toLower kv.1, kv.2)) = l := by
  induction l with
  | nil => rfl
  | cons x xs ih =>
    simp only [List.map_cons]
    rw [toLower_id (h x (by simp)), ih (fun kv hkv => h kv (by simp [hkv]))]

theorem rt_generic (O : Oracle) (mt : Str) (pt : Nat) (rm : Str) (fm : List (Str × Str)) (clk : Nat)
    (h : ValidFormat O mt (.generic pt rm fm clk)) :
    unmarshalCtx O (ctxOf mt (.generic pt rm fm clk)) = .ok (.generic pt rm fm clk) := by
  obtain ⟨_, hsel, hclk, _, _, _, hkv, hsorted⟩ := h
  have hlow : fm.map (fun kv => (toLower kv.1, kv.2)) = fm :=
    lowerKeys_id (fun kv hkv' c hc => ((hkv kv hkv').1.2 c hc).2.2.1)
  have hclk' : findClockRate pt rm (decide (mt = b!"application")) = some clk := by
    rw [← hclk]; congr 1
    cases hd : (mt == b!"application") <;> simp_all
  simp only [unmarshalCtx, ctxOf, Format.rtpmap, Format.pt, Format.fmtp, hsel, unmarshalKind, hlow, hclk', mapOf_sorted hsorted]

end Rtsp.Sdp
