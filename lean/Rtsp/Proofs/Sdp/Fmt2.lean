import Rtsp.Proofs.Sdp.Fmt1
/-
Per-format round trips, part 2: G711, LPCM, Opus.
-/
namespace Rtsp.Sdp
open Rtsp.Facts.Sdp Format

theorem cc_g711 (pt : Nat) (mu : Bool) (r ch : Nat) :
    getCodecAndClock (g711 pt mu r ch).rtpmap
      = (if mu then b!"pcmu" else b!"pcma", dec r ++ (if ch ≠ 1 then 47 :: dec ch else [])) := by
  cases mu <;> simp [Format.rtpmap, getCodecAndClock, cut, toLower, lowerB, isUpper]

theorem rt_g711 (O : Oracle) (mt : Str) (pt : Nat) (mu : Bool) (r ch : Nat) (h : ValidFormat O mt (.g711 pt mu r ch)) :
    unmarshalCtx O (ctxOf mt (.g711 pt mu r ch)) = .ok (.g711 pt mu r ch) := by
  rcases h with ⟨rfl, rfl, rfl, rfl⟩ | ⟨rfl, rfl, rfl, rfl⟩ | ⟨⟨h1, h2⟩, hr, hc⟩
  · rfl
  · rfl
  · have hp0 : pt ≠ 0 := by omega
    have hp8 : pt ≠ 8 := by omega
    have hselA : ∀ k, select b!"pcma" k pt = .g711 := by intro k; simp [select, dynLo, dynHi, h1, h2, isG726Codec]
    have hselU : ∀ k, select b!"pcmu" k pt = .g711 := by intro k; simp [select, dynLo, dynHi, h1, h2, isG726Codec]
    simp only [unmarshalCtx, ctxOf, cc_g711, Format.pt]
    by_cases hch : ch = 1
    · subst hch
      cases mu <;>
        simp [hselA, hselU, unmarshalKind, hp0, hp8, rateChannels_dec1 hr]
    · cases mu <;>
        simp [hch, hselA, hselU, unmarshalKind, hp0, hp8, rateChannels_dec2 hr hc]

theorem cc_lpcm (pt d r ch : Nat) (hd : d = 8 ∨ d = 16 ∨ d = 24) :
    getCodecAndClock (lpcm pt d r ch).rtpmap
      = (if d = 8 then b!"l8" else if d = 16 then b!"l16" else b!"l24", dec r ++ 47 :: dec ch) := by
  rcases hd with rfl | rfl | rfl <;> simp [Format.rtpmap, getCodecAndClock, cut, toLower, lowerB, isUpper]

theorem rt_lpcm (O : Oracle) (mt : Str) (pt d r ch : Nat) (h : ValidFormat O mt (.lpcm pt d r ch)) :
    unmarshalCtx O (ctxOf mt (.lpcm pt d r ch)) = .ok (.lpcm pt d r ch) := by
  rcases h with ⟨rfl, rfl, rfl, rfl⟩ | ⟨rfl, rfl, rfl, rfl⟩ | ⟨⟨h1, h2⟩, hd, hr, hc⟩
  · rfl
  · rfl
  · have hp0 : pt ≠ 10 := by omega
    have hp8 : pt ≠ 11 := by omega
    have hsel8 : ∀ k, select b!"l8" k pt = .lpcm := by intro k; simp [select, dynLo, dynHi, h1, h2, isG726Codec]
    have hsel16 : ∀ k, select b!"l16" k pt = .lpcm := by intro k; simp [select, dynLo, dynHi, h1, h2, isG726Codec]
    have hsel24 : ∀ k, select b!"l24" k pt = .lpcm := by intro k; simp [select, dynLo, dynHi, h1, h2, isG726Codec]
    simp only [unmarshalCtx, ctxOf, cc_lpcm _ _ _ _ hd, Format.pt]
    rcases hd with rfl | rfl | rfl <;>
      simp [hsel8, hsel16, hsel24, unmarshalKind, hp0, hp8, rateChannels_dec2 hr hc]

theorem cc_opus (pt ch : Nat) :
    getCodecAndClock (opus pt ch).rtpmap
      = if ch ≤ 2 then (b!"opus", b!"48000/2") else (b!"multiopus", b!"48000/" ++ dec ch) := by
  by_cases h : ch ≤ 2 <;> simp [Format.rtpmap, h, getCodecAndClock, cut, toLower, lowerB, isUpper]

theorem rt_opus (O : Oracle) (mt : Str) (pt ch : Nat) (h : ValidFormat O mt (.opus pt ch)) :
    unmarshalCtx O (ctxOf mt (.opus pt ch)) = .ok (.opus pt ch) := by
  obtain ⟨⟨h1, h2⟩, hc1, hc31⟩ := h
  have hp1 : parseUint 31 b!"48000" = some 48000 := by decide
  have hp2 : parseUint 31 b!"2" = some 2 := by decide
  simp only [unmarshalCtx, ctxOf, cc_opus, Format.pt]
  by_cases h2' : ch ≤ 2
  · have hch : ch = 1 ∨ ch = 2 := by omega
    have hsel : ∀ k, select b!"opus" k pt = .opus := by intro k; simp [select, dynLo, dynHi, h1, h2]
    rcases hch with rfl | rfl <;>
      simp [hsel, unmarshalKind, Format.fmtp, fmtpOpus, cut, hp1, hp2, opusClock, lookupLast, toLower, lowerB, isUpper]
  · have hsel : ∀ k, select b!"multiopus" k pt = .opus := by intro k; simp [select, dynLo, dynHi, h1, h2]
    have h0 : ch ≠ 0 := by omega
    simp [h2', hsel, unmarshalKind, cut, hp1, parseUint_dec hc31, opusClock, h0]

end Rtsp.Sdp
