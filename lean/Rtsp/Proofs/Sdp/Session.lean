import Rtsp.Proofs.Sdp.Media
/-
Description layer: `Media.Unmarshal` / `Session.Unmarshal2` applied to what `Media.Marshal` /
`Session.Marshal` hand to pion return the media / the session.
-/
namespace Rtsp.Sdp
open Rtsp.Facts.Sdp Format

theorem formatAttrs_keys (f : Format) : ∀ a ∈ formatAttrs f, a.key = b!"rtpmap" ∨ a.key = b!"fmtp" := by
  intro a ha
  rw [formatAttrs_eq] at ha
  simp only [List.mem_append] at ha
  rcases ha with ha | ha
  · split at ha
    · simp at ha
    · simp only [List.mem_singleton] at ha; subst ha; left; rfl
  · split at ha
    · simp at ha
    · simp only [List.mem_singleton] at ha; subst ha; right; rfl

/-- keys written after the fixed attributes of a media -/
theorem tail_keys (ab : Bool) (m : Media) :
    ∀ a ∈ m.formats.flatMap formatAttrs ++ postAttrs ab m, a.key = b!"rtpmap" ∨ a.key = b!"fmtp" ∨ a.key = b!"recvonly" := by
  intro a ha
  simp only [List.mem_append, List.mem_flatMap] at ha
  rcases ha with ⟨f, _, ha⟩ | ha
  · rcases formatAttrs_keys f a ha with h | h
    · exact Or.inl h
    · exact Or.inr (Or.inl h)
  · exact Or.inr (Or.inr (postAttrs_keys ab m a ha))

theorem find_none_of_keys (l : List Attr) (key : Str) (h : ∀ a ∈ l, a.key ≠ key) : l.find? (·.key = key) = none := by
  rw [List.find?_eq_none]
  intro a ha
  simpa using h a ha

theorem tail_find_none (ab : Bool) (m : Media) (key : Str) (h1 : key ≠ b!"rtpmap") (h2 : key ≠ b!"fmtp") (h3 : key ≠ b!"recvonly") :
    (m.formats.flatMap formatAttrs ++ postAttrs ab m).find? (·.key = key) = none := by
  apply find_none_of_keys
  intro a ha
  rcases tail_keys ab m a ha with h | h | h <;> (rw [h]; intro e; first | exact h1 e.symm | exact h2 e.symm | exact h3 e.symm)

theorem getAttribute_mid (ab : Bool) (m : Media) : getAttribute (marshalMedia ab m).attrs b!"mid" = m.id := by
  rw [marshalMedia_attrs]
  unfold getAttribute
  rw [List.find?_append]
  have htail := tail_find_none ab m b!"mid" (by decide) (by decide) (by decide)
  generalize m.formats.flatMap formatAttrs ++ postAttrs ab m = T at htail ⊢
  obtain ⟨typ, id, bc, prof, km, ctl, fs⟩ := m
  cases id <;> cases bc <;> cases km <;> simp [preAttrs, keyMgmtAttr, htail]

theorem getAttribute_control (ab : Bool) (m : Media) : getAttribute (marshalMedia ab m).attrs b!"control" = m.control := by
  rw [marshalMedia_attrs]
  unfold getAttribute
  rw [List.find?_append]
  obtain ⟨typ, id, bc, prof, km, ctl, fs⟩ := m
  cases id <;> cases bc <;> cases km <;> simp [preAttrs, keyMgmtAttr]

theorem any_sendonly (ab : Bool) (m : Media) : (marshalMedia ab m).attrs.any (·.key = b!"sendonly") = m.backChannel := by
  rw [marshalMedia_attrs, List.any_append]
  have htail : (m.formats.flatMap formatAttrs ++ postAttrs ab m).any (·.key = b!"sendonly") = false := by
    rw [List.any_eq_false]
    intro a ha
    rcases tail_keys ab m a ha with h | h | h <;> (rw [h]; decide)
  rw [htail]
  obtain ⟨typ, id, bc, prof, km, ctl, fs⟩ := m
  cases id <;> cases bc <;> cases km <;> simp [preAttrs, keyMgmtAttr]

theorem keyMgmt_media (O : Oracle) (ab : Bool) (m : Media) (h : ∀ k, m.keyMgmt = some k → O.mikey k = some k) :
    unmarshalKeyMgmt O (marshalMedia ab m).attrs = .ok m.keyMgmt := by
  rw [marshalMedia_attrs]
  unfold unmarshalKeyMgmt getAttribute
  rw [List.find?_append]
  have htail := tail_find_none ab m b!"key-mgmt" (by decide) (by decide) (by decide)
  generalize m.formats.flatMap formatAttrs ++ postAttrs ab m = T at htail ⊢
  obtain ⟨typ, id, bc, prof, km, ctl, fs⟩ := m
  cases km with
  | none =>
    cases id <;> cases bc <;> simp [preAttrs, keyMgmtAttr, htail]
  | some k =>
    have hm := h k rfl
    cases id <;> cases bc <;>
      simp [preAttrs, keyMgmtAttr, hasPrefix, List.isPrefixOf, b64dec_b64, hm]

/-- **Media round trip** (below the text layer): `Media.Unmarshal (Media.Marshal m) = m`. -/
theorem unmarshalMedia_marshal (O : Oracle) (ab : Bool) (m : Media) (hm : GoodMedia O m) :
    unmarshalMedia O (marshalMedia ab m) = .ok m := by
  have hfm : (marshalMedia ab m).fmts = m.formats.map fun f => dec f.pt := rfl
  have hprof : ((marshalMedia ab m).protos.contains b!"SAVP") = (m.profile == .savp) := by
    cases hp : m.profile <;> simp [marshalMedia, hp] <;> decide
  have halnum : (!m.id.isEmpty && !m.id.all isAlnum) = false := by
    have : m.id.all isAlnum = true := by rw [List.all_eq_true]; exact hm.id_alnum
    simp [this]
  have hne : m.formats.isEmpty = false := by
    cases hf : m.formats with
    | nil => exact absurd hf hm.formats_ne
    | cons _ _ => rfl
  unfold unmarshalMedia
  simp only [getAttribute_mid, halnum, Bool.false_eq_true, if_false, keyMgmt_media O ab m hm.keymgmt_ok, Res.bind, hfm,
    unmarshalFormats_marshal O ab m hm m.formats (fun f hf => hf), hne, any_sendonly, getAttribute_control, hprof]
  obtain ⟨typ, id, bc, prof, km, ctl, fs⟩ := m
  cases prof <;> rfl

end Rtsp.Sdp

namespace Rtsp.Sdp
open Rtsp.Facts.Sdp Format

/-! ### the session -/

theorem unmarshalMedias_marshal (O : Oracle) (ab : Bool) (acc ms : List Media) (hv : ∀ m ∈ ms, GoodMedia O m)
    (hid : (∀ m ∈ ms, m.id = []) ∨ (acc ++ ms).Pairwise (fun a b => a.id ≠ b.id)) :
    unmarshalMedias O acc (ms.map (marshalMedia ab)) = .ok (acc ++ ms) := by
  induction ms generalizing acc with
  | nil => simp [unmarshalMedias]
  | cons m ms ih =>
    simp only [List.map_cons, unmarshalMedias, unmarshalMedia_marshal O ab m (hv m (by simp))]
    have hcond : (!m.id.isEmpty && acc.any (·.id = m.id)) = false := by
      rcases hid with h | h
      · simp [h m (by simp)]
      · have : acc.any (·.id = m.id) = false := by
          rw [List.any_eq_false]
          intro a ha
          have := (List.pairwise_append.mp h).2.2 a ha m (by simp)
          simpa using this
        simp [this]
    simp only [hcond, Bool.false_eq_true, if_false]
    rw [ih (acc ++ [m]) (fun x hx => hv x (by simp [hx]))]
    · simp
    · rcases hid with h | h
      · exact Or.inl (fun x hx => h x (by simp [hx]))
      · exact Or.inr (by simpa using h)

def groupAttrs (gs : List (List Str)) : List Attr := gs.map fun g => ⟨b!"group", b!"FEC " ++ joinWith [32] g⟩

theorem marshalDoc_attrs (s : Session) : (marshalDoc s).attrs = groupAttrs s.fecGroups ++ keyMgmtAttr s.keyMgmt := rfl

theorem keyMgmt_session (O : Oracle) (s : Session) (h : ∀ k, s.keyMgmt = some k → O.mikey k = some k) :
    unmarshalKeyMgmt O (marshalDoc s).attrs = .ok s.keyMgmt := by
  rw [marshalDoc_attrs]
  unfold unmarshalKeyMgmt getAttribute
  have hg : (groupAttrs s.fecGroups).find? (·.key = b!"key-mgmt") = none := by
    apply find_none_of_keys
    intro a ha
    simp only [groupAttrs, List.mem_map] at ha
    obtain ⟨g, _, rfl⟩ := ha
    simp
  rw [List.find?_append, hg]
  cases hk : s.keyMgmt with
  | none => simp [keyMgmtAttr]
  | some k =>
    have hm := h k hk
    simp [keyMgmtAttr, hasPrefix, List.isPrefixOf, b64dec_b64, hm]

theorem sp_not_mem_alnum {id : Str} (h : ∀ c ∈ id, isAlnum c = true) : (32 : UInt8) ∉ id := by
  intro hm
  have := h 32 hm
  revert this; decide

theorem fecGroupsOf_marshal (ms : List Media) (gs : List (List Str))
    (h : ∀ g ∈ gs, g ≠ [] ∧ ∀ id ∈ g, (∀ c ∈ id, isAlnum c = true) ∧ ∃ m ∈ ms, m.id = id) (km : Option Bytes) :
    fecGroupsOf ms (groupAttrs gs ++ keyMgmtAttr km) = some gs := by
  induction gs with
  | nil => cases km <;> simp [groupAttrs, keyMgmtAttr, fecGroupsOf]
  | cons g gs ih =>
    have hg := h g (by simp)
    have hsplit : splitOn 32 (joinWith [32] g) = g := splitOn_join 32 g hg.1 (fun id hid => sp_not_mem_alnum (hg.2 id hid).1)
    have hall : g.all (fun id => ms.any (·.id = id)) = true := by
      rw [List.all_eq_true]
      intro id hid
      obtain ⟨m, hm, hmid⟩ := (hg.2 id hid).2
      rw [List.any_eq_true]
      exact ⟨m, hm, by simpa using hmid⟩
    have ih' := ih (fun x hx => h x (by simp [hx]))
    have e : groupAttrs (g :: gs) ++ keyMgmtAttr km
        = ⟨b!"group", b!"FEC " ++ joinWith [32] g⟩ :: (groupAttrs gs ++ keyMgmtAttr km) := rfl
    have hpre : hasPrefix b!"FEC " (b!"FEC " ++ joinWith [32] g) = true := by simp [hasPrefix, List.isPrefixOf]
    have hdrop : (b!"FEC " ++ joinWith [32] g).drop 4 = joinWith [32] g := by simp
    rw [e, fecGroupsOf]
    dsimp only
    rw [hpre, hdrop, hsplit, hall, ih']
    simp

/-- **Description round trip below the text layer**: `Session.Unmarshal2` applied to the pion document that
`Session.Marshal` builds returns the session. -/
theorem unmarshalDoc_marshal (O : Oracle) (s : Session) (hs : GoodSession O s) : unmarshalDoc O (marshalDoc s) = .ok s := by
  have hmne : (marshalDoc s).medias.isEmpty = false := by
    cases hm : s.medias with
    | nil => exact absurd hm hs.medias_ne
    | cons _ _ => simp [marshalDoc, hm]
  have hmed : unmarshalMedias O [] (marshalDoc s).medias = .ok s.medias := by
    have := unmarshalMedias_marshal O (s.medias.any (·.backChannel)) [] s.medias hs.medias_ok
      (by rcases hs.ids with h | h
          · exact Or.inl h
          · exact Or.inr (by simpa using h.2))
    simpa [marshalDoc] using this
  have hpart : (s.medias.any (!·.id.isEmpty) && s.medias.any (·.id.isEmpty)) = false := by
    rcases hs.ids with h | h
    · have : s.medias.any (!·.id.isEmpty) = false := by
        rw [List.any_eq_false]; intro m hm; simp [h m hm]
      simp [this]
    · have : s.medias.any (·.id.isEmpty) = false := by
        rw [List.any_eq_false]; intro m hm
        have := h.1 m hm
        cases hid : m.id with
        | nil => exact absurd hid this
        | cons _ _ => simp
      simp [this]
  have hback : s.medias.all (·.backChannel) = false := by
    obtain ⟨m, hm, hb⟩ := hs.not_all_back
    rw [List.all_eq_false]
    exact ⟨m, hm, by simp [hb]⟩
  have hfec : fecGroupsOf s.medias (marshalDoc s).attrs = some s.fecGroups := by
    rw [marshalDoc_attrs]; exact fecGroupsOf_marshal s.medias s.fecGroups hs.fec_ok s.keyMgmt
  have htitle : (if (marshalDoc s).name = [32] then [] else (marshalDoc s).name) = s.title := by
    cases ht : s.title with
    | nil => simp [marshalDoc, ht]
    | cons x xs =>
      have : s.title ≠ [32] := hs.title_not_blank
      rw [ht] at this
      simp [marshalDoc, ht, this]
  unfold unmarshalDoc
  simp only [keyMgmt_session O s hs.keymgmt_ok, Res.bind, hmne, Bool.false_eq_true, if_false, hmed, hpart, hback, hfec, htitle]

end Rtsp.Sdp
