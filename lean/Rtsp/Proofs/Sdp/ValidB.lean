import Rtsp.Model.Sdp.ValidB
/-
Soundness of the executable validity check.
-/
namespace Rtsp.Sdp

theorem p31_sound {n : Nat} (h : p31 n = true) : P31 n := by simpa [p31] using h
theorem optP31_sound {o : Option Nat} (h : optP31 o = true) : OptP31 o := by
  cases o with
  | none => trivial
  | some n => exact p31_sound h
theorem dyn_sound {pt : Nat} (h : dyn pt = true) : Dyn pt := by simpa [dyn] using h
theorem pos31_sound {n : Nat} (h : pos31 n = true) : Pos31 n := by
  simp only [pos31, Bool.and_eq_true, decide_eq_true_eq] at h
  exact ⟨h.1, p31_sound h.2⟩
theorem noAnnexB_sound {b : Bytes} (h : noAnnexB b = true) : NoAnnexB b := by simpa [noAnnexB] using h

theorem keysSortedB_sound {l : List (Str × Str)} (h : keysSortedB l = true) : KeysSorted l := by
  induction l with
  | nil => exact List.Pairwise.nil
  | cons a rest ih =>
    simp only [keysSortedB, Bool.and_eq_true, List.all_eq_true] at h
    exact List.Pairwise.cons (fun b hb => h.1 b hb) (ih h.2)

theorem distinctBy_sound {α β} [BEq β] [LawfulBEq β] (f : α → β) {l : List α} (h : distinctBy f l = true) :
    l.Pairwise fun a b => f a ≠ f b := by
  induction l with
  | nil => exact List.Pairwise.nil
  | cons a rest ih =>
    simp only [distinctBy, Bool.and_eq_true, List.all_eq_true, bne_iff_ne, ne_eq] at h
    exact List.Pairwise.cons (fun b hb => h.1 b hb) (ih h.2)

theorem genKeyOkB_sound {k : Str} (h : genKeyOkB k = true) : GenKeyOk k := by
  simp only [genKeyOkB, Bool.and_eq_true, Bool.not_eq_true', List.all_eq_true, bne_iff_ne, ne_eq] at h
  refine ⟨by intro e; rw [e] at h; simp at h, ?_⟩
  intro c hc
  have := h.2 c hc
  exact ⟨this.1.1.1.1, this.1.1.1.2, this.1.1.2, this.1.2, this.2⟩

theorem genValOkB_sound {v : Str} (h : genValOkB v = true) : GenValOk v := by
  simp only [genValOkB, Bool.and_eq_true, List.all_eq_true, bne_iff_ne, ne_eq, Bool.or_eq_true, Bool.not_eq_true',
    beq_iff_eq] at h
  refine ⟨?_, h.1.2, h.2⟩
  intro c hc
  have := h.1.1 c hc
  refine ⟨this.1.1, this.1.2, ?_⟩
  intro hs
  rcases this.2 with h' | h'
  · rw [hs] at h'; cases h'
  · exact h'

theorem validFormatB_sound (O : Oracle) (mt : Str) (f : Format) (h : validFormatB O mt f = true) : ValidFormat O mt f := by
  cases f with
  | av1 pt l p t =>
    simp only [validFormatB, Bool.and_eq_true] at h
    exact ⟨dyn_sound h.1.1.1, optP31_sound h.1.1.2, optP31_sound h.1.2, optP31_sound h.2⟩
  | vp9 pt a b c =>
    simp only [validFormatB, Bool.and_eq_true] at h
    exact ⟨dyn_sound h.1.1.1, optP31_sound h.1.1.2, optP31_sound h.1.2, optP31_sound h.2⟩
  | vp8 pt a b =>
    simp only [validFormatB, Bool.and_eq_true] at h
    exact ⟨dyn_sound h.1.1, optP31_sound h.1.2, optP31_sound h.2⟩
  | h265 pt vps sps pps mdd =>
    simp only [validFormatB, Bool.and_eq_true] at h
    refine ⟨dyn_sound h.1.1.1.1, p31_sound h.1.1.1.2, ?_, ?_, ?_⟩
    · intro b hb; subst hb; exact noAnnexB_sound h.1.1.2
    · intro b hb; subst hb
      have := h.1.2; simp only [optB, Bool.and_eq_true] at this
      exact ⟨noAnnexB_sound this.1, this.2⟩
    · intro b hb; subst hb
      have := h.2; simp only [optB, Bool.and_eq_true] at this
      exact ⟨noAnnexB_sound this.1, this.2⟩
  | h264 pt sps pps pm =>
    simp only [validFormatB, Bool.and_eq_true, Bool.or_eq_true, beq_iff_eq] at h
    refine ⟨?_, p31_sound h.1.2, ?_⟩
    · rcases h.1.1 with h' | h'
      · exact Or.inl (dyn_sound h')
      · exact Or.inr h'
    · have h3 := h.2
      cases sps <;> cases pps <;> simp only [Bool.and_eq_true] at h3
      · exact Or.inl ⟨rfl, rfl⟩
      · cases h3
      · cases h3
      · exact Or.inr ⟨_, _, rfl, rfl, noAnnexB_sound h3.1.1, noAnnexB_sound h3.1.2, h3.2⟩
  | mpeg4video pt plid cfg =>
    simp only [validFormatB, Bool.and_eq_true] at h
    refine ⟨dyn_sound h.1.1, p31_sound h.1.2, ?_⟩
    intro c hc; subst hc; exact h.2
  | opus pt ch =>
    simp only [validFormatB, Bool.and_eq_true, decide_eq_true_eq] at h
    exact ⟨dyn_sound h.1.1, h.1.2, p31_sound h.2⟩
  | vorbis pt r ch cfg =>
    simp only [validFormatB, Bool.and_eq_true] at h
    exact ⟨dyn_sound h.1.1.1, pos31_sound h.1.1.2, pos31_sound h.1.2, h.2⟩
  | mpeg4audio pt plid c sl il idl =>
    simp only [validFormatB, Bool.and_eq_true, decide_eq_true_eq, beq_iff_eq] at h
    obtain ⟨⟨⟨⟨⟨⟨⟨⟨h1, h2⟩, h3⟩, h4⟩, h5⟩, h6⟩, h7⟩, h8⟩, h9⟩ := h
    exact ⟨dyn_sound h1, h2, p31_sound h3, h4, h5, h6, h7, h8, p31_sound h9⟩
  | latm pt plid br cp smc sbr =>
    simp only [validFormatB, Bool.and_eq_true] at h
    refine ⟨dyn_sound h.1.1.1, p31_sound h.1.1.2, optP31_sound h.1.2, ?_⟩
    have h4 := h.2
    cases cp with
    | true =>
      simp only [if_true] at h4 ⊢
      cases smc with
      | none => rfl
      | some s => simp at h4
    | false =>
      simp only [Bool.false_eq_true, if_false] at h4 ⊢
      cases smc with
      | none => cases h4
      | some s =>
        simp only [Bool.and_eq_true, beq_iff_eq] at h4
        exact ⟨s, rfl, h4.1.1, h4.1.2, p31_sound h4.2⟩
  | ac3 pt r ch =>
    simp only [validFormatB, Bool.and_eq_true] at h
    exact ⟨dyn_sound h.1.1, pos31_sound h.1.2, pos31_sound h.2⟩
  | speex pt r v =>
    simp only [validFormatB, Bool.and_eq_true] at h
    exact ⟨dyn_sound h.1, pos31_sound h.2⟩
  | g726 pt br be =>
    simp only [validFormatB, Bool.and_eq_true, Bool.or_eq_true, beq_iff_eq] at h
    refine ⟨dyn_sound h.1, ?_⟩
    rcases h.2 with ((h' | h') | h') | h'
    · exact Or.inl h'
    · exact Or.inr (Or.inl h')
    · exact Or.inr (Or.inr (Or.inl h'))
    · exact Or.inr (Or.inr (Or.inr h'))
  | g711 pt mu r ch =>
    simp only [validFormatB, Bool.and_eq_true, Bool.or_eq_true, beq_iff_eq, Bool.not_eq_true'] at h
    rcases h with (h' | h') | h'
    · exact Or.inl ⟨h'.1.1.1, h'.1.1.2, h'.1.2, h'.2⟩
    · exact Or.inr (Or.inl ⟨h'.1.1.1, h'.1.1.2, h'.1.2, h'.2⟩)
    · exact Or.inr (Or.inr ⟨dyn_sound h'.1.1, pos31_sound h'.1.2, pos31_sound h'.2⟩)
  | lpcm pt d r ch =>
    simp only [validFormatB, Bool.and_eq_true, Bool.or_eq_true, beq_iff_eq] at h
    rcases h with (h' | h') | h'
    · exact Or.inl ⟨h'.1.1.1, h'.1.1.2, h'.1.2, h'.2⟩
    · exact Or.inr (Or.inl ⟨h'.1.1.1, h'.1.1.2, h'.1.2, h'.2⟩)
    · refine Or.inr (Or.inr ⟨dyn_sound h'.1.1.1, ?_, pos31_sound h'.1.2, pos31_sound h'.2⟩)
      rcases h'.1.1.2 with (h'' | h'') | h''
      · exact Or.inl h''
      · exact Or.inr (Or.inl h'')
      · exact Or.inr (Or.inr h'')
  | klv pt => exact dyn_sound (by simpa [validFormatB] using h)
  | mpeg1video => trivial
  | mjpeg => trivial
  | mpeg1audio => trivial
  | g722 => trivial
  | mpegts => trivial
  | generic pt rm fm clk =>
    simp only [validFormatB, Bool.and_eq_true, decide_eq_true_eq, beq_iff_eq, List.all_eq_true, Bool.or_eq_true,
      Bool.not_eq_true'] at h
    obtain ⟨⟨⟨⟨⟨⟨⟨h1, h2⟩, h3⟩, h4⟩, h5⟩, h6⟩, h7⟩, h8⟩ := h
    refine ⟨h1, h2, h3, ?_, ?_, ?_, ?_, keysSortedB_sound h8⟩
    · intro c hc
      have := h4 c hc
      refine ⟨this.1, ?_⟩
      intro hs
      rcases this.2 with h' | h'
      · rw [hs] at h'; cases h'
      · exact h'
    · intro c hc; rw [hc] at h5; simpa using h5
    · intro c hc; rw [hc] at h6; simpa using h6
    · intro kv hkv
      have := h7 kv hkv
      exact ⟨genKeyOkB_sound this.1, genValOkB_sound this.2⟩

theorem validMediaB_sound (O : Oracle) (m : Media) (h : validMediaB O m = true) : ValidMedia O m := by
  simp only [validMediaB, Bool.and_eq_true, List.all_eq_true, Bool.not_eq_true', bne_iff_ne, ne_eq] at h
  obtain ⟨⟨⟨⟨⟨⟨⟨h1, h2⟩, h3⟩, h4⟩, h5⟩, h6⟩, h7⟩, h8⟩ := h
  exact
    { type_ok := h1
      type_chars := fun c hc => ⟨(h2 c hc).1, (h2 c hc).2⟩
      id_alnum := h3
      keymgmt_ok := by
        intro k hk
        rw [hk] at h4
        simpa [optB] using h4
      control_ok := fun c hc => ⟨(h5 c hc).1.1, (h5 c hc).1.2, (h5 c hc).2⟩
      formats_ne := by intro e; rw [e] at h6; simp at h6
      formats_ok := fun f hf => validFormatB_sound O m.typ f (h7 f hf)
      pts_distinct := distinctBy_sound Format.pt h8 }

/-- **the executable validity check is sound** -/
theorem validSessionB_sound (O : Oracle) (s : Session) (h : validSessionB O s = true) : ValidSession O s := by
  simp only [validSessionB, Bool.and_eq_true, List.all_eq_true, Bool.not_eq_true', bne_iff_ne, ne_eq, Bool.or_eq_true,
    List.any_eq_true, beq_iff_eq] at h
  obtain ⟨⟨⟨⟨⟨⟨⟨h1, h2⟩, h3⟩, h4⟩, h5⟩, h6⟩, h7⟩, h8⟩ := h
  exact
    { title_ok := fun c hc => ⟨(h1 c hc).1, (h1 c hc).2⟩
      title_not_blank := h2
      keymgmt_ok := by
        intro k hk
        rw [hk] at h3
        simpa [optB] using h3
      medias_ne := by intro e; rw [e] at h4; simp at h4
      medias_ok := fun m hm => validMediaB_sound O m (h5 m hm)
      ids := by
        rcases h6 with h' | h'
        · exact Or.inl (fun m hm => List.isEmpty_iff.mp (h' m hm))
        · refine Or.inr ⟨?_, distinctBy_sound Media.id h'.2⟩
          intro m hm e
          have := h'.1 m hm
          rw [e] at this
          simp at this
      not_all_back := by
        obtain ⟨m, hm, hb⟩ := h7
        exact ⟨m, hm, by simpa using hb⟩
      fec_ok := by
        intro g hg
        have := h8 g hg
        refine ⟨by intro e; rw [e] at this; simp at this, ?_⟩
        intro id hid
        have h' := this.2 id hid
        exact ⟨h'.1, h'.2⟩ }

end Rtsp.Sdp
