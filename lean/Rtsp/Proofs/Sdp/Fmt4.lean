import Rtsp.Proofs.Sdp.Fmt3
/-
Per-format round trips, part 4: MPEG-4 audio (RFC 3640 and LATM).
-/
namespace Rtsp.Sdp
open Rtsp.Facts.Sdp Format

theorem cc_mpeg4audio (pt plid : Nat) (c : Asc) (sl il idl : Nat) :
    (getCodecAndClock (mpeg4audio pt plid c sl il idl).rtpmap).1 = b!"mpeg4-generic" := by
  simp [Format.rtpmap, getCodecAndClock, cut, toLower, lowerB, isUpper]

theorem rt_mpeg4audio (O : Oracle) (mt : Str) (pt plid : Nat) (c : Asc) (sl il idl : Nat)
    (h : ValidFormat O mt (.mpeg4audio pt plid c sl il idl)) :
    unmarshalCtx O (ctxOf mt (.mpeg4audio pt plid c sl il idl)) = .ok (.mpeg4audio pt plid c sl il idl) := by
  obtain ⟨⟨h1, h2⟩, hp1, hp, hasc, hsl1, hsl, hil, hidl, _⟩ := h
  have hsel : ∀ k, select b!"mpeg4-generic" k pt = .mpeg4audio := by intro k; simp [select, dynLo, dynHi, h1, h2]
  have hp0 : plid ≠ 0 := by omega
  have hsl0 : sl > 0 := by omega
  have hsl31 : sl < 2 ^ 31 := by omega
  have hil31 : il < 2 ^ 31 := by omega
  have hidl31 : idl < 2 ^ 31 := by omega
  have hsln : ¬ (sl > 100) := by omega
  have hiln : ¬ (il > 100) := by omega
  have hidln : ¬ (idl > 100) := by omega
  have hsl00 : sl ≠ 0 := by omega
  simp only [unmarshalCtx, ctxOf, cc_mpeg4audio, Format.pt, hsel, unmarshalKind, Format.fmtp]
  by_cases hi : il > 0 <;> by_cases hd : idl > 0 <;>
    simp [fmtpMpeg4audio, hi, hd, hp0, hsl0, lookupLast, optUint31, toLower, lowerB, isUpper, paramBits, aacMaxLength,
      parseUint_dec hp, parseUint_dec hsl31, parseUint_dec hil31, parseUint_dec hidl31, hexDecode_hexEncode, hasc,
      hsln, hiln, hidln, hsl00] <;> omega

theorem cc_latm_cp (pt plid : Nat) (br : Option Nat) (smc : Option Smc) (sbr : Option Bool) :
    getCodecAndClock (latm pt plid br true smc sbr).rtpmap = (b!"mp4a-latm", b!"90000/1") := by rfl

theorem cc_latm_cfg (pt plid : Nat) (br : Option Nat) (s : Smc) (sbr : Option Bool) :
    (getCodecAndClock (latm pt plid br false (some s) sbr).rtpmap).1 = b!"mp4a-latm" := by
  simp [Format.rtpmap, getCodecAndClock, cut, toLower, lowerB, isUpper]

theorem rt_latm (O : Oracle) (mt : Str) (pt plid : Nat) (br : Option Nat) (cp : Bool) (smc : Option Smc) (sbr : Option Bool)
    (h : ValidFormat O mt (.latm pt plid br cp smc sbr)) :
    unmarshalCtx O (ctxOf mt (.latm pt plid br cp smc sbr)) = .ok (.latm pt plid br cp smc sbr) := by
  obtain ⟨⟨h1, h2⟩, hp, hbr, hcfg⟩ := h
  have hsel : ∀ k, select b!"mp4a-latm" k pt = .latm := by intro k; simp [select, dynLo, dynHi, h1, h2]
  cases cp with
  | true =>
    simp only [if_true] at hcfg
    subst hcfg
    simp only [unmarshalCtx, ctxOf, cc_latm_cp, Format.pt, hsel, unmarshalKind, Format.fmtp]
    cases br <;> cases sbr with
    | none =>
      simp_all [fmtpLatm, optKV, lookupLast, optUint31, toLower, lowerB, isUpper, paramBits, parseUint_dec hp, OptP31, P31,
        parseUint_dec]
    | some b =>
      cases b <;>
      simp_all [fmtpLatm, optKV, boolStr, lookupLast, optUint31, toLower, lowerB, isUpper, paramBits, parseUint_dec hp, OptP31, P31,
        parseUint_dec]
  | false =>
    simp only [Bool.false_eq_true, if_false] at hcfg
    obtain ⟨s, rfl, hs, hsame, _⟩ := hcfg
    simp only [unmarshalCtx, ctxOf, cc_latm_cfg, Format.pt, hsel, unmarshalKind, Format.fmtp]
    cases br <;> cases sbr with
    | none =>
      simp_all [fmtpLatm, optKV, lookupLast, optUint31, toLower, lowerB, isUpper, paramBits, parseUint_dec hp, OptP31, P31,
        parseUint_dec, hexDecode_hexEncode]
    | some b =>
      cases b <;>
      simp_all [fmtpLatm, optKV, boolStr, lookupLast, optUint31, toLower, lowerB, isUpper, paramBits, parseUint_dec hp, OptP31, P31,
        parseUint_dec, hexDecode_hexEncode]

end Rtsp.Sdp
