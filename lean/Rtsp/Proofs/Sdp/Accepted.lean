import Rtsp.Proofs.Sdp.Session
/-
Postconditions of `Session.Unmarshal2`: what holds of every accepted description, for any input document
and any oracle.
-/
namespace Rtsp.Sdp

/-- structural facts about every description the parser accepts -/
structure Accepted (s : Session) : Prop where
  medias_ne : s.medias ≠ []
  formats_ne : ∀ m ∈ s.medias, m.formats ≠ []
  ids_alnum : ∀ m ∈ s.medias, ∀ c ∈ m.id, isAlnum c = true
  ids : (∀ m ∈ s.medias, m.id = []) ∨ ((∀ m ∈ s.medias, m.id ≠ []) ∧ s.medias.Pairwise fun a b => a.id ≠ b.id)
  not_all_back : ∃ m ∈ s.medias, m.backChannel = false
  fec : ∀ g ∈ s.fecGroups, g ≠ [] ∧ ∀ id ∈ g, ∃ m ∈ s.medias, m.id = id
  title_not_blank : s.title ≠ [32]

theorem unmarshalMedia_post {O : Oracle} {md : MediaD} {m : Media} (h : unmarshalMedia O md = .ok m) :
    m.formats ≠ [] ∧ (∀ c ∈ m.id, isAlnum c = true) ∧ m.typ = md.media := by
  unfold unmarshalMedia at h
  by_cases hid : (!(getAttribute md.attrs b!"mid").isEmpty && !(getAttribute md.attrs b!"mid").all isAlnum) = true
  · simp only [hid, if_true] at h; cases h
  · simp only [hid, Bool.false_eq_true, if_false] at h
    cases hk : unmarshalKeyMgmt O md.attrs with
    | err => rw [hk] at h; cases h
    | unm => rw [hk] at h; cases h
    | ok km =>
      rw [hk] at h
      simp only [Res.bind] at h
      cases hf : unmarshalFormats O md md.fmts with
      | err => rw [hf] at h; cases h
      | unm => rw [hf] at h; cases h
      | ok fs =>
        rw [hf] at h
        simp only at h
        by_cases hne : fs.isEmpty = true
        · simp only [hne, if_true] at h; cases h
        · simp only [hne, Bool.false_eq_true, if_false, Res.ok.injEq] at h
          subst h
          refine ⟨?_, ?_, rfl⟩
          · intro e; simp only at e; rw [e] at hne; simp at hne
          · intro c hc
            simp only at hc
            simp only [Bool.and_eq_true, Bool.not_eq_true', not_and, Bool.not_eq_false] at hid
            by_cases he : (getAttribute md.attrs b!"mid").isEmpty = true
            · rw [List.isEmpty_iff.mp he] at hc; simp at hc
            · have := hid (by simpa using he)
              exact List.all_eq_true.mp this c hc

theorem unmarshalMedias_post {O : Oracle} (acc : List Media) (mds : List MediaD) (ms : List Media)
    (h : unmarshalMedias O acc mds = .ok ms) :
    ∃ new, ms = acc ++ new ∧ new.length = mds.length
      ∧ (∀ m ∈ new, m.formats ≠ [] ∧ ∀ c ∈ m.id, isAlnum c = true)
      ∧ ((acc.Pairwise fun a b => a.id ≠ [] → b.id ≠ [] → a.id ≠ b.id) → (ms.Pairwise fun a b => a.id ≠ [] → b.id ≠ [] → a.id ≠ b.id)) := by
  induction mds generalizing acc with
  | nil =>
    simp only [unmarshalMedias, Res.ok.injEq] at h
    subst h
    exact ⟨[], by simp, rfl, by simp, fun hp => hp⟩
  | cons md rest ih =>
    simp only [unmarshalMedias] at h
    cases hm : unmarshalMedia O md with
    | err => rw [hm] at h; cases h
    | unm => rw [hm] at h; cases h
    | ok m =>
      rw [hm] at h
      simp only at h
      split at h
      · cases h
      · rename_i hdup
        obtain ⟨new, hms, hlen, hnew, hpw⟩ := ih (acc ++ [m]) h
        have hpost := unmarshalMedia_post hm
        refine ⟨m :: new, by simp [hms], by simp [hlen], ?_, ?_⟩
        · intro x hx
          simp only [List.mem_cons] at hx
          rcases hx with rfl | hx
          · exact ⟨hpost.1, hpost.2.1⟩
          · exact hnew x hx
        · intro hacc
          apply hpw
          rw [List.pairwise_append]
          refine ⟨hacc, by simp, ?_⟩
          intro a ha b hb
          simp only [List.mem_singleton] at hb
          subst hb
          intro _ hbne e
          simp only [Bool.and_eq_true, Bool.not_eq_true', not_and, List.any_eq_true, decide_eq_true_eq,
            not_exists] at hdup
          have hne : b.id.isEmpty = false := by
            cases hid : b.id with
            | nil => exact absurd hid hbne
            | cons _ _ => rfl
          exact hdup hne a ha e

theorem fecGroupsOf_post (ms : List Media) (attrs : List Attr) (gs : List (List Str)) (h : fecGroupsOf ms attrs = some gs) :
    ∀ g ∈ gs, g ≠ [] ∧ ∀ id ∈ g, ∃ m ∈ ms, m.id = id := by
  induction attrs generalizing gs with
  | nil => simp only [fecGroupsOf, Option.some.injEq] at h; subst h; simp
  | cons a rest ih =>
    simp only [fecGroupsOf] at h
    split at h
    · split at h
      · rename_i hall
        cases hr : fecGroupsOf ms rest with
        | none => rw [hr] at h; cases h
        | some gs' =>
          rw [hr] at h
          simp only [Option.map_some, Option.some.injEq] at h
          subst h
          intro g hg
          simp only [List.mem_cons] at hg
          rcases hg with rfl | hg
          · refine ⟨splitOn_ne_nil _ _, ?_⟩
            intro id hid
            have := List.all_eq_true.mp hall id hid
            simp only [List.any_eq_true, decide_eq_true_eq] at this
            exact this
          · exact ih gs' hr g hg
      · cases h
    · exact ih gs h

/-- **Postconditions of `Session.Unmarshal2`** (any document, any oracle): an accepted description has at
least one media; every media has at least one format and an alphanumeric (or empty) id; ids are either all
absent or all present and pairwise distinct; at least one media is not a back channel; every FEC group is
non-empty and names existing media ids; the title is never the single blank. -/
theorem unmarshalDoc_post (O : Oracle) (d : Doc) (s : Session) (h : unmarshalDoc O d = .ok s) : Accepted s := by
  unfold unmarshalDoc at h
  cases hk : unmarshalKeyMgmt O d.attrs with
  | err => rw [hk] at h; cases h
  | unm => rw [hk] at h; cases h
  | ok km =>
    rw [hk] at h
    simp only [Res.bind] at h
    split at h
    · cases h
    · rename_i hmne
      cases hm : unmarshalMedias O [] d.medias with
      | err => rw [hm] at h; cases h
      | unm => rw [hm] at h; cases h
      | ok ms =>
        rw [hm] at h
        simp only at h
        split at h
        · cases h
        · rename_i hpart
          obtain ⟨new, hms, hlen, hnew, hpw⟩ := unmarshalMedias_post [] d.medias ms hm
          simp only [List.nil_append] at hms
          have hms2 : new = ms := hms.symm
          subst hms2
          have hne : new ≠ [] := by
            intro e
            rw [e] at hlen
            have : d.medias = [] := List.eq_nil_of_length_eq_zero hlen.symm
            rw [this] at hmne; simp at hmne
          have hpair := hpw List.Pairwise.nil
          -- the list after the back-channel unmarking
          generalize hms' : (if new.all (·.backChannel) then new.map ({ · with backChannel := false }) else new) = ms' at h
          have hid_eq : ms'.map (·.id) = new.map (·.id) := by
            subst hms'; split
            · simp [List.map_map, Function.comp_def]
            · rfl
          have hfm_eq : ms'.map (·.formats) = new.map (·.formats) := by
            subst hms'; split
            · simp [List.map_map, Function.comp_def]
            · rfl
          split at h
          · cases h
          · rename_i gs hgs
            simp only [Res.ok.injEq] at h
            subst h
            have hmem_id : ∀ m ∈ ms', ∃ n ∈ new, n.id = m.id ∧ n.formats = m.formats := by
              intro m hm'
              subst hms'
              split at hm'
              · simp only [List.mem_map] at hm'
                obtain ⟨n, hn, rfl⟩ := hm'
                exact ⟨n, hn, rfl, rfl⟩
              · exact ⟨m, hm', rfl, rfl⟩
            have hmem_new : ∀ n ∈ new, ∃ m ∈ ms', m.id = n.id := by
              intro n hn
              subst hms'
              split
              · exact ⟨{ n with backChannel := false }, List.mem_map.mpr ⟨n, hn, rfl⟩, rfl⟩
              · exact ⟨n, hn, rfl⟩
            have hlen' : ms'.length = new.length := by
              have := congrArg List.length hid_eq; simpa using this
            refine
              { medias_ne := by
                  intro e; simp only at e
                  rw [e] at hlen'; exact hne (List.eq_nil_of_length_eq_zero hlen'.symm)
                formats_ne := by
                  intro m hm'
                  obtain ⟨n, hn, _, hf⟩ := hmem_id m hm'
                  rw [← hf]; exact (hnew n hn).1
                ids_alnum := by
                  intro m hm'
                  obtain ⟨n, hn, hi, _⟩ := hmem_id m hm'
                  rw [← hi]; exact (hnew n hn).2
                ids := ?_
                not_all_back := ?_
                fec := fecGroupsOf_post ms' d.attrs gs hgs
                title_not_blank := by
                  simp only
                  split
                  · decide
                  · rename_i hn; exact hn }
            · -- ids: all empty, or all present and distinct
              simp only [Bool.and_eq_true, List.any_eq_true, Bool.not_eq_true', not_and, not_exists] at hpart
              by_cases hany : ∃ n ∈ new, n.id.isEmpty = false
              · right
                have hall : ∀ n ∈ new, n.id ≠ [] := by
                  intro n hn e
                  obtain ⟨x, hx, hxe⟩ := hany
                  exact hpart ⟨x, hx, hxe⟩ n hn (by simp [e])
                refine ⟨?_, ?_⟩
                · intro m hm'
                  obtain ⟨n, hn, hi, _⟩ := hmem_id m hm'
                  rw [← hi]; exact hall n hn
                · have hp2 : (new.map (·.id)).Pairwise (· ≠ ·) := by
                    rw [List.pairwise_map]
                    exact hpair.imp_of_mem (fun {a b} ha hb hab => hab (hall a ha) (hall b hb))
                  rw [← hid_eq, List.pairwise_map] at hp2
                  exact hp2
              · left
                intro m hm'
                obtain ⟨n, hn, hi, _⟩ := hmem_id m hm'
                rw [← hi]
                have : ¬ n.id.isEmpty = false := fun e => hany ⟨n, hn, e⟩
                simpa using this
            · -- not all back channels
              subst hms'
              by_cases hall : new.all (·.backChannel) = true
              · simp only [hall, if_true]
                cases hnw : new with
                | nil => exact absurd hnw hne
                | cons n ns => exact ⟨{ n with backChannel := false }, by simp, rfl⟩
              · simp only [hall, Bool.false_eq_true, if_false]
                have hall' : new.all (·.backChannel) = false := by simpa using hall
                rw [List.all_eq_false] at hall'
                obtain ⟨n, hn, hb⟩ := hall'
                exact ⟨n, hn, by simpa using hb⟩

/-- the same for the whole parser -/
theorem unmarshal_post (O : Oracle) (t : Str) (s : Session) (h : unmarshal O t = .ok s) : Accepted s := by
  unfold unmarshal at h
  cases hp : parse t with
  | err => rw [hp] at h; cases h
  | unm => rw [hp] at h; cases h
  | ok d => rw [hp] at h; exact unmarshalDoc_post O d s h

end Rtsp.Sdp
