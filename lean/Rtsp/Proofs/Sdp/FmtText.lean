import Rtsp.Proofs.Sdp.FmtAll
import Rtsp.Proofs.Sdp.DocRT
/-
Text shape of what a valid format writes: rtpmap and fmtp entries are made of printable characters
that the attribute parsers do not treat specially, and fmtp keys are sorted.
-/
namespace Rtsp.Sdp
open Rtsp.Facts.Sdp Format

/-- printable ASCII other than blank and `;` -/
def plainCh (c : UInt8) : Bool := 33 ≤ c && c ≤ 126 && c != 59
/-- characters of fmtp keys: plain, not `=` -/
def keyCh (c : UInt8) : Bool := plainCh c && c != 61

def Plain (s : Str) : Prop := ∀ c ∈ s, plainCh c = true
def KeyStr (s : Str) : Prop := s ≠ [] ∧ ∀ c ∈ s, keyCh c = true
instance (s : Str) : Decidable (Plain s) := inferInstanceAs (Decidable (∀ c ∈ s, plainCh c = true))
instance (s : Str) : Decidable (KeyStr s) := inferInstanceAs (Decidable (s ≠ [] ∧ ∀ c ∈ s, keyCh c = true))

theorem plainCh_spec {c : UInt8} (h : plainCh c = true) :
    isAscii c = true ∧ isSpace c = false ∧ c ≠ 59 ∧ c ≠ 10 ∧ c ≠ 13 ∧ c ≠ 32 := by
  simp only [plainCh, Bool.and_eq_true, decide_eq_true_eq, bne_iff_ne, ne_eq, UInt8.le_iff_toNat_le] at h
  obtain ⟨⟨h1, h2⟩, h3⟩ := h
  have e33 : (33 : UInt8).toNat = 33 := rfl
  have e126 : (126 : UInt8).toNat = 126 := rfl
  rw [e33] at h1; rw [e126] at h2
  refine ⟨?_, ?_, h3, ?_, ?_, ?_⟩
  · simp only [isAscii, decide_eq_true_eq, UInt8.lt_iff_toNat_lt]
    have : (128 : UInt8).toNat = 128 := rfl
    omega
  · cases hs : isSpace c with
    | false => rfl
    | true => rw [isSpace_iff] at hs; omega
  · intro e; subst e; simp at h1
  · intro e; subst e; simp at h1
  · intro e; subst e; simp at h1

theorem isDigit_plain {c : UInt8} (h : isDigit c = true) : plainCh c = true ∧ keyCh c = true := by
  rw [isDigit_iff] at h
  have e33 : (33 : UInt8).toNat = 33 := rfl
  have e126 : (126 : UInt8).toNat = 126 := rfl
  have e59 : (59 : UInt8).toNat = 59 := rfl
  have e61 : (61 : UInt8).toNat = 61 := rfl
  simp only [keyCh, plainCh, Bool.and_eq_true, decide_eq_true_eq, bne_iff_ne, ne_eq, UInt8.le_iff_toNat_le, e33, e126,
    ← UInt8.toNat_inj, e59, e61]
  omega

theorem plain_dec (n : Nat) : Plain (dec n) := fun _ hc => (isDigit_plain (mem_dec_isDigit hc)).1

theorem isB64_plain : ∀ c : UInt8, isB64 c = true → plainCh c = true := by
  intro c h
  have e33 : (33 : UInt8).toNat = 33 := rfl
  have e126 : (126 : UInt8).toNat = 126 := rfl
  simp only [isB64, isAlnum, isDigit, isUpper, isLower, Bool.or_eq_true, Bool.and_eq_true, decide_eq_true_eq, beq_iff_eq,
    UInt8.le_iff_toNat_le, ← UInt8.toNat_inj] at h
  simp only [plainCh, Bool.and_eq_true, decide_eq_true_eq, bne_iff_ne, ne_eq, UInt8.le_iff_toNat_le, e33, e126, ← UInt8.toNat_inj]
  have : (48 : UInt8).toNat = 48 := rfl
  have : (57 : UInt8).toNat = 57 := rfl
  have : (65 : UInt8).toNat = 65 := rfl
  have : (90 : UInt8).toNat = 90 := rfl
  have : (97 : UInt8).toNat = 97 := rfl
  have : (122 : UInt8).toNat = 122 := rfl
  have : (43 : UInt8).toNat = 43 := rfl
  have : (47 : UInt8).toNat = 47 := rfl
  have : (61 : UInt8).toNat = 61 := rfl
  have : (59 : UInt8).toNat = 59 := rfl
  omega

theorem plain_b64 (b : Bytes) : Plain (b64 b) := fun c hc => isB64_plain c (mem_b64_isB64 hc)

theorem isHexCh_plain : ∀ c : UInt8, isHexCh c = true → plainCh c = true := by
  intro c h
  have e33 : (33 : UInt8).toNat = 33 := rfl
  have e126 : (126 : UInt8).toNat = 126 := rfl
  simp only [isHexCh, isDigit, Bool.or_eq_true, Bool.and_eq_true, decide_eq_true_eq, UInt8.le_iff_toNat_le] at h
  simp only [plainCh, Bool.and_eq_true, decide_eq_true_eq, bne_iff_ne, ne_eq, UInt8.le_iff_toNat_le, e33, e126, ← UInt8.toNat_inj]
  have : (48 : UInt8).toNat = 48 := rfl
  have : (57 : UInt8).toNat = 57 := rfl
  have : (65 : UInt8).toNat = 65 := rfl
  have : (70 : UInt8).toNat = 70 := rfl
  have : (97 : UInt8).toNat = 97 := rfl
  have : (102 : UInt8).toNat = 102 := rfl
  have : (59 : UInt8).toNat = 59 := rfl
  omega

theorem plain_hex (b : Bytes) : Plain (hexEncode b) := fun c hc => isHexCh_plain c (mem_hexEncode hc)
theorem plain_hexU (b : Bytes) : Plain (hexEncodeUpper b) := fun c hc => isHexCh_plain c (mem_hexEncodeUpper hc)

theorem plain_append {a b : Str} (ha : Plain a) (hb : Plain b) : Plain (a ++ b) := by
  intro c hc
  simp only [List.mem_append] at hc
  rcases hc with hc | hc
  · exact ha c hc
  · exact hb c hc

theorem plain_cons {x : UInt8} {b : Str} (hx : plainCh x = true) (hb : Plain b) : Plain (x :: b) := by
  intro c hc
  simp only [List.mem_cons] at hc
  rcases hc with rfl | hc
  · exact hx
  · exact hb c hc

/-- what the attribute layer needs of a value: no `;`, no line break, ASCII, white space only as inner blanks -/
structure ValOk (v : Str) : Prop where
  nosemi : ∀ c ∈ v, c ≠ 59
  ascii : Ascii v
  nonl : NoNL v
  last : ∀ c, v.getLast? = some c → isSpace c = false

theorem valOk_of_plain {v : Str} (h : Plain v) : ValOk v where
  nosemi := fun c hc => (plainCh_spec (h c hc)).2.2.1
  ascii := fun c hc => (plainCh_spec (h c hc)).1
  nonl := fun c hc => ⟨(plainCh_spec (h c hc)).2.2.2.1, (plainCh_spec (h c hc)).2.2.2.2.1⟩
  last := fun c hc => (plainCh_spec (h c (List.mem_of_getLast? hc))).2.1

/-- what the attribute layer needs of a key -/
structure KeyOk (k : Str) : Prop where
  ne : k ≠ []
  chars : ∀ c ∈ k, c ≠ 59 ∧ c ≠ 61 ∧ c ≠ 32 ∧ c ≠ 10 ∧ c ≠ 13 ∧ isAscii c = true

theorem keyOk_of_keyStr {k : Str} (h : KeyStr k) : KeyOk k where
  ne := h.1
  chars := fun c hc => by
    have hk := h.2 c hc
    simp only [keyCh, Bool.and_eq_true, bne_iff_ne, ne_eq] at hk
    have hp := plainCh_spec hk.1
    exact ⟨hp.2.2.1, hk.2, hp.2.2.2.2.2, hp.2.2.2.1, hp.2.2.2.2.1, hp.1⟩

/-- the text shape of a format's attributes -/
structure FmtTextOk (f : Format) : Prop where
  pt_lt : f.pt < 256
  rtpmap_ascii : Ascii f.rtpmap
  rtpmap_nonl : NoNL f.rtpmap
  rtpmap_last : ∀ c, f.rtpmap.getLast? = some c → isSpace c = false
  keys : ∀ kv ∈ f.fmtp, KeyOk kv.1
  vals : ∀ kv ∈ f.fmtp, ValOk kv.2
  sorted : KeysSorted f.fmtp


/-- one fmtp entry with a literal key and a plain value -/
def EntryOk (kv : Str × Str) : Prop := KeyStr kv.1 ∧ Plain kv.2

theorem entries_nil : ∀ kv ∈ ([] : List (Str × Str)), EntryOk kv := by simp
theorem entries_cons {kv : Str × Str} {l : List (Str × Str)} (h : EntryOk kv) (hl : ∀ x ∈ l, EntryOk x) :
    ∀ x ∈ kv :: l, EntryOk x := by
  intro x hx
  simp only [List.mem_cons] at hx
  rcases hx with rfl | hx
  · exact h
  · exact hl x hx
theorem entries_cons' {k v : Str} {l : List (Str × Str)} (hk : KeyStr k) (hv : Plain v) (hl : ∀ x ∈ l, EntryOk x) :
    ∀ x ∈ (k, v) :: l, EntryOk x := entries_cons ⟨hk, hv⟩ hl
theorem entries_append {a b : List (Str × Str)} (ha : ∀ x ∈ a, EntryOk x) (hb : ∀ x ∈ b, EntryOk x) :
    ∀ x ∈ a ++ b, EntryOk x := by
  intro x hx
  simp only [List.mem_append] at hx
  rcases hx with hx | hx
  · exact ha x hx
  · exact hb x hx

theorem entries_optKV (k : Str) (hk : KeyStr k) (o : Option Nat) : ∀ x ∈ optKV k o, EntryOk x := by
  cases o with
  | none => simp [optKV]
  | some n => exact entries_cons ⟨hk, plain_dec n⟩ entries_nil

theorem plain_nil : Plain [] := by intro c hc; simp at hc

/-- closes `Plain e` for `e` built from literals, `dec`, base64 / hex text, `++`, `::` and `if` -/
syntax "plain_tac" : tactic
macro_rules
  | `(tactic| plain_tac) => `(tactic| first
      | exact plain_nil
      | exact plain_dec _
      | exact plain_b64 _
      | exact plain_hex _
      | exact plain_hexU _
      | decide
      | (apply plain_append <;> plain_tac)
      | (apply plain_cons (by decide); plain_tac)
      | (split <;> plain_tac))

/-- a valid format other than Generic writes plain text -/
theorem plain_rtpmap (f : Format) (hg : ∀ pt rm fm clk, f ≠ .generic pt rm fm clk) : Plain f.rtpmap := by
  cases f with
  | generic pt rm fm clk => exact absurd rfl (hg pt rm fm clk)
  | _ => simp only [Format.rtpmap] <;> plain_tac


syntax "entries_tac" : tactic
macro_rules
  | `(tactic| entries_tac) => `(tactic| first
      | exact entries_nil
      | exact entries_optKV _ (by decide) _
      | (apply entries_append <;> entries_tac)
      | (apply entries_cons' (by decide) (by plain_tac); entries_tac)
      | (split <;> entries_tac))

theorem entries_fmtp (f : Format) (hg : ∀ pt rm fm clk, f ≠ .generic pt rm fm clk) : ∀ kv ∈ f.fmtp, EntryOk kv := by
  cases f with
  | generic pt rm fm clk => exact absurd rfl (hg pt rm fm clk)
  | _ =>
    simp only [Format.fmtp, fmtpH265, fmtpH264, h264ProfileLevelId, h264ParameterSets, fmtpMpeg4video, fmtpOpus,
      fmtpMpeg4audio, fmtpLatm, fmtpSpeex, boolStr] <;> entries_tac

theorem keysSorted_iff_map (l : List (Str × Str)) : KeysSorted l ↔ (l.map Prod.fst).Pairwise (fun a b => strLt a b = true) := by
  simp [KeysSorted, List.pairwise_map]

theorem sorted_fmtp (f : Format) (hg : ∀ pt rm fm clk, f ≠ .generic pt rm fm clk) : KeysSorted f.fmtp := by
  rw [keysSorted_iff_map]
  cases f with
  | generic pt rm fm clk => exact absurd rfl (hg pt rm fm clk)
  | av1 pt a b c => cases a <;> cases b <;> cases c <;> simp [Format.fmtp, optKV] <;> decide
  | vp9 pt a b c => cases a <;> cases b <;> cases c <;> simp [Format.fmtp, optKV] <;> decide
  | vp8 pt a b => cases a <;> cases b <;> simp [Format.fmtp, optKV] <;> decide
  | h265 pt v s p m =>
    by_cases hm : m = 0 <;> cases v <;> cases s <;> cases p <;> simp [Format.fmtp, fmtpH265, hm] <;> decide
  | h264 pt s p m =>
    by_cases hm : m = 0 <;> cases p <;> cases s with
    | none => simp [Format.fmtp, fmtpH264, h264ProfileLevelId, h264ParameterSets, hm] <;> decide
    | some x => by_cases h4 : x.length ≥ 4 <;> simp [Format.fmtp, fmtpH264, h264ProfileLevelId, h264ParameterSets, hm, h4] <;> decide
  | mpeg4video pt l c => cases c <;> simp [Format.fmtp, fmtpMpeg4video] <;> decide
  | opus pt ch =>
    simp only [Format.fmtp, fmtpOpus]
    repeat' split
    all_goals (simp <;> decide)
  | vorbis pt r ch c => simp [Format.fmtp]
  | mpeg4audio pt l c s i d =>
    by_cases hs : s > 0 <;> by_cases hi : i > 0 <;> by_cases hd : d > 0 <;>
      simp [Format.fmtp, fmtpMpeg4audio, hs, hi, hd] <;> decide
  | latm pt l b cp s e =>
    cases b <;> cases cp <;> cases s <;> cases e <;> simp [Format.fmtp, fmtpLatm, optKV] <;> decide
  | speex pt r v => cases v <;> simp [Format.fmtp, fmtpSpeex]
  | _ => simp [Format.fmtp]


theorem valid_pt_lt {O : Oracle} {mt : Str} {f : Format} (h : ValidFormat O mt f) : f.pt < 256 := by
  cases f <;> simp only [ValidFormat, Dyn] at h <;> simp only [Format.pt, Rtsp.Facts.Sdp.mpeg1VideoPT, Rtsp.Facts.Sdp.mjpegPT,
    Rtsp.Facts.Sdp.mpeg1AudioPT, Rtsp.Facts.Sdp.g722PT, Rtsp.Facts.Sdp.mpegtsPT] <;> omega

/-- **every valid format writes well-formed attribute text** -/
theorem fmtTextOk {O : Oracle} {mt : Str} {f : Format} (h : ValidFormat O mt f) : FmtTextOk f := by
  by_cases hg : ∀ pt rm fm clk, f ≠ .generic pt rm fm clk
  · have hr := valOk_of_plain (plain_rtpmap f hg)
    exact
      { pt_lt := valid_pt_lt h
        rtpmap_ascii := hr.ascii
        rtpmap_nonl := hr.nonl
        rtpmap_last := hr.last
        keys := fun kv hkv => keyOk_of_keyStr (entries_fmtp f hg kv hkv).1
        vals := fun kv hkv => valOk_of_plain (entries_fmtp f hg kv hkv).2
        sorted := sorted_fmtp f hg }
  · have : ∃ pt rm fm clk, f = .generic pt rm fm clk := by
      cases f <;> first | exact ⟨_, _, _, _, rfl⟩ | (exfalso; apply hg; intro pt rm fm clk e; cases e)
    obtain ⟨pt, rm, fm, clk, rfl⟩ := this
    obtain ⟨hpt, _, _, hrm, _, hlast, hkv, hsorted⟩ := h
    have nl_of : ∀ c : UInt8, (isSpace c = true → c = 32) → c ≠ 10 ∧ c ≠ 13 := by
      intro c hc
      constructor <;> (intro e; subst e; have := hc (by decide); revert this; decide)
    exact
      { pt_lt := hpt
        rtpmap_ascii := fun c hc => (hrm c hc).1
        rtpmap_nonl := fun c hc => nl_of c (hrm c hc).2
        rtpmap_last := hlast
        keys := fun kv hkv' =>
          { ne := (hkv kv hkv').1.1
            chars := fun c hc => by
              obtain ⟨h59, h61, _, hasc, hsp⟩ := (hkv kv hkv').1.2 c hc
              refine ⟨h59, h61, ?_, ?_, ?_, hasc⟩ <;> (intro e; subst e; revert hsp; decide) }
        vals := fun kv hkv' =>
          { nosemi := fun c hc => ((hkv kv hkv').2.1 c hc).1
            ascii := fun c hc => ((hkv kv hkv').2.1 c hc).2.1
            nonl := fun c hc => nl_of c ((hkv kv hkv').2.1 c hc).2.2
            last := fun c hc => by
              cases hs : isSpace c with
              | false => rfl
              | true =>
                have := ((hkv kv hkv').2.1 c (List.mem_of_getLast? hc)).2.2 hs
                subst this
                exact absurd hc (hkv kv hkv').2.2.2 }
        sorted := hsorted }

end Rtsp.Sdp
