import Rtsp.Proofs.Sdp.Str
import Rtsp.Proofs.AuthB64
import Rtsp.Model.Sdp.Formats
/-
Base64 and hexadecimal text: round trips and alphabets.
-/
namespace Rtsp.Sdp
open Rtsp.B64Std

/-- characters of base64 text: letters, digits, `+ / =` -/
def isB64 (c : UInt8) : Bool := isAlnum c || c == 43 || c == 47 || c == 61

theorem encChar_isB64 : ∀ n : Fin 64, isB64 (encChar n.val) = true := by decide

theorem mem_b64_isB64 {bs : List UInt8} {c : UInt8} (h : c ∈ Rtsp.B64Std.encode bs) : isB64 c = true := by
  fun_induction Rtsp.B64Std.encode bs with
  | case1 a b c' rest n ih =>
    have hn : n < 16777216 := by
      have := a.toNat_lt; have := b.toNat_lt; have := c'.toNat_lt; omega
    simp only [List.mem_cons] at h
    rcases h with rfl | rfl | rfl | rfl | h
    · exact encChar_isB64 ⟨n / 262144, by omega⟩
    · exact encChar_isB64 ⟨n / 4096 % 64, by omega⟩
    · exact encChar_isB64 ⟨n / 64 % 64, by omega⟩
    · exact encChar_isB64 ⟨n % 64, by omega⟩
    · exact ih h
  | case2 a b n =>
    have hn : n < 16777216 := by
      have := a.toNat_lt; have := b.toNat_lt; omega
    simp only [List.mem_cons, List.not_mem_nil, or_false] at h
    rcases h with rfl | rfl | rfl | rfl
    · exact encChar_isB64 ⟨n / 262144, by omega⟩
    · exact encChar_isB64 ⟨n / 4096 % 64, by omega⟩
    · exact encChar_isB64 ⟨n / 64 % 64, by omega⟩
    · decide
  | case3 a n =>
    have hn : n < 16777216 := by
      have := a.toNat_lt; omega
    simp only [List.mem_cons, List.not_mem_nil, or_false] at h
    rcases h with rfl | rfl | rfl | rfl
    · exact encChar_isB64 ⟨n / 262144, by omega⟩
    · exact encChar_isB64 ⟨n / 4096 % 64, by omega⟩
    · decide
    · decide
  | case4 => simp at h

theorem not_mem_b64 {c : UInt8} (hc : isB64 c = false) (bs : List UInt8) : c ∉ Format.b64 bs := by
  intro h; rw [Format.b64] at h; rw [mem_b64_isB64 h] at hc; cases hc

theorem b64dec_b64 (bs : List UInt8) : b64dec (Format.b64 bs) = some bs := decode_encode bs

/-! ### hex -/

theorem hexVal_lower : ∀ n : Fin 16, hexDigitVal (hexLowerDigit n.val) = some n.val := by decide
theorem hexVal_upper : ∀ n : Fin 16, hexDigitVal (hexUpperDigit n.val) = some n.val := by decide

theorem byte_recompose (b : UInt8) : UInt8.ofNat (b.toNat / 16 * 16 + b.toNat % 16) = b := by
  have : b.toNat / 16 * 16 + b.toNat % 16 = b.toNat := by omega
  rw [this]; simp

theorem hexDecode_hexEncode (bs : List UInt8) : hexDecode (hexEncode bs) = some bs := by
  induction bs with
  | nil => rfl
  | cons b bs ih =>
    have hb := b.toNat_lt
    have h1 := hexVal_lower ⟨b.toNat / 16, by omega⟩
    have h2 := hexVal_lower ⟨b.toNat % 16, by omega⟩
    simp only at h1 h2
    simp only [hexEncode, hexDecode, h1, h2, ih, byte_recompose]

theorem hexDecode_hexEncodeUpper (bs : List UInt8) : hexDecode (hexEncodeUpper bs) = some bs := by
  induction bs with
  | nil => rfl
  | cons b bs ih =>
    have hb := b.toNat_lt
    have h1 := hexVal_upper ⟨b.toNat / 16, by omega⟩
    have h2 := hexVal_upper ⟨b.toNat % 16, by omega⟩
    simp only at h1 h2
    simp only [hexEncodeUpper, hexDecode, h1, h2, ih, byte_recompose]

/-- characters of hexadecimal text -/
def isHexCh (c : UInt8) : Bool := isDigit c || (97 ≤ c && c ≤ 102) || (65 ≤ c && c ≤ 70)

theorem hexLower_isHex : ∀ n : Fin 16, isHexCh (hexLowerDigit n.val) = true := by decide
theorem hexUpper_isHex : ∀ n : Fin 16, isHexCh (hexUpperDigit n.val) = true := by decide

theorem mem_hexEncode {bs : List UInt8} {c : UInt8} (h : c ∈ hexEncode bs) : isHexCh c = true := by
  induction bs with
  | nil => simp [hexEncode] at h
  | cons b bs ih =>
    have hb := b.toNat_lt
    simp only [hexEncode, List.mem_cons] at h
    rcases h with rfl | rfl | h
    · exact hexLower_isHex ⟨b.toNat / 16, by omega⟩
    · exact hexLower_isHex ⟨b.toNat % 16, by omega⟩
    · exact ih h

theorem mem_hexEncodeUpper {bs : List UInt8} {c : UInt8} (h : c ∈ hexEncodeUpper bs) : isHexCh c = true := by
  induction bs with
  | nil => simp [hexEncodeUpper] at h
  | cons b bs ih =>
    have hb := b.toNat_lt
    simp only [hexEncodeUpper, List.mem_cons] at h
    rcases h with rfl | rfl | h
    · exact hexUpper_isHex ⟨b.toNat / 16, by omega⟩
    · exact hexUpper_isHex ⟨b.toNat % 16, by omega⟩
    · exact ih h

end Rtsp.Sdp
