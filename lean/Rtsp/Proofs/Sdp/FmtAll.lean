import Rtsp.Proofs.Sdp.Fmt5
/-
All 22 per-format round trips in one statement.
-/
namespace Rtsp.Sdp

theorem fmt_roundtrip_all (O : Oracle) (mt : Str) (f : Format) (h : ValidFormat O mt f) :
    unmarshalCtx O (ctxOf mt f) = .ok f := by
  cases f with
  | av1 pt a b c => exact rt_av1 O mt pt a b c h
  | vp9 pt a b c => exact rt_vp9 O mt pt a b c h
  | vp8 pt a b => exact rt_vp8 O mt pt a b h
  | h265 pt v s p m => exact rt_h265 O mt pt v s p m h
  | h264 pt s p m => exact rt_h264 O mt pt s p m h
  | mpeg4video pt l c => exact rt_mpeg4video O mt pt l c h
  | opus pt ch => exact rt_opus O mt pt ch h
  | vorbis pt r ch c => exact rt_vorbis O mt pt r ch c h
  | mpeg4audio pt l c s i d => exact rt_mpeg4audio O mt pt l c s i d h
  | latm pt l b c s e => exact rt_latm O mt pt l b c s e h
  | ac3 pt r ch => exact rt_ac3 O mt pt r ch h
  | speex pt r v => exact rt_speex O mt pt r v h
  | g726 pt b e => exact rt_g726 O mt pt b e h
  | g711 pt m r ch => exact rt_g711 O mt pt m r ch h
  | lpcm pt d r ch => exact rt_lpcm O mt pt d r ch h
  | klv pt => exact rt_klv O mt pt h
  | mpeg1video => exact rt_mpeg1video O mt
  | mjpeg => exact rt_mjpeg O mt
  | mpeg1audio => exact rt_mpeg1audio O mt
  | g722 => exact rt_g722 O mt
  | mpegts => exact rt_mpegts O mt
  | generic pt rm fm clk => exact rt_generic O mt pt rm fm clk h

end Rtsp.Sdp
