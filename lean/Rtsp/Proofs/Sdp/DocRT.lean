import Rtsp.Proofs.Sdp.Fields
/-
Text layer: `sdpunmarshaler.Unmarshal` applied to pion's `Marshal` output (for the fields that
`Session.Marshal` sets) returns the document.
-/
namespace Rtsp.Sdp

def Ascii (s : Str) : Prop := ∀ c ∈ s, isAscii c = true

theorem all_ascii {s : Str} (h : Ascii s) : s.all isAscii = true := by
  rw [List.all_eq_true]; exact h

/-- an attribute as `Media.Marshal` / `Session.Marshal` write it: non-empty key without `:`, one line, ASCII -/
structure WfAttr (a : Attr) : Prop where
  key_ne : a.key ≠ []
  key_nocolon : (58 : UInt8) ∉ a.key
  key_nonl : NoNL a.key
  val_nonl : NoNL a.val
  key_ascii : Ascii a.key
  val_ascii : Ascii a.val

/-- a media description as `Media.Marshal` writes it -/
structure WfMedia (m : MediaD) : Prop where
  type_ok : mediaTypeOk m.media = true
  type_nosp : NoSp m.media
  type_ascii : Ascii m.media
  protos_ne : m.protos ≠ []
  protos_ok : ∀ p ∈ m.protos, protoOk p = true
  fmts_ne : m.fmts ≠ []
  fmts_ok : ∀ f ∈ m.fmts, f ≠ [] ∧ NoSp f ∧ Ascii f
  attrs_ok : ∀ a ∈ m.attrs, WfAttr a

structure WfDoc (d : Doc) : Prop where
  name_nonl : NoNL d.name
  attrs_ok : ∀ a ∈ d.attrs, WfAttr a
  medias_ok : ∀ m ∈ d.medias, WfMedia m

/-! ### attributes -/

theorem indexOf_single_none {c : UInt8} {s : Str} (h : c ∉ s) : indexOf [c] s = none := by
  induction s with
  | nil => simp [indexOf]
  | cons x xs ih =>
    have hx : c ≠ x := fun e => h (by simp [e])
    have := ih (fun m => h (by simp [m]))
    simp [indexOf, List.isPrefixOf, hx, this]

theorem indexOf_single_append {c : UInt8} {a : Str} (b : Str) (h : c ∉ a) : indexOf [c] (a ++ c :: b) = some a.length := by
  induction a with
  | nil => simp [indexOf, List.isPrefixOf]
  | cons x xs ih =>
    have hx : c ≠ x := fun e => h (by simp [e])
    have := ih (fun m => h (by simp [m]))
    simp [indexOf, List.isPrefixOf, hx, this]

theorem parseAttr_render (a : Attr) (h : WfAttr a) : parseAttr (renderAttr a) = a := by
  obtain ⟨k, v⟩ := a
  have hk := h.key_ne
  have hc := h.key_nocolon
  simp only at hk hc
  cases v with
  | nil => simp [renderAttr, parseAttr, indexOf_single_none hc]
  | cons x xs =>
    cases k with
    | nil => exact absurd rfl hk
    | cons y ys =>
      have hi := indexOf_single_append (x :: xs) hc
      simp only [renderAttr, List.isEmpty_cons, Bool.false_eq_true, if_false, parseAttr, hi, List.length_cons]
      simp

theorem noNL_renderAttr (a : Attr) (h : WfAttr a) : NoNL (renderAttr a) := by
  intro c hc
  unfold renderAttr at hc
  split at hc
  · exact h.key_nonl c hc
  · simp only [List.mem_append, List.mem_cons] at hc
    rcases hc with hc | rfl | hc
    · exact h.key_nonl c hc
    · decide
    · exact h.val_nonl c hc

theorem ascii_renderAttr (a : Attr) (h : WfAttr a) : Ascii (renderAttr a) := by
  intro c hc
  unfold renderAttr at hc
  split at hc
  · exact h.key_ascii c hc
  · simp only [List.mem_append, List.mem_cons] at hc
    rcases hc with hc | rfl | hc
    · exact h.key_ascii c hc
    · decide
    · exact h.val_ascii c hc

/-- an `a=` line in session position (after `t=` or after another session attribute) -/
theorem step_session_attr (st : St) (hst : st = .session ∨ st = .time) (d : Doc) (a : Attr) (h : WfAttr a) :
    stepLine st d (b!"a=" ++ renderAttr a) = .ok (.session, { d with attrs := d.attrs ++ [a] }) := by
  have hasc := all_ascii (ascii_renderAttr a h)
  rcases hst with rfl | rfl <;>
    simp [stepLine, opaqueKey, hasc, sessionLine, parseAttr_render a h]

theorem run_session_attrs (st : St) (hst : st = .session ∨ st = .time) (d : Doc) (as : List Attr) (h : ∀ a ∈ as, WfAttr a)
    (rest : List Str) :
    runLines st d (as.map (fun a => b!"a=" ++ renderAttr a) ++ rest)
      = runLines (if as.isEmpty then st else .session) { d with attrs := d.attrs ++ as } rest := by
  induction as generalizing st d with
  | nil => simp
  | cons a as ih =>
    simp only [List.map_cons, List.cons_append, runLines]
    rw [step_session_attr st hst d a (h a (by simp))]
    simp only
    rw [ih .session (Or.inl rfl) _ (fun x hx => h x (by simp [hx]))]
    cases as <;> simp

end Rtsp.Sdp
