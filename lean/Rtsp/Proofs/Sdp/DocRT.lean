import Rtsp.Proofs.Sdp.Fields
/-
Text layer: `sdpunmarshaler.Unmarshal` applied to pion's `Marshal` output (for the fields that
`Session.Marshal` sets) returns the document.
-/
namespace Rtsp.Sdp

abbrev Ascii (s : Str) : Prop := ∀ c ∈ s, isAscii c = true

theorem all_ascii {s : Str} (h : Ascii s) : s.all isAscii = true := by
  rw [List.all_eq_true]; exact h

/-- an attribute as `Media.Marshal` / `Session.Marshal` write it: non-empty key without `:`, one line, ASCII -/
structure WfAttr (a : Attr) : Prop where
  key_ne : a.key ≠ []
  key_nocolon : (58 : UInt8) ∉ a.key
  key_nonl : NoNL a.key
  val_nonl : NoNL a.val
  key_ascii : Ascii a.key
  val_ascii : Ascii a.val

/-- what the text layer needs of an attribute: it survives `render` then `parse`, and its line is one ASCII line -/
structure AttrRT (a : Attr) : Prop where
  rt : parseAttr (renderAttr a) = a
  nonl : NoNL (renderAttr a)
  ascii : Ascii (renderAttr a)

/-- a media description as `Media.Marshal` writes it -/
structure WfMedia (m : MediaD) : Prop where
  type_ok : mediaTypeOk m.media = true
  type_nosp : NoSp m.media
  type_ascii : Ascii m.media
  protos_ne : m.protos ≠ []
  protos_ok : ∀ p ∈ m.protos, protoOk p = true
  fmts_ne : m.fmts ≠ []
  fmts_ok : ∀ f ∈ m.fmts, f ≠ [] ∧ NoSp f ∧ Ascii f
  attrs_ok : ∀ a ∈ m.attrs, AttrRT a

structure WfDoc (d : Doc) : Prop where
  name_nonl : NoNL d.name
  attrs_ok : ∀ a ∈ d.attrs, AttrRT a
  medias_ok : ∀ m ∈ d.medias, WfMedia m

/-! ### attributes -/

theorem indexOf_single_none {c : UInt8} {s : Str} (h : c ∉ s) : indexOf [c] s = none := by
  induction s with
  | nil => simp [indexOf]
  | cons x xs ih =>
    have hx : c ≠ x := fun e => h (by simp [e])
    have := ih (fun m => h (by simp [m]))
    simp [indexOf, List.isPrefixOf, hx, this]

theorem indexOf_single_append {c : UInt8} {a : Str} (b : Str) (h : c ∉ a) : indexOf [c] (a ++ c :: b) = some a.length := by
  induction a with
  | nil => simp [indexOf, List.isPrefixOf]
  | cons x xs ih =>
    have hx : c ≠ x := fun e => h (by simp [e])
    have := ih (fun m => h (by simp [m]))
    simp [indexOf, List.isPrefixOf, hx, this]

theorem parseAttr_render (a : Attr) (h : WfAttr a) : parseAttr (renderAttr a) = a := by
  obtain ⟨k, v⟩ := a
  have hk := h.key_ne
  have hc := h.key_nocolon
  simp only at hk hc
  cases v with
  | nil => simp [renderAttr, parseAttr, indexOf_single_none hc]
  | cons x xs =>
    cases k with
    | nil => exact absurd rfl hk
    | cons y ys =>
      have hi := indexOf_single_append (x :: xs) hc
      simp only [renderAttr, List.isEmpty_cons, Bool.false_eq_true, if_false, parseAttr, hi, List.length_cons]
      simp

theorem noNL_renderAttr (a : Attr) (h : WfAttr a) : NoNL (renderAttr a) := by
  intro c hc
  unfold renderAttr at hc
  split at hc
  · exact h.key_nonl c hc
  · simp only [List.mem_append, List.mem_cons] at hc
    rcases hc with hc | rfl | hc
    · exact h.key_nonl c hc
    · decide
    · exact h.val_nonl c hc

theorem ascii_renderAttr (a : Attr) (h : WfAttr a) : Ascii (renderAttr a) := by
  intro c hc
  unfold renderAttr at hc
  split at hc
  · exact h.key_ascii c hc
  · simp only [List.mem_append, List.mem_cons] at hc
    rcases hc with hc | rfl | hc
    · exact h.key_ascii c hc
    · decide
    · exact h.val_ascii c hc

theorem attrRT_of_wf {a : Attr} (h : WfAttr a) : AttrRT a :=
  ⟨parseAttr_render a h, noNL_renderAttr a h, ascii_renderAttr a h⟩

/-- an `a=` line in session position (after `t=` or after another session attribute) -/
theorem step_session_attr (st : St) (hst : st = .session ∨ st = .time) (d : Doc) (a : Attr) (h : AttrRT a) :
    stepLine st d (attrLine a) = .ok (.session, { d with attrs := d.attrs ++ [a] }) := by
  have hasc := all_ascii h.ascii
  rcases hst with rfl | rfl <;>
    simp [attrLine, stepLine, opaqueKey, hasc, keyLine, sessionLine, h.rt]

theorem run_session_attrs (st : St) (hst : st = .session ∨ st = .time) (d : Doc) (as : List Attr) (h : ∀ a ∈ as, AttrRT a)
    (rest : List Str) :
    runLines st d (as.map attrLine ++ rest)
      = runLines (if as.isEmpty then st else .session) { d with attrs := d.attrs ++ as } rest := by
  induction as generalizing st d with
  | nil => simp
  | cons a as ih =>
    simp only [List.map_cons, List.cons_append, runLines]
    rw [step_session_attr st hst d a (h a (by simp))]
    simp only
    rw [ih .session (Or.inl rfl) _ (fun x hx => h x (by simp [hx]))]
    cases as <;> simp

end Rtsp.Sdp

namespace Rtsp.Sdp

/-! ### media descriptions -/

theorem protoOk_spec {p : Str} (h : protoOk p = true) : (47 : UInt8) ∉ p ∧ NoSp p ∧ p ≠ [] ∧ Ascii p := by
  simp only [protoOk, Bool.or_eq_true, decide_eq_true_eq] at h
  rcases h with ((((((((((rfl | rfl) | rfl) | rfl) | rfl) | rfl) | rfl) | rfl) | rfl) | rfl) | rfl) <;>
    (refine ⟨by decide, ?_, by decide, ?_⟩ <;> (intro c hc; revert c; decide))

theorem ascii_join (sep : Str) (hs : Ascii sep) (ps : List Str) (h : ∀ p ∈ ps, Ascii p) : Ascii (joinWith sep ps) := by
  induction ps with
  | nil => intro c hc; simp [joinWith] at hc
  | cons p ps ih =>
    cases ps with
    | nil => simpa [joinWith] using h p (by simp)
    | cons q qs =>
      rw [joinWith_cons_cons]
      intro c hc
      simp only [List.mem_append] at hc
      rcases hc with (hc | hc) | hc
      · exact h p (by simp) c hc
      · exact hs c hc
      · exact ih (fun x hx => h x (by simp [hx])) c hc

theorem parseMediaLine_render (m : MediaD) (h : WfMedia m) :
    parseMediaLine (renderMediaName m) = some { m with attrs := [] } := by
  have hmne : m.media ≠ [] := by
    intro e
    have := h.type_ok
    rw [e] at this
    revert this; decide
  have hp : ∀ p ∈ m.protos, (47 : UInt8) ∉ p ∧ NoSp p ∧ p ≠ [] ∧ Ascii p := fun p hp => protoOk_spec (h.protos_ok p hp)
  have hpj_nosp : NoSp (joinWith [47] m.protos) := noSp_join_slash _ (fun p hp' => (hp p hp').2.1)
  have hpj_ne : joinWith [47] m.protos ≠ [] := by
    apply join_ne_nil
    cases hps : m.protos with
    | nil => exact absurd hps h.protos_ne
    | cons p ps => exact ⟨p, by simp, (hp p (by rw [hps]; simp)).2.2.1⟩
  have h0 : NoSp [48] := by intro c hc; simp only [List.mem_singleton] at hc; subst hc; decide
  have hf : fields (renderMediaName m) = m.media :: [48] :: joinWith [47] m.protos :: m.fmts := by
    unfold renderMediaName
    have e : m.media ++ b!" 0 " ++ joinWith [47] m.protos ++ 32 :: joinWith [32] m.fmts
        = m.media ++ 32 :: ([48] ++ 32 :: (joinWith [47] m.protos ++ 32 :: joinWith [32] m.fmts)) := by simp
    rw [e, fields_word_sp hmne h.type_nosp, fields_word_sp (by simp) h0, fields_word_sp hpj_ne hpj_nosp,
      fields_join _ (fun f hf => ⟨(h.fmts_ok f hf).1, (h.fmts_ok f hf).2.1⟩)]
  have hsplit : splitOn 47 (joinWith [47] m.protos) = m.protos := splitOn_join 47 _ h.protos_ne (fun p hp' => (hp p hp').1)
  have hall : m.protos.all protoOk = true := by rw [List.all_eq_true]; exact h.protos_ok
  have hport : portOk [48] = true := by decide
  obtain ⟨media, protos, fmts, attrs⟩ := m
  cases fmts with
  | nil => exact absurd rfl h.fmts_ne
  | cons f fs =>
    simp only at hf hsplit hall
    simp [parseMediaLine, hf, h.type_ok, hport, hsplit, hall]

theorem ascii_renderMediaName (m : MediaD) (h : WfMedia m) : Ascii (renderMediaName m) := by
  unfold renderMediaName
  intro c hc
  simp only [List.mem_append, List.mem_cons] at hc
  rcases hc with ((hc | hc) | hc) | rfl | hc
  · exact h.type_ascii c hc
  · rcases hc with rfl | rfl | rfl | hc <;> first | decide | (simp at hc)
  · exact ascii_join [47] (by intro c hc; simp only [List.mem_singleton] at hc; subst hc; decide) _
      (fun p hp => (protoOk_spec (h.protos_ok p hp)).2.2.2) c hc
  · decide
  · exact ascii_join [32] (by intro c hc; simp only [List.mem_singleton] at hc; subst hc; decide) _
      (fun f hf => (h.fmts_ok f hf).2.2) c hc

/-- an `m=` line after the session part, after `t=`, or after another media -/
theorem step_media_name (st : St) (hst : st = .session ∨ st = .time ∨ st = .media) (d : Doc) (m : MediaD) (h : WfMedia m) :
    stepLine st d (mediaNameLine m) = .ok (.media, { d with medias := d.medias ++ [{ m with attrs := [] }] }) := by
  have hasc := all_ascii (ascii_renderMediaName m h)
  rcases hst with rfl | rfl | rfl <;>
    simp [mediaNameLine, stepLine, opaqueKey, hasc, keyLine, sessionLine, mediaLine, parseMediaLine_render m h]

theorem step_media_attr (d : Doc) (ms : List MediaD) (m0 : MediaD) (hd : d.medias = ms ++ [m0]) (a : Attr) (h : AttrRT a) :
    stepLine .media d (attrLine a)
      = .ok (.media, { d with medias := ms ++ [{ m0 with attrs := m0.attrs ++ [a] }] }) := by
  have hasc := all_ascii h.ascii
  simp [attrLine, stepLine, opaqueKey, hasc, keyLine, mediaLine, h.rt, addMediaAttr, hd]

theorem run_media_attrs (d : Doc) (ms : List MediaD) (m0 : MediaD) (hd : d.medias = ms ++ [m0]) (as : List Attr)
    (h : ∀ a ∈ as, AttrRT a) (rest : List Str) :
    runLines .media d (as.map attrLine ++ rest)
      = runLines .media { d with medias := ms ++ [{ m0 with attrs := m0.attrs ++ as }] } rest := by
  induction as generalizing d m0 with
  | nil => simp [← hd]
  | cons a as ih =>
    simp only [List.map_cons, List.cons_append, runLines]
    rw [step_media_attr d ms m0 hd a (h a (by simp))]
    simp only
    rw [ih _ { m0 with attrs := m0.attrs ++ [a] } rfl (fun x hx => h x (by simp [hx]))]
    simp

theorem run_media (st : St) (hst : st = .session ∨ st = .time ∨ st = .media) (d : Doc) (m : MediaD) (h : WfMedia m)
    (rest : List Str) :
    runLines st d (renderMediaLines m ++ rest) = runLines .media { d with medias := d.medias ++ [m] } rest := by
  simp only [renderMediaLines, List.cons_append, runLines]
  rw [step_media_name st hst d m h]
  simp only
  rw [run_media_attrs _ d.medias { m with attrs := [] } rfl m.attrs h.attrs_ok]
  simp

theorem run_medias (st : St) (hst : st = .session ∨ st = .time ∨ st = .media) (d : Doc) (ms : List MediaD)
    (h : ∀ m ∈ ms, WfMedia m) :
    runLines st d (ms.flatMap renderMediaLines) = .ok { d with medias := d.medias ++ ms } := by
  induction ms generalizing st d with
  | nil => simp [runLines]
  | cons m ms ih =>
    simp only [List.flatMap_cons]
    rw [run_media st hst d m (h m (by simp))]
    rw [ih .media (Or.inr (Or.inr rfl)) _ (fun x hx => h x (by simp [hx]))]
    simp

/-! ### the header and the whole document -/

theorem origin_fixed : originOk b!"- 0 0 IN IP4 127.0.0.1" = true := by decide
theorem conn_unicast : connOk b!"IN IP4 0.0.0.0" = .ok () := by decide
theorem conn_multicast : connOk b!"IN IP4 224.1.0.0" = .ok () := by decide
theorem timing_fixed : timingOk b!"0 0" = true := by decide

theorem run_header (mc : Bool) (name : Str) (rest : List Str) :
    runLines .initial Doc.empty (headerLines mc name ++ rest) = runLines .time { Doc.empty with name := name } rest := by
  cases mc <;>
    simp [headerLines, runLines, stepLine, opaqueKey, isAscii, keyLine, sessionLine, origin_fixed, conn_unicast, conn_multicast,
      timing_fixed, Res.bind, Doc.empty]

/-- **Text layer round trip**: `sdpunmarshaler.Unmarshal` of the text that pion's `Marshal` writes for a
well-formed document (as `Session.Marshal` builds them) is that document. -/
theorem parse_render (mc : Bool) (d : Doc) (h : WfDoc d) : parse (render mc d) = .ok d := by
  have hlines : ∀ l ∈ renderLines mc d, NoNL l ∧ l ≠ [] := by
    intro l hl
    simp only [renderLines, List.mem_append, List.mem_map, List.mem_flatMap] at hl
    rcases hl with (hl | ⟨a, ha, rfl⟩) | ⟨m, hm, hl⟩
    · simp only [headerLines, List.mem_cons, List.not_mem_nil, or_false] at hl
      rcases hl with rfl | rfl | rfl | rfl | rfl
      · exact ⟨by intro c hc; revert c; decide, by decide⟩
      · exact ⟨by intro c hc; revert c; decide, by decide⟩
      · refine ⟨?_, by simp⟩
        intro c hc
        simp only [List.mem_cons] at hc
        rcases hc with rfl | rfl | hc
        · decide
        · decide
        · exact h.name_nonl c hc
      · cases mc <;> exact ⟨by intro c hc; revert c; decide, by decide⟩
      · exact ⟨by intro c hc; revert c; decide, by decide⟩
    · refine ⟨?_, by simp [attrLine]⟩
      intro c hc
      simp only [attrLine, List.mem_cons] at hc
      rcases hc with rfl | rfl | hc
      · decide
      · decide
      · exact (h.attrs_ok a ha).nonl c hc
    · simp only [renderMediaLines, List.mem_cons, List.mem_map] at hl
      have hw := h.medias_ok m hm
      rcases hl with rfl | ⟨a, ha, rfl⟩
      · refine ⟨?_, by simp [mediaNameLine]⟩
        intro c hc
        simp only [mediaNameLine, List.mem_cons] at hc
        rcases hc with rfl | rfl | hc
        · decide
        · decide
        · -- no white space other than blanks in the media name line; blanks are not CR / LF
          have hasc := ascii_renderMediaName m hw
          unfold renderMediaName at hc
          simp only [List.mem_append, List.mem_cons] at hc
          have nl_of_nosp : ∀ {w : Str}, NoSp w → ∀ c ∈ w, c ≠ 10 ∧ c ≠ 13 := by
            intro w hw' c hc'
            have := hw' c hc'
            constructor <;> (intro e; subst e; revert this; decide)
          rcases hc with ((hc | hc) | hc) | rfl | hc
          · exact nl_of_nosp hw.type_nosp c hc
          · rcases hc with rfl | rfl | rfl | hc <;> first | decide | (simp at hc)
          · exact nl_of_nosp (noSp_join_slash _ (fun p hp => (protoOk_spec (hw.protos_ok p hp)).2.1)) c hc
          · decide
          · -- formats joined by blanks
            have : ∀ (fs : List Str), (∀ f ∈ fs, NoSp f) → ∀ c ∈ joinWith [32] fs, c ≠ 10 ∧ c ≠ 13 := by
              intro fs
              induction fs with
              | nil => intro _ c hc; simp [joinWith] at hc
              | cons f fs ih =>
                intro hfs c hc
                cases fs with
                | nil => exact nl_of_nosp (hfs f (by simp)) c (by simpa [joinWith] using hc)
                | cons g gs =>
                  rw [joinWith_cons_cons] at hc
                  simp only [List.mem_append, List.mem_singleton] at hc
                  rcases hc with (hc | rfl) | hc
                  · exact nl_of_nosp (hfs f (by simp)) c hc
                  · decide
                  · exact ih (fun x hx => hfs x (by simp [hx])) c hc
            exact this m.fmts (fun f hf => (hw.fmts_ok f hf).2.1) c hc
      · refine ⟨?_, by simp [attrLine]⟩
        intro c hc
        simp only [attrLine, List.mem_cons] at hc
        rcases hc with rfl | rfl | hc
        · decide
        · decide
        · exact (hw.attrs_ok a ha).nonl c hc
  unfold parse render
  rw [linesOf_flat _ hlines]
  unfold renderLines
  rw [List.append_assoc, run_header, run_session_attrs .time (Or.inr rfl) _ d.attrs h.attrs_ok]
  rw [run_medias _ (by cases d.attrs <;> simp) _ d.medias h.medias_ok]
  simp [Doc.empty]

end Rtsp.Sdp
