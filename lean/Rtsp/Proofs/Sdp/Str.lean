import Rtsp.Model.Sdp.Str
/-
Lemmas about the byte-string helpers of Model/Sdp/Str.lean (core Lean only).
-/
namespace Rtsp.Sdp

/-! ### character classes -/

theorem isDigit_iff (c : UInt8) : isDigit c = true ↔ 48 ≤ c.toNat ∧ c.toNat ≤ 57 := by
  simp [isDigit, UInt8.le_iff_toNat_le]

theorem isSpace_iff (c : UInt8) : isSpace c = true ↔ c.toNat = 32 ∨ (9 ≤ c.toNat ∧ c.toNat ≤ 13) := by
  simp [isSpace, UInt8.le_iff_toNat_le, ← UInt8.toNat_inj]

theorem isDigit_not_space {c : UInt8} (h : isDigit c = true) : isSpace c = false := by
  rw [isDigit_iff] at h
  cases hs : isSpace c with
  | false => rfl
  | true => rw [isSpace_iff] at hs; omega

theorem isDigit_ne {c d : UInt8} (h : isDigit c = true) (hd : isDigit d = false) : c ≠ d := by
  intro e; subst e; rw [h] at hd; cases hd

/-! ### decimal numbers -/

theorem dec_ne_nil (n : Nat) : dec n ≠ [] := by
  simp [dec, Nat.toDigits_ne_nil]

theorem digitChar_toNat {c : Char} (h : c.isDigit = true) : 48 ≤ c.toNat ∧ c.toNat ≤ 57 := by
  simp only [Char.isDigit, Bool.and_eq_true, decide_eq_true_eq] at h
  have h1 : '0'.val.toNat ≤ c.val.toNat := UInt32.le_iff_toNat_le.mp h.1
  have h2 : c.val.toNat ≤ '9'.val.toNat := UInt32.le_iff_toNat_le.mp h.2
  have e0 : '0'.val.toNat = 48 := by decide
  have e9 : '9'.val.toNat = 57 := by decide
  simp only [Char.toNat]
  omega

theorem mem_dec_isDigit {n : Nat} {c : UInt8} (h : c ∈ dec n) : isDigit c = true := by
  simp only [dec, List.mem_map] at h
  obtain ⟨ch, hch, rfl⟩ := h
  have hd := digitChar_toNat (Nat.isDigit_of_mem_toDigits (by decide) (by decide) hch)
  rw [isDigit_iff, UInt8.toNat_ofNat']
  omega

theorem dec_all_isDigit (n : Nat) : (dec n).all isDigit = true := by
  rw [List.all_eq_true]; intro c hc; exact mem_dec_isDigit hc

theorem not_mem_dec {c : UInt8} (hc : isDigit c = false) (n : Nat) : c ∉ dec n := by
  intro h; rw [mem_dec_isDigit h] at hc; cases hc

theorem decVal_map (l : List Char) (hl : ∀ c ∈ l, c.isDigit = true) (acc : Nat) :
    decVal (l.map fun c => UInt8.ofNat c.toNat) acc = some (Nat.ofDigitChars 10 l acc) := by
  induction l generalizing acc with
  | nil => simp [decVal, Nat.ofDigitChars]
  | cons c cs ih =>
    have hc := digitChar_toNat (hl c (by simp))
    have hd : isDigit (UInt8.ofNat c.toNat) = true := by
      rw [isDigit_iff, UInt8.toNat_ofNat']; omega
    have hn : (UInt8.ofNat c.toNat).toNat = c.toNat := by rw [UInt8.toNat_ofNat']; omega
    have e0 : '0'.toNat = 48 := by decide
    simp only [List.map_cons, decVal, hd, if_true, Nat.ofDigitChars_cons, hn, e0]
    rw [ih (fun x hx => hl x (by simp [hx]))]
    congr 2
    omega

theorem decVal_dec (n : Nat) : decVal (dec n) 0 = some n := by
  rw [dec, decVal_map _ (fun c hc => Nat.isDigit_of_mem_toDigits (by decide) (by decide) hc)]
  rw [Nat.ofDigitChars_ten_toDigits]

theorem parseUint_dec {bits n : Nat} (h : n < 2 ^ bits) : parseUint bits (dec n) = some n := by
  have hne : (dec n).isEmpty = false := by
    cases hd : dec n with
    | nil => exact absurd hd (dec_ne_nil n)
    | cons _ _ => rfl
  simp [parseUint, hne, decVal_dec, h]

theorem dec_head_isDigit (n : Nat) : ∃ c cs, dec n = c :: cs ∧ isDigit c = true := by
  cases hd : dec n with
  | nil => exact absurd hd (dec_ne_nil n)
  | cons c cs => exact ⟨c, cs, rfl, mem_dec_isDigit (by rw [hd]; simp)⟩

/-! ### splitOn / cut / joinWith -/

theorem splitOn_ne_nil (sep : UInt8) (s : Str) : splitOn sep s ≠ [] := by
  induction s with
  | nil => simp [splitOn]
  | cons c cs ih =>
    simp only [splitOn]
    split
    · simp
    · split <;> simp

theorem splitOn_noSep {sep : UInt8} {a : Str} (h : sep ∉ a) : splitOn sep a = [a] := by
  induction a with
  | nil => rfl
  | cons c cs ih =>
    have hc : c ≠ sep := fun e => h (by simp [e])
    have hcs : sep ∉ cs := fun m => h (by simp [m])
    simp [splitOn, hc, ih hcs]

theorem splitOn_append {sep : UInt8} {a : Str} (b : Str) (h : sep ∉ a) :
    splitOn sep (a ++ sep :: b) = a :: splitOn sep b := by
  induction a with
  | nil => simp [splitOn]
  | cons c cs ih =>
    have hc : c ≠ sep := fun e => h (by simp [e])
    have hcs : sep ∉ cs := fun m => h (by simp [m])
    simp [splitOn, hc, ih hcs]

theorem cut_append {sep : UInt8} {a : Str} (b : Str) (h : sep ∉ a) : cut sep (a ++ sep :: b) = some (a, b) := by
  induction a with
  | nil => simp [cut]
  | cons c cs ih =>
    have hc : c ≠ sep := fun e => h (by simp [e])
    have hcs : sep ∉ cs := fun m => h (by simp [m])
    simp [cut, hc, ih hcs]

theorem cut_none {sep : UInt8} {a : Str} (h : sep ∉ a) : cut sep a = none := by
  induction a with
  | nil => rfl
  | cons c cs ih =>
    have hc : c ≠ sep := fun e => h (by simp [e])
    have hcs : sep ∉ cs := fun m => h (by simp [m])
    simp [cut, hc, ih hcs]

/-! ### trimming -/

theorem trimLeft_of_head {p : UInt8 → Bool} {s : Str} (h : ∀ c, s.head? = some c → p c = false) : trimLeft p s = s := by
  cases s with
  | nil => rfl
  | cons c cs => simp [trimLeft, h c rfl]

theorem trimRight_of_last {p : UInt8 → Bool} {s : Str} (h : ∀ c, s.getLast? = some c → p c = false) : trimRight p s = s := by
  unfold trimRight
  rw [trimLeft_of_head]
  · simp
  · intro c hc; apply h; simpa using hc

/-- a string whose first and last byte are not white space is not changed by `TrimSpace` -/
theorem trimSpace_id {s : Str} (h1 : ∀ c, s.head? = some c → isSpace c = false)
    (h2 : ∀ c, s.getLast? = some c → isSpace c = false) : trimSpace s = s := by
  unfold trimSpace
  rw [trimLeft_of_head h1, trimRight_of_last h2]

theorem trimBlank_id {s : Str} (h1 : ∀ c, s.head? = some c → c ≠ 32)
    (h2 : ∀ c, s.getLast? = some c → c ≠ 32) : trimBlank s = s := by
  unfold trimBlank
  rw [trimLeft_of_head (fun c hc => by simpa using h1 c hc), trimRight_of_last (fun c hc => by simpa using h2 c hc)]

end Rtsp.Sdp
