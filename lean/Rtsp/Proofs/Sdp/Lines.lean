import Rtsp.Model.Sdp.Doc
import Rtsp.Proofs.Sdp.Str
/-
Line splitting: the lines of a CRLF-terminated text are its lines.
-/
namespace Rtsp.Sdp

/-- no carriage return, no line feed -/
abbrev NoNL (s : Str) : Prop := ∀ c ∈ s, c ≠ 10 ∧ c ≠ 13

theorem filter_cr_line {l : Str} (h : NoNL l) : l.filter (· != 13) = l := by
  rw [List.filter_eq_self]
  intro c hc
  simpa using (h c hc).2

theorem filter_cr_flat (ls : List Str) (h : ∀ l ∈ ls, NoNL l) :
    (ls.flatMap (· ++ crlf)).filter (· != 13) = ls.flatMap (· ++ [10]) := by
  induction ls with
  | nil => rfl
  | cons l ls ih =>
    simp only [List.flatMap_cons, List.filter_append, filter_cr_line (h l (by simp)),
      ih (fun x hx => h x (by simp [hx]))]
    simp [crlf]

theorem splitOn_flat (ls : List Str) (h : ∀ l ∈ ls, NoNL l) :
    splitOn 10 (ls.flatMap (· ++ [10])) = ls ++ [[]] := by
  induction ls with
  | nil => rfl
  | cons l ls ih =>
    have hl : (10 : UInt8) ∉ l := fun hm => (h l (by simp) 10 hm).1 rfl
    simp only [List.flatMap_cons, List.append_assoc, List.cons_append, List.nil_append]
    rw [splitOn_append _ hl, ih (fun x hx => h x (by simp [hx]))]

/-- **Lines**: the text made of CRLF-terminated non-empty lines without CR / LF splits into them. -/
theorem linesOf_flat (ls : List Str) (h : ∀ l ∈ ls, NoNL l ∧ l ≠ []) :
    linesOf (ls.flatMap (· ++ crlf)) = ls := by
  unfold linesOf
  rw [filter_cr_flat ls (fun l hl => (h l hl).1), splitOn_flat ls (fun l hl => (h l hl).1)]
  rw [List.filter_append]
  have : ls.filter (fun x => !x.isEmpty) = ls := by
    rw [List.filter_eq_self]
    intro l hl
    have := (h l hl).2
    cases l with
    | nil => exact absurd rfl this
    | cons _ _ => rfl
  rw [this]
  simp

theorem runLines_append (st : St) (d : Doc) (l1 l2 : List Str) (st' : St) (d' : Doc)
    (h : ∀ rest, runLines st d (l1 ++ rest) = runLines st' d' rest) :
    runLines st d (l1 ++ l2) = runLines st' d' l2 := h l2

end Rtsp.Sdp
