import Rtsp.Proofs.AuthRoundTrip
/-
Which challenge `Sender.Initialize` selects among those `GenerateWWWAuthenticate` issues:
SHA-256 if it is enabled, else MD5 if it is enabled, else Basic.
-/
namespace Rtsp.Auth

/-- one of the three named `VerifyMethod` values -/
def ValidMethod (m : VerifyMethod) : Prop := m = vmBasic ∨ m = vmMD5 ∨ m = vmSHA256

/-- the challenge the sender ends up with -/
def chosen (realm nonce : Bytes) (ms : List VerifyMethod) : Authenticate :=
  if vmSHA256 ∈ ms then challengeFor realm nonce vmSHA256
  else if vmMD5 ∈ ms then challengeFor realm nonce vmMD5
  else challengeFor realm nonce vmBasic

theorem vm_distinct : vmBasic ≠ vmMD5 ∧ vmBasic ≠ vmSHA256 ∧ vmMD5 ≠ vmSHA256 := by decide

theorem challengeFor_canon (realm nonce : Bytes) (hr : NoQuote realm) (hn : NoQuote nonce) (m : VerifyMethod) :
    (challengeFor realm nonce m).Canon := by
  unfold challengeFor
  split
  · exact ⟨hr, by intro c hc; simp at hc, fun _ => ⟨rfl, rfl⟩⟩
  · split
    · exact ⟨hr, hn, by intro h; simp at h⟩
    · exact ⟨hr, hn, by intro h; simp at h⟩

theorem foldl_init_congr (f : Option Authenticate → Bytes → Option Authenticate)
    (g : Option Authenticate → VerifyMethod → Option Authenticate) (e : VerifyMethod → Bytes)
    (h : ∀ cur m, f cur (e m) = g cur m) (ms : List VerifyMethod) (cur : Option Authenticate) :
    (ms.map e).foldl f cur = ms.foldl g cur := by
  induction ms generalizing cur with
  | nil => rfl
  | cons m ms ih => simp [List.foldl_cons, h, ih]

/-- on the header `GenerateWWWAuthenticate` builds, `Sender.Initialize` folds `prefer` over the
challenges themselves (every value parses back) -/
theorem senderInit_generate (realm nonce : Bytes) (hr : NoQuote realm) (hn : NoQuote nonce)
    (ms : List VerifyMethod) :
    senderInit (ms.map fun m => (challengeFor realm nonce m).marshal)
      = ms.foldl (fun cur m => prefer cur (challengeFor realm nonce m)) none := by
  unfold senderInit
  apply foldl_init_congr
  intro cur m
  simp only [authenticate_roundtrip _ (challengeFor_canon realm nonce hr hn m)]

def Weak (cur : Option Authenticate) : Prop := cur = none ∨ ∃ c, cur = some c ∧ c.method = .basic

theorem challengeFor_sha (realm nonce : Bytes) :
    challengeFor realm nonce vmSHA256 = { method := .digest, realm, nonce, algorithm := some .sha256 } := by
  have := vm_distinct
  simp [challengeFor, Ne.symm this.2.1, Ne.symm this.2.2]

theorem challengeFor_md5 (realm nonce : Bytes) :
    challengeFor realm nonce vmMD5 = { method := .digest, realm, nonce, algorithm := some .md5 } := by
  have := vm_distinct
  simp [challengeFor, Ne.symm this.1]

theorem challengeFor_basic (realm nonce : Bytes) :
    challengeFor realm nonce vmBasic = { method := .basic, realm } := by
  simp [challengeFor]

theorem fold_digest_stays (realm nonce : Bytes) (c : Authenticate) (hc : c.method = .digest)
    (ms : List VerifyMethod) (hv : ∀ m ∈ ms, ValidMethod m) (hs : vmSHA256 ∉ ms) :
    ms.foldl (fun cur m => prefer cur (challengeFor realm nonce m)) (some c) = some c := by
  induction ms with
  | nil => rfl
  | cons m ms ih =>
    have hm : m ≠ vmSHA256 := fun h => hs (by simp [h])
    have hstep : prefer (some c) (challengeFor realm nonce m) = some c := by
      rcases hv m (by simp) with h | h | h
      · subst h; simp [prefer, challengeFor_basic, hc]
      · subst h; simp [prefer, challengeFor_md5, hc]
      · exact absurd h hm
    simp only [List.foldl_cons, hstep]
    exact ih (fun x hx => hv x (by simp [hx])) (fun h => hs (by simp [h]))

theorem fold_sha (realm nonce : Bytes) (ms : List VerifyMethod) (hv : ∀ m ∈ ms, ValidMethod m)
    (hs : vmSHA256 ∈ ms) (cur : Option Authenticate) :
    ms.foldl (fun cur m => prefer cur (challengeFor realm nonce m)) cur
      = some (challengeFor realm nonce vmSHA256) := by
  induction ms generalizing cur with
  | nil => simp at hs
  | cons m ms ih =>
    by_cases hrest : vmSHA256 ∈ ms
    · simp only [List.foldl_cons]
      exact ih (fun x hx => hv x (by simp [hx])) hrest _
    · have hm : m = vmSHA256 := by
        rcases List.mem_cons.mp hs with h | h
        · exact h.symm
        · exact absurd h hrest
      subst hm
      have hstep : prefer cur (challengeFor realm nonce vmSHA256) = some (challengeFor realm nonce vmSHA256) := by
        cases cur with
        | none => rfl
        | some c => simp [prefer, challengeFor_sha]
      simp only [List.foldl_cons, hstep]
      exact fold_digest_stays realm nonce _ (by simp [challengeFor_sha]) ms
        (fun x hx => hv x (by simp [hx])) hrest

theorem prefer_weak (cur : Option Authenticate) (hw : Weak cur) (a : Authenticate) : prefer cur a = some a := by
  rcases hw with h | ⟨c, h, hc⟩
  · subst h; rfl
  · subst h; simp [prefer, hc]

theorem fold_md5 (realm nonce : Bytes) (ms : List VerifyMethod) (hv : ∀ m ∈ ms, ValidMethod m)
    (hs : vmSHA256 ∉ ms) (h5 : vmMD5 ∈ ms) (cur : Option Authenticate) (hw : Weak cur) :
    ms.foldl (fun cur m => prefer cur (challengeFor realm nonce m)) cur
      = some (challengeFor realm nonce vmMD5) := by
  induction ms generalizing cur with
  | nil => simp at h5
  | cons m ms ih =>
    have hs' : vmSHA256 ∉ ms := fun h => hs (by simp [h])
    have hv' : ∀ x ∈ ms, ValidMethod x := fun x hx => hv x (by simp [hx])
    simp only [List.foldl_cons, prefer_weak cur hw]
    rcases hv m (by simp) with h | h | h
    · subst h
      have h5' : vmMD5 ∈ ms := by
        rcases List.mem_cons.mp h5 with h | h
        · exact absurd h (Ne.symm vm_distinct.1)
        · exact h
      exact ih hv' hs' h5' _ (Or.inr ⟨_, rfl, by simp [challengeFor_basic]⟩)
    · subst h
      exact fold_digest_stays realm nonce _ (by simp [challengeFor_md5]) ms hv' hs'
    · exact absurd (by simp [h]) hs

theorem fold_basic (realm nonce : Bytes) (ms : List VerifyMethod) (hv : ∀ m ∈ ms, ValidMethod m)
    (hs : vmSHA256 ∉ ms) (h5 : vmMD5 ∉ ms) (hne : ms ≠ []) (cur : Option Authenticate) (hw : Weak cur) :
    ms.foldl (fun cur m => prefer cur (challengeFor realm nonce m)) cur
      = some (challengeFor realm nonce vmBasic) := by
  induction ms generalizing cur with
  | nil => exact absurd rfl hne
  | cons m ms ih =>
    have hs' : vmSHA256 ∉ ms := fun h => hs (by simp [h])
    have h5' : vmMD5 ∉ ms := fun h => h5 (by simp [h])
    have hv' : ∀ x ∈ ms, ValidMethod x := fun x hx => hv x (by simp [hx])
    have hm : m = vmBasic := by
      rcases hv m (by simp) with h | h | h
      · exact h
      · exact absurd (by simp [h]) h5
      · exact absurd (by simp [h]) hs
    subst hm
    simp only [List.foldl_cons, prefer_weak cur hw]
    cases ms with
    | nil => rfl
    | cons m2 ms2 =>
      exact ih hv' hs' h5' (by simp) _ (Or.inr ⟨_, rfl, by simp [challengeFor_basic]⟩)

/-- `Sender.Initialize` on the challenges issued for a non-empty list of valid methods -/
theorem senderInit_chosen (realm nonce : Bytes) (hr : NoQuote realm) (hn : NoQuote nonce)
    (ms : List VerifyMethod) (hv : ∀ m ∈ ms, ValidMethod m) (hne : ms ≠ []) :
    senderInit (ms.map fun m => (challengeFor realm nonce m).marshal) = some (chosen realm nonce ms) := by
  rw [senderInit_generate realm nonce hr hn]
  unfold chosen
  by_cases hs : vmSHA256 ∈ ms
  · simp only [hs, if_true]; exact fold_sha realm nonce ms hv hs none
  · by_cases h5 : vmMD5 ∈ ms
    · simp only [hs, h5, if_false, if_true]; exact fold_md5 realm nonce ms hv hs h5 none (Or.inl rfl)
    · simp only [hs, h5, if_false]; exact fold_basic realm nonce ms hv hs h5 hne none (Or.inl rfl)

end Rtsp.Auth
