import Rtsp.Proofs.FrameRT1
/-
Round-trip lemmas, part 2: the header block (`Header.marshal` / `Header.unmarshal`).
-/
namespace Rtsp.Frame
open Rtsp.Facts.Frame

/-- one `key: value\r\n` line -/
def line (p : Bytes × Bytes) : Bytes := p.1 ++ [COLON, SP] ++ p.2 ++ crlf

/-- the `(key, value)` lines of a header in marshalling order -/
def pairs (h : Header) : List (Bytes × Bytes) := h.flatMap fun e => e.2.map fun v => (e.1, v)

theorem marshalEntry_eq (e : Bytes × List Bytes) :
    marshalEntry e = (e.2.map fun v => (e.1, v)).flatMap line := by
  simp only [marshalEntry, line, List.flatMap_map]

theorem flatMap_marshalEntry (h : Header) : h.flatMap marshalEntry = (pairs h).flatMap line := by
  induction h with
  | nil => rfl
  | cons e r ih => simp only [List.flatMap_cons, pairs, marshalEntry_eq, List.flatMap_append] at ih ⊢; rw [ih]

theorem pairs_length (h : Header) : (pairs h).length = entryCount h := by
  induction h with
  | nil => rfl
  | cons e r ih =>
    simp only [pairs, List.flatMap_cons, List.length_append, List.length_map, entryCount, List.map_cons, List.sum_cons] at ih ⊢
    rw [ih]

/-- the parser on a block of well-formed lines followed by the empty line -/
theorem parseHeaders_lines : ∀ (ps : List (Bytes × Bytes)) (fuel : Nat) (acc : Header) (rest : Bytes),
    (∀ p ∈ ps, KeyOK p.1 ∧ ValueOK p.2) → ps.length ≤ fuel →
    parseHeaders fuel acc (ps.flatMap line ++ crlf ++ rest) =
      .ok (ps.foldl (fun a p => hinsert a p.1 p.2) acc) rest := by
  intro ps
  induction ps with
  | nil =>
    intro fuel acc rest _ _
    cases fuel <;> simp [parseHeaders, crlf, readByteEqual]
  | cons p ps ih =>
    intro fuel acc rest hok hlen
    obtain ⟨k, v⟩ := p
    have hp := hok (k, v) (by simp)
    obtain ⟨⟨hnorm, b, t, hk, hb, hcolon, htlen⟩, hcr, hsp, hvlen⟩ := hp
    cases fuel with
    | zero => simp at hlen
    | succ fuel =>
      simp only [List.length_cons] at hlen
      subst hk
      have hrest := ih fuel (hinsert acc (b :: t) v) rest (fun q hq => hok q (by simp [hq])) (by omega)
      -- shape of the input
      have hshape : (((b :: t, v) :: ps).flatMap line ++ crlf ++ rest) =
          b :: (t ++ COLON :: (SP :: (v ++ CR :: (LF :: (ps.flatMap line ++ crlf ++ rest))))) := by
        simp [line, crlf, List.append_assoc]
      rw [hshape]
      have hkey := readLim_token COLON t headerKeyReadLimit
        (SP :: (v ++ CR :: (LF :: (ps.flatMap line ++ crlf ++ rest)))) hcolon htlen
      have hskip : skipSpaces (SP :: (v ++ CR :: (LF :: (ps.flatMap line ++ crlf ++ rest)))) =
          .ok () (v ++ CR :: (LF :: (ps.flatMap line ++ crlf ++ rest))) := by
        have : skipSpaces (v ++ CR :: (LF :: (ps.flatMap line ++ crlf ++ rest))) =
            .ok () (v ++ CR :: (LF :: (ps.flatMap line ++ crlf ++ rest))) := by
          apply skipSpaces_nonspace
          · cases v with
            | nil => simp [CR, SP]
            | cons c r => simpa using hsp
          · simp
        simp only [skipSpaces, if_true]
        exact this
      have hval := readLim_token CR v headerValueReadLimit (LF :: (ps.flatMap line ++ crlf ++ rest)) hcr hvlen
      simp only [parseHeaders, hb, if_false, hkey, hardenKey, PR.bind_ok, hskip, hval, readByteEqual, if_true, hnorm]
      exact hrest

/-! ### rebuilding the map -/

def keysOf (h : Header) : List Bytes := h.map (·.1)

theorem hinsert_new (acc : Header) (k v : Bytes) (h : k ∉ keysOf acc) :
    hinsert acc k v = acc ++ [(k, [v])] := by
  induction acc with
  | nil => rfl
  | cons e r ih =>
    obtain ⟨k', vs⟩ := e
    have h1 : k' ≠ k := fun e => h (by simp [keysOf, e])
    have h2 : k ∉ keysOf r := fun e => h (by simp only [keysOf, List.map_cons, List.mem_cons]; right; exact e)
    simp [hinsert, h1, ih h2]

theorem hinsert_last (acc : Header) (k : Bytes) (vs : List Bytes) (v : Bytes) (h : k ∉ keysOf acc) :
    hinsert (acc ++ [(k, vs)]) k v = acc ++ [(k, vs ++ [v])] := by
  induction acc with
  | nil => simp [hinsert]
  | cons e r ih =>
    obtain ⟨k', vs'⟩ := e
    have h1 : k' ≠ k := fun e => h (by simp [keysOf, e])
    have h2 : k ∉ keysOf r := fun e => h (by simp only [keysOf, List.map_cons, List.mem_cons]; right; exact e)
    simp [hinsert, h1, ih h2]

theorem foldl_hinsert_same (acc : Header) (k : Bytes) (h : k ∉ keysOf acc) : ∀ (vs done : List Bytes),
    (vs.map fun v => (k, v)).foldl (fun a p => hinsert a p.1 p.2) (acc ++ [(k, done)]) = acc ++ [(k, done ++ vs)] := by
  intro vs
  induction vs with
  | nil => intro done; simp
  | cons v vs ih =>
    intro done
    simp only [List.map_cons, List.foldl_cons, hinsert_last acc k done v h]
    rw [ih (done ++ [v])]
    simp

theorem foldl_hinsert_pairs : ∀ (h acc : Header),
    (h.map (·.1)).Nodup → (∀ e ∈ h, e.1 ∉ keysOf acc ∧ e.2 ≠ []) →
    (pairs h).foldl (fun a p => hinsert a p.1 p.2) acc = acc ++ h := by
  intro h
  induction h with
  | nil => intro acc _ _; simp [pairs]
  | cons e r ih =>
    intro acc hnd hnew
    obtain ⟨k, vs⟩ := e
    have hk := hnew (k, vs) (by simp)
    cases vs with
    | nil => exact absurd rfl hk.2
    | cons v vs =>
      simp only [pairs, List.flatMap_cons, List.map_cons, List.foldl_append, List.foldl_cons]
      rw [hinsert_new acc k v hk.1]
      have := foldl_hinsert_same acc k hk.1 vs [v]
      skip
      rw [this]
      simp only [List.map_cons, List.nodup_cons] at hnd
      have hr := ih (acc ++ [(k, [v] ++ vs)]) hnd.2 (by
        intro e he
        refine ⟨?_, (hnew e (by simp [he])).2⟩
        intro hm
        simp only [keysOf, List.map_append, List.map_cons, List.map_nil, List.mem_append, List.mem_singleton] at hm
        rcases hm with hm | hm
        · exact (hnew e (by simp [he])).1 hm
        · exact hnd.1 (by rw [← hm]; exact List.mem_map_of_mem he))
      simp only [pairs] at hr
      rw [hr]
      simp

/-! ### sorting -/

theorem bytesLt_irrefl (a : Bytes) : bytesLt a a = false := by
  induction a with
  | nil => rfl
  | cons x r ih => simp [bytesLt, ih]

theorem sortKeys_sorted (h : Header) (hs : h.Pairwise (fun a b => bytesLt a.1 b.1 = true)) : sortKeys h = h := by
  induction h with
  | nil => rfl
  | cons e r ih =>
    rw [List.pairwise_cons] at hs
    rw [sortKeys, ih hs.2]
    cases r with
    | nil => rfl
    | cons x r' => simp [insertSorted, hs.1 x (by simp)]

theorem nodup_of_sorted (h : Header) (hs : h.Pairwise (fun a b => bytesLt a.1 b.1 = true)) : (h.map (·.1)).Nodup := by
  induction h with
  | nil => simp
  | cons e r ih =>
    rw [List.pairwise_cons] at hs
    simp only [List.map_cons, List.nodup_cons]
    refine ⟨?_, ih hs.2⟩
    intro hm
    obtain ⟨x, hx, hxe⟩ := List.mem_map.mp hm
    have := hs.1 x hx
    rw [hxe, bytesLt_irrefl] at this
    exact absurd this (by simp)

/-- **header block round trip** -/
theorem parseHeaders_marshalHeader (h : Header) (rest : Bytes) (hok : HeaderOK h) :
    parseHeaders headerMaxEntryCount [] (marshalHeader h ++ rest) = .ok h rest := by
  obtain ⟨hent, hsorted, hcount⟩ := hok
  rw [marshalHeader, sortKeys_sorted h hsorted, flatMap_marshalEntry]
  have hps : ∀ p ∈ pairs h, KeyOK p.1 ∧ ValueOK p.2 := by
    intro p hp
    simp only [pairs, List.mem_flatMap, List.mem_map] at hp
    obtain ⟨e, he, v, hv, rfl⟩ := hp
    exact ⟨(hent e he).1, (hent e he).2.2 v hv⟩
  rw [parseHeaders_lines (pairs h) headerMaxEntryCount [] rest hps (by rw [pairs_length]; exact hcount)]
  rw [foldl_hinsert_pairs h [] (nodup_of_sorted h hsorted) (fun e he => ⟨by simp [keysOf], (hent e he).2.1⟩)]
  simp

/-- **body round trip** -/
theorem parseBody_ok (h : Header) (body rest : Bytes) (hb : BodyOK h body) :
    parseBody h (body ++ rest) = .ok body rest := by
  obtain ⟨hlen, hcl⟩ := hb
  by_cases he : body = []
  · subst he; simp [parseBody, hcl]
  · simp only [he, if_false] at hcl
    have hp : parseUint 64 (toDec body.length) = some body.length :=
      parseUint_toDec 64 body.length (by
        have : rtspMaxBodySize < 2 ^ 64 := by decide
        omega)
    simp only [parseBody, hcl, hp]
    have : ¬ body.length > rtspMaxBodySize := by omega
    simp only [this, if_false]
    exact readFull_append body rest

end Rtsp.Frame
