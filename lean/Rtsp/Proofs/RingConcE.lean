import Rtsp.Proofs.RingConcD
/-
Linearization points.  The concurrent system is instrumented with a history of invocation (`call`),
linearization (`lin`) and response (`ret`) events:

  Push  : call at `Lock`, lin at the critical section, ret after `Broadcast` (accepted) or right
          after `Unlock` (refused)
  Pull  : one *attempt* (one iteration of the loop) = call at `Lock`, lin + ret at the end of the
          critical section; an attempt that finds nothing returns `wait` (a no-op of the
          specification) and the real `Pull` goes on with the next attempt after being woken, so
          the interval of the real call contains the interval of its last attempt
  Close : call at `Lock`, lin at the critical section, ret after `Broadcast`

Theorems: the `lin` events, in order, are exactly the log of critical sections that
`conc_linearizable` replays on the sequential specification; and for every thread the history is
well-formed: call, lin, ret alternate, every `lin` carries the operation of its `call` and every
`ret` the result of its `lin` — i.e. each linearization point lies between the invocation and the
response of its own operation.  Together: every concurrent history of the model is linearizable
to the bounded FIFO (the sequential witness orders operations by their linearization points, which
respects real-time order because each point is inside its operation's interval).
-/
namespace Rtsp.RingConc
open Rtsp.Ring
variable {α : Type}

inductive HEv (α : Type) where
  | call (t : Tid) (op : Op α)
  | lin (t : Tid) (op : Op α) (res : Res α)
  | ret (t : Tid) (res : Res α)

def HEv.tid : HEv α → Tid
  | .call t _ | .lin t _ _ | .ret t _ => t

/-- events emitted by one scheduling step taken in state `s` -/
def events (s : State α) : Act α → List (HEv α)
  | .prodLock i x => [.call (.prod i) (.push x)]
  | .prodBody i =>
    match s.prod i with
    | .locked x =>
      if (Ring.push s.ring x).2 then [.lin (.prod i) (.push x) (.pushed true)]
      else [.lin (.prod i) (.push x) (.pushed false), .ret (.prod i) (.pushed false)]
    | _ => []
  | .prodBcast i => [.ret (.prod i) (.pushed true)]
  | .consLock => [.call .cons .pull]
  | .consBody => [.lin .cons .pull (.pulled (pullTry s.ring).2), .ret .cons (.pulled (pullTry s.ring).2)]
  | .consReacq => []
  | .consUnlock => []
  | .closerLock => [.call .closer .close]
  | .closerBody => [.lin .closer .close .done]
  | .closerBcast => [.ret .closer .done]

/-- reachable states together with their history -/
inductive IReach (size : Nat) : State α → List (HEv α) → Prop where
  | init : IReach size (init size) []
  | step {s s' : State α} {h : List (HEv α)} (a : Act α) :
      IReach size s h → step? s a = some s' → IReach size s' (h ++ events s a)

theorem IReach.reachable {size : Nat} {s : State α} {h : List (HEv α)} (hr : IReach size s h) : Reachable size s := by
  induction hr with
  | init => exact .init
  | step a _ hs ih => exact .step a ih hs

theorem Reachable.history {size : Nat} {s : State α} (hr : Reachable size s) : ∃ h, IReach size s h := by
  induction hr with
  | init => exact ⟨[], .init⟩
  | step a _ hs ih => obtain ⟨h, ih⟩ := ih; exact ⟨_, .step a ih hs⟩

/-- where a thread is inside its current operation -/
inductive Phase (α : Type) where
  | out                      -- between operations
  | called (op : Op α)       -- invoked, not yet linearized
  | linned (res : Res α)     -- linearized with this result, not yet returned

/-- per-thread well-formedness of a history, ending in the given phase -/
inductive WF (t : Tid) : List (HEv α) → Phase α → Prop where
  | nil : WF t [] .out
  | other {h : List (HEv α)} {p : Phase α} (e : HEv α) : WF t h p → e.tid ≠ t → WF t (h ++ [e]) p
  | call {h : List (HEv α)} (op : Op α) : WF t h .out → WF t (h ++ [.call t op]) (.called op)
  | lin {h : List (HEv α)} (op : Op α) (res : Res α) : WF t h (.called op) → WF t (h ++ [.lin t op res]) (.linned res)
  | ret {h : List (HEv α)} (res : Res α) : WF t h (.linned res) → WF t (h ++ [.ret t res]) .out

/-- the phase of each thread, read off its program counter -/
def phase (s : State α) : Tid → Phase α
  | .prod i =>
    match s.prod i with
    | .idle => .out
    | .locked x => .called (.push x)
    | .bcast => .linned (.pushed true)
  | .cons =>
    match s.cons with
    | .locked => .called .pull
    | _ => .out
  | .closer =>
    match s.closer with
    | .idle => .out
    | .locked => .called .close
    | .bcast => .linned .done

/-- the linearization events of a history, as log entries -/
def lins : List (HEv α) → List (Ev α)
  | [] => []
  | .lin t op res :: h => ⟨t, op, res⟩ :: lins h
  | _ :: h => lins h

theorem lins_append (h1 h2 : List (HEv α)) : lins (h1 ++ h2) = lins h1 ++ lins h2 := by
  induction h1 with
  | nil => rfl
  | cons e h ih => cases e <;> simp only [List.cons_append, lins, ih]

/-- the `lin` events are exactly the log of critical sections, in the same order -/
theorem lins_eq_log {size : Nat} {s : State α} {h : List (HEv α)} (hr : IReach size s h) : lins h = s.log := by
  induction hr with
  | init => rfl
  | @step s0 s1 h0 a _ hs ih =>
    rw [lins_append, ih]
    cases a
    case prodLock i x => step_cases hs; simp [events, lins]
    case prodBody i =>
      step_cases hs
      rename_i x hp
      simp only [events, hp]
      split <;> rename_i hok
      · simp only [lins, hok]
      · have : (Ring.push s0.ring x).2 = false := by simpa using hok
        simp only [lins, this]
    case prodBcast i => step_cases hs; simp [events, lins]
    case consLock => step_cases hs; simp [events, lins]
    case consBody => step_cases hs; simp only [events, lins]
    case consReacq => step_cases hs; simp [events, lins]
    case consUnlock => step_cases hs; simp [events, lins]
    case closerLock => step_cases hs; simp [events, lins]
    case closerBody => step_cases hs; simp only [events, lins]
    case closerBcast => step_cases hs; simp [events, lins]

theorem wf_others (t : Tid) {h : List (HEv α)} {p : Phase α} (hw : WF t h p) (es : List (HEv α))
    (hes : ∀ e ∈ es, e.tid ≠ t) : WF t (h ++ es) p := by
  induction es generalizing h with
  | nil => simpa using hw
  | cons e es ih =>
    have : h ++ e :: es = (h ++ [e]) ++ es := by simp
    rw [this]
    exact ih (.other e hw (hes e (List.mem_cons_self ..))) (fun e' he' => hes e' (List.mem_cons_of_mem _ he'))

theorem events_tid (s : State α) (a : Act α) : ∀ e ∈ events s a, e.tid = a.tid := by
  intro e he
  cases a <;> simp only [events] at he
  case prodBody i =>
    split at he
    · split at he
      · simp at he; subst he; rfl
      · simp at he; rcases he with rfl | rfl <;> rfl
    · cases he
  case prodLock i x => simp at he; subst he; rfl
  case prodBcast i => simp at he; subst he; rfl
  case consLock => simp at he; subst he; rfl
  case consBody => simp at he; rcases he with rfl | rfl <;> rfl
  case consReacq => cases he
  case consUnlock => cases he
  case closerLock => simp at he; subst he; rfl
  case closerBody => simp at he; subst he; rfl
  case closerBcast => simp at he; subst he; rfl

theorem wake_phase (c : CPc) :
    (match wake c with | .locked => Phase.called (α := α) .pull | _ => .out) =
    (match c with | .locked => Phase.called .pull | _ => .out) := by
  cases c <;> rfl

/-- a step of one thread does not change the phase of any other thread -/
theorem phase_other {s s' : State α} {a : Act α} (hs : step? s a = some s') {t : Tid} (ht : t ≠ a.tid) :
    phase s' t = phase s t := by
  have prodCase : ∀ (i : Nat) (pc : PPc α) (s2 : State α), s2.prod = setProd s.prod i pc → s2.closer = s.closer →
      (s2.cons = s.cons ∨ s2.cons = wake s.cons) → t ≠ .prod i → phase s2 t = phase s t := by
    intro i pc s2 hp hk hc hti
    cases t with
    | prod j =>
      have : j ≠ i := fun e => hti (by rw [e])
      simp only [phase, hp, setProd, this, if_false]
    | cons =>
      rcases hc with hc | hc
      · simp only [phase, hc]
      · simp only [phase, hc]; exact wake_phase _
    | closer => simp only [phase, hk]
  cases a
  case prodLock i x => step_cases hs; exact prodCase i _ _ rfl rfl (.inl rfl) ht
  case prodBody i => step_cases hs; exact prodCase i _ _ rfl rfl (.inl rfl) ht
  case prodBcast i => step_cases hs; exact prodCase i _ _ rfl rfl (.inr rfl) ht
  case consLock => step_cases hs; cases t <;> first | rfl | exact absurd rfl ht
  case consBody => step_cases hs; cases t <;> first | rfl | exact absurd rfl ht
  case consReacq => step_cases hs; cases t <;> first | rfl | exact absurd rfl ht
  case consUnlock => step_cases hs; cases t <;> first | rfl | exact absurd rfl ht
  case closerLock => step_cases hs; cases t <;> first | rfl | exact absurd rfl ht
  case closerBody => step_cases hs; cases t <;> first | rfl | exact absurd rfl ht
  case closerBcast =>
    step_cases hs
    cases t with
    | prod j => rfl
    | cons => simp only [phase]; exact wake_phase _
    | closer => exact absurd rfl ht

/-- **every linearization point lies inside its operation**: for every thread, in every reachable
state, the history restricted to that thread alternates call → lin → ret, the `lin` carries the
operation of the `call`, the `ret` the result of the `lin`, and the thread's program counter tells
where in this cycle it is. -/
theorem wf_reach {size : Nat} {s : State α} {h : List (HEv α)} (hr : IReach size s h) (t : Tid) :
    WF t h (phase s t) := by
  induction hr with
  | init => cases t <;> exact .nil
  | @step s0 s1 h0 a _ hs ih =>
    by_cases ht : t = a.tid
    · subst ht
      cases a
      case prodLock i x =>
        step_cases hs
        rename_i hp ho
        have e0 : phase s0 (.prod i) = .out := by simp only [phase, hp]
        rw [Act.tid, e0] at ih
        have := WF.call (.push x) ih
        simpa only [events, phase, setProd, if_true, Act.tid] using this
      case prodBody i =>
        step_cases hs
        rename_i x hp
        have e0 : phase s0 (.prod i) = .called (.push x) := by simp only [phase, hp]
        rw [Act.tid, e0] at ih
        simp only [events, hp, Act.tid]
        by_cases hok : (Ring.push s0.ring x).2 = true
        · simp only [hok, if_true, phase, setProd]
          exact .lin (.push x) (.pushed true) ih
        · have hno : (Ring.push s0.ring x).2 = false := by simpa using hok
          simp only [hno, phase, setProd, if_true]
          have h1 := WF.lin (.push x) (.pushed false) ih
          have h2 := WF.ret (.pushed false) h1
          simpa using h2
      case prodBcast i =>
        step_cases hs
        rename_i hp
        have e0 : phase s0 (.prod i) = .linned (.pushed true) := by simp only [phase, hp]
        rw [Act.tid, e0] at ih
        have := WF.ret (.pushed true) ih
        simpa only [events, phase, setProd, if_true, Act.tid] using this
      case consLock =>
        step_cases hs
        rename_i hp ho
        have e0 : phase s0 .cons = .out := by simp only [phase, hp]
        rw [Act.tid, e0] at ih
        exact .call .pull ih
      case consBody =>
        step_cases hs
        rename_i hp
        have e0 : phase s0 .cons = .called .pull := by simp only [phase, hp]
        rw [Act.tid, e0] at ih
        have h1 := WF.lin .pull (.pulled (pullTry s0.ring).2) ih
        have h2 := WF.ret (.pulled (pullTry s0.ring).2) h1
        have e1 : ∀ p : PullRes α, (match consAfter p with | .locked => Phase.called (α := α) .pull | _ => .out) = .out := by
          intro p; cases p <;> rfl
        simp only [events, phase, Act.tid, e1]
        simpa using h2
      case consReacq =>
        step_cases hs
        rename_i hp ho
        have e0 : phase s0 .cons = .out := by simp only [phase, hp]
        rw [Act.tid, e0] at ih
        simpa only [events, List.append_nil, phase, Act.tid] using ih
      case consUnlock =>
        step_cases hs
        rename_i hp
        have e0 : phase s0 .cons = .out := by simp only [phase, hp]
        rw [Act.tid, e0] at ih
        simpa only [events, List.append_nil, phase, Act.tid] using ih
      case closerLock =>
        step_cases hs
        rename_i hp ho
        have e0 : phase s0 .closer = .out := by simp only [phase, hp]
        rw [Act.tid, e0] at ih
        exact .call .close ih
      case closerBody =>
        step_cases hs
        rename_i hp
        have e0 : phase s0 .closer = .called .close := by simp only [phase, hp]
        rw [Act.tid, e0] at ih
        exact .lin .close .done ih
      case closerBcast =>
        step_cases hs
        rename_i hp
        have e0 : phase s0 .closer = .linned .done := by simp only [phase, hp]
        rw [Act.tid, e0] at ih
        exact .ret .done ih
    · rw [phase_other hs ht]
      exact wf_others t ih _ (fun e he => by rw [events_tid s0 a e he]; exact fun e' => ht e'.symm)

end Rtsp.RingConc
