import Rtsp.Proofs.Receiver.Inv
/-
`ProcessPacket2` as a whole: the window invariant is preserved; what is delivered, in terms of
offsets from `lastSequenceNumber`.
-/
namespace Rtsp.Recv

theorem step_first (s : State) (p : Pkt) (hf : s.first = false) :
    step s p = ({ s with first := true, received := 1, rlSince := 1, last := p.seq }, { pkts := [p], lost := 0 }) := by
  simp [step, hf]

/-- counters after `reorder` -/
def counted (s1 : State) (o : Out) : State :=
  { s1 with lost := s1.lost + o.lost, lostSince := s1.lostSince + o.lost,
            received := s1.received + o.pkts.length, rlSince := s1.rlSince + o.pkts.length + o.lost }

theorem step_unrel (s : State) (p : Pkt) (hf : s.first = true) (hu : s.unreliable = true) :
    step s p = ((reorder s p).2.pkts.foldl advance (counted (reorder s p).1 (reorder s p).2), (reorder s p).2) := by
  simp [step, hf, hu, counted]

theorem step_rel (s : State) (p : Pkt) (hf : s.first = true) (hu : s.unreliable = false) :
    step s p = ([p].foldl advance (counted s { pkts := [p], lost := (p.seq - s.last - 1).toNat }),
                { pkts := [p], lost := (p.seq - s.last - 1).toNat }) := by
  simp [step, hf, hu, counted]

theorem reorder_last (s : State) (p : Pkt) : (reorder s p).1.last = s.last := by
  unfold reorder
  simp only
  split
  · split <;> rfl
  · split
    · rfl
    · split
      · split <;> rfl
      · rfl

/-- the window fields of the state after a step in unreliable mode -/
theorem step_unrel_fields (s : State) (p : Pkt) (hf : s.first = true) (hu : s.unreliable = true) :
    (step s p).1.buf = (reorder s p).1.buf ∧ (step s p).1.absPos = (reorder s p).1.absPos ∧
    (step s p).1.negCount = (reorder s p).1.negCount ∧
    (step s p).1.last = lastSeq s.last (reorder s p).2.pkts ∧ (step s p).2 = (reorder s p).2 := by
  rw [step_unrel s p hf hu]
  have h := foldl_advance_fields (counted (reorder s p).1 (reorder s p).2) (reorder s p).2.pkts
  have hl := foldl_advance_last (counted (reorder s p).1 (reorder s p).2) (reorder s p).2.pkts
  refine ⟨h.1, h.2.1, h.2.2.1, ?_, rfl⟩
  rw [hl]; simp only [counted]; rw [reorder_last]

/-! ### sequence numbers of what is delivered, as offsets from `last` -/

/-- the sequence number `r` positions after `last + 1` -/
def seqAt (last : UInt16) (r : Nat) : UInt16 := last + 1 + UInt16.ofNat r

theorem filterMap_seq (s : State) (h : WInv s) (l : List Nat) (hl : ∀ r ∈ l, r < s.buf.length) :
    (l.filterMap (slot s)).map (·.seq) = (l.filter (fun r => (slot s r).isSome)).map (seqAt s.last) := by
  induction l with
  | nil => rfl
  | cons r rs ih =>
    have ih' := ih (fun x hx => hl x (by simp [hx]))
    cases hs : slot s r with
    | none => simp [List.filterMap_cons, hs, List.filter_cons, ih']
    | some q =>
      have := h.seqs r q (hl r (by simp)) hs
      simp [List.filterMap_cons, hs, List.filter_cons, ih', this, seqAt]

theorem occupied_seq (s : State) (h : WInv s) :
    (occupied s).map (·.seq)
      = ((List.range s.buf.length).filter (fun r => (slot s r).isSome)).map (seqAt s.last) := by
  unfold occupied
  exact filterMap_seq s h _ (fun r hr => by simpa using hr)

theorem drainTail_seq (s : State) (h : WInv s) :
    (drainTail s).map (·.seq) = (List.range (scanLen s)).map (fun i => seqAt s.last (i + 1)) := by
  obtain ⟨hk, hocc, _⟩ := scan_spec s h
  unfold drainTail
  have : ∀ n, n ≤ scanLen s →
      ((List.range n).filterMap (fun i => slot s (i + 1))).map (·.seq)
        = (List.range n).map (fun i => seqAt s.last (i + 1)) := by
    intro n
    induction n with
    | zero => intro _; rfl
    | succ n ih =>
      intro hn
      rw [List.range_succ, List.filterMap_append, List.map_append, List.map_append, ih (by omega)]
      congr 1
      have hsome := hocc n (by omega)
      cases hs : slot s (n + 1) with
      | none => rw [hs] at hsome; simp at hsome
      | some q =>
        have := h.seqs (n + 1) q (by omega) hs
        simp [hs, this, seqAt]
  exact this _ (Nat.le_refl _)

theorem drainTail_length (s : State) (h : WInv s) : (drainTail s).length = scanLen s := by
  have := congrArg List.length (drainTail_seq s h)
  simpa using this

theorem lastSeq_map (l : UInt16) (ps : List Pkt) :
    lastSeq l ps = ((ps.map (·.seq)).getLast?).getD l := by
  induction ps generalizing l with
  | nil => rfl
  | cons p ps ih =>
    simp only [lastSeq, List.map_cons]
    rw [ih]
    cases ps with
    | nil => rfl
    | cons q qs =>
      cases hq : (List.map (fun x => x.seq) (q :: qs)).getLast? with
      | none => simp at hq
      | some x =>
        have hq' : (q.seq :: List.map (fun x => x.seq) qs).getLast? = some x := by simpa using hq
        simp [hq']

/-- the delivered sequence numbers of one step, as offsets: there is a strictly increasing list of
offsets `< 2^15` such that the delivered packets are exactly `last+1+r` for `r` in the list -/
structure Offsets (last : UInt16) (seqs : List UInt16) (offs : List Nat) : Prop where
  eq  : seqs = offs.map (seqAt last)
  inc : offs.Pairwise (· < ·)
  lt  : ∀ r ∈ offs, r < 32768

theorem range_pairwise (n : Nat) : (List.range n).Pairwise (· < ·) := by
  simpa using List.pairwise_lt_range (n := n)

/-- **what one non-restart step in unreliable mode delivers** -/
theorem reorder_offsets (s : State) (p : Pkt) (h : WInv s) (hnr : (reorder s p).2.restart = false) :
    ∃ offs, Offsets s.last ((reorder s p).2.pkts.map (·.seq)) offs ∧
      (reorder s p).2.lost = (match offs.getLast? with | none => 0 | some r => r + 1 - offs.length) := by
  have hN := h.pow2.pos
  have hNle := h.pow2.le
  by_cases hr : relPos p.seq s.last < 0
  · by_cases hn : s.negCount + 1 > s.buf.length
    · rw [reorder_restart s p hr hn] at hnr; simp at hnr
    · rw [reorder_negative s p hr hn]
      exact ⟨[], ⟨rfl, List.Pairwise.nil, by simp⟩, rfl⟩
  · obtain ⟨r, hrr⟩ : ∃ r : Nat, relPos p.seq s.last = (r : Int) := ⟨(relPos p.seq s.last).toNat, by omega⟩
    obtain ⟨hseq, hr15, _⟩ := relPos_nonneg p.seq s.last r hrr
    by_cases hf : relPos p.seq s.last ≥ (s.buf.length : Int)
    · -- whole-buffer flush
      rw [reorder_flush s p hr hf]
      let occ := (List.range s.buf.length).filter (fun r => (slot s r).isSome)
      have hocc_lt : ∀ x ∈ occ, x < s.buf.length := by
        intro x hx; have := (List.mem_filter.mp hx).1; simpa using this
      have hrN : s.buf.length ≤ r := by omega
      refine ⟨occ ++ [r], ⟨?_, ?_, ?_⟩, ?_⟩
      · simp only [List.map_append, List.map_cons, List.map_nil, occupied_seq s h]
        simp [occ, seqAt, hseq]
      · apply List.pairwise_append.mpr
        refine ⟨(range_pairwise _).sublist (List.filter_sublist), by simp, ?_⟩
        intro a ha b hb; simp at hb; subst hb; have := hocc_lt a ha; omega
      · intro x hx
        rcases List.mem_append.mp hx with hx | hx
        · have := hocc_lt x hx; omega
        · simp at hx; omega
      · have hl : (occupied s).length = occ.length := by
          have := congrArg List.length (occupied_seq s h); simpa [occ] using this
        simp only [List.getLast?_append, List.getLast?_singleton, Option.some_or, List.length_append,
          List.length_cons, List.length_nil, hrr, hl]
        omega
    · by_cases h0 : relPos p.seq s.last = 0
      · -- in order: the packet and the run of buffered packets behind it
        rw [reorder_inorder s p hr hf h0]
        have hr0 : r = 0 := by omega
        subst hr0
        refine ⟨List.range (scanLen s + 1), ⟨?_, range_pairwise _, ?_⟩, ?_⟩
        · simp only [List.map_cons, drainTail_seq s h]
          rw [List.range_succ_eq_map, List.map_cons, List.map_map]
          simp [seqAt, hseq]
        · intro x hx
          have := (scan_spec s h).1
          have : x < scanLen s + 1 := by simpa using hx
          omega
        · simp [List.getLast?_range]
      · -- stored in (or duplicate of) a slot: nothing delivered
        cases hs : s.buf.getD (slotIdx s (relPos p.seq s.last).toNat) none with
        | some q => rw [reorder_dup s p hr hf h0 q hs]; exact ⟨[], ⟨rfl, List.Pairwise.nil, by simp⟩, rfl⟩
        | none => rw [reorder_put s p hr hf h0 hs]; exact ⟨[], ⟨rfl, List.Pairwise.nil, by simp⟩, rfl⟩

end Rtsp.Recv
