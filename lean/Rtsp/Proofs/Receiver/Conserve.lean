import Rtsp.Proofs.Receiver.Run
/-
Packet identity: what `reorder` / `ProcessPacket2` deliver plus what is still waiting in the buffer
is, as a multiset, contained in what arrived plus what was waiting before — with equality (a
permutation) for every step that is neither behind the origin nor a copy of a waiting packet.
Lifted to whole histories by induction.
-/
namespace Rtsp.Recv

/-- all packets delivered along a history, in delivery order -/
def delivered (os : List Out) : List Pkt := os.flatMap (·.pkts)

/-- multiset inclusion, count-based (core Lean has no `List.Subperm`) -/
def SubMs (a b : List Pkt) : Prop := ∀ q, a.count q ≤ b.count q

theorem filterMap_congr' {α β : Type} (f g : α → Option β) (l : List α) (h : ∀ x ∈ l, f x = g x) :
    l.filterMap f = l.filterMap g := by
  induction l with
  | nil => rfl
  | cons a l ih =>
    simp only [List.filterMap_cons, h a (by simp), ih (fun x hx => h x (by simp [hx]))]

/-! ### `occupied` depends on the buffer and the origin slot only -/

theorem occupied_congr (s t : State) (hb : t.buf = s.buf) (ha : t.absPos = s.absPos) :
    occupied t = occupied s := by
  unfold occupied
  have hs : ∀ i, slot t i = slot s i := by intro i; simp [slot, slotIdx, hb, ha]
  rw [hb]
  exact filterMap_congr' _ _ _ (fun i _ => hs i)

theorem occupied_of_empty (s : State) (h : ∀ i, slot s i = none) : occupied s = [] := by
  unfold occupied
  apply List.filterMap_eq_nil_iff.mpr
  intro i _; exact h i

theorem occupied_cleared (s : State) (l : UInt16) (nc : Nat) :
    occupied { s with negCount := nc, buf := clearAll s, last := l } = [] :=
  occupied_of_empty _ (fun i => slot_replicate _ s.buf.length rfl i)

theorem occupied_nil_slot (s : State) (h : occupied s = []) (i : Nat) (hi : i < s.buf.length) :
    slot s i = none := by
  cases hs : slot s i with
  | none => rfl
  | some q =>
    have : q ∈ occupied s := (mem_occupied s q).mpr ⟨i, hi, hs⟩
    rw [h] at this; simp at this

/-! ### storing a packet -/

theorem slot_put (s : State) (h : WInv s) (p : Pkt) (r : Nat) (hr : r < s.buf.length)
    (i : Nat) (hi : i < s.buf.length) :
    slot { s with negCount := 0, buf := s.buf.set (slotIdx s r) (some p) } i
      = if r = i then some p else slot s i := by
  have hN := h.pow2.pos
  have hidx : ∀ i, slotIdx s i = (s.absPos + i) % s.buf.length := slotIdx_mod s h.pow2
  have e1 : slot { s with negCount := 0, buf := s.buf.set (slotIdx s r) (some p) } i
      = (s.buf.set (slotIdx s r) (some p)).getD (slotIdx s i) none := by
    simp [slot, slotIdx]
  rw [e1, getD_set _ _ _ _ (by rw [hidx]; exact Nat.mod_lt _ hN)]
  by_cases hri : r = i
  · subst hri; simp
  · have : slotIdx s r ≠ slotIdx s i := by
      rw [hidx, hidx]; intro heq
      exact hri (mod_inj _ _ _ _ h.abs_lt hr hi heq)
    simp [this, hri, slot]

theorem filterMap_update_perm (f g : Nat → Option Pkt) (r : Nat) (p : Pkt) (l : List Nat)
    (hnd : l.Nodup) (hr : r ∈ l) (hf : f r = none)
    (hg : ∀ j ∈ l, g j = if r = j then some p else f j) :
    (l.filterMap g).Perm (p :: l.filterMap f) := by
  induction l with
  | nil => simp at hr
  | cons a l ih =>
    have hnd' := List.nodup_cons.mp hnd
    by_cases har : r = a
    · subst har
      have hga : g r = some p := by rw [hg r (by simp)]; simp
      have hcongr : l.filterMap g = l.filterMap f := by
        apply filterMap_congr'
        intro j hj
        rw [hg j (by simp [hj])]
        have : r ≠ j := by intro e; subst e; exact hnd'.1 hj
        simp [this]
      simp [hga, hf, hcongr]
    · have hrl : r ∈ l := by
        rcases List.mem_cons.mp hr with e | e
        · exact absurd e har
        · exact e
      have ih' := ih hnd'.2 hrl (fun j hj => hg j (by simp [hj]))
      have hga : g a = f a := by rw [hg a (by simp)]; simp [har]
      simp only [List.filterMap_cons, hga]
      cases hfa : f a with
      | none => exact ih'
      | some x => exact (List.Perm.cons x ih').trans (List.Perm.swap p x _)

theorem range_nodup' (n : Nat) : (List.range n).Nodup := by
  have := range_pairwise n
  exact this.imp (fun h => Nat.ne_of_lt h)

/-- after `buffer[p] = pkt` the waiting packets are the old ones plus the new one -/
theorem occupied_put (s : State) (h : WInv s) (p : Pkt) (r : Nat) (hr : r < s.buf.length)
    (hs : slot s r = none) :
    (occupied { s with negCount := 0, buf := s.buf.set (slotIdx s r) (some p) }).Perm
      (p :: occupied s) := by
  unfold occupied
  have hlen : ({ s with negCount := 0, buf := s.buf.set (slotIdx s r) (some p) } : State).buf.length
      = s.buf.length := by simp
  rw [hlen]
  exact filterMap_update_perm (slot s) _ r p _ (range_nodup' _) (by simpa using hr) hs
    (fun j hj => slot_put s h p r hr j (by simpa using hj))

/-! ### draining after an in-order packet -/

/-- the waiting packets split into the drained run and what is still waiting afterwards -/
theorem occupied_drain (s : State) (h : WInv s) :
    occupied s = drainTail s ++ occupied (drained s) := by
  obtain ⟨hk, _, _⟩ := scan_spec s h
  have hlen : (drained s).buf.length = s.buf.length := by simp [drained, drainBuf_length]
  have hN : s.buf.length = (scanLen s + 1) + (s.buf.length - scanLen s - 1) := by omega
  have hN' : s.buf.length = (s.buf.length - scanLen s - 1) + (scanLen s + 1) := by omega
  -- left side
  have hL : occupied s = drainTail s
      ++ (List.range (s.buf.length - scanLen s - 1)).filterMap (fun i => slot s (scanLen s + 1 + i)) := by
    unfold occupied drainTail
    conv => lhs; rw [hN]
    rw [List.range_add, List.filterMap_append, List.range_succ_eq_map, List.filterMap_cons, h.head,
      List.filterMap_map, List.filterMap_map]
    rfl
  -- right side
  have hR : occupied (drained s)
      = (List.range (s.buf.length - scanLen s - 1)).filterMap (fun i => slot s (scanLen s + 1 + i)) := by
    unfold occupied
    rw [hlen]
    conv => lhs; rw [hN']
    rw [List.range_add, List.filterMap_append]
    have h2 : List.filterMap (slot (drained s))
        (List.map (fun x => s.buf.length - scanLen s - 1 + x) (List.range (scanLen s + 1))) = [] := by
      apply List.filterMap_eq_nil_iff.mpr
      intro i hi
      obtain ⟨j, hj, rfl⟩ := List.mem_map.mp hi
      have hj' : j < scanLen s + 1 := by simpa using hj
      have := slot_drain s h (s.buf.length - scanLen s - 1 + j) (by omega)
      unfold drained
      rw [this]
      simp; omega
    rw [h2, List.append_nil]
    apply filterMap_congr'
    intro i hi
    have hi' : i < s.buf.length - scanLen s - 1 := by simpa using hi
    have := slot_drain s h i (by omega)
    unfold drained
    rw [this]
    simp; intro hcontra; omega
  rw [hL, hR]

/-! ### one `reorder` call -/

/-- **exact conservation** for an arrival inside the window (or ahead of it) that is not a copy of a
packet waiting in its slot: delivered ++ still waiting is a permutation of arrival :: waiting -/
theorem reorder_perm (s : State) (p : Pkt) (h : WInv s) (hr : 0 ≤ relPos p.seq s.last)
    (hnd : relPos p.seq s.last < s.buf.length →
      s.buf.getD (slotIdx s (relPos p.seq s.last).toNat) none = none ∨ relPos p.seq s.last = 0) :
    ((reorder s p).2.pkts ++ occupied (reorder s p).1).Perm (p :: occupied s) := by
  have hr' : ¬ relPos p.seq s.last < 0 := by omega
  by_cases hf : relPos p.seq s.last ≥ (s.buf.length : Int)
  · rw [reorder_flush s p hr' hf]
    have : occupied { s with negCount := 0, buf := clearAll s } = [] := occupied_cleared s s.last 0
    simp only [this, List.append_nil]
    exact List.perm_append_comm.trans (by simp)
  · by_cases h0 : relPos p.seq s.last = 0
    · rw [reorder_inorder s p hr' hf h0]
      have := occupied_drain s h
      simp only [drained] at this
      simp only [List.cons_append]
      rw [← this]
    · have hlt : relPos p.seq s.last < s.buf.length := by omega
      rcases hnd hlt with hs | hz
      · rw [reorder_put s p hr' hf h0 hs]
        simp only [List.nil_append]
        exact occupied_put s h p _ (by omega) hs
      · exact absurd hz h0

/-- **conservation, every branch**: delivered ++ still waiting ⊆ arrival :: waiting (as multisets) -/
theorem reorder_subms (s : State) (p : Pkt) (h : WInv s) :
    SubMs ((reorder s p).2.pkts ++ occupied (reorder s p).1) (p :: occupied s) := by
  intro q
  by_cases hr : relPos p.seq s.last < 0
  · by_cases hn : s.negCount + 1 > s.buf.length
    · rw [reorder_restart s p hr hn]
      have : occupied { s with negCount := 0, buf := clearAll s } = [] := occupied_cleared s s.last 0
      simp only [this, List.append_nil]
      simp [List.count_cons]
    · rw [reorder_negative s p hr hn]
      have : occupied { s with negCount := s.negCount + 1 } = occupied s := occupied_congr _ _ rfl rfl
      simp only [this, List.nil_append]
      exact List.count_le_count_cons
  · by_cases hd : relPos p.seq s.last < s.buf.length →
        s.buf.getD (slotIdx s (relPos p.seq s.last).toNat) none = none ∨ relPos p.seq s.last = 0
    · exact Nat.le_of_eq ((reorder_perm s p h (by omega) hd).count_eq q)
    · have hlt : relPos p.seq s.last < s.buf.length := by
        apply Classical.byContradiction; intro hc; exact hd (fun h' => absurd h' hc)
      have h0 : relPos p.seq s.last ≠ 0 := by intro e; exact hd (fun _ => Or.inr e)
      cases hs : s.buf.getD (slotIdx s (relPos p.seq s.last).toNat) none with
      | none => exact absurd (fun _ => Or.inl hs) hd
      | some x =>
        rw [reorder_dup s p hr (by omega) h0 x hs]
        have : occupied { s with negCount := 0 } = occupied s := occupied_congr _ _ rfl rfl
        simp only [this, List.nil_append]
        exact List.count_le_count_cons

/-! ### one `ProcessPacket2` call, any mode, first packet or not -/

theorem step_occupied_unrel (s : State) (p : Pkt) (hf : s.first = true) (hu : s.unreliable = true) :
    occupied (step s p).1 = occupied (reorder s p).1 := by
  obtain ⟨hb, ha, _, _, _⟩ := step_unrel_fields s p hf hu
  exact occupied_congr _ _ hb ha

theorem step_subms (s : State) (p : Pkt) (h : Inv s) :
    SubMs ((step s p).2.pkts ++ occupied (step s p).1) (p :: occupied s) := by
  cases hf : s.first with
  | false =>
    rw [step_first s p hf]
    have : occupied { s with first := true, received := 1, rlSince := 1, last := p.seq } = occupied s :=
      occupied_congr _ _ rfl rfl
    simp only [this]
    intro q; exact Nat.le_refl _
  | true =>
    cases hu : s.unreliable with
    | true =>
      rw [step_occupied_unrel s p hf hu, (step_unrel_fields s p hf hu).2.2.2.2]
      exact reorder_subms s p (h.win hu)
    | false =>
      have hocc : occupied (step s p).1 = occupied s := by
        rw [step_rel s p hf hu]
        exact occupied_congr _ _ (by simp [advance, counted]) (by simp [advance, counted])
      rw [hocc, step_rel s p hf hu]
      intro q; exact Nat.le_refl _

/-! ### whole histories -/

theorem run_cons (s : State) (p : Pkt) (ps : List Pkt) :
    run s (p :: ps) = ((run (step s p).1 ps).1, (step s p).2 :: (run (step s p).1 ps).2) := rfl

theorem inv_run (s : State) (ps : List Pkt) (h : Inv s) : Inv (run s ps).1 := by
  induction ps generalizing s with
  | nil => exact h
  | cons p ps ih => rw [run_cons]; exact ih _ (inv_step s p h)

/-- **packet identity along every history**: every delivered packet is one of the arrivals (or was
waiting at the start), with multiplicity — delivered ++ still buffered is a sub-multiset of
arrivals ++ initially buffered -/
theorem run_subms (s : State) (ps : List Pkt) (h : Inv s) :
    SubMs (delivered (run s ps).2 ++ occupied (run s ps).1) (ps ++ occupied s) := by
  induction ps generalizing s with
  | nil => intro q; simp [run, delivered]
  | cons p ps ih =>
    rw [run_cons]
    intro q
    have h1 := ih (step s p).1 (inv_step s p h) q
    have h2 := step_subms s p h q
    simp only [delivered, List.flatMap_cons, List.count_append, List.count_cons, List.cons_append] at *
    omega

/-! ### the state after the first packet -/

/-- the state `ProcessPacket2` leaves after the very first packet `p` -/
def started (u : Bool) (size : Nat) (p : Pkt) : State :=
  { (Recv.init u size) with first := true, received := 1, rlSince := 1, last := p.seq }

theorem step_init (u : Bool) (size : Nat) (p : Pkt) :
    step (Recv.init u size) p = (started u size p, { pkts := [p], lost := 0 }) :=
  step_first _ p rfl

theorem inv_started (u : Bool) (size : Nat) (hs : u = true → Pow2 size) (p : Pkt) :
    Inv (started u size p) := by
  have := inv_step _ p (inv_init u size hs)
  rw [step_init] at this
  exact this

theorem occupied_init (u : Bool) (size : Nat) : occupied (Recv.init u size) = [] := by
  apply occupied_of_empty
  intro i
  cases u with
  | true => exact slot_replicate _ size (init_buf size) i
  | false => simp [slot, Recv.init]

theorem occupied_started (u : Bool) (size : Nat) (p : Pkt) : occupied (started u size p) = [] := by
  rw [← occupied_init u size]
  exact occupied_congr _ _ rfl rfl

/-! ### consequences for identities -/

theorem SubMs.mem {a b : List Pkt} (h : SubMs a b) {q : Pkt} (hq : q ∈ a) : q ∈ b := by
  have := h q
  have h1 : 0 < a.count q := List.count_pos_iff.mpr hq
  exact List.count_pos_iff.mp (by omega)

theorem SubMs.nodup {a b : List Pkt} (h : SubMs a b) (hb : b.Nodup) : a.Nodup := by
  apply List.nodup_iff_count.mpr
  intro q
  exact Nat.le_trans (h q) (List.nodup_iff_count.mp hb q)

theorem pairwise_ids_of_mem {b : List Pkt} (hb : b.Pairwise (fun x y => x.id ≠ y.id))
    {x y : Pkt} (hx : x ∈ b) (hy : y ∈ b) (hne : x ≠ y) : x.id ≠ y.id := by
  induction b with
  | nil => simp at hx
  | cons c cs ih =>
    obtain ⟨h1, h2⟩ := List.pairwise_cons.mp hb
    rcases List.mem_cons.mp hx with ex | ex <;> rcases List.mem_cons.mp hy with ey | ey
    · subst ex; subst ey; exact absurd rfl hne
    · subst ex; exact h1 y ey
    · subst ey; exact fun e => h1 x ex e.symm
    · exact ih h2 ex ey

/-- a sub-multiset of a list with pairwise distinct ids has pairwise distinct ids -/
theorem SubMs.ids_nodup {a b : List Pkt} (h : SubMs a b) (hb : (b.map (·.id)).Nodup) :
    (a.map (·.id)).Nodup := by
  have hb' : b.Pairwise (fun x y => x.id ≠ y.id) := List.pairwise_map.mp hb
  have hbn : b.Nodup := hb'.imp (fun hxy e => hxy (by rw [e]))
  have han : a.Nodup := h.nodup hbn
  apply List.pairwise_map.mpr
  induction a with
  | nil => exact List.Pairwise.nil
  | cons x xs ih =>
    have hc := List.nodup_cons.mp han
    have hsub : SubMs xs b := by
      intro q; have := h q; simp only [List.count_cons] at this; omega
    refine List.pairwise_cons.mpr ⟨?_, ih hsub hc.2⟩
    intro y hy
    have hxb : x ∈ b := h.mem (by simp)
    have hyb : y ∈ b := hsub.mem hy
    exact pairwise_ids_of_mem hb' hxb hyb (by intro e; subst e; exact hc.1 hy)

end Rtsp.Recv
