import Rtsp.Proofs.Receiver.Conserve
/-
The displacement clause in the case where it is true of the code: a loss-free, duplicate-free
arrival history in which no packet arrives before a packet whose sequence number is `BufferSize` or
more lower.  Then every arrival falls inside the window, nothing is flushed or dropped, and
everything is delivered exactly once, in order, with `lost = 0`.

Proof: a ghost description `Disp` of the state in terms of stream indices (how many packets of the
stream were delivered, which indices are still to arrive, which are waiting), preserved by every
step.
-/
namespace Rtsp.Recv

/-- every arrival of the history falls into the window `0 ≤ relPos < len(buffer)` of the state it
meets and is not a copy of a packet waiting in its slot: `reorder` takes neither the negative
(drop / restart) branch nor the whole-buffer flush branch nor the duplicate branch -/
def InWindow : State → List Pkt → Prop
  | _, [] => True
  | s, p :: ps =>
    (0 ≤ relPos p.seq s.last ∧ relPos p.seq s.last < (s.buf.length : Int) ∧
      (relPos p.seq s.last = 0 ∨ slot s (relPos p.seq s.last).toNat = none))
    ∧ InWindow (step s p).1 ps

/-- ghost description of a state in the middle of a loss-free run over the stream
`seqAt L 0, seqAt L 1, …, seqAt L (n-1)`: the first `b` packets of the stream were delivered,
the indices in `rest` are still to arrive (in that order), every other index `≥ b` is waiting in
the buffer -/
structure Disp (L : UInt16) (n : Nat) (s : State) (b : Nat) (rest : List Nat) : Prop where
  last  : s.last = curAt L b
  le    : b ≤ n
  nodup : rest.Nodup
  range : ∀ i ∈ rest, b ≤ i ∧ i < n
  cover : ∀ i, b ≤ i → i < n →
            (i ∈ rest ↔ ¬ (i - b < s.buf.length ∧ (slot s (i - b)).isSome = true))
  buf   : ∀ r, r < s.buf.length → (slot s r).isSome = true → b + r < n
  pw    : rest.Pairwise (fun a c => a < c + s.buf.length)

theorem slot_congr (s t : State) (hb : t.buf = s.buf) (ha : t.absPos = s.absPos) (i : Nat) :
    slot t i = slot s i := by simp [slot, slotIdx, hb, ha]

theorem disp_congr (L : UInt16) (n b : Nat) (rest : List Nat) (s t : State) (h : Disp L n s b rest)
    (hb : t.buf = s.buf) (ha : t.absPos = s.absPos) (hl : t.last = s.last) : Disp L n t b rest := by
  have hs := slot_congr s t hb ha
  exact ⟨by rw [hl]; exact h.last, h.le, h.nodup, h.range,
    by intro i h1 h2; rw [hs, hb]; exact h.cover i h1 h2,
    by intro r h1 h2; rw [hs] at h2; rw [hb] at h1; exact h.buf r h1 h2,
    by rw [hb]; exact h.pw⟩

theorem curAt_add (L : UInt16) (a c : Nat) : curAt (curAt L a) c = curAt L (a + c) := by
  unfold curAt
  apply UInt16.toNat_inj.mp
  simp [UInt16.toNat_add, UInt16.toNat_ofNat']
  omega

theorem seqAt_curAt (L : UInt16) (a j : Nat) : seqAt (curAt L a) j = seqAt L (a + j) := by
  rw [seqAt_eq_curAt, seqAt_eq_curAt, curAt_add]; rfl

theorem isSome_false_eq_none {α : Type} (o : Option α) (h : ¬ o.isSome = true) : o = none := by
  cases o with
  | none => rfl
  | some x => simp at h

/-- sequence number of the last packet delivered by an in-order step -/
theorem lastSeq_inorder (s : State) (h : WInv s) (p : Pkt) (hseq : p.seq = seqAt s.last 0) :
    lastSeq s.last (p :: drainTail s) = seqAt s.last (scanLen s) ∧
    (p :: drainTail s).map (·.seq) = (List.range (scanLen s + 1)).map (seqAt s.last) := by
  have hm : (p :: drainTail s).map (·.seq) = (List.range (scanLen s + 1)).map (seqAt s.last) := by
    simp only [List.map_cons, drainTail_seq s h]
    rw [List.range_succ_eq_map, List.map_cons, List.map_map]
    simp [hseq]
  refine ⟨?_, hm⟩
  rw [lastSeq_map, hm, List.getLast?_map, List.getLast?_range]
  simp

/-- **one arrival of a loss-free, boundedly displaced history** (at the level of `reorder`) -/
theorem disp_reorder (L : UInt16) (n b i : Nat) (rest : List Nat) (s : State) (p : Pkt)
    (hw : WInv s) (hd : Disp L n s b (i :: rest)) (hp : p.seq = seqAt L i) :
    ∃ b', b ≤ b' ∧
      Disp L n { (reorder s p).1 with last := lastSeq s.last (reorder s p).2.pkts } b' rest ∧
      (0 ≤ relPos p.seq s.last ∧ relPos p.seq s.last < (s.buf.length : Int) ∧
        (relPos p.seq s.last = 0 ∨ slot s (relPos p.seq s.last).toNat = none)) ∧
      (reorder s p).2.restart = false ∧ (reorder s p).2.lost = 0 ∧
      (reorder s p).2.pkts.map (·.seq) = (List.range' b (b' - b)).map (seqAt L) := by
  have hN := hw.pow2.pos
  have hNle := hw.pow2.le
  obtain ⟨hbi, hin⟩ := hd.range i (by simp)
  obtain ⟨hnd1, hnd2⟩ := List.nodup_cons.mp hd.nodup
  obtain ⟨hpw1, hpw2⟩ := List.pairwise_cons.mp hd.pw
  -- the arrival is inside the window
  have hiN : i - b < s.buf.length := by
    by_cases hib : i = b
    · omega
    · have hbmem : b ∈ i :: rest := by
        apply (hd.cover b (Nat.le_refl _) (by omega)).mpr
        rw [Nat.sub_self, hw.head]; simp
      rcases List.mem_cons.mp hbmem with e | e
      · exact absurd e.symm hib
      · have := hpw1 b e; omega
  have hrel : relPos p.seq s.last = ((i - b : Nat) : Int) := by
    rw [hp, hd.last, seqAt_eq_curAt]
    have := (rel_curAt L b (i + 1) (by omega) (by omega)).1
    rw [this]; congr 1; omega
  have hr' : ¬ relPos p.seq s.last < 0 := by omega
  have hf' : ¬ relPos p.seq s.last ≥ (s.buf.length : Int) := by omega
  by_cases hib : i = b
  · -- in order: delivered together with the run of waiting packets behind it
    subst hib
    have h0 : relPos p.seq s.last = 0 := by rw [hrel]; simp
    obtain ⟨hk, hocc, hend⟩ := scan_spec s hw
    have hseq0 : p.seq = seqAt s.last 0 := by rw [hp, hd.last, seqAt_curAt]; rfl
    obtain ⟨hlast, hseqs⟩ := lastSeq_inorder s hw p hseq0
    rw [reorder_inorder s p hr' hf' h0]
    have hlen : (drainBuf s).length = s.buf.length := drainBuf_length s
    have hsl : ∀ j, j < s.buf.length →
        slot { ({ s with negCount := 0, buf := drainBuf s, absPos := slotIdx s (scanLen s + 1) } : State)
               with last := lastSeq s.last (p :: drainTail s) } j
          = if scanLen s + 1 + j < s.buf.length then slot s (scanLen s + 1 + j) else none :=
      fun j hj => slot_drain s hw j hj
    have hle' : i + scanLen s + 1 ≤ n := by
      by_cases hk0 : scanLen s = 0
      · omega
      · have := hd.buf (scanLen s) hk (by have := hocc (scanLen s - 1) (by omega); rwa [show scanLen s - 1 + 1 = scanLen s by omega] at this)
        omega
    refine ⟨i + scanLen s + 1, by omega, ⟨?_, hle', hnd2, ?_, ?_, ?_, ?_⟩, ⟨by omega, by omega, Or.inl h0⟩, rfl, rfl, ?_⟩
    · show lastSeq s.last (p :: drainTail s) = _
      rw [hlast, hd.last, seqAt_curAt, seqAt_eq_curAt]
    · intro j hj
      obtain ⟨h1, h2⟩ := hd.range j (by simp [hj])
      refine ⟨?_, h2⟩
      have hji : j ≠ i := by intro e; subst e; exact hnd1 hj
      apply Classical.byContradiction
      intro hlt
      have hocc' := hocc (j - i - 1) (by omega)
      rw [show j - i - 1 + 1 = j - i by omega] at hocc'
      have := (hd.cover j h1 h2).mp (by simp [hj])
      exact this ⟨by omega, hocc'⟩
    · intro j h1 h2
      have hji : j ≠ i := by omega
      have hc := hd.cover j (by omega) h2
      have hmem : j ∈ rest ↔ j ∈ i :: rest := by simp [hji]
      rw [hmem, hc]
      simp only [hlen]
      by_cases hjN : j - (i + scanLen s + 1) < s.buf.length
      · rw [hsl _ hjN]
        have e : scanLen s + 1 + (j - (i + scanLen s + 1)) = j - i := by omega
        rw [e]
        by_cases hjb : j - i < s.buf.length
        · simp [hjN, hjb]
        · simp [hjb]
      · have : ¬ j - i < s.buf.length := by omega
        simp [hjN, this]
    · intro r hr hsome
      have hr' : r < s.buf.length := by simpa [hlen] using hr
      rw [hsl r hr'] at hsome
      split at hsome
      · rename_i hlt
        have := hd.buf _ hlt hsome
        omega
      · simp at hsome
    · simpa [hlen] using hpw2
    · show (p :: drainTail s).map (·.seq) = _
      rw [hseqs, show i + scanLen s + 1 - i = scanLen s + 1 by omega, List.range'_eq_map_range,
        List.map_map]
      apply List.map_congr_left
      intro j _
      simp only [Function.comp]
      rw [hd.last, seqAt_curAt]
  · -- ahead of the origin, inside the window: stored in its (empty) slot
    have h0 : relPos p.seq s.last ≠ 0 := by rw [hrel]; omega
    have hnone : slot s (i - b) = none := by
      apply isSome_false_eq_none
      intro hsome
      exact (hd.cover i hbi hin).mp (by simp) ⟨hiN, hsome⟩
    have e : (relPos p.seq s.last).toNat = i - b := by rw [hrel]; simp
    have hs : s.buf.getD (slotIdx s (relPos p.seq s.last).toNat) none = none := by
      rw [e]; exact hnone
    rw [reorder_put s p hr' hf' h0 hs, e]
    have hsl : ∀ j, j < s.buf.length →
        slot { ({ s with negCount := 0, buf := s.buf.set (slotIdx s (i - b)) (some p) } : State)
               with last := lastSeq s.last [] } j
          = if i - b = j then some p else slot s j :=
      fun j hj => slot_put s hw p (i - b) hiN j hj
    refine ⟨b, Nat.le_refl _, ⟨hd.last, hd.le, hnd2, fun j hj => hd.range j (by simp [hj]), ?_, ?_, ?_⟩,
      ⟨by omega, by omega, Or.inr hnone⟩, rfl, rfl, by simp⟩
    · intro j h1 h2
      simp only [List.length_set]
      by_cases hji : j = i
      · subst hji
        rw [hsl _ hiN]
        simp [hnd1, hiN]
      · have hc := hd.cover j h1 h2
        have hmem : j ∈ rest ↔ j ∈ i :: rest := by simp [hji]
        rw [hmem, hc]
        by_cases hjN : j - b < s.buf.length
        · rw [hsl _ hjN]
          have : ¬ i - b = j - b := by omega
          simp [this]
        · simp [hjN]
    · intro r hr hsome
      have hr' : r < s.buf.length := by simpa using hr
      rw [hsl r hr'] at hsome
      by_cases hrr : i - b = r
      · omega
      · simp only [hrr, if_false] at hsome
        exact hd.buf r hr' hsome
    · simpa using hpw2

/-- the same for `ProcessPacket2` -/
theorem disp_step (L : UInt16) (n b i : Nat) (rest : List Nat) (s : State) (p : Pkt)
    (hw : WInv s) (hf : s.first = true) (hu : s.unreliable = true)
    (hd : Disp L n s b (i :: rest)) (hp : p.seq = seqAt L i) :
    ∃ b', b ≤ b' ∧ Disp L n (step s p).1 b' rest ∧
      (0 ≤ relPos p.seq s.last ∧ relPos p.seq s.last < (s.buf.length : Int) ∧
        (relPos p.seq s.last = 0 ∨ slot s (relPos p.seq s.last).toNat = none)) ∧
      (step s p).2.restart = false ∧ (step s p).2.lost = 0 ∧
      (step s p).2.pkts.map (·.seq) = (List.range' b (b' - b)).map (seqAt L) := by
  obtain ⟨b', h1, h2, h3, h4, h5, h6⟩ := disp_reorder L n b i rest s p hw hd hp
  obtain ⟨hb, ha, _, hl, ho⟩ := step_unrel_fields s p hf hu
  refine ⟨b', h1, disp_congr L n b' rest _ _ h2 hb ha hl, h3, ?_, ?_, ?_⟩
  · rw [ho]; exact h4
  · rw [ho]; exact h5
  · rw [ho]; exact h6

theorem lostTotal_zero (os : List Out) (h : ∀ o ∈ os, o.lost = 0) : lostTotal os = 0 := by
  induction os with
  | nil => rfl
  | cons o os ih =>
    simp only [lostTotal, List.map_cons, List.sum_cons] at *
    have h1 := h o (by simp)
    have h2 := ih (fun x hx => h x (by simp [hx]))
    omega

/-- **a loss-free, boundedly displaced history, from any state described by `Disp`** -/
theorem disp_run (L : UInt16) (n : Nat) (s : State) (b : Nat) (rest : List Nat) (ps : List Pkt)
    (hinv : Inv s) (hf : s.first = true) (hu : s.unreliable = true) (hd : Disp L n s b rest)
    (hps : ps.map (·.seq) = rest.map (seqAt L)) :
    InWindow s ps ∧ (∀ o ∈ (run s ps).2, o.restart = false ∧ o.lost = 0) ∧
    (delivered (run s ps).2).map (·.seq) = (List.range' b (n - b)).map (seqAt L) ∧
    occupied (run s ps).1 = [] := by
  induction ps generalizing s b rest with
  | nil =>
    have hr : rest = [] := by
      cases rest with
      | nil => rfl
      | cons a as => simp at hps
    subst hr
    have hw := hinv.win hu
    have hbn : b = n := by
      apply Classical.byContradiction
      intro hne
      have hlt : b < n := by have := hd.le; omega
      have := (hd.cover b (Nat.le_refl _) hlt).mpr (by rw [Nat.sub_self, hw.head]; simp)
      simp at this
    refine ⟨trivial, by simp [run], by simp [run, delivered, hbn], ?_⟩
    simp only [run]
    unfold occupied
    apply List.filterMap_eq_nil_iff.mpr
    intro r hr
    have hr' : r < s.buf.length := by simpa using hr
    apply isSome_false_eq_none
    intro hsome
    have := hd.buf r hr' hsome
    omega
  | cons p ps ih =>
    cases rest with
    | nil => simp at hps
    | cons i rest =>
      simp only [List.map_cons, List.cons.injEq] at hps
      obtain ⟨b', hbb, hd', hwin, hnr, hl0, hseqs⟩ :=
        disp_step L n b i rest s p (hinv.win hu) hf hu hd hps.1
      obtain ⟨i1, i2, i3, i4⟩ := ih (step s p).1 b' rest (inv_step s p hinv) (step_first_true s p hf)
        (by rw [step_unreliable s p hf]; exact hu) hd' hps.2
      rw [run_cons]
      refine ⟨⟨hwin, i1⟩, ?_, ?_, i4⟩
      · intro o ho
        rcases List.mem_cons.mp ho with e | e
        · subst e; exact ⟨hnr, hl0⟩
        · exact i2 o e
      · have hb'n := hd'.le
        simp only [delivered, List.flatMap_cons, List.map_append] at i3 ⊢
        rw [hseqs, i3, ← List.map_append]
        congr 1
        have : n - b = (b' - b) + (n - b') := by omega
        rw [this, ← List.range'_append_1]
        congr 2
        omega

/-- a prefix of such a history: the `Disp` description holds again after it -/
theorem disp_prefix (L : UInt16) (n : Nat) (s : State) (b : Nat) (rest1 rest2 : List Nat)
    (ps1 : List Pkt) (hinv : Inv s) (hf : s.first = true) (hu : s.unreliable = true)
    (hd : Disp L n s b (rest1 ++ rest2)) (hps : ps1.map (·.seq) = rest1.map (seqAt L)) :
    ∃ b', b ≤ b' ∧ Disp L n (run s ps1).1 b' rest2 ∧
      (delivered (run s ps1).2).map (·.seq) = (List.range' b (b' - b)).map (seqAt L) ∧
      WInv (run s ps1).1 := by
  induction ps1 generalizing s b rest1 with
  | nil =>
    have hr : rest1 = [] := by
      cases rest1 with
      | nil => rfl
      | cons a as => simp at hps
    subst hr
    exact ⟨b, Nat.le_refl _, by simpa [run] using hd, by simp [run, delivered], by simpa [run] using hinv.win hu⟩
  | cons p ps ih =>
    cases rest1 with
    | nil => simp at hps
    | cons i rest1 =>
      simp only [List.map_cons, List.cons.injEq] at hps
      obtain ⟨b1, hbb, hd1, _, _, _, hseqs⟩ :=
        disp_step L n b i (rest1 ++ rest2) s p (hinv.win hu) hf hu (by simpa using hd) hps.1
      obtain ⟨b', hb', hd', hdel, hw'⟩ := ih (step s p).1 b1 rest1 (inv_step s p hinv)
        (step_first_true s p hf) (by rw [step_unreliable s p hf]; exact hu) hd1 hps.2
      rw [run_cons]
      refine ⟨b', by omega, hd', ?_, hw'⟩
      simp only [delivered, List.flatMap_cons, List.map_append] at hdel ⊢
      rw [hseqs, hdel, ← List.map_append]
      congr 1
      have : b' - b = (b1 - b) + (b' - b1) := by omega
      rw [this, ← List.range'_append_1]
      congr 2
      omega

/-- in the state described by `Disp`, the first undelivered packet of the stream has not arrived -/
theorem disp_next_pending (L : UInt16) (n : Nat) (s : State) (b : Nat) (rest : List Nat)
    (hw : WInv s) (hd : Disp L n s b rest) (hb : b < n) : b ∈ rest := by
  apply (hd.cover b (Nat.le_refl _) hb).mpr
  rw [Nat.sub_self, hw.head]; simp

/-- exact conservation of packet identities along a history that stays inside the window -/
theorem inwindow_perm (s : State) (ps : List Pkt) (h : Inv s) (hf : s.first = true)
    (hu : s.unreliable = true) (hwin : InWindow s ps) :
    (delivered (run s ps).2 ++ occupied (run s ps).1).Perm (occupied s ++ ps) := by
  induction ps generalizing s with
  | nil => simp [run, delivered]
  | cons p ps ih =>
    obtain ⟨⟨w1, w2, w3⟩, wrest⟩ := hwin
    have ih' := ih (step s p).1 (inv_step s p h) (step_first_true s p hf)
      (by rw [step_unreliable s p hf]; exact hu) wrest
    have hperm := reorder_perm s p (h.win hu) w1 (by
      intro _
      rcases w3 with e | e
      · exact Or.inr e
      · exact Or.inl e)
    rw [← step_occupied_unrel s p hf hu, ← (step_unrel_fields s p hf hu).2.2.2.2] at hperm
    rw [run_cons]
    simp only [delivered, List.flatMap_cons, List.append_assoc] at ih' ⊢
    calc (step s p).2.pkts ++ (List.flatMap (fun x => x.pkts) (run (step s p).1 ps).2 ++ occupied (run (step s p).1 ps).1)
        |>.Perm ((step s p).2.pkts ++ (occupied (step s p).1 ++ ps)) := List.Perm.append_left _ ih'
      _ |>.Perm (((step s p).2.pkts ++ occupied (step s p).1) ++ ps) := by rw [List.append_assoc]
      _ |>.Perm ((p :: occupied s) ++ ps) := List.Perm.append_right _ hperm
      _ |>.Perm (occupied s ++ p :: ps) := by
          simp only [List.cons_append]
          exact List.perm_middle.symm

/-- the hypotheses of the theorem, as a `Disp` description of the starting state -/
theorem disp_start (s : State) (hempty : occupied s = []) (idx : List Nat) (n : Nat)
    (hperm : idx.Perm (List.range n))
    (hdisp : idx.Pairwise (fun a c => a < c + s.buf.length)) : Disp s.last n s 0 idx := by
  have hmem : ∀ i, i ∈ idx ↔ i < n := by
    intro i; rw [hperm.mem_iff]; simp
  refine ⟨(curAt_zero _).symm, Nat.zero_le _, hperm.nodup_iff.mpr (range_nodup' n),
    fun i hi => ⟨Nat.zero_le _, (hmem i).mp hi⟩, ?_, ?_, hdisp⟩
  · intro i _ hi
    constructor
    · intro _ hc
      rw [occupied_nil_slot s hempty _ hc.1] at hc
      simp at hc
    · intro _; exact (hmem i).mpr hi
  · intro r hr hsome
    rw [occupied_nil_slot s hempty r hr] at hsome
    simp at hsome

end Rtsp.Recv
