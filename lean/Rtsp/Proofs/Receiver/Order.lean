import Rtsp.Proofs.Receiver.Step
/-
Ordering and loss accounting of one step, from the offset description of what is delivered;
preservation of the window invariant by `ProcessPacket2`.
-/
namespace Rtsp.Recv

/-- `b` is ahead of `a` in the receiver's own sense: `int16(b - a - 1) ≥ 0`, i.e. `b` is between 1
and 2^15 positions after `a` modulo 2^16 -/
def Fwd (a b : UInt16) : Prop := 0 ≤ relPos b a

instance (a b : UInt16) : Decidable (Fwd a b) := by unfold Fwd; infer_instance

/-- every element is ahead of its predecessor, starting from `a` -/
def IncFrom : UInt16 → List UInt16 → Prop
  | _, [] => True
  | a, b :: bs => Fwd a b ∧ IncFrom b bs

/-- sequence numbers skipped between `a` and `b` -/
def gap (a b : UInt16) : Nat := (b - a - 1).toNat

/-- sequence numbers skipped along a list of consecutively delivered packets, starting after `a` -/
def skipped : UInt16 → List UInt16 → Nat
  | _, [] => 0
  | a, b :: bs => gap a b + skipped b bs

def curAt (last : UInt16) (q : Nat) : UInt16 := last + UInt16.ofNat q

theorem seqAt_eq_curAt (last : UInt16) (r : Nat) : seqAt last r = curAt last (r + 1) := by
  unfold seqAt curAt
  apply UInt16.toNat_inj.mp
  simp [UInt16.toNat_add, UInt16.toNat_ofNat']
  omega

theorem curAt_zero (last : UInt16) : curAt last 0 = last := by
  unfold curAt
  apply UInt16.toNat_inj.mp
  simp [UInt16.toNat_add]

theorem rel_curAt (last : UInt16) (qa qb : Nat) (h1 : qa < qb) (h2 : qb - qa ≤ 32768) :
    relPos (curAt last qb) (curAt last qa) = ((qb - qa - 1 : Nat) : Int) ∧
    gap (curAt last qa) (curAt last qb) = qb - qa - 1 := by
  have hl := last.toNat_lt
  have e : (curAt last qb - curAt last qa - 1).toNat = qb - qa - 1 := by
    unfold curAt
    simp [UInt16.toNat_sub, UInt16.toNat_add, UInt16.toNat_ofNat']
    omega
  refine ⟨?_, e⟩
  rw [relPos_eq, e]
  have : qb - qa - 1 < 32768 := by omega
  simp [this]

/-- ordering and skipped count of a strictly increasing run of offsets -/
theorem offs_chain (last : UInt16) (q : Nat) (offs : List Nat) (hinc : offs.Pairwise (· < ·))
    (hge : ∀ r ∈ offs, q ≤ r) (hlt : ∀ r ∈ offs, r < 32768) :
    IncFrom (curAt last q) (offs.map (seqAt last)) ∧
    (∀ r', offs.getLast? = some r' →
      skipped (curAt last q) (offs.map (seqAt last)) + offs.length + q = r' + 1) := by
  induction offs generalizing q with
  | nil => simp [IncFrom]
  | cons r rs ih =>
    have hr := hge r (by simp)
    have hr2 := hlt r (by simp)
    obtain ⟨hrel, hgap⟩ := rel_curAt last q (r + 1) (by omega) (by omega)
    have hinc' := (List.pairwise_cons.mp hinc)
    obtain ⟨ih1, ih2⟩ := ih (r + 1) hinc'.2 (fun x hx => by have := hinc'.1 x hx; omega)
      (fun x hx => hlt x (by simp [hx]))
    simp only [List.map_cons, IncFrom, skipped, seqAt_eq_curAt last r]
    rw [← seqAt_eq_curAt] at ih1 ih2 ⊢
    rw [seqAt_eq_curAt last r]
    refine ⟨⟨by unfold Fwd; rw [hrel]; omega, ?_⟩, ?_⟩
    · simpa [seqAt_eq_curAt] using ih1
    · intro r' hr'
      rw [hgap]
      cases rs with
      | nil => simp at hr'; subst hr'; simp [skipped]; omega
      | cons x xs =>
        have hl : (x :: xs).getLast? = some r' := by simpa [List.getLast?_cons_cons] using hr'
        have := ih2 r' hl
        simp only [List.length_cons] at this ⊢
        simp only [seqAt_eq_curAt] at this ⊢
        omega

/-- **delivered sequence numbers strictly increase** within one non-restart step -/
theorem reorder_increasing (s : State) (p : Pkt) (h : WInv s) (hnr : (reorder s p).2.restart = false) :
    IncFrom s.last ((reorder s p).2.pkts.map (·.seq)) := by
  obtain ⟨offs, ⟨he, hinc, hlt⟩, _⟩ := reorder_offsets s p h hnr
  have := (offs_chain s.last 0 offs hinc (fun _ _ => Nat.zero_le _) hlt).1
  rw [curAt_zero] at this
  rw [he]; exact this

/-- **reported lost = sequence numbers skipped** between consecutively delivered packets -/
theorem reorder_lost_eq_skipped (s : State) (p : Pkt) (h : WInv s)
    (hnr : (reorder s p).2.restart = false) :
    (reorder s p).2.lost = skipped s.last ((reorder s p).2.pkts.map (·.seq)) := by
  obtain ⟨offs, ⟨he, hinc, hlt⟩, hlost⟩ := reorder_offsets s p h hnr
  have := (offs_chain s.last 0 offs hinc (fun _ _ => Nat.zero_le _) hlt).2
  rw [curAt_zero] at this
  rw [he, hlost]
  cases hg : offs.getLast? with
  | none =>
    have : offs = [] := List.getLast?_eq_none_iff.mp hg
    subst this; rfl
  | some r' =>
    have := this r' hg
    simp only
    omega

end Rtsp.Recv
