import Rtsp.Proofs.Receiver.Basic
/-
The window invariant of the reorder buffer and its preservation by `reorder` + the per-packet
loop of `ProcessPacket2`.
-/
namespace Rtsp.Recv

/-- window invariant (unreliable mode): the slot at `absPos` is empty — this is what makes Go's
`for { … n++ }` scan terminate — and the slot `r` positions further holds, if anything, exactly the
packet with sequence number `last + 1 + r`. -/
structure WInv (s : State) : Prop where
  pow2   : Pow2 s.buf.length
  abs_lt : s.absPos < s.buf.length
  head   : slot s 0 = none
  seqs   : ∀ r q, r < s.buf.length → slot s r = some q → q.seq = s.last + 1 + UInt16.ofNat r
  neg    : s.negCount ≤ s.buf.length

theorem slot_eq (s : State) (h : Pow2 s.buf.length) (i : Nat) :
    slot s i = s.buf.getD ((s.absPos + i) % s.buf.length) none := by
  unfold slot; rw [slotIdx_mod s h]

theorem slot_wrap (s : State) (h : Pow2 s.buf.length) (j : Nat) : slot s (j + s.buf.length) = slot s j := by
  rw [slot_eq s h, slot_eq s h, mod_wrap]

theorem init_buf (size : Nat) : (Recv.init true size).buf = List.replicate size none := by
  simp [Recv.init]

theorem slot_replicate (s : State) (n : Nat) (hb : s.buf = List.replicate n none) (i : Nat) :
    slot s i = none := by
  unfold slot; rw [hb]; exact getD_replicate_none _ _

theorem WInv.init (size : Nat) (h : Pow2 size) : WInv (Recv.init true size) := by
  have hl : (Recv.init true size).buf.length = size := by simp [Recv.init]
  refine ⟨by rw [hl]; exact h, by rw [hl]; exact h.pos, ?_, ?_, by simp [Recv.init]⟩
  · exact slot_replicate _ size (init_buf size) 0
  · intro r q _ hq
    rw [slot_replicate _ size (init_buf size) r] at hq
    simp at hq

theorem drainBuf_eq (s : State) :
    drainBuf s = ((List.range (scanLen s)).map (fun i => slotIdx s (i + 1))).foldl
      (fun (b : Buf) (j : Nat) => b.set j none) s.buf := by
  unfold drainBuf; rw [List.foldl_map]

theorem drainBuf_length (s : State) : (drainBuf s).length = s.buf.length := by
  rw [drainBuf_eq]; exact length_clear _ _

/-- specification of the scan loop -/
theorem scanFrom_spec (s : State) (fuel n : Nat) :
    n ≤ scanFrom s fuel n ∧ scanFrom s fuel n ≤ n + fuel ∧
    (∀ i, n ≤ i → i < scanFrom s fuel n → (slot s i).isSome = true) ∧
    (scanFrom s fuel n < n + fuel → slot s (scanFrom s fuel n) = none) := by
  induction fuel generalizing n with
  | zero => simp [scanFrom]; intro i h1 h2; omega
  | succ fuel ih =>
    simp only [scanFrom]
    split
    · rename_i hs
      obtain ⟨h1, h2, h3, h4⟩ := ih (n + 1)
      refine ⟨by omega, by omega, ?_, ?_⟩
      · intro i hi hlt
        by_cases hin : i = n
        · subst hin; exact hs
        · exact h3 i (by omega) hlt
      · intro hlt; exact h4 (by omega)
    · rename_i hs
      refine ⟨Nat.le_refl _, by omega, by intro i h1 h2; omega, ?_⟩
      intro _
      cases hq : slot s n with
      | none => rfl
      | some q => rw [hq] at hs; simp at hs

/-- **termination of Go's `for {}` scan**: under the invariant the scan stops within `len(buffer)`
iterations; slots `1 … scanLen` are occupied and slot `scanLen + 1` is empty. -/
theorem scan_spec (s : State) (h : WInv s) :
    scanLen s < s.buf.length ∧ (∀ i, i < scanLen s → (slot s (i + 1)).isSome = true) ∧
    slot s (scanLen s + 1) = none := by
  have hN := h.pow2.pos
  obtain ⟨h1, h2, h3, h4⟩ := scanFrom_spec s s.buf.length 1
  have hne : scanFrom s s.buf.length 1 ≠ 1 + s.buf.length := by
    intro heq
    have := h3 s.buf.length (by omega) (by omega)
    have e : s.buf.length = 0 + s.buf.length := by omega
    rw [e, slot_wrap s h.pow2 0, h.head] at this
    simp at this
  unfold scanLen
  refine ⟨by omega, ?_, ?_⟩
  · intro i hi; exact h3 (i + 1) (by omega) (by omega)
  · have := h4 (by omega)
    have e : scanFrom s s.buf.length 1 - 1 + 1 = scanFrom s s.buf.length 1 := by omega
    rw [e]; exact this

/-! ### the new window after each branch -/

theorem winv_congr (s t : State) (h : WInv s) (hb : t.buf = s.buf) (ha : t.absPos = s.absPos)
    (hl : t.last = s.last) (hn : t.negCount ≤ t.buf.length) : WInv t := by
  have hs : ∀ i, slot t i = slot s i := by intro i; simp [slot, slotIdx, hb, ha]
  exact ⟨by rw [hb]; exact h.pow2, by rw [hb, ha]; exact h.abs_lt, by rw [hs]; exact h.head,
    by intro r q hr hq; rw [hl]; rw [hs] at hq; rw [hb] at hr; exact h.seqs r q hr hq, hn⟩

/-- all slots empty: any `last` is fine -/
theorem winv_cleared (s : State) (h : WInv s) (l : UInt16) :
    WInv { s with negCount := 0, buf := clearAll s, last := l } := by
  have hlen : (clearAll s).length = s.buf.length := by simp [clearAll]
  refine ⟨by simpa [hlen] using h.pow2, by simpa [hlen] using h.abs_lt, ?_, ?_, by simp⟩
  · exact slot_replicate _ s.buf.length rfl 0
  · intro r q _ hq
    rw [slot_replicate _ s.buf.length rfl r] at hq
    simp at hq

/-- a packet stored `r` positions ahead -/
theorem winv_put (s : State) (h : WInv s) (p : Pkt) (r : Nat) (hr0 : 0 < r) (hr : r < s.buf.length)
    (hseq : p.seq = s.last + 1 + UInt16.ofNat r) :
    WInv { s with negCount := 0, buf := s.buf.set (slotIdx s r) (some p) } := by
  have hN := h.pow2.pos
  have hidx : ∀ i, slotIdx s i = (s.absPos + i) % s.buf.length := slotIdx_mod s h.pow2
  have hslot : ∀ i, i < s.buf.length →
      slot { s with negCount := 0, buf := s.buf.set (slotIdx s r) (some p) } i
        = if r = i then some p else slot s i := by
    intro i hi
    have e1 : slot { s with negCount := 0, buf := s.buf.set (slotIdx s r) (some p) } i
        = (s.buf.set (slotIdx s r) (some p)).getD (slotIdx s i) none := by
      simp [slot, slotIdx]
    rw [e1, getD_set _ _ _ _ (by rw [hidx]; exact Nat.mod_lt _ hN)]
    by_cases hri : r = i
    · subst hri; simp
    · have : slotIdx s r ≠ slotIdx s i := by
        rw [hidx, hidx]; intro heq
        exact hri (mod_inj _ _ _ _ h.abs_lt hr hi heq)
      simp [this, hri, slot]
  refine ⟨by simpa using h.pow2, by simpa using h.abs_lt, ?_, ?_, by simp⟩
  · rw [hslot 0 hN]; simp [show r ≠ 0 by omega, h.head]
  · intro i q hi hq
    have hi' : i < s.buf.length := by simpa using hi
    rw [hslot i hi'] at hq
    by_cases hri : r = i
    · subst hri; simp at hq; subst hq; exact hseq
    · simp [hri] at hq; exact h.seqs i q hi' hq

/-- window after an in-order packet and the drain of `k = scanLen` buffered packets -/
theorem slot_drain (s : State) (h : WInv s) (i : Nat) (hi : i < s.buf.length) :
    slot { s with negCount := 0, buf := drainBuf s, absPos := slotIdx s (scanLen s + 1) } i
      = if scanLen s + 1 + i < s.buf.length then slot s (scanLen s + 1 + i) else none := by
  have hN := h.pow2.pos
  obtain ⟨hk, hocc, hend⟩ := scan_spec s h
  have hidx : ∀ i, slotIdx s i = (s.absPos + i) % s.buf.length := slotIdx_mod s h.pow2
  have hlen : (drainBuf s).length = s.buf.length := drainBuf_length s
  -- index of slot i in the new frame = index of slot (k+1+i) in the old frame
  have e1 : slot { s with negCount := 0, buf := drainBuf s, absPos := slotIdx s (scanLen s + 1) } i
      = (drainBuf s).getD ((s.absPos + (scanLen s + 1 + i)) % s.buf.length) none := by
    have hp : Pow2 ({ s with negCount := 0, buf := drainBuf s, absPos := slotIdx s (scanLen s + 1) } : State).buf.length := by
      simp only [hlen]; exact h.pow2
    rw [slot_eq _ hp]
    simp only [hlen, hidx]
    congr 1
    rw [Nat.add_mod, Nat.mod_mod, ← Nat.add_mod, Nat.add_assoc]
  rw [e1, drainBuf_eq, getD_clear]
  by_cases hlt : scanLen s + 1 + i < s.buf.length
  · -- not among the cleared slots
    have hnot : ¬ (s.absPos + (scanLen s + 1 + i)) % s.buf.length ∈
        (List.range (scanLen s)).map (fun i => slotIdx s (i + 1)) := by
      intro hm
      obtain ⟨j, hj, hje⟩ := List.mem_map.mp hm
      have hj' : j < scanLen s := by simpa using hj
      rw [hidx] at hje
      have := mod_inj _ _ _ _ h.abs_lt (by omega) hlt hje
      omega
    simp only [hnot, if_false, hlt, if_true]
    rw [slot_eq s h.pow2]
  · simp only [hlt, if_false]
    -- wraps to old slot j = k+1+i-N ∈ [0, k]
    have hj : scanLen s + 1 + i = (scanLen s + 1 + i - s.buf.length) + s.buf.length := by omega
    rw [hj, mod_wrap]
    by_cases h0 : scanLen s + 1 + i - s.buf.length = 0
    · rw [h0]
      split
      · rfl
      · have := h.head; rw [slot_eq s h.pow2] at this; exact this
    · have hm : (s.absPos + (scanLen s + 1 + i - s.buf.length)) % s.buf.length ∈
          (List.range (scanLen s)).map (fun i => slotIdx s (i + 1)) := by
        apply List.mem_map.mpr
        refine ⟨scanLen s + 1 + i - s.buf.length - 1, by simp; omega, ?_⟩
        rw [hidx]; congr 2; omega
      simp [hm]

/-- the state `reorder` returns on the in-order branch (before the per-packet loop) -/
def drained (s : State) : State :=
  { s with negCount := 0, buf := drainBuf s, absPos := slotIdx s (scanLen s + 1) }

theorem winv_drain (s : State) (h : WInv s) :
    WInv { drained s with last := s.last + 1 + UInt16.ofNat (scanLen s) } := by
  have hN := h.pow2.pos
  obtain ⟨hk, hocc, hend⟩ := scan_spec s h
  have hlen : (drainBuf s).length = s.buf.length := drainBuf_length s
  have hs : ∀ i, slot { drained s with last := s.last + 1 + UInt16.ofNat (scanLen s) } i
      = slot (drained s) i := fun i => rfl
  have hd : ∀ i, i < s.buf.length → slot (drained s) i
      = if scanLen s + 1 + i < s.buf.length then slot s (scanLen s + 1 + i) else none :=
    fun i hi => slot_drain s h i hi
  refine ⟨by simpa [drained, hlen] using h.pow2, ?_, ?_, ?_, by simp [drained]⟩
  · simp only [drained, hlen]; rw [slotIdx_mod s h.pow2]; exact Nat.mod_lt _ hN
  · rw [hs, hd 0 hN]
    split
    · simpa using hend
    · rfl
  · intro i q hi hq
    have hi' : i < s.buf.length := by simpa [drained, hlen] using hi
    rw [hs, hd i hi'] at hq
    split at hq
    · rename_i hlt
      have := h.seqs _ q hlt hq
      rw [this]
      apply UInt16.toNat_inj.mp
      simp [UInt16.toNat_add, UInt16.toNat_ofNat']
      omega
    · simp at hq

end Rtsp.Recv
