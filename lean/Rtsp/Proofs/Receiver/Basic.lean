import Rtsp.Model.Receiver
/-
Lemmas about the receiver model: the signed 16-bit view of sequence-number differences, ring
index arithmetic for power-of-two sizes, buffer updates, and the branch-by-branch description of
`reorder` (each lemma is one path through the Go function).
-/
namespace Rtsp.Recv
open Rtsp.Facts

/-! ### `int16(x)` of a `uint16` -/

theorem toInt_eq (x : UInt16) :
    x.toInt16.toInt = if x.toNat < 32768 then (x.toNat : Int) else (x.toNat : Int) - 65536 := by
  have : x.toInt16.toInt = x.toBitVec.toInt := rfl
  rw [this, BitVec.toInt_eq_toNat_cond]
  have h : x.toBitVec.toNat = x.toNat := rfl
  rw [h]
  split <;> split <;> omega

theorem relPos_eq (seq last : UInt16) :
    relPos seq last = if (seq - last - 1).toNat < 32768 then ((seq - last - 1).toNat : Int)
                      else ((seq - last - 1).toNat : Int) - 65536 := by
  unfold relPos; exact toInt_eq _

theorem sub_toNat (seq last : UInt16) :
    (seq - last - 1).toNat = (seq.toNat + (65536 - last.toNat) + 65535) % 65536 := by
  have h1 := seq.toNat_lt
  have h2 := last.toNat_lt
  simp [UInt16.toNat_sub]; omega

/-- a non-negative relative position `r` means `seq = last + 1 + r` with `r < 2^15` -/
theorem relPos_nonneg (seq last : UInt16) (r : Nat) (h : relPos seq last = (r : Int)) :
    seq = last + 1 + UInt16.ofNat r ∧ r < 32768 ∧ (seq - last - 1).toNat = r := by
  rw [relPos_eq] at h
  have hlt := (seq - last - 1).toNat_lt
  have h1 := seq.toNat_lt
  have h2 := last.toNat_lt
  have e := sub_toNat seq last
  refine ⟨?_, ?_, ?_⟩
  · apply UInt16.toNat_inj.mp
    simp [UInt16.toNat_add, UInt16.toNat_ofNat']
    split at h <;> omega
  · split at h <;> omega
  · split at h <;> omega

theorem relPos_range (seq last : UInt16) : -32768 ≤ relPos seq last ∧ relPos seq last < 32768 := by
  rw [relPos_eq]
  have hlt := (seq - last - 1).toNat_lt
  split <;> omega

/-- relative position of `last + 1 + r` -/
theorem relPos_of_offset (last : UInt16) (r : Nat) (h : r < 32768) :
    relPos (last + 1 + UInt16.ofNat r) last = (r : Int) := by
  rw [relPos_eq]
  have h2 := last.toNat_lt
  have e : (last + 1 + UInt16.ofNat r - last - 1).toNat = r := by
    simp [UInt16.toNat_sub, UInt16.toNat_add, UInt16.toNat_ofNat']; omega
  rw [e]; simp [h]

/-! ### ring index arithmetic -/

/-- `BufferSize` is a power of two, at most 2^14 (so that the `uint16` / `int16` conversions of
`len(rr.buffer)` in the Go code are exact) -/
def Pow2 (n : Nat) : Prop := ∃ k, n = 2 ^ k ∧ k ≤ 14

theorem Pow2.pos {n : Nat} (h : Pow2 n) : 0 < n := by
  obtain ⟨k, hk, _⟩ := h; rw [hk]; exact Nat.pow_pos (by decide)

theorem Pow2.le {n : Nat} (h : Pow2 n) : n ≤ 16384 := by
  obtain ⟨k, hk, hk2⟩ := h; rw [hk]
  calc 2 ^ k ≤ 2 ^ 14 := Nat.pow_le_pow_right (by decide) hk2
    _ = 16384 := by decide

theorem slotIdx_mod (s : State) (h : Pow2 s.buf.length) (i : Nat) :
    slotIdx s i = (s.absPos + i) % s.buf.length := by
  obtain ⟨k, hk, _⟩ := h
  unfold slotIdx; rw [hk]; exact Nat.and_two_pow_sub_one_eq_mod _ _

theorem mod_lt2 (x n : Nat) (h : x < 2 * n) : x % n = if x < n then x else x - n := by
  split
  · exact Nat.mod_eq_of_lt ‹_›
  · rw [Nat.mod_eq_sub_mod (by omega), Nat.mod_eq_of_lt (by omega)]

theorem mod_inj (n a i j : Nat) (ha : a < n) (hi : i < n) (hj : j < n)
    (h : (a + i) % n = (a + j) % n) : i = j := by
  rw [mod_lt2 _ n (by omega), mod_lt2 _ n (by omega)] at h
  split at h <;> split at h <;> omega

theorem mod_wrap (n a j : Nat) : (a + (j + n)) % n = (a + j) % n := by
  rw [← Nat.add_assoc, Nat.add_mod_right]

theorem mod_lt' (n x : Nat) (h : 0 < n) : x % n < n := Nat.mod_lt x h

/-! ### buffer updates -/

abbrev Buf := List (Option Pkt)

theorem getD_set (b : Buf) (i x : Nat) (v : Option Pkt) (hi : i < b.length) :
    (b.set i v).getD x none = if i = x then v else b.getD x none := by
  simp only [List.getD_eq_getElem?_getD, List.getElem?_set, hi, if_true]
  split <;> simp

theorem getD_set_none (b : Buf) (i x : Nat) :
    (b.set i none).getD x none = if i = x then none else b.getD x none := by
  simp only [List.getD_eq_getElem?_getD, List.getElem?_set]
  split
  · split <;> simp
  · rfl

theorem getD_clear (idxs : List Nat) (b : Buf) (x : Nat) :
    (idxs.foldl (fun b i => b.set i none) b).getD x none = if x ∈ idxs then none else b.getD x none := by
  induction idxs generalizing b with
  | nil => simp
  | cons i is ih =>
    simp only [List.foldl_cons, ih, getD_set_none, List.mem_cons]
    by_cases h1 : x ∈ is
    · simp [h1]
    · by_cases h2 : i = x
      · subst h2; simp [h1]
      · have : ¬ x = i := fun h => h2 h.symm
        simp [h1, h2, this]

theorem length_clear (idxs : List Nat) (b : Buf) :
    (idxs.foldl (fun b i => b.set i none) b).length = b.length := by
  induction idxs generalizing b with
  | nil => rfl
  | cons i is ih => simp [List.foldl_cons, ih]

theorem getD_replicate_none (n x : Nat) : (List.replicate n (none : Option Pkt)).getD x none = none := by
  simp only [List.getD_eq_getElem?_getD, List.getElem?_replicate]
  split <;> rfl

/-! ### `reorder`, branch by branch -/

theorem reorder_restart (s : State) (p : Pkt) (hr : relPos p.seq s.last < 0)
    (hn : s.negCount + 1 > s.buf.length) :
    reorder s p = ({ s with negCount := 0, buf := clearAll s }, { pkts := [p], lost := 0, restart := true }) := by
  simp [reorder, hr, hn]

theorem reorder_negative (s : State) (p : Pkt) (hr : relPos p.seq s.last < 0)
    (hn : ¬ s.negCount + 1 > s.buf.length) :
    reorder s p = ({ s with negCount := s.negCount + 1 }, { pkts := [], lost := 0 }) := by
  simp [reorder, hr, hn]

theorem reorder_flush (s : State) (p : Pkt) (hr : ¬ relPos p.seq s.last < 0)
    (hf : relPos p.seq s.last ≥ (s.buf.length : Int)) :
    reorder s p = ({ s with negCount := 0, buf := clearAll s },
      { pkts := occupied s ++ [p],
        lost := (relPos p.seq s.last - ((occupied s).length + 1 : Nat) + 1).toNat }) := by
  simp only [reorder]; rw [if_neg hr, if_pos hf]

theorem reorder_dup (s : State) (p : Pkt) (hr : ¬ relPos p.seq s.last < 0)
    (hf : ¬ relPos p.seq s.last ≥ (s.buf.length : Int)) (h0 : relPos p.seq s.last ≠ 0)
    (q : Pkt) (hs : s.buf.getD (slotIdx s (relPos p.seq s.last).toNat) none = some q) :
    reorder s p = ({ s with negCount := 0 }, { pkts := [], lost := 0 }) := by
  simp only [reorder]; rw [if_neg hr, if_neg hf, if_pos h0, hs]

theorem reorder_put (s : State) (p : Pkt) (hr : ¬ relPos p.seq s.last < 0)
    (hf : ¬ relPos p.seq s.last ≥ (s.buf.length : Int)) (h0 : relPos p.seq s.last ≠ 0)
    (hs : s.buf.getD (slotIdx s (relPos p.seq s.last).toNat) none = none) :
    reorder s p = ({ s with negCount := 0,
                            buf := s.buf.set (slotIdx s (relPos p.seq s.last).toNat) (some p) },
                   { pkts := [], lost := 0 }) := by
  simp only [reorder]; rw [if_neg hr, if_neg hf, if_pos h0, hs]

theorem reorder_inorder (s : State) (p : Pkt) (hr : ¬ relPos p.seq s.last < 0)
    (hf : ¬ relPos p.seq s.last ≥ (s.buf.length : Int)) (h0 : relPos p.seq s.last = 0) :
    reorder s p = ({ s with negCount := 0, buf := drainBuf s, absPos := slotIdx s (scanLen s + 1) },
                   { pkts := p :: drainTail s, lost := 0 }) := by
  simp only [reorder]; rw [if_neg hr, if_neg hf, if_neg (by simpa using h0)]

/-! ### the per-packet loop after `reorder` -/

theorem foldl_advance_fields (s : State) (ps : List Pkt) :
    (ps.foldl advance s).buf = s.buf ∧ (ps.foldl advance s).absPos = s.absPos ∧
    (ps.foldl advance s).negCount = s.negCount ∧ (ps.foldl advance s).unreliable = s.unreliable ∧
    (ps.foldl advance s).first = s.first ∧ (ps.foldl advance s).lost = s.lost ∧
    (ps.foldl advance s).lostSince = s.lostSince ∧ (ps.foldl advance s).received = s.received ∧
    (ps.foldl advance s).rlSince = s.rlSince := by
  induction ps generalizing s with
  | nil => simp
  | cons p ps ih =>
    simp only [List.foldl_cons]
    have := ih (advance s p)
    simp only [advance] at this ⊢
    exact this

/-- sequence number of the last delivered packet (or the old one if nothing was delivered) -/
def lastSeq (l : UInt16) : List Pkt → UInt16
  | [] => l
  | p :: ps => lastSeq p.seq ps

theorem foldl_advance_last (s : State) (ps : List Pkt) :
    (ps.foldl advance s).last = lastSeq s.last ps := by
  induction ps generalizing s with
  | nil => rfl
  | cons p ps ih => simp only [List.foldl_cons, lastSeq]; rw [ih]; rfl

theorem lastSeq_append (l : UInt16) (ps : List Pkt) (p : Pkt) : lastSeq l (ps ++ [p]) = p.seq := by
  induction ps generalizing l with
  | nil => rfl
  | cons q qs ih => simp only [List.cons_append, lastSeq]; exact ih _

end Rtsp.Recv
