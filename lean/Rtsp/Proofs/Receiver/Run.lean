import Rtsp.Proofs.Receiver.Hist
/-
History-level statements: ordering / loss accounting / statistics along any arrival history,
restart bound, conservation of the window, extended sequence number.
-/
namespace Rtsp.Recv
open Rtsp.Facts

/-- what must hold of the outputs of consecutive steps, starting after sequence number `l`:
a non-restart step delivers strictly increasing sequence numbers (continuing after `l`) and reports
exactly the skipped ones as lost; a detected restart delivers exactly the arriving packet and
reports no loss.  Afterwards the chain continues from the last delivered packet. -/
def Accounted (unrel : Bool) (l : UInt16) : List Out → Prop
  | [] => True
  | o :: os =>
    (if o.restart then o.pkts.length = 1 ∧ o.lost = 0
     else (unrel = true → IncFrom l (o.pkts.map (·.seq))) ∧ o.lost = skipped l (o.pkts.map (·.seq)))
    ∧ Accounted unrel (lastSeq l o.pkts) os

theorem step_first_true (s : State) (p : Pkt) (hf : s.first = true) : (step s p).1.first = true := by
  cases hu : s.unreliable with
  | true =>
    rw [step_unrel s p hf hu]
    rw [(foldl_advance_fields _ _).2.2.2.2.1]
    simp only [counted]
    unfold reorder; simp only
    split
    · split <;> exact hf
    · split
      · exact hf
      · split
        · split <;> exact hf
        · exact hf
  | false => rw [step_rel s p hf hu]; simp [advance, counted, hf]

theorem step_unreliable (s : State) (p : Pkt) (hf : s.first = true) :
    (step s p).1.unreliable = s.unreliable := by
  cases hu : s.unreliable with
  | true =>
    rw [step_unrel s p hf hu]
    rw [(foldl_advance_fields _ _).2.2.2.1]
    simp only [counted]
    unfold reorder; simp only
    split
    · split <;> exact hu
    · split
      · exact hu
      · split
        · split <;> exact hu
        · exact hu
  | false => rw [step_rel s p hf hu]; simp [advance, counted, hu]

theorem step_last (s : State) (p : Pkt) (hf : s.first = true) :
    (step s p).1.last = lastSeq s.last (step s p).2.pkts := by
  cases hu : s.unreliable with
  | true => obtain ⟨_, _, _, hl, ho⟩ := step_unrel_fields s p hf hu; rw [hl, ho]
  | false => rw [step_rel s p hf hu]; simp [advance, lastSeq]

theorem restart_shape (s : State) (p : Pkt) (h : (reorder s p).2.restart = true) :
    (reorder s p).2.pkts.length = 1 ∧ (reorder s p).2.lost = 0 := by
  unfold reorder at h ⊢
  simp only at h ⊢
  split
  · split
    · simp
    · simp_all
  · split
    · simp_all
    · split
      · split <;> simp_all
      · simp_all

/-- **ordering and loss accounting along every arrival history** (both transports).  In
unreliable mode delivered sequence numbers strictly increase except across a detected restart and
`lost` equals the sequence numbers skipped; in reliable mode every packet is delivered and `lost`
is the gap to its predecessor. -/
theorem run_accounted (s : State) (ps : List Pkt) (h : Inv s) (hf : s.first = true) :
    Accounted s.unreliable s.last (run s ps).2 := by
  induction ps generalizing s with
  | nil => simp [run, Accounted]
  | cons p ps ih =>
    simp only [run, Accounted]
    have hnext := ih (step s p).1 (inv_step s p h) (step_first_true s p hf)
    rw [step_last s p hf, step_unreliable s p hf] at hnext
    refine ⟨?_, hnext⟩
    cases hu : s.unreliable with
    | true =>
      have ho : (step s p).2 = (reorder s p).2 := (step_unrel_fields s p hf hu).2.2.2.2
      rw [ho]
      cases hr : (reorder s p).2.restart with
      | true => simp only [if_true]; exact restart_shape s p hr
      | false =>
        simp only [Bool.false_eq_true, if_false]
        exact ⟨fun _ => reorder_increasing s p (h.win hu) hr, reorder_lost_eq_skipped s p (h.win hu) hr⟩
    | false =>
      rw [step_rel s p hf hu]
      simp [skipped, gap]

/-! ### statistics -/

def deliveredCount (os : List Out) : Nat := (os.map (·.pkts.length)).sum
def lostTotal (os : List Out) : Nat := (os.map (·.lost)).sum

theorem step_counters (s : State) (p : Pkt) (hf : s.first = true) :
    (step s p).1.received = s.received + (step s p).2.pkts.length ∧
    (step s p).1.lost = s.lost + (step s p).2.lost := by
  cases hu : s.unreliable with
  | true =>
    rw [step_unrel s p hf hu]
    have hc := foldl_advance_fields (counted (reorder s p).1 (reorder s p).2) (reorder s p).2.pkts
    rw [hc.2.2.2.2.2.2.2.1, hc.2.2.2.2.2.1]
    have hrl : (reorder s p).1.received = s.received ∧ (reorder s p).1.lost = s.lost := by
      unfold reorder; simp only
      split
      · split <;> exact ⟨rfl, rfl⟩
      · split
        · exact ⟨rfl, rfl⟩
        · split
          · split <;> exact ⟨rfl, rfl⟩
          · exact ⟨rfl, rfl⟩
    simp [counted, hrl.1, hrl.2]
  | false => rw [step_rel s p hf hu]; simp [advance, counted]

/-- **statistics agree with the delivery history**: `Stats().Received` / `Lost` /
`LastSequenceNumber` are the number of delivered packets, the sum of the reported losses and the
sequence number of the last delivered packet. -/
theorem run_stats (s : State) (ps : List Pkt) (hf : s.first = true) :
    (run s ps).1.received = s.received + deliveredCount (run s ps).2 ∧
    (run s ps).1.lost = s.lost + lostTotal (run s ps).2 ∧
    (run s ps).1.last = (run s ps).2.foldl (fun l o => lastSeq l o.pkts) s.last := by
  induction ps generalizing s with
  | nil => simp [run, deliveredCount, lostTotal]
  | cons p ps ih =>
    obtain ⟨h1, h2, h3⟩ := ih (step s p).1 (step_first_true s p hf)
    obtain ⟨c1, c2⟩ := step_counters s p hf
    simp only [run, deliveredCount, lostTotal, List.map_cons, List.sum_cons, List.foldl_cons] at *
    refine ⟨by omega, by omega, ?_⟩
    rw [h3, step_last s p hf]

/-! ### restart detection bound -/

/-- a sender that restarted from an older sequence number is followed again after at most
`BufferSize + 1` packets: if every arriving packet is behind the current origin, one of the first
`BufferSize + 1 − negativeCount` of them triggers the restart branch and is delivered. -/
theorem restart_within (s : State) (ps : List Pkt) (h : WInv s) (hf : s.first = true)
    (hu : s.unreliable = true) (hneg : ∀ p ∈ ps, relPos p.seq s.last < 0)
    (hlen : s.negCount + ps.length > s.buf.length) :
    ∃ o ∈ (run s ps).2, o.restart = true := by
  induction ps generalizing s with
  | nil => simp at hlen; have := h.neg; omega
  | cons p ps ih =>
    have hr := hneg p (by simp)
    simp only [run]
    have ho : (step s p).2 = (reorder s p).2 := (step_unrel_fields s p hf hu).2.2.2.2
    by_cases hn : s.negCount + 1 > s.buf.length
    · refine ⟨(step s p).2, by simp, ?_⟩
      rw [ho, reorder_restart s p hr hn]
    · obtain ⟨hb, ha, hnc, hl, _⟩ := step_unrel_fields s p hf hu
      have hre := reorder_negative s p hr hn
      have hw : WInv (step s p).1 := by
        have := winv_reorder s p h
        exact winv_congr _ _ this hb ha hl (by rw [hnc, hb]; exact this.neg)
      have hlast : (step s p).1.last = s.last := by rw [hl, hre]; rfl
      have hneg' : (step s p).1.negCount = s.negCount + 1 := by rw [hnc, hre]
      have hbuf : (step s p).1.buf.length = s.buf.length := by rw [hb, hre]
      obtain ⟨o, ho1, ho2⟩ := ih (step s p).1 hw (step_first_true s p hf)
        (by rw [step_unreliable s p hf]; exact hu)
        (fun q hq => by rw [hlast]; exact hneg q (by simp [hq]))
        (by rw [hneg', hbuf]; simp at hlen; omega)
      exact ⟨o, by simp [ho1], ho2⟩

/-! ### conservation of the window -/

theorem mem_occupied (s : State) (q : Pkt) :
    q ∈ occupied s ↔ ∃ r, r < s.buf.length ∧ slot s r = some q := by
  unfold occupied
  simp [List.mem_filterMap]

/-- **a packet that arrives inside the window is delivered, not dropped**: when the arriving packet
is at or ahead of the origin (`relPos ≥ 0`) and is not a copy of a packet already in its slot, then
it and every packet waiting in the buffer are, after the step, either delivered or still waiting.
Nothing inside the window is ever discarded by such a step. -/
theorem window_conserved (s : State) (p : Pkt) (h : WInv s) (hr : 0 ≤ relPos p.seq s.last)
    (hnd : relPos p.seq s.last < s.buf.length →
      s.buf.getD (slotIdx s (relPos p.seq s.last).toNat) none = none ∨ relPos p.seq s.last = 0)
    (q : Pkt) (hq : q = p ∨ q ∈ occupied s) :
    q ∈ (reorder s p).2.pkts ∨ q ∈ occupied (reorder s p).1 := by
  have hN := h.pow2.pos
  have hr' : ¬ relPos p.seq s.last < 0 := by omega
  obtain ⟨r, hrr⟩ : ∃ r : Nat, relPos p.seq s.last = (r : Int) := ⟨(relPos p.seq s.last).toNat, by omega⟩
  by_cases hf : relPos p.seq s.last ≥ (s.buf.length : Int)
  · rw [reorder_flush s p hr' hf]
    left; rcases hq with hq | hq
    · subst hq; simp
    · simp [hq]
  · by_cases h0 : relPos p.seq s.last = 0
    · rw [reorder_inorder s p hr' hf h0]
      rcases hq with hq | hq
      · left; subst hq; simp
      · obtain ⟨j, hj, hsj⟩ := (mem_occupied s q).mp hq
        obtain ⟨hk, hocc, hend⟩ := scan_spec s h
        by_cases hjk : j ≤ scanLen s
        · -- drained: delivered now
          left
          have hj0 : j ≠ 0 := by intro h0'; subst h0'; rw [h.head] at hsj; simp at hsj
          simp only [List.mem_cons]; right
          unfold drainTail
          apply List.mem_filterMap.mpr
          exact ⟨j - 1, by simp; omega, by rw [show j - 1 + 1 = j by omega]; exact hsj⟩
        · -- still waiting, `scanLen + 1` slots closer to the origin
          right
          have hjne : j ≠ scanLen s + 1 := by intro e; subst e; rw [hend] at hsj; simp at hsj
          apply (mem_occupied _ q).mpr
          have hlen : (drainBuf s).length = s.buf.length := drainBuf_length s
          refine ⟨j - (scanLen s + 1), by simp only [hlen]; omega, ?_⟩
          have := slot_drain s h (j - (scanLen s + 1)) (by omega)
          rw [this]
          have e : scanLen s + 1 + (j - (scanLen s + 1)) = j := by omega
          rw [e]; simp [hj, hsj]
    · have hlt : relPos p.seq s.last < s.buf.length := by omega
      rcases hnd hlt with hs | hz
      · rw [reorder_put s p hr' hf h0 hs]
        right
        have e : (relPos p.seq s.last).toNat = r := by omega
        have hrN : r < s.buf.length := by omega
        have hidx : ∀ i, slotIdx s i = (s.absPos + i) % s.buf.length := slotIdx_mod s h.pow2
        have hslot : ∀ i, i < s.buf.length →
            slot { s with negCount := 0, buf := s.buf.set (slotIdx s r) (some p) } i
              = if r = i then some p else slot s i := by
          intro i hi
          have e1 : slot { s with negCount := 0, buf := s.buf.set (slotIdx s r) (some p) } i
              = (s.buf.set (slotIdx s r) (some p)).getD (slotIdx s i) none := by
            simp [slot, slotIdx]
          rw [e1, getD_set _ _ _ _ (by rw [hidx]; exact Nat.mod_lt _ hN)]
          by_cases hri : r = i
          · subst hri; simp
          · have : slotIdx s r ≠ slotIdx s i := by
              rw [hidx, hidx]; intro heq
              exact hri (mod_inj _ _ _ _ h.abs_lt hrN hi heq)
            simp [this, hri, slot]
        rw [e]
        apply (mem_occupied _ q).mpr
        rcases hq with hq | hq
        · subst hq
          exact ⟨r, by simpa using hrN, by rw [hslot r hrN]; simp⟩
        · obtain ⟨j, hj, hsj⟩ := (mem_occupied s q).mp hq
          refine ⟨j, by simpa using hj, ?_⟩
          rw [hslot j hj]
          by_cases hrj : r = j
          · subst hrj
            have : slot s r = none := by unfold slot; rw [← e]; exact hs
            rw [this] at hsj; simp at hsj
          · simp [hrj, hsj]
      · exact absurd hz h0

/-- a packet behind the origin that does not trigger the restart branch is dropped and changes
nothing but the negative counter (this is the *only* way a non-duplicate packet is dropped) -/
theorem behind_dropped (s : State) (p : Pkt) (hr : relPos p.seq s.last < 0)
    (hn : ¬ s.negCount + 1 > s.buf.length) :
    (reorder s p).2.pkts = [] ∧ (reorder s p).1.buf = s.buf ∧ (reorder s p).1.absPos = s.absPos := by
  rw [reorder_negative s p hr hn]; exact ⟨rfl, rfl, rfl⟩

/-! ### extended highest sequence number -/

def extSeq (s : State) : Nat := s.cycles.toNat * 65536 + s.last.toNat

/-- delivering a packet `d` positions ahead (`1 ≤ d < 65536 − 4095`) advances the extended
sequence number by exactly `d` (as long as the 16-bit cycle counter itself does not overflow) -/
theorem ext_seq_exact (s : State) (p : Pkt) (d : Nat) (hd1 : 1 ≤ d)
    (hd2 : (d : Int) < 65536 + Recv.cycleThreshold) (hthr : Recv.cycleThreshold < 0)
    (hp : p.seq = s.last + UInt16.ofNat d) (hc : s.cycles.toNat < 65535) :
    extSeq (advance s p) = extSeq s + d := by
  have hl := s.last.toNat_lt
  have hpn : p.seq.toNat = (s.last.toNat + d) % 65536 := by
    rw [hp]; simp [UInt16.toNat_add, UInt16.toNat_ofNat']
  unfold extSeq advance
  simp only
  by_cases hw : s.last.toNat + d < 65536
  · have : p.seq.toNat = s.last.toNat + d := by rw [hpn]; exact Nat.mod_eq_of_lt hw
    have hnot : ¬ ((p.seq.toNat : Int) - (s.last.toNat : Int) < Recv.cycleThreshold) := by omega
    simp only [hnot, if_false]
    omega
  · have : p.seq.toNat = s.last.toNat + d - 65536 := by
      rw [hpn, Nat.mod_eq_sub_mod (by omega), Nat.mod_eq_of_lt (by omega)]
    have hyes : (p.seq.toNat : Int) - (s.last.toNat : Int) < Recv.cycleThreshold := by omega
    simp only [hyes, if_true]
    have : (s.cycles + 1).toNat = s.cycles.toNat + 1 := by
      simp [UInt16.toNat_add]; omega
    rw [this]
    omega

end Rtsp.Recv
