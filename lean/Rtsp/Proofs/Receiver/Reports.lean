import Rtsp.Proofs.Receiver.Conserve
/-
Receiver-report fields along whole histories:
* the extended highest sequence number (`cycles * 65536 + last`) equals its starting value plus the
  sum of the forward distances of all delivered packets (lifting the per-packet `ext_seq_exact` to
  `run`);
* `totalLost`, `fractionLost` of a report after any interleaving of packets and reports, in terms of
  the outputs of the steps of the history (all of them / those since the previous report).
-/
namespace Rtsp.Recv
open Rtsp.Facts

/-! ### extended highest sequence number -/

/-- forward distance from `a` to `b` modulo 2^16 -/
def dist (a b : UInt16) : Nat := (b - a).toNat

/-- sum of the forward distances along a list of consecutively delivered sequence numbers -/
def travel : UInt16 → List UInt16 → Nat
  | _, [] => 0
  | a, b :: bs => dist a b + travel b bs

/-- every element is between 1 and `m` positions ahead of its predecessor, starting from `a` -/
def Steps (m : Nat) : UInt16 → List UInt16 → Prop
  | _, [] => True
  | a, b :: bs => (1 ≤ dist a b ∧ dist a b ≤ m) ∧ Steps m b bs

/-- `IncFrom` is decidable (used by the non-vacuity examples only) -/
def decIncFrom : (a : UInt16) → (l : List UInt16) → Decidable (IncFrom a l)
  | _, [] => isTrue trivial
  | a, b :: bs =>
    match (inferInstance : Decidable (Fwd a b)), decIncFrom b bs with
    | isTrue h1, isTrue h2 => isTrue ⟨h1, h2⟩
    | isFalse h1, _ => isFalse (fun h => h1 h.1)
    | _, isFalse h2 => isFalse (fun h => h2 h.2)

instance (a : UInt16) (l : List UInt16) : Decidable (IncFrom a l) := decIncFrom a l

def decSteps (m : Nat) : (a : UInt16) → (l : List UInt16) → Decidable (Steps m a l)
  | _, [] => isTrue trivial
  | a, b :: bs =>
    match (inferInstance : Decidable (1 ≤ dist a b ∧ dist a b ≤ m)), decSteps m b bs with
    | isTrue h1, isTrue h2 => isTrue ⟨h1, h2⟩
    | isFalse h1, _ => isFalse (fun h => h1 h.1)
    | _, isFalse h2 => isFalse (fun h => h2 h.2)

instance (m : Nat) (a : UInt16) (l : List UInt16) : Decidable (Steps m a l) := decSteps m a l

theorem fwd_dist (a b : UInt16) (h : Fwd a b) : 1 ≤ dist a b ∧ dist a b ≤ 32768 := by
  unfold Fwd at h
  rw [relPos_eq] at h
  have e := sub_toNat b a
  have ha := a.toNat_lt
  have hb := b.toNat_lt
  have hd : dist a b = (b.toNat + (65536 - a.toNat)) % 65536 := by
    unfold dist; rw [UInt16.toNat_sub]; omega
  rw [hd]
  split at h <;> omega

theorem incFrom_steps (a : UInt16) (l : List UInt16) (h : IncFrom a l) : Steps 32768 a l := by
  induction l generalizing a with
  | nil => trivial
  | cons b bs ih => exact ⟨fwd_dist a b h.1, ih b h.2⟩

theorem add_dist (a b : UInt16) : b = a + UInt16.ofNat (dist a b) := by
  apply UInt16.toNat_inj.mp
  have ha := a.toNat_lt
  have hb := b.toNat_lt
  unfold dist
  simp [UInt16.toNat_add, UInt16.toNat_sub, UInt16.toNat_ofNat']
  omega

/-- `ext_seq_exact` with the overflow side condition in its natural form: the new extended value
still fits 32 bits -/
theorem ext_seq_advance (s : State) (p : Pkt) (hd1 : 1 ≤ dist s.last p.seq)
    (hd2 : dist s.last p.seq ≤ 61440) (hb : extSeq s + dist s.last p.seq < 4294967296) :
    extSeq (advance s p) = extSeq s + dist s.last p.seq := by
  have hthr : Recv.cycleThreshold = -4095 := rfl
  by_cases hc : s.cycles.toNat < 65535
  · exact ext_seq_exact s p _ hd1 (by rw [hthr]; omega) (by decide) (add_dist _ _) hc
  · -- cycle counter at its maximum: no wrap can happen within the 32-bit bound
    have hl := s.last.toNat_lt
    have hcl := s.cycles.toNat_lt
    have hpn : p.seq.toNat = (s.last.toNat + dist s.last p.seq) % 65536 := by
      have := congrArg UInt16.toNat (add_dist s.last p.seq)
      rw [this]; simp [UInt16.toNat_add, UInt16.toNat_ofNat']
    unfold extSeq at hb ⊢
    have hw : s.last.toNat + dist s.last p.seq < 65536 := by omega
    have hpe : p.seq.toNat = s.last.toNat + dist s.last p.seq := by rw [hpn]; exact Nat.mod_eq_of_lt hw
    unfold advance
    simp only
    have hnot : ¬ ((p.seq.toNat : Int) - (s.last.toNat : Int) < Recv.cycleThreshold) := by
      rw [hthr]; omega
    simp only [hnot, if_false]
    omega

theorem ext_seq_foldl (s : State) (ps : List Pkt) (hst : Steps 61440 s.last (ps.map (·.seq)))
    (hb : extSeq s + travel s.last (ps.map (·.seq)) < 4294967296) :
    extSeq (ps.foldl advance s) = extSeq s + travel s.last (ps.map (·.seq)) := by
  induction ps generalizing s with
  | nil => simp [travel]
  | cons p ps ih =>
    simp only [List.map_cons, Steps, travel, List.foldl_cons] at *
    have h1 := ext_seq_advance s p hst.1.1 hst.1.2 (by omega)
    have hl : (advance s p).last = p.seq := rfl
    rw [ih (advance s p) (by rw [hl]; exact hst.2) (by rw [hl, h1]; omega), hl, h1]
    omega

/-- the two fields the extended sequence number is made of -/
def CL (s t : State) : Prop := s.cycles = t.cycles ∧ s.last = t.last

theorem CL.ext {s t : State} (h : CL s t) : extSeq s = extSeq t := by
  unfold extSeq; rw [h.1, h.2]

theorem CL.foldl {s t : State} (h : CL s t) (ps : List Pkt) :
    CL (ps.foldl advance s) (ps.foldl advance t) := by
  induction ps generalizing s t with
  | nil => exact h
  | cons p ps ih =>
    simp only [List.foldl_cons]
    apply ih
    unfold advance CL
    simp only [h.1, h.2, and_self]

theorem reorder_cycles (s : State) (p : Pkt) : (reorder s p).1.cycles = s.cycles := by
  unfold reorder
  simp only
  split
  · split <;> rfl
  · split
    · rfl
    · split
      · split <;> rfl
      · rfl

/-- `ProcessPacket2` after the first packet: `cycles` / `last` are those obtained by running the
per-packet loop over the delivered packets -/
theorem step_CL (s : State) (p : Pkt) (hf : s.first = true) :
    CL (step s p).1 ((step s p).2.pkts.foldl advance s) := by
  cases hu : s.unreliable with
  | true =>
    rw [step_unrel s p hf hu]
    apply CL.foldl
    exact ⟨by simp [counted, reorder_cycles], by simp [counted, reorder_last]⟩
  | false =>
    rw [step_rel s p hf hu]
    apply CL.foldl
    exact ⟨rfl, rfl⟩

theorem run_CL (s : State) (ps : List Pkt) (hf : s.first = true) :
    CL (run s ps).1 ((delivered (run s ps).2).foldl advance s) := by
  induction ps generalizing s with
  | nil => exact ⟨rfl, rfl⟩
  | cons p ps ih =>
    rw [run_cons]
    have h1 := ih (step s p).1 (step_first_true s p hf)
    have h2 := (step_CL s p hf).foldl (delivered (run (step s p).1 ps).2)
    simp only [delivered, List.flatMap_cons, List.foldl_append] at *
    exact ⟨h1.1.trans h2.1, h1.2.trans h2.2⟩

/-- **extended highest sequence number along a history**: starting value + Σ forward distances of
all delivered packets, provided each delivery is 1 … 61440 (= 2^16 − 4096) positions ahead of the
previous one and the total still fits the 32-bit field -/
theorem ext_seq_run (s : State) (ps : List Pkt) (hf : s.first = true)
    (hst : Steps 61440 s.last ((delivered (run s ps).2).map (·.seq)))
    (hb : extSeq s + travel s.last ((delivered (run s ps).2).map (·.seq)) < 4294967296) :
    extSeq (run s ps).1 = extSeq s + travel s.last ((delivered (run s ps).2).map (·.seq)) := by
  rw [(run_CL s ps hf).ext]
  exact ext_seq_foldl s _ hst hb

theorem steps_mono (m m' : Nat) (hm : m ≤ m') (a : UInt16) (l : List UInt16) (h : Steps m a l) :
    Steps m' a l := by
  induction l generalizing a with
  | nil => trivial
  | cons b bs ih => exact ⟨⟨h.1.1, Nat.le_trans h.1.2 hm⟩, ih b h.2⟩

/-! #### unreliable mode without a detected restart: the hypothesis holds by itself -/

theorem incFrom_append (l : UInt16) (ps qs : List Pkt) (h1 : IncFrom l (ps.map (·.seq)))
    (h2 : IncFrom (lastSeq l ps) (qs.map (·.seq))) : IncFrom l ((ps ++ qs).map (·.seq)) := by
  induction ps generalizing l with
  | nil => exact h2
  | cons p ps ih =>
    simp only [List.cons_append, List.map_cons, IncFrom, lastSeq] at *
    exact ⟨h1.1, ih p.seq h1.2 h2⟩

theorem lastSeq_append' (l : UInt16) (ps qs : List Pkt) :
    lastSeq l (ps ++ qs) = lastSeq (lastSeq l ps) qs := by
  induction ps generalizing l with
  | nil => rfl
  | cons p ps ih => simp only [List.cons_append, lastSeq]; exact ih _

theorem accounted_incFrom (l : UInt16) (os : List Out) (h : Accounted true l os)
    (hnr : ∀ o ∈ os, o.restart = false) : IncFrom l ((delivered os).map (·.seq)) := by
  induction os generalizing l with
  | nil => trivial
  | cons o os ih =>
    obtain ⟨h1, h2⟩ := h
    have hr := hnr o (by simp)
    simp only [hr, Bool.false_eq_true, if_false] at h1
    simp only [delivered, List.flatMap_cons]
    exact incFrom_append l _ _ (h1.1 trivial) (ih _ h2 (fun x hx => hnr x (by simp [hx])))

/-! ### `totalLost` / `fractionLost` along a history of packets and reports -/

/-- outputs of all `ProcessPacket2` steps of an event history -/
def outsOf : List Ev → List Out
  | [] => []
  | .out o :: es => o :: outsOf es
  | .rep _ :: es => outsOf es

/-- outputs of the steps since the last report that was actually produced (`acc`: those before the
events considered) -/
def sinceAux : List Out → List Ev → List Out
  | acc, [] => acc
  | acc, .out o :: es => sinceAux (acc ++ [o]) es
  | _, .rep (some _) :: es => sinceAux [] es
  | acc, .rep none :: es => sinceAux acc es

def sinceReport (es : List Ev) : List Out := sinceAux [] es

theorem lostTotal_append (a b : List Out) : lostTotal (a ++ b) = lostTotal a + lostTotal b := by
  simp [lostTotal, List.sum_append]

theorem deliveredCount_append (a b : List Out) :
    deliveredCount (a ++ b) = deliveredCount a + deliveredCount b := by
  simp [deliveredCount, List.sum_append]

/-- the loss counters of a state agree with the outputs of a history: `tot` all steps, `acc` the
steps since the last report -/
structure Acct (s : State) (tot acc : List Out) : Prop where
  lost  : s.lost = lostTotal tot
  since : s.lostSince = lostTotal acc
  rl    : s.rlSince = deliveredCount acc + lostTotal acc

theorem step_since (s : State) (p : Pkt) (hf : s.first = true) :
    (step s p).1.lostSince = s.lostSince + (step s p).2.lost ∧
    (step s p).1.rlSince = s.rlSince + (step s p).2.pkts.length + (step s p).2.lost := by
  cases hu : s.unreliable with
  | true =>
    rw [step_unrel s p hf hu]
    have hc := foldl_advance_fields (counted (reorder s p).1 (reorder s p).2) (reorder s p).2.pkts
    rw [hc.2.2.2.2.2.2.1, hc.2.2.2.2.2.2.2.2]
    have hls : (reorder s p).1.lostSince = s.lostSince ∧ (reorder s p).1.rlSince = s.rlSince := by
      unfold reorder; simp only
      split
      · split <;> exact ⟨rfl, rfl⟩
      · split
        · exact ⟨rfl, rfl⟩
        · split
          · split <;> exact ⟨rfl, rfl⟩
          · exact ⟨rfl, rfl⟩
    simp [counted, hls.1, hls.2]
  | false => rw [step_rel s p hf hu]; simp [advance, counted]

theorem acct_step (s : State) (p : Pkt) (tot acc : List Out) (h : Inv s) (ha : Acct s tot acc) :
    Acct (step s p).1 (tot ++ [(step s p).2]) (acc ++ [(step s p).2]) := by
  cases hf : s.first with
  | false =>
    obtain ⟨_, h1, h2⟩ := h.fresh hf
    have e1 := ha.since
    have e2 := ha.rl
    rw [step_first s p hf]
    refine ⟨?_, ?_, ?_⟩
    · rw [lostTotal_append]; simp [lostTotal, ha.lost]
    · rw [lostTotal_append]; simp only [lostTotal, List.map_cons, List.map_nil, List.sum_cons, List.sum_nil]
      simp only [lostTotal] at e1
      omega
    · rw [lostTotal_append, deliveredCount_append]
      simp only [lostTotal, deliveredCount, List.map_cons, List.map_nil, List.sum_cons, List.sum_nil,
        List.length_cons, List.length_nil]
      simp only [lostTotal, deliveredCount] at e1 e2
      omega
  | true =>
    obtain ⟨_, c2⟩ := step_counters s p hf
    obtain ⟨c3, c4⟩ := step_since s p hf
    have e0 := ha.lost
    have e1 := ha.since
    have e2 := ha.rl
    refine ⟨?_, ?_, ?_⟩
    · rw [lostTotal_append, c2, e0]; simp [lostTotal]
    · rw [lostTotal_append, c3, e1]; simp [lostTotal]
    · rw [lostTotal_append, deliveredCount_append, c4, e2]; simp [lostTotal, deliveredCount]; omega

theorem exec_cons (s : State) (op : Op) (ops : List Op) :
    exec s (op :: ops) = ((exec (exec1 s op).1 ops).1, (exec1 s op).2 :: (exec (exec1 s op).1 ops).2) := rfl

/-- **the loss counters agree with the history**, for any interleaving of packets and reports -/
theorem exec_acct (s : State) (ops : List Op) (tot acc : List Out) (h : Inv s) (ha : Acct s tot acc) :
    Acct (exec s ops).1 (tot ++ outsOf (exec s ops).2) (sinceAux acc (exec s ops).2) := by
  induction ops generalizing s tot acc with
  | nil => simpa [exec, outsOf, sinceAux] using ha
  | cons op ops ih =>
    rw [exec_cons]
    cases op with
    | pkt p =>
      have := ih (step s p).1 _ _ (inv_step s p h) (acct_step s p tot acc h ha)
      simp only [exec1, outsOf, sinceAux]
      simpa [List.append_assoc] using this
    | report =>
      cases hf : s.first with
      | false =>
        have hr : report s = (s, none) := by simp [report, hf]
        have := ih s tot acc h ha
        simp only [exec1, hr, outsOf, sinceAux]
        exact this
      | true =>
        have hr : ∃ r, report s = ({ s with lostSince := 0, rlSince := 0 }, some r) := by
          simp [report, hf]
        obtain ⟨r, hr⟩ := hr
        have hinv := inv_report s h
        rw [hr] at hinv
        have := ih { s with lostSince := 0, rlSince := 0 } tot [] hinv
          ⟨ha.lost, by simp [lostTotal], by simp [lostTotal, deliveredCount]⟩
        simp only [exec1, hr, outsOf, sinceAux]
        exact this

theorem acct_init (u : Bool) (size : Nat) : Acct (Recv.init u size) [] [] :=
  ⟨rfl, rfl, rfl⟩

/-- the fields of a report in terms of the counters (exact floor characterisation) -/
theorem report_floor (s : State) (r : Report) (hr : (report s).2 = some r) :
    r.totalLost = min s.lost Recv.lostClamp ∧ r.extSeq = extSeq s ∧
    (s.rlSince = 0 → r.fractionLost = 0) ∧
    r.fractionLost * s.rlSince ≤ 256 * min s.lostSince Recv.fractionClamp ∧
    (s.rlSince ≠ 0 → 256 * min s.lostSince Recv.fractionClamp < (r.fractionLost + 1) * s.rlSince) := by
  unfold report at hr
  cases hf : s.first with
  | false => simp [hf] at hr
  | true =>
    simp only [hf, Bool.not_true, Bool.false_eq_true, if_false, Option.some.injEq] at hr
    subst hr
    refine ⟨rfl, rfl, ?_, ?_, ?_⟩
    · intro h0; simp [h0]
    · simp only
      split
      · have := Nat.div_mul_le_self (min s.lostSince Recv.fractionClamp * 256) s.rlSince
        omega
      · omega
    · intro hne
      simp only [hne, ne_eq, not_false_eq_true, if_true]
      have := Nat.lt_mul_div_succ (min s.lostSince Recv.fractionClamp * 256) (Nat.pos_of_ne_zero hne)
      rw [Nat.mul_comm s.rlSince] at this
      omega

end Rtsp.Recv
