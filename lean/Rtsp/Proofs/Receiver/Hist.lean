import Rtsp.Proofs.Receiver.Order
/-
The full state invariant, preserved by every operation (`ProcessPacket2`, `report`), hence along
every history; restart detection bound; conservation of the window; extended sequence number.
-/
namespace Rtsp.Recv
open Rtsp.Facts

/-- `reorder` preserves the window invariant once `last` is advanced to the last delivered packet -/
theorem winv_reorder (s : State) (p : Pkt) (h : WInv s) :
    WInv { (reorder s p).1 with last := lastSeq s.last (reorder s p).2.pkts } := by
  have hN := h.pow2.pos
  by_cases hr : relPos p.seq s.last < 0
  · by_cases hn : s.negCount + 1 > s.buf.length
    · rw [reorder_restart s p hr hn]; exact winv_cleared s h _
    · rw [reorder_negative s p hr hn]
      exact winv_congr s _ h rfl rfl rfl (by simp; omega)
  · obtain ⟨r, hrr⟩ : ∃ r : Nat, relPos p.seq s.last = (r : Int) := ⟨(relPos p.seq s.last).toNat, by omega⟩
    obtain ⟨hseq, hr15, _⟩ := relPos_nonneg p.seq s.last r hrr
    by_cases hf : relPos p.seq s.last ≥ (s.buf.length : Int)
    · rw [reorder_flush s p hr hf]; exact winv_cleared s h _
    · by_cases h0 : relPos p.seq s.last = 0
      · rw [reorder_inorder s p hr hf h0]
        have hr0 : r = 0 := by omega
        subst hr0
        have hl : lastSeq s.last (p :: drainTail s) = s.last + 1 + UInt16.ofNat (scanLen s) := by
          rw [lastSeq_map]
          simp only [List.map_cons, drainTail_seq s h]
          have : p.seq :: List.map (fun i => seqAt s.last (i + 1)) (List.range (scanLen s))
              = (List.range (scanLen s + 1)).map (seqAt s.last) := by
            rw [List.range_succ_eq_map, List.map_cons, List.map_map]
            simp [seqAt, hseq]
          rw [this, List.getLast?_map, List.getLast?_range]
          simp [seqAt]
        have := winv_drain s h
        rw [← hl] at this
        exact this
      · cases hs : s.buf.getD (slotIdx s (relPos p.seq s.last).toNat) none with
        | some q =>
          rw [reorder_dup s p hr hf h0 q hs]
          exact winv_congr s _ h rfl rfl rfl (by simp)
        | none =>
          rw [reorder_put s p hr hf h0 hs]
          have e : (relPos p.seq s.last).toNat = r := by omega
          rw [e]
          exact winv_put s h p r (by omega) (by omega) hseq

/-- full invariant -/
structure Inv (s : State) : Prop where
  win   : s.unreliable = true → WInv s
  fresh : s.first = false → (∀ i, slot s i = none) ∧ s.lostSince = 0 ∧ s.rlSince = 0
  loss  : s.lostSince < s.rlSince ∨ (s.lostSince = 0 ∧ s.rlSince = 0)

theorem inv_init (u : Bool) (size : Nat) (h : u = true → Pow2 size) : Inv (Recv.init u size) := by
  refine ⟨?_, ?_, Or.inr ⟨rfl, rfl⟩⟩
  · intro hu
    have : u = true := hu
    subst this
    exact WInv.init size (h rfl)
  · intro _
    refine ⟨?_, rfl, rfl⟩
    intro i
    cases u with
    | true => exact slot_replicate _ size (init_buf size) i
    | false => simp [slot, Recv.init]

theorem lost_pos_pkts (s : State) (p : Pkt) (h : (reorder s p).2.lost ≠ 0) :
    (reorder s p).2.pkts ≠ [] := by
  unfold reorder at h ⊢
  simp only at h ⊢
  split
  · split <;> simp_all
  · split
    · simp
    · split
      · split <;> simp_all
      · simp

/-- **the invariant is preserved by `ProcessPacket2` for every packet** -/
theorem inv_step (s : State) (p : Pkt) (h : Inv s) : Inv (step s p).1 := by
  cases hf : s.first with
  | false =>
    rw [step_first s p hf]
    obtain ⟨hempty, hl, hrl⟩ := h.fresh hf
    refine ⟨?_, by simp, by left; simp [hl]⟩
    intro hu
    have hw := h.win hu
    refine ⟨hw.pow2, hw.abs_lt, hempty 0, ?_, hw.neg⟩
    intro r q _ hq
    have : slot s r = some q := hq
    rw [hempty r] at this; simp at this
  | true =>
    cases hu : s.unreliable with
    | true =>
      have hw := h.win hu
      obtain ⟨hb, ha, hn, hl, ho⟩ := step_unrel_fields s p hf hu
      have hwr := winv_reorder s p hw
      refine ⟨?_, ?_, ?_⟩
      · intro _
        exact winv_congr _ _ hwr hb ha hl (by rw [hn, hb]; exact hwr.neg)
      · intro hff
        rw [step_unrel s p hf hu] at hff
        have := (foldl_advance_fields (counted (reorder s p).1 (reorder s p).2) (reorder s p).2.pkts).2.2.2.2.1
        rw [this] at hff
        have hfr : (reorder s p).1.first = s.first := by
          unfold reorder; simp only
          split
          · split <;> rfl
          · split
            · rfl
            · split
              · split <;> rfl
              · rfl
        simp [counted, hfr, hf] at hff
      · rw [step_unrel s p hf hu]
        have hc := foldl_advance_fields (counted (reorder s p).1 (reorder s p).2) (reorder s p).2.pkts
        rw [hc.2.2.2.2.2.2.1, hc.2.2.2.2.2.2.2.2]
        have hls : (reorder s p).1.lostSince = s.lostSince ∧ (reorder s p).1.rlSince = s.rlSince := by
          unfold reorder; simp only
          split
          · split <;> exact ⟨rfl, rfl⟩
          · split
            · exact ⟨rfl, rfl⟩
            · split
              · split <;> exact ⟨rfl, rfl⟩
              · exact ⟨rfl, rfl⟩
        simp only [counted, hls.1, hls.2]
        by_cases hz : (reorder s p).2.lost = 0
        · rcases h.loss with hlt | ⟨h1, h2⟩
          · left; omega
          · rw [hz, h1, h2]
            by_cases hp : (reorder s p).2.pkts.length = 0
            · right; omega
            · left; omega
        · have := lost_pos_pkts s p hz
          have : 0 < (reorder s p).2.pkts.length := List.length_pos_iff.mpr this
          left
          rcases h.loss with hlt | ⟨h1, h2⟩ <;> omega
    | false =>
      rw [step_rel s p hf hu]
      refine ⟨?_, ?_, ?_⟩
      · intro hcontra; simp [advance, counted, hu] at hcontra
      · intro hff; simp [advance, counted, hf] at hff
      · simp only [List.foldl_cons, List.foldl_nil, advance, counted, List.length_cons, List.length_nil]
        left
        rcases h.loss with hlt | ⟨h1, h2⟩ <;> omega

/-- `report()` preserves the invariant -/
theorem inv_report (s : State) (h : Inv s) : Inv (report s).1 := by
  unfold report
  cases hf : s.first with
  | false => simpa using h
  | true =>
    simp only [Bool.not_true, Bool.false_eq_true, if_false]
    refine ⟨?_, ?_, Or.inr ⟨rfl, rfl⟩⟩
    · intro hu; exact winv_congr s _ (h.win hu) rfl rfl rfl (h.win hu).neg
    · intro hff; simp [hf] at hff

/-- **the fraction-lost value never wraps in Go's `uint8(…)` conversion** -/
theorem fraction_lt_256 (s : State) (h : Inv s) (r : Report) (hr : (report s).2 = some r) :
    r.fractionLost < 256 := by
  unfold report at hr
  cases hf : s.first with
  | false => simp [hf] at hr
  | true =>
    simp only [hf, Bool.not_true, Bool.false_eq_true, if_false, Option.some.injEq] at hr
    subst hr
    simp only
    split
    · rename_i hne
      rcases h.loss with hlt | ⟨_, h2⟩
      · apply Nat.div_lt_of_lt_mul
        have : min s.lostSince Recv.fractionClamp ≤ s.lostSince := Nat.min_le_left _ _
        calc min s.lostSince Recv.fractionClamp * 256 ≤ s.lostSince * 256 := Nat.mul_le_mul_right _ this
          _ < s.rlSince * 256 := Nat.mul_lt_mul_of_pos_right hlt (by decide)
      · exact absurd h2 hne
    · decide

/-! ### operations and histories -/

inductive Op where
  | pkt (p : Pkt)
  | report
deriving Repr

inductive Ev where
  | out (o : Out)
  | rep (r : Option Report)
deriving Repr

def exec1 (s : State) : Op → State × Ev
  | .pkt p => let (s', o) := step s p; (s', .out o)
  | .report => let (s', r) := report s; (s', .rep r)

def exec (s : State) : List Op → State × List Ev
  | [] => (s, [])
  | op :: ops =>
    let (s1, e) := exec1 s op
    let (s2, es) := exec s1 ops
    (s2, e :: es)

/-- **the invariant holds in every reachable state** (any interleaving of packets and reports) -/
theorem inv_exec (s : State) (ops : List Op) (h : Inv s) : Inv (exec s ops).1 := by
  induction ops generalizing s with
  | nil => exact h
  | cons op ops ih =>
    simp only [exec]
    apply ih
    cases op with
    | pkt p => exact inv_step s p h
    | report => exact inv_report s h

end Rtsp.Recv
