import Rtsp.Proofs.UrlWf
/-
A broad explicit class of authorities satisfies `AuthOK` (`authOK_plain`): optional plain user name and
password, registered name / IPv4 literal of plain bytes, optional numeric port.
-/
namespace Rtsp.Url

/-- bytes of a user name / password that net/url prints back unescaped: alnum `- _ . ~ $ & + , ; =` -/
def userPlain (c : UInt8) : Bool := !shouldEscape c .userPassword && c != 37

/-- bytes of a registered name / IPv4 literal that net/url prints back unescaped and that do not structure the
authority: alnum `- _ . ~` and the sub-delims `! $ & ' ( ) * + , ; =` (no `:`, `[`, `]`, `@`, `%`) -/
def hostPlain (c : UInt8) : Bool :=
  !shouldEscape c .host && c != 37 && c != 58 && c != 91 && c != 93 && c != 64 && c < 128 && authByte c && c != 60 && c != 62 && c != 34

set_option maxRecDepth 8000 in
theorem userPlain_facts : ∀ c : UInt8, userPlain c = true →
    c ≠ 37 ∧ c ≠ 58 ∧ c ≠ 64 ∧ authByte c = true ∧ shouldEscape c .userPassword = false ∧
    (isAlnum c || [45, 46, 95, 58, 126, 33, 36, 38, 39, 40, 41, 42, 43, 44, 59, 61, 37, 64].contains c) = true :=
  forall_byte (by decide)

set_option maxRecDepth 8000 in
theorem hostPlain_facts : ∀ c : UInt8, hostPlain c = true →
    c ≠ 37 ∧ c ≠ 58 ∧ c ≠ 91 ∧ c ≠ 64 ∧ authByte c = true ∧ shouldEscape c .host = false ∧ plainOK .host c = true :=
  forall_byte (by decide)

set_option maxRecDepth 8000 in
theorem digit_host_facts : ∀ c : UInt8, isDigit c = true →
    c ≠ 37 ∧ c ≠ 91 ∧ c ≠ 64 ∧ authByte c = true ∧ shouldEscape c .host = false ∧ plainOK .host c = true :=
  forall_byte (by decide)

theorem escape_id {m : Mode} {s : Str} (h : ∀ c ∈ s, shouldEscape c m = false) : escape m s = s := by
  induction s with
  | nil => rfl
  | cons c r ih =>
    rw [escape_cons, h c (by simp), ih (fun x hx => h x (List.mem_cons_of_mem _ hx))]
    simp

theorem unescape_id {m : Mode} {s : Str} (h : ∀ c ∈ s, c ≠ 37 ∧ plainOK m c = true) : unescape m s = some s := by
  induction s with
  | nil => rfl
  | cons c r ih =>
    exact unescape_plain_some m (h c (by simp)).1 (h c (by simp)).2 (ih (fun x hx => h x (List.mem_cons_of_mem _ hx)))

theorem plainOK_user (c : UInt8) : plainOK .userPassword c = true := by simp [plainOK]

/-- `name[:port]` -/
def hostPort (name : Str) (port : Option Str) : Str :=
  name ++ (match port with | some p => 58 :: p | none => [])

/-- a host text that net/url parses to itself and prints back unchanged, and that contains neither `@` nor `%` -/
structure HostOK (h : Str) : Prop where
  parse : parseHost h = some h
  esc : escape .host h = h
  bytes : h.all authByte = true
  no64 : (64 : UInt8) ∉ h
  no37 : (37 : UInt8) ∉ h

theorem hostOK_plain {name : Str} {port : Option Str} (hn : name.all hostPlain = true)
    (hp : ∀ p, port = some p → p.all isDigit = true) : HostOK (hostPort name port) := by
  have hname : ∀ c ∈ name, hostPlain c = true := fun c m => mem_all hn m
  have hmem : ∀ c ∈ hostPort name port, c ≠ 37 ∧ c ≠ 91 ∧ c ≠ 64 ∧ authByte c = true ∧ shouldEscape c .host = false ∧ plainOK .host c = true := by
    intro c m
    unfold hostPort at m
    rcases List.mem_append.1 m with m | m
    · obtain ⟨a, _, b, d, e, f, g⟩ := hostPlain_facts c (hname c m); exact ⟨a, b, d, e, f, g⟩
    · cases port with
      | none => simp at m
      | some p =>
        simp only [List.mem_cons] at m
        rcases m with rfl | m
        · decide
        · exact digit_host_facts c (mem_all (hp p rfl) m)
  have h91 : (hostPort name port).contains 91 = false := by
    cases hc : (hostPort name port).contains 91 with
    | false => rfl
    | true => exact absurd rfl (hmem 91 (by simpa using hc)).2.1
  refine ⟨?_, escape_id (fun c m => (hmem c m).2.2.2.2.1), List.all_eq_true.2 (fun c m => (hmem c m).2.2.2.1),
    fun m => (hmem 64 m).2.2.1 rfl, fun m => (hmem 37 m).1 rfl⟩
  unfold parseHost
  rw [h91]
  simp only [Bool.false_eq_true, if_false]
  have h58 : (58 : UInt8) ∉ name := fun m => (hostPlain_facts 58 (hname 58 m)).2.1 rfl
  have hun := unescape_id (m := .host) (s := hostPort name port) (fun c m => ⟨(hmem c m).1, (hmem c m).2.2.2.2.2⟩)
  cases port with
  | none =>
    have hsf : splitFirst 58 (hostPort name none) = none := by
      unfold hostPort; simp [splitFirst_none h58]
    rw [hsf]
    simp only [Bool.not_true, Bool.false_eq_true, if_false]
    exact hun
  | some p =>
    have hsf : splitFirst 58 (hostPort name (some p)) = some (name, p) := by
      unfold hostPort; exact splitFirst_append h58
    rw [hsf]
    simp only [hp p rfl, Bool.not_true, Bool.false_eq_true, if_false]
    exact hun


theorem unpct25_id : ∀ (n : Nat) (s : Str), s.length ≤ n → (37 : UInt8) ∉ s → unpct25 s = s := by
  intro n
  induction n with
  | zero => intro s hl _; have : s = [] := List.length_eq_zero_iff.1 (by omega); subst this; rfl
  | succ n ih =>
    intro s hl h
    match s with
    | [] => rfl
    | [c] => rfl
    | [c, d] => rfl
    | c :: a :: b :: rest =>
      have hc : c ≠ 37 := fun e => h (by simp [e])
      have hr : (37 : UInt8) ∉ (a :: b :: rest) := fun m => h (List.mem_cons_of_mem _ m)
      rw [unpct25]
      simp only [hc, decide_false, Bool.false_and, Bool.false_eq_true, if_false]
      rw [ih (a :: b :: rest) (by simp at hl ⊢; omega) hr]

theorem fixPct_id {s : Str} (h : (37 : UInt8) ∉ s) : fixPct s = s := by
  unfold fixPct
  rw [unpct25_id s.length s (Nat.le_refl _) h]
  unfold pct25
  induction s with
  | nil => rfl
  | cons c r ih =>
    have hc : c ≠ 37 := fun e => h (by simp [e])
    have hr : (37 : UInt8) ∉ r := fun m => h (List.mem_cons_of_mem _ m)
    simp [List.flatMap_cons, hc]
    exact ih hr

/-- plain user-info: a user name and optionally a password of `userPlain` bytes -/
def UserPlain (u : Option UserInfo) : Prop :=
  match u with
  | none => True
  | some ui => ui.username.all userPlain = true ∧ (∀ p, ui.password = some p → p.all userPlain = true)

/-- user-info of plain bytes in front of any host text that parses to itself: the authority hypothesis holds -/
theorem authOK_of_hostOK {user : Option UserInfo} {host : Str} (hu : UserPlain user) (hh : HostOK host) :
    AuthOK (authText user host) user host := by
  obtain ⟨hph, hesc, hbytes, h64, h37⟩ := hh
  unfold authText
  rw [hesc]
  cases user with
  | none =>
    simp only [userText, List.nil_append]
    refine ⟨hbytes, ?_, ?_⟩
    · unfold parseAuthority; rw [splitLast_none h64, hph]
    · unfold zoneStable; rw [splitFirst_none h64]
  | some ui =>
    obtain ⟨un, pw⟩ := ui
    obtain ⟨hun, hpw⟩ := hu
    simp only at hun hpw
    have hunm : ∀ c ∈ un, userPlain c = true := fun c m => mem_all hun m
    have hesc_un : escape .userPassword un = un := escape_id (fun c m => (userPlain_facts c (hunm c m)).2.2.2.2.1)
    have hdec_un : unescape .userPassword un = some un :=
      unescape_id (fun c m => ⟨(userPlain_facts c (hunm c m)).1, plainOK_user c⟩)
    have h58un : (58 : UInt8) ∉ un := fun m => (userPlain_facts 58 (hunm 58 m)).2.1 rfl
    have h64un : (64 : UInt8) ∉ un := fun m => (userPlain_facts 64 (hunm 64 m)).2.2.1 rfl
    cases pw with
    | none =>
      simp only [userText, UserInfo.render, hesc_un, List.append_nil, List.append_assoc, List.singleton_append, List.nil_append]
      refine ⟨?_, ?_, ?_⟩
      · rw [List.all_append, List.all_cons, hbytes]
        have : un.all authByte = true := List.all_eq_true.2 (fun c m => (userPlain_facts c (hunm c m)).2.2.2.1)
        rw [this]; decide
      · unfold parseAuthority
        have hv : validUserinfo un = true := by
          unfold validUserinfo
          exact List.all_eq_true.2 (fun c m => (userPlain_facts c (hunm c m)).2.2.2.2.2)
        simp only [splitLast_append h64, hph, hv, Bool.not_true, Bool.false_eq_true, if_false, splitFirst_none h58un, hdec_un]
      · unfold zoneStable
        rw [splitFirst_append h64un]
        simp [fixPct_id h37]
    | some pw =>
      have hpwm : ∀ c ∈ pw, userPlain c = true := fun c m => mem_all (hpw pw rfl) m
      have hesc_pw : escape .userPassword pw = pw := escape_id (fun c m => (userPlain_facts c (hpwm c m)).2.2.2.2.1)
      have hdec_pw : unescape .userPassword pw = some pw :=
        unescape_id (fun c m => ⟨(userPlain_facts c (hpwm c m)).1, plainOK_user c⟩)
      have h64pw : (64 : UInt8) ∉ pw := fun m => (userPlain_facts 64 (hpwm 64 m)).2.2.1 rfl
      simp only [userText, UserInfo.render, hesc_un, hesc_pw, List.append_assoc, List.singleton_append, List.cons_append, List.nil_append]
      have hui64 : (64 : UInt8) ∉ un ++ 58 :: pw := by
        intro m
        rcases List.mem_append.1 m with m | m
        · exact h64un m
        · simp only [List.mem_cons] at m
          rcases m with m | m
          · revert m; decide
          · exact h64pw m
      have e : un ++ 58 :: (pw ++ 64 :: host) = (un ++ 58 :: pw) ++ 64 :: host := by simp
      rw [e]
      refine ⟨?_, ?_, ?_⟩
      · rw [List.all_append, List.all_cons, hbytes, List.all_append, List.all_cons]
        have h1 : un.all authByte = true := List.all_eq_true.2 (fun c m => (userPlain_facts c (hunm c m)).2.2.2.1)
        have h2 : pw.all authByte = true := List.all_eq_true.2 (fun c m => (userPlain_facts c (hpwm c m)).2.2.2.1)
        rw [h1, h2]; decide
      · unfold parseAuthority
        have hv : validUserinfo (un ++ 58 :: pw) = true := by
          unfold validUserinfo
          apply List.all_eq_true.2
          intro c m
          rcases List.mem_append.1 m with m | m
          · exact (userPlain_facts c (hunm c m)).2.2.2.2.2
          · simp only [List.mem_cons] at m
            rcases m with rfl | m
            · decide
            · exact (userPlain_facts c (hpwm c m)).2.2.2.2.2
        simp only [splitLast_append h64, hph, hv, Bool.not_true, Bool.false_eq_true, if_false, splitFirst_append h58un, hdec_un, hdec_pw]
      · unfold zoneStable
        rw [splitFirst_append hui64]
        simp [fixPct_id h37]


/-- **Plain authorities**: optional plain user name and password, a registered name or IPv4 literal of plain
bytes, optional numeric port. -/
theorem authOK_plain {user : Option UserInfo} {name : Str} {port : Option Str} (hu : UserPlain user)
    (hn : name.all hostPlain = true) (hp : ∀ p, port = some p → p.all isDigit = true) :
    AuthOK (authText user (hostPort name port)) user (hostPort name port) :=
  authOK_of_hostOK hu (hostOK_plain hn hp)

/-! ### IPv6 literals (without zone) -/

/-- `[v6][:port]` -/
def hostV6 (v6 : Str) (port : Option Str) : Str :=
  91 :: (v6 ++ 93 :: (match port with | some p => 58 :: p | none => []))

def v6Byte (c : UInt8) : Bool := isHex c || c == 58

set_option maxRecDepth 8000 in
theorem v6Byte_facts : ∀ c : UInt8, v6Byte c = true →
    c ≠ 37 ∧ c ≠ 91 ∧ c ≠ 93 ∧ c ≠ 64 ∧ authByte c = true ∧ shouldEscape c .host = false ∧ plainOK .host c = true :=
  forall_byte (by decide)

theorem findSub_none_head {c : UInt8} {t s : Str} (h : c ∉ s) : findSub (c :: t) s = none := by
  induction s with
  | nil => simp [findSub]
  | cons x xs ih =>
    have hx : c ≠ x := fun e => h (by simp [e])
    have hxs : c ∉ xs := fun m => h (List.mem_cons_of_mem _ m)
    unfold findSub
    simp [List.isPrefixOf, hx, ih hxs]

/-- IPv6 literal hosts: hex groups and colons that netip accepts, optional numeric port -/
theorem hostOK_v6 {v6 : Str} {port : Option Str} (hb : v6.all v6Byte = true) (hv : isIPv6 v6 = true)
    (hp : ∀ p, port = some p → p.all isDigit = true) : HostOK (hostV6 v6 port) := by
  have hv6 : ∀ c ∈ v6, v6Byte c = true := fun c m => mem_all hb m
  have hportmem : ∀ c ∈ (match port with | some p => 58 :: p | none => []),
      c ≠ 37 ∧ c ≠ 91 ∧ c ≠ 93 ∧ c ≠ 64 ∧ authByte c = true ∧ shouldEscape c .host = false := by
    intro c m
    cases port with
    | none => simp at m
    | some p =>
      simp only [List.mem_cons] at m
      rcases m with rfl | m
      · decide
      · have := v6Byte_facts c (by
          have hd := mem_all (hp p rfl) m
          simp [v6Byte, isHex]; simp [isDigit] at hd; exact Or.inl (Or.inl (Or.inl hd)))
        exact ⟨this.1, this.2.1, this.2.2.1, this.2.2.2.1, this.2.2.2.2.1, this.2.2.2.2.2.1⟩
  have hmem : ∀ c ∈ hostV6 v6 port, c ≠ 37 ∧ c ≠ 64 ∧ authByte c = true ∧ shouldEscape c .host = false := by
    intro c m
    unfold hostV6 at m
    simp only [List.mem_cons, List.mem_append] at m
    rcases m with rfl | m | rfl | m
    · decide
    · have := v6Byte_facts c (hv6 c m); exact ⟨this.1, this.2.2.2.1, this.2.2.2.2.1, this.2.2.2.2.2.1⟩
    · decide
    · have := hportmem c m; exact ⟨this.1, this.2.2.2.1, this.2.2.2.2.1, this.2.2.2.2.2⟩
  refine ⟨?_, escape_id (fun c m => (hmem c m).2.2.2), List.all_eq_true.2 (fun c m => (hmem c m).2.2.1),
    fun m => (hmem 64 m).2.1 rfl, fun m => (hmem 37 m).1 rfl⟩
  -- parseHost
  have h93 : (93 : UInt8) ∉ (match port with | some p => 58 :: p | none => []) :=
    fun m => (hportmem 93 m).2.2.1 rfl
  have h91 : (91 : UInt8) ∉ v6 := fun m => (v6Byte_facts 91 (hv6 91 m)).2.1 rfl
  have h37 : (37 : UInt8) ∉ v6 := fun m => (v6Byte_facts 37 (hv6 37 m)).1 rfl
  have hvalid : validOptionalPort (match port with | some p => 58 :: p | none => []) = true := by
    cases port with
    | none => rfl
    | some p => simp [validOptionalPort, hp p rfl]
  have hun : unescape .host v6 = some v6 :=
    unescape_id (fun c m => ⟨(v6Byte_facts c (hv6 c m)).1, (v6Byte_facts c (hv6 c m)).2.2.2.2.2.2⟩)
  unfold parseHost
  have hc : (hostV6 v6 port).contains 91 = true := by unfold hostV6; simp
  rw [hc]
  simp only [if_true]
  have hsl : splitLast 93 (hostV6 v6 port) = some (91 :: v6, (match port with | some p => 58 :: p | none => [])) := by
    unfold hostV6
    have : (91 : UInt8) :: (v6 ++ 93 :: (match port with | some p => 58 :: p | none => [])) =
        (91 :: v6) ++ 93 :: (match port with | some p => 58 :: p | none => []) := by simp
    rw [this]; exact splitLast_append h93
  have hsl2 : splitLast 91 (91 :: v6) = some ([], v6) := by
    have : (91 : UInt8) :: v6 = [] ++ 91 :: v6 := rfl
    rw [this]; exact splitLast_append h91
  simp only [hsl, hvalid, Bool.not_true, Bool.false_eq_true, if_false, hsl2, findSub_none_head h37, hun, hv, if_true]
  unfold hostV6; simp

/-- **IPv6 authorities**: optional plain user name and password, a bracketed IPv6 literal, optional port. -/
theorem authOK_v6 {user : Option UserInfo} {v6 : Str} {port : Option Str} (hu : UserPlain user)
    (hb : v6.all v6Byte = true) (hv : isIPv6 v6 = true) (hp : ∀ p, port = some p → p.all isDigit = true) :
    AuthOK (authText user (hostV6 v6 port)) user (hostV6 v6 port) :=
  authOK_of_hostOK hu (hostOK_v6 hb hv hp)

theorem parseRest_omit {scheme rest q : Str} {fq : Bool} {u : Url} (h : parseRest scheme rest fq q = some u)
    (hh : u.host ≠ []) : u.omitHost = false := by
  unfold parseRest at h
  split at h
  · simp at h; subst h; rfl
  · simp only at h
    split at h
    · simp at h; subst h; rfl
    · simp at h
  · split at h
    · simp at h; subst h; exact absurd rfl hh
    · simp at h
  · simp at h

theorem parseNoFrag_omit {x : Str} {u : Url} (h : parseNoFrag x = some u) (hh : u.host ≠ []) : u.omitHost = false := by
  unfold parseNoFrag at h
  split at h
  · simp at h
  · simp only at h
    split at h
    · simp at h
    · split at h
      · exact parseRest_omit h hh
      · split at h
        · exact parseRest_omit h hh
        · exact parseRest_omit h hh

theorem parse_omit {s : Str} {u : Url} (h : parse s = some u) (hh : u.host ≠ []) : u.omitHost = false := by
  unfold parse parseStd at h
  simp only at h
  split at h
  · simp at h; exact parseNoFrag_omit h.2.2 hh
  · simp only [Bool.not_true, Bool.false_eq_true, if_false] at h
    split at h
    · simp at h
    · exact parseNoFrag_omit h hh

end Rtsp.Url
