import Rtsp.Proofs.AuthKv
import Rtsp.Proofs.AuthB64
/-
Header text round trips:
  `Authenticate.unmarshal [a.marshal] = some a`      (realm, nonce without `"`)
  `Authorization.unmarshal [a.marshal] = some a`     (Digest: no `"` in any field;
                                                      Basic: no `:` in the user name)
-/
namespace Rtsp.Auth

theorem cutSpace_digest (x : Bytes) : cutSpace (b!"Digest " ++ x) = some (b!"Digest", x) := by
  simp [cutSpace, cSpace]

theorem cutSpace_basic (x : Bytes) : cutSpace (b!"Basic " ++ x) = some (b!"Basic", x) := by
  simp [cutSpace, cSpace]

theorem keyOk_realm : KeyOk b!"realm" := by unfold KeyOk; decide
theorem keyOk_nonce : KeyOk b!"nonce" := by unfold KeyOk; decide
theorem keyOk_username : KeyOk b!"username" := by unfold KeyOk; decide
theorem keyOk_uri : KeyOk b!"uri" := by unfold KeyOk; decide
theorem keyOk_response : KeyOk b!"response" := by unfold KeyOk; decide
theorem keyOk_algorithm : KeyOk b!"algorithm" := by unfold KeyOk; decide

theorem noQuote_md5 : NoQuote b!"MD5" := by unfold NoQuote; decide
theorem noQuote_sha : NoQuote b!"SHA-256" := by unfold NoQuote; decide

theorem algKv_keyOk (alg : Option Alg) : ∀ kv ∈ algKv alg, KeyOk kv.1 := by
  intro kv h
  match alg with
  | none => simp [algKv] at h
  | some .md5 => simp [algKv] at h; subst h; exact keyOk_algorithm
  | some .sha256 => simp [algKv] at h; subst h; exact keyOk_algorithm

theorem algKv_noQuote (alg : Option Alg) : ∀ kv ∈ algKv alg, NoQuote kv.2 := by
  intro kv h
  match alg with
  | none => simp [algKv] at h
  | some .md5 => simp [algKv] at h; subst h; exact noQuote_md5
  | some .sha256 => simp [algKv] at h; subst h; exact noQuote_sha

/-! ### WWW-Authenticate -/

/-- a challenge in the shape `GenerateWWWAuthenticate` produces -/
def Authenticate.Canon (a : Authenticate) : Prop :=
  NoQuote a.realm ∧ NoQuote a.nonce ∧ (a.method = .basic → a.nonce = [] ∧ a.algorithm = none)

theorem algOf_digest (r n : Bytes) (alg : Option Alg) :
    algOf ([(b!"realm", r), (b!"nonce", n)] ++ algKv alg) = some alg := by
  match alg with
  | none => simp [algOf, kvGet, algKv]
  | some .md5 => simp [algOf, kvGet, algKv, parseAuthAlgorithm, lowerAscii]
  | some .sha256 => simp [algOf, kvGet, algKv, parseAuthAlgorithm, lowerAscii]

theorem kvGet_digest_realm (r n : Bytes) (alg : Option Alg) :
    kvGet ([(b!"realm", r), (b!"nonce", n)] ++ algKv alg) b!"realm" = some r := by
  match alg with
  | none => simp [kvGet, algKv]
  | some .md5 => simp [kvGet, algKv]
  | some .sha256 => simp [kvGet, algKv]

theorem kvGet_digest_nonce (r n : Bytes) (alg : Option Alg) :
    kvGet ([(b!"realm", r), (b!"nonce", n)] ++ algKv alg) b!"nonce" = some n := by
  match alg with
  | none => simp [kvGet, algKv]
  | some .md5 => simp [kvGet, algKv]
  | some .sha256 => simp [kvGet, algKv]

theorem authenticate_roundtrip (a : Authenticate) (h : a.Canon) :
    Authenticate.unmarshal [a.marshal] = some a := by
  obtain ⟨hr, hn, hb⟩ := h
  cases a with
  | mk method realm nonce algorithm =>
  cases method with
  | basic =>
    obtain ⟨h1, h2⟩ := hb rfl
    simp only at h1 h2 hr
    subst h1; subst h2
    have hp := keyValParse_joinKv [(b!"realm", realm)]
      (by intro kv hkv; simp at hkv; subst hkv; exact keyOk_realm)
      (by intro kv hkv; simp at hkv; subst hkv; exact hr)
    simp only [Authenticate.unmarshal, Authenticate.marshal, cutSpace_basic, if_true, hp]
    simp [kvGet]
  | digest =>
    simp only at hr hn
    have hp := keyValParse_joinKv ([(b!"realm", realm), (b!"nonce", nonce)] ++ algKv algorithm)
      (by
        intro kv hkv
        simp only [List.mem_append, List.mem_cons, List.not_mem_nil, or_false] at hkv
        rcases hkv with (h | h) | h
        · subst h; exact keyOk_realm
        · subst h; exact keyOk_nonce
        · exact algKv_keyOk _ kv h)
      (by
        intro kv hkv
        simp only [List.mem_append, List.mem_cons, List.not_mem_nil, or_false] at hkv
        rcases hkv with (h | h) | h
        · subst h; exact hr
        · subst h; exact hn
        · exact algKv_noQuote _ kv h)
    have hne : (b!"Digest" = b!"Basic") = False := by decide
    simp only [Authenticate.unmarshal, Authenticate.marshal, cutSpace_digest, hne, if_false, if_true, hp,
      algOf_digest, kvGet_digest_realm, kvGet_digest_nonce]

/-! ### Authorization -/

def digestKvs (a : Authorization) : List (Bytes × Bytes) :=
  [(b!"username", a.username), (b!"realm", a.realm), (b!"nonce", a.nonce),
   (b!"uri", a.uri), (b!"response", a.response)] ++ algKv a.algorithm

theorem algOf_authz (a : Authorization) : algOf (digestKvs a) = some a.algorithm := by
  match h : a.algorithm with
  | none => simp [digestKvs, h, algOf, kvGet, algKv]
  | some .md5 => simp [digestKvs, h, algOf, kvGet, algKv, parseAuthAlgorithm, lowerAscii]
  | some .sha256 => simp [digestKvs, h, algOf, kvGet, algKv, parseAuthAlgorithm, lowerAscii]

theorem kvGet_authz (a : Authorization) :
    kvGet (digestKvs a) b!"realm" = some a.realm ∧ kvGet (digestKvs a) b!"username" = some a.username ∧
    kvGet (digestKvs a) b!"nonce" = some a.nonce ∧ kvGet (digestKvs a) b!"uri" = some a.uri ∧
    kvGet (digestKvs a) b!"response" = some a.response := by
  match h : a.algorithm with
  | none => simp [digestKvs, h, kvGet, algKv]
  | some .md5 => simp [digestKvs, h, kvGet, algKv]
  | some .sha256 => simp [digestKvs, h, kvGet, algKv]

theorem authorization_digest_roundtrip (a : Authorization) (hm : a.method = .digest)
    (hp : a.basicPass = [])
    (hq : NoQuote a.username ∧ NoQuote a.realm ∧ NoQuote a.nonce ∧ NoQuote a.uri ∧ NoQuote a.response) :
    Authorization.unmarshal [a.marshal] = some a := by
  obtain ⟨q1, q2, q3, q4, q5⟩ := hq
  have hparse := keyValParse_joinKv (digestKvs a)
    (by
      intro kv hkv
      simp only [digestKvs, List.mem_append, List.mem_cons, List.not_mem_nil, or_false] at hkv
      rcases hkv with (h | h | h | h | h) | h
      · subst h; exact keyOk_username
      · subst h; exact keyOk_realm
      · subst h; exact keyOk_nonce
      · subst h; exact keyOk_uri
      · subst h; exact keyOk_response
      · exact algKv_keyOk _ kv h)
    (by
      intro kv hkv
      simp only [digestKvs, List.mem_append, List.mem_cons, List.not_mem_nil, or_false] at hkv
      rcases hkv with (h | h | h | h | h) | h
      · subst h; exact q1
      · subst h; exact q2
      · subst h; exact q3
      · subst h; exact q4
      · subst h; exact q5
      · exact algKv_noQuote _ kv h)
  have hne : (b!"Digest" = b!"Basic") = False := by decide
  have hmar : a.marshal = b!"Digest " ++ joinKv (digestKvs a) := by
    simp [Authorization.marshal, hm, digestKvs]
  obtain ⟨g1, g2, g3, g4, g5⟩ := kvGet_authz a
  rw [hmar]
  simp only [Authorization.unmarshal, cutSpace_digest, hne, if_false, if_true, hparse, algOf_authz, g1, g2, g3, g4, g5]
  cases a
  simp_all

theorem splitUserPass_join (u p : Bytes) (hu : ∀ c ∈ u, c ≠ cColon) :
    splitUserPass (u ++ [cColon] ++ p) = some (u, p) := by
  have h := takeWhile_stop (p := fun c => c != cColon) u cColon p
    (by intro x hx; simpa using hu x hx) (by simp)
  simp [splitUserPass, h.1, h.2]

theorem authorization_basic_roundtrip (u p : Bytes) (hu : ∀ c ∈ u, c ≠ cColon) :
    Authorization.unmarshal [({ method := .basic, username := u, basicPass := p } : Authorization).marshal]
      = some { method := .basic, username := u, basicPass := p } := by
  simp only [Authorization.unmarshal, Authorization.marshal, cutSpace_basic, if_true,
    B64Std.decode_encode, splitUserPass_join u p hu]

end Rtsp.Auth
