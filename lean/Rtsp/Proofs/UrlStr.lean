import Rtsp.Model.Url
/-
Byte-string lemmas for the URL model: cuts, reverse index, unescape / escape, decimal digits.
-/
namespace Rtsp.Url

/-! ### splitFirst -/

theorem splitFirst_none {c : UInt8} {s : Str} (h : c ∉ s) : splitFirst c s = none := by
  induction s with
  | nil => rfl
  | cons x xs ih =>
    have hx : x ≠ c := fun e => h (e ▸ List.mem_cons_self)
    have hxs : c ∉ xs := fun m => h (List.mem_cons_of_mem _ m)
    simp [splitFirst, hx, ih hxs]

theorem splitFirst_append {c : UInt8} {a b : Str} (h : c ∉ a) :
    splitFirst c (a ++ c :: b) = some (a, b) := by
  induction a with
  | nil => simp [splitFirst]
  | cons x xs ih =>
    have hx : x ≠ c := fun e => h (e ▸ List.mem_cons_self)
    have hxs : c ∉ xs := fun m => h (List.mem_cons_of_mem _ m)
    simp [splitFirst, hx, ih hxs]

theorem splitFirst_spec {c : UInt8} {s a b : Str} (h : splitFirst c s = some (a, b)) :
    s = a ++ c :: b ∧ c ∉ a := by
  induction s generalizing a with
  | nil => simp [splitFirst] at h
  | cons x xs ih =>
    by_cases hx : x = c
    · simp [splitFirst, hx] at h
      obtain ⟨rfl, rfl⟩ := h
      simp [hx]
    · simp only [splitFirst, hx, if_false] at h
      cases hr : splitFirst c xs with
      | none => simp [hr] at h
      | some r =>
        obtain ⟨a', b'⟩ := r
        simp [hr] at h
        obtain ⟨rfl, rfl⟩ := h
        obtain ⟨e, hn⟩ := ih hr
        refine ⟨by simp [e], ?_⟩
        intro m
        rcases List.mem_cons.1 m with m | m
        · exact hx m.symm
        · exact hn m

theorem splitLast_append {c : UInt8} {a b : Str} (h : c ∉ b) :
    splitLast c (a ++ c :: b) = some (a, b) := by
  unfold splitLast
  have : (a ++ c :: b).reverse = b.reverse ++ c :: a.reverse := by simp
  rw [this, splitFirst_append (by simpa using h)]
  simp

theorem splitLast_none {c : UInt8} {s : Str} (h : c ∉ s) : splitLast c s = none := by
  unfold splitLast
  rw [splitFirst_none (by simpa using h)]

/-! ### membership helpers -/

theorem not_mem_of_all {p : UInt8 → Bool} {s : Str} {c : UInt8} (h : s.all p = true) (hc : p c = false) :
    c ∉ s := by
  intro m
  have := List.all_eq_true.1 h c m
  simp [hc] at this

/-! ### stringsReverseIndex -/

theorem revIndexFrom_found (s sub : Str) (k : Nat) :
    ∀ d, sub.isPrefixOf (s.drop k) = true →
      (∀ j, k < j → j ≤ k + d → sub.isPrefixOf (s.drop j) = false) →
      revIndexFrom s sub (k + d) = some k := by
  intro d
  induction d with
  | zero =>
    intro hk _
    cases k with
    | zero => simpa [revIndexFrom] using hk
    | succ k => simp [revIndexFrom, hk]
  | succ d ih =>
    intro hk hno
    have h1 : sub.isPrefixOf (s.drop (k + d + 1)) = false := hno (k + d + 1) (by omega) (by omega)
    have : k + (d + 1) = (k + d) + 1 := by omega
    rw [this, revIndexFrom, if_neg (by simp [h1])]
    exact ih hk (fun j h1 h2 => hno j h1 (by omega))

theorem revIndexFrom_none (s sub : Str) :
    ∀ k, (∀ j, j ≤ k → sub.isPrefixOf (s.drop j) = false) → revIndexFrom s sub k = none := by
  intro k
  induction k with
  | zero => intro h; have := h 0 (Nat.le_refl _); simp only [List.drop_zero] at this; simp [revIndexFrom, this]
  | succ k ih =>
    intro h
    rw [revIndexFrom, if_neg (by simp [h (k + 1) (Nat.le_refl _)])]
    exact ih (fun j hj => h j (by omega))

theorem isPrefixOf_cons_false {x y : UInt8} {xs ys : Str} (h : x ≠ y) :
    (x :: xs).isPrefixOf (y :: ys) = false := by
  simp [List.isPrefixOf, h]

/-- a string that does not start with `/` (or is empty) does not have the tag as a prefix -/
theorem tag_not_prefix {t : Str} (h : t.head? ≠ some 47) : trackTag.isPrefixOf t = false := by
  have ht : trackTag = 47 :: [116, 114, 97, 99, 107, 73, 68, 61] := by decide
  cases t with
  | nil => rw [ht]; rfl
  | cons y ys =>
    rw [ht]
    apply isPrefixOf_cons_false
    intro e; apply h; simp [e]

theorem drop_head_mem {s : Str} {j : Nat} {c : UInt8} (h : (s.drop j).head? = some c) : c ∈ s := by
  have : c ∈ s.drop j := by
    cases hd : s.drop j with
    | nil => simp [hd] at h
    | cons y ys => simp [hd] at h; simp [h]
  exact List.mem_of_mem_drop this

/-- The server's own layout: `q ++ "/trackID=" ++ d` with a non-empty `d` without `/` is split at the
appended tag, whatever `q` contains (including further look-alikes of the tag). -/
theorem revIndex_appended_tag (q d : Str) (hd : d ≠ []) (hs : (47 : UInt8) ∉ d) :
    revIndex (q ++ trackTag ++ d) trackTag = some q.length := by
  have htl : trackTag.length = 9 := by decide
  have ht : trackTag = 47 :: [116, 114, 97, 99, 107, 73, 68, 61] := by decide
  have hdl : 0 < d.length := List.length_pos_iff.2 hd
  unfold revIndex
  have hlen : (q ++ trackTag ++ d).length = q.length + 9 + d.length := by simp [htl]; omega
  rw [if_neg (by rw [hlen, htl]; omega)]
  have hstart : (q ++ trackTag ++ d).length - 1 - trackTag.length = q.length + (d.length - 1) := by
    rw [hlen, htl]; omega
  rw [hstart]
  apply revIndexFrom_found
  · -- the tag sits at position |q|
    rw [List.append_assoc, List.drop_left]
    exact List.isPrefixOf_iff_prefix.2 (List.prefix_append _ _)
  · intro j h1 h2
    apply tag_not_prefix
    intro hh
    -- position j > |q| lies inside `tail tag ++ d`, which has no '/'
    have hj : (q ++ trackTag ++ d).drop j = ([116, 114, 97, 99, 107, 73, 68, 61] ++ d).drop (j - q.length - 1) := by
      rw [List.append_assoc, List.drop_append, ht]
      have : List.drop j q = [] := List.drop_eq_nil_of_le (by omega)
      rw [this, List.nil_append]
      have : j - q.length = (j - q.length - 1) + 1 := by omega
      rw [this]
      simp
    rw [hj] at hh
    have hm := drop_head_mem hh
    rcases List.mem_append.1 hm with hm | hm
    · revert hm; decide
    · exact hs hm

theorem revIndex_short {s : Str} (h : s.length < 10) : revIndex s trackTag = none := by
  have htl : trackTag.length = 9 := by decide
  unfold revIndex
  rw [if_pos (by rw [htl]; omega)]

/-- no occurrence when the string has no `/` at all -/
theorem revIndex_no_slash {s : Str} (h : (47 : UInt8) ∉ s) : revIndex s trackTag = none := by
  unfold revIndex
  split
  · rfl
  · apply revIndexFrom_none
    intro j _
    apply tag_not_prefix
    intro hh
    exact h (drop_head_mem hh)

/-! ### unescape / escape -/

theorem unescape_nil (m : Mode) : unescape m [] = some [] := rfl

theorem unescape_pct_some (m : Mode) {a b v : UInt8} {rest r : Str}
    (hp : pctByte m a b = some v) (hr : unescape m rest = some r) :
    unescape m (37 :: a :: b :: rest) = some (v :: r) := by
  simp [unescape, hp, hr]

theorem unescape_pct_inv (m : Mode) {a b : UInt8} {rest out : Str}
    (h : unescape m (37 :: a :: b :: rest) = some out) :
    ∃ v r, pctByte m a b = some v ∧ unescape m rest = some r ∧ out = v :: r := by
  simp only [unescape, if_true] at h
  cases hp : pctByte m a b with
  | none => simp [hp] at h
  | some v =>
    cases hr : unescape m rest with
    | none => simp [hp, hr] at h
    | some r => simp [hp, hr] at h; exact ⟨v, r, rfl, rfl, h.symm⟩

theorem unescape_pct_short1 (m : Mode) : unescape m [37] = none := by simp [unescape]
theorem unescape_pct_short2 (m : Mode) (a : UInt8) : unescape m [37, a] = none := by simp [unescape]

theorem unescape_plain_some (m : Mode) {c : UInt8} {rest r : Str} (hc : c ≠ 37)
    (hk : plainOK m c = true) (hr : unescape m rest = some r) :
    unescape m (c :: rest) = some (c :: r) := by
  rw [unescape.eq_def]; simp [hc, hk, hr]

theorem unescape_plain_inv (m : Mode) {c : UInt8} {rest out : Str} (hc : c ≠ 37)
    (h : unescape m (c :: rest) = some out) :
    ∃ r, plainOK m c = true ∧ unescape m rest = some r ∧ out = c :: r := by
  rw [unescape.eq_def] at h
  simp only [hc, if_false] at h
  by_cases hk : plainOK m c = true
  · rw [if_pos hk] at h
    cases hr : unescape m rest with
    | none => simp [hr] at h
    | some r => simp [hr] at h; exact ⟨r, hk, rfl, h.symm⟩
  · rw [if_neg hk] at h; simp at h

theorem unescape_append_aux (m : Mode) : ∀ (n : Nat) (a : Str), a.length ≤ n → ∀ {a' b b' : Str},
    unescape m a = some a' → unescape m b = some b' → unescape m (a ++ b) = some (a' ++ b') := by
  intro n
  induction n with
  | zero =>
    intro a hl a' b b' ha hb
    have : a = [] := List.length_eq_zero_iff.1 (by omega)
    subst this
    simp [unescape] at ha; subst ha; simpa using hb
  | succ n ih =>
    intro a hl a' b b' ha hb
    cases a with
    | nil => simp [unescape] at ha; subst ha; simpa using hb
    | cons c rest =>
      by_cases hc : c = 37
      · subst hc
        cases rest with
        | nil => simp [unescape_pct_short1] at ha
        | cons x r2 =>
          cases r2 with
          | nil => simp [unescape_pct_short2] at ha
          | cons y r3 =>
            obtain ⟨v, r, hp, hr, rfl⟩ := unescape_pct_inv m ha
            have h3 := ih r3 (by simp at hl; omega) hr hb
            show unescape m (37 :: x :: y :: (r3 ++ b)) = _
            rw [unescape_pct_some m hp h3]; rfl
      · obtain ⟨r, hk, hr, rfl⟩ := unescape_plain_inv m hc ha
        have h3 := ih rest (by simp at hl; omega) hr hb
        show unescape m (c :: (rest ++ b)) = _
        rw [unescape_plain_some m hc hk h3]; rfl

theorem unescape_append (m : Mode) {a a' b b' : Str}
    (ha : unescape m a = some a') (hb : unescape m b = some b') :
    unescape m (a ++ b) = some (a' ++ b') :=
  unescape_append_aux m a.length a (Nat.le_refl _) ha hb

end Rtsp.Url
