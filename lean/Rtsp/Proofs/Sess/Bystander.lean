import Rtsp.Model.Session
import Rtsp.Proofs.Sess.Wf
/-
C02: a request only touches the session it addresses — the session its connection is associated
with, or the one named by its Session header, or the one it creates.  Every other session record is
literally unchanged (state, transport, medias, connections) and stays alive.
-/
namespace Rtsp.Sess

theorem putSession_mem_other {srv : Server} {x ss' : Session} (hx : x ∈ srv.sessions) (hne : x.id ≠ ss'.id) :
    x ∈ (putSession srv ss').sessions := by
  rw [putSession_eq]
  exact List.mem_map.mpr ⟨x, hx, by simp [repl, hne]⟩

theorem endSession_mem_other {srv : Server} {x : Session} {sid : Nat} (hx : x ∈ srv.sessions) (hne : x.id ≠ sid) :
    x ∈ (endSession srv sid).sessions := by
  unfold endSession
  split
  · exact hx
  · exact List.mem_filter.mpr ⟨hx, by simpa using hne⟩

theorem closeConn_mem_other {srv : Server} {x : Session} {c : Nat} (hx : x ∈ srv.sessions)
    (hl : ∀ cn, findConn srv c = some cn → cn.sess ≠ some x.id) : x ∈ (closeConn srv c).sessions := by
  unfold closeConn
  cases hf : findConn srv c with
  | none => exact hx
  | some cn =>
    have hne := hl cn hf
    dsimp only
    cases hs : cn.sess with
    | none => exact hx
    | some sid =>
      have hsid : x.id ≠ sid := fun he => hne (by rw [hs, he])
      dsimp only
      have hfs : findSession { srv with conns := srv.conns.filter (·.id != c) } sid = findSession srv sid := rfl
      rw [hfs]
      cases hss : findSession srv sid with
      | none => exact hx
      | some ss =>
        have hssid := (findSession_some_mem hss).2
        dsimp only
        have hput : x ∈ (putSession { srv with conns := srv.conns.filter (·.id != c) }
            { ss with conns := ss.conns.erase c }).sessions :=
          putSession_mem_other (srv := { srv with conns := srv.conns.filter (·.id != c) }) hx
            (by show x.id ≠ ss.id; rw [hssid]; exact hsid)
        split
        · exact endSession_mem_other hput hsid
        · exact hput

theorem runInSession_mem_other (cfg : Config) {srv : Server} {x ss : Session} (c : Nat) (r0 : Request)
    (hx : x ∈ srv.sessions) (hne : x.id ≠ ss.id) : x ∈ (runInSession cfg srv c ss r0).1.sessions := by
  unfold runInSession
  generalize ({ r0 with portBusy := portBusy cfg srv ss r0 } : Request) = r
  have hid := sessHandle_id cfg ss c r
  unfold runInSessionWith
  dsimp only
  have hput : x ∈ (putSession srv (sessHandle cfg ss c r).ss).sessions :=
    putSession_mem_other hx (by rw [hid]; exact hne)
  split
  · exact endSession_mem_other (srv := setConnSess (putSession srv _) c none) hput hne
  · exact hput

/-- the link of connection `c` after `runInSession`: none or the session that handled the request -/
theorem runInSession_link (cfg : Config) {srv : Server} {ss : Session} (c : Nat) (r : Request) :
    ∀ cn', findConn (runInSession cfg srv c ss r).1 c = some cn' → cn'.sess = none ∨ cn'.sess = some ss.id := by
  intro cn' hf
  obtain ⟨hm, hcid⟩ := findConn_some_mem hf
  unfold runInSession runInSessionWith at hm
  dsimp only at hm
  split at hm
  · have hm2 := endSession_conns_sub _ _ cn' hm
    rw [setConnSess_eq] at hm2
    obtain ⟨y, _, rfl⟩ := List.mem_map.mp hm2
    left
    have : y.id = c := by rw [← hcid, relink_id]
    exact relink_eq this
  · rw [setConnSess_eq] at hm
    obtain ⟨y, _, rfl⟩ := List.mem_map.mp hm
    right
    have : y.id = c := by rw [← hcid, relink_id]
    exact relink_eq this

/-- a request on `cn` either leaves the server unchanged, or was handled by the session `cn` is
associated with, or by the one named in its Session header, or by a new one -/
theorem inSession_frame (cfg : Config) {srv : Server} (hw : WFc srv) {cn : Conn} (hcn : cn ∈ srv.conns)
    (r : Request) (create : Bool) {x : Session} (hx : x ∈ srv.sessions)
    (h1 : cn.sess ≠ some x.id) (h2 : r.sid ≠ .id x.id) :
    x ∈ (inSession cfg srv cn r create).1.sessions ∧
    ∀ cn', findConn (inSession cfg srv cn r create).1 cn.id = some cn' → cn'.sess ≠ some x.id := by
  have hself : ∀ cn', findConn srv cn.id = some cn' → cn'.sess ≠ some x.id := by
    intro cn' hf
    obtain ⟨hm, hid⟩ := findConn_some_mem hf
    rw [hw.conn_unique hm hcn hid]; exact h1
  unfold inSession
  cases hs : cn.sess with
  | none =>
    simp only
    cases hl : lookupSid srv r.sid with
    | some ss =>
      simp only
      have hssid : ss.id ≠ x.id := by
        unfold lookupSid at hl
        split at hl
        · rename_i hsid
          have := (findSession_some_mem hl).2
          intro he; apply h2; rw [← he, this]; exact hsid
        · cases hl
      split
      · exact ⟨hx, hself⟩
      · refine ⟨runInSession_mem_other cfg _ r hx (Ne.symm hssid), ?_⟩
        intro cn' hf
        rcases runInSession_link cfg cn.id r cn' hf with h | h
        · rw [h]; simp
        · rw [h]; simpa using hssid
    | none =>
      simp only
      split
      · exact ⟨hx, hself⟩
      · have hlt := hw.sessLt x hx
        have hne : x.id ≠ srv.nextSid := by omega
        refine ⟨runInSession_mem_other cfg _ r (List.mem_append.mpr (Or.inl hx)) hne, ?_⟩
        intro cn' hf
        rcases runInSession_link cfg cn.id r cn' hf with h | h
        · rw [h]; simp
        · rw [h]; simpa using Ne.symm hne
  | some cur =>
    simp only
    have hcur : cur ≠ x.id := fun he => h1 (by rw [hs, he])
    split
    · exact ⟨hx, hself⟩
    · cases hf : findSession srv cur with
      | none => exact ⟨hx, hself⟩
      | some ss =>
        have hssid := (findSession_some_mem hf).2
        refine ⟨runInSession_mem_other cfg _ r hx (by rw [hssid]; exact Ne.symm hcur), ?_⟩
        intro cn' hf'
        rcases runInSession_link cfg cn.id r cn' hf' with h | h
        · rw [h]; simp
        · rw [h, hssid]; simpa using hcur

theorem connInner_frame (cfg : Config) {srv : Server} (hw : WFc srv) {cn : Conn} (hcn : cn ∈ srv.conns)
    (r : Request) {x : Session} (hx : x ∈ srv.sessions) (h1 : cn.sess ≠ some x.id) (h2 : r.sid ≠ .id x.id) :
    x ∈ (connInner cfg srv cn r).1.sessions ∧
    ∀ cn', findConn (connInner cfg srv cn r).1 cn.id = some cn' → cn'.sess ≠ some x.id := by
  have hself : ∀ cn', findConn srv cn.id = some cn' → cn'.sess ≠ some x.id := by
    intro cn' hf
    obtain ⟨hm, hid⟩ := findConn_some_mem hf
    rw [hw.conn_unique hm hcn hid]; exact h1
  unfold connInner
  repeat' split
  all_goals first | exact ⟨hx, hself⟩ | exact inSession_frame cfg hw hcn r _ hx h1 h2

theorem find?_map_id (f : Conn → Conn) (hid : ∀ x, (f x).id = x.id) (d : Nat) :
    ∀ l : List Conn, (l.map f).find? (·.id == d) = (l.find? (·.id == d)).map f := by
  intro l
  induction l with
  | nil => rfl
  | cons a t ih =>
    simp only [List.map_cons, List.find?_cons, hid]
    split
    · rfl
    · exact ih

theorem arm_findConn_sess (b s : Server) (c d : Nat) (cn' : Conn) (h : findConn (arm b s c) d = some cn') :
    ∃ cn0, findConn s d = some cn0 ∧ cn0.sess = cn'.sess := by
  unfold findConn arm at h
  rw [find?_map_id _ (by intro x; split; rfl; split <;> rfl)] at h
  cases hf : s.conns.find? (·.id == d) with
  | none => rw [hf] at h; cases h
  | some cn0 =>
    rw [hf] at h
    simp only [Option.map_some, Option.some.injEq] at h
    refine ⟨cn0, hf, ?_⟩
    rw [← h]
    split
    · rfl
    · split <;> rfl

/-- **bystanders_untouched**: a request changes nothing about a session that is neither the one its
connection is associated with nor the one named by its Session header — the record stays in the
server exactly as it was (so `ServerSession.State()` of every other session is unchanged). -/
theorem handleRequest_bystander (cfg : Config) {srv : Server} (hw : WFc srv) {cn : Conn} (hcn : cn ∈ srv.conns)
    (r : Request) {x : Session} (hx : x ∈ srv.sessions) (h1 : cn.sess ≠ some x.id) (h2 : r.sid ≠ .id x.id) :
    x ∈ (handleRequest cfg srv cn r).1.sessions := by
  obtain ⟨hm, hl⟩ := connInner_frame cfg hw hcn r hx h1 h2
  unfold handleRequest
  split
  rename_i srv1 res heq
  rw [heq] at hm hl
  dsimp only
  split
  · refine closeConn_mem_other (srv := arm srv srv1 cn.id) hm ?_
    intro cn' hf
    obtain ⟨cn0, hf0, hs0⟩ := arm_findConn_sess srv srv1 cn.id cn.id cn' hf
    rw [← hs0]; exact hl cn0 hf0
  · show x ∈ (setMode srv1 cn.id res.err).sessions
    rw [setMode_sessions]; exact hm

end Rtsp.Sess
