import Rtsp.Model.SessionTimer
/-
Timing theorems of C02 about `Model/SessionTimer.lean`.
-/
namespace Rtsp.Sess.Timer
open Rtsp.Facts

/-! ## advertised timeout and client keep-alive period -/

theorem advertised_pos (idle : Nat) : 0 < advertised idle := by
  unfold advertised; simp [Sess.advertisedMin]; omega

/-- closed form: the gortsplib client pings every `⌊Idle⌋ − 10 s`, at least every second -/
theorem clientPeriod_eq (idle : Nat) :
    clientPeriod idle = max ((idle / sec - 10) * sec) sec := by
  unfold clientPeriod keepAlive advertised
  simp only [Sess.advertisedSub, Sess.advertisedMin, Sess.keepAliveSub, Sess.keepAliveMin, sec]
  omega

/-- **keepalive_margin**: for every configured IdleTimeout of at least 2 s the client's keep-alive
period plus one second fits into the server's timeout. -/
theorem keepalive_margin (idle : Nat) (h : 2 * sec ≤ idle) : clientPeriod idle + sec ≤ idle := by
  rw [clientPeriod_eq]
  simp only [sec] at *
  omega

/-- the bound `2 s` is tight: at 1.999999999 s the period (1 s) plus 1 s exceeds the timeout -/
theorem keepalive_margin_tight : ¬ (clientPeriod (2 * sec - 1) + sec ≤ 2 * sec - 1) := by decide

/-- below 2 s the margin is lost altogether at 1 s: period = timeout -/
theorem keepalive_no_margin_at_1s : clientPeriod sec = sec := by decide

/-! ## live peers are never expired -/

/-- The peer's side of the story, independent of the server's bookkeeping: `r` / `p` are the times
of the peer's latest request / packet; at every check the latest applicable transmission is less
than the timeout old. -/
def PeerLive (cfg : Cfg) (recording : Bool) : Nat → Nat → List Ev → Prop
  | _, _, [] => True
  | _, p, .request t :: es => PeerLive cfg recording t p es
  | r, _, .packet t :: es => PeerLive cfg recording r t es
  | _, _, .restart t :: es => PeerLive cfg recording t t es
  | r, p, .tick now :: es =>
    (if recording then now < p + cfg.read
     else (now < r + cfg.idle ∨ now < p + cfg.idle)) ∧ PeerLive cfg recording r p es

theorem live_aux (cfg : Cfg) (recording : Bool) (hr : 0 < cfg.read) (hi : 0 < cfg.idle) :
    ∀ (es : List Ev) (s : State) (r p : Nat), s.expired = false → s.lastReq = r → s.lastPkt = p →
      PeerLive cfg recording r p es → (run cfg recording s es).expired = false := by
  intro es
  induction es with
  | nil => intro s r p he _ _ _; simpa [run] using he
  | cons e es ih =>
    intro s r p he hreq hpkt hl
    cases e with
    | request t =>
      simp only [run, step, he]
      exact ih _ t p (by simp) rfl (by simpa using hpkt) (by simpa [PeerLive] using hl)
    | packet t =>
      simp only [run, step, he]
      exact ih _ r t (by simp) (by simpa using hreq) rfl (by simpa [PeerLive] using hl)
    | restart t =>
      simp only [run, step, he]
      exact ih _ t t (by simp) rfl rfl (by simpa [PeerLive] using hl)
    | tick now =>
      simp only [PeerLive] at hl
      obtain ⟨hnow, hl⟩ := hl
      have hexp : expires cfg recording s now = false := by
        unfold expires
        cases recording with
        | true => simp only [if_true] at hnow ⊢; rw [hpkt]; simp; omega
        | false =>
          simp only [Bool.false_eq_true, if_false] at hnow ⊢
          rw [hpkt, hreq]
          rcases hnow with h | h
          · simp; intro _; omega
          · simp; intro _; omega
      simp only [run, step, he, hexp]
      exact ih _ r p (by simp) (by simpa using hreq) (by simpa using hpkt) hl

/-- **live_never_expired**: a session whose peer keeps transmitting (keep-alive requests for PLAY,
RTP/RTCP packets for PLAY and RECORD) is never expired, whatever the interleaving of requests,
packets and check ticks, for all timeouts and all start times. -/
theorem live_never_expired (cfg : Cfg) (recording : Bool) (hr : 0 < cfg.read) (hi : 0 < cfg.idle)
    (t0 : Nat) (es : List Ev) (h : PeerLive cfg recording t0 t0 es) :
    (run cfg recording (start t0) es).expired = false :=
  live_aux cfg recording hr hi es (start t0) t0 t0 rfl rfl rfl h

/-- non-vacuity: PLAY at 0 with IdleTimeout 3 s, keep-alives every second, checks every second -/
example : PeerLive { idle := 3 * sec, read := 2 * sec } false 0 0
    [.tick sec, .request sec, .tick (2 * sec), .request (2 * sec), .tick (3 * sec), .tick (4 * sec)] := by
  simp [PeerLive, sec]

/-- A publisher that pauses for longer than ReadTimeout and then records again is live as long as its
first packet after the resume comes within ReadTimeout of the resume: RECORD at 0, packets until 3 s,
PAUSE, RECORD again at 10.5 s, first packet 1.5 s later, ReadTimeout 2 s, a check every 0.5 s. -/
theorem resumed_after_long_pause_is_live :
    PeerLive { idle := 6 * sec, read := 2 * sec } true 0 0
      [.packet (3 * sec), .restart (21 * (sec / 2)), .tick (11 * sec), .tick (23 * (sec / 2)), .tick (12 * sec),
       .packet (12 * sec), .tick (25 * (sec / 2))] := by
  simp [PeerLive, sec]

/-- with packet times kept in nanoseconds a publisher with ReadTimeout = 1 s that sends a packet
every 100 ms is live (the same timeline was timed out when the times were kept in whole seconds) -/
theorem record_1s_live :
    (run { idle := 60 * sec, read := sec } true (start 0)
      [.packet (sec / 2), .tick sec, .packet (sec + 9 * (sec / 10)), .tick (2 * sec)]).expired = false := by
  decide

/-! ## silent peers are closed within timeout + one check period -/

/-- check ticks (and nothing else: the peer is silent), each at most `period` after the previous
one, the first at most `period` after `clock` -/
def Spaced (period : Nat) : Nat → List Ev → Prop
  | _, [] => True
  | clock, .tick now :: es => clock ≤ now ∧ now ≤ clock + period ∧ Spaced period now es
  | _, _ :: _ => False

def lastTime : Nat → List Ev → Nat
  | c, [] => c
  | _, .tick now :: es => lastTime now es
  | _, .request now :: es => lastTime now es
  | _, .packet now :: es => lastTime now es
  | _, .restart now :: es => lastTime now es

/-- the moment from which a check must find the session timed out -/
def deadline (cfg : Cfg) (recording : Bool) (s : State) : Nat :=
  if recording then s.lastPkt + cfg.read else max s.lastReq s.lastPkt + cfg.idle

theorem expires_of_deadline (cfg : Cfg) (recording : Bool) (s : State) (now : Nat)
    (h : deadline cfg recording s ≤ now) : expires cfg recording s now = true := by
  unfold deadline at h
  unfold expires
  cases recording with
  | true => simp only [if_true] at h ⊢; simp; omega
  | false => simp only [Bool.false_eq_true, if_false] at h ⊢; simp; omega

theorem not_expires_lt (cfg : Cfg) (recording : Bool) (s : State) (now : Nat)
    (h : expires cfg recording s now = false) : now < deadline cfg recording s := by
  false_or_by_contra
  rename_i hn
  rw [expires_of_deadline cfg recording s now (by omega)] at h
  exact absurd h (by decide)

theorem silent_aux (cfg : Cfg) (recording : Bool) (period : Nat) (s : State) :
    ∀ (es : List Ev) (clock : Nat), es ≠ [] → Spaced period clock es →
      deadline cfg recording s ≤ lastTime clock es →
      ∃ t, expiryTime cfg recording s es = some t ∧ t ≤ max clock (deadline cfg recording s) + period := by
  intro es
  induction es with
  | nil => intro clock h; exact absurd rfl h
  | cons e es ih =>
    intro clock _ hsp hd
    cases e with
    | request t => exact absurd hsp (by simp [Spaced])
    | packet t => exact absurd hsp (by simp [Spaced])
    | restart t => exact absurd hsp (by simp [Spaced])
    | tick now =>
      simp only [Spaced] at hsp
      obtain ⟨_, hle, hsp⟩ := hsp
      simp only [lastTime] at hd
      by_cases hx : expires cfg recording s now = true
      · exact ⟨now, by simp [expiryTime, hx], by omega⟩
      · have hx' : expires cfg recording s now = false := by simpa using hx
        have hlt := not_expires_lt cfg recording s now hx'
        have hne : es ≠ [] := by
          intro h; subst h; simp only [lastTime] at hd; omega
        obtain ⟨t, ht, hb⟩ := ih now hne hsp hd
        exact ⟨t, by simp [expiryTime, hx', ht], by omega⟩

/-- **silent_closed_within**: once the peer is silent (only check ticks happen, at most `period`
apart) the session is timed out by a check no later than `timeout + period` after the peer's last
transmission — for PLAY (both the control and the media path silent) and RECORD, all timeouts. -/
theorem silent_closed_within (cfg : Cfg) (recording : Bool) (period : Nat) (s : State) (clock : Nat)
    (es : List Ev) (hne : es ≠ []) (hsp : Spaced period clock es)
    (hreach : deadline cfg recording s ≤ lastTime clock es) (hclock : clock ≤ deadline cfg recording s) :
    ∃ t, expiryTime cfg recording s es = some t ∧ t ≤ deadline cfg recording s + period := by
  obtain ⟨t, ht, hb⟩ := silent_aux cfg recording period s es clock hne hsp hreach
  exact ⟨t, ht, by omega⟩

/-- the deadline is exactly `timeout` after the peer's last transmission -/
theorem deadline_eq (cfg : Cfg) (recording : Bool) (r p : Nat) :
    deadline cfg recording { lastReq := r, lastPkt := p } =
      (if recording then p + cfg.read else max r p + cfg.idle) := by
  unfold deadline
  cases recording <;> simp

/-- `expiryTime` and `run` agree: the run is expired iff some tick found the timeout -/
theorem run_expired_of_expiryTime (cfg : Cfg) (recording : Bool) :
    ∀ (es : List Ev) (s : State) (t : Nat), s.expired = false → expiryTime cfg recording s es = some t →
      (run cfg recording s es).expired = true := by
  intro es
  induction es with
  | nil => intro s t _ h; simp [expiryTime] at h
  | cons e es ih =>
    intro s t he h
    cases e with
    | request now => simp only [expiryTime] at h; simp only [run]; exact ih _ t (by simp [step, he]) h
    | packet now => simp only [expiryTime] at h; simp only [run]; exact ih _ t (by simp [step, he]) h
    | restart now => simp only [expiryTime] at h; simp only [run]; exact ih _ t (by simp [step, he]) h
    | tick now =>
      simp only [expiryTime] at h
      by_cases hx : expires cfg recording s now = true
      · simp only [run, step, he, hx]
        exact run_stays _ _ es _ rfl
      · have hx' : expires cfg recording s now = false := by simpa using hx
        simp only [hx'] at h
        have hs : ({ s with expired := false } : State) = s := by cases s; simp_all
        simp only [run, step, he, hx']
        rw [hs]
        exact ih _ t he h
where
  run_stays (cfg : Cfg) (recording : Bool) : ∀ (es : List Ev) (s : State), s.expired = true →
      (run cfg recording s es).expired = true := by
    intro es
    induction es with
    | nil => intro s h; simpa [run] using h
    | cons e es ih => intro s h; cases e <;> simp only [run, step, h] <;> exact ih _ h

/-- non-vacuity of `silent_closed_within`: RECORD with ReadTimeout 2 s, last packet at 0.5 s,
checks every second from 1 s: the check at 2 s closes the session (deadline 2 s, bound 3 s). -/
example : Spaced sec 0 [.tick sec, .tick (2 * sec), .tick (3 * sec)] ∧
    expiryTime { idle := 60 * sec, read := 2 * sec } true { lastReq := 0, lastPkt := 0 }
      [.tick sec, .tick (2 * sec), .tick (3 * sec)] = some (2 * sec) :=
  ⟨by simp [Spaced, sec], by decide⟩

end Rtsp.Sess.Timer
