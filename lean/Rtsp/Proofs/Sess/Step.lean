import Rtsp.Model.Session
/-
Session-level theorems of C02: what one request does to a session's state
(`ServerSession.handleRequestInner` + the request case of `runInner`).
-/
namespace Rtsp.Sess
open Rtsp.Rfc2326 Rtsp.Facts

@[simp] theorem ok_eq : ok = 200 := rfl
@[simp] theorem badRequest_eq : badRequest = 400 := rfl

/-! ## a request either succeeds (200) or leaves the session untouched -/

theorem doAnnounce_cases (ss : Session) (r : Request) :
    (doAnnounce ss r).2.status = 200 ∨ (doAnnounce ss r).1 = ss := by
  unfold doAnnounce
  repeat' split
  all_goals first | (right; rfl) | (left; rfl)

theorem setupMedia_cases (cfg : Config) (ss : Session) (r : Request) (t : TrAlt) :
    (setupMedia cfg ss r t).2.status = 200 ∨ (setupMedia cfg ss r t).1 = ss := by
  unfold setupMedia
  repeat' split
  all_goals first | (right; rfl) | (left; rfl)

theorem doSetup_cases (cfg : Config) (ss : Session) (r : Request) :
    (doSetup cfg ss r).2.status = 200 ∨ (doSetup cfg ss r).1 = ss := by
  unfold doSetup
  repeat' split
  all_goals first | (right; rfl) | exact setupMedia_cases cfg ss r _

theorem doPlay_cases (ss : Session) (c : Nat) (r : Request) :
    (doPlay ss c r).2.status = 200 ∨ (doPlay ss c r).1 = ss := by
  unfold doPlay
  repeat' split
  all_goals first | (right; rfl) | (left; rfl)

theorem doRecord_cases (ss : Session) (c : Nat) (r : Request) :
    (doRecord ss c r).2.status = 200 ∨ (doRecord ss c r).1 = ss := by
  unfold doRecord
  repeat' split
  all_goals first | (right; rfl) | (left; rfl)

theorem doPause_cases (ss : Session) (r : Request) :
    (doPause ss r).2.status = 200 ∨ (doPause ss r).1 = ss := by
  unfold doPause
  repeat' split
  all_goals first | (right; rfl) | (left; rfl)

theorem sessInner_cases (cfg : Config) (ss : Session) (c : Nat) (r : Request) :
    (sessInner cfg ss c r).2.status = 200 ∨ (sessInner cfg ss c r).1 = ss := by
  unfold sessInner
  split
  · right; rfl
  · split
    · right; rfl
    · exact doAnnounce_cases ss r
    · exact doSetup_cases cfg ss r
    · exact doPlay_cases ss c r
    · exact doRecord_cases ss c r
    · exact doPause_cases ss r
    · right; rfl
    · right; unfold doGetParameter; split <;> rfl
    · right; unfold doSetParameter; split <;> rfl
    · right; rfl


/-! ## a successful request moves the state exactly as the RFC table says -/

theorem doPlay_state (ss : Session) (c : Nat) (r : Request) :
    (doPlay ss c r).2.status = 200 → (doPlay ss c r).1.state = next ss.state .play := by
  unfold doPlay
  cases hs : ss.state <;> simp [next, bad, startErr] <;> (repeat' split) <;> simp_all

theorem doPause_state (ss : Session) (r : Request) :
    (doPause ss r).2.status = 200 → (doPause ss r).1.state = next ss.state .pause := by
  unfold doPause
  cases hs : ss.state <;> simp [next, bad] <;> (repeat' split) <;> simp_all

theorem doRecord_state (ss : Session) (c : Nat) (r : Request) :
    (doRecord ss c r).2.status = 200 → (doRecord ss c r).1.state = next ss.state .record := by
  unfold doRecord
  cases hs : ss.state <;> simp [next, bad, startErr] <;> (repeat' split) <;> simp_all

theorem doAnnounce_state (ss : Session) (r : Request) :
    (doAnnounce ss r).2.status = 200 → (doAnnounce ss r).1.state = next ss.state .announce := by
  unfold doAnnounce
  cases hs : ss.state <;> simp [next, bad] <;> (repeat' split) <;> simp_all

theorem setupMedia_state (cfg : Config) (ss : Session) (r : Request) (t : TrAlt)
    (hst : ss.state = .initial ∨ ss.state = .prePlay ∨ ss.state = .preRecord) :
    (setupMedia cfg ss r t).2.status = 200 → (setupMedia cfg ss r t).1.state = next ss.state .setup := by
  unfold setupMedia
  rcases hst with hs | hs | hs <;> simp [next, bad, hs] <;> (repeat' split) <;> simp_all

theorem setupChecks_status (ss : Session) (r : Request) (t : TrAlt) (res : Resp)
    (h : setupChecks ss r t = some res) : res.status = 400 ∨ res.status = 461 := by
  unfold setupChecks at h
  dsimp only at h
  repeat' split at h
  all_goals first | (cases h; left; rfl) | (cases h; right; rfl) | (exact absurd h (by simp))

theorem doSetup_state (cfg : Config) (ss : Session) (r : Request) :
    (doSetup cfg ss r).2.status = 200 → (doSetup cfg ss r).1.state = next ss.state .setup := by
  unfold doSetup
  split
  · simp [bad]
  · rename_i hst
    have hst' : ss.state = .initial ∨ ss.state = .prePlay ∨ ss.state = .preRecord := by
      cases hs : ss.state <;> simp_all
    split
    · simp [bad]
    · split
      · simp [Facts.Sess.statusUnsupportedTransport]
      · split
        · rename_i res hres
          intro h
          rcases setupChecks_status ss r _ res hres with h1 | h1 <;> simp_all
        · split
          · rename_i hne; intro h; simp_all
          · exact setupMedia_state cfg ss r _ hst'

theorem sessInner_state (cfg : Config) (ss : Session) (c : Nat) (r : Request)
    (h : (sessInner cfg ss c r).2.status = 200) :
    (sessInner cfg ss c r).1.state = if r.method = .teardown then ss.state else next ss.state r.method := by
  unfold sessInner at h ⊢
  by_cases hc : (ss.tcpConn.isSome && ss.tcpConn != some c) = true
  · simp [hc, bad] at h
  · rw [if_neg hc] at h ⊢
    cases hm : r.method <;> simp only [hm] at h ⊢
    · simp [doOptions, next]
    · simp [Facts.Sess.statusNotImplemented] at h
    · simpa using doAnnounce_state ss r h
    · simpa using doSetup_state cfg ss r h
    · simpa using doPlay_state ss c r h
    · simpa using doRecord_state ss c r h
    · simpa using doPause_state ss r h
    · simp [doTeardown]
    · unfold doGetParameter; split <;> simp [next]
    · unfold doSetParameter; split <;> simp [next]

theorem sessInner_unchanged (cfg : Config) (ss : Session) (c : Nat) (r : Request)
    (h : (sessInner cfg ss c r).2.status ≠ 200) : (sessInner cfg ss c r).1 = ss :=
  (sessInner_cases cfg ss c r).resolve_left h

/-! ## the state guards of the code (`checkState` call sites) -/

/-- the allowed-state sets written at the five `checkState` call sites -/
def implAllowed : SState → Method → Bool
  | s, .announce => s == .initial
  | s, .setup => s == .initial || s == .prePlay || s == .preRecord
  | s, .play => s == .prePlay || s == .play
  | s, .record => s == .preRecord
  | s, .pause => s != .initial
  | _, _ => true

theorem sessInner_guard (cfg : Config) (ss : Session) (c : Nat) (r : Request)
    (h : implAllowed ss.state r.method = false) : sessInner cfg ss c r = bad ss := by
  unfold sessInner
  split
  · rfl
  · cases hm : r.method <;> simp only [hm, implAllowed] at h ⊢ <;> try (exact Bool.noConfusion h)
    · unfold doAnnounce; cases hs : ss.state <;> simp_all
    · unfold doSetup; cases hs : ss.state <;> simp_all
    · unfold doPlay; cases hs : ss.state <;> simp_all
    · unfold doRecord; cases hs : ss.state <;> simp_all
    · unfold doPause; cases hs : ss.state <;> simp_all

/-- the code accepts only what the table allows … -/
theorem implAllowed_sub_rfc (s : SState) (m : Method) (h : implAllowed s m = true) : allowed s m = true := by
  cases s <;> cases m <;> first | rfl | exact absurd h (by decide)

/-- … and is stricter in exactly three places: SETUP while streaming and RECORD while recording
(A.2 lists them; gortsplib answers 400) -/
theorem stricter_exactly (s : SState) (m : Method) :
    (allowed s m = true ∧ implAllowed s m = false) ↔
      (s, m) = (.play, .setup) ∨ (s, m) = (.record, .setup) ∨ (s, m) = (.record, .record) := by
  cases s <;> cases m <;> decide

/-! ## well-formed legal requests succeed (non-vacuity of the refinement) -/

/-- everything besides the state that the code checks before answering 200 -/
def WellFormed (cfg : Config) (ss : Session) (c : Nat) (r : Request) : Prop :=
  (ss.tcpConn = none ∨ ss.tcpConn = some c) ∧
  (match r.method with
   | .announce => r.ct = 1 ∧ r.sdpOk = true ∧ 0 < r.nAnn ∧ r.hStatus = 200
   | .setup => ∃ ts t i, r.trs = some ts ∧ pickTransport cfg ts = some t ∧ setupChecks ss r t = none ∧
        r.hStatus = 200 ∧ r.track = some i ∧ i ∉ ss.medias ∧
        (if ss.state = .preRecord then r.path = ss.path ∧ i < ss.nAnn else i < cfg.nMedias) ∧
        ¬ (ss.state = .initial ∧ t.proto = .udp ∧ r.portBusy = true)
   | .play => (ss.state = .prePlay → r.path = ss.path) ∧ r.hStatus = 200
   | .record => ss.medias.length = ss.nAnn ∧ r.path = ss.path ∧ r.hStatus = 200
   | .pause => r.hStatus = 200
   | .getParameter => cfg.h.getParameter = true → r.hStatus = 200
   | .setParameter => cfg.h.setParameter = true ∧ r.hStatus = 200
   | .describe => False
   | _ => True)

theorem wellformed_ok (cfg : Config) (ss : Session) (c : Nat) (r : Request)
    (hl : implAllowed ss.state r.method = true) (hw : WellFormed cfg ss c r) :
    (sessInner cfg ss c r).2.status = 200 := by
  obtain ⟨hc, hw⟩ := hw
  have hc' : (ss.tcpConn.isSome && ss.tcpConn != some c) = false := by
    rcases hc with h | h <;> simp [h]
  unfold sessInner
  simp only [hc', Bool.false_eq_true, if_false]
  cases hm : r.method <;> simp only [hm, implAllowed] at hl hw ⊢
  · rfl
  · obtain ⟨h1, h2, h3, h4⟩ := hw
    unfold doAnnounce
    have : r.nAnn ≠ 0 := by omega
    cases hs : ss.state <;> simp_all
  · obtain ⟨ts, t, i, h1, h2, h3, h4, h5, h6, h7, h8⟩ := hw
    unfold doSetup
    have : (!(ss.state == .initial || ss.state == .prePlay || ss.state == .preRecord)) = false := by
      rw [hl]; rfl
    simp only [this, Bool.false_eq_true, if_false, h1, h2, h3, h4]
    unfold setupMedia
    simp only [h5]
    have hnb : ¬ ((ss.state = .initial ∧ t.proto = .udp) ∧ r.portBusy = true) := by
      rintro ⟨⟨a, b⟩, c⟩; exact h8 ⟨a, b, c⟩
    by_cases hr : ss.state = .preRecord
    · simp_all [mediaFound]
    · simp_all [mediaFound]
      rw [if_neg]
      rintro ⟨⟨a, b⟩, c⟩
      simp [h8 a b] at c
  · obtain ⟨h1, h2⟩ := hw
    unfold doPlay
    cases hs : ss.state <;> simp_all <;> (repeat' split) <;> simp_all
  · obtain ⟨h1, h2, h3⟩ := hw
    unfold doRecord
    cases hs : ss.state <;> simp_all <;> (repeat' split) <;> simp_all
  · unfold doPause
    cases hs : ss.state <;> simp_all <;> (repeat' split) <;> simp_all
  · rfl
  · unfold doGetParameter; split <;> simp_all
  · unfold doSetParameter; simp_all

end Rtsp.Sess
