import Rtsp.Model.Session
/-
C02, "exactly one response per request, in request order, echoing its CSeq".
-/
namespace Rtsp.Sess
open Rtsp.Rfc2326 Rtsp.Facts

theorem handleRequest_cseq (cfg : Config) (srv : Server) (cn : Conn) (r : Request) :
    (handleRequest cfg srv cn r).2.cseq = r.cseq := by
  unfold handleRequest
  split
  dsimp only
  split <;> rfl

/-- what a single event is answered with: a request delivered on an open connection gets exactly
one response, carrying its CSeq; nothing else produces a response -/
def Answers (srv : Server) : Event → Option Resp → Prop
  | .req c r, out =>
    if (findConn srv c).isSome then ∃ res, out = some res ∧ res.cseq = r.cseq else out = none
  | _, out => out = none

theorem stepEv_answers (cfg : Config) (srv : Server) (e : Event) : Answers srv e (stepEv cfg srv e).2 := by
  cases e with
  | «open» c ip => simp only [stepEv, Answers]; split <;> rfl
  | close c => rfl
  | expire sid => rfl
  | frame c => rfl
  | response c => rfl
  | silence => rfl
  | req c r =>
    simp only [stepEv, Answers]
    cases h : findConn srv c with
    | none => simp
    | some cn => simp only [Option.isSome_some, if_true]; exact ⟨_, rfl, handleRequest_cseq cfg srv cn r⟩

/-- the responses to a history, event by event: `AnswersAll srv evs outs` -/
def AnswersAll (cfg : Config) : Server → List Event → List (Option Resp) → Prop
  | _, [], outs => outs = []
  | srv, e :: es, outs =>
    ∃ o os, outs = o :: os ∧ Answers srv e o ∧ AnswersAll cfg (stepEv cfg srv e).1 es os

/-- **one_response_per_request** (all histories over any number of connections): the output has one
slot per event; the slot of a request that reached an open connection holds exactly one response
with that request's CSeq, every other slot is empty — so responses come in request order. -/
theorem run_answers (cfg : Config) : ∀ (evs : List Event) (srv : Server),
    AnswersAll cfg srv evs (run cfg srv evs).2 := by
  intro evs
  induction evs with
  | nil => intro srv; rfl
  | cons e es ih =>
    intro srv
    simp only [run, AnswersAll]
    exact ⟨_, _, rfl, stepEv_answers cfg srv e, ih _⟩

theorem run_length (cfg : Config) : ∀ (evs : List Event) (srv : Server),
    (run cfg srv evs).2.length = evs.length := by
  intro evs
  induction evs with
  | nil => intro srv; rfl
  | cons e es ih => intro srv; simp [run, ih]

/-- requests that reach an open connection, in order -/
def delivered (cfg : Config) : Server → List Event → List Request
  | _, [] => []
  | srv, .req c r :: es =>
    if (findConn srv c).isSome then r :: delivered cfg (stepEv cfg srv (.req c r)).1 es
    else delivered cfg (stepEv cfg srv (.req c r)).1 es
  | srv, e :: es => delivered cfg (stepEv cfg srv e).1 es

/-- the responses, read in order, echo the CSeqs of the delivered requests, in order -/
theorem responses_echo_cseq (cfg : Config) : ∀ (evs : List Event) (srv : Server),
    ((run cfg srv evs).2.filterMap id).map (·.cseq) = (delivered cfg srv evs).map (·.cseq) := by
  intro evs
  induction evs with
  | nil => intro srv; rfl
  | cons e es ih =>
    intro srv
    have ha := stepEv_answers cfg srv e
    cases e with
    | «open» c ip => simp only [Answers] at ha; simp [run, delivered, ha, ih]
    | close c => simp only [Answers] at ha; simp [run, delivered, ha, ih]
    | expire sid => simp only [Answers] at ha; simp [run, delivered, ha, ih]
    | frame c => simp only [Answers] at ha; simp [run, delivered, ha, ih]
    | response c => simp only [Answers] at ha; simp [run, delivered, ha, ih]
    | silence => simp only [Answers] at ha; simp [run, delivered, ha, ih]
    | req c r =>
      simp only [Answers] at ha
      by_cases hc : (findConn srv c).isSome = true
      · simp only [hc, if_true] at ha
        obtain ⟨res, h1, h2⟩ := ha
        simp [run, delivered, hc, h1, h2, ih]
      · simp only [hc, Bool.false_eq_true, if_false] at ha
        simp [run, delivered, hc, ha, ih]

/-! ## an error response closes the connection: later requests on it are not delivered -/

theorem findConn_none_iff {srv : Server} {c : Nat} : findConn srv c = none ↔ ∀ cn ∈ srv.conns, cn.id ≠ c := by
  unfold findConn
  simp [List.find?_eq_none]

theorem endSession_conns_sub (srv : Server) (sid : Nat) : ∀ cn ∈ (endSession srv sid).conns, cn ∈ srv.conns := by
  unfold endSession
  split
  · exact fun _ h => h
  · exact fun cn h => (List.mem_filter.mp h).1

theorem closeConn_conns_sub (srv : Server) (c : Nat) :
    ∀ cn ∈ (closeConn srv c).conns, cn ∈ srv.conns ∧ cn.id ≠ c := by
  unfold closeConn
  split
  · rename_i h; intro cn hcn; exact ⟨hcn, findConn_none_iff.mp h cn hcn⟩
  · have hf : ∀ cn ∈ srv.conns.filter (·.id != c), cn ∈ srv.conns ∧ cn.id ≠ c := by
      intro cn h
      have := List.mem_filter.mp h
      exact ⟨this.1, by simpa using this.2⟩
    dsimp only
    split
    · exact hf
    · split
      · exact hf
      · split
        · intro cn h; exact hf cn (endSession_conns_sub _ _ cn h)
        · exact hf

theorem closeConn_findConn (srv : Server) (c : Nat) : findConn (closeConn srv c) c = none :=
  findConn_none_iff.mpr fun cn h => (closeConn_conns_sub srv c cn h).2

/-- after a response that ends in an error the connection is gone … -/
theorem handleRequest_fail_closes (cfg : Config) (srv : Server) (cn : Conn) (r : Request)
    (h : (handleRequest cfg srv cn r).2.err = .fail) : findConn (handleRequest cfg srv cn r).1 cn.id = none := by
  unfold handleRequest at h ⊢
  split at h
  rename_i srv1 res heq
  dsimp only at h ⊢
  split
  · exact closeConn_findConn _ _
  · rename_i hne; split at h <;> simp_all

/-- … so the next request on it is not delivered and gets no response -/
theorem no_response_after_error (cfg : Config) (srv : Server) (c : Nat) (cn : Conn) (r r' : Request)
    (hc : findConn srv c = some cn) (hid : cn.id = c) (h : (handleRequest cfg srv cn r).2.err = .fail) :
    (stepEv cfg (stepEv cfg srv (.req c r)).1 (.req c r')).2 = none := by
  have h1 : (stepEv cfg srv (.req c r)).1 = (handleRequest cfg srv cn r).1 := by simp [stepEv, hc]
  rw [h1]
  have := handleRequest_fail_closes cfg srv cn r h
  rw [hid] at this
  simp [stepEv, this]

end Rtsp.Sess
