import Rtsp.Model.Session
import Rtsp.Proofs.Sess.Wf
/-
C02: one connection's conversation — every request is answered, in order, with its own CSeq, until
an error response, after which the connection is closed and nothing more is answered.
-/
namespace Rtsp.Sess

/-- shape of the answers to the requests written on one connection -/
inductive Conversation : List Request → List (Option Resp) → Prop
  | done : Conversation [] []
  /-- answered without error: the conversation goes on -/
  | answered {r : Request} {rs : List Request} {res : Resp} {outs : List (Option Resp)} :
      res.cseq = r.cseq → res.err ≠ .fail → Conversation rs outs → Conversation (r :: rs) (some res :: outs)
  /-- answered with an error: the server closes the connection, the remaining requests are never read -/
  | closed {r : Request} {rs : List Request} {res : Resp} :
      res.cseq = r.cseq → res.err = .fail → Conversation (r :: rs) (some res :: rs.map fun _ => none)

theorem run_closed_conn (cfg : Config) (c : Nat) : ∀ (rs : List Request) (srv : Server), findConn srv c = none →
    (run cfg srv (rs.map (.req c))).2 = rs.map fun _ => none := by
  intro rs
  induction rs with
  | nil => intro srv _; rfl
  | cons r rs ih =>
    intro srv h
    simp only [List.map_cons, run, stepEv, h]
    rw [ih srv h]

/-- **one_response_per_request, one connection**: from any well-formed server state with connection
`c` open, the requests `rs` written on `c` are answered as a `Conversation`. -/
theorem conversation (cfg : Config) (c : Nat) : ∀ (rs : List Request) (srv : Server) (cn : Conn), WFc srv →
    NoLeak srv → findConn srv c = some cn → Conversation rs (run cfg srv (rs.map (.req c))).2 := by
  intro rs
  induction rs with
  | nil => intro srv cn _ _ _; exact .done
  | cons r rs ih =>
    intro srv cn hw hN hf
    obtain ⟨hcn, hcid⟩ := findConn_some_mem hf
    simp only [List.map_cons, run, stepEv, hf]
    have hcs := handleRequest_cseq cfg srv cn r
    have hinv := handleRequest_inv hw hN cfg hcn r
    by_cases hfail : (handleRequest cfg srv cn r).2.err = .fail
    · have hclosed := handleRequest_fail_closes cfg srv cn r hfail
      rw [hcid] at hclosed
      rw [run_closed_conn cfg c rs _ hclosed]
      exact .closed hcs hfail
    · have hopen : findConn (handleRequest cfg srv cn r).1 c ≠ none := by
        intro hnone
        rw [← hcid] at hnone
        exact hfail ((conn_closed_iff_error hw cfg hcn r).mp hnone)
      cases hf2 : findConn (handleRequest cfg srv cn r).1 c with
      | none => exact absurd hf2 hopen
      | some cn2 => exact .answered hcs hfail (ih _ cn2 hinv.1 hinv.2 hf2)

end Rtsp.Sess
