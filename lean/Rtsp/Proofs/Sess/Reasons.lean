import Rtsp.Model.Session
import Rtsp.Proofs.Sess.Ends
/-
C02, "a session ends … on TEARDOWN, or when its last connection goes away …": a session disappears
in a step only for one of the listed reasons.
-/
namespace Rtsp.Sess
open Rtsp.Rfc2326 Rtsp.Facts

theorem mem_sessIds_endSession {srv : Server} {sid id : Nat} :
    id ∈ sessIds (endSession srv sid) ↔ id ∈ sessIds srv ∧ id ≠ sid := by
  unfold endSession
  cases hf : findSession srv sid with
  | none =>
    have := findSession_none_iff.mp hf
    simp only
    constructor
    · intro h; exact ⟨h, fun he => this (he ▸ h)⟩
    · exact fun h => h.1
  | some ss =>
    simp only [sessIds, List.mem_map, List.mem_filter]
    constructor
    · rintro ⟨x, ⟨hx, hne⟩, rfl⟩; exact ⟨⟨x, hx, rfl⟩, by simpa using hne⟩
    · rintro ⟨⟨x, hx, rfl⟩, hne⟩; exact ⟨x, ⟨hx, by simpa using hne⟩, rfl⟩

theorem erase_nil_all {l : List Nat} {c : Nat} (h : l.erase c = []) : ∀ x ∈ l, x = c := by
  cases l with
  | nil => intro x hx; cases hx
  | cons a t =>
    by_cases hac : a = c
    · subst hac
      rw [List.erase_cons_head] at h
      subst h
      intro x hx; simpa using hx
    · rw [List.erase_cons_tail (by simpa using hac)] at h
      cases h

/-- `closeConn` loses a session only through the "no connection left" rule: the closed connection
was associated with it and was its only one -/
theorem closeConn_ids {srv : Server} {c id : Nat} (hid : id ∈ sessIds srv) :
    id ∈ sessIds (closeConn srv c) ∨
    ∃ cn ss, findConn srv c = some cn ∧ cn.sess = some id ∧ findSession srv id = some ss ∧
      (∀ x ∈ ss.conns, x = c) ∧ endsWhenUnused { ss with conns := ss.conns.erase c } = true := by
  unfold closeConn
  cases hf : findConn srv c with
  | none => left; exact hid
  | some cn =>
    dsimp only
    cases hs : cn.sess with
    | none => left; exact hid
    | some sid =>
      dsimp only
      have hfs : findSession { srv with conns := srv.conns.filter (·.id != c) } sid = findSession srv sid := rfl
      rw [hfs]
      cases hss : findSession srv sid with
      | none => left; exact hid
      | some ss =>
        dsimp only
        split
        · rename_i hrule
          by_cases he : id = sid
          · right
            subst he
            refine ⟨cn, ss, rfl, hs, hss, ?_, hrule⟩
            have : (ss.conns.erase c).isEmpty = true := by
              simp only [endsWhenUnused, Bool.and_eq_true] at hrule
              exact hrule.2
            exact erase_nil_all (by simpa using this)
          · left
            refine mem_sessIds_endSession.mpr ⟨?_, he⟩
            rw [putSession_ids]; exact hid
        · left
          rw [putSession_ids]; exact hid

theorem sessInner_teardown (cfg : Config) (ss : Session) (c : Nat) (r : Request) (hm : r.method = .teardown)
    (he : (sessInner cfg ss c r).2.err ≠ .fail) : (sessInner cfg ss c r).2.status = 200 := by
  unfold sessInner at he ⊢
  split
  · rename_i hc; rw [if_pos hc] at he; exact absurd rfl he
  · simp [hm, doTeardown, ok]; rfl

theorem sessHandle_ended (cfg : Config) (ss : Session) (c : Nat) (r : Request)
    (h : (sessHandle cfg ss c r).ended = true) :
    r.method = .teardown ∧ (sessHandle cfg ss c r).res.status = 200 ∧ (sessHandle cfg ss c r).res.err ≠ .fail := by
  have ht := sessInner_teardown cfg { ss with conns := addConn ss.conns c } c r
  unfold sessHandle at h ⊢
  dsimp only at h ⊢
  generalize sessInner cfg { ss with conns := addConn ss.conns c } c r = p at h ht ⊢
  by_cases hne : (p.2.err != Err.fail) = true
  · simp only [hne, if_true] at h ⊢
    by_cases hm : (r.method == Meth.teardown) = true
    · have hm' : r.method = .teardown := by simpa using hm
      have hne' : p.2.err ≠ .fail := by simpa using hne
      simp only [hm, if_true, hm']
      exact ⟨trivial, by simpa using ht hm' hne', by simpa using hne'⟩
    · simp only [hm] at h; cases h
  · simp only [hne] at h; cases h

theorem runInSessionWith_ids (cfg : Config) {srv : Server} {c id : Nat} (ss : Session) (r : Request)
    (hid : id ∈ sessIds srv) :
    id ∈ sessIds (runInSessionWith cfg srv c ss r).1 ∨
      (id = ss.id ∧ r.method = .teardown ∧ (runInSessionWith cfg srv c ss r).2.status = 200 ∧
        (runInSessionWith cfg srv c ss r).2.err ≠ .fail) := by
  unfold runInSessionWith
  dsimp only
  split
  · rename_i hend
    by_cases he : id = ss.id
    · right; exact ⟨he, sessHandle_ended cfg ss c r hend⟩
    · left
      refine mem_sessIds_endSession.mpr ⟨?_, he⟩
      show id ∈ sessIds (putSession srv _)
      rw [putSession_ids]; exact hid
  · left
    show id ∈ sessIds (putSession srv _)
    rw [putSession_ids]; exact hid

theorem runInSession_ids (cfg : Config) {srv : Server} {c id : Nat} (ss : Session) (r : Request)
    (hid : id ∈ sessIds srv) :
    id ∈ sessIds (runInSession cfg srv c ss r).1 ∨
      (id = ss.id ∧ r.method = .teardown ∧ (runInSession cfg srv c ss r).2.status = 200 ∧
        (runInSession cfg srv c ss r).2.err ≠ .fail) :=
  runInSessionWith_ids cfg ss { r with portBusy := portBusy cfg srv ss r } hid

theorem inSession_ids (cfg : Config) {srv : Server} {id : Nat} (cn : Conn) (r : Request) (create : Bool)
    (hid : id ∈ sessIds srv) :
    id ∈ sessIds (inSession cfg srv cn r create).1 ∨
      (r.method = .teardown ∧ (inSession cfg srv cn r create).2.status = 200 ∧
        (inSession cfg srv cn r create).2.err ≠ .fail) := by
  unfold inSession
  split
  · split
    · split
      · left; exact hid
      · rcases runInSession_ids cfg _ r hid with h | ⟨_, h⟩
        · left; exact h
        · right; exact h
    · split
      · left; exact hid
      · have hid' : id ∈ sessIds { srv with
            sessions := srv.sessions ++ [{ id := srv.nextSid, authorIp := cn.ip, conns := [cn.id] }],
            nextSid := srv.nextSid + 1, log := srv.log ++ [.sessOpen srv.nextSid] } := by
          unfold sessIds at hid ⊢
          simp only [List.map_append, List.mem_append]
          left; exact hid
        rcases runInSession_ids cfg _ r hid' with h | ⟨_, h⟩
        · left; exact h
        · right; exact h
  · split
    · left; exact hid
    · split
      · left; exact hid
      · rcases runInSession_ids cfg _ r hid with h | ⟨_, h⟩
        · left; exact h
        · right; exact h

theorem connInner_ids (cfg : Config) {srv : Server} {id : Nat} (cn : Conn) (r : Request)
    (hid : id ∈ sessIds srv) :
    id ∈ sessIds (connInner cfg srv cn r).1 ∨
      (r.method = .teardown ∧ (connInner cfg srv cn r).2.status = 200 ∧ (connInner cfg srv cn r).2.err ≠ .fail) := by
  unfold connInner
  repeat' split
  all_goals first | (left; exact hid) | exact inSession_ids cfg cn r _ hid

/-- **a session disappears in a step only for a listed reason**: its stream timeout fired; a
TEARDOWN was answered 200; or a connection went away — closed by the client, or closed by the server
after an error response — that was the session's only connection at that moment (the rule
`endsWhenUnused`, i.e. not streaming over UDP / multicast, held as well). -/
theorem ends_only_for_a_reason (cfg : Config) (srv : Server) (e : Event) (id : Nat)
    (hid : id ∈ sessIds srv) (hgone : id ∉ sessIds (stepEv cfg srv e).1) :
    e = .expire id ∨ e = .silence ∨
    (∃ c r res, e = .req c r ∧ (stepEv cfg srv e).2 = some res ∧ r.method = .teardown ∧
        res.status = 200 ∧ res.err ≠ .fail) ∨
    (∃ c cn ss, (e = .close c ∨ e = .frame c ∨ e = .response c) ∧ findConn srv c = some cn ∧ cn.sess = some id ∧
        findSession srv id = some ss ∧
        (∀ x ∈ ss.conns, x = c) ∧ endsWhenUnused { ss with conns := ss.conns.erase c } = true) ∨
    (∃ c r res cn srv1 ss1, e = .req c r ∧ (stepEv cfg srv e).2 = some res ∧ res.err = .fail ∧
        findConn srv c = some cn ∧ srv1 = (connInner cfg srv cn r).1 ∧ findSession srv1 id = some ss1 ∧
        (∀ x ∈ ss1.conns, x = cn.id) ∧ endsWhenUnused { ss1 with conns := ss1.conns.erase cn.id } = true) := by
  cases e with
  | «open» c ip =>
    exfalso; apply hgone
    simp only [stepEv]; split; exact hid; exact hid
  | silence => right; left; rfl
  | expire sid =>
    left
    simp only [stepEv] at hgone
    by_cases he : id = sid
    · rw [he]
    · exact absurd (mem_sessIds_endSession.mpr ⟨hid, he⟩) hgone
  | close c =>
    right; right; right; left
    simp only [stepEv] at hgone
    rcases closeConn_ids (c := c) hid with h | ⟨cn, ss, h1, h2, h3, h4, h5⟩
    · exact absurd h hgone
    · exact ⟨c, cn, ss, Or.inl rfl, h1, h2, h3, h4, h5⟩
  | frame c =>
    right; right; right; left
    simp only [stepEv, nonRequest] at hgone
    split at hgone
    · exact absurd hid hgone
    · split at hgone
      · exact absurd hid hgone
      · rcases closeConn_ids (c := c) hid with h | ⟨cn, ss, h1, h2, h3, h4, h5⟩
        · exact absurd h hgone
        · exact ⟨c, cn, ss, Or.inr (Or.inl rfl), h1, h2, h3, h4, h5⟩
  | response c =>
    right; right; right; left
    simp only [stepEv, nonRequest] at hgone
    split at hgone
    · exact absurd hid hgone
    · split at hgone
      · exact absurd hid hgone
      · rcases closeConn_ids (c := c) hid with h | ⟨cn, ss, h1, h2, h3, h4, h5⟩
        · exact absurd h hgone
        · exact ⟨c, cn, ss, Or.inr (Or.inr rfl), h1, h2, h3, h4, h5⟩
  | req c r =>
    simp only [stepEv] at hgone ⊢
    cases hf : findConn srv c with
    | none => rw [hf] at hgone; exact absurd hid hgone
    | some cn =>
      rw [hf] at hgone
      simp only at hgone ⊢
      unfold handleRequest at hgone ⊢
      rcases hci : connInner cfg srv cn r with ⟨srv1, res⟩
      rw [hci] at hgone
      dsimp only at hgone ⊢
      have hids := connInner_ids cfg cn r hid
      rw [hci] at hids
      by_cases hfail : (res.err == Err.fail) = true
      · rw [if_pos hfail] at hgone
        simp only [hfail, if_true]
        rcases hids with h | ⟨hm, hs, he⟩
        · right; right; right; right
          rcases closeConn_ids (srv := arm srv srv1 cn.id) (c := cn.id) h with h' | ⟨cn1, ss1, _, _, h3, h4, h5⟩
          · exact absurd h' hgone
          · exact ⟨c, r, _, cn, srv1, ss1, rfl, rfl, by simpa using hfail, hf, by rw [hci], h3, h4, h5⟩
        · exact absurd (by simpa using hfail) he
      · rw [if_neg hfail] at hgone
        simp only [hfail]
        have hsm : sessIds (arm srv (setMode srv1 cn.id res.err) cn.id) = sessIds srv1 := by simp [sessIds]
        rw [show (arm srv (setMode srv1 cn.id res.err) cn.id, ({ res with cseq := r.cseq } : Resp)).1 =
            arm srv (setMode srv1 cn.id res.err) cn.id from rfl, hsm] at hgone
        rcases hids with h | ⟨hm, hs, he⟩
        · exact absurd h hgone
        · right; right; left
          exact ⟨c, r, _, rfl, rfl, hm, hs, he⟩

end Rtsp.Sess
