import Rtsp.Model.Session
import Rtsp.Proofs.Sess.Step
import Rtsp.Proofs.Sess.Ends
/-
C02: the five-state machine of the server, abstracted to the four states of RFC 2326 appendix A.2,
follows the A.2 table verbatim (with the one documented deviation: PAUSE outside Playing/Recording
is accepted and changes nothing).
-/
namespace Rtsp.Sess
open Rtsp.Rfc2326 Rtsp.Facts

/-- shape of a reachable session record -/
structure SessOk (ss : Session) : Prop where
  annPos : ss.state = .preRecord ∨ ss.state = .record → 0 < ss.nAnn
  recAll : ss.state = .record → ss.medias.length = ss.nAnn
  playHas : ss.state = .prePlay ∨ ss.state = .play → ss.medias ≠ []
  initNone : ss.state = .initial → ss.medias = []
  trSome : ss.medias ≠ [] → ss.transport.isSome = true

theorem sessOk_new (id ip : Nat) (cs : List Nat) : SessOk { id := id, authorIp := ip, conns := cs } := by
  constructor <;> simp

theorem setupMedia_ok (cfg : Config) (ss : Session) (r : Request) (t : TrAlt) (h : SessOk ss)
    (hst : ss.state = .initial ∨ ss.state = .prePlay ∨ ss.state = .preRecord) :
    SessOk (setupMedia cfg ss r t).1 := by
  unfold setupMedia
  cases ht : r.track with
  | none => exact h
  | some i =>
    dsimp only
    by_cases hf : (!mediaFound cfg ss r i) = true
    · rw [if_pos hf]; exact h
    · rw [if_neg hf]
      by_cases hc : ss.medias.contains i = true
      · rw [if_pos hc]; exact h
      · rw [if_neg hc]
        by_cases hb : (ss.state == .initial && t.proto == .udp && r.portBusy) = true
        · rw [if_pos hb]; exact h
        · rw [if_neg hb]
          obtain ⟨h1, h2, h3, h4, h5⟩ := h
          rcases hst with hs | hs | hs <;> constructor <;> simp_all

theorem sessInner_ok (cfg : Config) (ss : Session) (c : Nat) (r : Request) (h : SessOk ss) :
    SessOk (sessInner cfg ss c r).1 := by
  obtain ⟨h1, h2, h3, h4, h5⟩ := h
  unfold sessInner
  split
  · exact ⟨h1, h2, h3, h4, h5⟩
  · split
    · exact ⟨h1, h2, h3, h4, h5⟩
    · unfold doAnnounce
      repeat' split
      all_goals first | exact ⟨h1, h2, h3, h4, h5⟩ | skip
      constructor <;> simp_all <;> omega
    · unfold doSetup
      split
      · exact ⟨h1, h2, h3, h4, h5⟩
      · rename_i hst
        have hst' : ss.state = .initial ∨ ss.state = .prePlay ∨ ss.state = .preRecord := by
          cases hs : ss.state <;> simp_all
        repeat' split
        all_goals first | exact ⟨h1, h2, h3, h4, h5⟩ | exact setupMedia_ok cfg ss r _ ⟨h1, h2, h3, h4, h5⟩ hst'
    · unfold doPlay
      repeat' split
      all_goals first | exact ⟨h1, h2, h3, h4, h5⟩ | skip
      all_goals (constructor <;> simp_all)
    · unfold doRecord
      repeat' split
      all_goals first | exact ⟨h1, h2, h3, h4, h5⟩ | skip
      all_goals (constructor <;> simp_all)
    · unfold doPause
      repeat' split
      all_goals first | exact ⟨h1, h2, h3, h4, h5⟩ | skip
      all_goals (constructor <;> simp_all)
    · exact ⟨h1, h2, h3, h4, h5⟩
    · unfold doGetParameter; split <;> exact ⟨h1, h2, h3, h4, h5⟩
    · unfold doSetParameter; split <;> exact ⟨h1, h2, h3, h4, h5⟩
    · exact ⟨h1, h2, h3, h4, h5⟩


theorem setupMedia_medias (cfg : Config) (ss : Session) (r : Request) (t : TrAlt)
    (h : (setupMedia cfg ss r t).2.status = 200) :
    (setupMedia cfg ss r t).1.medias.length = ss.medias.length + 1 := by
  unfold setupMedia at h ⊢
  cases ht : r.track with
  | none => rw [ht] at h; simp [bad] at h
  | some i =>
    rw [ht] at h
    dsimp only at h ⊢
    by_cases hf : (!mediaFound cfg ss r i) = true
    · rw [if_pos hf] at h; simp [bad] at h
    · rw [if_neg hf] at h ⊢
      by_cases hc : ss.medias.contains i = true
      · rw [if_pos hc] at h; simp [bad] at h
      · rw [if_neg hc] at h ⊢
        by_cases hb : (ss.state == .initial && t.proto == .udp && r.portBusy) = true
        · rw [if_pos hb] at h; simp [bad] at h
        · rw [if_neg hb]; simp

theorem doSetup_medias (cfg : Config) (ss : Session) (r : Request) (h : (doSetup cfg ss r).2.status = 200) :
    (doSetup cfg ss r).1.medias.length = ss.medias.length + 1 := by
  unfold doSetup at h ⊢
  split
  · rename_i hc; rw [if_pos hc] at h; simp [bad] at h
  · rename_i hc
    rw [if_neg hc] at h
    cases htr : r.trs with
    | none => rw [htr] at h; simp [bad] at h
    | some ts =>
      rw [htr] at h
      dsimp only at h ⊢
      cases hp : pickTransport cfg ts with
      | none => rw [hp] at h; simp [Facts.Sess.statusUnsupportedTransport] at h
      | some t =>
        rw [hp] at h
        dsimp only at h ⊢
        cases hk : setupChecks ss r t with
        | some res =>
          rw [hk] at h
          rcases setupChecks_status ss r t res hk with h1 | h1 <;> simp [h1] at h
        | none =>
          rw [hk] at h
          dsimp only at h ⊢
          by_cases hh : (r.hStatus != ok) = true
          · rw [if_pos hh] at h; simp_all
          · rw [if_neg hh] at h ⊢
            exact setupMedia_medias cfg ss r t h

theorem sessInner_medias_other (cfg : Config) (ss : Session) (c : Nat) (r : Request) (hm : r.method ≠ .setup) :
    (sessInner cfg ss c r).1.medias = ss.medias := by
  unfold sessInner
  split
  · rfl
  · cases hmm : r.method <;> simp only [hmm] <;> try rfl
    · unfold doAnnounce; repeat' split
      all_goals rfl
    · exact absurd hmm hm
    · unfold doPlay; repeat' split
      all_goals rfl
    · unfold doRecord; repeat' split
      all_goals rfl
    · unfold doPause; repeat' split
      all_goals rfl
    · unfold doGetParameter; split <;> rfl
    · unfold doSetParameter; split <;> rfl

theorem doRecord_all (ss : Session) (c : Nat) (r : Request) (h : (doRecord ss c r).2.status = 200) :
    ss.medias.length = ss.nAnn := by
  unfold doRecord at h
  by_cases h1 : (ss.state != .preRecord) = true
  · rw [if_pos h1] at h; simp [bad] at h
  · rw [if_neg h1] at h
    by_cases h2 : (ss.medias.length != ss.nAnn) = true
    · rw [if_pos h2] at h; simp [bad] at h
    · simpa using h2

/-! pure facts about the two tables -/

theorem a2_setup (s : St) (n : Nat) (h : implAllowed s .setup = true) :
    a2next (abs s n) .setup = some (abs (next s .setup) (n + 1)) := by
  cases s <;> simp_all [implAllowed, abs, next, a2next]
  by_cases hn : n = 0 <;> simp [hn, a2next]

theorem a2_play (s : St) (n : Nat) (h : implAllowed s .play = true) :
    a2next (abs s n) .play = some (abs (next s .play) n) := by
  cases s <;> simp_all [implAllowed, abs, next, a2next]

theorem a2_record (s : St) (n : Nat) (h : implAllowed s .record = true) (hn : 0 < n) :
    a2next (abs s n) .record = some (abs (next s .record) n) := by
  have : n ≠ 0 := by omega
  cases s <;> simp_all [implAllowed, abs, next, a2next]

theorem a2_pause (s : St) (n : Nat) (h : implAllowed s .pause = true) (hn : s = .record → 0 < n) :
    a2next (abs s n) .pause = some (abs (next s .pause) n) ∨
      (a2next (abs s n) .pause = none ∧ abs (next s .pause) n = abs s n) := by
  cases s <;> simp_all [implAllowed, abs, next, a2next]
  · by_cases h0 : n = 0 <;> simp [h0, a2next]
  · have : n ≠ 0 := by omega
    simp [this]

theorem a2_announce (s : St) (n : Nat) (h : implAllowed s .announce = true) (hn : s = .initial → n = 0) :
    abs (next s .announce) n = abs s n := by
  cases s <;> simp_all [implAllowed, abs, next]

theorem a2_neutral (s : St) (m : Meth) (n : Nat) (h : m.neutral = true) : abs (next s m) n = abs s n := by
  cases s <;> cases m <;> simp_all [Meth.neutral, next]

/-- **A.2 refinement**: abstracted to Init / Ready / Playing / Recording, every request answered 200
moves the session exactly along the state table of RFC 2326 appendix A.2; the methods A.2 does not
list (OPTIONS, DESCRIBE, ANNOUNCE, GET_PARAMETER, SET_PARAMETER) leave the A.2 state alone; the only
pair outside the table that is answered 200 is PAUSE outside Playing / Recording, and it leaves the
A.2 state alone too. -/
theorem refines_A2 (cfg : Config) (ss : Session) (c : Nat) (r : Request) (hok : SessOk ss)
    (h : (sessInner cfg ss c r).2.status = 200) :
    let a := abs ss.state ss.medias.length
    let a' := abs (sessInner cfg ss c r).1.state (sessInner cfg ss c r).1.medias.length
    (r.method = .setup ∨ r.method = .play ∨ r.method = .record → a2next a r.method = some a') ∧
    (r.method = .pause → a2next a .pause = some a' ∨ (a2next a .pause = none ∧ a' = a)) ∧
    (r.method.neutral = true ∨ r.method = .announce → a' = a) := by
  have hst := sessInner_state cfg ss c r h
  have hg : implAllowed ss.state r.method = true := by
    cases hx : implAllowed ss.state r.method
    · rw [sessInner_guard cfg ss c r hx] at h; simp [bad] at h
    · rfl
  have hinner : ∀ m, r.method = m → (sessInner cfg ss c r = bad ss) ∨
      (sessInner cfg ss c r = match m with
        | .options => doOptions cfg ss | .announce => doAnnounce ss r | .setup => doSetup cfg ss r
        | .play => doPlay ss c r | .record => doRecord ss c r | .pause => doPause ss r
        | .teardown => doTeardown ss | .getParameter => doGetParameter cfg ss r
        | .setParameter => doSetParameter cfg ss r
        | .describe => (ss, { status := Facts.Sess.statusNotImplemented })) := by
    intro m hm
    unfold sessInner
    split
    · left; rfl
    · right; rw [hm]; cases m <;> rfl
  intro a a'
  refine ⟨?_, ?_, ?_⟩
  · rintro (hm | hm | hm)
    · have hlen : (sessInner cfg ss c r).1.medias.length = ss.medias.length + 1 := by
        rcases hinner _ hm with e | e
        · rw [e] at h; simp [bad] at h
        · rw [e] at h ⊢; exact doSetup_medias cfg ss r h
      simp only [a, a', hst, hm, hlen]
      rw [hm] at hg
      simpa using a2_setup ss.state ss.medias.length hg
    · have hmed := sessInner_medias_other cfg ss c r (by simp [hm])
      simp only [a, a', hst, hm, hmed]
      rw [hm] at hg
      simpa using a2_play ss.state ss.medias.length hg
    · have hmed := sessInner_medias_other cfg ss c r (by simp [hm])
      have hall : ss.medias.length = ss.nAnn := by
        rcases hinner _ hm with e | e
        · rw [e] at h; simp [bad] at h
        · rw [e] at h; exact doRecord_all ss c r h
      simp only [a, a', hst, hm, hmed]
      rw [hm] at hg
      have hpre : ss.state = .preRecord := by
        cases hs : ss.state <;> simp_all [implAllowed]
      have := hok.annPos (Or.inl hpre)
      simpa using a2_record ss.state ss.medias.length hg (by omega)
  · intro hm
    have hmed := sessInner_medias_other cfg ss c r (by simp [hm])
    simp only [a, a', hst, hm, hmed]
    rw [hm] at hg
    have := a2_pause ss.state ss.medias.length hg (by
      intro hs
      have h1 := hok.annPos (Or.inr hs)
      have h2 := hok.recAll hs
      omega)
    simpa using this
  · intro hm
    have hmed := sessInner_medias_other cfg ss c r (by
      rcases hm with hm | hm <;> intro he <;> simp_all [Meth.neutral])
    simp only [a, a', hst, hmed]
    rcases hm with hm | hm
    · have hnt : r.method ≠ .teardown := by intro he; simp [he, Meth.neutral] at hm
      simp only [hnt, if_false]
      exact a2_neutral _ _ _ hm
    · simp only [hm]
      rw [hm] at hg
      have := a2_announce ss.state ss.medias.length hg (by
        intro hs; rw [hok.initNone hs]; rfl)
      simpa using this


/-! ### every reachable session record has the shape `SessOk` -/

def AllOk (srv : Server) : Prop := ∀ ss ∈ srv.sessions, SessOk ss

theorem SessOk.withConns {ss : Session} (h : SessOk ss) (cs : List Nat) : SessOk { ss with conns := cs } :=
  ⟨h.annPos, h.recAll, h.playHas, h.initNone, h.trSome⟩

theorem sessHandle_ok (cfg : Config) (ss : Session) (c : Nat) (r : Request) (h : SessOk ss) :
    SessOk (sessHandle cfg ss c r).ss := by
  have := sessInner_ok cfg { ss with conns := addConn ss.conns c } c r (h.withConns _)
  unfold sessHandle
  dsimp only
  repeat' split
  all_goals first | exact this | exact this.withConns _

theorem AllOk.putSession {srv : Server} (h : AllOk srv) {ss : Session} (hs : SessOk ss) :
    AllOk (putSession srv ss) := by
  intro x hx
  obtain ⟨y, hy, rfl⟩ := List.mem_map.mp hx
  split
  · exact hs
  · exact h y hy

theorem AllOk.endSession {srv : Server} (h : AllOk srv) (sid : Nat) : AllOk (endSession srv sid) := by
  unfold Sess.endSession
  split
  · exact h
  · exact fun x hx => h x (List.mem_filter.mp hx).1

theorem AllOk.withConns {srv : Server} (h : AllOk srv) (cs : List Conn) : AllOk { srv with conns := cs } := h

theorem findSession_mem' {srv : Server} {id : Nat} {ss : Session} (h : findSession srv id = some ss) :
    ss ∈ srv.sessions := by
  unfold findSession at h
  exact List.mem_of_find?_eq_some h

theorem AllOk.closeConn {srv : Server} (h : AllOk srv) (c : Nat) : AllOk (closeConn srv c) := by
  unfold Sess.closeConn
  split
  · exact h
  · dsimp only
    split
    · exact h.withConns _
    · split
      · exact h.withConns _
      · rename_i ss hf
        have hs : SessOk ss := h ss (findSession_mem' hf)
        split
        · exact ((h.withConns _).putSession (hs.withConns _)).endSession _
        · exact (h.withConns _).putSession (hs.withConns _)

theorem AllOk.runInSession {srv : Server} (h : AllOk srv) (cfg : Config) (c : Nat) {ss : Session}
    (hs : SessOk ss) (r0 : Request) : AllOk (runInSession cfg srv c ss r0).1 := by
  unfold Sess.runInSession Sess.runInSessionWith
  dsimp only
  generalize ({ r0 with portBusy := portBusy cfg srv ss r0 } : Request) = r
  have := sessHandle_ok cfg ss c r hs
  split
  · exact AllOk.endSession (srv := Sess.setConnSess (Sess.putSession srv _) c none) (h.putSession this) _
  · exact h.putSession this

theorem AllOk.inSession {srv : Server} (h : AllOk srv) (cfg : Config) (cn : Conn) (r : Request) (create : Bool) :
    AllOk (inSession cfg srv cn r create).1 := by
  unfold Sess.inSession
  split
  · split
    · rename_i ss hl
      have hm : ss ∈ srv.sessions := by
        unfold lookupSid at hl
        split at hl
        · exact findSession_mem' hl
        · cases hl
      split
      · exact h
      · exact h.runInSession cfg _ (h ss hm) r
    · split
      · exact h
      · refine AllOk.runInSession ?_ cfg _ (sessOk_new _ _ _) r
        intro x hx
        rcases List.mem_append.mp hx with hx | hx
        · exact h x hx
        · simp at hx; subst hx; exact sessOk_new _ _ _
  · split
    · exact h
    · split
      · exact h
      · rename_i ss hf
        exact h.runInSession cfg _ (h ss (findSession_mem' hf)) r

theorem AllOk.connInner {srv : Server} (h : AllOk srv) (cfg : Config) (cn : Conn) (r : Request) :
    AllOk (connInner cfg srv cn r).1 := by
  unfold Sess.connInner
  repeat' split
  all_goals first | exact h | exact h.inSession cfg _ _ _

theorem AllOk.setMode {srv : Server} (h : AllOk srv) (c : Nat) (e : Err) : AllOk (setMode srv c e) := by
  intro x hx
  have : (Sess.setMode srv c e).sessions = srv.sessions := by cases e <;> rfl
  rw [this] at hx
  exact h x hx

theorem AllOk.silence {srv : Server} (h : AllOk srv) : AllOk (silence srv) := by
  unfold Sess.silence
  exact foldl_inv (P := AllOk) _ (fun s ss hs => hs.endSession ss.id) _ _
    (foldl_inv (P := AllOk) _ (fun s cn hs => hs.closeConn cn.id) _ _ h)

theorem AllOk.nonRequest {srv : Server} (h : AllOk srv) (c : Nat) (b : Bool) : AllOk (nonRequest srv c b) := by
  unfold Sess.nonRequest
  split
  · exact h
  · split
    · exact h
    · exact h.closeConn c

theorem AllOk.handleRequest {srv : Server} (h : AllOk srv) (cfg : Config) (cn : Conn) (r : Request) :
    AllOk (handleRequest cfg srv cn r).1 := by
  have := h.connInner cfg cn r
  unfold Sess.handleRequest
  split
  rename_i srv1 res heq
  rw [heq] at this
  dsimp only
  split
  · exact AllOk.closeConn (srv := Sess.arm srv srv1 cn.id) (fun x hx => this x hx) _
  · exact fun x hx => AllOk.setMode this cn.id res.err x hx

theorem AllOk.stepEv {srv : Server} (h : AllOk srv) (cfg : Config) (e : Event) : AllOk (stepEv cfg srv e).1 := by
  cases e with
  | «open» c ip => simp only [Sess.stepEv]; split; exact h; exact h.withConns _
  | close c => exact h.closeConn c
  | expire sid => exact h.endSession sid
  | frame c => exact h.nonRequest c true
  | response c => exact h.nonRequest c false
  | silence => exact h.silence
  | req c r =>
    simp only [Sess.stepEv]
    split
    · exact h
    · exact h.handleRequest cfg _ r

theorem AllOk.run {srv : Server} (h : AllOk srv) (cfg : Config) (evs : List Event) :
    AllOk (run cfg srv evs).1 := by
  induction evs generalizing srv with
  | nil => exact h
  | cons e es ih => simp only [Sess.run]; exact ih (h.stepEv cfg e)

theorem allOk_init : AllOk {} := fun _ h => by cases h

end Rtsp.Sess
