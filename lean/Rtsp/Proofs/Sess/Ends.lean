import Rtsp.Model.Session
/-
C02, "a session ends exactly once": bookkeeping invariant of the OnSessionOpen / OnSessionClose log
over all event histories.
-/
namespace Rtsp.Sess
open Rtsp.Rfc2326 Rtsp.Facts

def sessIds (srv : Server) : List Nat := srv.sessions.map (·.id)

def openCount (srv : Server) (id : Nat) : Nat := srv.log.count (.sessOpen id)
def closeCount (srv : Server) (id : Nat) : Nat := srv.log.count (.sessClose id)

/-- every identifier below `nextSid` was opened once; it was closed once if its session is gone
and not at all while it is alive; nothing else is in the log -/
structure LogInv (srv : Server) : Prop where
  lt : ∀ id ∈ sessIds srv, id < srv.nextSid
  opens : ∀ id, openCount srv id = if id < srv.nextSid then 1 else 0
  closes : ∀ id, closeCount srv id = if id < srv.nextSid ∧ id ∉ sessIds srv then 1 else 0

theorem logInv_init : LogInv {} := by
  constructor <;> simp [sessIds, openCount, closeCount]

/-! ### how the primitive updates act on (ids, nextSid, log) -/

theorem sessInner_id (cfg : Config) (ss : Session) (c : Nat) (r : Request) :
    (sessInner cfg ss c r).1.id = ss.id := by
  unfold sessInner
  split
  · rfl
  · split
    · rfl
    · unfold doAnnounce; repeat' split
      all_goals rfl
    · unfold doSetup; repeat' split
      all_goals first | rfl | (unfold setupMedia; repeat' split
                               all_goals rfl)
    · unfold doPlay; repeat' split
      all_goals rfl
    · unfold doRecord; repeat' split
      all_goals rfl
    · unfold doPause; repeat' split
      all_goals rfl
    · rfl
    · unfold doGetParameter; split <;> rfl
    · unfold doSetParameter; split <;> rfl
    · rfl

theorem sessHandle_id (cfg : Config) (ss : Session) (c : Nat) (r : Request) :
    (sessHandle cfg ss c r).ss.id = ss.id := by
  unfold sessHandle
  have := sessInner_id cfg { ss with conns := addConn ss.conns c } c r
  dsimp only
  repeat' split
  all_goals simpa using this

theorem putSession_ids (srv : Server) (ss : Session) : sessIds (putSession srv ss) = sessIds srv := by
  unfold sessIds putSession
  simp only [List.map_map]
  apply List.map_congr_left
  intro x _
  simp only [Function.comp]
  split
  · rename_i h; simpa using (by simpa using h : x.id = ss.id).symm
  · rfl

@[simp] theorem putSession_log (srv : Server) (ss : Session) : (putSession srv ss).log = srv.log := rfl
@[simp] theorem putSession_next (srv : Server) (ss : Session) : (putSession srv ss).nextSid = srv.nextSid := rfl
@[simp] theorem setConnSess_sessions (srv : Server) (c : Nat) (s : Option Nat) :
    (setConnSess srv c s).sessions = srv.sessions := rfl
@[simp] theorem setConnSess_log (srv : Server) (c : Nat) (s : Option Nat) : (setConnSess srv c s).log = srv.log := rfl
@[simp] theorem setConnSess_next (srv : Server) (c : Nat) (s : Option Nat) :
    (setConnSess srv c s).nextSid = srv.nextSid := rfl

theorem findSession_some_mem {srv : Server} {id : Nat} {ss : Session} (h : findSession srv id = some ss) :
    ss ∈ srv.sessions ∧ ss.id = id := by
  unfold findSession at h
  exact ⟨List.mem_of_find?_eq_some h, by simpa using List.find?_some h⟩

theorem findSession_none_iff {srv : Server} {id : Nat} : findSession srv id = none ↔ id ∉ sessIds srv := by
  unfold findSession sessIds
  simp [List.find?_eq_none]

/-- `LogInv` only looks at the identifiers, `nextSid` and the log -/
theorem LogInv.congr {a b : Server} (h : LogInv a) (hi : sessIds b = sessIds a) (hn : b.nextSid = a.nextSid)
    (hl : b.log = a.log) : LogInv b := by
  constructor
  · intro id hid; rw [hn]; exact h.lt id (hi ▸ hid)
  · intro id; unfold openCount; rw [hl, hn]; exact h.opens id
  · intro id; unfold closeCount; rw [hl, hn, hi]; exact h.closes id

theorem LogInv.endSession {srv : Server} (h : LogInv srv) (sid : Nat) : LogInv (endSession srv sid) := by
  unfold Sess.endSession
  cases hf : findSession srv sid with
  | none => exact h
  | some ss =>
    obtain ⟨hmem, hid⟩ := findSession_some_mem hf
    have hin : sid ∈ sessIds srv := by
      unfold sessIds; exact List.mem_map.mpr ⟨ss, hmem, hid⟩
    have hids : sessIds { srv with sessions := srv.sessions.filter (·.id != sid),
                                   conns := srv.conns.filter fun cn => !ss.conns.contains cn.id,
                                   log := srv.log ++ [.sessClose sid] } = (sessIds srv).filter (· != sid) := by
      unfold sessIds; simp [List.filter_map, Function.comp_def]
    constructor
    · intro id hid'
      rw [hids] at hid'
      exact h.lt id (List.mem_filter.mp hid').1
    · intro id
      have := h.opens id
      unfold openCount at this ⊢
      simpa [List.count_append] using this
    · intro id
      have := h.closes id
      unfold closeCount at this ⊢
      rw [hids]
      simp only [List.count_append, this, List.mem_filter]
      by_cases he : id = sid
      · subst he
        have hlt := h.lt id hin
        simp [hin, hlt]
      · have : (Ev.sessClose sid == Ev.sessClose id) = false := by
          simp; exact fun h => he h.symm
        simp [List.count_singleton, this, he]


theorem LogInv.withConns {srv : Server} (h : LogInv srv) (cs : List Conn) : LogInv { srv with conns := cs } :=
  h.congr rfl rfl rfl

theorem LogInv.putSession {srv : Server} (h : LogInv srv) (ss : Session) : LogInv (putSession srv ss) :=
  h.congr (putSession_ids srv ss) rfl rfl

theorem LogInv.setConnSess {srv : Server} (h : LogInv srv) (c : Nat) (s : Option Nat) :
    LogInv (setConnSess srv c s) := h.congr rfl rfl rfl

theorem LogInv.closeConn {srv : Server} (h : LogInv srv) (c : Nat) : LogInv (closeConn srv c) := by
  unfold Sess.closeConn
  split
  · exact h
  · dsimp only
    split
    · exact h.withConns _
    · split
      · exact h.withConns _
      · split
        · exact ((h.withConns _).putSession _).endSession _
        · exact (h.withConns _).putSession _

theorem LogInv.runInSession {srv : Server} (h : LogInv srv) (cfg : Config) (c : Nat) (ss : Session) (r : Request) :
    LogInv (runInSession cfg srv c ss r).1 := by
  unfold Sess.runInSession Sess.runInSessionWith
  dsimp only
  split
  · exact ((h.putSession _).setConnSess _ _).endSession _
  · exact (h.putSession _).setConnSess _ _

/-- creating a session: a fresh identifier, one `sessOpen` -/
theorem LogInv.create {srv : Server} (h : LogInv srv) (ss : Session) (hid : ss.id = srv.nextSid) :
    LogInv { srv with sessions := srv.sessions ++ [ss], nextSid := srv.nextSid + 1,
                      log := srv.log ++ [.sessOpen ss.id] } := by
  have hids : sessIds { srv with sessions := srv.sessions ++ [ss], nextSid := srv.nextSid + 1,
                                 log := srv.log ++ [.sessOpen ss.id] } = sessIds srv ++ [srv.nextSid] := by
    unfold sessIds; simp [hid]
  have hfresh : srv.nextSid ∉ sessIds srv := fun hm => Nat.lt_irrefl _ (h.lt _ hm)
  constructor
  · intro id hm
    rw [hids] at hm
    rcases List.mem_append.mp hm with hm | hm
    · exact Nat.lt_succ_of_lt (h.lt id hm)
    · simp at hm; subst hm; exact Nat.lt_succ_self _
  · intro id
    have := h.opens id
    unfold openCount at this ⊢
    simp only [List.count_append, this, hid]
    by_cases he : id = srv.nextSid
    · subst he; simp
    · have hne : (Ev.sessOpen srv.nextSid == Ev.sessOpen id) = false := by
        simp; exact fun h => he h.symm
      simp [List.count_singleton, hne]
      by_cases hl : id < srv.nextSid
      · simp [hl, Nat.lt_succ_of_lt hl]
      · have : ¬ id < srv.nextSid + 1 := by omega
        simp [hl, this]
  · intro id
    have := h.closes id
    unfold closeCount at this ⊢
    rw [hids]
    simp only [List.count_append, this, hid]
    have hne : (Ev.sessOpen srv.nextSid == Ev.sessClose id) = false := by simp
    simp only [List.count_singleton, hne, Bool.false_eq_true, if_false, Nat.add_zero, List.mem_append,
      List.mem_singleton]
    by_cases he : id = srv.nextSid
    · subst he; simp
    · by_cases hl : id < srv.nextSid
      · simp [hl, Nat.lt_succ_of_lt hl, he]
      · have : ¬ id < srv.nextSid + 1 := by omega
        simp [hl, this]

theorem LogInv.inSession {srv : Server} (h : LogInv srv) (cfg : Config) (cn : Conn) (r : Request) (create : Bool) :
    LogInv (inSession cfg srv cn r create).1 := by
  unfold Sess.inSession
  split
  · split
    · split
      · exact h
      · exact h.runInSession cfg _ _ _
    · split
      · exact h
      · exact (h.create _ rfl).runInSession cfg _ _ _
  · split
    · exact h
    · split
      · exact h
      · exact h.runInSession cfg _ _ _

theorem LogInv.connInner {srv : Server} (h : LogInv srv) (cfg : Config) (cn : Conn) (r : Request) :
    LogInv (connInner cfg srv cn r).1 := by
  unfold Sess.connInner
  repeat' split
  all_goals first | exact h | exact h.inSession cfg _ _ _

@[simp] theorem setMode_sessions (srv : Server) (c : Nat) (e : Err) : (setMode srv c e).sessions = srv.sessions := by
  cases e <;> rfl
@[simp] theorem setMode_log (srv : Server) (c : Nat) (e : Err) : (setMode srv c e).log = srv.log := by
  cases e <;> rfl
@[simp] theorem setMode_next (srv : Server) (c : Nat) (e : Err) : (setMode srv c e).nextSid = srv.nextSid := by
  cases e <;> rfl

theorem LogInv.setMode {srv : Server} (h : LogInv srv) (c : Nat) (e : Err) : LogInv (setMode srv c e) :=
  h.congr (by simp [sessIds]) (by simp) (by simp)

theorem foldl_inv {α : Type} {P : Server → Prop} (f : Server → α → Server) (hf : ∀ s a, P s → P (f s a)) :
    ∀ (l : List α) (s : Server), P s → P (l.foldl f s) := by
  intro l
  induction l with
  | nil => intro s h; exact h
  | cons a l ih => intro s h; exact ih _ (hf s a h)

@[simp] theorem arm_sessions (b srv : Server) (c : Nat) : (arm b srv c).sessions = srv.sessions := rfl
@[simp] theorem arm_log (b srv : Server) (c : Nat) : (arm b srv c).log = srv.log := rfl
@[simp] theorem arm_next (b srv : Server) (c : Nat) : (arm b srv c).nextSid = srv.nextSid := rfl

theorem LogInv.arm {srv : Server} (h : LogInv srv) (b : Server) (c : Nat) : LogInv (arm b srv c) :=
  h.congr rfl rfl rfl

theorem LogInv.silence {srv : Server} (h : LogInv srv) : LogInv (silence srv) := by
  unfold Sess.silence
  exact foldl_inv (P := LogInv) _ (fun s ss hs => hs.endSession ss.id) _ _
    (foldl_inv (P := LogInv) _ (fun s cn hs => hs.closeConn cn.id) _ _ h)

theorem LogInv.nonRequest {srv : Server} (h : LogInv srv) (c : Nat) (b : Bool) : LogInv (nonRequest srv c b) := by
  unfold Sess.nonRequest
  split
  · exact h
  · split
    · exact h
    · exact h.closeConn c

theorem LogInv.handleRequest {srv : Server} (h : LogInv srv) (cfg : Config) (cn : Conn) (r : Request) :
    LogInv (handleRequest cfg srv cn r).1 := by
  have := h.connInner cfg cn r
  unfold Sess.handleRequest
  split
  rename_i srv1 res heq
  rw [heq] at this
  dsimp only
  split
  · exact LogInv.closeConn (LogInv.arm this _ _) _
  · exact LogInv.arm (LogInv.setMode this _ _) _ _

theorem LogInv.stepEv {srv : Server} (h : LogInv srv) (cfg : Config) (e : Event) : LogInv (stepEv cfg srv e).1 := by
  cases e with
  | «open» c ip => simp only [Sess.stepEv]; split; exact h; exact h.withConns _
  | close c => exact h.closeConn c
  | expire sid => exact h.endSession sid
  | frame c => exact h.nonRequest c true
  | response c => exact h.nonRequest c false
  | silence => exact h.silence
  | req c r =>
    simp only [Sess.stepEv]
    split
    · exact h
    · exact h.handleRequest cfg _ r

theorem LogInv.run {srv : Server} (h : LogInv srv) (cfg : Config) (evs : List Event) :
    LogInv (run cfg srv evs).1 := by
  induction evs generalizing srv with
  | nil => exact h
  | cons e es ih => simp only [Sess.run]; exact ih (h.stepEv cfg e)

end Rtsp.Sess
