import Rtsp.Model.Session
import Rtsp.Proofs.Sess.Ends
import Rtsp.Proofs.Sess.Resp
/-
C02: the structural invariant of the server model over all event histories — connections and
sessions reference each other consistently, and a session without a connection is streaming over
UDP / multicast (the only case in which the property lets it live on: the stream timeout applies).
-/
namespace Rtsp.Sess
open Rtsp.Rfc2326 Rtsp.Facts

/-! ### list helpers -/

theorem eq_of_nodup_map {α β : Type} (f : α → β) : ∀ {l : List α}, (l.map f).Nodup →
    ∀ a ∈ l, ∀ b ∈ l, f a = f b → a = b := by
  intro l
  induction l with
  | nil => intro _ a ha; cases ha
  | cons x xs ih =>
    intro h a ha b hb hab
    simp only [List.map_cons, List.nodup_cons, List.mem_map, not_exists, not_and] at h
    rcases List.mem_cons.mp ha with rfl | ha' <;> rcases List.mem_cons.mp hb with rfl | hb'
    · rfl
    · exact absurd hab.symm (h.1 b hb')
    · exact absurd hab (h.1 a ha')
    · exact ih h.2 a ha' b hb' hab

theorem nodup_map_filter {α β : Type} (f : α → β) (p : α → Bool) {l : List α} (h : (l.map f).Nodup) :
    ((l.filter p).map f).Nodup :=
  List.Nodup.sublist (List.Sublist.map f List.filter_sublist) h

theorem map_map_id {α β : Type} (f : α → β) (g : α → α) (l : List α) (h : ∀ x ∈ l, f (g x) = f x) :
    (l.map g).map f = l.map f := by
  rw [List.map_map]
  exact List.map_congr_left fun x hx => h x hx

/-! ### the invariant -/

structure WFc (srv : Server) : Prop where
  connNodup : (srv.conns.map (·.id)).Nodup
  sessNodup : (srv.sessions.map (·.id)).Nodup
  sessLt : ∀ ss ∈ srv.sessions, ss.id < srv.nextSid
  sconnNodup : ∀ ss ∈ srv.sessions, ss.conns.Nodup
  /-- a connection's `session` pointer names a live session that lists the connection -/
  link1 : ∀ cn ∈ srv.conns, ∀ sid, cn.sess = some sid → ∃ ss ∈ srv.sessions, ss.id = sid ∧ cn.id ∈ ss.conns
  /-- every member of a session's `conns` is an open connection pointing back at the session -/
  link2 : ∀ ss ∈ srv.sessions, ∀ c ∈ ss.conns, ∃ cn ∈ srv.conns, cn.id = c ∧ cn.sess = some ss.id

/-- a live session without a connection is streaming over UDP or multicast -/
def NoLeak (srv : Server) : Prop :=
  ∀ ss ∈ srv.sessions, ss.conns = [] → isStreaming ss.state = true ∧ ss.transport ≠ some .tcp

theorem wfc_init : WFc {} := by
  constructor <;> simp

theorem noLeak_init : NoLeak {} := by
  intro ss h; cases h

theorem WFc.conn_unique {srv : Server} (h : WFc srv) {a b : Conn} (ha : a ∈ srv.conns) (hb : b ∈ srv.conns)
    (hab : a.id = b.id) : a = b := eq_of_nodup_map (·.id) h.connNodup a ha b hb hab

theorem WFc.sess_unique {srv : Server} (h : WFc srv) {a b : Session} (ha : a ∈ srv.sessions)
    (hb : b ∈ srv.sessions) (hab : a.id = b.id) : a = b := eq_of_nodup_map (·.id) h.sessNodup a ha b hb hab

theorem findConn_some_mem {srv : Server} {c : Nat} {cn : Conn} (h : findConn srv c = some cn) :
    cn ∈ srv.conns ∧ cn.id = c := by
  unfold findConn at h
  exact ⟨List.mem_of_find?_eq_some h, by simpa using List.find?_some h⟩

theorem findSession_of_mem {srv : Server} (h : WFc srv) {ss : Session} (hm : ss ∈ srv.sessions) :
    findSession srv ss.id = some ss := by
  cases hf : findSession srv ss.id with
  | none =>
    have := findSession_none_iff.mp hf
    exact absurd (List.mem_map.mpr ⟨ss, hm, rfl⟩) this
  | some s2 =>
    obtain ⟨hm2, hid⟩ := findSession_some_mem hf
    rw [h.sess_unique hm2 hm hid]

/-- a connection is a member of at most one session -/
theorem WFc.member_unique {srv : Server} (h : WFc srv) {s1 s2 : Session} (h1 : s1 ∈ srv.sessions)
    (h2 : s2 ∈ srv.sessions) {c : Nat} (hc1 : c ∈ s1.conns) (hc2 : c ∈ s2.conns) : s1 = s2 := by
  obtain ⟨cn1, hm1, hid1, hl1⟩ := h.link2 s1 h1 c hc1
  obtain ⟨cn2, hm2, hid2, hl2⟩ := h.link2 s2 h2 c hc2
  have : cn1 = cn2 := h.conn_unique hm1 hm2 (hid1.trans hid2.symm)
  subst this
  rw [hl1] at hl2
  exact h.sess_unique h1 h2 (by simpa using hl2)

/-! ### replacing a session record -/

def repl (ss' : Session) (x : Session) : Session := if x.id == ss'.id then ss' else x

theorem putSession_eq (srv : Server) (ss' : Session) :
    putSession srv ss' = { srv with sessions := srv.sessions.map (repl ss') } := rfl

theorem repl_id (ss' x : Session) : (repl ss' x).id = x.id := by
  unfold repl; split
  · rename_i h; exact (by simpa using h : x.id = ss'.id).symm
  · rfl

theorem mem_map_repl {srv : Server} (_h : WFc srv) {ss ss' : Session} (hm : ss ∈ srv.sessions)
    (hid : ss'.id = ss.id) {x : Session} :
    x ∈ srv.sessions.map (repl ss') ↔ (x = ss' ∨ (x ∈ srv.sessions ∧ x.id ≠ ss.id)) := by
  simp only [List.mem_map]
  constructor
  · rintro ⟨y, hy, rfl⟩
    unfold repl
    split
    · left; rfl
    · rename_i hne; right; exact ⟨hy, by simpa [hid] using hne⟩
  · rintro (rfl | ⟨hx, hne⟩)
    · exact ⟨ss, hm, by simp [repl, hid]⟩
    · exact ⟨x, hx, by simp [repl, hid, hne]⟩


theorem mem_filter_conns {srv : Server} {p : Conn → Bool} {cn : Conn} :
    cn ∈ srv.conns.filter p ↔ cn ∈ srv.conns ∧ p cn = true := List.mem_filter

/-- Replace `ss` by a record with the same identifier whose connection list is a duplicate-free
part of the old one, and drop the connections that fell out of it. -/
theorem WFc.shrink {srv : Server} (h : WFc srv) {ss ss' : Session} (hm : ss ∈ srv.sessions)
    (hid : ss'.id = ss.id) (hnd : ss'.conns.Nodup) (hsub : ∀ x ∈ ss'.conns, x ∈ ss.conns) :
    WFc { srv with
      conns := srv.conns.filter (fun cn => !ss.conns.contains cn.id || ss'.conns.contains cn.id)
      sessions := srv.sessions.map (repl ss') } := by
  constructor
  · exact nodup_map_filter _ _ h.connNodup
  · show ((srv.sessions.map (repl ss')).map (·.id)).Nodup
    rw [map_map_id _ _ _ fun x _ => repl_id ss' x]; exact h.sessNodup
  · intro x hx
    rcases (mem_map_repl h hm hid).mp hx with rfl | ⟨hx, _⟩
    · rw [hid]; exact h.sessLt ss hm
    · exact h.sessLt x hx
  · intro x hx
    rcases (mem_map_repl h hm hid).mp hx with rfl | ⟨hx, _⟩
    · exact hnd
    · exact h.sconnNodup x hx
  · intro cn hcn sid hs
    obtain ⟨hcn, hp⟩ := List.mem_filter.mp hcn
    obtain ⟨s0, hs0, hs0id, hmem⟩ := h.link1 cn hcn sid hs
    by_cases he : s0.id = ss.id
    · have : s0 = ss := h.sess_unique hs0 hm he
      subst this
      have hin : cn.id ∈ ss'.conns := by
        simp only [Bool.or_eq_true, Bool.not_eq_true', List.contains_iff_mem] at hp
        rcases hp with hp | hp
        · exact absurd hmem (by simpa using hp)
        · exact hp
      exact ⟨ss', (mem_map_repl h hm hid).mpr (Or.inl rfl), hid.trans hs0id, hin⟩
    · exact ⟨s0, (mem_map_repl h hm hid).mpr (Or.inr ⟨hs0, he⟩), hs0id, hmem⟩
  · intro x hx c hc
    rcases (mem_map_repl h hm hid).mp hx with rfl | ⟨hx, hne⟩
    · obtain ⟨cn, hcn, hcid, hl⟩ := h.link2 ss hm c (hsub c hc)
      refine ⟨cn, List.mem_filter.mpr ⟨hcn, ?_⟩, hcid, by rw [hl, hid]⟩
      simp only [Bool.or_eq_true, List.contains_iff_mem]
      right; rw [hcid]; exact hc
    · obtain ⟨cn, hcn, hcid, hl⟩ := h.link2 x hx c hc
      refine ⟨cn, List.mem_filter.mpr ⟨hcn, ?_⟩, hcid, hl⟩
      simp only [Bool.or_eq_true, Bool.not_eq_true', List.contains_iff_mem]
      left
      rw [hcid]
      by_cases hin : c ∈ ss.conns
      · exact absurd (congrArg Session.id (h.member_unique hx hm hc hin)) hne
      · simpa using hin

/-- remove a session together with the connections it lists (`ServerSession.run()`'s tail) -/
theorem WFc.removeSession {srv : Server} (h : WFc srv) {ss : Session} (hm : ss ∈ srv.sessions) (log : List Ev) :
    WFc { srv with
      sessions := srv.sessions.filter (·.id != ss.id)
      conns := srv.conns.filter (fun cn => !ss.conns.contains cn.id)
      log := log } := by
  constructor
  · exact nodup_map_filter _ _ h.connNodup
  · exact nodup_map_filter _ _ h.sessNodup
  · intro x hx; exact h.sessLt x (List.mem_filter.mp hx).1
  · intro x hx; exact h.sconnNodup x (List.mem_filter.mp hx).1
  · intro cn hcn sid hs
    obtain ⟨hcn, hp⟩ := List.mem_filter.mp hcn
    obtain ⟨s0, hs0, hs0id, hmem⟩ := h.link1 cn hcn sid hs
    by_cases he : s0.id = ss.id
    · have : s0 = ss := h.sess_unique hs0 hm he
      subst this
      exact absurd hmem (by simpa using hp)
    · exact ⟨s0, List.mem_filter.mpr ⟨hs0, by simpa using he⟩, hs0id, hmem⟩
  · intro x hx c hc
    obtain ⟨hx, hne⟩ := List.mem_filter.mp hx
    have hne : x.id ≠ ss.id := by simpa using hne
    obtain ⟨cn, hcn, hcid, hl⟩ := h.link2 x hx c hc
    refine ⟨cn, List.mem_filter.mpr ⟨hcn, ?_⟩, hcid, hl⟩
    rw [hcid]
    by_cases hin : c ∈ ss.conns
    · exact absurd (congrArg Session.id (h.member_unique hx hm hc hin)) hne
    · simpa using hin

/-- drop a connection that is not associated with any session -/
theorem WFc.dropUnlinked {srv : Server} (h : WFc srv) {cn : Conn} (hm : cn ∈ srv.conns) (hs : cn.sess = none) :
    WFc { srv with conns := srv.conns.filter (·.id != cn.id) } := by
  constructor
  · exact nodup_map_filter _ _ h.connNodup
  · exact h.sessNodup
  · exact h.sessLt
  · exact h.sconnNodup
  · intro x hx sid hsx
    exact h.link1 x (List.mem_filter.mp hx).1 sid hsx
  · intro x hx c hc
    obtain ⟨y, hy, hyid, hl⟩ := h.link2 x hx c hc
    refine ⟨y, List.mem_filter.mpr ⟨hy, ?_⟩, hyid, hl⟩
    simp only [bne_iff_ne, ne_eq]
    intro he
    have : y = cn := h.conn_unique hy hm he
    subst this
    rw [hs] at hl; cases hl


/-! ### (re)linking a connection -/

def relink (c : Nat) (v : Option Nat) (x : Conn) : Conn := if x.id == c then { x with sess := v } else x

theorem setConnSess_eq (srv : Server) (c : Nat) (v : Option Nat) :
    setConnSess srv c v = { srv with conns := srv.conns.map (relink c v) } := rfl

theorem relink_id (c : Nat) (v : Option Nat) (x : Conn) : (relink c v x).id = x.id := by
  unfold relink; split <;> rfl

theorem relink_ne {c : Nat} {v : Option Nat} {x : Conn} (h : x.id ≠ c) : relink c v x = x := by
  unfold relink; simp [h]

theorem relink_eq {c : Nat} {v : Option Nat} {x : Conn} (h : x.id = c) : (relink c v x).sess = v := by
  unfold relink; simp [h]

theorem addConn_nodup {l : List Nat} (h : l.Nodup) (c : Nat) : (addConn l c).Nodup := by
  unfold addConn
  split
  · exact h
  · rename_i hc
    have : c ∉ l := by simpa using hc
    exact List.nodup_append.mpr ⟨h, by simp, by
      intro a ha b hb; simp at hb; subst hb; intro he; subst he; exact this ha⟩

theorem mem_addConn {l : List Nat} {c x : Nat} : x ∈ addConn l c ↔ x ∈ l ∨ x = c := by
  unfold addConn
  split
  · rename_i hc
    have : c ∈ l := by simpa using hc
    constructor
    · exact Or.inl
    · rintro (h | rfl); exact h; exact this
  · simp

/-- the request case of `runInner` for a request that does not end the session: the connection is
added to the session's set and its `session` pointer is set -/
theorem WFc.attach {srv : Server} (h : WFc srv) {ss ss2 : Session} {cn : Conn} (hm : ss ∈ srv.sessions)
    (hcn : cn ∈ srv.conns) (hl : cn.sess = none ∨ cn.sess = some ss.id) (hid : ss2.id = ss.id)
    (hc : ss2.conns = addConn ss.conns cn.id) :
    WFc (setConnSess (putSession srv ss2) cn.id (some ss.id)) := by
  rw [setConnSess_eq, putSession_eq]
  constructor
  · show ((srv.conns.map (relink cn.id (some ss.id))).map (·.id)).Nodup
    rw [map_map_id _ _ _ fun x _ => relink_id _ _ x]; exact h.connNodup
  · show ((srv.sessions.map (repl ss2)).map (·.id)).Nodup
    rw [map_map_id _ _ _ fun x _ => repl_id ss2 x]; exact h.sessNodup
  · intro x hx
    rcases (mem_map_repl h hm hid).mp hx with rfl | ⟨hx, _⟩
    · rw [hid]; exact h.sessLt ss hm
    · exact h.sessLt x hx
  · intro x hx
    rcases (mem_map_repl h hm hid).mp hx with rfl | ⟨hx, _⟩
    · rw [hc]; exact addConn_nodup (h.sconnNodup ss hm) _
    · exact h.sconnNodup x hx
  · intro y hy sid hs
    obtain ⟨x, hx, rfl⟩ := List.mem_map.mp hy
    by_cases hxc : x.id = cn.id
    · rw [relink_eq hxc] at hs
      have : ss.id = sid := by simpa using hs
      subst this
      refine ⟨ss2, (mem_map_repl h hm hid).mpr (Or.inl rfl), hid, ?_⟩
      rw [relink_id, hc, hxc]; exact mem_addConn.mpr (Or.inr rfl)
    · rw [relink_ne hxc] at hs ⊢
      obtain ⟨s0, hs0, hs0id, hmem⟩ := h.link1 x hx sid hs
      by_cases he : s0.id = ss.id
      · have : s0 = ss := h.sess_unique hs0 hm he
        subst this
        exact ⟨ss2, (mem_map_repl h hm hid).mpr (Or.inl rfl), hid.trans hs0id, by
          rw [hc]; exact mem_addConn.mpr (Or.inl hmem)⟩
      · exact ⟨s0, (mem_map_repl h hm hid).mpr (Or.inr ⟨hs0, he⟩), hs0id, hmem⟩
  · intro x hx c hcm
    rcases (mem_map_repl h hm hid).mp hx with rfl | ⟨hx, hne⟩
    · rw [hc] at hcm
      rcases mem_addConn.mp hcm with hin | rfl
      · obtain ⟨y, hy, hyid, hyl⟩ := h.link2 ss hm c hin
        refine ⟨relink cn.id (some ss.id) y, List.mem_map.mpr ⟨y, hy, rfl⟩, by rw [relink_id]; exact hyid, ?_⟩
        by_cases hyc : y.id = cn.id
        · rw [relink_eq hyc, hid]
        · rw [relink_ne hyc, hyl, hid]
      · exact ⟨relink cn.id (some ss.id) cn, List.mem_map.mpr ⟨cn, hcn, rfl⟩, by rw [relink_id],
          by rw [relink_eq rfl, hid]⟩
    · obtain ⟨y, hy, hyid, hyl⟩ := h.link2 x hx c hcm
      have hyc : y.id ≠ cn.id := by
        intro he
        have : y = cn := h.conn_unique hy hcn he
        subst this
        rcases hl with hl | hl
        · rw [hl] at hyl; cases hyl
        · rw [hl] at hyl; exact hne (by simpa using hyl.symm)
      exact ⟨relink cn.id (some ss.id) y, List.mem_map.mpr ⟨y, hy, rfl⟩, by rw [relink_id]; exact hyid,
        by rw [relink_ne hyc]; exact hyl⟩

/-- the request case of `runInner` for a successful TEARDOWN, before the session is removed: the
connection is taken out of the session's set and unpaired -/
theorem WFc.detach {srv : Server} (h : WFc srv) {ss ss2 : Session} {cn : Conn} (hm : ss ∈ srv.sessions)
    (hcn : cn ∈ srv.conns) (hl : cn.sess = none ∨ cn.sess = some ss.id) (hid : ss2.id = ss.id)
    (hc : ss2.conns = ss.conns.erase cn.id) :
    WFc (setConnSess (putSession srv ss2) cn.id none) := by
  rw [setConnSess_eq, putSession_eq]
  have hnd := h.sconnNodup ss hm
  constructor
  · show ((srv.conns.map (relink cn.id none)).map (·.id)).Nodup
    rw [map_map_id _ _ _ fun x _ => relink_id _ _ x]; exact h.connNodup
  · show ((srv.sessions.map (repl ss2)).map (·.id)).Nodup
    rw [map_map_id _ _ _ fun x _ => repl_id ss2 x]; exact h.sessNodup
  · intro x hx
    rcases (mem_map_repl h hm hid).mp hx with rfl | ⟨hx, _⟩
    · rw [hid]; exact h.sessLt ss hm
    · exact h.sessLt x hx
  · intro x hx
    rcases (mem_map_repl h hm hid).mp hx with rfl | ⟨hx, _⟩
    · rw [hc]; exact hnd.erase _
    · exact h.sconnNodup x hx
  · intro y hy sid hs
    obtain ⟨x, hx, rfl⟩ := List.mem_map.mp hy
    by_cases hxc : x.id = cn.id
    · rw [relink_eq hxc] at hs; cases hs
    · rw [relink_ne hxc] at hs ⊢
      obtain ⟨s0, hs0, hs0id, hmem⟩ := h.link1 x hx sid hs
      by_cases he : s0.id = ss.id
      · have : s0 = ss := h.sess_unique hs0 hm he
        subst this
        exact ⟨ss2, (mem_map_repl h hm hid).mpr (Or.inl rfl), hid.trans hs0id, by
          rw [hc]; exact (List.mem_erase_of_ne hxc).mpr hmem⟩
      · exact ⟨s0, (mem_map_repl h hm hid).mpr (Or.inr ⟨hs0, he⟩), hs0id, hmem⟩
  · intro x hx c hcm
    rcases (mem_map_repl h hm hid).mp hx with rfl | ⟨hx, hne⟩
    · rw [hc] at hcm
      obtain ⟨hcne, hin⟩ := hnd.mem_erase_iff.mp hcm
      obtain ⟨y, hy, hyid, hyl⟩ := h.link2 ss hm c hin
      have hyc : y.id ≠ cn.id := by rw [hyid]; exact hcne
      exact ⟨relink cn.id none y, List.mem_map.mpr ⟨y, hy, rfl⟩, by rw [relink_id]; exact hyid,
        by rw [relink_ne hyc, hyl, hid]⟩
    · obtain ⟨y, hy, hyid, hyl⟩ := h.link2 x hx c hcm
      have hyc : y.id ≠ cn.id := by
        intro he
        have : y = cn := h.conn_unique hy hcn he
        subst this
        rcases hl with hl | hl
        · rw [hl] at hyl; cases hyl
        · rw [hl] at hyl; exact hne (by simpa using hyl.symm)
      exact ⟨relink cn.id none y, List.mem_map.mpr ⟨y, hy, rfl⟩, by rw [relink_id]; exact hyid,
        by rw [relink_ne hyc]; exact hyl⟩

/-- a client connects -/
theorem WFc.addConnection {srv : Server} (h : WFc srv) (c ip : Nat) (hf : findConn srv c = none) :
    WFc { srv with conns := srv.conns ++ [{ id := c, ip := ip }] } := by
  have hfresh := findConn_none_iff.mp hf
  constructor
  · show ((srv.conns ++ [({ id := c, ip := ip } : Conn)]).map (fun x : Conn => x.id)).Nodup
    rw [List.map_append]
    refine List.nodup_append.mpr ⟨h.connNodup, by simp, ?_⟩
    intro a ha b hb
    simp at hb; subst hb
    obtain ⟨x, hx, rfl⟩ := List.mem_map.mp ha
    exact hfresh x hx
  · exact h.sessNodup
  · exact h.sessLt
  · exact h.sconnNodup
  · intro x hx sid hs
    rcases List.mem_append.mp hx with hx | hx
    · exact h.link1 x hx sid hs
    · simp at hx; subst hx; cases hs
  · intro x hx c' hc
    obtain ⟨y, hy, hyid, hl⟩ := h.link2 x hx c' hc
    exact ⟨y, List.mem_append.mpr (Or.inl hy), hyid, hl⟩

/-- `findOrCreateSession` creates a session (its first connection is attached right afterwards) -/
theorem WFc.addSession {srv : Server} (h : WFc srv) (ss0 : Session) (hid : ss0.id = srv.nextSid)
    (hc : ss0.conns = []) (log : List Ev) :
    WFc { srv with sessions := srv.sessions ++ [ss0], nextSid := srv.nextSid + 1, log := log } := by
  constructor
  · exact h.connNodup
  · show ((srv.sessions ++ [ss0]).map (·.id)).Nodup
    rw [List.map_append]
    refine List.nodup_append.mpr ⟨h.sessNodup, by simp, ?_⟩
    intro a ha b hb
    simp at hb; subst hb
    obtain ⟨x, hx, rfl⟩ := List.mem_map.mp ha
    have := h.sessLt x hx
    omega
  · intro x hx
    rcases List.mem_append.mp hx with hx | hx
    · exact Nat.lt_succ_of_lt (h.sessLt x hx)
    · simp at hx; subst hx; show x.id < srv.nextSid + 1; omega
  · intro x hx
    rcases List.mem_append.mp hx with hx | hx
    · exact h.sconnNodup x hx
    · simp at hx; subst hx; rw [hc]; exact List.nodup_nil
  · intro x hx sid hs
    obtain ⟨s0, hs0, h1, h2⟩ := h.link1 x hx sid hs
    exact ⟨s0, List.mem_append.mpr (Or.inl hs0), h1, h2⟩
  · intro x hx c hcm
    rcases List.mem_append.mp hx with hx | hx
    · exact h.link2 x hx c hcm
    · simp at hx; subst hx; rw [hc] at hcm; cases hcm


/-! ### the composite operations of the model -/

theorem NoLeak.mono {a b : Server} (h : NoLeak a) (hs : ∀ x ∈ b.sessions, x ∈ a.sessions) : NoLeak b :=
  fun x hx => h x (hs x hx)

theorem WFc.endSession {srv : Server} (h : WFc srv) (sid : Nat) : WFc (endSession srv sid) := by
  unfold Sess.endSession
  cases hf : findSession srv sid with
  | none => exact h
  | some ss =>
    obtain ⟨hm, hid⟩ := findSession_some_mem hf
    subst hid
    exact h.removeSession hm _

theorem endSession_sessions_sub (srv : Server) (sid : Nat) :
    ∀ x ∈ (endSession srv sid).sessions, x ∈ srv.sessions := by
  unfold endSession
  split
  · exact fun _ h => h
  · exact fun x h => (List.mem_filter.mp h).1

theorem NoLeak.endSession {srv : Server} (h : NoLeak srv) (sid : Nat) : NoLeak (endSession srv sid) :=
  h.mono (endSession_sessions_sub srv sid)

/-- after `endSession` the session is gone -/
theorem endSession_not_mem (srv : Server) (sid : Nat) : ∀ x ∈ (endSession srv sid).sessions, x.id ≠ sid := by
  unfold endSession
  cases hf : findSession srv sid with
  | none =>
    intro x hx
    have := findSession_none_iff.mp hf
    intro he
    exact this (List.mem_map.mpr ⟨x, hx, he⟩)
  | some ss =>
    intro x hx
    simpa using (List.mem_filter.mp hx).2

theorem closeConn_inv {srv : Server} (h : WFc srv) (hN : NoLeak srv) (c : Nat) :
    WFc (closeConn srv c) ∧ NoLeak (closeConn srv c) := by
  unfold closeConn
  cases hf : findConn srv c with
  | none => exact ⟨h, hN⟩
  | some cn =>
    obtain ⟨hcn, hcid⟩ := findConn_some_mem hf
    subst hcid
    dsimp only
    cases hs : cn.sess with
    | none =>
      exact ⟨h.dropUnlinked hcn hs, hN.mono fun x hx => hx⟩
    | some sid =>
      obtain ⟨ss, hm, hsid, hmem⟩ := h.link1 cn hcn sid hs
      subst hsid
      have hfs : findSession { srv with conns := srv.conns.filter (·.id != cn.id) } ss.id = some ss :=
        findSession_of_mem h hm
      simp only [hfs]
      have hnd := h.sconnNodup ss hm
      -- the state after dropping the connection and taking it out of the session's set
      have e : putSession { srv with conns := srv.conns.filter (·.id != cn.id) }
                 { ss with conns := ss.conns.erase cn.id } =
          { srv with
            conns := srv.conns.filter
              (fun x => !ss.conns.contains x.id || ({ ss with conns := ss.conns.erase cn.id } : Session).conns.contains x.id)
            sessions := srv.sessions.map (repl { ss with conns := ss.conns.erase cn.id }) } := by
        rw [putSession_eq]
        congr 1
        apply List.filter_congr
        intro x _
        by_cases hx : x.id = cn.id
        · have : cn.id ∉ ss.conns.erase cn.id := fun hin => (hnd.mem_erase_iff.mp hin).1 rfl
          simp [hx, hmem, this]
        · by_cases hin : x.id ∈ ss.conns
          · simp [hx, hin, (List.mem_erase_of_ne hx).mpr hin]
          · simp [hx, hin]
      have hw2 : WFc (putSession { srv with conns := srv.conns.filter (·.id != cn.id) }
                 { ss with conns := ss.conns.erase cn.id }) := by
        rw [e]
        exact h.shrink hm rfl (hnd.erase _) fun x hx => (hnd.mem_erase_iff.mp hx).2
      split
      · refine ⟨hw2.endSession _, ?_⟩
        intro x hx
        have hne := endSession_not_mem _ _ x hx
        have hx2 := endSession_sessions_sub _ _ x hx
        have hx2' : x ∈ srv.sessions.map (repl { ss with conns := ss.conns.erase cn.id }) := hx2
        rcases (mem_map_repl h hm (ss' := { ss with conns := ss.conns.erase cn.id }) rfl).mp hx2' with rfl | ⟨hx3, _⟩
        · exact absurd rfl hne
        · exact hN x hx3
      · rename_i hrule
        refine ⟨hw2, ?_⟩
        intro x hx hempty
        have hx' : x ∈ srv.sessions.map (repl { ss with conns := ss.conns.erase cn.id }) := hx
        rcases (mem_map_repl h hm (ss' := { ss with conns := ss.conns.erase cn.id }) rfl).mp hx' with rfl | ⟨hx3, _⟩
        · have he : ss.conns.erase cn.id = [] := hempty
          have hr : (!isStreaming ss.state || ss.transport == some Proto.tcp) = false := by
            cases hb : (!isStreaming ss.state || ss.transport == some Proto.tcp)
            · rfl
            · exact absurd (by simp [endsWhenUnused, he, hb]) hrule
          simp only [Bool.or_eq_false_iff, Bool.not_eq_false', beq_eq_false_iff_ne, ne_eq] at hr
          exact ⟨hr.1, hr.2⟩
        · exact hN x hx3 hempty


theorem sessInner_conns (cfg : Config) (ss : Session) (c : Nat) (r : Request) :
    (sessInner cfg ss c r).1.conns = ss.conns := by
  unfold sessInner
  split
  · rfl
  · split
    · rfl
    · unfold doAnnounce; repeat' split
      all_goals rfl
    · unfold doSetup; repeat' split
      all_goals first | rfl | (unfold setupMedia; repeat' split
                               all_goals rfl)
    · unfold doPlay; repeat' split
      all_goals rfl
    · unfold doRecord; repeat' split
      all_goals rfl
    · unfold doPause; repeat' split
      all_goals rfl
    · rfl
    · unfold doGetParameter; split <;> rfl
    · unfold doSetParameter; split <;> rfl
    · rfl

theorem sessHandle_conns (cfg : Config) (ss : Session) (c : Nat) (r : Request) :
    (sessHandle cfg ss c r).ss.conns =
      if (sessHandle cfg ss c r).ended then (addConn ss.conns c).erase c else addConn ss.conns c := by
  have := sessInner_conns cfg { ss with conns := addConn ss.conns c } c r
  unfold sessHandle
  dsimp only
  repeat' split
  all_goals simp_all

theorem addConn_erase {l : List Nat} (_h : l.Nodup) (c : Nat) : (addConn l c).erase c = l.erase c := by
  unfold addConn
  split
  · rfl
  · rename_i hc
    have hn : c ∉ l := by simpa using hc
    rw [List.erase_append_right _ hn, List.erase_of_not_mem hn]
    simp

/-- `NoLeak` for every session but one -/
def NoLeakBut (srv : Server) (sid : Nat) : Prop :=
  ∀ ss ∈ srv.sessions, ss.id ≠ sid → ss.conns = [] → isStreaming ss.state = true ∧ ss.transport ≠ some .tcp

theorem runInSessionWith_inv {srv : Server} (h : WFc srv) (cfg : Config) {ss : Session} {cn : Conn} (r : Request)
    (hN : NoLeakBut srv ss.id) (hm : ss ∈ srv.sessions) (hcn : cn ∈ srv.conns)
    (hl : cn.sess = none ∨ cn.sess = some ss.id) :
    WFc (runInSessionWith cfg srv cn.id ss r).1 ∧ NoLeak (runInSessionWith cfg srv cn.id ss r).1 := by
  have hid := sessHandle_id cfg ss cn.id r
  have hco := sessHandle_conns cfg ss cn.id r
  unfold runInSessionWith
  dsimp only
  split
  · rename_i hend
    simp only [hend, if_true] at hco
    rw [addConn_erase (h.sconnNodup ss hm)] at hco
    have hw := h.detach hm hcn hl hid hco
    refine ⟨hw.endSession _, ?_⟩
    intro x hx
    have hne := endSession_not_mem _ _ x hx
    have hx2 := endSession_sessions_sub _ _ x hx
    have hx2' : x ∈ srv.sessions.map (repl (sessHandle cfg ss cn.id r).ss) := hx2
    rcases (mem_map_repl h hm hid).mp hx2' with rfl | ⟨hx3, hne3⟩
    · exact absurd hid hne
    · exact hN x hx3 hne3
  · rename_i hend
    simp only [hend, Bool.false_eq_true, if_false] at hco
    refine ⟨h.attach hm hcn hl hid hco, ?_⟩
    intro x hx
    have hx' : x ∈ srv.sessions.map (repl (sessHandle cfg ss cn.id r).ss) := hx
    rcases (mem_map_repl h hm hid).mp hx' with rfl | ⟨hx3, hne3⟩
    · intro he
      rw [hco] at he
      have : cn.id ∈ addConn ss.conns cn.id := mem_addConn.mpr (Or.inr rfl)
      rw [he] at this; cases this
    · exact hN x hx3 hne3


theorem runInSession_inv {srv : Server} (h : WFc srv) (cfg : Config) {ss : Session} {cn : Conn} (r : Request)
    (hN : NoLeakBut srv ss.id) (hm : ss ∈ srv.sessions) (hcn : cn ∈ srv.conns)
    (hl : cn.sess = none ∨ cn.sess = some ss.id) :
    WFc (runInSession cfg srv cn.id ss r).1 ∧ NoLeak (runInSession cfg srv cn.id ss r).1 :=
  runInSessionWith_inv h cfg _ hN hm hcn hl

theorem NoLeak.but {srv : Server} (h : NoLeak srv) (sid : Nat) : NoLeakBut srv sid :=
  fun x hx _ => h x hx

/-- creating a session with its author already in the set and then handling the request is the
same as creating it empty: the request case adds the connection anyway -/
theorem runInSessionWith_create_eq (cfg : Config) (srv : Server) (cn : Conn) (r : Request) (log : List Ev) :
    runInSessionWith cfg
      { srv with sessions := srv.sessions ++ [{ id := srv.nextSid, authorIp := cn.ip, conns := [cn.id] }],
                 nextSid := srv.nextSid + 1, log := log }
      cn.id { id := srv.nextSid, authorIp := cn.ip, conns := [cn.id] } r =
    runInSessionWith cfg
      { srv with sessions := srv.sessions ++ [{ id := srv.nextSid, authorIp := cn.ip, conns := [] }],
                 nextSid := srv.nextSid + 1, log := log }
      cn.id { id := srv.nextSid, authorIp := cn.ip, conns := [] } r := by
  have hs : sessHandle cfg { id := srv.nextSid, authorIp := cn.ip, conns := [cn.id] } cn.id r =
      sessHandle cfg { id := srv.nextSid, authorIp := cn.ip, conns := [] } cn.id r := by
    unfold sessHandle
    simp [addConn]
  have hid := sessHandle_id cfg { id := srv.nextSid, authorIp := cn.ip, conns := [] } cn.id r
  unfold runInSessionWith
  rw [hs]
  simp only [putSession, List.map_append, List.map_cons, List.map_nil, hid, beq_self_eq_true, if_true]

/-- … and the other sessions' ports are looked at in the same way -/
theorem portBusy_create_eq (cfg : Config) (srv : Server) (cn : Conn) (r : Request) (log : List Ev) :
    portBusy cfg
      { srv with sessions := srv.sessions ++ [{ id := srv.nextSid, authorIp := cn.ip, conns := [cn.id] }],
                 nextSid := srv.nextSid + 1, log := log }
      { id := srv.nextSid, authorIp := cn.ip, conns := [cn.id] } r =
    portBusy cfg
      { srv with sessions := srv.sessions ++ [{ id := srv.nextSid, authorIp := cn.ip, conns := [] }],
                 nextSid := srv.nextSid + 1, log := log }
      { id := srv.nextSid, authorIp := cn.ip, conns := [] } r := by
  unfold portBusy
  split
  · rfl
  · split
    · rfl
    · simp [List.any_append]

theorem runInSession_create_eq (cfg : Config) (srv : Server) (cn : Conn) (r : Request) (log : List Ev) :
    runInSession cfg
      { srv with sessions := srv.sessions ++ [{ id := srv.nextSid, authorIp := cn.ip, conns := [cn.id] }],
                 nextSid := srv.nextSid + 1, log := log }
      cn.id { id := srv.nextSid, authorIp := cn.ip, conns := [cn.id] } r =
    runInSession cfg
      { srv with sessions := srv.sessions ++ [{ id := srv.nextSid, authorIp := cn.ip, conns := [] }],
                 nextSid := srv.nextSid + 1, log := log }
      cn.id { id := srv.nextSid, authorIp := cn.ip, conns := [] } r := by
  unfold runInSession
  rw [portBusy_create_eq, runInSessionWith_create_eq]

theorem inSession_inv {srv : Server} (h : WFc srv) (hN : NoLeak srv) (cfg : Config) {cn : Conn}
    (hcn : cn ∈ srv.conns) (r : Request) (create : Bool) :
    WFc (inSession cfg srv cn r create).1 ∧ NoLeak (inSession cfg srv cn r create).1 := by
  unfold inSession
  cases hs : cn.sess with
  | none =>
    simp only
    cases hl : lookupSid srv r.sid with
    | some ss =>
      simp only
      have hm : ss ∈ srv.sessions := by
        unfold lookupSid at hl
        split at hl
        · exact (findSession_some_mem hl).1
        · cases hl
      split
      · exact ⟨h, hN⟩
      · exact runInSession_inv h cfg r (hN.but _) hm hcn (Or.inl hs)
    | none =>
      simp only
      split
      · exact ⟨h, hN⟩
      · rw [runInSession_create_eq]
        have hw := h.addSession { id := srv.nextSid, authorIp := cn.ip, conns := [] } rfl rfl
          (srv.log ++ [.sessOpen srv.nextSid])
        refine runInSession_inv hw cfg r ?_ (List.mem_append.mpr (Or.inr (by simp))) hcn (Or.inl hs)
        intro x hx hne
        rcases List.mem_append.mp hx with hx | hx
        · exact hN x hx
        · simp at hx; subst hx; exact absurd rfl hne
  | some cur =>
    simp only
    split
    · exact ⟨h, hN⟩
    · cases hf : findSession srv cur with
      | none => exact ⟨h, hN⟩
      | some ss =>
        obtain ⟨hm, hid⟩ := findSession_some_mem hf
        exact runInSession_inv h cfg r (hN.but _) hm hcn (Or.inr (by rw [hs, hid]))

theorem connInner_inv {srv : Server} (h : WFc srv) (hN : NoLeak srv) (cfg : Config) {cn : Conn}
    (hcn : cn ∈ srv.conns) (r : Request) :
    WFc (connInner cfg srv cn r).1 ∧ NoLeak (connInner cfg srv cn r).1 := by
  unfold connInner
  repeat' split
  all_goals first | exact ⟨h, hN⟩ | exact inSession_inv h hN cfg hcn r _

/-- changing fields of connections other than `id` and `sess` -/
theorem WFc.mapConns {srv : Server} (h : WFc srv) (f : Conn → Conn) (hid : ∀ x, (f x).id = x.id)
    (hs : ∀ x, (f x).sess = x.sess) : WFc { srv with conns := srv.conns.map f } := by
  constructor
  · show ((srv.conns.map f).map (·.id)).Nodup
    rw [map_map_id _ _ _ fun x _ => hid x]; exact h.connNodup
  · exact h.sessNodup
  · exact h.sessLt
  · exact h.sconnNodup
  · intro y hy sid hsy
    obtain ⟨x, hx, rfl⟩ := List.mem_map.mp hy
    rw [hs] at hsy; rw [hid]
    exact h.link1 x hx sid hsy
  · intro ss hss c hc
    obtain ⟨x, hx, hxid, hxl⟩ := h.link2 ss hss c hc
    exact ⟨f x, List.mem_map.mpr ⟨x, hx, rfl⟩, by rw [hid]; exact hxid, by rw [hs]; exact hxl⟩

theorem setMode_inv {srv : Server} (h : WFc srv) (hN : NoLeak srv) (c : Nat) (e : Err) :
    WFc (setMode srv c e) ∧ NoLeak (setMode srv c e) := by
  cases e with
  | none => exact ⟨h, hN⟩
  | fail => exact ⟨h, hN⟩
  | sw b =>
    refine ⟨h.mapConns _ ?_ ?_, hN.mono fun x hx => hx⟩
    · intro x; split <;> rfl
    · intro x; split <;> rfl

theorem setMode_keeps (srv : Server) (c : Nat) (e : Err) {x : Conn} (hx : x ∈ srv.conns) :
    ∃ y ∈ (setMode srv c e).conns, y.id = x.id := by
  cases e with
  | none => exact ⟨x, hx, rfl⟩
  | fail => exact ⟨x, hx, rfl⟩
  | sw b =>
    refine ⟨_, List.mem_map.mpr ⟨x, hx, rfl⟩, ?_⟩
    split <;> rfl

theorem arm_inv {srv : Server} (h : WFc srv) (hN : NoLeak srv) (b : Server) (c : Nat) :
    WFc (arm b srv c) ∧ NoLeak (arm b srv c) := by
  refine ⟨h.mapConns _ ?_ ?_, hN.mono fun x hx => hx⟩
  · intro x; split
    · rfl
    · split <;> rfl
  · intro x; split
    · rfl
    · split <;> rfl

theorem arm_keeps (b srv : Server) (c : Nat) {x : Conn} (hx : x ∈ srv.conns) :
    ∃ y ∈ (arm b srv c).conns, y.id = x.id := by
  refine ⟨_, List.mem_map.mpr ⟨x, hx, rfl⟩, ?_⟩
  split
  · rfl
  · split <;> rfl

theorem silence_inv {srv : Server} (h : WFc srv) (hN : NoLeak srv) : WFc (silence srv) ∧ NoLeak (silence srv) := by
  unfold silence
  exact foldl_inv (P := fun s => WFc s ∧ NoLeak s) _ (fun s ss hs => ⟨hs.1.endSession ss.id, hs.2.endSession ss.id⟩) _ _
    (foldl_inv (P := fun s => WFc s ∧ NoLeak s) _ (fun s cn hs => closeConn_inv hs.1 hs.2 cn.id) _ _ ⟨h, hN⟩)

theorem nonRequest_inv {srv : Server} (h : WFc srv) (hN : NoLeak srv) (c : Nat) (b : Bool) :
    WFc (nonRequest srv c b) ∧ NoLeak (nonRequest srv c b) := by
  unfold nonRequest
  split
  · exact ⟨h, hN⟩
  · split
    · exact ⟨h, hN⟩
    · exact closeConn_inv h hN c

theorem handleRequest_inv {srv : Server} (h : WFc srv) (hN : NoLeak srv) (cfg : Config) {cn : Conn}
    (hcn : cn ∈ srv.conns) (r : Request) :
    WFc (handleRequest cfg srv cn r).1 ∧ NoLeak (handleRequest cfg srv cn r).1 := by
  have := connInner_inv h hN cfg hcn r
  unfold handleRequest
  split
  rename_i srv1 res heq
  rw [heq] at this
  dsimp only
  split
  · obtain ⟨a, b⟩ := arm_inv this.1 this.2 srv cn.id
    exact closeConn_inv a b _
  · obtain ⟨a, b⟩ := setMode_inv this.1 this.2 cn.id res.err
    exact arm_inv a b _ _

theorem stepEv_inv {srv : Server} (h : WFc srv) (hN : NoLeak srv) (cfg : Config) (e : Event) :
    WFc (stepEv cfg srv e).1 ∧ NoLeak (stepEv cfg srv e).1 := by
  cases e with
  | «open» c ip =>
    simp only [stepEv]
    cases hf : findConn srv c with
    | some cn => exact ⟨h, hN⟩
    | none => exact ⟨h.addConnection c ip hf, hN.mono fun x hx => hx⟩
  | close c => exact closeConn_inv h hN c
  | expire sid => exact ⟨h.endSession sid, hN.endSession sid⟩
  | frame c => exact nonRequest_inv h hN c true
  | response c => exact nonRequest_inv h hN c false
  | silence => exact silence_inv h hN
  | req c r =>
    simp only [stepEv]
    cases hf : findConn srv c with
    | none => exact ⟨h, hN⟩
    | some cn => exact handleRequest_inv h hN cfg (findConn_some_mem hf).1 r

/-- the invariant holds after every history -/
theorem run_inv {srv : Server} (h : WFc srv) (hN : NoLeak srv) (cfg : Config) (evs : List Event) :
    WFc (run cfg srv evs).1 ∧ NoLeak (run cfg srv evs).1 := by
  induction evs generalizing srv with
  | nil => exact ⟨h, hN⟩
  | cons e es ih =>
    simp only [run]
    obtain ⟨h1, h2⟩ := stepEv_inv h hN cfg e
    exact ih h1 h2


/-! ### an answer without error keeps the connection open -/

theorem endSession_conns_mem {srv : Server} {sid : Nat} {ss : Session} (hf : findSession srv sid = some ss)
    {x : Conn} (hx : x ∈ srv.conns) (hn : x.id ∉ ss.conns) : x ∈ (endSession srv sid).conns := by
  unfold endSession
  rw [hf]
  exact List.mem_filter.mpr ⟨hx, by simpa using hn⟩

theorem runInSessionWith_keeps {srv : Server} (h : WFc srv) (cfg : Config) {ss : Session} {cn : Conn} (r : Request)
    (hm : ss ∈ srv.sessions) (hcn : cn ∈ srv.conns) (hl : cn.sess = none ∨ cn.sess = some ss.id) :
    ∃ x ∈ (runInSessionWith cfg srv cn.id ss r).1.conns, x.id = cn.id := by
  have hid := sessHandle_id cfg ss cn.id r
  have hco := sessHandle_conns cfg ss cn.id r
  unfold runInSessionWith
  dsimp only
  split
  · rename_i hend
    simp only [hend, if_true] at hco
    rw [addConn_erase (h.sconnNodup ss hm)] at hco
    have hw := h.detach hm hcn hl hid hco
    have hmem : (sessHandle cfg ss cn.id r).ss ∈
        (setConnSess (putSession srv (sessHandle cfg ss cn.id r).ss) cn.id none).sessions :=
      (mem_map_repl h hm hid).mpr (Or.inl rfl)
    have hf := findSession_of_mem hw hmem
    rw [hid] at hf
    refine ⟨relink cn.id none cn, ?_, relink_id _ _ _⟩
    apply endSession_conns_mem hf (List.mem_map.mpr ⟨cn, hcn, rfl⟩)
    have hrid : (relink cn.id none cn).id = cn.id := relink_id _ _ _
    show (relink cn.id none cn).id ∉ (sessHandle cfg ss cn.id r).ss.conns
    rw [hrid, hco]
    exact fun hin => ((h.sconnNodup ss hm).mem_erase_iff.mp hin).1 rfl
  · exact ⟨relink cn.id (some ss.id) cn, List.mem_map.mpr ⟨cn, hcn, rfl⟩, relink_id _ _ _⟩

theorem runInSession_keeps {srv : Server} (h : WFc srv) (cfg : Config) {ss : Session} {cn : Conn} (r : Request)
    (hm : ss ∈ srv.sessions) (hcn : cn ∈ srv.conns) (hl : cn.sess = none ∨ cn.sess = some ss.id) :
    ∃ x ∈ (runInSession cfg srv cn.id ss r).1.conns, x.id = cn.id :=
  runInSessionWith_keeps h cfg _ hm hcn hl

theorem inSession_keeps {srv : Server} (h : WFc srv) (cfg : Config) {cn : Conn}
    (hcn : cn ∈ srv.conns) (r : Request) (create : Bool) :
    ∃ x ∈ (inSession cfg srv cn r create).1.conns, x.id = cn.id := by
  unfold inSession
  cases hs : cn.sess with
  | none =>
    simp only
    cases hl : lookupSid srv r.sid with
    | some ss =>
      simp only
      have hm : ss ∈ srv.sessions := by
        unfold lookupSid at hl
        split at hl
        · exact (findSession_some_mem hl).1
        · cases hl
      split
      · exact ⟨cn, hcn, rfl⟩
      · exact runInSession_keeps h cfg r hm hcn (Or.inl hs)
    | none =>
      simp only
      split
      · exact ⟨cn, hcn, rfl⟩
      · rw [runInSession_create_eq]
        have hw := h.addSession { id := srv.nextSid, authorIp := cn.ip, conns := [] } rfl rfl
          (srv.log ++ [.sessOpen srv.nextSid])
        exact runInSession_keeps hw cfg r (List.mem_append.mpr (Or.inr (by simp))) hcn (Or.inl hs)
  | some cur =>
    simp only
    split
    · exact ⟨cn, hcn, rfl⟩
    · cases hf : findSession srv cur with
      | none => exact ⟨cn, hcn, rfl⟩
      | some ss =>
        obtain ⟨hm, hid⟩ := findSession_some_mem hf
        exact runInSession_keeps h cfg r hm hcn (Or.inr (by rw [hs, hid]))

theorem connInner_keeps {srv : Server} (h : WFc srv) (cfg : Config) {cn : Conn}
    (hcn : cn ∈ srv.conns) (r : Request) : ∃ x ∈ (connInner cfg srv cn r).1.conns, x.id = cn.id := by
  unfold connInner
  repeat' split
  all_goals first | exact ⟨cn, hcn, rfl⟩ | exact inSession_keeps h cfg hcn r _

/-- the connection is closed after the response **iff** the request ended in an error -/
theorem conn_closed_iff_error {srv : Server} (h : WFc srv) (cfg : Config) {cn : Conn}
    (hcn : cn ∈ srv.conns) (r : Request) :
    findConn (handleRequest cfg srv cn r).1 cn.id = none ↔ (handleRequest cfg srv cn r).2.err = .fail := by
  constructor
  · intro hnone
    have hk := connInner_keeps h cfg hcn r
    unfold handleRequest at hnone ⊢
    split at hnone
    rename_i srv1 res heq
    rw [heq] at hk
    dsimp only at hnone ⊢
    split
    · rename_i hf; simpa using hf
    · rename_i hf
      simp only [hf] at hnone
      obtain ⟨x, hx, hxid⟩ := hk
      obtain ⟨y, hy, hyid⟩ := setMode_keeps srv1 cn.id res.err hx
      obtain ⟨z, hz, hzid⟩ := arm_keeps srv (setMode srv1 cn.id res.err) cn.id hy
      exact absurd (hzid.trans (hyid.trans hxid)) (findConn_none_iff.mp hnone z hz)
  · exact handleRequest_fail_closes cfg srv cn r

end Rtsp.Sess
