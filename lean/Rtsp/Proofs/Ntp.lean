import Rtsp.Model.Ntp
/-
Lemmas about the `Ntp` model (core Lean only).
-/
namespace Rtsp.Ntp

theorem nanos_eq : nanos = 1000000000 := rfl
theorem off_enc_eq : Facts.Time.ntpEpochOffsetEnc = 2208988800 := rfl
theorem off_dec_eq : Facts.Time.ntpEpochOffsetDec = 2208988800 := rfl

/-- `a·2^32 | b = a·2^32 + b` for `b < 2^32` -/
theorem shl_or (a b : Nat) (hb : b < 4294967296) : (a * 4294967296) ||| b = a * 4294967296 + b := by
  have h := Nat.shiftLeft_add_eq_or_of_lt (i := 32) (b := b) (by omega) a
  rw [Nat.shiftLeft_eq] at h
  have e : (2 : Nat) ^ 32 = 4294967296 := by decide
  rw [e] at h
  exact h.symm

/-- the fractional field never reaches 2^32: the `|` in `Encode` is an addition -/
theorem encFrac_lt (n : Nat) (hn : n < 1000000000) : encFrac n ≤ 4294967292 := by
  unfold encFrac roundDiv
  rw [nanos_eq]
  unfold two32
  omega

/-- Decode's nanoseconds applied to Encode's fraction: `n` or `n − 1` -/
theorem frac_roundtrip (n : Nat) :
    n ≤ (encFrac n * 1000000000) / 4294967296 + 1 ∧ (encFrac n * 1000000000) / 4294967296 ≤ n := by
  unfold encFrac roundDiv
  rw [nanos_eq]
  unfold two32
  omega

/-- Encode's fraction applied to Decode's nanoseconds: at most 4 units of 2^-32 s below -/
theorem nanos_roundtrip (f : Nat) :
    f ≤ encFrac ((f * 1000000000) / 4294967296) + 4 ∧ encFrac ((f * 1000000000) / 4294967296) ≤ f := by
  unfold encFrac roundDiv
  rw [nanos_eq]
  unfold two32
  omega

/-- `Encode` written with `+`, for instants of NTP era 0 -/
theorem encode_eq (t : Int) (hlo : -2208988800000000000 ≤ t) (hhi : t < 2085978496000000000) :
    encode t = ((t + 2208988800000000000).toNat / 1000000000) * 4294967296
               + encFrac ((t + 2208988800000000000).toNat % 1000000000) := by
  have hN : ntpNanos t = (t + 2208988800000000000).toNat := by
    unfold ntpNanos toU64
    rw [nanos_eq, off_enc_eq]
    unfold two64
    omega
  unfold encode
  simp only [hN, nanos_eq]
  have hs : (t + 2208988800000000000).toNat / 1000000000 < 4294967296 := by omega
  have hf := encFrac_lt ((t + 2208988800000000000).toNat % 1000000000) (Nat.mod_lt _ (by decide))
  have hm : ((t + 2208988800000000000).toNat / 1000000000 * two32) % two64
      = (t + 2208988800000000000).toNat / 1000000000 * 4294967296 := by
    unfold two32 two64; omega
  rw [hm, shl_or _ _ (by omega)]

/-- `Decode (Encode t)` is `t` or `t − 1 ns`, for every instant of NTP era 0
(1900-01-01 00:00:00 ≤ t < 2036-02-07 06:28:16 UTC) -/
theorem decode_encode (t : Int) (hlo : -2208988800000000000 ≤ t) (hhi : t < 2085978496000000000) :
    t - 1 ≤ decode (encode t) ∧ decode (encode t) ≤ t := by
  rw [encode_eq t hlo hhi]
  generalize hN : (t + 2208988800000000000).toNat = N
  have hNt : (N : Int) = t + 2208988800000000000 := by omega
  have hf := encFrac_lt (N % 1000000000) (Nat.mod_lt _ (by decide))
  have hr := frac_roundtrip (N % 1000000000)
  generalize encFrac (N % 1000000000) = f at hf hr
  unfold decode decSecs decNanos
  rw [nanos_eq, off_dec_eq]
  unfold two32
  have h1 : (N / 1000000000 * 4294967296 + f) / 4294967296 = N / 1000000000 := by omega
  have h2 : (N / 1000000000 * 4294967296 + f) % 4294967296 = f := by omega
  rw [h1, h2]
  omega

/-- `Encode (Decode v)` has the seconds of `v` and a fraction at most 4 units (0.93 ns) below —
for every 64-bit value `v` -/
theorem encode_decode (v : Nat) (hv : v < 18446744073709551616) :
    encode (decode v) ≤ v ∧ v ≤ encode (decode v) + 4 ∧
    encode (decode v) / 4294967296 = v / 4294967296 := by
  have hr := nanos_roundtrip (v % 4294967296)
  have hdlo : -2208988800000000000 ≤ decode v := by
    unfold decode decSecs decNanos; rw [nanos_eq, off_dec_eq]; unfold two32; omega
  have hdhi : decode v < 2085978496000000000 := by
    unfold decode decSecs decNanos; rw [nanos_eq, off_dec_eq]; unfold two32; omega
  rw [encode_eq _ hdlo hdhi]
  have hN : (decode v + 2208988800000000000).toNat
      = (v / 4294967296) * 1000000000 + (v % 4294967296 * 1000000000) / 4294967296 := by
    unfold decode decSecs decNanos; rw [nanos_eq, off_dec_eq]; unfold two32; omega
  rw [hN]
  have h1 : ((v / 4294967296) * 1000000000 + (v % 4294967296 * 1000000000) / 4294967296) / 1000000000
      = v / 4294967296 := by omega
  have h2 : ((v / 4294967296) * 1000000000 + (v % 4294967296 * 1000000000) / 4294967296) % 1000000000
      = (v % 4294967296 * 1000000000) / 4294967296 := by omega
  rw [h1, h2]
  generalize encFrac ((v % 4294967296 * 1000000000) / 4294967296) = f' at hr
  omega

/-- `Encode t` is the 32.32 fixed-point value nearest to the NTP time of `t`:
`|Encode t · 10^9 − (t + offset) · 2^32| ≤ 10^9 / 2` -/
theorem encode_nearest (t : Int) (hlo : -2208988800000000000 ≤ t) (hhi : t < 2085978496000000000) :
    2 * ((encode t : Int) * 1000000000 - (t + 2208988800000000000) * 4294967296) ≤ 1000000000 ∧
    -1000000000 ≤ 2 * ((encode t : Int) * 1000000000 - (t + 2208988800000000000) * 4294967296) := by
  rw [encode_eq t hlo hhi]
  generalize hN : (t + 2208988800000000000).toNat = N
  have hNt : (N : Int) = t + 2208988800000000000 := by omega
  rw [← hNt]
  unfold encFrac roundDiv
  rw [nanos_eq]
  unfold two32
  omega

/-- `Decode v` is the NTP value `v` in Unix nanoseconds, rounded down:
`0 ≤ v · 10^9 − (Decode v + offset) · 2^32 < 2^32` -/
theorem decode_floor (v : Nat) :
    0 ≤ (v : Int) * 1000000000 - (decode v + 2208988800000000000) * 4294967296 ∧
    (v : Int) * 1000000000 - (decode v + 2208988800000000000) * 4294967296 < 4294967296 := by
  unfold decode decSecs decNanos
  rw [nanos_eq, off_dec_eq]
  unfold two32
  omega

end Rtsp.Ntp
