import Rtsp.Proofs.FrameWF
import Rtsp.Proofs.FrameMono
/-
Round-trip lemmas, part 1: tokens, decimal numbers, header block.
-/
namespace Rtsp.Frame
open Rtsp.Facts.Frame

theorem readLim_token (d : UInt8) : ∀ (t : Bytes) (n : Nat) (rest : Bytes),
    d ∉ t → t.length < n → readLim d n (t ++ d :: rest) = .ok t rest := by
  intro t
  induction t with
  | nil =>
    intro n rest _ hn
    cases n with
    | zero => omega
    | succ n => simp [readLim]
  | cons b t ih =>
    intro n rest hd hn
    cases n with
    | zero => simp at hn
    | succ n =>
      have hb : b ≠ d := fun e => hd (by simp [e])
      have ht : d ∉ t := fun e => hd (by simp [e])
      simp only [List.length_cons] at hn
      simp [readLim, hb, ih n rest ht (by omega)]

theorem readLimSC_token : ∀ (t : Bytes) (n : Nat) (d : UInt8) (rest : Bytes),
    SP ∉ t → CR ∉ t → (d = SP ∨ d = CR) → t.length < n →
    readLimSC n (t ++ d :: rest) = .ok (t, d) rest := by
  intro t
  induction t with
  | nil =>
    intro n d rest _ _ hd hn
    cases n with
    | zero => omega
    | succ n => simp [readLimSC, hd]
  | cons b t ih =>
    intro n d rest hs hc hd hn
    cases n with
    | zero => simp at hn
    | succ n =>
      have hb : ¬(b = SP ∨ b = CR) := by
        intro e; rcases e with e | e
        · exact hs (by simp [e])
        · exact hc (by simp [e])
      simp only [List.length_cons] at hn
      simp [readLimSC, hb, ih n d rest (fun e => hs (by simp [e])) (fun e => hc (by simp [e])) hd (by omega)]

theorem readFull_append (b rest : Bytes) : readFull b.length (b ++ rest) = .ok b rest := by
  simp [readFull]

theorem readFull_append' (n : Nat) (b rest : Bytes) (h : b.length = n) : readFull n (b ++ rest) = .ok b rest := by
  subst h; exact readFull_append b rest

theorem skipSpaces_nonspace (bs : Bytes) (h : bs.head? ≠ some SP) (hne : bs ≠ []) : skipSpaces bs = .ok () bs := by
  cases bs with
  | nil => exact absurd rfl hne
  | cons b r =>
    have : b ≠ SP := fun e => h (by simp [e])
    simp [skipSpaces, this]

/-! ### decimal numbers -/

def valRev : Bytes → Nat
  | [] => 0
  | c :: r => (c.toNat - 48) + 10 * valRev r

theorem digitsVal_append (l : Bytes) : ∀ (acc : Nat) (c : UInt8),
    digitsVal acc (l ++ [c]) = digitsVal acc l * 10 + (c.toNat - 48) := by
  induction l with
  | nil => intro acc c; rfl
  | cons b r ih =>
    intro acc c
    show digitsVal (acc * 10 + (b.toNat - 48)) (r ++ [c]) = digitsVal (acc * 10 + (b.toNat - 48)) r * 10 + (c.toNat - 48)
    exact ih _ c

theorem digitsVal_reverse (l : Bytes) : digitsVal 0 l.reverse = valRev l := by
  induction l with
  | nil => rfl
  | cons b r ih => simp only [List.reverse_cons, digitsVal_append, ih, valRev]; omega

theorem digit_toNat (d : Nat) (h : d < 10) : ((48 + d).toUInt8).toNat = 48 + d := by
  rw [Nat.toUInt8_eq, UInt8.toNat_ofNat']; omega

theorem isDigit_digit (d : Nat) (h : d < 10) : isDigit (48 + d).toUInt8 = true := by
  have := digit_toNat d h
  have h1 : (48 : UInt8) ≤ (48 + d).toUInt8 := by rw [UInt8.le_iff_toNat_le, this]; simp
  have h2 : (48 + d).toUInt8 ≤ (57 : UInt8) := by rw [UInt8.le_iff_toNat_le, this]; simp; omega
  simp only [isDigit, h1, h2, decide_true, Bool.and_self]

theorem decRev_spec : ∀ (f n : Nat), n < 10 ^ f →
    valRev (decRev f n) = n ∧ (decRev f n).all isDigit = true ∧ (decRev f n).length ≤ f ∧ (0 < f → decRev f n ≠ []) := by
  intro f
  induction f with
  | zero => intro n h; simp at h; subst h; simp [decRev, valRev]
  | succ f ih =>
    intro n h
    have hd : n % 10 < 10 := Nat.mod_lt _ (by omega)
    by_cases h0 : n / 10 = 0
    · simp only [decRev, h0, if_true, valRev, digit_toNat _ hd]
      refine ⟨by omega, by simp only [List.all_cons, isDigit_digit _ hd, List.all_nil, Bool.and_self], by simp, by simp⟩
    · have hlt : n / 10 < 10 ^ f := by
        rw [Nat.div_lt_iff_lt_mul (by omega)]; rw [Nat.pow_succ] at h; exact h
      have := ih (n / 10) hlt
      simp only [decRev, h0, if_false, valRev, digit_toNat _ hd, this.1]
      refine ⟨by omega, by simp only [List.all_cons, isDigit_digit _ hd, this.2.1, Bool.and_self], by simp; exact this.2.2.1, by simp⟩

theorem lt_ten_pow_succ (n : Nat) : n < 10 ^ (n + 1) := by
  have : n < 2 ^ n := Nat.lt_two_pow_self
  calc n < 2 ^ n := this
    _ ≤ 10 ^ n := Nat.pow_le_pow_left (by omega) n
    _ ≤ 10 ^ (n + 1) := Nat.pow_le_pow_right (by omega) (by omega)

theorem toDec_ne_nil (n : Nat) : toDec n ≠ [] := by
  have := (decRev_spec (n + 1) n (lt_ten_pow_succ n)).2.2.2 (by omega)
  simpa [toDec] using this

theorem toDec_all_digits (n : Nat) : (toDec n).all isDigit = true := by
  have := (decRev_spec (n + 1) n (lt_ten_pow_succ n)).2.1
  simpa [toDec] using this

theorem digitsVal_toDec (n : Nat) : digitsVal 0 (toDec n) = n := by
  rw [toDec, digitsVal_reverse]; exact (decRev_spec (n + 1) n (lt_ten_pow_succ n)).1

theorem parseUint_toDec (bits n : Nat) (h : n < 2 ^ bits) : parseUint bits (toDec n) = some n := by
  simp [parseUint, toDec_ne_nil, toDec_all_digits, digitsVal_toDec, h]

/-- fuel does not matter once it covers the digits -/
theorem decRev_fuel : ∀ (f g n : Nat), n < 10 ^ (f + 1) → n < 10 ^ (g + 1) → decRev (f + 1) n = decRev (g + 1) n := by
  intro f
  induction f with
  | zero =>
    intro g n h _
    have : n / 10 = 0 := by simp at h; omega
    simp [decRev, this]
  | succ f ih =>
    intro g n hf hg
    by_cases h0 : n / 10 = 0
    · simp [decRev, h0]
    · have h1 : n / 10 < 10 ^ (f + 1) := by
        rw [Nat.div_lt_iff_lt_mul (by omega)]; rw [Nat.pow_succ] at hf; exact hf
      cases g with
      | zero => simp at hg; omega
      | succ g =>
        have h2 : n / 10 < 10 ^ (g + 1) := by
          rw [Nat.div_lt_iff_lt_mul (by omega)]; rw [Nat.pow_succ] at hg; exact hg
        have := ih g (n / 10) h1 h2
        have e : ∀ f n, decRev (f + 1) n = (48 + n % 10).toUInt8 :: (if n / 10 = 0 then [] else decRev f (n / 10)) :=
          fun _ _ => rfl
        rw [e (f + 1) n, e (g + 1) n]
        simp only [h0, if_false, this]

theorem toDec_length_le (n k : Nat) (hk : n < 10 ^ (k + 1)) : (toDec n).length ≤ k + 1 := by
  have h1 := decRev_fuel n k n (lt_ten_pow_succ n) hk
  have h2 := (decRev_spec (k + 1) n hk).2.2.1
  simp [toDec, h1, h2]

theorem not_digit_of (c : UInt8) (l : Bytes) (hl : l.all isDigit = true) (hc : isDigit c = false) : c ∉ l := by
  intro hm
  have := List.all_eq_true.mp hl c hm
  simp [hc] at this

end Rtsp.Frame
