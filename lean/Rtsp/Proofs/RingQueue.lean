import Rtsp.Proofs.RingRefine
import Rtsp.Proofs.FifoProps
/-
The queue properties of the ring, obtained from the refinement (`run_refines`) and the properties of
the bounded FIFO specification.
-/
namespace Rtsp.Ring
open Rtsp.Fifo (accepted pulled pushes noCloseReset noReset)
variable {α : Type}

theorem run_results_eq {r : Ring α} (hr : RingInv r) (ops : List (Op α)) :
    (run r ops).2 = (Fifo.run (abs r) ops).2 := by rw [(run_refines hr ops).2]

theorem run_abs_eq {r : Ring α} (hr : RingInv r) (ops : List (Op α)) :
    abs (run r ops).1 = (Fifo.run (abs r) ops).1 := by rw [(run_refines hr ops).2]

/-- **FIFO order, no loss, no duplication** (from any reachable open state, any operation sequence
without close/reset): held ++ accepted = pulled ++ still held. -/
theorem fifo_order_from {r : Ring α} (hr : RingInv r) (hc : r.closed = false) (ops : List (Op α))
    (hops : noCloseReset ops) :
    absItems r ++ accepted ops (run r ops).2 = pulled (run r ops).2 ++ absItems (run r ops).1 := by
  have := Fifo.conservation (abs r) ops hc hops
  rw [← run_results_eq hr, ← run_abs_eq hr] at this
  exact this

/-- from `New`: the accepted items are exactly the pulled items, in the same order, followed by
the items still held -/
theorem fifo_order {size : Nat} (h : 0 < size) (ops : List (Op α)) (hops : noCloseReset ops) :
    accepted ops (run (new size) ops).2 =
      pulled (run (new size) ops).2 ++ absItems (run (new size) ops).1 := by
  have := fifo_order_from (ringInv_new (α := α) h) rfl ops hops
  rwa [absItems_of_inv (inv_new size h), List.nil_append] at this

/-- with close/reset anywhere: what is pulled is a subsequence of what was accepted -/
theorem pulled_sublist_accepted {size : Nat} (h : 0 < size) (ops : List (Op α)) :
    (pulled (run (new size) ops).2).Sublist (accepted ops (run (new size) ops).2) := by
  have := Fifo.pulled_sublist (abs (new (α := α) size)) ops
  rw [← run_results_eq (ringInv_new h)] at this
  have e : (abs (new (α := α) size)).items = [] := by rw [abs_new h]; rfl
  rwa [e, List.nil_append] at this

/-- **accounting** for any operation sequence (Close / Reset anywhere): every accepted item is —
exactly once — pulled, or discarded by a Close / Reset, or still held -/
theorem accounting {size : Nat} (h : 0 < size) (ops : List (Op α)) :
    (accepted ops (run (new size) ops).2).Perm
      (pulled (run (new size) ops).2 ++
        (Fifo.discarded (Fifo.new size) ops ++ absItems (run (new size) ops).1)) := by
  have := Fifo.accounting (Fifo.new (α := α) size) ops
  rw [run_new_refines h] at this
  simpa [Fifo.new, abs] using this

/-- **each accepted item is pulled at most once**: if the offered items are pairwise distinct, so
are the pulled ones (and every pulled item was offered and accepted) -/
theorem executed_at_most_once {size : Nat} (h : 0 < size) (ops : List (Op α)) (hd : (pushes ops).Nodup) :
    (pulled (run (new size) ops).2).Nodup :=
  ((pulled_sublist_accepted h ops).trans (Fifo.accepted_sublist ops _)).nodup hd

/-- **nothing after close**: after a `Close`, and until a `Reset`, no `Pull` returns an item —
whatever is pushed in between -/
theorem nothing_after_close {r : Ring α} (hr : RingInv r) (ops1 ops2 : List (Op α)) (h2 : noReset ops2) :
    pulled (run r (ops1 ++ .close :: ops2)).2 = pulled (run r ops1).2 := by
  rw [run_results_eq hr, run_results_eq hr, Fifo.run_append, Fifo.pulled_append, Fifo.run_cons]
  have := Fifo.closed_run (Fifo.step (Fifo.run (abs r) ops1).1 Op.close).1 ops2 rfl h2
  have e : ∀ q : Fifo.Fifo α, (Fifo.step q Op.close).2 = Res.done := fun _ => rfl
  rw [e]
  simp only [Fifo.pulled, this.1, List.append_nil]

/-- the ring never holds more than `size` items, in any reachable state -/
theorem never_over_capacity {size : Nat} (h : 0 < size) (ops : List (Op α)) :
    (absItems (run (new size) ops).1).length ≤ size := by
  have := abs_length_le (ringInv_run (α := α) h ops)
  have hs : (run (new (α := α) size) ops).1.size = size := by
    have := (Fifo.bounded (Fifo.new (α := α) size) ops (Nat.zero_le _)).2
    rw [run_new_refines h] at this
    exact this
  rw [hs] at this; exact this

end Rtsp.Ring
