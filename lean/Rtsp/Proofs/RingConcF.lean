import Rtsp.Proofs.RingConcE
/-
Lock-acquisition order = critical-section order, and the summary theorem about histories.
-/
namespace Rtsp.RingConc
open Rtsp.Ring
variable {α : Type}

/-- the critical section the current mutex owner is about to execute (none after `cond.Wait()`
re-acquired the mutex: that owner only unlocks) -/
def pending (s : State α) : List (Tid × Op α) :=
  match s.owner with
  | some (.prod i) => (match s.prod i with | .locked x => [(.prod i, .push x)] | _ => [])
  | some .cons => (match s.cons with | .locked => [(.cons, .pull)] | _ => [])
  | some .closer => (match s.closer with | .locked => [(.closer, .close)] | _ => [])
  | none => []

/-- the sequence of lock acquisitions that start a critical section is the sequence of executed
critical sections, plus the one in progress -/
def AcqInv (s : State α) : Prop := s.acq = s.log.map (fun e => (e.tid, e.op)) ++ pending s

theorem acqInv_init (size : Nat) : AcqInv (init (α := α) size) := rfl

theorem pending_none {s : State α} (h : s.owner = none) : pending s = [] := by simp only [pending, h]

theorem wake_locked_iff (c : CPc) : (match wake c with | .locked => [(Tid.cons, Op.pull (α := α))] | _ => []) =
    (match c with | .locked => [(Tid.cons, Op.pull)] | _ => []) := by cases c <;> rfl

theorem acqInv_step {s s' : State α} (a : Act α) (hi : OwnerInv s) (h : AcqInv s) (hs : step? s a = some s') :
    AcqInv s' := by
  unfold AcqInv at h ⊢
  -- broadcast steps: owner unchanged, only the consumer's pc may move from waiting to woken
  have bcastCase : ∀ (s2 : State α), s2.owner = s.owner → s2.cons = wake s.cons → s2.closer = s.closer →
      (∀ j, (s.prod j).holds = true → s2.prod j = s.prod j) → pending s2 = pending s := by
    intro s2 ho hc hk hp
    unfold pending
    rw [ho]
    cases hown : s.owner with
    | none => rfl
    | some t =>
      cases t with
      | prod j =>
        have := hi.prod j
        rw [hown] at this
        simp only [beq_self_eq_true] at this
        simp only [hp j this]
      | cons => simp only [hc]; exact wake_locked_iff _
      | closer => simp only [hk]
  cases a
  case prodLock i x =>
    step_cases hs
    rename_i hp ho
    have e' : pending { s with prod := setProd s.prod i (.locked x), owner := some (.prod i), acq := s.acq ++ [(.prod i, .push x)] } = [(.prod i, .push x)] := by
      simp only [pending, setProd, if_true]
    rw [e']; show s.acq ++ _ = _
    rw [h, pending_none ho, List.append_nil]
  case prodBody i =>
    step_cases hs
    rename_i x hp
    have ho : s.owner = some (.prod i) := by
      have := hi.prod i; rw [hp] at this; simpa using this.symm
    have hpend : pending s = [(.prod i, .push x)] := by simp only [pending, ho, hp]
    rw [pending_none rfl, List.append_nil]
    show s.acq = List.map _ (s.log ++ _)
    rw [h, hpend, List.map_append]; rfl
  case prodBcast i =>
    step_cases hs
    rename_i hp
    have e' := bcastCase { s with prod := setProd s.prod i .idle, cons := wake s.cons } rfl rfl rfl (fun j hj => by
      have : j ≠ i := by intro e; subst e; rw [hp] at hj; cases hj
      simp only [setProd, this, if_false])
    rw [e']; exact h
  case consLock =>
    step_cases hs
    rename_i hp ho
    have e' : pending { s with cons := .locked, owner := some .cons, acq := s.acq ++ [(.cons, .pull)] } = [(.cons, .pull)] := by
      simp only [pending]
    rw [e']; show s.acq ++ _ = _
    rw [h, pending_none ho, List.append_nil]
  case consBody =>
    step_cases hs
    rename_i hp
    have ho : s.owner = some .cons := by
      have := hi.cons; rw [hp] at this; simpa using this.symm
    have hpend : pending s = [(.cons, .pull)] := by simp only [pending, ho, hp]
    rw [pending_none rfl, List.append_nil]
    show s.acq = List.map _ (s.log ++ _)
    rw [h, hpend, List.map_append]; rfl
  case consReacq =>
    step_cases hs
    rename_i hp ho
    have e' : pending { s with cons := .relocked, owner := some .cons } = [] := by simp only [pending]
    rw [e']; show s.acq = _
    rw [h, pending_none ho]
  case consUnlock =>
    step_cases hs
    rename_i hp
    have ho : s.owner = some .cons := by
      have := hi.cons; rw [hp] at this; simpa using this.symm
    have hpend : pending s = [] := by simp only [pending, ho, hp]
    rw [pending_none rfl]; show s.acq = _
    rw [h, hpend]
  case closerLock =>
    step_cases hs
    rename_i hp ho
    have e' : pending { s with closer := .locked, owner := some .closer, acq := s.acq ++ [(.closer, .close)] } = [(.closer, .close)] := by
      simp only [pending]
    rw [e']; show s.acq ++ _ = _
    rw [h, pending_none ho, List.append_nil]
  case closerBody =>
    step_cases hs
    rename_i hp
    have ho : s.owner = some .closer := by
      have := hi.closer; rw [hp] at this; simpa using this.symm
    have hpend : pending s = [(.closer, .close)] := by simp only [pending, ho, hp]
    rw [pending_none rfl, List.append_nil]
    show s.acq = List.map _ (s.log ++ _)
    rw [h, hpend, List.map_append]; rfl
  case closerBcast =>
    step_cases hs
    rename_i hp
    have hown : s.owner ≠ some .closer := by
      intro e
      have := hi.closer; rw [hp, e] at this; simp at this
    have : pending { s with closer := KPc.idle, cons := wake s.cons } = pending s := by
      unfold pending
      cases ho : s.owner with
      | none => rfl
      | some t =>
        cases t with
        | prod j => rfl
        | cons => simp only; exact wake_locked_iff _
        | closer => exact absurd ho hown
    rw [this]; exact h

theorem acqInv_reachable {size : Nat} {s : State α} (h : Reachable size s) : AcqInv s := by
  induction h with
  | init => exact acqInv_init size
  | step a hr hs ih => exact acqInv_step a (ownerInv_reachable hr) ih hs

/-- **lock-acquisition order = execution order**: whenever the mutex is free, the critical sections
have been executed exactly in the order in which their threads acquired the mutex -/
theorem acq_order {size : Nat} {s : State α} (h : Reachable size s) (ho : s.owner = none) :
    s.acq = s.log.map (fun e => (e.tid, e.op)) := by
  have := acqInv_reachable h
  unfold AcqInv at this
  rw [this, pending_none ho, List.append_nil]

/-- **every concurrent history of the model is linearizable to the bounded FIFO**: the linearization
events of the history, in order, form a legal sequential history of the bounded FIFO of capacity
`size` with exactly the results the threads observed and end in the abstraction of the ring state;
and every thread's part of the history is call → lin → ret, so each linearization point lies inside
the interval of its own operation (which is what makes the sequential order respect real time). -/
theorem conc_history_linearizable {size : Nat} (hsize : 0 < size) {s : State α} {h : List (HEv α)}
    (hr : IReach size s h) :
    Fifo.run (Fifo.new size) ((lins h).map (·.op)) = (Ring.abs s.ring, (lins h).map (·.res)) ∧
    ∀ t, WF t h (phase s t) := by
  refine ⟨?_, wf_reach hr⟩
  rw [lins_eq_log hr]
  exact (conc_linearizable hsize hr.reachable).2.1

end Rtsp.RingConc
