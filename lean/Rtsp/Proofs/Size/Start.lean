import Rtsp.Model.SizeGuard
import Rtsp.Proofs.Size.Pow2
/-
C18 helper lemmas: `Client.Start` / `Server.Start` size checks.
-/
namespace Rtsp.Size
open Rtsp.Facts.Size

/-- the configuration is refused -/
def StartRejects (limit : Nat) (wq : BitVec 64) (max : Int) : Prop :=
  (wq ≠ 0 ∧ wq &&& (wq - 1) ≠ 0) ∨ (limit : Int) < max

theorem start_none_iff (defWq defMax limit : Nat) (wq : BitVec 64) (max : Int) :
    start true defWq defMax limit wq max = none ↔ StartRejects limit wq max := by
  unfold start StartRejects
  by_cases h0 : wq = 0#64
  · subst h0
    by_cases hm : (limit : Int) < max
    · have : max ≠ 0 := by omega
      simp [hm, this]
    · simp [hm]
  · by_cases hp : wq &&& (wq - 1#64) = 0#64
    · by_cases hm : (limit : Int) < max
      · have : max ≠ 0 := by omega
        simp [h0, hp, hm, this]
      · simp [h0, hp, hm]
    · simp [h0, hp]

theorem start_some_iff (defWq defMax limit : Nat) (wq : BitVec 64) (max : Int) (r : BitVec 64 × Int) :
    start true defWq defMax limit wq max = some r ↔
      ¬ StartRejects limit wq max ∧
      r = (if wq = 0 then BitVec.ofNat 64 defWq else wq, if max = 0 then (defMax : Int) else max) := by
  unfold start StartRejects
  by_cases h0 : wq = 0#64
  · subst h0
    by_cases hm : (limit : Int) < max
    · have : max ≠ 0 := by omega
      simp [hm, this]
    · have hm' : max ≤ (limit : Int) := by omega
      by_cases hz : max = 0
      · subst hz; simp; exact eq_comm
      · simp [hm, hm', hz]; exact eq_comm
  · by_cases hp : wq &&& (wq - 1#64) = 0#64
    · by_cases hm : (limit : Int) < max
      · have : max ≠ 0 := by omega
        simp [h0, hp, hm, this]
      · have hm' : max ≤ (limit : Int) := by omega
        by_cases hz : max = 0
        · subst hz; simp [h0, hp]; exact eq_comm
        · simp [h0, hp, hm, hm', hz]; exact eq_comm
    · simp [h0, hp]

theorem clientStart_eq (wq : BitVec 64) (max : Int) : clientStart wq max = start true 256 1472 1472 wq max := rfl
theorem serverStart_eq (wq : BitVec 64) (max : Int) : serverStart wq max = start true 256 1472 1472 wq max := rfl

/-- a non-zero bit pattern passes the bit trick exactly when it is a single bit -/
theorem bitTrick_iff (wq : BitVec 64) (h0 : wq ≠ 0) : wq &&& (wq - 1) = 0 ↔ ∃ k, k < 64 ∧ wq.toNat = 2 ^ k := by
  have := pow2_iff_bv wq
  constructor
  · intro h; exact this.mp ⟨h, h0⟩
  · intro h; exact (this.mpr h).1

end Rtsp.Size
