import Rtsp.Proofs.Size.Rtp
/-
C18 helper lemmas: per write path, what an accepted write hands to the transport.
-/
namespace Rtsp.Size
open Rtsp.Facts.Size

/-- Which MKI lengths can occur on a path.  The client's outbound context carries the Axis MKI in
client-managed-keys mode (any length is allowed here); contexts made by the server
(`server_session.go`, `server_stream_media.go`) never get one — facts `sessionOutMkiSites = 0`,
`streamOutMkiSites = 0`. -/
def Path.mkiOk : Path → Option Nat → Prop
  | .client, _ => True
  | _, ctx => ctxMki ctx = 0

/-- the property on one transport write -/
def WireOk (max : Nat) : Wire → Prop
  | .nothing => True
  | .datagram n => n ≤ max
  | .frame declared written => declared ≤ max ∧ written = declared

/-- the encrypted-or-plain size a packet of plain size `n` has for this destination -/
def Path.wire : Path → Option Nat → (growth : Option Nat → Nat) → Nat → Nat
  | .stream false, _, _, n => n
  | .stream true, none, _, _ => 0      -- a reader with SRTP on a stream without context gets the nil slice
  | _, ctx, g, n => n + g ctx

theorem own_sent {e : Enc} {w : Nat} (h : e.own = .sent w) :
    ∃ n x, e = .ok n x ∧ w = (match x with | none => n | some k => k) := by
  cases e with
  | err => simp [Enc.own] at h
  | panic => simp [Enc.own] at h
  | ok n x =>
    cases x with
    | none => simp [Enc.own] at h; exact ⟨n, none, rfl, by simp [h]⟩
    | some k => simp [Enc.own] at h; exact ⟨n, some k, rfl, by simp [h]⟩

theorem reader_sent {e : Enc} {rs : Bool} {w : Nat} (h : e.reader rs = .sent w) :
    ∃ n x, e = .ok n x ∧
      w = (if rs then (match x with | none => 0 | some k => k) else n) := by
  cases e with
  | err => simp [Enc.reader] at h
  | panic => simp [Enc.reader] at h
  | ok n x =>
    cases x with
    | none =>
      cases rs <;> simp [Enc.reader] at h <;> exact ⟨n, none, rfl, by simp [h]⟩
    | some k =>
      cases rs <;> simp [Enc.reader] at h <;> exact ⟨n, some k, rfl, by simp [h]⟩

/-! #### RTP -/

theorem client_rtp_sent {max : Nat} {ctx : Option Nat} {p : RtpShape} {w : Nat}
    (h : clientWriteRtp max ctx p = .sent w) :
    wellFormed p = true ∧ w = rtpMarshalSize p + rtpGrowth ctx ∧ w ≤ max := by
  unfold clientWriteRtp writeRtp at h
  obtain ⟨n, x, he, hw⟩ := own_sent h
  obtain ⟨_, hwf, hn, hle, hx⟩ := encodeRtp_ok he
  have c1 : clientRtpOverhead = 10 := rfl
  have c2 : clientRtpCountsMki = true := rfl
  have c3 : authTagRtpLen = 10 := rfl
  cases ctx with
  | none =>
    simp at hx; subst hx
    rw [plainLimit_none] at hle
    simp at hw
    refine ⟨hwf, ?_, ?_⟩ <;> (try simp only [rtpGrowth]) <;> omega
  | some m =>
    simp at hx; subst hx
    rw [plainLimit_some] at hle; simp only [c1, c2, if_true] at hle
    simp [srtpLen, c3] at hw
    refine ⟨hwf, ?_, ?_⟩ <;> (try simp only [rtpGrowth, c3]) <;> omega

theorem server_rtp_own_sent {max ov : Nat} {ctx : Option Nat} {p : RtpShape} {w : Nat}
    (hov : ov = 10) (hm : ctxMki ctx = 0)
    (h : (encodeRtp max ov false ctx p).own = .sent w) :
    wellFormed p = true ∧ w = rtpMarshalSize p + rtpGrowth ctx ∧ w ≤ max := by
  obtain ⟨n, x, he, hw⟩ := own_sent h
  obtain ⟨_, hwf, hn, hle, hx⟩ := encodeRtp_ok he
  have c3 : authTagRtpLen = 10 := rfl
  cases ctx with
  | none =>
    simp at hx; subst hx
    rw [plainLimit_none] at hle
    simp at hw
    refine ⟨hwf, ?_, ?_⟩ <;> (try simp only [rtpGrowth]) <;> omega
  | some m =>
    simp [ctxMki] at hm; subst hm
    simp at hx; subst hx
    rw [plainLimit_some] at hle; simp only [hov] at hle
    simp [srtpLen, c3] at hw
    refine ⟨hwf, ?_, ?_⟩ <;> (try simp only [rtpGrowth, c3]) <;> omega

theorem stream_rtp_sent {max : Nat} {ctx : Option Nat} {rs : Bool} {p : RtpShape} {w : Nat}
    (hm : ctxMki ctx = 0) (h : streamWriteRtp max ctx rs p = .sent w) :
    wellFormed p = true ∧ w = (Path.stream rs).wire ctx rtpGrowth (rtpMarshalSize p) ∧ w ≤ max ∧
    rtpMarshalSize p + rtpGrowth ctx ≤ max := by
  unfold streamWriteRtp at h
  obtain ⟨n, x, he, hw⟩ := reader_sent h
  obtain ⟨_, hwf, hn, hle, hx⟩ := encodeRtp_ok he
  have c1 : streamRtpOverhead = 10 := rfl
  have c3 : authTagRtpLen = 10 := rfl
  cases ctx with
  | none =>
    simp at hx; subst hx
    rw [plainLimit_none] at hle
    cases rs <;> simp at hw <;>
      refine ⟨hwf, ?_, ?_, ?_⟩ <;> (try simp only [Path.wire, rtpGrowth]) <;> omega
  | some m =>
    simp [ctxMki] at hm; subst hm
    simp at hx; subst hx
    rw [plainLimit_some] at hle; simp only [c1] at hle
    cases rs <;> simp [srtpLen, c3] at hw <;>
      refine ⟨hwf, ?_, ?_, ?_⟩ <;> (try simp only [Path.wire, rtpGrowth, c3]) <;> omega

/-! #### RTCP -/

theorem client_rtcp_sent {max : Nat} {ctx : Option Nat} {v : Bool} {len w : Nat}
    (h : clientWriteRtcp max ctx v len = .sent w) :
    w = len + rtcpGrowth ctx ∧ w ≤ max := by
  unfold clientWriteRtcp writeRtcp at h
  obtain ⟨n, x, he, hw⟩ := own_sent h
  obtain ⟨hn, hle, hx, _⟩ := encodeRtcp_ok he
  have c1 : clientRtcpOverhead = 14 := rfl
  have c2 : clientRtcpCountsMki = true := rfl
  have c3 : authTagRtcpLen = 10 := rfl
  have c4 : srtcpIndexSize = 4 := rfl
  cases ctx with
  | none =>
    simp at hx; subst hx
    rw [plainLimit_none] at hle
    simp [rtcpGrowth] at *
    omega
  | some m =>
    simp at hx; subst hx
    rw [plainLimit_some] at hle; simp only [c1, c2, if_true] at hle
    simp [rtcpGrowth, srtcpLen, c3, c4] at *
    omega

theorem server_rtcp_own_sent {max ov : Nat} {ctx : Option Nat} {v : Bool} {len w : Nat}
    (hov : ov = 14) (hm : ctxMki ctx = 0)
    (h : (encodeRtcp max ov false ctx v len).own = .sent w) :
    w = len + rtcpGrowth ctx ∧ w ≤ max := by
  obtain ⟨n, x, he, hw⟩ := own_sent h
  obtain ⟨hn, hle, hx, _⟩ := encodeRtcp_ok he
  have c3 : authTagRtcpLen = 10 := rfl
  have c4 : srtcpIndexSize = 4 := rfl
  cases ctx with
  | none =>
    simp at hx; subst hx
    rw [plainLimit_none] at hle
    simp [rtcpGrowth] at *
    omega
  | some m =>
    simp [ctxMki] at hm; subst hm
    simp at hx; subst hx
    rw [plainLimit_some] at hle; simp only [hov] at hle
    simp [rtcpGrowth, srtcpLen, c3, c4] at *
    omega

theorem stream_rtcp_sent {max : Nat} {ctx : Option Nat} {rs v : Bool} {len w : Nat}
    (hm : ctxMki ctx = 0) (h : streamWriteRtcp max ctx rs v len = .sent w) :
    w = (Path.stream rs).wire ctx rtcpGrowth len ∧ w ≤ max ∧ len + rtcpGrowth ctx ≤ max := by
  unfold streamWriteRtcp at h
  obtain ⟨n, x, he, hw⟩ := reader_sent h
  obtain ⟨hn, hle, hx, _⟩ := encodeRtcp_ok he
  have c1 : streamRtcpOverhead = 14 := rfl
  have c3 : authTagRtcpLen = 10 := rfl
  have c4 : srtcpIndexSize = 4 := rfl
  cases ctx with
  | none =>
    simp at hx; subst hx
    rw [plainLimit_none] at hle
    cases rs <;> simp [Path.wire, rtcpGrowth] at * <;> omega
  | some m =>
    simp [ctxMki] at hm; subst hm
    simp at hx; subst hx
    rw [plainLimit_some] at hle; simp only [c1] at hle
    cases rs <;> simp [Path.wire, rtcpGrowth, srtcpLen, c3, c4] at * <;> omega

/-! #### transport -/

theorem onWire_ok {proto : Proto} {max extra : Nat} {r : Res} (hex : extra = 4)
    (h : ∀ w, r = .sent w → w ≤ max) : WireOk max (onWire proto max extra r) := by
  cases r with
  | err => simp [onWire, WireOk]
  | panic => simp [onWire, WireOk]
  | sent w =>
    have hw := h w rfl
    cases proto with
    | udp => simpa [onWire, WireOk] using hw
    | tcp =>
      simp [onWire, frameOf, WireOk, hex]
      omega

theorem onWire_nothing_iff {proto : Proto} {max extra : Nat} {r : Res} :
    onWire proto max extra r = .nothing ↔ (r = .err ∨ r = .panic) := by
  cases r with
  | err => simp [onWire]
  | panic => simp [onWire]
  | sent w => cases proto <;> simp [onWire, frameOf]

theorem Path.extra_eq (path : Path) : path.extra = 4 := by
  cases path <;> rfl

end Rtsp.Size
