/-
C18 helper: the bit trick `n & (n-1) == 0` characterises the powers of two (core Lean only).
-/
namespace Rtsp.Size

theorem pow2_of_and_pred : ∀ n : Nat, n ≠ 0 → n &&& (n - 1) = 0 → ∃ k, n = 2 ^ k := by
  intro n
  induction n using Nat.strongRecOn with
  | _ n ih =>
    intro hn h
    have hdiv : n / 2 &&& (n - 1) / 2 = 0 := by
      rw [← Nat.and_div_two, h]
    by_cases hodd : n % 2 = 1
    · have e : (n - 1) / 2 = n / 2 := by omega
      rw [e, Nat.and_self] at hdiv
      exact ⟨0, by omega⟩
    · have e : (n - 1) / 2 = n / 2 - 1 := by omega
      rw [e] at hdiv
      have hm : n / 2 ≠ 0 := by omega
      obtain ⟨k, hk⟩ := ih (n / 2) (by omega) hm hdiv
      refine ⟨k + 1, ?_⟩
      rw [Nat.pow_succ, ← hk]
      omega

theorem and_pred_of_pow2 (k : Nat) : 2 ^ k &&& (2 ^ k - 1) = 0 := by
  rw [Nat.and_two_pow_sub_one_eq_mod, Nat.mod_self]

/-- The check of `Client.Start` / `Server.Start` (and of `ringbuffer.New`) on natural numbers:
`n & (n-1) == 0` holds for a non-zero `n` exactly when `n` is a power of two.  (For `n = 0` the bit
trick also yields 0: both `Start` functions replace 0 by the default 256 before the check.) -/
theorem pow2_iff (n : Nat) : (n &&& (n - 1) = 0 ∧ n ≠ 0) ↔ ∃ k, n = 2 ^ k := by
  constructor
  · rintro ⟨h, hn⟩
    exact pow2_of_and_pred n hn h
  · rintro ⟨k, rfl⟩
    exact ⟨and_pred_of_pow2 k, Nat.ne_of_gt (Nat.pow_pos (by decide))⟩

theorem zero_and_pred : (0 : Nat) &&& (0 - 1) = 0 := by decide

/-- the same on Go's 64-bit `int` (two's complement bit pattern) -/
theorem pow2_iff_bv (w : BitVec 64) : (w &&& (w - 1) = 0 ∧ w ≠ 0) ↔ ∃ k, k < 64 ∧ w.toNat = 2 ^ k := by
  have hlt := w.isLt
  constructor
  · rintro ⟨h, hn⟩
    have hn' : w.toNat ≠ 0 := by
      intro h0; apply hn; exact BitVec.toNat_eq.mpr (by simpa using h0)
    have hsub : (w - 1).toNat = w.toNat - 1 := by
      rw [BitVec.toNat_sub]
      have : (1 : BitVec 64).toNat = 1 := rfl
      rw [this]
      omega
    have h' : w.toNat &&& (w.toNat - 1) = 0 := by
      have := congrArg BitVec.toNat h
      rw [BitVec.toNat_and, hsub] at this
      simpa using this
    obtain ⟨k, hk⟩ := pow2_of_and_pred w.toNat hn' h'
    refine ⟨k, ?_, hk⟩
    by_cases hk64 : k < 64
    · exact hk64
    · have : 2 ^ 64 ≤ 2 ^ k := Nat.pow_le_pow_right (by decide) (by omega)
      omega
  · rintro ⟨k, hk, hw⟩
    have hn' : w.toNat ≠ 0 := by
      rw [hw]; exact Nat.ne_of_gt (Nat.pow_pos (by decide))
    have hsub : (w - 1).toNat = w.toNat - 1 := by
      rw [BitVec.toNat_sub]
      have : (1 : BitVec 64).toNat = 1 := rfl
      rw [this]
      omega
    constructor
    · apply BitVec.toNat_eq.mpr
      rw [BitVec.toNat_and, hsub, hw]
      simp [and_pred_of_pow2 k]
    · intro h0
      apply hn'
      rw [h0]; rfl

end Rtsp.Size
