import Rtsp.Proofs.Size.Paths
/-
C18 helper lemmas: a packet that fits is accepted (no spurious rejection), per path.
-/
namespace Rtsp.Size
open Rtsp.Facts.Size

theorem limit_of_fits_rtp {max ov : Nat} {cm : Bool} {ctx : Option Nat} {n : Nat}
    (hov : ov = 10) (hcm : cm = true ∨ ctxMki ctx = 0) (hf : n + rtpGrowth ctx ≤ max) :
    (n : Int) ≤ plainLimit max ov cm ctx := by
  have c3 : authTagRtpLen = 10 := rfl
  cases ctx with
  | none => rw [plainLimit_none]; simp only [rtpGrowth] at hf; omega
  | some m =>
    rw [plainLimit_some]
    simp only [rtpGrowth, c3] at hf
    cases hcm with
    | inl h => subst h; simp only [if_true, hov]; omega
    | inr h => simp only [ctxMki] at h; subst h; cases cm <;> simp [hov] <;> omega

theorem limit_of_fits_rtcp {max ov : Nat} {cm : Bool} {ctx : Option Nat} {n : Nat}
    (hov : ov = 14) (hcm : cm = true ∨ ctxMki ctx = 0) (hf : n + rtcpGrowth ctx ≤ max) :
    (n : Int) ≤ plainLimit max ov cm ctx := by
  have c3 : authTagRtcpLen = 10 := rfl
  have c4 : srtcpIndexSize = 4 := rfl
  cases ctx with
  | none => rw [plainLimit_none]; simp only [rtcpGrowth] at hf; omega
  | some m =>
    rw [plainLimit_some]
    simp only [rtcpGrowth, c3, c4] at hf
    cases hcm with
    | inl h => subst h; simp only [if_true, hov]; omega
    | inr h => simp only [ctxMki] at h; subst h; cases cm <;> simp [hov] <;> omega

theorem client_rtp_accepts {max : Nat} {ctx : Option Nat} {p : RtpShape}
    (hw : wellFormed p = true) (hf : rtpMarshalSize p + rtpGrowth ctx ≤ max) :
    clientWriteRtp max ctx p = .sent (rtpMarshalSize p + rtpGrowth ctx) := by
  unfold clientWriteRtp writeRtp
  rw [encodeRtp_ok_of_fits hw (limit_of_fits_rtp (ov := clientRtpOverhead) (cm := clientRtpCountsMki) rfl (Or.inl rfl) hf)]
  cases ctx with
  | none => simp [Enc.own, rtpGrowth]
  | some m => simp [Enc.own, rtpGrowth, srtpLen]; omega

theorem server_rtp_own_accepts {max ov : Nat} {ctx : Option Nat} {p : RtpShape} (hov : ov = 10)
    (hm : ctxMki ctx = 0) (hw : wellFormed p = true) (hf : rtpMarshalSize p + rtpGrowth ctx ≤ max) :
    (encodeRtp max ov false ctx p).own = .sent (rtpMarshalSize p + rtpGrowth ctx) := by
  rw [encodeRtp_ok_of_fits hw (limit_of_fits_rtp hov (Or.inr hm) hf)]
  cases ctx with
  | none => simp [Enc.own, rtpGrowth]
  | some m => simp [Enc.own, rtpGrowth, srtpLen]; omega

theorem stream_rtp_accepts {max : Nat} {ctx : Option Nat} {rs : Bool} {p : RtpShape}
    (hm : ctxMki ctx = 0) (hw : wellFormed p = true) (hf : rtpMarshalSize p + rtpGrowth ctx ≤ max) :
    streamWriteRtp max ctx rs p = .sent ((Path.stream rs).wire ctx rtpGrowth (rtpMarshalSize p)) := by
  unfold streamWriteRtp
  rw [encodeRtp_ok_of_fits hw (limit_of_fits_rtp (ov := streamRtpOverhead) (cm := false) rfl (Or.inr hm) hf)]
  cases ctx with
  | none => cases rs <;> simp [Enc.reader, Path.wire]
  | some m => cases rs <;> simp [Enc.reader, Path.wire, rtpGrowth, srtpLen]; omega

theorem client_rtcp_accepts {max : Nat} {ctx : Option Nat} {v : Bool} {len : Nat}
    (he : ctx ≠ none → rtcpEncryptable v len = true) (hf : len + rtcpGrowth ctx ≤ max) :
    clientWriteRtcp max ctx v len = .sent (len + rtcpGrowth ctx) := by
  unfold clientWriteRtcp writeRtcp
  rw [encodeRtcp_ok_of_fits (limit_of_fits_rtcp (ov := clientRtcpOverhead) (cm := clientRtcpCountsMki) rfl (Or.inl rfl) hf) he]
  cases ctx with
  | none => simp [Enc.own, rtcpGrowth]
  | some m => simp [Enc.own, rtcpGrowth, srtcpLen]; omega

theorem server_rtcp_own_accepts {max ov : Nat} {ctx : Option Nat} {v : Bool} {len : Nat} (hov : ov = 14)
    (hm : ctxMki ctx = 0) (he : ctx ≠ none → rtcpEncryptable v len = true) (hf : len + rtcpGrowth ctx ≤ max) :
    (encodeRtcp max ov false ctx v len).own = .sent (len + rtcpGrowth ctx) := by
  rw [encodeRtcp_ok_of_fits (limit_of_fits_rtcp hov (Or.inr hm) hf) he]
  cases ctx with
  | none => simp [Enc.own, rtcpGrowth]
  | some m => simp [Enc.own, rtcpGrowth, srtcpLen]; omega

theorem stream_rtcp_accepts {max : Nat} {ctx : Option Nat} {rs v : Bool} {len : Nat}
    (hm : ctxMki ctx = 0) (he : ctx ≠ none → rtcpEncryptable v len = true) (hf : len + rtcpGrowth ctx ≤ max) :
    streamWriteRtcp max ctx rs v len = .sent ((Path.stream rs).wire ctx rtcpGrowth len) := by
  unfold streamWriteRtcp
  rw [encodeRtcp_ok_of_fits (limit_of_fits_rtcp (ov := streamRtcpOverhead) (cm := false) rfl (Or.inr hm) hf) he]
  cases ctx with
  | none => cases rs <;> simp [Enc.reader, Path.wire]
  | some m => cases rs <;> simp [Enc.reader, Path.wire, rtcpGrowth, srtcpLen]; omega

end Rtsp.Size
