import Rtsp.Model.SizeGuard
/-
C18 helper lemmas: the marshal / encrypt step (`encodeRtp`, `encodeRtcp`) — one lemma per branch.
-/
namespace Rtsp.Size
open Rtsp.Facts.Size

theorem headerSize_le (p : RtpShape) : headerSize p ≤ rtpMarshalSize p := by
  unfold rtpMarshalSize; omega

/-- `MarshalTo` succeeds exactly on well-formed packets that fit, and then writes `MarshalSize` bytes. -/
theorem marshalTo_eq_some {p : RtpShape} {buf n : Nat} :
    marshalTo p buf = some n ↔ wellFormed p = true ∧ rtpMarshalSize p ≤ buf ∧ n = rtpMarshalSize p := by
  have hh := headerSize_le p
  unfold marshalTo wellFormed
  by_cases h1 : (p.padFlag && paddingSize p == 0) = true
  · simp [h1]
  · by_cases h2 : extWellFormed p.ext = true
    · by_cases h3 : rtpMarshalSize p > buf
      · by_cases h4 : headerSize p > buf
        · simp [h1, h2, h4]; omega
        · simp [h1, h2, h3, h4]; omega
      · have h4 : ¬ headerSize p > buf := by omega
        simp [h1, h2, h3, h4]
        constructor
        · intro h; omega
        · intro h; omega
    · by_cases h4 : headerSize p > buf
      · simp [h1, h2, h4]
      · simp [h1, h2, h4]

theorem marshalTo_eq_none {p : RtpShape} {buf : Nat} :
    marshalTo p buf = none ↔ wellFormed p = false ∨ buf < rtpMarshalSize p := by
  cases h : marshalTo p buf with
  | none =>
    simp
    by_cases hw : wellFormed p = true
    · right
      by_cases hb : buf < rtpMarshalSize p
      · exact hb
      · have : marshalTo p buf = some (rtpMarshalSize p) := marshalTo_eq_some.mpr ⟨hw, by omega, rfl⟩
        rw [h] at this; cases this
    · left; simpa using hw
  | some n =>
    have := marshalTo_eq_some.mp h
    simp
    exact ⟨this.1, by omega⟩

end Rtsp.Size

namespace Rtsp.Size
open Rtsp.Facts.Size

/-- MKI length of an optional context (0 without SRTP) -/
def ctxMki : Option Nat → Nat
  | none => 0
  | some m => m

/-- bytes SRTP adds to an RTP packet under this context -/
def rtpGrowth : Option Nat → Nat
  | none => 0
  | some m => m + authTagRtpLen

/-- bytes SRTCP adds to an RTCP packet under this context -/
def rtcpGrowth : Option Nat → Nat
  | none => 0
  | some m => authTagRtcpLen + m + srtcpIndexSize

theorem plainLimit_none (max ov : Nat) (cm : Bool) : plainLimit max ov cm none = (max : Int) := rfl

theorem plainLimit_some (max ov : Nat) (cm : Bool) (m : Nat) :
    plainLimit max ov cm (some m) = (max : Int) - ((ov : Int) + (if cm then (m : Int) else 0)) := rfl

/-- everything `encodeRtp` can answer, in one statement -/
theorem encodeRtp_ok {max ov : Nat} {cm : Bool} {ctx : Option Nat} {p : RtpShape} {n : Nat} {e : Option Nat}
    (h : encodeRtp max ov cm ctx p = .ok n e) :
    0 ≤ plainLimit max ov cm ctx ∧ wellFormed p = true ∧ n = rtpMarshalSize p ∧
    (n : Int) ≤ plainLimit max ov cm ctx ∧
    e = ctx.map (srtpLen n) := by
  unfold encodeRtp at h
  by_cases hl : plainLimit max ov cm ctx < 0
  · simp [hl] at h
  · simp only [hl, if_false] at h
    cases hm : marshalTo p (plainLimit max ov cm ctx).toNat with
    | none => simp [hm] at h
    | some k =>
      have hk := marshalTo_eq_some.mp hm
      rw [hm] at h
      cases ctx with
      | none =>
        simp at h
        refine ⟨by omega, hk.1, ?_, ?_, ?_⟩
        · omega
        · omega
        · simp [← h.2]
      | some m =>
        simp at h
        refine ⟨by omega, hk.1, ?_, ?_, ?_⟩
        · omega
        · omega
        · simp [← h.2, h.1]

theorem encodeRtp_ok_of_fits {max ov : Nat} {cm : Bool} {ctx : Option Nat} {p : RtpShape}
    (hw : wellFormed p = true) (hf : (rtpMarshalSize p : Int) ≤ plainLimit max ov cm ctx) :
    encodeRtp max ov cm ctx p = .ok (rtpMarshalSize p) (ctx.map (srtpLen (rtpMarshalSize p))) := by
  unfold encodeRtp
  have hl : ¬ plainLimit max ov cm ctx < 0 := by omega
  have hm : marshalTo p (plainLimit max ov cm ctx).toNat = some (rtpMarshalSize p) :=
    marshalTo_eq_some.mpr ⟨hw, by omega, rfl⟩
  simp only [hl, if_false, hm]
  cases ctx <;> rfl

theorem encodeRtp_panic_iff {max ov : Nat} {cm : Bool} {ctx : Option Nat} {p : RtpShape} :
    encodeRtp max ov cm ctx p = .panic ↔ plainLimit max ov cm ctx < 0 := by
  unfold encodeRtp
  by_cases hl : plainLimit max ov cm ctx < 0
  · simp [hl]
  · simp only [hl, if_false]
    cases hm : marshalTo p (plainLimit max ov cm ctx).toNat with
    | none => simp
    | some k => cases ctx <;> simp

theorem encodeRtp_err_of_oversize {max ov : Nat} {cm : Bool} {ctx : Option Nat} {p : RtpShape}
    (hl : 0 ≤ plainLimit max ov cm ctx) (hf : plainLimit max ov cm ctx < (rtpMarshalSize p : Int)) :
    encodeRtp max ov cm ctx p = .err := by
  unfold encodeRtp
  have hl' : ¬ plainLimit max ov cm ctx < 0 := by omega
  have hm : marshalTo p (plainLimit max ov cm ctx).toNat = none :=
    marshalTo_eq_none.mpr (Or.inr (by omega))
  simp only [hl', if_false, hm]

theorem encodeRtp_err_of_malformed {max ov : Nat} {cm : Bool} {ctx : Option Nat} {p : RtpShape}
    (hl : 0 ≤ plainLimit max ov cm ctx) (hw : wellFormed p = false) :
    encodeRtp max ov cm ctx p = .err := by
  unfold encodeRtp
  have hl' : ¬ plainLimit max ov cm ctx < 0 := by omega
  have hm : marshalTo p (plainLimit max ov cm ctx).toNat = none := marshalTo_eq_none.mpr (Or.inl hw)
  simp only [hl', if_false, hm]

/-! RTCP -/

/-- what `srtp.Context.EncryptRTCP` refuses -/
def rtcpEncryptable (ver2 : Bool) (len : Nat) : Bool := !(len < 4 || !ver2 || len < srtcpHeaderSize)

theorem encodeRtcp_ok {max ov : Nat} {cm : Bool} {ctx : Option Nat} {ver2 : Bool} {len n : Nat} {e : Option Nat}
    (h : encodeRtcp max ov cm ctx ver2 len = .ok n e) :
    n = len ∧ (len : Int) ≤ plainLimit max ov cm ctx ∧
    e = ctx.map (srtcpLen len) ∧
    (ctx ≠ none → rtcpEncryptable ver2 len = true) := by
  unfold encodeRtcp at h
  by_cases hl : (len : Int) > plainLimit max ov cm ctx
  · simp [hl] at h
  · simp only [hl, if_false] at h
    cases ctx with
    | none =>
      simp at h
      exact ⟨h.1.symm, by omega, by simp [← h.2], by simp⟩
    | some m =>
      by_cases hb : (len < 4 || !ver2 || len < srtcpHeaderSize) = true
      · simp [hb] at h
      · simp only [hb] at h
        simp at h
        refine ⟨h.1.symm, by omega, by simp [h.2], ?_⟩
        intro _
        unfold rtcpEncryptable
        simpa using hb

theorem encodeRtcp_err_of_oversize {max ov : Nat} {cm : Bool} {ctx : Option Nat} {ver2 : Bool} {len : Nat}
    (hf : plainLimit max ov cm ctx < (len : Int)) :
    encodeRtcp max ov cm ctx ver2 len = .err := by
  unfold encodeRtcp
  have : (len : Int) > plainLimit max ov cm ctx := hf
  simp [this]

theorem encodeRtcp_ok_of_fits {max ov : Nat} {cm : Bool} {ctx : Option Nat} {ver2 : Bool} {len : Nat}
    (hf : (len : Int) ≤ plainLimit max ov cm ctx) (he : ctx ≠ none → rtcpEncryptable ver2 len = true) :
    encodeRtcp max ov cm ctx ver2 len = .ok len (ctx.map (srtcpLen len)) := by
  unfold encodeRtcp
  have hl : ¬ (len : Int) > plainLimit max ov cm ctx := by omega
  simp only [hl, if_false]
  cases ctx with
  | none => rfl
  | some m =>
    have := he (by simp)
    unfold rtcpEncryptable at this
    have hb : ¬ (len < 4 || !ver2 || len < srtcpHeaderSize) = true := by simpa using this
    simp only [hb]
    rfl

theorem encodeRtcp_ne_panic {max ov : Nat} {cm : Bool} {ctx : Option Nat} {ver2 : Bool} {len : Nat} :
    encodeRtcp max ov cm ctx ver2 len ≠ .panic := by
  unfold encodeRtcp
  by_cases hl : (len : Int) > plainLimit max ov cm ctx
  · simp [hl]
  · simp only [hl, if_false]
    cases ctx with
    | none => simp
    | some m =>
      by_cases hb : (len < 4 || !ver2 || len < srtcpHeaderSize) = true
      · simp [hb]
      · simp only [hb]; simp

end Rtsp.Size
