import Rtsp.Proofs.FrameRT3
/-
Round trip, general form: a Go `map` has no order and `Marshal` completes the message
(`Content-Length`, default status message).  `canon` is the element as `Marshal` writes it: header
keys sorted, `Content-Length` set when the body is non-empty, the default status message filled in.
What is read back is `canon` of what was written, for any header whose keys are distinct.
-/
namespace Rtsp.Frame
open Rtsp.Facts.Frame

/-! ### `bytesLt` is a strict total order -/

theorem u8_lt_irrefl (a : UInt8) : ¬ a < a := by
  rw [UInt8.lt_iff_toNat_lt]; omega

theorem bytesLt_trans : ∀ (a b c : Bytes), bytesLt a b = true → bytesLt b c = true → bytesLt a c = true := by
  intro a
  induction a with
  | nil =>
    intro b c h1 h2
    cases b with
    | nil => simp [bytesLt] at h1
    | cons y s =>
      cases c with
      | nil => simp [bytesLt] at h2
      | cons z t => simp [bytesLt]
  | cons x r ih =>
    intro b c h1 h2
    cases b with
    | nil => simp [bytesLt] at h1
    | cons y s =>
      cases c with
      | nil => simp [bytesLt] at h2
      | cons z t =>
        simp only [bytesLt, Bool.or_eq_true, decide_eq_true_eq, Bool.and_eq_true] at h1 h2 ⊢
        rcases h1 with h1 | ⟨e1, h1⟩ <;> rcases h2 with h2 | ⟨e2, h2⟩
        · left; rw [UInt8.lt_iff_toNat_lt] at *; omega
        · left; rw [← e2]; exact h1
        · left; rw [e1]; exact h2
        · right; exact ⟨e1.trans e2, ih s t h1 h2⟩

theorem bytesLt_total : ∀ (a b : Bytes), a ≠ b → bytesLt a b = false → bytesLt b a = true := by
  intro a
  induction a with
  | nil =>
    intro b hne h
    cases b with
    | nil => exact absurd rfl hne
    | cons y s => simp [bytesLt] at h
  | cons x r ih =>
    intro b hne h
    cases b with
    | nil => simp [bytesLt]
    | cons y s =>
      simp only [bytesLt, Bool.or_eq_false_iff, decide_eq_false_iff_not, Bool.and_eq_false_iff] at h
      simp only [bytesLt, Bool.or_eq_true, decide_eq_true_eq, Bool.and_eq_true]
      obtain ⟨h1, h2⟩ := h
      by_cases hxy : x = y
      · subst hxy
        right
        refine ⟨rfl, ih s (fun e => hne (by rw [e])) ?_⟩
        rcases h2 with h2 | h2
        · exact absurd rfl h2
        · exact h2
      · left
        rw [UInt8.lt_iff_toNat_lt] at *
        have : x.toNat ≠ y.toNat := fun e => hxy (UInt8.toNat_inj.mp e)
        omega

/-! ### insertion sort -/

theorem insertSorted_lt (e x : Bytes × List Bytes) (r : Header) (h : bytesLt e.1 x.1 = true) :
    insertSorted e (x :: r) = e :: x :: r := by simp [insertSorted, h]

theorem insertSorted_ge (e x : Bytes × List Bytes) (r : Header) (h : bytesLt e.1 x.1 = false) :
    insertSorted e (x :: r) = x :: insertSorted e r := by simp [insertSorted, h]

theorem mem_insertSorted (e : Bytes × List Bytes) : ∀ (l : Header) (y : Bytes × List Bytes),
    y ∈ insertSorted e l ↔ y = e ∨ y ∈ l := by
  intro l
  induction l with
  | nil => intro y; simp [insertSorted]
  | cons x r ih =>
    intro y
    cases h : bytesLt e.1 x.1 with
    | true => rw [insertSorted_lt e x r h]; simp
    | false =>
      rw [insertSorted_ge e x r h]
      simp only [List.mem_cons, ih]
      constructor
      · rintro (h | h | h)
        · exact Or.inr (Or.inl h)
        · exact Or.inl h
        · exact Or.inr (Or.inr h)
      · rintro (h | h | h)
        · exact Or.inr (Or.inl h)
        · exact Or.inl h
        · exact Or.inr (Or.inr h)

theorem mem_sortKeys : ∀ (h : Header) (y : Bytes × List Bytes), y ∈ sortKeys h ↔ y ∈ h := by
  intro h
  induction h with
  | nil => intro y; simp [sortKeys]
  | cons e r ih => intro y; simp [sortKeys, mem_insertSorted, ih]

abbrev Sorted (h : Header) : Prop := h.Pairwise (fun a b => bytesLt a.1 b.1 = true)

theorem insertSorted_sorted (e : Bytes × List Bytes) : ∀ (l : Header), Sorted l → e.1 ∉ keysOf l →
    Sorted (insertSorted e l) := by
  intro l
  induction l with
  | nil => intro _ _; simp [insertSorted, Sorted]
  | cons x r ih =>
    intro hs hk
    rw [Sorted, List.pairwise_cons] at hs
    cases h : bytesLt e.1 x.1 with
    | true =>
      rw [insertSorted_lt e x r h, Sorted, List.pairwise_cons]
      refine ⟨?_, List.pairwise_cons.mpr hs⟩
      intro y hy
      simp only [List.mem_cons] at hy
      rcases hy with rfl | hy
      · exact h
      · exact bytesLt_trans _ _ _ h (hs.1 y hy)
    | false =>
      rw [insertSorted_ge e x r h, Sorted, List.pairwise_cons]
      have hne : e.1 ≠ x.1 := fun eq => hk (by simp [keysOf, eq])
      have hxe : bytesLt x.1 e.1 = true := bytesLt_total e.1 x.1 hne h
      refine ⟨?_, ih hs.2 (fun hm => hk (by simp only [keysOf, List.map_cons, List.mem_cons]; right; exact hm))⟩
      intro y hy
      rw [mem_insertSorted] at hy
      rcases hy with rfl | hy
      · exact hxe
      · exact hs.1 y hy

theorem keysOf_sortKeys_mem (h : Header) (k : Bytes) : k ∈ keysOf (sortKeys h) ↔ k ∈ keysOf h := by
  simp only [keysOf, List.mem_map, mem_sortKeys]

theorem sortKeys_sorted_of_nodup : ∀ (h : Header), (keysOf h).Nodup → Sorted (sortKeys h) := by
  intro h
  induction h with
  | nil => intro _; simp [sortKeys, Sorted]
  | cons e r ih =>
    intro hn
    simp only [keysOf, List.map_cons, List.nodup_cons] at hn
    rw [sortKeys]
    exact insertSorted_sorted e _ (ih hn.2) (fun hm => hn.1 ((keysOf_sortKeys_mem r e.1).mp hm))

theorem entryCount_insertSorted (e : Bytes × List Bytes) : ∀ (l : Header),
    entryCount (insertSorted e l) = e.2.length + entryCount l := by
  intro l
  induction l with
  | nil => simp [insertSorted, entryCount]
  | cons x r ih =>
    cases h : bytesLt e.1 x.1 with
    | true => rw [insertSorted_lt e x r h]; simp [entryCount]
    | false =>
      rw [insertSorted_ge e x r h]
      have := ih
      simp only [entryCount] at this
      simp only [entryCount, List.map_cons, List.sum_cons, this]
      omega

theorem entryCount_sortKeys : ∀ (h : Header), entryCount (sortKeys h) = entryCount h := by
  intro h
  induction h with
  | nil => rfl
  | cons e r ih =>
    rw [sortKeys, entryCount_insertSorted, ih]
    simp [entryCount]

theorem hlookup_none_of_not_mem : ∀ (l : Header) (k : Bytes), k ∉ keysOf l → hlookup l k = none := by
  intro l
  induction l with
  | nil => intro k _; rfl
  | cons x r ih =>
    intro k hk
    obtain ⟨k', vs⟩ := x
    have h1 : k' ≠ k := fun e => hk (by simp [keysOf, e])
    simp only [hlookup, h1, if_false]
    exact ih k (fun hm => hk (by simp only [keysOf, List.map_cons, List.mem_cons]; right; exact hm))

theorem hlookup_insertSorted (e : Bytes × List Bytes) : ∀ (l : Header) (k : Bytes), e.1 ∉ keysOf l →
    hlookup (insertSorted e l) k = if e.1 = k then some e.2 else hlookup l k := by
  intro l
  induction l with
  | nil => intro k _; obtain ⟨a, b⟩ := e; simp [insertSorted, hlookup]
  | cons x r ih =>
    intro k hk
    obtain ⟨k', vs⟩ := x
    obtain ⟨ek, ev⟩ := e
    have hne : ek ≠ k' := fun eq => hk (by simp [keysOf, eq])
    cases h : bytesLt ek k' with
    | true => rw [insertSorted_lt (ek, ev) (k', vs) r h]; simp [hlookup]
    | false =>
      rw [insertSorted_ge (ek, ev) (k', vs) r h]
      simp only [hlookup]
      by_cases hk' : k' = k
      · have : ek ≠ k := fun e => hne (e.trans hk'.symm)
        simp [hk', this]
      · simp only [hk', if_false]
        exact ih k (fun hm => hk (by simp only [keysOf, List.map_cons, List.mem_cons]; right; exact hm))

theorem hlookup_sortKeys : ∀ (h : Header) (k : Bytes), (keysOf h).Nodup → hlookup (sortKeys h) k = hlookup h k := by
  intro h
  induction h with
  | nil => intro k _; rfl
  | cons e r ih =>
    intro k hn
    simp only [keysOf, List.map_cons, List.nodup_cons] at hn
    rw [sortKeys, hlookup_insertSorted e _ k (fun hm => hn.1 ((keysOf_sortKeys_mem r e.1).mp hm)), ih k hn.2]
    obtain ⟨ek, ev⟩ := e
    simp [hlookup]

theorem sortKeys_idem (h : Header) (hn : (keysOf h).Nodup) : sortKeys (sortKeys h) = sortKeys h :=
  sortKeys_sorted _ (sortKeys_sorted_of_nodup h hn)

/-! ### what `Marshal` writes -/

/-- a header map whose entries can be written and read back: distinct keys (a Go map), in any order -/
def HeaderMapOK (h : Header) : Prop :=
  (∀ e ∈ h, KeyOK e.1 ∧ e.2 ≠ [] ∧ ∀ v ∈ e.2, ValueOK v) ∧ (keysOf h).Nodup ∧ entryCount h ≤ headerMaxEntryCount

theorem headerOK_sortKeys (h : Header) (hm : HeaderMapOK h) : HeaderOK (sortKeys h) :=
  ⟨fun e he => hm.1 e ((mem_sortKeys h e).mp he), sortKeys_sorted_of_nodup h hm.2.1, by rw [entryCount_sortKeys]; exact hm.2.2⟩

theorem marshalHeader_sortKeys (h : Header) (hn : (keysOf h).Nodup) : marshalHeader (sortKeys h) = marshalHeader h := by
  simp only [marshalHeader, sortKeys_idem h hn]

theorem hlookup_hset : ∀ (h : Header) (k : Bytes) (vs : List Bytes), hlookup (hset h k vs) k = some vs := by
  intro h
  induction h with
  | nil => intro k vs; simp [hset, hlookup]
  | cons e r ih =>
    intro k vs
    obtain ⟨k', vs'⟩ := e
    by_cases hk : k' = k
    · simp [hset, hk, hlookup]
    · simp [hset, hk, hlookup, ih]

theorem keysOf_hset_nodup : ∀ (h : Header) (k : Bytes) (vs : List Bytes), (keysOf h).Nodup → (keysOf (hset h k vs)).Nodup := by
  intro h
  induction h with
  | nil => intro k vs _; simp [hset, keysOf]
  | cons e r ih =>
    intro k vs hn
    obtain ⟨k', vs'⟩ := e
    simp only [keysOf, List.map_cons, List.nodup_cons] at hn
    by_cases hk : k' = k
    · subst hk
      simp only [hset, if_true, keysOf, List.map_cons, List.nodup_cons]
      exact hn
    · simp only [hset, hk, if_false, keysOf, List.map_cons, List.nodup_cons]
      refine ⟨?_, ih k vs hn.2⟩
      intro hm
      have : ∀ (l : Header), k' ∈ List.map (·.1) (hset l k vs) → k' ∈ List.map (·.1) l := by
        intro l
        induction l with
        | nil => intro hm; simp [hset] at hm; exact absurd hm hk
        | cons x t iht =>
          obtain ⟨a, b⟩ := x
          by_cases ha : a = k
          · simp only [hset, ha, if_true, List.map_cons, List.mem_cons]
            rintro (h | h)
            · exact absurd h hk
            · exact Or.inr h
          · simp only [hset, ha, if_false, List.map_cons, List.mem_cons]
            rintro (h | h)
            · exact Or.inl h
            · exact Or.inr (iht h)
      exact hn.1 (this r hm)

theorem keysOf_withContentLength_nodup (h : Header) (body : Bytes) (hn : (keysOf h).Nodup) :
    (keysOf (withContentLength h body)).Nodup := by
  unfold withContentLength
  split
  · exact hn
  · exact keysOf_hset_nodup h _ _ hn

/-- the header as `Marshal` leaves it (and writes it) -/
def canonHeader (h : Header) (body : Bytes) : Header := sortKeys (withContentLength h body)

theorem hlookup_canonHeader (h : Header) (body : Bytes) (hn : (keysOf (withContentLength h body)).Nodup) (hb : body ≠ []) :
    hlookup (canonHeader h body) kContentLength = some [toDec body.length] := by
  rw [canonHeader, hlookup_sortKeys _ _ hn]
  simp [withContentLength, hb, hlookup_hset]

theorem withContentLength_canonHeader (h : Header) (body : Bytes) (hn : (keysOf (withContentLength h body)).Nodup) :
    withContentLength (canonHeader h body) body = canonHeader h body := by
  by_cases hb : body = []
  · simp [withContentLength, hb]
  · rw [withContentLength]
    simp only [hb, if_false]
    exact hset_same _ _ _ (hlookup_canonHeader h body hn hb)

theorem marshalHeader_canonHeader (h : Header) (body : Bytes) (hn : (keysOf (withContentLength h body)).Nodup) :
    marshalHeader (withContentLength (canonHeader h body) body) = marshalHeader (withContentLength h body) := by
  rw [withContentLength_canonHeader h body hn, canonHeader, marshalHeader_sortKeys _ hn]

theorem bodyOK_canonHeader (h : Header) (body : Bytes) (hn : (keysOf (withContentLength h body)).Nodup)
    (hl : body.length ≤ rtspMaxBodySize) (he : body = [] → hlookup h kContentLength = none) :
    BodyOK (canonHeader h body) body := by
  refine ⟨hl, ?_⟩
  by_cases hb : body = []
  · subst hb
    simp only [if_true]
    rw [canonHeader, hlookup_sortKeys _ _ hn]
    simp only [withContentLength, if_true]
    exact he rfl
  · simp only [hb, if_false]
    exact hlookup_canonHeader h body hn hb

/-- the element as `Marshal` completes it -/
def canon : Elem → Elem
  | .req r => .req { r with header := canonHeader r.header r.body }
  | .res r => .res { r with header := canonHeader r.header r.body, msg := effectiveMessage r }
  | .frame f => .frame f

/-- the message as the caller hands it to `Conn.Write*`: header keys distinct and in any order;
`Content-Length` is the serialiser's business (absent when the body is empty) -/
def WritableOK (up : Bytes → Option Bytes) : Elem → Prop
  | .req r =>
    (∃ b0 b1 t, r.method = b0 :: b1 :: t ∧ isReqPrefix b0 b1 = true) ∧
    SP ∉ r.method ∧ r.method.length < requestMaxMethodLength ∧
    (∀ u, r.url = some u → u ≠ star ∧ SP ∉ u ∧ u.length < requestMaxURLLength ∧ up u = some u) ∧
    HeaderMapOK (withContentLength r.header r.body) ∧ r.body.length ≤ rtspMaxBodySize ∧
    (r.body = [] → hlookup r.header kContentLength = none)
  | .res r =>
    r.code < 1000 ∧ CR ∉ effectiveMessage r ∧ (effectiveMessage r).length < responseMaxStatusMessageLength ∧
    HeaderMapOK (withContentLength r.header r.body) ∧ r.body.length ≤ rtspMaxBodySize ∧
    (r.body = [] → hlookup r.header kContentLength = none)
  | .frame f => FrameOK f

theorem effectiveMessage_idem (r : Response) (h : Header) :
    effectiveMessage { r with header := h, msg := effectiveMessage r } = effectiveMessage r := by
  unfold effectiveMessage
  by_cases hm : r.msg = []
  · simp only [hm, if_true]
    cases hd : defaultStatusMessage r.code with
    | none => simp
    | some m => by_cases hm' : m = [] <;> simp [hm']
  · simp [hm]

theorem canon_wellFormed (up : Bytes → Option Bytes) (e : Elem) (h : WritableOK up e) : WellFormed up (canon e) := by
  cases e with
  | req r =>
    obtain ⟨hm, hsp, hlen, hurl, hh, hb, he⟩ := h
    exact ⟨hm, hsp, hlen, hurl, headerOK_sortKeys _ hh, bodyOK_canonHeader _ _ hh.2.1 hb he⟩
  | res r =>
    obtain ⟨hc, hcr, hml, hh, hb, he⟩ := h
    refine ⟨hc, hcr, hml, ?_, headerOK_sortKeys _ hh, bodyOK_canonHeader _ _ hh.2.1 hb he⟩
    show effectiveMessage r ≠ [] ∨ defaultStatusMessage r.code = none
    unfold effectiveMessage
    by_cases hm : r.msg = []
    · simp only [hm, if_true]
      cases hd : defaultStatusMessage r.code with
      | none => exact Or.inr rfl
      | some m =>
        by_cases hm' : m = []
        · subst hm'
          -- no default message is empty
          exfalso
          have : ∀ p ∈ statusMessages, p.2 ≠ [] := by decide
          simp only [defaultStatusMessage, Option.map_eq_some_iff] at hd
          obtain ⟨p, hp, hp2⟩ := hd
          exact this p (List.mem_of_find?_eq_some hp) hp2
        · exact Or.inl (by simp [hm'])
    · exact Or.inl (by simp [hm])
  | frame f => exact h

theorem marshal_canon (up : Bytes → Option Bytes) (e : Elem) (h : WritableOK up e) : marshalElem (canon e) = marshalElem e := by
  cases e with
  | req r =>
    obtain ⟨_, _, _, _, hh, _, _⟩ := h
    simp only [canon, marshalElem, marshalRequest, marshalHeader_canonHeader _ _ hh.2.1]
  | res r =>
    obtain ⟨_, _, _, hh, _, _⟩ := h
    simp only [canon, marshalElem, marshalResponse, marshalHeader_canonHeader _ _ hh.2.1, effectiveMessage_idem]
  | frame f => rfl

/-- **parse_serialize, map form**: messages handed to `Conn.Write*` with header keys distinct and in
any order (a Go map), without `Content-Length` bookkeeping and possibly relying on the default status
message, are read back as what `Marshal` made of them (`canon`). -/
theorem parse_serialize_map (up : Bytes → Option Bytes) (es : List Elem) (h : ∀ e ∈ es, WritableOK up e) :
    parseAll up (serializeAll es) = (es.map canon, .eof) := by
  have hser : serializeAll (es.map canon) = serializeAll es := by
    simp only [serializeAll, List.flatMap_map]
    induction es with
    | nil => rfl
    | cons e r ih =>
      simp only [List.flatMap_cons]
      rw [marshal_canon up e (h e (by simp)), ih (fun x hx => h x (by simp [hx]))]
  rw [← hser]
  exact parse_serialize up _ (by
    intro e he
    obtain ⟨x, hx, rfl⟩ := List.mem_map.mp he
    exact canon_wellFormed up x (h x hx))

end Rtsp.Frame
