import Rtsp.Proofs.RingConcA
/-
Linearizability of the concurrent ring (the ring state and every returned value are those of the
sequential ring run on the critical sections in execution order) and absence of lost wake-ups.
-/
namespace Rtsp.RingConc
open Rtsp.Ring
variable {α : Type}

theorem run_snoc (r : Ring α) (ops : List (Op α)) (op : Op α) :
    Ring.run r (ops ++ [op]) =
      ((Ring.step (Ring.run r ops).1 op).1, (Ring.run r ops).2 ++ [(Ring.step (Ring.run r ops).1 op).2]) := by
  induction ops generalizing r with
  | nil => simp only [List.nil_append, Ring.run]
  | cons o ops ih => simp only [List.cons_append, Ring.run, ih, List.cons_append]

/-- the sequential witness: the log of critical sections, replayed on the sequential ring from
`New(size)`, yields the current ring state and exactly the results the threads obtained -/
def LogInv (size : Nat) (s : State α) : Prop :=
  Ring.run (Ring.new size) (s.log.map (·.op)) = (s.ring, s.log.map (·.res))

theorem logInv_init (size : Nat) : LogInv size (init (α := α) size) := rfl

theorem logInv_step {size : Nat} {s s' : State α} (a : Act α) (h : LogInv size s)
    (hs : step? s a = some s') : LogInv size s' := by
  unfold LogInv at h ⊢
  cases a
  case prodLock i x => step_cases hs; exact h
  case prodBody i =>
    step_cases hs
    simp only [List.map_append, List.map_cons, List.map_nil, run_snoc, h, Ring.step]
  case prodBcast i => step_cases hs; exact h
  case consLock => step_cases hs; exact h
  case consBody =>
    step_cases hs
    simp only [List.map_append, List.map_cons, List.map_nil, run_snoc, h, Ring.step]
  case consReacq => step_cases hs; exact h
  case consUnlock => step_cases hs; exact h
  case closerLock => step_cases hs; exact h
  case closerBody =>
    step_cases hs
    simp only [List.map_append, List.map_cons, List.map_nil, run_snoc, h, Ring.step]
  case closerBcast => step_cases hs; exact h

theorem logInv_reachable {size : Nat} {s : State α} (h : Reachable size s) : LogInv size s := by
  induction h with
  | init => exact logInv_init size
  | step a _ hs ih => exact logInv_step a ih hs

/-! ### no lost wake-up -/

theorem push_refused_eq (r : Ring α) (x : α) (h : (Ring.push r x).2 = false) : (Ring.push r x).1 = r := by
  simp only [Ring.push] at h ⊢
  split <;> simp_all

theorem pullTry_wait (r : Ring α) (h : (pullTry r).2 = .wait) :
    (pullTry r).1 = r ∧ slot r r.readIndex = none ∧ r.closed = false := by
  simp only [pullTry] at h ⊢
  split at h
  · simp at h
  · split at h
    · simp at h
    · rename_i hc _ hn
      refine ⟨?_, hn, by simpa using hc⟩
      simp only [hc]
      rfl

theorem consAfter_waiting (p : PullRes α) : consAfter p = .waiting ↔ p = .wait := by
  cases p <;> simp [consAfter]

/-- a pending `Broadcast`: some thread has changed the state, released the mutex and not yet
broadcast -/
def BcastPending (s : State α) : Prop := (∃ i, s.prod i = .bcast) ∨ s.closer = .bcast

/-- **no lost wake-up**: if the consumer is parked in `cond.Wait()`, then either there is nothing
for it to see (slot at `readIndex` empty and ring open) or a `Broadcast` is still pending -/
def NoLostWakeup (s : State α) : Prop :=
  s.cons = .waiting → (slot s.ring s.ring.readIndex = none ∧ s.ring.closed = false) ∨ BcastPending s

theorem noLostWakeup_init (size : Nat) : NoLostWakeup (init (α := α) size) := by
  intro h; simp [init] at h

theorem wake_ne_waiting (c : CPc) : wake c ≠ .waiting := by cases c <;> simp [wake]

theorem noLostWakeup_step {s s' : State α} (a : Act α) (h : NoLostWakeup s)
    (hs : step? s a = some s') : NoLostWakeup s' := by
  unfold NoLostWakeup BcastPending at h ⊢
  cases a
  case prodLock i x =>
    step_cases hs
    rename_i hp ho
    intro hw
    rcases h hw with h | ⟨j, hj⟩ | h
    · exact .inl h
    · refine .inr (.inl ⟨j, ?_⟩)
      have : j ≠ i := by intro e; subst e; rw [hp] at hj; cases hj
      simp only [setProd, this, if_false]; exact hj
    · exact .inr (.inr h)
  case prodBody i =>
    step_cases hs
    rename_i x hp
    intro hw
    by_cases hok : (Ring.push s.ring x).2 = true
    · exact .inr (.inl ⟨i, by simp [setProd, hok]⟩)
    · have hok' : (Ring.push s.ring x).2 = false := by simpa using hok
      rcases h hw with h | ⟨j, hj⟩ | h
      · left; simpa only [push_refused_eq _ _ hok'] using h
      · refine .inr (.inl ⟨j, ?_⟩)
        have : j ≠ i := by intro e; subst e; rw [hp] at hj; cases hj
        simp only [setProd, this, if_false]; exact hj
      · exact .inr (.inr h)
  case prodBcast i =>
    step_cases hs
    intro hw; exact absurd hw (wake_ne_waiting _)
  case consLock => step_cases hs; intro hw; cases hw
  case consBody =>
    step_cases hs
    intro hw
    have hw' := (consAfter_waiting _).mp hw
    obtain ⟨e, hn, hc⟩ := pullTry_wait _ hw'
    left
    simp only [e]; exact ⟨hn, hc⟩
  case consReacq => step_cases hs; intro hw; cases hw
  case consUnlock => step_cases hs; intro hw; cases hw
  case closerLock =>
    step_cases hs
    rename_i hk ho
    intro hw
    rcases h hw with h | h | h
    · exact .inl h
    · exact .inr (.inl h)
    · rw [hk] at h; cases h
  case closerBody =>
    step_cases hs
    intro _; exact .inr (.inr rfl)
  case closerBcast =>
    step_cases hs
    intro hw; exact absurd hw (wake_ne_waiting _)

theorem noLostWakeup_reachable {size : Nat} {s : State α} (h : Reachable size s) : NoLostWakeup s := by
  induction h with
  | init => exact noLostWakeup_init size
  | step a _ hs ih => exact noLostWakeup_step a ih hs

end Rtsp.RingConc
