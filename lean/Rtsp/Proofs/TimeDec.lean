import Rtsp.Model.TimeDec
/-
Lemmas about the `TimeDec` model (core Lean only).
-/
namespace Rtsp.TimeDec

/-- the signed 32-bit view of the wrapping difference, spelled out on `Nat`/`Int` -/
theorem sdelta_def (ts prev : UInt32) :
    sdelta ts prev =
      if 2 * (ts - prev).toNat < 4294967296 then ((ts - prev).toNat : Int)
      else ((ts - prev).toNat : Int) - 4294967296 := by
  have h : sdelta ts prev = (ts - prev).toBitVec.toInt := rfl
  rw [h, BitVec.toInt_eq_toNat_cond, UInt32.toNat_toBitVec]
  rfl

theorem sdelta_range (ts prev : UInt32) : -2147483648 ≤ sdelta ts prev ∧ sdelta ts prev < 2147483648 := by
  rw [sdelta_def]
  have := (ts - prev).toNat_lt
  split <;> omega

/-- the signed delta is congruent to the difference of the 32-bit values -/
theorem sdelta_congr (ts prev : UInt32) :
    (sdelta ts prev - ((ts.toNat : Int) - prev.toNat)) % 4294967296 = 0 := by
  rw [sdelta_def, UInt32.toNat_sub]
  have := ts.toNat_lt
  have := prev.toNat_lt
  split <;> omega

/-- if the writer's clock moved by `step` ticks, `|step| < 2^31`, and the 32-bit field carries the
low 32 bits, the decoder's signed delta is exactly `step` -/
theorem sdelta_of_step (prev ts : UInt32) (step : Int)
    (hlo : -2147483648 ≤ step) (hhi : step < 2147483648)
    (hts : (ts.toNat : Int) = ((prev.toNat : Int) + step) % 4294967296) :
    sdelta ts prev = step := by
  rw [sdelta_def, UInt32.toNat_sub]
  have := ts.toNat_lt
  have := prev.toNat_lt
  split <;> omega

/-! ### multiplyAndDivide -/


theorem mulDiv_nonneg_eq {v m d : Int} (hv : 0 ≤ v) (hm : 0 ≤ m) (hd : 0 < d) :
    mulDiv v m d = (v * m) / d := by
  unfold mulDiv
  rw [Int.tdiv_eq_ediv_of_nonneg hv, Int.tmod_eq_emod_of_nonneg hv]
  have h1 : 0 ≤ v % d * m := Int.mul_nonneg (Int.emod_nonneg _ (by omega)) hm
  rw [Int.tdiv_eq_ediv_of_nonneg h1]
  have h2 : v * m = v % d * m + (v / d * m) * d := by
    have := Int.emod_add_mul_ediv v d
    calc v * m = (v % d + d * (v / d)) * m := by rw [this]
      _ = _ := by rw [Int.add_mul, Int.mul_comm d, Int.mul_assoc, Int.mul_assoc, Int.mul_comm d m]
  rw [h2, Int.add_mul_ediv_right _ _ (by omega : d ≠ 0)]
  omega

theorem mulDiv_neg_v (v m d : Int) : mulDiv (-v) m d = - mulDiv v m d := by
  simp [mulDiv, Int.neg_mul, Int.neg_add]

theorem mulDiv_neg_m (v m d : Int) : mulDiv v (-m) d = - mulDiv v m d := by
  simp [mulDiv, Int.mul_neg, Int.neg_add]

theorem mulDiv_neg_d (v m d : Int) : mulDiv v m (-d) = - mulDiv v m d := by
  simp [mulDiv, Int.neg_mul, Int.neg_add]

theorem mulDiv_eq_tdiv_aux1 {v m d : Int} (hm : 0 ≤ m) (hd : 0 < d) :
    mulDiv v m d = (v * m).tdiv d := by
  rcases Int.le_total 0 v with hv | hv
  · rw [mulDiv_nonneg_eq hv hm hd, Int.tdiv_eq_ediv_of_nonneg (Int.mul_nonneg hv hm)]
  · have h := mulDiv_nonneg_eq (v := -v) (by omega) hm hd
    rw [mulDiv_neg_v] at h
    have h0 : 0 ≤ -v * m := Int.mul_nonneg (by omega) hm
    rw [← Int.tdiv_eq_ediv_of_nonneg h0, Int.neg_mul, Int.neg_tdiv] at h
    omega

theorem mulDiv_eq_tdiv_aux2 {v m d : Int} (hd : 0 < d) :
    mulDiv v m d = (v * m).tdiv d := by
  rcases Int.le_total 0 m with hm | hm
  · exact mulDiv_eq_tdiv_aux1 hm hd
  · have h := mulDiv_eq_tdiv_aux1 (v := v) (m := -m) (by omega) hd
    rw [mulDiv_neg_m, Int.mul_neg, Int.neg_tdiv] at h
    omega

/-- `multiplyAndDivide` is the truncated quotient of the exact product — for all signs -/
theorem mulDiv_eq_tdiv (v m d : Int) (hd : d ≠ 0) : mulDiv v m d = (v * m).tdiv d := by
  rcases Int.lt_or_gt_of_ne hd with h | h
  · have h' := mulDiv_eq_tdiv_aux2 (v := v) (m := m) (d := -d) (by omega)
    rw [mulDiv_neg_d, Int.tdiv_neg] at h'
    omega
  · exact mulDiv_eq_tdiv_aux2 h

end Rtsp.TimeDec

namespace Rtsp.TimeDec

/-- the truncation error of `multiplyAndDivide` is below one unit of the result: `|v·m − d·result| < |d|` -/
theorem mulDiv_error_lt (v m d : Int) (hd : d ≠ 0) :
    (v * m - d * mulDiv v m d).natAbs < d.natAbs := by
  rw [mulDiv_eq_tdiv v m d hd, Int.mul_tdiv_self]
  have e : v * m - (v * m - (v * m).tmod d) = (v * m).tmod d := by omega
  rw [e]
  rcases Int.lt_or_gt_of_ne hd with h | h
  · have h1 := Int.tmod_lt_of_pos (v * m) (b := -d) (by omega)
    have h2 := Int.lt_tmod_of_pos (v * m) (b := -d) (by omega)
    rw [Int.tmod_neg] at h1 h2
    omega
  · have h1 := Int.tmod_lt_of_pos (v * m) h
    have h2 := Int.lt_tmod_of_pos (v * m) h
    omega

/-- for non-negative arguments the result is the floor of the exact quotient -/
theorem mulDiv_floor_bounds {v m d : Int} (hv : 0 ≤ v) (hm : 0 ≤ m) (hd : 0 < d) :
    d * mulDiv v m d ≤ v * m ∧ v * m < d * (mulDiv v m d + 1) := by
  rw [mulDiv_nonneg_eq hv hm hd]
  have h1 := Int.mul_ediv_self_le (x := v * m) (k := d) (by omega)
  have h2 := Int.lt_mul_ediv_self_add (x := v * m) hd
  rw [Int.mul_add]
  omega

theorem mulDiv_zero (m d : Int) : mulDiv 0 m d = 0 := by simp [mulDiv]

end Rtsp.TimeDec
