import Rtsp.Model.TimeDec
/-
Lemmas about the `TimeDec` model (core Lean only).
-/
namespace Rtsp.TimeDec

/-- the signed 32-bit view of the wrapping difference, spelled out on `Nat`/`Int` -/
theorem sdelta_def (ts prev : UInt32) :
    sdelta ts prev =
      if 2 * (ts - prev).toNat < 4294967296 then ((ts - prev).toNat : Int)
      else ((ts - prev).toNat : Int) - 4294967296 := by
  have h : sdelta ts prev = (ts - prev).toBitVec.toInt := rfl
  rw [h, BitVec.toInt_eq_toNat_cond, UInt32.toNat_toBitVec]
  rfl

theorem sdelta_range (ts prev : UInt32) : -2147483648 ≤ sdelta ts prev ∧ sdelta ts prev < 2147483648 := by
  rw [sdelta_def]
  have := (ts - prev).toNat_lt
  split <;> omega

/-- the signed delta is congruent to the difference of the 32-bit values -/
theorem sdelta_congr (ts prev : UInt32) :
    (sdelta ts prev - ((ts.toNat : Int) - prev.toNat)) % 4294967296 = 0 := by
  rw [sdelta_def, UInt32.toNat_sub]
  have := ts.toNat_lt
  have := prev.toNat_lt
  split <;> omega

/-- if the writer's clock moved by `step` ticks, `|step| < 2^31`, and the 32-bit field carries the
low 32 bits, the decoder's signed delta is exactly `step` -/
theorem sdelta_of_step (prev ts : UInt32) (step : Int)
    (hlo : -2147483648 ≤ step) (hhi : step < 2147483648)
    (hts : (ts.toNat : Int) = ((prev.toNat : Int) + step) % 4294967296) :
    sdelta ts prev = step := by
  rw [sdelta_def, UInt32.toNat_sub]
  have := ts.toNat_lt
  have := prev.toNat_lt
  split <;> omega

/-! ### multiplyAndDivide -/


theorem mulDiv_nonneg_eq {v m d : Int} (hv : 0 ≤ v) (hm : 0 ≤ m) (hd : 0 < d) :
    mulDiv v m d = (v * m) / d := by
  unfold mulDiv
  rw [Int.tdiv_eq_ediv_of_nonneg hv, Int.tmod_eq_emod_of_nonneg hv]
  have h1 : 0 ≤ v % d * m := Int.mul_nonneg (Int.emod_nonneg _ (by omega)) hm
  rw [Int.tdiv_eq_ediv_of_nonneg h1]
  have h2 : v * m = v % d * m + (v / d * m) * d := by
    have := Int.emod_add_mul_ediv v d
    calc v * m = (v % d + d * (v / d)) * m := by rw [this]
      _ = _ := by rw [Int.add_mul, Int.mul_comm d, Int.mul_assoc, Int.mul_assoc, Int.mul_comm d m]
  rw [h2, Int.add_mul_ediv_right _ _ (by omega : d ≠ 0)]
  omega

theorem mulDiv_neg_v (v m d : Int) : mulDiv (-v) m d = - mulDiv v m d := by
  simp [mulDiv, Int.neg_mul, Int.neg_add]

theorem mulDiv_neg_m (v m d : Int) : mulDiv v (-m) d = - mulDiv v m d := by
  simp [mulDiv, Int.mul_neg, Int.neg_add]

theorem mulDiv_neg_d (v m d : Int) : mulDiv v m (-d) = - mulDiv v m d := by
  simp [mulDiv, Int.neg_mul, Int.neg_add]

theorem mulDiv_eq_tdiv_aux1 {v m d : Int} (hm : 0 ≤ m) (hd : 0 < d) :
    mulDiv v m d = (v * m).tdiv d := by
  rcases Int.le_total 0 v with hv | hv
  · rw [mulDiv_nonneg_eq hv hm hd, Int.tdiv_eq_ediv_of_nonneg (Int.mul_nonneg hv hm)]
  · have h := mulDiv_nonneg_eq (v := -v) (by omega) hm hd
    rw [mulDiv_neg_v] at h
    have h0 : 0 ≤ -v * m := Int.mul_nonneg (by omega) hm
    rw [← Int.tdiv_eq_ediv_of_nonneg h0, Int.neg_mul, Int.neg_tdiv] at h
    omega

theorem mulDiv_eq_tdiv_aux2 {v m d : Int} (hd : 0 < d) :
    mulDiv v m d = (v * m).tdiv d := by
  rcases Int.le_total 0 m with hm | hm
  · exact mulDiv_eq_tdiv_aux1 hm hd
  · have h := mulDiv_eq_tdiv_aux1 (v := v) (m := -m) (by omega) hd
    rw [mulDiv_neg_m, Int.mul_neg, Int.neg_tdiv] at h
    omega

/-- `multiplyAndDivide` is the truncated quotient of the exact product — for all signs -/
theorem mulDiv_eq_tdiv (v m d : Int) (hd : d ≠ 0) : mulDiv v m d = (v * m).tdiv d := by
  rcases Int.lt_or_gt_of_ne hd with h | h
  · have h' := mulDiv_eq_tdiv_aux2 (v := v) (m := m) (d := -d) (by omega)
    rw [mulDiv_neg_d, Int.tdiv_neg] at h'
    omega
  · exact mulDiv_eq_tdiv_aux2 h

end Rtsp.TimeDec

namespace Rtsp.TimeDec

/-- the truncation error of `multiplyAndDivide` is below one unit of the result: `|v·m − d·result| < |d|` -/
theorem mulDiv_error_lt (v m d : Int) (hd : d ≠ 0) :
    (v * m - d * mulDiv v m d).natAbs < d.natAbs := by
  rw [mulDiv_eq_tdiv v m d hd, Int.mul_tdiv_self]
  have e : v * m - (v * m - (v * m).tmod d) = (v * m).tmod d := by omega
  rw [e]
  rcases Int.lt_or_gt_of_ne hd with h | h
  · have h1 := Int.tmod_lt_of_pos (v * m) (b := -d) (by omega)
    have h2 := Int.lt_tmod_of_pos (v * m) (b := -d) (by omega)
    rw [Int.tmod_neg] at h1 h2
    omega
  · have h1 := Int.tmod_lt_of_pos (v * m) h
    have h2 := Int.lt_tmod_of_pos (v * m) h
    omega

/-- for non-negative arguments the result is the floor of the exact quotient -/
theorem mulDiv_floor_bounds {v m d : Int} (hv : 0 ≤ v) (hm : 0 ≤ m) (hd : 0 < d) :
    d * mulDiv v m d ≤ v * m ∧ v * m < d * (mulDiv v m d + 1) := by
  rw [mulDiv_nonneg_eq hv hm hd]
  have h1 := Int.mul_ediv_self_le (x := v * m) (k := d) (by omega)
  have h2 := Int.lt_mul_ediv_self_add (x := v * m) hd
  rw [Int.mul_add]
  omega

theorem mulDiv_zero (m d : Int) : mulDiv 0 m d = 0 := by simp [mulDiv]

end Rtsp.TimeDec

namespace Rtsp.TimeDec

/-- the point of splitting the division (the Go comment "avoid an int64 overflow"): for non-negative
`v`, `0 ≤ m < 2^31` and `0 < d < 2^31`, every intermediate value of `multiplyAndDivide` is bounded by the
final result or by `2^62`, so the computation fits int64 whenever the result does — although `v·m` may not. -/
theorem mulDiv_intermediates_fit {v m d : Int} (hv : 0 ≤ v) (hm0 : 0 ≤ m) (hm : m < 2147483648)
    (hd0 : 0 < d) (hd : d < 2147483648) :
    0 ≤ v.tdiv d * m ∧ v.tdiv d * m ≤ mulDiv v m d ∧
    0 ≤ v.tmod d * m ∧ v.tmod d * m < 4611686018427387904 ∧
    0 ≤ (v.tmod d * m).tdiv d ∧ (v.tmod d * m).tdiv d < 2147483648 := by
  rw [Int.tdiv_eq_ediv_of_nonneg hv, Int.tmod_eq_emod_of_nonneg hv]
  have hr0 : 0 ≤ v % d := Int.emod_nonneg _ (by omega)
  have hr1 : v % d < d := Int.emod_lt_of_pos _ hd0
  have hq0 : 0 ≤ v / d := Int.ediv_nonneg hv (by omega)
  have h1 : 0 ≤ v / d * m := Int.mul_nonneg hq0 hm0
  have h2 : 0 ≤ v % d * m := Int.mul_nonneg hr0 hm0
  have h3 : v % d * m ≤ 2147483647 * m := Int.mul_le_mul_of_nonneg_right (by omega) hm0
  have h4 : 0 ≤ (v % d * m).tdiv d := by
    rw [Int.tdiv_eq_ediv_of_nonneg h2]; exact Int.ediv_nonneg h2 (by omega)
  have h5 : (v % d * m).tdiv d < 2147483648 := by
    rw [Int.tdiv_eq_ediv_of_nonneg h2]
    have : v % d * m < d * 2147483648 := by
      have a : v % d * m ≤ v % d * 2147483647 := Int.mul_le_mul_of_nonneg_left (by omega) hr0
      have b : v % d * 2147483647 < d * 2147483648 := by omega
      omega
    exact Int.ediv_lt_of_lt_mul hd0 (by rw [Int.mul_comm 2147483648 d]; exact this)
  refine ⟨h1, ?_, h2, by omega, h4, h5⟩
  unfold mulDiv
  rw [Int.tdiv_eq_ediv_of_nonneg hv, Int.tmod_eq_emod_of_nonneg hv]
  omega

end Rtsp.TimeDec
