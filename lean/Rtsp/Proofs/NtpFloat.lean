import Rtsp.Proofs.F64
import Rtsp.Proofs.Ntp
/-
`ntp.Encode`'s float expression, transcribed onto the binary64 model, equals exact integer rounding
for every nanosecond fraction (core Lean only).
-/
namespace Rtsp.Ntp
open Rtsp.F64

/-- the remainder of `2·n·2^32 + 10^9` modulo `2·10^9` is an odd multiple of 2^9: the exact quotient
`n·2^32/10^9` stays at least `1/(2·5^9)` away from every half-integer -/
theorem frac_gap (n : Nat) :
    512 ≤ (2 * (n * 4294967296) + 1000000000) % 2000000000 ∧
    (2 * (n * 4294967296) + 1000000000) % 2000000000 + 512 ≤ 2000000000 := by
  omega

/-- the rounding argument: a float within 2^-22 of `x/10^9`, where `x/10^9` is at least `1/(2·5^9)` away
from every half-integer, rounds (half away from zero) to the nearest integer of `x/10^9` -/
theorem round_core (x : Nat) (B : F) (hB : NearAbs B x 1000000000)
    (hg1 : 512 ≤ (2 * x + 1000000000) % 2000000000)
    (hg2 : (2 * x + 1000000000) % 2000000000 + 512 ≤ 2000000000) :
    roundHalfAway B = (2 * x + 1000000000) / 2000000000 := by
  unfold roundHalfAway
  obtain ⟨hbd, hup, hlo⟩ := hB
  have hdm := Nat.div_add_mod (2 * x + 1000000000) 2000000000
  generalize (2 * x + 1000000000) / 2000000000 = j at hdm ⊢
  generalize (2 * x + 1000000000) % 2000000000 = ρ at hdm hg1 hg2
  -- multiply the division identity and the gap by B.den
  have hid : (2 * x + 1000000000) * B.den = (2000000000 * j + ρ) * B.den := by rw [hdm]
  have hg1' : 512 * B.den ≤ ρ * B.den := Nat.mul_le_mul_right _ hg1
  have hg2' : (ρ + 512) * B.den ≤ 2000000000 * B.den := Nat.mul_le_mul_right _ hg2
  rw [Nat.add_mul] at hid hg2'
  rw [Nat.add_mul] at hid
  have e3 : 2 * x * B.den = 2 * (x * B.den) := Nat.mul_assoc _ _ _
  have e4 : 2000000000 * j * B.den = 2000000000 * (j * B.den) := Nat.mul_assoc _ _ _
  have e5 : B.num * 1000000000 = 1000000000 * B.num := Nat.mul_comm _ _
  rw [e3, e4] at hid
  rw [e5] at hup hlo
  have e6 : j * (2 * B.den) = 2 * (j * B.den) := by grind
  have e7 : (j + 1) * (2 * B.den) = 2 * (j * B.den) + 2 * B.den := by grind
  apply Nat.div_eq_of_lt_le
  · show j * (2 * B.den) ≤ 2 * B.num + B.den
    rw [e6]
    generalize x * B.den = X at *
    generalize j * B.den = J at *
    generalize ρ * B.den = R at *
    omega
  · show 2 * B.num + B.den < (j + 1) * (2 * B.den)
    rw [e7]
    generalize x * B.den = X at *
    generalize j * B.den = J at *
    generalize ρ * B.den = R at *
    omega

/-- **`uint64(math.Round(float64(n·2^32) / 1e9))` on the binary64 model is the nearest integer of
`n·2^32/10^9`** (no tie occurs), for every `n < 10^9` -/
theorem encFracFloat_eq (n : Nat) (hn : n < 1000000000) : encFracFloat n = encFrac n := by
  unfold encFracFloat encFrac roundDiv
  rw [nanos_eq]
  unfold two32
  have e32 : (4294967296 : Nat) = 2 ^ 32 := by decide
  obtain ⟨ha, hap⟩ := ofNat_exact_shift n 32 (by unfold two53; omega)
  rw [← e32] at ha hap
  obtain ⟨hb, hbp⟩ := ofNat_exact 1000000000 (by unfold two53; omega)
  -- the float quotient
  have hq : 0 < (ofNat (n * 4294967296)).den * (ofNat 1000000000).num := by
    rw [hb]; exact Nat.mul_pos hap (Nat.mul_pos (by decide) hbp)
  have hlt : (ofNat (n * 4294967296)).num * (ofNat 1000000000).den
      < 4294967296 * ((ofNat (n * 4294967296)).den * (ofNat 1000000000).num) := by
    rw [ha, hb]
    have hc : 0 < (ofNat (n * 4294967296)).den * (ofNat 1000000000).den := Nat.mul_pos hap hbp
    have : n * 4294967296 * ((ofNat (n * 4294967296)).den * (ofNat 1000000000).den)
        < 4294967296 * 1000000000 * ((ofNat (n * 4294967296)).den * (ofNat 1000000000).den) :=
      Nat.mul_lt_mul_of_pos_right (by omega) hc
    grind
  have h := roundQ_abs _ _ hq hlt
  have hdiv : div (ofNat (n * 4294967296)) (ofNat 1000000000)
      = roundQ ((ofNat (n * 4294967296)).num * (ofNat 1000000000).den)
               ((ofNat (n * 4294967296)).den * (ofNat 1000000000).num) := rfl
  rw [← hdiv] at h
  rw [ha, hb] at h
  have e1 : n * 4294967296 * (ofNat (n * 4294967296)).den * (ofNat 1000000000).den
      = (n * 4294967296) * ((ofNat (n * 4294967296)).den * (ofNat 1000000000).den) := by grind
  have e2 : (ofNat (n * 4294967296)).den * (1000000000 * (ofNat 1000000000).den)
      = 1000000000 * ((ofNat (n * 4294967296)).den * (ofNat 1000000000).den) := by grind
  rw [e1, e2] at h
  have hB := NearAbs.cancel (Nat.mul_pos hap hbp) h
  generalize div (ofNat (n * 4294967296)) (ofNat 1000000000) = B at hB ⊢
  have hgap := frac_gap n
  exact round_core (n * 4294967296) B hB hgap.1 hgap.2

end Rtsp.Ntp
