import Rtsp.Model.Async
import Rtsp.Proofs.RingRefine
/-
Invariants of the processor model (Model/Async.lean) under every interleaving of caller steps
(push / start / the statements of Close) and consumer steps.
-/
namespace Rtsp.Async
open Rtsp.Ring
variable {size : Nat}

/-- the callback the consumer has pulled and not finished -/
def held (p : Proc) : List Cb :=
  match p.cons with
  | .holding c => [c]
  | _ => []

/-- the consumer can no longer run anything -/
def Stopped (p : Proc) : Prop := (∃ c, p.cons = .inError c) ∨ p.cons = .exited

structure AInv (p : Proc) : Prop where
  ring : RingInv p.ring
  /-- accounting: accepted = executed ++ in execution ++ discarded by Close ++ queued -/
  acct : ∃ mid, p.accepted = p.executed ++ held p ++ mid ++ absItems p.ring ∧ (p.ring.closed = false → mid = [])
  errs : p.errors = p.executed.filter (·.fails)
  err1 : p.errors = [] ∨ ∃ c, p.errors = [c] ∧ p.executed.getLast? = some c ∧ (p.cons = .inError c ∨ p.cons = .exited)
  inErr : ∀ c, p.cons = .inError c → p.errors = [c]
  run : p.running = (p.cons != .notStarted)
  clo : (p.closer = .ringClosed ∨ p.closer = .returned) → p.ring.closed = true
  ret : p.closer = .returned → p.cons = .notStarted ∨ p.cons = .pulling ∨ p.cons = .exited
  canc : p.closer = .none ∨ p.cancelled = true

theorem ainv_init (h : 0 < size) (b : Bool) : AInv (init size b) where
  ring := ringInv_new h
  acct := ⟨[], by simp [init, held, absItems_of_inv (inv_new size h)], fun _ => rfl⟩
  errs := rfl
  err1 := .inl rfl
  inErr := fun c hc => by simp [init] at hc
  run := rfl
  clo := fun hc => by simp [init] at hc
  ret := fun hc => by simp [init] at hc
  canc := .inl rfl

theorem ainv_push {p : Proc} (h : AInv p) (c : Cb) : AInv (push p c).1 := by
  obtain ⟨mid, hacc, hmid⟩ := h.acct
  have hcons : (push p c).1.cons = p.cons := rfl
  have hheld : held (push p c).1 = held p := rfl
  refine {
      ring := (push_refines h.ring c).1
      acct := ?_
      errs := h.errs
      err1 := h.err1
      inErr := h.inErr
      run := h.run
      clo := fun hc => by simp only [push, push_closed]; exact h.clo hc
      ret := h.ret
      canc := h.canc }
  refine ⟨mid, ?_, by intro hc; apply hmid; simpa only [push, push_closed] using hc⟩
  rw [hheld]
  by_cases hok : (Ring.push p.ring c).2 = true
  · have hi := absItems_push_ok h.ring c hok
    simp only [push, hok, if_true, hi]
    rw [hacc]; simp
  · have hno : (Ring.push p.ring c).2 = false := by simpa using hok
    simp only [push, hno, push_false_eq _ _ hno]
    exact hacc

theorem ainv_start {p : Proc} (h : AInv p) : AInv (start p) := by
  unfold start
  split
  · rename_i hc
    obtain ⟨mid, hacc, hmid⟩ := h.acct
    exact {
      ring := h.ring
      acct := ⟨mid, by simpa only [held, hc] using hacc, hmid⟩
      errs := h.errs
      err1 := by
        rcases h.err1 with e | ⟨c, e1, e2, e3⟩
        · exact .inl e
        · rw [hc] at e3; rcases e3 with e3 | e3 <;> cases e3
      inErr := fun c hcc => by cases hcc
      run := rfl
      clo := h.clo
      ret := fun hr => .inr (.inl rfl)
      canc := h.canc }
  · exact h

theorem ainv_closeStep {p : Proc} (h : AInv p) : AInv (closeStep p) := by
  obtain ⟨mid, hacc, hmid⟩ := h.acct
  have cancel : AInv { p with cancelled := true, closer := .cancelled } :=
    { ring := h.ring, acct := ⟨mid, hacc, hmid⟩, errs := h.errs, err1 := h.err1, inErr := h.inErr, run := h.run,
      clo := fun hc => by rcases hc with hc | hc <;> cases hc
      ret := fun hc => by cases hc
      canc := .inr rfl }
  unfold closeStep
  split
  · exact cancel
  · exact cancel
  · -- `w.buffer.Close()`
    obtain ⟨hri, hre⟩ := close_refines h.ring
    have hitems : absItems (Ring.close p.ring) = [] := by
      have := congrArg Fifo.Fifo.items hre
      simpa [Fifo.close, abs] using this.symm
    exact {
      ring := hri
      acct := ⟨mid ++ absItems p.ring, by
        simp only [hitems, List.append_nil]
        have : held { p with ring := Ring.close p.ring, closer := ClPc.ringClosed } = held p := rfl
        rw [this, hacc]; simp, fun hc => by simp [Ring.close] at hc⟩
      errs := h.errs, err1 := h.err1, inErr := h.inErr, run := h.run
      clo := fun _ => rfl
      ret := fun hc => by cases hc
      canc := by rcases h.canc with e | e; (· rename_i hcl; rw [hcl] at e; cases e); exact .inr e }
  · -- `if w.running { <-w.done }`
    rename_i hcl
    split
    · rename_i hcond
      exact {
        ring := h.ring, acct := ⟨mid, hacc, hmid⟩, errs := h.errs, err1 := h.err1, inErr := h.inErr, run := h.run
        clo := fun _ => h.clo (.inl hcl)
        ret := fun _ => by
          have hr := h.run
          simp only [Bool.or_eq_true, Bool.not_eq_true', beq_iff_eq] at hcond
          rcases hcond with hc | hc
          · left
            rw [hc] at hr
            simpa using hr.symm
          · exact .inr (.inr hc)
        canc := by rcases h.canc with e | e; (· rw [hcl] at e; cases e); exact .inr e }
    · exact h

theorem ainv_cpull {p : Proc} (h : AInv p) : AInv (cpull p) := by
  obtain ⟨mid, hacc, hmid⟩ := h.acct
  unfold cpull
  split
  · rename_i hc
    split
    · rename_i r c hp
      have hp1 : (pullTry p.ring).1 = r := by rw [hp]
      have hp2 : (pullTry p.ring).2 = .item c := by rw [hp]
      obtain ⟨hopen, hitems⟩ := absItems_pull_item h.ring hp2
      have hm := hmid hopen
      subst hm
      exact {
        ring := by rw [← hp1]; exact (pull_refines h.ring).1
        acct := ⟨[], by
          simp only [held, hc, List.append_nil] at hacc
          simp only [held, List.append_nil]
          rw [hacc, hitems, hp1]; simp, fun _ => rfl⟩
        errs := h.errs
        err1 := by
          rcases h.err1 with e | ⟨c', e1, e2, e3⟩
          · exact .inl e
          · rw [hc] at e3; rcases e3 with e3 | e3 <;> cases e3
        inErr := fun c' hcc => by cases hcc
        run := by rw [h.run, hc]; rfl
        clo := fun hcl => by
          have := h.clo hcl
          rw [hopen] at this; cases this
        ret := fun hr => by
          have := h.clo (.inr hr)
          rw [hopen] at this; cases this
        canc := h.canc }
    · exact {
        ring := h.ring
        acct := ⟨mid, by simpa only [held, hc] using hacc, hmid⟩
        errs := h.errs
        err1 := by
          rcases h.err1 with e | ⟨c', e1, e2, e3⟩
          · exact .inl e
          · exact .inr ⟨c', e1, e2, .inr rfl⟩
        inErr := fun c' hcc => by cases hcc
        run := by rw [h.run, hc]; rfl
        clo := h.clo
        ret := fun _ => .inr (.inr rfl)
        canc := h.canc }
    · exact h
  · exact h

theorem filter_fails_append (l : List Cb) (c : Cb) :
    (l ++ [c]).filter (·.fails) = l.filter (·.fails) ++ (if c.fails then [c] else []) := by
  simp only [List.filter_append, List.filter_cons, List.filter_nil]

theorem ainv_cexec {p : Proc} (h : AInv p) : AInv (cexec p) := by
  obtain ⟨mid, hacc, hmid⟩ := h.acct
  unfold cexec
  split
  · rename_i c hc
    have herr0 : p.errors = [] := by
      rcases h.err1 with e | ⟨c', e1, e2, e3⟩
      · exact e
      · rw [hc] at e3; rcases e3 with e3 | e3 <;> cases e3
    split
    · rename_i hf
      exact {
        ring := h.ring
        acct := ⟨mid, by simp only [held, hc] at hacc; simp only [held]; rw [hacc]; simp, hmid⟩
        errs := by
          show p.errors ++ [c] = (p.executed ++ [c]).filter (·.fails)
          rw [filter_fails_append, ← h.errs, hf]; rfl
        err1 := .inr ⟨c, by show p.errors ++ [c] = [c]; rw [herr0]; rfl, by simp, .inl rfl⟩
        inErr := fun c' hcc => by
          injection hcc with hcc; subst hcc
          show p.errors ++ [c] = [c]; rw [herr0]; rfl
        run := by rw [h.run, hc]; rfl
        clo := h.clo
        ret := fun hr => by rcases h.ret hr with e | e | e <;> rw [hc] at e <;> cases e
        canc := h.canc }
    · rename_i hf
      exact {
        ring := h.ring
        acct := ⟨mid, by simp only [held, hc] at hacc; simp only [held]; rw [hacc]; simp, hmid⟩
        errs := by
          show p.errors = (p.executed ++ [c]).filter (·.fails)
          rw [filter_fails_append, ← h.errs]; simp [hf]
        err1 := .inl herr0
        inErr := fun c' hcc => by cases hcc
        run := by rw [h.run, hc]; rfl
        clo := h.clo
        ret := fun _ => .inr (.inl rfl)
        canc := h.canc }
  · exact h

theorem ainv_cerr {p : Proc} (h : AInv p) : AInv (cerr p) := by
  obtain ⟨mid, hacc, hmid⟩ := h.acct
  unfold cerr
  split
  · rename_i c hc
    split
    · exact {
        ring := h.ring
        acct := ⟨mid, by simpa only [held, hc] using hacc, hmid⟩
        errs := h.errs
        err1 := by
          rcases h.err1 with e | ⟨c', e1, e2, e3⟩
          · exact .inl e
          · exact .inr ⟨c', e1, e2, .inr rfl⟩
        inErr := fun c' hcc => by cases hcc
        run := by rw [h.run, hc]; rfl
        clo := h.clo
        ret := fun _ => .inr (.inr rfl)
        canc := h.canc }
    · exact h
  · exact h

theorem ainv_step {p : Proc} (h : AInv p) (op : AOp) : AInv (step p op) := by
  cases op with
  | push c => exact ainv_push h c
  | start => exact ainv_start h
  | closeStep => exact ainv_closeStep h
  | cpull => exact ainv_cpull h
  | cexec => exact ainv_cexec h
  | cerr => exact ainv_cerr h

theorem run_nil (p : Proc) : run p [] = p := rfl
theorem run_cons (p : Proc) (op : AOp) (ops : List AOp) : run p (op :: ops) = run (step p op) ops := rfl
theorem run_append (p : Proc) (ops1 ops2 : List AOp) : run p (ops1 ++ ops2) = run (run p ops1) ops2 := by
  simp only [run, List.foldl_append]

theorem ainv_run {p : Proc} (h : AInv p) (ops : List AOp) : AInv (run p ops) := by
  induction ops generalizing p with
  | nil => exact h
  | cons op ops ih => exact ih (ainv_step h op)

/-- every state reachable from `Initialize` satisfies the invariant -/
theorem ainv_reachable (h : 0 < size) (b : Bool) (ops : List AOp) : AInv (run (init size b) ops) :=
  ainv_run (ainv_init h b) ops

end Rtsp.Async
