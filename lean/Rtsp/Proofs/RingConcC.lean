import Rtsp.Proofs.RingConcB
/-
Progress (no deadlock): from every reachable state in which there is something for the consumer to
see — an item in the slot at `readIndex`, or `closed` — there is a finite schedule after which the
consumer's `Pull` has returned.
-/
namespace Rtsp.RingConc
open Rtsp.Ring
variable {α : Type}

/-- there is something for the consumer to see -/
def Visible (r : Ring α) : Prop := slot r r.readIndex ≠ none ∨ r.closed = true

theorem pullTry_visible {r : Ring α} (h : Visible r) : (pullTry r).2 ≠ .wait := by
  intro hw
  obtain ⟨_, hn, hc⟩ := pullTry_wait r hw
  rcases h with h | h
  · exact h hn
  · rw [hc] at h; cases h

theorem visible_push {r : Ring α} (x : α) (h : Visible r) : Visible (Ring.push r x).1 := by
  unfold Visible at h ⊢
  simp only [Ring.push]
  split
  · exact h
  · rcases h with h | h
    · left
      simp only [slot, List.getElem?_set] at h ⊢
      split
      · rename_i e
        split
        · simp
        · rename_i hlt
          rw [← e, List.getElem?_eq_none (by omega)] at h
          simp at h
      · exact h
    · exact .inr h

theorem visible_close (r : Ring α) : Visible (Ring.close r) := .inr rfl

/-- there is a finite schedule after which the consumer has returned from `Pull` once more -/
def Prog (s : State α) : Prop :=
  ∃ acts s', runActs s acts = some s' ∧ s'.returns.length = s.returns.length + 1

theorem prog_of_step {s s1 : State α} {a : Act α} (h : step? s a = some s1)
    (hr : s1.returns = s.returns) (hp : Prog s1) : Prog s := by
  obtain ⟨acts, s', hrun, hlen⟩ := hp
  exact ⟨a :: acts, s', by simp only [runActs, h, hrun], by rw [hlen, hr]⟩

theorem returnsAfter_length (rs : List (PullRes α)) (p : PullRes α) (h : p ≠ .wait) :
    (returnsAfter rs p).length = rs.length + 1 := by
  cases p <;> simp [returnsAfter] at h ⊢

theorem prog_locked {s : State α} (hc : s.cons = .locked) (hv : Visible s.ring) : Prog s := by
  have hstep : step? s .consBody = some { s with ring := (pullTry s.ring).1, owner := none, cons := consAfter (pullTry s.ring).2, log := s.log ++ [⟨.cons, .pull, .pulled (pullTry s.ring).2⟩], returns := returnsAfter s.returns (pullTry s.ring).2 } := by
    simp only [step?, hc]
  exact ⟨[.consBody], _, by simp only [runActs, hstep]; rfl, returnsAfter_length _ _ (pullTry_visible hv)⟩

theorem prog_idle_free {s : State α} (hc : s.cons = .idle) (ho : s.owner = none) (hv : Visible s.ring) : Prog s := by
  have hstep : step? s .consLock = some { s with cons := .locked, owner := some .cons, acq := s.acq ++ [(.cons, .pull)] } := by
    simp only [step?, hc, ho]
  exact prog_of_step hstep rfl (prog_locked rfl hv)

theorem prog_relocked {s : State α} (hc : s.cons = .relocked) (hv : Visible s.ring) : Prog s := by
  have hstep : step? s .consUnlock = some { s with cons := .idle, owner := none } := by
    simp only [step?, hc]
  exact prog_of_step hstep rfl (prog_idle_free rfl rfl hv)

theorem prog_woken_free {s : State α} (hc : s.cons = .woken) (ho : s.owner = none) (hv : Visible s.ring) : Prog s := by
  have hstep : step? s .consReacq = some { s with cons := .relocked, owner := some .cons } := by
    simp only [step?, hc, ho]
  exact prog_of_step hstep rfl (prog_relocked rfl hv)

/-- a thread other than the consumer that holds the mutex can finish its critical section; the
consumer is not affected and what it can see stays visible -/
theorem release_lock {s : State α} (hi : OwnerInv s) {t : Tid} (ho : s.owner = some t) (ht : t ≠ .cons)
    (hv : Visible s.ring) :
    ∃ a s', step? s a = some s' ∧ s'.owner = none ∧ s'.cons = s.cons ∧ s'.returns = s.returns ∧ Visible s'.ring := by
  cases t with
  | cons => exact absurd rfl ht
  | prod i =>
    have := hi.prod i
    rw [ho] at this
    cases hp : s.prod i with
    | idle => rw [hp] at this; simp at this
    | bcast => rw [hp] at this; simp at this
    | locked x =>
      have hstep : step? s (.prodBody i) = some { s with ring := (Ring.push s.ring x).1, owner := none, prod := setProd s.prod i (if (Ring.push s.ring x).2 then .bcast else .idle), log := s.log ++ [⟨.prod i, .push x, .pushed (Ring.push s.ring x).2⟩] } := by
        simp only [step?, hp]
      exact ⟨.prodBody i, _, hstep, rfl, rfl, rfl, visible_push x hv⟩
  | closer =>
    have := hi.closer
    rw [ho] at this
    cases hk : s.closer with
    | idle => rw [hk] at this; simp at this
    | bcast => rw [hk] at this; simp at this
    | locked =>
      have hstep : step? s .closerBody = some { s with ring := Ring.close s.ring, owner := none, closer := .bcast, log := s.log ++ [⟨.closer, .close, .done⟩] } := by
        simp only [step?, hk]
      exact ⟨.closerBody, _, hstep, rfl, rfl, rfl, visible_close _⟩

theorem owner_ne_cons {s : State α} (hi : OwnerInv s) (hc : s.cons.holds = false) {t : Tid}
    (ho : s.owner = some t) : t ≠ .cons := by
  intro e; subst e
  have := hi.cons
  rw [ho, hc] at this
  simp at this

theorem prog_idle {s : State α} (hi : OwnerInv s) (hc : s.cons = .idle) (hv : Visible s.ring) : Prog s := by
  cases ho : s.owner with
  | none => exact prog_idle_free hc ho hv
  | some t =>
    obtain ⟨a, s1, hstep, ho1, hc1, hr1, hv1⟩ := release_lock hi ho (owner_ne_cons hi (by rw [hc]; rfl) ho) hv
    exact prog_of_step hstep hr1 (prog_idle_free (hc1.trans hc) ho1 hv1)

theorem prog_woken {s : State α} (hi : OwnerInv s) (hc : s.cons = .woken) (hv : Visible s.ring) : Prog s := by
  cases ho : s.owner with
  | none => exact prog_woken_free hc ho hv
  | some t =>
    obtain ⟨a, s1, hstep, ho1, hc1, hr1, hv1⟩ := release_lock hi ho (owner_ne_cons hi (by rw [hc]; rfl) ho) hv
    exact prog_of_step hstep hr1 (prog_woken_free (hc1.trans hc) ho1 hv1)

theorem prog_waiting {s : State α} (hi : OwnerInv s) (hn : NoLostWakeup s) (hc : s.cons = .waiting)
    (hv : Visible s.ring) : Prog s := by
  rcases hn hc with ⟨h1, h2⟩ | ⟨i, hb⟩ | hb
  · rcases hv with hv | hv
    · exact absurd h1 hv
    · rw [h2] at hv; cases hv
  · have hstep : step? s (.prodBcast i) = some { s with prod := setProd s.prod i .idle, cons := wake s.cons } := by
      simp only [step?, hb]
    exact prog_of_step hstep rfl (prog_woken (ownerInv_step _ hi hstep) (by simp only [hc, wake]) hv)
  · have hstep : step? s .closerBcast = some { s with closer := .idle, cons := wake s.cons } := by
      simp only [step?, hb]
    exact prog_of_step hstep rfl (prog_woken (ownerInv_step _ hi hstep) (by simp only [hc, wake]) hv)

/-- **progress**: in every reachable state where an item is at the read position or the ring is
closed, some finite schedule makes the consumer's `Pull` return -/
theorem progress {size : Nat} {s : State α} (h : Reachable size s) (hv : Visible s.ring) : Prog s := by
  have hi := ownerInv_reachable h
  have hn := noLostWakeup_reachable h
  cases hc : s.cons with
  | idle => exact prog_idle hi hc hv
  | locked => exact prog_locked hc hv
  | waiting => exact prog_waiting hi hn hc hv
  | woken => exact prog_woken hi hc hv
  | relocked => exact prog_relocked hc hv

end Rtsp.RingConc
