import Rtsp.Proofs.Pipeline.Udp
/-
UDP readers, order (C01): the callbacks of one media and format are exactly what the C14 receiver model
releases when it is run, from power-on, on the arrival sequence of that media and format.  Hence every
theorem of C14 about arrival histories (ordered, de-duplicated delivery; loss accounting) speaks about
the callbacks of a UDP reader of the pipeline.
-/
namespace Rtsp.Pipe
open Rtsp.Recv

theorem filterMap_congr' {α β : Type} {f g : α → Option β} (l : List α) (h : ∀ a ∈ l, f a = g a) :
    l.filterMap f = l.filterMap g := by
  induction l with
  | nil => rfl
  | cons a t ih =>
    simp only [List.filterMap_cons, h a List.mem_cons_self]
    rw [ih (fun b hb => h b (List.mem_cons_of_mem _ hb))]

/-! ## the receiver, run on a list that grows at the end -/

theorem run_snoc (s : Recv.State) (ps : List Recv.Pkt) (p : Recv.Pkt) :
    Recv.run s (ps ++ [p]) =
      ((Recv.step (Recv.run s ps).1 p).1, (Recv.run s ps).2 ++ [(Recv.step (Recv.run s ps).1 p).2]) := by
  induction ps generalizing s with
  | nil => simp [Recv.run]
  | cons q t ih => simp [Recv.run, ih]

/-- what a run holds and releases comes from its start state or its input -/
theorem run_contain (P : Recv.Pkt → Prop) (ps : List Recv.Pkt) : ∀ (s : Recv.State),
    (∀ q, some q ∈ s.buf → P q) → (∀ p ∈ ps, P p) →
    (∀ q, some q ∈ (Recv.run s ps).1.buf → P q) ∧ (∀ o ∈ (Recv.run s ps).2, ∀ q ∈ o.pkts, P q) := by
  induction ps with
  | nil => intro s hb _; exact ⟨hb, fun o ho => by cases ho⟩
  | cons p t ih =>
    intro s hb hp
    obtain ⟨h1, h2⟩ := step_contain s p P hb (hp p List.mem_cons_self)
    obtain ⟨h3, h4⟩ := ih (Recv.step s p).1 h1 (fun q hq => hp q (List.mem_cons_of_mem _ hq))
    simp only [Recv.run]
    refine ⟨h3, ?_⟩
    intro o ho
    rcases List.mem_cons.mp ho with ho | ho
    · subst ho; exact h2
    · exact h4 o ho

/-! ## the arrivals of one media and format -/

def rpkt (i : Nat) (g : Frame) : Recv.Pkt := { seq := UInt16.ofNat g.pkt.seq, id := i }

/-- the arrivals of media/format `key` as its receiver sees them; ids are positions in the reader's
whole arrival history (starting at `i`) -/
def keyArr (key : Nat × Nat) : Nat → List Frame → List Recv.Pkt
  | _, [] => []
  | i, g :: gs => (if keyOf g = key then [rpkt i g] else []) ++ keyArr key (i + 1) gs

theorem keyArr_snoc (key : Nat × Nat) (a : List Frame) (g : Frame) : ∀ i,
    keyArr key i (a ++ [g]) = keyArr key i a ++ (if keyOf g = key then [rpkt (i + a.length) g] else []) := by
  induction a with
  | nil => intro i; simp [keyArr]
  | cons h t ih =>
    intro i
    simp only [List.cons_append, keyArr, ih (i + 1), List.append_assoc, List.length_cons]
    have : i + 1 + t.length = i + (t.length + 1) := by omega
    rw [this]

theorem keyArr_ids (key : Nat × Nat) (a : List Frame) : ∀ i, ∀ q ∈ keyArr key i a,
    i ≤ q.id ∧ q.id < i + a.length ∧ ∃ g, a[q.id - i]? = some g ∧ keyOf g = key := by
  induction a with
  | nil => intro i q hq; cases hq
  | cons h t ih =>
    intro i q hq
    simp only [keyArr, List.mem_append] at hq
    rcases hq with hq | hq
    · split at hq
      · rename_i hk
        simp only [List.mem_singleton] at hq
        subst hq
        exact ⟨Nat.le_refl _, by simp [rpkt], h, by simp [rpkt], hk⟩
      · cases hq
    · obtain ⟨h1, h2, g, hg, hk⟩ := ih (i + 1) q hq
      refine ⟨by omega, by simp only [List.length_cons]; omega, g, ?_, hk⟩
      have : q.id - i = (q.id - (i + 1)) + 1 := by omega
      rw [this, List.getElem?_cons_succ]; exact hg

/-- power-on state of a format's receiver in a UDP reader -/
def R0 : Recv.State := Recv.init true Rtsp.Facts.Recv.defaultBufferSize

theorem R0_empty : ∀ q, some q ∉ R0.buf := by
  intro q hq
  simp only [R0, Recv.init, if_true] at hq
  cases List.eq_of_mem_replicate hq

/-- everything the receiver of `key` holds or has released, run on the arrivals `a`, is an arrival of
`key` (and its id is a position in `a`) -/
theorem keyRun_contain (key : Nat × Nat) (a : List Frame) :
    (∀ q, some q ∈ (Recv.run R0 (keyArr key 0 a)).1.buf → ∃ g, a[q.id]? = some g ∧ keyOf g = key) ∧
    (∀ o ∈ (Recv.run R0 (keyArr key 0 a)).2, ∀ q ∈ o.pkts, ∃ g, a[q.id]? = some g ∧ keyOf g = key) := by
  apply run_contain (fun q => ∃ g, a[q.id]? = some g ∧ keyOf g = key)
  · intro q hq; exact absurd hq (R0_empty q)
  · intro p hp
    obtain ⟨_, _, g, hg, hk⟩ := keyArr_ids key a 0 p hp
    exact ⟨g, by simpa using hg, hk⟩

/-! ## receivers of a reader -/

theorem lookup_filter_ne {β : Type} (l : List ((Nat × Nat) × β)) (k k' : Nat × Nat) (h : k' ≠ k) :
    (l.filter (fun e => e.1 != k)).lookup k' = l.lookup k' := by
  induction l with
  | nil => rfl
  | cons e t ih =>
    obtain ⟨a, b⟩ := e
    by_cases ha : a = k
    · subst ha
      have h1 : (k' == a) = false := by simpa using h
      simp [List.lookup_cons, h1, ih]
    · have h1 : (a != k) = true := by simpa using ha
      simp only [List.filter_cons, h1, if_true, List.lookup_cons, ih]

theorem rxGet_rxSet_same (x : Reader) (k : Nat × Nat) (st : Recv.State) (y : Reader) (hy : y.rx = rxSet x k st) :
    rxGet y k = st := by
  simp [rxGet, hy, rxSet]

theorem rxGet_rxSet_ne (x : Reader) (k k' : Nat × Nat) (st : Recv.State) (y : Reader) (hy : y.rx = rxSet x k st)
    (h : k' ≠ k) : rxGet y k' = rxGet x k' := by
  have h1 : (k' == k) = false := by simpa using h
  simp only [rxGet, hy, rxSet, List.lookup_cons, h1]
  rw [lookup_filter_ne _ k k' h]

/-- callbacks of media/format `key` -/
def cbsOf (key : Nat × Nat) (l : List Deliv) : List Deliv := l.filter (fun d => (d.media, d.pt) == key)

/-- the packets a run released, as callbacks: looked up in the arrival history -/
def released (a : List Frame) (os : List Recv.Out) : List Deliv :=
  (os.flatMap (·.pkts)).filterMap (fun q => (a[q.id]?).map Frame.deliv)

structure VInv (x : Reader) : Prop where
  rx_run  : ∀ key, rxGet x key = (Recv.run R0 (keyArr key 0 x.arrived)).1
  cbs_run : ∀ key, cbsOf key x.cbs = released x.arrived (Recv.run R0 (keyArr key 0 x.arrived)).2

theorem vinv_init (u : Bool) : VInv { udp := u } := by
  constructor
  · intro key; simp [rxGet, keyArr, Recv.run, R0]
  · intro key; simp [cbsOf, released, keyArr, Recv.run]

theorem released_mono (a : List Frame) (f : Frame) (os : List Recv.Out)
    (h : ∀ o ∈ os, ∀ q ∈ o.pkts, q.id < a.length) : released (a ++ [f]) os = released a os := by
  unfold released
  apply filterMap_congr'
  intro q hq
  obtain ⟨o, ho, hqo⟩ := List.mem_flatMap.mp hq
  rw [List.getElem?_append_left (h o ho q hqo)]

theorem vinv_rarrive {cfg : Cfg} {ws : WLog} {x : Reader} (hr : RInv cfg ws x) (h : VInv x)
    (f : Frame) (hf : f ∈ x.wire) : VInv (rarrive cfg x f) := by
  have hok : FrameOK cfg x f := hr.frames_ok f (List.mem_append_left _ hf)
  have hkf : keyOf f = (f.media, f.pkt.pt) := rfl
  unfold rarrive
  rw [demux_ok cfg x hr.chan_ok f hok]
  simp only
  -- ids released so far are positions of the old history
  have hold : ∀ key, ∀ o ∈ (Recv.run R0 (keyArr key 0 x.arrived)).2, ∀ q ∈ o.pkts, q.id < x.arrived.length := by
    intro key o ho q hq
    obtain ⟨g, hg, _⟩ := (keyRun_contain key x.arrived).2 o ho q hq
    rcases Nat.lt_or_ge q.id x.arrived.length with h | h
    · exact h
    · rw [List.getElem?_eq_none h] at hg; cases hg
  constructor
  · intro key
    by_cases hk : key = (f.media, f.pkt.pt)
    · subst hk
      rw [rxGet_rxSet_same x _ _ _ rfl, keyArr_snoc, if_pos hkf, run_snoc, ← h.rx_run]
      simp [rpkt]
    · rw [rxGet_rxSet_ne x _ key _ _ rfl hk, keyArr_snoc, if_neg (fun e => hk (by rw [← e, hkf])), List.append_nil]
      exact h.rx_run key
  · intro key
    by_cases hk : key = (f.media, f.pkt.pt)
    · subst hk
      rw [keyArr_snoc, if_pos hkf, run_snoc, ← h.rx_run]
      simp only [cbsOf, List.filter_append, released, List.flatMap_append, List.filterMap_append,
        List.flatMap_cons, List.flatMap_nil, List.append_nil, Nat.zero_add]
      have h1 := h.cbs_run (f.media, f.pkt.pt)
      simp only [cbsOf] at h1
      rw [h1]
      have h2 := released_mono x.arrived f _ (hold (f.media, f.pkt.pt))
      simp only [released] at h2
      rw [h2]
      congr 1
      -- the packets released by this arrival: all of this media and format
      have hcont := (keyRun_contain (f.media, f.pkt.pt) (x.arrived ++ [f])).2
      rw [keyArr_snoc, if_pos hkf, run_snoc, ← h.rx_run] at hcont
      simp only [Nat.zero_add, rpkt] at hcont
      have hall : ∀ q ∈ (Recv.step (rxGet x (f.media, f.pkt.pt)) { seq := UInt16.ofNat f.pkt.seq, id := x.arrived.length }).2.pkts,
          ∃ g, (x.arrived ++ [f])[q.id]? = some g ∧ keyOf g = (f.media, f.pkt.pt) :=
        fun q hq => hcont _ (List.mem_append_right _ (List.mem_singleton.mpr rfl)) q hq
      rw [List.filter_eq_self.mpr]
      · apply filterMap_congr'
        intro q hq
        obtain ⟨g, hg, hgk⟩ := hall q hq
        simp only [keyOf, Prod.mk.injEq] at hgk
        simp [hg, Frame.deliv, hgk.1, hgk.2]
      · intro d hd
        obtain ⟨q, _, hqd⟩ := List.mem_filterMap.mp hd
        cases hg : (x.arrived ++ [f])[q.id]? with
        | none => rw [hg] at hqd; cases hqd
        | some g => rw [hg] at hqd; simp at hqd; subst hqd; simp
    · rw [keyArr_snoc, if_neg (fun e => hk (by rw [← e, hkf])), List.append_nil]
      rw [released_mono x.arrived f _ (hold key), ← h.cbs_run key]
      unfold cbsOf
      rw [List.filter_append]
      have hnil : ∀ (l : List Deliv), (∀ d ∈ l, (d.media, d.pt) = (f.media, f.pkt.pt)) →
          l.filter (fun d => (d.media, d.pt) == key) = [] := by
        intro l hl
        rw [List.filter_eq_nil_iff]
        intro d hd
        have := hl d hd
        simp only [beq_iff_eq]
        intro e; exact hk (by rw [← e, this])
      refine List.append_right_eq_self.mpr (hnil _ ?_)
      intro d hd
      obtain ⟨q, _, hqd⟩ := List.mem_filterMap.mp hd
      cases hg : (x.arrived ++ [f])[q.id]? with
      | none => rw [hg] at hqd; cases hqd
      | some g => rw [hg] at hqd; simp at hqd; subst hqd; rfl

theorem vinv_frame {x x' : Reader} (h : VInv x) (ha : x'.arrived = x.arrived) (hc : x'.cbs = x.cbs)
    (hx : x'.rx = x.rx) : VInv x' := by
  constructor
  · intro key; rw [ha, ← h.rx_run key]; simp [rxGet, hx]
  · intro key; rw [ha, hc]; exact h.cbs_run key

theorem vinv_write {cfg : Cfg} {x : Reader} (h : VInv x) (m : Nat) (p : Pkt) : VInv (rwrite cfg x m p) := by
  apply vinv_frame h <;> (unfold rwrite; split)
  all_goals first
    | rfl
    | (split <;> rfl)

theorem vinv_ctl {cfg : Cfg} {ws : WLog} {x : Reader} (hr : RInv cfg ws x) (hu : x.udp = true)
    (h : VInv x) (c : Ctl) : VInv (rctl cfg x c) := by
  cases c with
  | arrive k =>
    simp only [rctl, hu, Bool.not_true, Bool.false_eq_true, if_false]
    split
    · exact h
    · rename_i f hf
      exact vinv_rarrive hr h f (List.mem_of_getElem? hf)
  | consume =>
    simp only [rctl]
    split
    · exact h
    · split
      · exact h
      · exact vinv_frame h rfl rfl rfl
  | carry => simp only [rctl, hu, if_true]; exact h
  | leave =>
    simp only [rctl, hu, if_true]
    split
    · exact h
    · exact vinv_frame h rfl rfl rfl
  | setup m req => simp only [rctl]; split <;> first | exact h | exact vinv_frame h rfl rfl rfl
  | play => simp only [rctl]; split <;> first | exact h | exact vinv_frame h rfl rfl rfl
  | pclose => simp only [rctl]; split <;> first | exact h | exact vinv_frame h rfl rfl rfl
  | pnil => simp only [rctl]; split <;> first | exact h | exact vinv_frame h rfl rfl rfl
  | pinact => simp only [rctl]; split <;> first | exact h | exact vinv_frame h rfl rfl rfl

theorem vinv_rrun {cfg : Cfg} (evs : List REv) : ∀ {ws : WLog} {x : Reader}, RInv cfg ws x → x.udp = true →
    VInv x → VInv (rrun cfg x evs) := by
  induction evs with
  | nil => intro ws x _ _ h; exact h
  | cons e es ih =>
    intro ws x hr hu h
    simp only [rrun]
    refine ih (rinv_rstep hr e) (by rw [rstep_udp]; exact hu) ?_
    cases e with
    | write m p => exact vinv_write h m p
    | ctl c => exact vinv_ctl hr hu h c

theorem vinv_reachable (cfg : Cfg) (evs : List REv) : VInv (rrun cfg { udp := true } evs) :=
  vinv_rrun evs (rinv_init cfg true) rfl (vinv_init true)

end Rtsp.Pipe
