import Rtsp.Model.Pipeline
/-
Helper lemmas for the pipeline model (C01): list facts, channel ↔ media, one lemma per branch of
`rwrite` / `rctl`.
-/
namespace Rtsp.Pipe

/-! ## lists -/

theorem idxOf_append_mem {l : List Nat} {a : Nat} (b : Nat) (h : a ∈ l) : (l ++ [b]).idxOf a = l.idxOf a := by
  induction l with
  | nil => cases h
  | cons c t ih =>
    by_cases hc : c = a
    · subst hc; simp
    · have ht : a ∈ t := by
        rcases List.mem_cons.mp h with h | h
        · exact absurd h.symm hc
        · exact h
      simp [List.idxOf_cons, ih ht]

theorem getElem?_idxOf_mem {l : List Nat} {a : Nat} (h : a ∈ l) : l[l.idxOf a]? = some a := by
  have hlt : l.idxOf a < l.length := List.idxOf_lt_length_of_mem h
  rw [List.getElem?_eq_getElem hlt, List.getElem_idxOf hlt]

/-- removing from a duplicate-free concatenation the elements of its tail leaves the head -/
theorem filter_not_mem_tail {α : Type} [DecidableEq α] (a b : List α)
    (hd : ∀ x ∈ a, ∀ y ∈ b, x ≠ y) :
    (a ++ b).filter (fun d => !b.contains d) = a := by
  rw [List.filter_append]
  have h1 : a.filter (fun d => !b.contains d) = a := by
    rw [List.filter_eq_self]
    intro x hx
    simp only [Bool.not_eq_true', List.contains_eq_mem, decide_eq_false_iff_not]
    intro hb
    exact hd x hx x hb rfl
  have h2 : b.filter (fun d => !b.contains d) = [] := by
    rw [List.filter_eq_nil_iff]
    intro x hx
    simp [hx]
  rw [h1, h2, List.append_nil]

theorem filter_filter_contains {α : Type} [DecidableEq α] (l a b : List α) :
    l.filter (fun d => !(a ++ b).contains d) = (l.filter (fun d => !a.contains d)).filter (fun d => !b.contains d) := by
  rw [List.filter_filter]
  congr 1
  funext d
  simp only [List.contains_eq_mem, List.mem_append, Bool.decide_or, Bool.not_or]
  exact Bool.and_comm _ _

/-! ## the model never changes the transport kind -/

theorem rwrite_udp (cfg : Cfg) (x : Reader) (m : Nat) (p : Pkt) : (rwrite cfg x m p).udp = x.udp := by
  unfold rwrite
  split
  · rfl
  · split <;> rfl

theorem rarrive_udp (cfg : Cfg) (x : Reader) (f : Frame) : (rarrive cfg x f).udp = x.udp := by
  unfold rarrive
  split
  · rfl
  · rfl

theorem rctl_udp (cfg : Cfg) (x : Reader) (c : Ctl) : (rctl cfg x c).udp = x.udp := by
  cases c <;> simp only [rctl] <;> (repeat' split) <;> first | rfl | exact rarrive_udp _ _ _

theorem rstep_udp (cfg : Cfg) (x : Reader) (e : REv) : (rstep cfg x e).udp = x.udp := by
  cases e with
  | write m p => exact rwrite_udp cfg x m p
  | ctl c => exact rctl_udp cfg x c

/-! ## channel ↔ media -/

theorem idxOf_getElem_nodup {l : List Nat} (h : l.Nodup) (i : Nat) (hi : i < l.length) : l.idxOf l[i] = i := by
  induction l generalizing i with
  | nil => cases hi
  | cons a t ih =>
    rw [List.nodup_cons] at h
    cases i with
    | zero => simp
    | succ j =>
      have hj : j < t.length := by simpa using hi
      have hne : a ≠ t[j] := fun e => h.1 (e ▸ List.getElem_mem hj)
      simp only [List.getElem_cons_succ, List.idxOf_cons]
      have : (a == t[j]) = false := by simpa using hne
      rw [this]
      simp [ih h.2 j hj]

/-- the channel table of a reader: one channel per set-up media, no channel twice -/
def ChanOK (x : Reader) : Prop := x.chs.length = x.meds.length ∧ x.chs.Nodup ∧ x.meds.Nodup

theorem mediaOfChan_chanOf (x : Reader) (hc : ChanOK x) (m : Nat) (h : m ∈ x.meds) :
    mediaOfChan x (chanOf x m) = some m := by
  obtain ⟨hlen, hnd, _⟩ := hc
  have hi : x.meds.idxOf m < x.meds.length := List.idxOf_lt_length_of_mem h
  have hi' : x.meds.idxOf m < x.chs.length := by rw [hlen]; exact hi
  have hch : chanOf x m = x.chs[x.meds.idxOf m] := by
    unfold chanOf; rw [List.getD_eq_getElem?_getD, List.getElem?_eq_getElem hi']; rfl
  unfold mediaOfChan
  rw [hch]
  have hmem : x.chs.contains x.chs[x.meds.idxOf m] = true := by
    simp [List.getElem_mem hi']
  rw [if_pos hmem, idxOf_getElem_nodup hnd _ hi']
  exact getElem?_idxOf_mem h

/-- a frame built by `rwrite` for a set-up media and a known format is demultiplexed to its own
media and format -/
def FrameOK (cfg : Cfg) (x : Reader) (f : Frame) : Prop :=
  f.media ∈ x.meds ∧ f.chan = chanOf x f.media ∧ (cfg.fmt? f.media f.pkt.pt).isSome = true

theorem demux_ok (cfg : Cfg) (x : Reader) (hx : ChanOK x) (f : Frame) (h : FrameOK cfg x f) :
    demux cfg x f = some (f.media, f.pkt.pt) := by
  obtain ⟨hm, hc, hf⟩ := h
  unfold demux
  rw [hc, mediaOfChan_chanOf x hx f.media hm]
  simp [hf]

end Rtsp.Pipe
