import Rtsp.Proofs.Pipeline.Run
/-
The history variables `acc`, `ref`, `disc` of a reader expressed as functions of the event sequence
(so that the theorems of C01 can be read without them): `accLog` is, in order, the writes whose push
into this reader's queue was accepted; `refLog` those refused with a queue-full error.
-/
namespace Rtsp.Pipe

theorem rarrive_fields (cfg : Cfg) (x : Reader) (f : Frame) :
    (rarrive cfg x f).acc = x.acc ∧ (rarrive cfg x f).ref = x.ref ∧ (rarrive cfg x f).disc = x.disc ∧
    (rarrive cfg x f).nw = x.nw ∧ (rarrive cfg x f).status = x.status ∧ (rarrive cfg x f).meds = x.meds ∧
    (rarrive cfg x f).queue = x.queue ∧ (rarrive cfg x f).wire = x.wire := by
  unfold rarrive
  split
  · simp
  · simp

theorem rctl_acc (cfg : Cfg) (x : Reader) (c : Ctl) : (rctl cfg x c).acc = x.acc := by
  cases c <;> simp only [rctl] <;> (repeat' split) <;> first | rfl | exact (rarrive_fields _ _ _).1

theorem rctl_ref (cfg : Cfg) (x : Reader) (c : Ctl) : (rctl cfg x c).ref = x.ref := by
  cases c <;> simp only [rctl] <;> (repeat' split) <;> first | rfl | exact (rarrive_fields _ _ _).2.1

theorem rctl_nw (cfg : Cfg) (x : Reader) (c : Ctl) : (rctl cfg x c).nw = x.nw := by
  cases c <;> simp only [rctl] <;> (repeat' split) <;> first | rfl | exact (rarrive_fields _ _ _).2.2.2.1

/-- what a write event adds to the accepted / refused pushes of a reader in state `x` -/
def accOf (cfg : Cfg) (x : Reader) : REv → List Deliv
  | .write m p =>
    match cfg.ssrcOf m p.pt, outcome cfg x m with
    | some s, .accepted => [⟨m, p.pt, rewrite s p, x.nw⟩]
    | _, _ => []
  | .ctl _ => []

def refOf (cfg : Cfg) (x : Reader) : REv → List Deliv
  | .write m p =>
    match cfg.ssrcOf m p.pt, outcome cfg x m with
    | some s, .refused => [⟨m, p.pt, rewrite s p, x.nw⟩]
    | _, _ => []
  | .ctl _ => []

/-- the accepted pushes along an event sequence, in order -/
def accLog (cfg : Cfg) : Reader → List REv → List Deliv
  | _, [] => []
  | x, e :: es => accOf cfg x e ++ accLog cfg (rstep cfg x e) es

/-- the refused pushes (queue-full errors handed to the writer's handler) along an event sequence -/
def refLog (cfg : Cfg) : Reader → List REv → List Deliv
  | _, [] => []
  | x, e :: es => refOf cfg x e ++ refLog cfg (rstep cfg x e) es

theorem rstep_acc (cfg : Cfg) (x : Reader) (e : REv) : (rstep cfg x e).acc = x.acc ++ accOf cfg x e := by
  cases e with
  | ctl c => simp [rstep, accOf, rctl_acc]
  | write m p =>
    simp only [rstep, accOf, rwrite]
    cases hs : cfg.ssrcOf m p.pt with
    | none => simp
    | some s => cases ho : outcome cfg x m <;> simp

theorem rstep_ref (cfg : Cfg) (x : Reader) (e : REv) : (rstep cfg x e).ref = x.ref ++ refOf cfg x e := by
  cases e with
  | ctl c => simp [rstep, refOf, rctl_ref]
  | write m p =>
    simp only [rstep, refOf, rwrite]
    cases hs : cfg.ssrcOf m p.pt with
    | none => simp
    | some s => cases ho : outcome cfg x m <;> simp

theorem acc_eq (cfg : Cfg) (evs : List REv) : ∀ x : Reader, (rrun cfg x evs).acc = x.acc ++ accLog cfg x evs := by
  induction evs with
  | nil => intro x; simp [rrun, accLog]
  | cons e es ih => intro x; simp [rrun, accLog, ih, rstep_acc, List.append_assoc]

theorem ref_eq (cfg : Cfg) (evs : List REv) : ∀ x : Reader, (rrun cfg x evs).ref = x.ref ++ refLog cfg x evs := by
  induction evs with
  | nil => intro x; simp [rrun, refLog]
  | cons e es ih => intro x; simp [rrun, refLog, ih, rstep_ref, List.append_assoc]

/-- only the reader's own PAUSE (`pclose`, `pnil`) and close (`leave`) discard anything -/
def Discards : REv → Prop
  | .ctl .pclose => True
  | .ctl .pnil => True
  | .ctl .leave => True
  | _ => False

instance (e : REv) : Decidable (Discards e) := by
  unfold Discards; split <;> infer_instance

theorem rstep_disc (cfg : Cfg) (x : Reader) (e : REv) (h : ¬ Discards e) : (rstep cfg x e).disc = x.disc := by
  cases e with
  | write m p =>
    simp only [rstep, rwrite]
    cases hs : cfg.ssrcOf m p.pt with
    | none => rfl
    | some s => cases ho : outcome cfg x m <;> rfl
  | ctl c =>
    cases c <;> simp only [Discards, not_true_eq_false] at h <;> simp only [rstep, rctl] <;>
      (repeat' split) <;> first | rfl | exact (rarrive_fields _ _ _).2.2.1

theorem disc_eq (cfg : Cfg) (evs : List REv) : ∀ x : Reader, (∀ e ∈ evs, ¬ Discards e) →
    (rrun cfg x evs).disc = x.disc := by
  induction evs with
  | nil => intro x _; rfl
  | cons e es ih =>
    intro x h
    simp only [rrun]
    rw [ih _ (fun e' he' => h e' (List.mem_cons_of_mem _ he')), rstep_disc cfg x e (h e List.mem_cons_self)]

/-- the write log does not depend on the reader: everybody sees every write -/
def writesOf : List Event → WLog
  | [] => []
  | .write m p :: es => (m, p) :: writesOf es
  | .ctl _ _ :: es => writesOf es

theorem wlogs_view (r : Nat) (es : List Event) : wlogs (view r es) = writesOf es := by
  induction es with
  | nil => rfl
  | cons e es ih =>
    cases e with
    | write m p => simp [view, proj, wlogs, wlog, writesOf] at ih ⊢; exact ih
    | ctl r' c =>
      by_cases h : r' = r
      · simp [view, proj, h, wlogs, wlog, writesOf] at ih ⊢; exact ih
      · simp [view, proj, h, writesOf] at ih ⊢; exact ih

theorem rstep_nw_le (cfg : Cfg) (x : Reader) (e : REv) : x.nw ≤ (rstep cfg x e).nw := by
  cases e with
  | ctl c => simp [rstep, rctl_nw]
  | write m p =>
    simp only [rstep, rwrite]
    cases hs : cfg.ssrcOf m p.pt with
    | none => simp
    | some s => cases ho : outcome cfg x m <;> simp

theorem accOf_wid (cfg : Cfg) (x : Reader) (e : REv) : ∀ d ∈ accOf cfg x e, d.wid = x.nw := by
  intro d hd
  cases e with
  | ctl c => simp [accOf] at hd
  | write m p =>
    simp only [accOf] at hd
    cases hs : cfg.ssrcOf m p.pt with
    | none => simp [hs] at hd
    | some s =>
      cases ho : outcome cfg x m <;> simp [hs, ho] at hd
      rw [hd]

/-- pushes accepted along `evs` from state `x` are writes number `x.nw` or later -/
theorem accLog_wid_ge (cfg : Cfg) (evs : List REv) : ∀ x : Reader, ∀ d ∈ accLog cfg x evs, x.nw ≤ d.wid := by
  induction evs with
  | nil => intro x d hd; cases hd
  | cons e es ih =>
    intro x d hd
    simp only [accLog, List.mem_append] at hd
    rcases hd with hd | hd
    · rw [accOf_wid cfg x e d hd]; exact Nat.le_refl _
    · exact Nat.le_trans (rstep_nw_le cfg x e) (ih _ d hd)

theorem rwrite_nw (cfg : Cfg) (x : Reader) (m : Nat) (p : Pkt) : (rwrite cfg x m p).nw = x.nw + 1 := by
  simp only [rwrite]
  cases hs : cfg.ssrcOf m p.pt with
  | none => rfl
  | some s => cases ho : outcome cfg x m <;> rfl

end Rtsp.Pipe
