import Rtsp.Proofs.Pipeline.Run
import Rtsp.Proofs.Receiver.Step
/-
UDP readers (C01): whatever the network does (loss, duplication, reordering: `arrive k` for any `k`, any
number of times), every callback is a datagram that was sent to this reader, demultiplexed to its own
media and format.  The reorder receiver (C14 model) never invents a packet: what it releases is what
it was given.
-/
namespace Rtsp.Pipe
open Rtsp.Recv

/-! ## the receiver releases only what it was given -/

theorem slot_mem (s : Recv.State) (i : Nat) (q : Recv.Pkt) (h : slot s i = some q) : some q ∈ s.buf := by
  unfold slot at h
  rw [List.getD_eq_getElem?_getD] at h
  cases hg : s.buf[slotIdx s i]? with
  | none => rw [hg] at h; cases h
  | some v =>
    rw [hg] at h
    simp only [Option.getD_some] at h
    subst h
    exact List.mem_of_getElem? hg

theorem occupied_mem (s : Recv.State) (q : Recv.Pkt) (h : q ∈ occupied s) : some q ∈ s.buf := by
  unfold occupied at h
  obtain ⟨i, _, hi⟩ := List.mem_filterMap.mp h
  exact slot_mem s i q hi

theorem drainTail_mem (s : Recv.State) (q : Recv.Pkt) (h : q ∈ drainTail s) : some q ∈ s.buf := by
  unfold drainTail at h
  obtain ⟨i, _, hi⟩ := List.mem_filterMap.mp h
  exact slot_mem s (i + 1) q hi

theorem clearAll_mem (s : Recv.State) (q : Recv.Pkt) : some q ∉ clearAll s := by
  unfold clearAll
  intro h
  have := List.eq_of_mem_replicate h
  cases this

theorem foldl_set_none_mem (f : Nat → Nat) (q : Recv.Pkt) (l : List Nat) :
    ∀ b : List (Option Recv.Pkt), some q ∈ l.foldl (fun b i => b.set (f i) none) b → some q ∈ b := by
  induction l with
  | nil => intro b h; exact h
  | cons i t ih =>
    intro b h
    have := ih _ h
    rcases List.mem_or_eq_of_mem_set this with h | h
    · exact h
    · cases h

theorem drainBuf_mem (s : Recv.State) (q : Recv.Pkt) (h : some q ∈ drainBuf s) : some q ∈ s.buf := by
  unfold drainBuf at h
  exact foldl_set_none_mem (fun i => slotIdx s (i + 1)) q _ _ h

/-- `reorder` keeps and releases only buffered packets and the arriving one -/
theorem reorder_contain (s : Recv.State) (p : Recv.Pkt) (P : Recv.Pkt → Prop)
    (hb : ∀ q, some q ∈ s.buf → P q) (hp : P p) :
    (∀ q, some q ∈ (reorder s p).1.buf → P q) ∧ (∀ q ∈ (reorder s p).2.pkts, P q) := by
  by_cases hr : relPos p.seq s.last < 0
  · by_cases hn : s.negCount + 1 > s.buf.length
    · rw [reorder_restart s p hr hn]
      refine ⟨fun q hq => absurd hq (clearAll_mem s q), ?_⟩
      intro q hq; simp only [List.mem_singleton] at hq; subst hq; exact hp
    · rw [reorder_negative s p hr hn]
      exact ⟨hb, fun q hq => by cases hq⟩
  · by_cases hf : relPos p.seq s.last ≥ (s.buf.length : Int)
    · rw [reorder_flush s p hr hf]
      refine ⟨fun q hq => absurd hq (clearAll_mem s q), ?_⟩
      intro q hq
      rcases List.mem_append.mp hq with hq | hq
      · exact hb q (occupied_mem s q hq)
      · simp only [List.mem_singleton] at hq; subst hq; exact hp
    · by_cases h0 : relPos p.seq s.last = 0
      · rw [reorder_inorder s p hr hf h0]
        refine ⟨fun q hq => hb q (drainBuf_mem s q hq), ?_⟩
        intro q hq
        rcases List.mem_cons.mp hq with hq | hq
        · subst hq; exact hp
        · exact hb q (drainTail_mem s q hq)
      · cases hs : s.buf.getD (slotIdx s (relPos p.seq s.last).toNat) none with
        | some q0 =>
          rw [reorder_dup s p hr hf h0 q0 hs]
          exact ⟨hb, fun q hq => by cases hq⟩
        | none =>
          rw [reorder_put s p hr hf h0 hs]
          refine ⟨?_, fun q hq => by cases hq⟩
          intro q hq
          rcases List.mem_or_eq_of_mem_set hq with h | h
          · exact hb q h
          · cases h; exact hp

theorem step_contain (s : Recv.State) (p : Recv.Pkt) (P : Recv.Pkt → Prop)
    (hb : ∀ q, some q ∈ s.buf → P q) (hp : P p) :
    (∀ q, some q ∈ (Recv.step s p).1.buf → P q) ∧ (∀ q ∈ (Recv.step s p).2.pkts, P q) := by
  have hsingle : ∀ q ∈ [p], P q := by
    intro q hq; simp only [List.mem_singleton] at hq; subst hq; exact hp
  cases hf : s.first with
  | false =>
    rw [step_first s p hf]
    exact ⟨hb, hsingle⟩
  | true =>
    cases hu : s.unreliable with
    | true =>
      rw [step_unrel s p hf hu]
      have := reorder_contain s p P hb hp
      simp only [(foldl_advance_fields _ _).1, counted]
      exact this
    | false =>
      rw [step_rel s p hf hu]
      simp only [(foldl_advance_fields _ _).1, counted]
      exact ⟨hb, hsingle⟩

/-! ## the UDP reader -/

def keyOf (g : Frame) : Nat × Nat := (g.media, g.pkt.pt)

/-- every packet a format's receiver holds is an earlier arrival of that media and format -/
def RxOK (x : Reader) (key : Nat × Nat) (st : Recv.State) : Prop :=
  ∀ q, some q ∈ st.buf → ∃ g, x.arrived[q.id]? = some g ∧ keyOf g = key

structure UInv (cfg : Cfg) (x : Reader) : Prop where
  arrived_sent : ∀ g ∈ x.arrived, g ∈ x.wire
  cbs_arrived  : ∀ d ∈ x.cbs, ∃ g ∈ x.arrived, d = g.deliv
  rx_ok        : ∀ e ∈ x.rx, RxOK x e.1 e.2

theorem uinv_init (cfg : Cfg) (u : Bool) : UInv cfg { udp := u } := by
  constructor <;> simp

theorem lookup_mem {α β : Type} [BEq α] [LawfulBEq α] (l : List (α × β)) (k : α) (v : β)
    (h : l.lookup k = some v) : (k, v) ∈ l := by
  induction l with
  | nil => cases h
  | cons e t ih =>
    obtain ⟨a, b⟩ := e
    simp only [List.lookup_cons] at h
    by_cases hk : k == a
    · simp only [hk] at h
      have : k = a := eq_of_beq hk
      cases h; subst this
      exact List.mem_cons_self
    · simp only [hk] at h
      exact List.mem_cons_of_mem _ (ih h)

theorem rxGet_ok (cfg : Cfg) (x : Reader) (h : UInv cfg x) (key : Nat × Nat) : RxOK x key (rxGet x key) := by
  unfold rxGet
  cases hl : x.rx.lookup key with
  | none =>
    intro q hq
    simp only [Option.getD_none, Recv.init, if_true] at hq
    cases List.eq_of_mem_replicate hq
  | some st =>
    simp only [Option.getD_some]
    exact h.rx_ok (key, st) (lookup_mem _ _ _ hl)

/-- an arrival: the frame is one that was sent, it is demultiplexed to its own media and format, and the
callbacks it triggers are arrivals of that media and format -/
theorem uinv_rarrive {cfg : Cfg} {ws : WLog} {x : Reader} (hr : RInv cfg ws x) (h : UInv cfg x)
    (f : Frame) (hf : f ∈ x.wire) : UInv cfg (rarrive cfg x f) := by
  have hok : FrameOK cfg x f := hr.frames_ok f (List.mem_append_left _ hf)
  unfold rarrive
  rw [demux_ok cfg x hr.chan_ok f hok]
  simp only
  -- the receiver of this media and format
  have hst := rxGet_ok cfg x h (f.media, f.pkt.pt)
  let P : Recv.Pkt → Prop := fun q => ∃ g, (x.arrived ++ [f])[q.id]? = some g ∧ keyOf g = (f.media, f.pkt.pt)
  have hold : ∀ q, some q ∈ (rxGet x (f.media, f.pkt.pt)).buf → P q := by
    intro q hq
    obtain ⟨g, hg, hk⟩ := hst q hq
    refine ⟨g, ?_, hk⟩
    have hlt : q.id < x.arrived.length := by
      rcases Nat.lt_or_ge q.id x.arrived.length with h | h
      · exact h
      · rw [List.getElem?_eq_none h] at hg; cases hg
    rw [List.getElem?_append_left hlt]; exact hg
  have hnew : P { seq := UInt16.ofNat f.pkt.seq, id := x.arrived.length } := ⟨f, by simp, rfl⟩
  obtain ⟨hbuf, hout⟩ := step_contain (rxGet x (f.media, f.pkt.pt)) _ P hold hnew
  constructor
  · intro g hg
    rcases List.mem_append.mp hg with hg | hg
    · exact h.arrived_sent g hg
    · simp only [List.mem_singleton] at hg; subst hg; exact hf
  · intro d hd
    rcases List.mem_append.mp hd with hd | hd
    · obtain ⟨g, hg, rfl⟩ := h.cbs_arrived d hd
      exact ⟨g, List.mem_append_left _ hg, rfl⟩
    · obtain ⟨q, hq, hqd⟩ := List.mem_filterMap.mp hd
      obtain ⟨g, hg, hk⟩ := hout q hq
      rw [hg] at hqd
      simp only [Option.map_some, Option.some.injEq] at hqd
      refine ⟨g, List.mem_of_getElem? hg, ?_⟩
      rw [← hqd]
      simp only [keyOf, Prod.mk.injEq] at hk
      simp [Frame.deliv, hk.1, hk.2]
  · intro e he
    simp only [rxSet, List.mem_cons, List.mem_filter] at he
    rcases he with he | ⟨he, _⟩
    · subst he
      exact hbuf
    · intro q hq
      obtain ⟨g, hg, hk⟩ := h.rx_ok e he q hq
      refine ⟨g, ?_, hk⟩
      have hlt : q.id < x.arrived.length := by
        rcases Nat.lt_or_ge q.id x.arrived.length with h | h
        · exact h
        · rw [List.getElem?_eq_none h] at hg; cases hg
      show (x.arrived ++ [f])[q.id]? = some g
      rw [List.getElem?_append_left hlt]; exact hg

end Rtsp.Pipe

namespace Rtsp.Pipe

/-- events that leave the arrival history, the callbacks and the receivers alone, and only add to the wire -/
theorem uinv_frame {cfg : Cfg} {x x' : Reader} (h : UInv cfg x) (ha : x'.arrived = x.arrived)
    (hc : x'.cbs = x.cbs) (hx : x'.rx = x.rx) (hw : ∀ g ∈ x.wire, g ∈ x'.wire) : UInv cfg x' := by
  constructor
  · intro g hg; rw [ha] at hg; exact hw g (h.arrived_sent g hg)
  · intro d hd; rw [hc] at hd; rw [ha]; exact h.cbs_arrived d hd
  · intro e he; rw [hx] at he
    intro q hq
    obtain ⟨g, hg, hk⟩ := h.rx_ok e he q hq
    exact ⟨g, by rw [ha]; exact hg, hk⟩

theorem uinv_write {cfg : Cfg} {x : Reader} (h : UInv cfg x) (m : Nat) (p : Pkt) :
    UInv cfg (rwrite cfg x m p) := by
  apply uinv_frame h <;> (unfold rwrite; split)
  all_goals first
    | rfl
    | (split <;> rfl)
    | (intro g hg; exact hg)
    | (split <;> (intro g hg; exact hg))

theorem uinv_ctl {cfg : Cfg} {ws : WLog} {x : Reader} (hr : RInv cfg ws x) (hu : x.udp = true)
    (h : UInv cfg x) (c : Ctl) : UInv cfg (rctl cfg x c) := by
  cases c with
  | arrive k =>
    simp only [rctl, hu, Bool.not_true, Bool.false_eq_true, if_false]
    split
    · exact h
    · rename_i f hf
      exact uinv_rarrive hr h f (List.mem_of_getElem? hf)
  | consume =>
    simp only [rctl]
    split
    · exact h
    · split
      · exact h
      · exact uinv_frame h rfl rfl rfl (fun g hg => List.mem_append_left _ hg)
  | carry => simp only [rctl, hu, if_true]; exact h
  | leave =>
    simp only [rctl, hu, if_true]
    split
    · exact h
    · exact uinv_frame h rfl rfl rfl (fun g hg => hg)
  | setup m req => simp only [rctl]; split <;> first | exact h | exact uinv_frame h rfl rfl rfl (fun g hg => hg)
  | play => simp only [rctl]; split <;> first | exact h | exact uinv_frame h rfl rfl rfl (fun g hg => hg)
  | pclose => simp only [rctl]; split <;> first | exact h | exact uinv_frame h rfl rfl rfl (fun g hg => hg)
  | pnil => simp only [rctl]; split <;> first | exact h | exact uinv_frame h rfl rfl rfl (fun g hg => hg)
  | pinact => simp only [rctl]; split <;> first | exact h | exact uinv_frame h rfl rfl rfl (fun g hg => hg)

theorem uinv_rstep {cfg : Cfg} {ws : WLog} {x : Reader} (hr : RInv cfg ws x) (hu : x.udp = true)
    (h : UInv cfg x) (e : REv) : UInv cfg (rstep cfg x e) := by
  cases e with
  | write m p => exact uinv_write h m p
  | ctl c => exact uinv_ctl hr hu h c

theorem uinv_rrun {cfg : Cfg} (evs : List REv) : ∀ {ws : WLog} {x : Reader}, RInv cfg ws x → x.udp = true →
    UInv cfg x → UInv cfg (rrun cfg x evs) := by
  induction evs with
  | nil => intro ws x _ _ h; exact h
  | cons e es ih =>
    intro ws x hr hu h
    simp only [rrun]
    exact ih (rinv_rstep hr e) (by rw [rstep_udp]; exact hu) (uinv_rstep hr hu h e)

theorem uinv_reachable (cfg : Cfg) (evs : List REv) : UInv cfg (rrun cfg { udp := true } evs) :=
  uinv_rrun evs (rinv_init cfg true) rfl (uinv_init cfg true)

end Rtsp.Pipe
