import Rtsp.Proofs.Pipeline.UdpOrder
import Rtsp.Proofs.Receiver.Run
/-
UDP readers, write order (C01): when the packets of a format are numbered consecutively (position `j`
in the format's stream ↦ sequence number `s0 + j` mod 2^16), fewer than 2^15 of them were written, and the
receiver detected no sender restart, the callbacks of that format come in write order, each at most
once — whatever was lost, duplicated or reordered on the way.
-/
namespace Rtsp.Pipe
open Rtsp.Recv

/-! ## from the per-step accounting of C14 to one chain over everything delivered -/

theorem incFrom_append (l : UInt16) (a : List Recv.Pkt) (b : List UInt16) :
    IncFrom l (a.map (·.seq) ++ b) ↔ IncFrom l (a.map (·.seq)) ∧ IncFrom (lastSeq l a) b := by
  induction a generalizing l with
  | nil => simp [IncFrom, lastSeq]
  | cons p t ih =>
    simp only [List.map_cons, List.cons_append, IncFrom, lastSeq]
    rw [ih p.seq]
    exact and_assoc.symm

/-- without restarts, everything delivered along a run is one increasing chain -/
theorem accounted_chain (os : List Recv.Out) : ∀ (l : UInt16), Accounted true l os →
    (∀ o ∈ os, o.restart = false) → IncFrom l ((os.flatMap (·.pkts)).map (·.seq)) := by
  induction os with
  | nil => intro l _ _; simp [IncFrom]
  | cons o t ih =>
    intro l hacc hnr
    simp only [Accounted] at hacc
    have ho : o.restart = false := hnr o List.mem_cons_self
    rw [ho] at hacc
    simp only [Bool.false_eq_true, if_false] at hacc
    obtain ⟨⟨hinc, _⟩, hrest⟩ := hacc
    simp only [List.flatMap_cons, List.map_append]
    rw [incFrom_append]
    exact ⟨hinc trivial, ih _ hrest (fun o' ho' => hnr o' (List.mem_cons_of_mem _ ho'))⟩

/-! ## `Fwd` between two numbered packets means "later in the stream" -/

theorem fwd_positions (s0 ja jb sa sb : Nat) (ha : ja < 32768) (hb : jb < 32768)
    (hsa : sa % 65536 = (s0 + ja) % 65536) (hsb : sb % 65536 = (s0 + jb) % 65536)
    (h : Fwd (UInt16.ofNat sa) (UInt16.ofNat sb)) : ja < jb := by
  unfold Fwd at h
  rw [relPos_eq, sub_toNat] at h
  simp only [UInt16.toNat_ofNat'] at h
  have h1 : sa % 65536 < 65536 := Nat.mod_lt _ (by decide)
  have h2 : sb % 65536 < 65536 := Nat.mod_lt _ (by decide)
  split at h
  · rename_i hlt
    omega
  · rename_i hge
    have := (UInt16.ofNat sb - UInt16.ofNat sa - 1).toNat_lt
    rw [sub_toNat] at this
    simp only [UInt16.toNat_ofNat'] at this
    omega

/-- an increasing chain of natural numbers -/
def IncNat : Nat → List Nat → Prop
  | _, [] => True
  | a, b :: bs => a < b ∧ IncNat b bs

theorem incNat_pairwise (l : List Nat) : ∀ a, IncNat a l → (∀ b ∈ l, a < b) ∧ l.Pairwise (· < ·) := by
  induction l with
  | nil => intro a _; simp
  | cons b t ih =>
    intro a h
    obtain ⟨hab, ht⟩ := h
    obtain ⟨h1, h2⟩ := ih b ht
    refine ⟨?_, List.pairwise_cons.mpr ⟨h1, h2⟩⟩
    intro c hc
    rcases List.mem_cons.mp hc with hc | hc
    · subst hc; exact hab
    · exact Nat.lt_trans hab (h1 c hc)

/-- a chain of `Fwd` steps over numbered packets is a chain of increasing positions -/
theorem chain_positions (s0 : Nat) (pos : Recv.Pkt → Nat) (sq : Recv.Pkt → Nat) (ps : List Recv.Pkt) :
    ∀ (p : Recv.Pkt), (∀ q ∈ p :: ps, pos q < 32768 ∧ sq q % 65536 = (s0 + pos q) % 65536 ∧ q.seq = UInt16.ofNat (sq q)) →
    IncFrom p.seq (ps.map (·.seq)) → IncNat (pos p) (ps.map pos) := by
  induction ps with
  | nil => intro p _ _; trivial
  | cons q t ih =>
    intro p hall hinc
    simp only [List.map_cons, IncFrom] at hinc
    obtain ⟨hfwd, hrest⟩ := hinc
    obtain ⟨hp1, hp2, hp3⟩ := hall p List.mem_cons_self
    obtain ⟨hq1, hq2, hq3⟩ := hall q (List.mem_cons_of_mem _ List.mem_cons_self)
    rw [hp3, hq3] at hfwd
    refine ⟨fwd_positions s0 _ _ _ _ hp1 hq1 hp2 hq2 hfwd, ?_⟩
    exact ih q (fun r hr => hall r (List.mem_cons_of_mem _ hr)) hrest

/-! ## the arrivals of a format carry their own sequence number -/

theorem keyArr_seq (key : Nat × Nat) (a : List Frame) : ∀ i, ∀ q ∈ keyArr key i a,
    ∃ g, a[q.id - i]? = some g ∧ i ≤ q.id ∧ keyOf g = key ∧ q.seq = UInt16.ofNat g.pkt.seq := by
  induction a with
  | nil => intro i q hq; cases hq
  | cons h t ih =>
    intro i q hq
    simp only [keyArr, List.mem_append] at hq
    rcases hq with hq | hq
    · split at hq
      · rename_i hk
        simp only [List.mem_singleton] at hq
        subst hq
        exact ⟨h, by simp [rpkt], Nat.le_refl _, hk, rfl⟩
      · cases hq
    · obtain ⟨g, hg, hi, hk, hs⟩ := ih (i + 1) q hq
      refine ⟨g, ?_, by omega, hk, hs⟩
      have : q.id - i = (q.id - (i + 1)) + 1 := by omega
      rw [this, List.getElem?_cons_succ]; exact hg

/-- everything the run of `key` released is an arrival of `key` with its own sequence number -/
theorem keyRun_seq (key : Nat × Nat) (a : List Frame) :
    ∀ o ∈ (Recv.run R0 (keyArr key 0 a)).2, ∀ q ∈ o.pkts,
      ∃ g, a[q.id]? = some g ∧ keyOf g = key ∧ q.seq = UInt16.ofNat g.pkt.seq := by
  apply (run_contain (fun q => ∃ g, a[q.id]? = some g ∧ keyOf g = key ∧ q.seq = UInt16.ofNat g.pkt.seq) _ R0 ?_ ?_).2
  · intro q hq; exact absurd hq (R0_empty q)
  · intro p hp
    obtain ⟨g, hg, _, hk, hs⟩ := keyArr_seq key a 0 p hp
    exact ⟨g, by simpa using hg, hk, hs⟩

/-! ## the theorem -/

/-- the format `key` is numbered consecutively from `s0`: `j wid` is the position of write `wid` among
the writes of that format, fewer than 2^15 of them -/
def Numbered (x : Reader) (key : Nat × Nat) (s0 : Nat) (j : Nat → Nat) : Prop :=
  (∀ g ∈ x.wire, keyOf g = key → j g.wid < 32768 ∧ g.pkt.seq % 65536 = (s0 + j g.wid) % 65536) ∧
  (∀ g ∈ x.wire, ∀ g' ∈ x.wire, keyOf g = key → keyOf g' = key → j g.wid < j g'.wid → g.wid < g'.wid)

theorem released_wids_increasing (cfg : Cfg) (x : Reader) (hu : UInv cfg x) (hv : VInv x)
    (key : Nat × Nat) (s0 : Nat) (j : Nat → Nat) (hnum : Numbered x key s0 j)
    (p : Recv.Pkt) (ps : List Recv.Pkt) (harr : keyArr key 0 x.arrived = p :: ps)
    (hnr : ∀ o ∈ (Recv.run R0 (p :: ps)).2, o.restart = false)
    (hacc : (Recv.run R0 (p :: ps)).2.head? = some { pkts := [p], lost := 0 } ∧
            Accounted true p.seq (Recv.run R0 (p :: ps)).2.tail) :
    (cbsOf key x.cbs).Pairwise (fun a b => a.wid < b.wid) := by
  rw [hv.cbs_run key, harr]
  -- everything released: the first packet, then a chain
  have hseq := keyRun_seq key x.arrived
  rw [harr] at hseq
  generalize hos : (Recv.run R0 (p :: ps)).2 = os at hacc hnr hseq
  cases os with
  | nil => simp [released]
  | cons o t =>
    obtain ⟨hhead, htail⟩ := hacc
    simp only [List.head?_cons, Option.some.injEq] at hhead
    simp only [List.tail_cons] at htail
    subst hhead
    have hchain := accounted_chain t p.seq htail (fun o' ho' => hnr o' (List.mem_cons_of_mem _ ho'))
    -- positions and sequence numbers of everything released
    have hall : ∀ q ∈ p :: t.flatMap (·.pkts),
        ∃ g, x.arrived[q.id]? = some g ∧ keyOf g = key ∧ q.seq = UInt16.ofNat g.pkt.seq := by
      intro q hq
      rcases List.mem_cons.mp hq with hq | hq
      · subst hq; exact hseq _ List.mem_cons_self q (List.mem_singleton.mpr rfl)
      · obtain ⟨o', ho', hq'⟩ := List.mem_flatMap.mp hq
        exact hseq o' (List.mem_cons_of_mem _ ho') q hq'
    let frameOf : Recv.Pkt → Frame := fun q => (x.arrived[q.id]?).getD default
    have hfr : ∀ q ∈ p :: t.flatMap (·.pkts), x.arrived[q.id]? = some (frameOf q) ∧ frameOf q ∈ x.wire ∧
        keyOf (frameOf q) = key ∧ q.seq = UInt16.ofNat (frameOf q).pkt.seq := by
      intro q hq
      obtain ⟨g, hg, hk, hs⟩ := hall q hq
      have : frameOf q = g := by simp [frameOf, hg]
      rw [this]
      exact ⟨hg, hu.arrived_sent g (List.mem_of_getElem? hg), hk, hs⟩
    have hpos := chain_positions s0 (fun q => j (frameOf q).wid) (fun q => (frameOf q).pkt.seq)
      (t.flatMap (·.pkts)) p (by
        intro q hq
        obtain ⟨_, hw, hk, hs⟩ := hfr q hq
        obtain ⟨h1, h2⟩ := hnum.1 _ hw hk
        exact ⟨h1, h2, hs⟩) hchain
    obtain ⟨hfirst, hpw⟩ := incNat_pairwise _ _ hpos
    -- the callbacks are the released packets, looked up
    have hrel : released x.arrived ({ pkts := [p], lost := 0 } :: t) =
        (p :: t.flatMap (·.pkts)).map (fun q => (frameOf q).deliv) := by
      unfold released
      simp only [List.flatMap_cons, List.singleton_append]
      rw [← List.filterMap_eq_map]
      apply filterMap_congr'
      intro q hq
      rw [(hfr q hq).1]; rfl
    rw [hrel, List.pairwise_map]
    have hpw' : (p :: t.flatMap (·.pkts)).Pairwise (fun a b => j (frameOf a).wid < j (frameOf b).wid) := by
      rw [List.pairwise_cons]
      refine ⟨?_, ?_⟩
      · intro b hb
        exact hfirst _ (List.mem_map.mpr ⟨b, hb, rfl⟩)
      · exact (List.pairwise_map.mp hpw)
    -- positions → write numbers
    refine List.Pairwise.imp_of_mem ?_ hpw'
    intro a b ha hb hab
    obtain ⟨_, hwa, hka, _⟩ := hfr a ha
    obtain ⟨_, hwb, hkb, _⟩ := hfr b hb
    exact hnum.2 _ hwa _ hwb hka hkb hab

end Rtsp.Pipe
