import Rtsp.Proofs.Pipeline.Basic
/-
The reader invariant of the pipeline model and its preservation by every event (C01).

`ws` is the log of the writes seen so far (media, packet as handed to `WritePacketRTP`).
`live x`   = accepted pushes that were not discarded by the reader's own PAUSE / close, in push order;
`flight x` = callbacks so far ++ frames on the wire ++ frames in the queue.
For a reader on a reliable transport the two lists are equal in every reachable state (`tcp_flow`).
-/
namespace Rtsp.Pipe

abbrev WLog := List (Nat × Pkt)

/-- `d` is write number `d.wid`: same media, same format, every field identical, SSRC := the format's -/
def IsWrite (cfg : Cfg) (ws : WLog) (d : Deliv) : Prop :=
  ∃ p ssrc, ws[d.wid]? = some (d.media, p) ∧ d.pt = p.pt ∧
    cfg.ssrcOf d.media p.pt = some ssrc ∧ d.pkt = rewrite ssrc p

def flight (x : Reader) : List Deliv := x.cbs ++ (x.wire ++ x.queue).map Frame.deliv

def live (x : Reader) : List Deliv := x.acc.filter (fun d => !x.disc.contains d)

structure RInv (cfg : Cfg) (ws : WLog) (x : Reader) : Prop where
  nw_eq      : x.nw = ws.length
  acc_log    : ∀ d ∈ x.acc, IsWrite cfg ws d
  acc_sorted : x.acc.Pairwise (fun a b => a.wid < b.wid)
  disc_sub   : ∀ d ∈ x.disc, d ∈ x.acc
  chan_ok    : ChanOK x
  frames_ok  : ∀ f ∈ x.wire ++ x.queue, FrameOK cfg x f
  frames_acc : ∀ f ∈ x.wire ++ x.queue, f.deliv ∈ x.acc
  cap        : x.queue.length ≤ cfg.cap
  idle       : x.status ≠ .playing → x.status ≠ .ringClosed → x.queue = []
  tcp_flow   : x.udp = false → live x = flight x

theorem IsWrite.mono {cfg : Cfg} {ws : WLog} {d : Deliv} (h : IsWrite cfg ws d) (w : WLog) :
    IsWrite cfg (ws ++ w) d := by
  obtain ⟨p, s, h1, h2, h3, h4⟩ := h
  refine ⟨p, s, ?_, h2, h3, h4⟩
  have hlt : d.wid < ws.length := by
    rcases Nat.lt_or_ge d.wid ws.length with h | h
    · exact h
    · rw [List.getElem?_eq_none h] at h1; cases h1
  rw [List.getElem?_append_left hlt]; exact h1

theorem RInv.wid_lt {cfg : Cfg} {ws : WLog} {x : Reader} (h : RInv cfg ws x) {d : Deliv} (hd : d ∈ x.acc) :
    d.wid < x.nw := by
  obtain ⟨p, s, h1, _⟩ := h.acc_log d hd
  rw [h.nw_eq]
  rcases Nat.lt_or_ge d.wid ws.length with h | h
  · exact h
  · rw [List.getElem?_eq_none h] at h1; cases h1

theorem rinv_init (cfg : Cfg) (u : Bool) : RInv cfg [] { udp := u } := by
  constructor <;> simp [live, flight, ChanOK]

/-! ## writes -/

theorem outcome_accepted {cfg : Cfg} {x : Reader} {m : Nat} (h : outcome cfg x m = .accepted) :
    m ∈ x.meds ∧ (x.status = .playing ∨ x.status = .ringClosed) ∧ x.queue.length < cfg.cap := by
  by_cases hm : m ∈ x.meds <;> by_cases hq : x.queue.length < cfg.cap <;> cases hst : x.status <;>
    simp [outcome, fanned, hm, hst, hq] at h ⊢

/-- a write that changes nothing but the history variables `nw`, `ref`, `drp` -/
theorem rinv_bump {cfg : Cfg} {ws : WLog} {x : Reader} (h : RInv cfg ws x) (w : Nat × Pkt)
    (r dr : List Deliv) : RInv cfg (ws ++ [w]) { x with nw := x.nw + 1, ref := r, drp := dr } := by
  constructor
  · simp [h.nw_eq]
  · intro d hd; exact (h.acc_log d hd).mono _
  · exact h.acc_sorted
  · exact h.disc_sub
  · exact h.chan_ok
  · exact h.frames_ok
  · exact h.frames_acc
  · exact h.cap
  · exact h.idle
  · exact h.tcp_flow

theorem rinv_write {cfg : Cfg} {ws : WLog} {x : Reader} (h : RInv cfg ws x) (m : Nat) (p : Pkt) :
    RInv cfg (ws ++ [(m, p)]) (rwrite cfg x m p) := by
  unfold rwrite
  split
  · exact rinv_bump h (m, p) x.ref x.drp
  · rename_i ssrc hs
    split
    · exact rinv_bump h (m, p) x.ref x.drp
    · exact rinv_bump h (m, p) x.ref _
    · exact rinv_bump h (m, p) _ x.drp
    · rename_i ho
      obtain ⟨hm, hst, hq⟩ := outcome_accepted ho
      have hnew : ∀ a ∈ x.acc, a.wid < x.nw := fun a ha => h.wid_lt ha
      have hfmt : (cfg.fmt? m p.pt).isSome = true := by
        unfold Cfg.ssrcOf at hs
        cases hf : cfg.fmt? m p.pt with
        | none => rw [hf] at hs; cases hs
        | some _ => rfl
      constructor
      · simp [h.nw_eq]
      · intro d hd
        rcases List.mem_append.mp hd with hd | hd
        · exact (h.acc_log d hd).mono _
        · simp only [List.mem_singleton] at hd
          subst hd
          refine ⟨p, ssrc, ?_, rfl, hs, rfl⟩
          simp [h.nw_eq]
      · rw [List.pairwise_append]
        refine ⟨h.acc_sorted, List.pairwise_singleton _ _, ?_⟩
        intro a ha b hb
        simp only [List.mem_singleton] at hb
        subst hb
        exact hnew a ha
      · intro d hd; exact List.mem_append_left _ (h.disc_sub d hd)
      · exact h.chan_ok
      · intro f hf
        simp only [← List.append_assoc, List.mem_append, List.mem_singleton] at hf
        rcases hf with hf | hf
        · exact h.frames_ok f (List.mem_append.mpr hf)
        · subst hf
          exact ⟨hm, rfl, hfmt⟩
      · intro f hf
        simp only [← List.append_assoc, List.mem_append, List.mem_singleton] at hf
        rcases hf with hf | hf
        · exact List.mem_append_left _ (h.frames_acc f (List.mem_append.mpr hf))
        · subst hf
          exact List.mem_append_right _ (List.mem_singleton.mpr rfl)
      · simp only [List.length_append, List.length_singleton]; omega
      · intro h1 h2
        rcases hst with hst | hst
        · exact absurd hst h1
        · exact absurd hst h2
      · intro hu
        have hflow := h.tcp_flow hu
        have hnd : (⟨m, p.pt, rewrite ssrc p, x.nw⟩ : Deliv) ∉ x.disc := by
          intro hd
          have := hnew _ (h.disc_sub _ hd)
          simp at this
        have hpt : (rewrite ssrc p).pt = p.pt := rfl
        simp only [live, flight] at hflow ⊢
        rw [List.filter_append, hflow]
        simp [hnd, Frame.deliv, hpt]

/-! ## control events -/

theorem rinv_setup {cfg : Cfg} {ws : WLog} {x : Reader} (h : RInv cfg ws x) (m : Nat) (req : Option Nat) :
    RInv cfg ws (rctl cfg x (.setup m req)) := by
  simp only [rctl]
  split
  · rename_i hc
    simp only [Bool.and_eq_true, beq_iff_eq, decide_eq_true_eq, Bool.not_eq_true',
      List.contains_eq_mem, decide_eq_false_iff_not] at hc
    obtain ⟨⟨⟨_, _⟩, hnm⟩, hfree⟩ := hc
    obtain ⟨hlen, hcn, hmn⟩ := h.chan_ok
    -- a free pair is in particular a channel not yet used
    have hnew : req.getD (freePair x) ∉ x.chs := by
      intro hin
      have : pairInUse x (req.getD (freePair x)) = true := by
        simp only [pairInUse, List.any_eq_true]
        exact ⟨_, hin, by simp⟩
      rw [this] at hfree; cases hfree
    refine { h with chan_ok := ?_, frames_ok := ?_ }
    · refine ⟨by simp [hlen], ?_, ?_⟩
      · rw [List.nodup_append]
        refine ⟨hcn, by simp, ?_⟩
        intro a ha b hb
        simp only [List.mem_singleton] at hb
        subst hb
        intro hab; subst hab; exact hnew ha
      · rw [List.nodup_append]
        refine ⟨hmn, by simp, ?_⟩
        intro a ha b hb
        simp only [List.mem_singleton] at hb
        subst hb
        intro hab; subst hab; exact hnm ha
    · intro f hf
      obtain ⟨h1, h2, h3⟩ := h.frames_ok f hf
      refine ⟨List.mem_append_left _ h1, ?_, h3⟩
      have hi : x.meds.idxOf f.media < x.chs.length := by
        rw [hlen]; exact List.idxOf_lt_length_of_mem h1
      show f.chan = (x.chs ++ [req.getD (freePair x)]).getD ((x.meds ++ [m]).idxOf f.media) 0
      rw [idxOf_append_mem m h1, List.getD_eq_getElem?_getD, List.getElem?_append_left hi, h2]
      simp [chanOf, List.getD_eq_getElem?_getD]
  · exact h

theorem rinv_play {cfg : Cfg} {ws : WLog} {x : Reader} (h : RInv cfg ws x) :
    RInv cfg ws (rctl cfg x .play) := by
  simp only [rctl]
  split
  · rename_i hc
    simp only [Bool.and_eq_true, beq_iff_eq] at hc
    have hq : x.queue = [] := h.idle (by rw [hc.1]; decide) (by rw [hc.1]; decide)
    refine { h with frames_ok := ?_, frames_acc := ?_, cap := ?_, idle := ?_, tcp_flow := ?_ }
    · intro f hf; exact h.frames_ok f (by simpa [hq] using hf)
    · intro f hf; exact h.frames_acc f (by simpa [hq] using hf)
    · simp
    · intro _ _; rfl
    · intro hu
      have := h.tcp_flow hu
      simpa [live, flight, hq] using this
  · exact h

/-- discarding the whole queue: `ring.Close()` and `writer = nil` -/
theorem rinv_discard_queue {cfg : Cfg} {ws : WLog} {x : Reader} (h : RInv cfg ws x) (st : Status) :
    RInv cfg ws { x with status := st, disc := x.disc ++ x.queue.map Frame.deliv, queue := [] } := by
  have hsorted := h.acc_sorted
  refine { h with disc_sub := ?_, frames_ok := ?_, frames_acc := ?_, cap := ?_, idle := ?_, tcp_flow := ?_ }
  · intro d hd
    rcases List.mem_append.mp hd with hd | hd
    · exact h.disc_sub d hd
    · obtain ⟨f, hf, rfl⟩ := List.mem_map.mp hd
      exact h.frames_acc f (List.mem_append_right _ hf)
  · intro f hf
    obtain ⟨h1, h2, h3⟩ := h.frames_ok f (List.mem_append_left _ (by simpa using hf))
    exact ⟨h1, h2, h3⟩
  · intro f hf; exact h.frames_acc f (List.mem_append_left _ (by simpa using hf))
  · simp
  · intro _ _; rfl
  · intro hu
    have hflow := h.tcp_flow hu
    simp only [live, flight] at hflow ⊢
    rw [filter_filter_contains, hflow]
    simp only [List.append_nil, List.map_append, ← List.append_assoc]
    apply filter_not_mem_tail
    -- the three parts of `flight` are pairwise different: it is a sub-list of the sorted `acc`
    have hpw : (x.cbs ++ (x.wire ++ x.queue).map Frame.deliv).Pairwise (fun a b => a.wid < b.wid) := by
      rw [← hflow]; exact hsorted.filter _
    simp only [List.map_append, ← List.append_assoc] at hpw
    intro a ha b hb
    have := (List.pairwise_append.mp hpw).2.2 a ha b hb
    intro hab; subst hab; omega

theorem rinv_pclose {cfg : Cfg} {ws : WLog} {x : Reader} (h : RInv cfg ws x) :
    RInv cfg ws (rctl cfg x .pclose) := by
  simp only [rctl]
  split
  · exact rinv_discard_queue h .ringClosed
  · exact h

theorem rinv_pnil {cfg : Cfg} {ws : WLog} {x : Reader} (h : RInv cfg ws x) :
    RInv cfg ws (rctl cfg x .pnil) := by
  simp only [rctl]
  split
  · exact rinv_discard_queue h .noWriter
  · exact h

theorem rinv_pinact {cfg : Cfg} {ws : WLog} {x : Reader} (h : RInv cfg ws x) :
    RInv cfg ws (rctl cfg x .pinact) := by
  simp only [rctl]
  split
  · rename_i hc
    simp only [beq_iff_eq] at hc
    have hq : x.queue = [] := h.idle (by rw [hc]; decide) (by rw [hc]; decide)
    exact { h with idle := fun _ _ => hq }
  · exact h

theorem rinv_leave {cfg : Cfg} {ws : WLog} {x : Reader} (h : RInv cfg ws x) :
    RInv cfg ws (rctl cfg x .leave) := by
  simp only [rctl]
  split
  · exact h
  · split
    · rename_i hu
      have := rinv_discard_queue h .gone
      refine { this with tcp_flow := ?_ }
      intro hu'; simp [hu] at hu'
    · -- reliable transport: the frames in the pipe are lost too
      have hsorted := h.acc_sorted
      rename_i hu
      have hu : x.udp = false := by simpa using hu
      refine { h with disc_sub := ?_, frames_ok := ?_, frames_acc := ?_, cap := ?_, idle := ?_, tcp_flow := ?_ }
      · intro d hd
        rcases List.mem_append.mp hd with hd | hd
        · exact h.disc_sub d hd
        · obtain ⟨f, hf, rfl⟩ := List.mem_map.mp hd
          exact h.frames_acc f hf
      · intro f hf; simp at hf
      · intro f hf; simp at hf
      · simp
      · intro _ _; rfl
      · intro _
        have hflow := h.tcp_flow hu
        simp only [live, flight] at hflow ⊢
        rw [filter_filter_contains, hflow]
        simp only [List.append_nil, List.map_nil]
        apply filter_not_mem_tail
        have hpw : (x.cbs ++ (x.wire ++ x.queue).map Frame.deliv).Pairwise (fun a b => a.wid < b.wid) := by
          rw [← hflow]; exact hsorted.filter _
        intro a ha b hb
        have := (List.pairwise_append.mp hpw).2.2 a ha b hb
        intro hab; subst hab; omega

theorem rinv_consume {cfg : Cfg} {ws : WLog} {x : Reader} (h : RInv cfg ws x) :
    RInv cfg ws (rctl cfg x .consume) := by
  simp only [rctl]
  split
  · exact h
  · split
    · exact h
    · rename_i f q hq
      have hwq : x.wire ++ x.queue = (x.wire ++ [f]) ++ q := by rw [hq]; simp
      refine { h with frames_ok := ?_, frames_acc := ?_, cap := ?_, idle := ?_, tcp_flow := ?_ }
      · intro g hg; rw [← hwq] at hg
        obtain ⟨h1, h2, h3⟩ := h.frames_ok g hg
        exact ⟨h1, h2, h3⟩
      · intro g hg; rw [← hwq] at hg; exact h.frames_acc g hg
      · have := h.cap; rw [hq] at this; simp only [List.length_cons] at this; exact Nat.le_of_succ_le this
      · intro h1 h2
        have := h.idle h1 h2
        rw [hq] at this; cases this
      · intro hu
        have := h.tcp_flow hu
        simp only [live, flight] at this ⊢
        rw [← hwq]; exact this

theorem rinv_carry {cfg : Cfg} {ws : WLog} {x : Reader} (h : RInv cfg ws x) :
    RInv cfg ws (rctl cfg x .carry) := by
  simp only [rctl]
  split
  · exact h
  · rename_i hu
    have hu : x.udp = false := by simpa using hu
    split
    · exact h
    · rename_i f w hw
      have hok : FrameOK cfg x f := h.frames_ok f (by rw [hw]; simp)
      simp only [demux_ok cfg x h.chan_ok f hok]
      have hsub : ∀ g, g ∈ w ++ x.queue → g ∈ x.wire ++ x.queue := by
        intro g hg
        rw [hw]
        rcases List.mem_append.mp hg with hg | hg
        · exact List.mem_append_left _ (List.mem_cons_of_mem _ hg)
        · exact List.mem_append_right _ hg
      refine { h with frames_ok := ?_, frames_acc := ?_, tcp_flow := ?_ }
      · intro g hg
        obtain ⟨h1, h2, h3⟩ := h.frames_ok g (hsub g hg)
        exact ⟨h1, h2, h3⟩
      · intro g hg
        exact h.frames_acc g (hsub g hg)
      · intro _
        have := h.tcp_flow hu
        simp only [live, flight] at this ⊢
        rw [this, hw]
        simp [Frame.deliv]

end Rtsp.Pipe
