import Rtsp.Proofs.Pipeline.Inv
/-
The invariant along every event sequence, and the reduction of the whole system to one reader:
reader `r` of `run cfg s es` is the one-reader machine run on what `r` sees of `es`.
-/
namespace Rtsp.Pipe

theorem rinv_arrive {cfg : Cfg} {ws : WLog} {x : Reader} (h : RInv cfg ws x) (k : Nat) :
    RInv cfg ws (rctl cfg x (.arrive k)) := by
  simp only [rctl]
  split
  · exact h
  · rename_i hu
    have hu : x.udp = true := by simpa using hu
    split
    · exact h
    · rename_i f _
      unfold rarrive
      split
      · exact h
      · exact { h with tcp_flow := fun hf => by simp [hu] at hf }

theorem rinv_ctl {cfg : Cfg} {ws : WLog} {x : Reader} (h : RInv cfg ws x) (c : Ctl) :
    RInv cfg ws (rctl cfg x c) := by
  cases c with
  | setup m req => exact rinv_setup h m req
  | play => exact rinv_play h
  | pclose => exact rinv_pclose h
  | pnil => exact rinv_pnil h
  | pinact => exact rinv_pinact h
  | leave => exact rinv_leave h
  | consume => exact rinv_consume h
  | carry => exact rinv_carry h
  | arrive k => exact rinv_arrive h k

/-- the writes of an event sequence, in order: (media, packet as handed to `WritePacketRTP`) -/
def wlog : REv → WLog
  | .write m p => [(m, p)]
  | .ctl _ => []

def wlogs : List REv → WLog
  | [] => []
  | e :: es => wlog e ++ wlogs es

theorem rinv_rstep {cfg : Cfg} {ws : WLog} {x : Reader} (h : RInv cfg ws x) (e : REv) :
    RInv cfg (ws ++ wlog e) (rstep cfg x e) := by
  cases e with
  | write m p => exact rinv_write h m p
  | ctl c => simpa [wlog, rstep] using rinv_ctl h c

theorem rinv_rrun {cfg : Cfg} (evs : List REv) : ∀ {ws : WLog} {x : Reader}, RInv cfg ws x →
    RInv cfg (ws ++ wlogs evs) (rrun cfg x evs) := by
  induction evs with
  | nil => intro ws x h; simpa [wlogs, rrun] using h
  | cons e es ih =>
    intro ws x h
    have := ih (rinv_rstep h e)
    simpa [wlogs, rrun, List.append_assoc] using this

/-- every state reachable from a fresh reader satisfies the invariant, with the log of its writes -/
theorem rinv_reachable (cfg : Cfg) (u : Bool) (evs : List REv) :
    RInv cfg (wlogs evs) (rrun cfg { udp := u } evs) := by
  simpa using rinv_rrun evs (rinv_init cfg u)

/-! ## the whole system is a product of independent readers -/

/-- what reader `r` sees of an event sequence -/
def view (r : Nat) (es : List Event) : List REv := es.filterMap (proj r)

theorem rd_step (cfg : Cfg) (s : State) (e : Event) (r : Nat) (hr : r < s.readers.length) :
    (step cfg s e).rd r = match proj r e with
      | some e' => rstep cfg (s.rd r) e'
      | none => s.rd r := by
  cases e with
  | write m p =>
    simp only [step, proj, State.rd, rstep, List.getD_eq_getElem?_getD, List.getElem?_map]
    rw [List.getElem?_eq_getElem hr]
    rfl
  | ctl r' c =>
    simp only [step, proj, State.rd, List.getD_eq_getElem?_getD, List.getElem?_modify]
    rw [List.getElem?_eq_getElem hr]
    by_cases h : r' = r
    · subst h; simp [rstep]
    · simp [h]

theorem step_length (cfg : Cfg) (s : State) (e : Event) : (step cfg s e).readers.length = s.readers.length := by
  cases e <;> simp [step]

/-- **Isolation**: reader `r` after any event sequence is the one-reader machine run on its own view
of the sequence — writes and its own control events; what other readers do (join, stall, pause,
leave, lose datagrams) does not appear. -/
theorem rd_run (cfg : Cfg) (es : List Event) : ∀ (s : State) (r : Nat), r < s.readers.length →
    (run cfg s es).rd r = rrun cfg (s.rd r) (view r es) := by
  induction es with
  | nil => intro s r _; rfl
  | cons e es ih =>
    intro s r hr
    have hl : r < (step cfg s e).readers.length := by rw [step_length]; exact hr
    simp only [run, view, List.filterMap_cons]
    rw [ih (step cfg s e) r hl, rd_step cfg s e r hr]
    cases hp : proj r e with
    | none => rfl
    | some e' => rfl

theorem rd_init (kinds : List Bool) (r : Nat) (hr : r < kinds.length) :
    (init kinds).rd r = { udp := kinds[r] } := by
  simp [init, State.rd, List.getD_eq_getElem?_getD, List.getElem?_map, List.getElem?_eq_getElem hr]

end Rtsp.Pipe
