import Rtsp.Model.Chunk
/-
Monotonicity of the framing parser: a result (`ok` or `err`) decided on the bytes received so far
stays the same when more bytes arrive.  This is what makes the element sequence independent of
the chunking (`Proofs/FrameChunk.lean`).
-/
namespace Rtsp.Frame

@[simp] theorem PR.bind_ok {α β : Type} (a : α) (r : Bytes) (f : α → Bytes → PR β) : (PR.ok a r).bind f = f a r := rfl
@[simp] theorem PR.bind_more {α β : Type} (h : Bool) (f : α → Bytes → PR β) : (PR.more h : PR α).bind f = .more h := rfl
@[simp] theorem PR.bind_err {α β : Type} (f : α → Bytes → PR β) : (PR.err : PR α).bind f = .err := rfl

/-- `ok` and `err` results are stable under appending bytes; an `ok` result leaves at least `k`
bytes consumed (`r.length + k ≤ bs.length`). -/
def Mono {α : Type} (k : Nat) (p : Bytes → PR α) : Prop :=
  ∀ bs x, (∀ a r, p bs = .ok a r → p (bs ++ x) = .ok a (r ++ x) ∧ r.length + k ≤ bs.length) ∧
          (p bs = .err → p (bs ++ x) = .err)

theorem Mono.weaken {α : Type} {k j : Nat} {p : Bytes → PR α} (h : Mono k p) (hj : j ≤ k) : Mono j p := by
  intro bs x
  refine ⟨fun a r e => ?_, (h bs x).2⟩
  have := (h bs x).1 a r e
  exact ⟨this.1, by omega⟩

theorem mono_bind {α β : Type} {k j : Nat} {p : Bytes → PR α} {f : α → Bytes → PR β}
    (hp : Mono k p) (hf : ∀ a, Mono j (f a)) : Mono (k + j) (fun bs => (p bs).bind f) := by
  intro bs x
  constructor
  · intro b r h
    cases hpb : p bs with
    | ok a r' =>
      simp only [hpb, PR.bind_ok] at h
      have h1 := (hp bs x).1 a r' hpb
      have h2 := (hf a r' x).1 b r h
      simp only [h1.1, PR.bind_ok]
      exact ⟨h2.1, by omega⟩
    | more hh => simp [hpb] at h
    | err => simp [hpb] at h
  · intro h
    cases hpb : p bs with
    | ok a r' =>
      simp only [hpb, PR.bind_ok] at h
      have h1 := (hp bs x).1 a r' hpb
      simp only [h1.1, PR.bind_ok]
      exact (hf a r' x).2 h
    | more hh => simp [hpb] at h
    | err => simp [(hp bs x).2 hpb]

theorem mono_ok {α : Type} (a : α) : Mono 0 (fun bs => PR.ok a bs) := by
  intro bs x; constructor
  · intro b r h; cases h; exact ⟨rfl, by omega⟩
  · intro h; cases h

theorem mono_err {α : Type} (k : Nat) : Mono k (fun _ => (PR.err : PR α)) := by
  intro bs x; constructor
  · intro b r h; cases h
  · intro _; rfl

theorem mono_ite {α : Type} {k : Nat} (c : Prop) [Decidable c] {p q : Bytes → PR α}
    (hp : Mono k p) (hq : Mono k q) : Mono k (fun bs => if c then p bs else q bs) := by
  by_cases hc : c
  · simpa [hc] using hp
  · simpa [hc] using hq

/-! ### primitives -/

theorem mono_readByteEqual (c : UInt8) : Mono 1 (readByteEqual c) := by
  intro bs x
  cases bs with
  | nil => simp [readByteEqual]
  | cons b r =>
    by_cases hb : b = c <;> simp [readByteEqual, hb]

theorem mono_readLim (d : UInt8) (n : Nat) : Mono 1 (readLim d n) := by
  induction n with
  | zero => intro bs x; simp [readLim]
  | succ n ih =>
    intro bs x
    cases bs with
    | nil => simp [readLim]
    | cons b r =>
      by_cases hb : b = d
      · simp [readLim, hb]
      · have := ih r x
        simp only [readLim, hb, if_false, List.cons_append]
        cases hr : readLim d n r with
        | ok t r' =>
          have h1 := this.1 t r' hr
          simp [h1.1]; omega
        | more h => simp
        | err => simp [this.2 hr]

theorem mono_readLimSC (n : Nat) : Mono 1 (readLimSC n) := by
  induction n with
  | zero => intro bs x; simp [readLimSC]
  | succ n ih =>
    intro bs x
    cases bs with
    | nil => simp [readLimSC]
    | cons b r =>
      by_cases hb : b = SP ∨ b = CR
      · simp [readLimSC, hb]
      · have := ih r x
        simp only [readLimSC, hb, if_false, List.cons_append]
        cases hr : readLimSC n r with
        | ok t r' =>
          obtain ⟨t1, t2⟩ := t
          have h1 := this.1 (t1, t2) r' hr
          simp [h1.1]; omega
        | more h => simp
        | err => simp [this.2 hr]

theorem mono_readFull (n : Nat) : Mono n (readFull n) := by
  intro bs x
  constructor
  · intro a r h
    simp only [readFull] at h ⊢
    split at h
    · rename_i hle
      cases h
      have : n ≤ (bs ++ x).length := by simp; omega
      simp only [this, if_true, List.length_drop]
      refine ⟨?_, by omega⟩
      rw [List.take_append_of_le_length hle, List.drop_append_of_le_length hle]
    · cases h
  · intro h
    simp only [readFull] at h
    split at h <;> cases h

theorem mono_skipSpaces : Mono 0 skipSpaces := by
  intro bs x
  induction bs with
  | nil => simp [skipSpaces]
  | cons b r ih =>
    by_cases hb : b = SP
    · simp only [skipSpaces, hb, if_true, List.cons_append]
      refine ⟨fun a r' e => ?_, ih.2⟩
      have := ih.1 a r' e
      exact ⟨this.1, by simp; omega⟩
    · simp [skipSpaces, hb]

theorem mono_hardenKey {α : Type} {k : Nat} {p : Bytes → PR α} (hp : Mono k p) :
    Mono k (fun bs => hardenKey (p bs)) := by
  intro bs x
  constructor
  · intro a r h
    cases hpb : p bs with
    | ok a' r' =>
      simp only [hpb, hardenKey] at h
      cases h
      have := (hp bs x).1 a r hpb
      simp [this.1, hardenKey]; exact this.2
    | more hh => simp [hpb, hardenKey] at h
    | err => simp [hpb, hardenKey] at h
  · intro h
    cases hpb : p bs with
    | ok a' r' => simp [hpb, hardenKey] at h
    | more hh => simp [hpb, hardenKey] at h
    | err => simp [(hp bs x).2 hpb, hardenKey]

end Rtsp.Frame

namespace Rtsp.Frame
open Rtsp.Facts.Frame

/-! ### composite parsers -/

theorem mono_parseHeaders (fuel : Nat) : ∀ acc, Mono 2 (parseHeaders fuel acc) := by
  induction fuel with
  | zero =>
    intro acc bs x
    cases bs with
    | nil => simp [parseHeaders]
    | cons b r =>
      by_cases hb : b = CR
      · have := mono_bind (mono_readByteEqual LF) (fun (_ : Unit) => mono_ok acc) r x
        simp only [parseHeaders, hb, if_true, List.cons_append, List.length_cons]
        refine ⟨fun a r' e => ?_, this.2⟩
        have h := this.1 a r' e
        exact ⟨h.1, by omega⟩
      · simp [parseHeaders, hb]
  | succ fuel ih =>
    intro acc bs x
    cases bs with
    | nil => simp [parseHeaders]
    | cons b r =>
      by_cases hb : b = CR
      · have := mono_bind (mono_readByteEqual LF) (fun (_ : Unit) => mono_ok acc) r x
        simp only [parseHeaders, hb, if_true, List.cons_append, List.length_cons]
        refine ⟨fun a r' e => ?_, this.2⟩
        have h := this.1 a r' e
        exact ⟨h.1, by omega⟩
      · have := mono_bind (mono_hardenKey (mono_readLim COLON headerKeyReadLimit)) (fun t =>
          mono_bind mono_skipSpaces (fun (_ : Unit) =>
          mono_bind (mono_readLim CR headerValueReadLimit) (fun val =>
          mono_bind (mono_readByteEqual LF) (fun (_ : Unit) =>
          ih (hinsert acc (headerKeyNormalize (b :: t)) val))))) r x
        simp only [parseHeaders, hb, if_false, List.cons_append, List.length_cons]
        refine ⟨fun a r' e => ?_, this.2⟩
        have h := this.1 a r' e
        exact ⟨h.1, by omega⟩

theorem mono_parseBody (h : Header) : Mono 0 (parseBody h) := by
  unfold parseBody
  split
  · split
    · exact mono_err 0
    · exact mono_ite _ (mono_err 0) ((mono_readFull _).weaken (Nat.zero_le _))
  · exact mono_ok []

theorem mono_bindL {α β : Type} {k : Nat} {p : Bytes → PR α} {f : α → Bytes → PR β}
    (hp : Mono k p) (hf : ∀ a, Mono 0 (f a)) : Mono k (fun bs => (p bs).bind f) :=
  (mono_bind hp hf).weaken (Nat.le_add_right k 0)

theorem mono_bind0 {α β : Type} {k : Nat} {p : Bytes → PR α} {f : α → Bytes → PR β}
    (hp : Mono k p) (hf : ∀ a, Mono 0 (f a)) : Mono 0 (fun bs => (p bs).bind f) :=
  (mono_bind hp hf).weaken (Nat.zero_le _)

theorem mono_parseRequest (up : Bytes → Option Bytes) : Mono 1 (parseRequest up) := by
  unfold parseRequest
  refine mono_bindL (mono_readLim SP requestMaxMethodLength) (fun method => ?_)
  refine mono_ite _ (mono_err 0) ?_
  refine mono_bind0 (mono_readLim SP requestMaxURLLength) (fun rawURL => ?_)
  split
  · exact mono_err 0
  · refine mono_bind0 (mono_readLim CR requestMaxProtocolLength) (fun proto => ?_)
    refine mono_ite _ (mono_err 0) ?_
    refine mono_bind0 (mono_readByteEqual LF) (fun _ => ?_)
    refine mono_bind0 (mono_parseHeaders _ _) (fun h => ?_)
    exact mono_bind0 (mono_parseBody h) (fun body => mono_ok _)

theorem mono_parseResponse : Mono 1 parseResponse := by
  unfold parseResponse
  refine mono_bindL (mono_readLim SP responseMaxProtocolLength) (fun proto => ?_)
  refine mono_ite _ (mono_err 0) ?_
  refine mono_bind0 (mono_readLimSC responseMaxStatusCodeLength) (fun cd => ?_)
  obtain ⟨codeStr, delim⟩ := cd
  simp only
  split
  · exact mono_err 0
  · have hmsg : Mono 0 (fun bs => if delim = SP then readLim CR responseMaxStatusMessageLength bs else PR.ok [] bs) :=
      mono_ite _ ((mono_readLim _ _).weaken (Nat.zero_le _)) (mono_ok [])
    refine mono_bind0 hmsg (fun msg => ?_)
    refine mono_bind0 (mono_readByteEqual LF) (fun _ => ?_)
    refine mono_bind0 (mono_parseHeaders _ _) (fun h => ?_)
    exact mono_bind0 (mono_parseBody h) (fun body => mono_ok _)

theorem mono_parseFrame : Mono 4 parseFrame := by
  unfold parseFrame
  refine mono_bindL (mono_readFull 4) (fun hd => ?_)
  split
  · refine mono_ite _ (mono_err 0) ?_
    exact mono_bind0 (mono_readFull _) (fun p => mono_ok _)
  · exact mono_err 0

theorem mono_readElem (up : Bytes → Option Bytes) : Mono 1 (readElem up) := by
  intro bs x
  induction bs with
  | nil => simp [readElem]
  | cons b0 t ih =>
    cases t with
    | nil => simp [readElem]
    | cons b1 t' =>
      have hF := (mono_bindL mono_parseFrame (fun f => mono_ok (Elem.frame f))).weaken (Nat.le_add_right 1 3) (b0 :: b1 :: t') x
      have hS := (mono_bindL mono_parseResponse (fun f => mono_ok (Elem.res f))) (b0 :: b1 :: t') x
      have hQ := (mono_bindL (mono_parseRequest up) (fun f => mono_ok (Elem.req f))) (b0 :: b1 :: t') x
      simp only [readElem, List.cons_append]
      simp only [List.cons_append] at hF hS hQ ih
      split
      · exact hF
      · split
        · exact hS
        · split
          · exact hQ
          · refine ⟨fun a r e => ?_, ih.2⟩
            have h := ih.1 a r e
            exact ⟨h.1, by simp only [List.length_cons] at h ⊢; omega⟩

end Rtsp.Frame
