import Rtsp.Proofs.AsyncInv
/-
Theorems about the processor model: error reported once and the processor stops, executed is a
prefix of accepted (exactly once while open), nothing runs after Close has returned, Close can
always return, an open error-free processor can execute everything it accepted.
-/
namespace Rtsp.Async
open Rtsp.Ring
variable {size : Nat}

/-! ### error: reported exactly once, then nothing runs -/

theorem stopped_step {p : Proc} (h : Stopped p) (op : AOp) :
    Stopped (step p op) ∧ (step p op).executed = p.executed ∧ (step p op).errors = p.errors := by
  have hclose : (closeStep p).cons = p.cons ∧ (closeStep p).executed = p.executed ∧ (closeStep p).errors = p.errors := by
    unfold closeStep; split <;> (try split) <;> exact ⟨rfl, rfl, rfl⟩
  have same : ∀ q : Proc, q = p → Stopped q ∧ q.executed = p.executed ∧ q.errors = p.errors := by
    intro q e; subst e; exact ⟨h, rfl, rfl⟩
  rcases h with ⟨c, hc⟩ | hc
  · cases op with
    | push x => exact ⟨.inl ⟨c, hc⟩, rfl, rfl⟩
    | start => exact same _ (by simp only [step, start, hc])
    | closeStep => exact ⟨.inl ⟨c, hclose.1.trans hc⟩, hclose.2⟩
    | cpull => exact same _ (by simp only [step, cpull, hc])
    | cexec => exact same _ (by simp only [step, cexec, hc])
    | cerr =>
      by_cases hcond : (!p.onErrBlocks || p.cancelled) = true
      · have e : step p .cerr = { p with cons := .exited } := by simp only [step, cerr, hc, hcond, if_true]
        rw [e]; exact ⟨.inr rfl, rfl, rfl⟩
      · exact same _ (by simp only [step, cerr, hc, hcond]; rfl)
  · cases op with
    | push x => exact ⟨.inr hc, rfl, rfl⟩
    | start => exact same _ (by simp only [step, start, hc])
    | closeStep => exact ⟨.inr (hclose.1.trans hc), hclose.2⟩
    | cpull => exact same _ (by simp only [step, cpull, hc])
    | cexec => exact same _ (by simp only [step, cexec, hc])
    | cerr => exact same _ (by simp only [step, cerr, hc])

theorem stopped_run {p : Proc} (h : Stopped p) (ops : List AOp) :
    (run p ops).executed = p.executed ∧ (run p ops).errors = p.errors := by
  induction ops generalizing p with
  | nil => exact ⟨rfl, rfl⟩
  | cons op ops ih =>
    obtain ⟨hs, he, hr⟩ := stopped_step h op
    obtain ⟨he2, hr2⟩ := ih hs
    exact ⟨by rw [run_cons, he2, he], by rw [run_cons, hr2, hr]⟩

/-- states reachable from `Initialize` under any interleaving of caller and consumer steps -/
def Reachable (size : Nat) (b : Bool) (p : Proc) : Prop := ∃ ops, run (init size b) ops = p

theorem Reachable.inv {b : Bool} {p : Proc} (h : 0 < size) (hr : Reachable size b p) : AInv p := by
  obtain ⟨ops, rfl⟩ := hr; exact ainv_reachable h b ops

theorem Reachable.run {b : Bool} {p : Proc} (hr : Reachable size b p) (ops : List AOp) :
    Reachable size b (run p ops) := by
  obtain ⟨ops0, rfl⟩ := hr; exact ⟨ops0 ++ ops, run_append _ _ _⟩

/-- **error_once**: in every reachable state `OnError` has been called at most once, exactly for
the failing callbacks that ran (so: once iff one ran), and the failing callback is the last one
that ran. -/
theorem error_once {b : Bool} {p : Proc} (h : 0 < size) (hr : Reachable size b p) :
    p.errors.length ≤ 1 ∧ p.errors = p.executed.filter (·.fails) ∧
      (∀ c, c ∈ p.errors → p.executed.getLast? = some c) := by
  have hi := hr.inv h
  refine ⟨?_, hi.errs, ?_⟩
  · rcases hi.err1 with e | ⟨c, e, _, _⟩ <;> rw [e] <;> simp
  · intro c hc
    rcases hi.err1 with e | ⟨c', e, e2, _⟩
    · rw [e] at hc; cases hc
    · rw [e] at hc
      simp at hc; subst hc; exact e2

/-- … and the processor stops: once an error was reported, no further step of anybody runs a
callback or reports another error -/
theorem stops_after_error {b : Bool} {p : Proc} (h : 0 < size) (hr : Reachable size b p)
    (he : p.errors ≠ []) (ops : List AOp) :
    (run p ops).executed = p.executed ∧ (run p ops).errors = p.errors := by
  have hi := hr.inv h
  have hs : Stopped p := by
    rcases hi.err1 with e | ⟨c, _, _, e3⟩
    · exact absurd e he
    · rcases e3 with e3 | e3
      · exact .inl ⟨c, e3⟩
      · exact .inr e3
  exact stopped_run hs ops

/-! ### executed is a prefix of accepted -/

/-- **prefix_executed**: what ran (plus what is running) is a prefix of what was accepted: same
order, nothing twice, nothing that was not accepted -/
theorem prefix_executed {b : Bool} {p : Proc} (h : 0 < size) (hr : Reachable size b p) :
    (p.executed ++ held p) <+: p.accepted := by
  obtain ⟨mid, hacc, _⟩ := (hr.inv h).acct
  exact ⟨mid ++ absItems p.ring, by rw [hacc]; simp⟩

theorem executed_prefix {b : Bool} {p : Proc} (h : 0 < size) (hr : Reachable size b p) :
    p.executed <+: p.accepted :=
  (List.prefix_append _ _).trans (prefix_executed h hr)

/-- while the ring has not been closed, every accepted callback has run, is running or is still
queued — in that order (nothing lost, nothing duplicated) -/
theorem exactly_once_while_open {b : Bool} {p : Proc} (h : 0 < size) (hr : Reachable size b p)
    (hopen : p.ring.closed = false) :
    p.accepted = p.executed ++ held p ++ absItems p.ring := by
  obtain ⟨mid, hacc, hmid⟩ := (hr.inv h).acct
  rw [hmid hopen] at hacc
  simpa using hacc

/-! ### nothing runs after Close has returned -/

/-- closed ring and no callback in the consumer's hands -/
def Quiet (p : Proc) : Prop :=
  p.ring.closed = true ∧ (p.cons = .notStarted ∨ p.cons = .pulling ∨ p.cons = .exited)

theorem quiet_step {p : Proc} (h : Quiet p) (op : AOp) : Quiet (step p op) ∧ (step p op).executed = p.executed := by
  obtain ⟨hc, hk⟩ := h
  cases op with
  | push x => exact ⟨⟨by simp only [step, push, push_closed]; exact hc, hk⟩, rfl⟩
  | start =>
    simp only [step, start]
    split
    · exact ⟨⟨hc, .inr (.inl rfl)⟩, rfl⟩
    · exact ⟨⟨hc, hk⟩, rfl⟩
  | closeStep =>
    simp only [step]
    unfold closeStep
    split
    · exact ⟨⟨hc, hk⟩, rfl⟩
    · exact ⟨⟨hc, hk⟩, rfl⟩
    · exact ⟨⟨rfl, hk⟩, rfl⟩
    · split
      · exact ⟨⟨hc, hk⟩, rfl⟩
      · exact ⟨⟨hc, hk⟩, rfl⟩
  | cpull =>
    simp only [step]
    unfold cpull
    split
    · have : pullTry p.ring = (p.ring, .closed) := pull_closed hc
      rw [this]
      exact ⟨⟨hc, .inr (.inr rfl)⟩, rfl⟩
    · exact ⟨⟨hc, hk⟩, rfl⟩
  | cexec =>
    simp only [step]
    unfold cexec
    split
    · rename_i c hcc; rcases hk with e | e | e <;> rw [hcc] at e <;> cases e
    · exact ⟨⟨hc, hk⟩, rfl⟩
  | cerr =>
    simp only [step]
    unfold cerr
    split
    · rename_i c hcc; rcases hk with e | e | e <;> rw [hcc] at e <;> cases e
    · exact ⟨⟨hc, hk⟩, rfl⟩

theorem quiet_run {p : Proc} (h : Quiet p) (ops : List AOp) : (run p ops).executed = p.executed := by
  induction ops generalizing p with
  | nil => rfl
  | cons op ops ih =>
    obtain ⟨hq, he⟩ := quiet_step h op
    rw [run_cons, ih hq, he]

/-- **nothing runs after Close has returned**: whatever happens afterwards (pushes, a late Start,
consumer steps, another Close) no callback is executed any more -/
theorem nothing_after_close {b : Bool} {p : Proc} (h : 0 < size) (hr : Reachable size b p)
    (hret : p.closer = .returned) (ops : List AOp) :
    (run p ops).executed = p.executed := by
  have hi := hr.inv h
  exact quiet_run ⟨hi.clo (.inr hret), hi.ret hret⟩ ops

/-- `Close` returns only when the consumer was never started or has exited -/
theorem close_returned_joined {b : Bool} {p : Proc} (h : 0 < size) (hr : Reachable size b p)
    (hnot : p.closer ≠ .returned) (hret : (closeStep p).closer = .returned) :
    p.cons = .notStarted ∨ p.cons = .exited := by
  have hi := hr.inv h
  unfold closeStep at hret
  split at hret
  · cases hret
  · exact absurd (by assumption) hnot
  · cases hret
  · split at hret
    · rename_i hcond
      simp only [Bool.or_eq_true, Bool.not_eq_true', beq_iff_eq] at hcond
      rcases hcond with hc | hc
      · left; have := hi.run; rw [hc] at this; simpa using this.symm
      · exact .inr hc
    · rename_i hcl _; rw [hcl] at hret; cases hret

/-! ### Close always can return (no deadlock) -/

/-- once `buffer.Close()` has run, the consumer needs at most two of its own steps to exit, after
which `Close` returns -/
theorem close_terminates {b : Bool} {p : Proc} (h : 0 < size) (hr : Reachable size b p)
    (hcl : p.closer = .ringClosed) :
    ∃ cs : List AOp, (∀ o ∈ cs, o = .cpull ∨ o = .cexec ∨ o = .cerr) ∧
      (closeStep (run p cs)).closer = .returned := by
  have hi := hr.inv h
  have hclosed := hi.clo (.inl hcl)
  have hcanc : p.cancelled = true := by
    rcases hi.canc with e | e
    · rw [hcl] at e; cases e
    · exact e
  have hrun := hi.run
  -- a state with closer = ringClosed and (not running or exited) returns
  have fin : ∀ q : Proc, q.closer = .ringClosed → (q.running = false ∨ q.cons = .exited) →
      (closeStep q).closer = .returned := by
    intro q hq hc
    unfold closeStep
    rw [hq]
    rcases hc with hc | hc <;> simp [hc]
  have pull_exit : ∀ q : Proc, q.cons = .pulling → q.ring.closed = true →
      (cpull q).cons = .exited ∧ (cpull q).closer = q.closer := by
    intro q hq hc
    unfold cpull
    rw [hq]
    rw [pull_closed hc]
    exact ⟨rfl, rfl⟩
  cases hc : p.cons with
  | notStarted =>
    exact ⟨[], by simp, fin p hcl (.inl (by rw [hrun, hc]; rfl))⟩
  | exited =>
    exact ⟨[], by simp, fin p hcl (.inr hc)⟩
  | pulling =>
    obtain ⟨e1, e2⟩ := pull_exit p hc hclosed
    exact ⟨[.cpull], by simp, fin _ (e2.trans hcl) (.inr e1)⟩
  | inError c =>
    have : (cerr p).cons = .exited ∧ (cerr p).closer = p.closer := by
      unfold cerr; rw [hc]; simp [hcanc]
    exact ⟨[.cerr], by simp, fin _ (this.2.trans hcl) (.inr this.1)⟩
  | holding c =>
    by_cases hf : c.fails = true
    · have e1 : (cexec p).cons = .inError c ∧ (cexec p).closer = p.closer ∧ (cexec p).cancelled = p.cancelled := by
        unfold cexec; rw [hc]; simp [hf]
      have e2 : (cerr (cexec p)).cons = .exited ∧ (cerr (cexec p)).closer = (cexec p).closer := by
        unfold cerr; rw [e1.1]; simp [e1.2.2, hcanc]
      exact ⟨[.cexec, .cerr], by simp, fin _ ((e2.2.trans e1.2.1).trans hcl) (.inr e2.1)⟩
    · have e1 : (cexec p).cons = .pulling ∧ (cexec p).closer = p.closer ∧ (cexec p).ring = p.ring := by
        unfold cexec; rw [hc]; simp [hf]
      obtain ⟨e2, e3⟩ := pull_exit (cexec p) e1.1 (by rw [e1.2.2]; exact hclosed)
      exact ⟨[.cexec, .cpull], by simp, fin _ ((e3.trans e1.2.1).trans hcl) (.inr e2)⟩

/-! ### an open, error-free processor executes everything it accepted -/

theorem pull_head {r : Ring Cb} (hr : RingInv r) (hopen : r.closed = false) {c : Cb} {xs : List Cb}
    (hitems : absItems r = c :: xs) :
    (pullTry r).2 = .item c ∧ absItems (pullTry r).1 = xs := by
  obtain ⟨base, items, h⟩ := hr
  have : items = c :: xs := by rw [← absItems_of_inv h]; exact hitems
  subst this
  obtain ⟨h1, h2⟩ := pull_item h hopen
  exact ⟨h1, absItems_of_inv h2⟩

theorem drain_pulling (h : 0 < size) {b : Bool} (n : Nat) :
    ∀ p : Proc, Reachable size b p → p.ring.closed = false → p.cons = .pulling →
      (absItems p.ring).length = n → (∀ c ∈ absItems p.ring, c.fails = false) →
      ∃ cs : List AOp, (∀ o ∈ cs, o = .cpull ∨ o = .cexec) ∧
        (run p cs).executed = p.accepted ∧ (run p cs).errors = p.errors := by
  induction n with
  | zero =>
    intro p hr hopen hc hn _
    have hnil : absItems p.ring = [] := List.eq_nil_of_length_eq_zero hn
    have := exactly_once_while_open h hr hopen
    rw [hnil] at this
    simp only [held, hc, List.append_nil] at this
    exact ⟨[], by simp, this.symm, rfl⟩
  | succ n ih =>
    intro p hr hopen hc hn hok
    cases hitems : absItems p.ring with
    | nil => rw [hitems] at hn; cases hn
    | cons c xs =>
      obtain ⟨hp2, hp1⟩ := pull_head (hr.inv h).ring hopen hitems
      have hcf : c.fails = false := hok c (by rw [hitems]; exact List.mem_cons_self ..)
      -- the two consumer steps
      have e1 : cpull p = { p with ring := (pullTry p.ring).1, cons := .holding c } := by
        unfold cpull; rw [hc]
        have : pullTry p.ring = ((pullTry p.ring).1, .item c) := by rw [← hp2]
        rw [this]
      have e2 : cexec (cpull p) = { p with ring := (pullTry p.ring).1, cons := .pulling, executed := p.executed ++ [c] } := by
        rw [e1]; unfold cexec; simp [hcf]
      have hrun2 : run p [.cpull, .cexec] = cexec (cpull p) := rfl
      have hr2 : Reachable size b (cexec (cpull p)) := hrun2 ▸ hr.run _
      rw [e2] at hr2
      obtain ⟨cs, hcs, hex, her⟩ := ih _ hr2 (by simp only [pullTry_closed]; exact hopen) rfl
        (by simp only [hp1]; rw [hitems] at hn; simpa using hn)
        (by simp only [hp1]; intro x hx; exact hok x (by rw [hitems]; exact List.mem_cons_of_mem _ hx))
      refine ⟨.cpull :: .cexec :: cs, ?_, ?_, ?_⟩
      · intro o ho
        simp only [List.mem_cons] at ho
        rcases ho with rfl | rfl | ho
        · exact .inl rfl
        · exact .inr rfl
        · exact hcs o ho
      · rw [run_cons, run_cons]; simp only [step]; rw [e2]; exact hex
      · rw [run_cons, run_cons]; simp only [step]; rw [e2]; exact her

/-- **all accepted callbacks get executed** when nothing intervenes: from any reachable state in
which the ring is open, the consumer is alive and no queued / running callback fails, there is a
schedule of consumer steps after which `executed = accepted` (and no error was reported) -/
theorem drain {b : Bool} {p : Proc} (h : 0 < size) (hr : Reachable size b p) (hopen : p.ring.closed = false)
    (halive : p.cons = .pulling ∨ ∃ c, p.cons = .holding c)
    (hok : ∀ c ∈ held p ++ absItems p.ring, c.fails = false) :
    ∃ cs : List AOp, (∀ o ∈ cs, o = .cpull ∨ o = .cexec) ∧
      (run p cs).executed = p.accepted ∧ (run p cs).errors = p.errors := by
  rcases halive with hc | ⟨c, hc⟩
  · exact drain_pulling h _ p hr hopen hc rfl (fun x hx => hok x (List.mem_append_right _ hx))
  · have hcf : c.fails = false := hok c (by simp [held, hc])
    have e : cexec p = { p with cons := .pulling, executed := p.executed ++ [c] } := by
      unfold cexec; rw [hc]; simp [hcf]
    have hr2 : Reachable size b (cexec p) := hr.run [.cexec]
    rw [e] at hr2
    obtain ⟨cs, hcs, hex, her⟩ := drain_pulling h _ _ hr2 hopen rfl rfl
      (fun x hx => hok x (List.mem_append_right _ hx))
    refine ⟨.cexec :: cs, ?_, ?_, ?_⟩
    · intro o ho
      simp only [List.mem_cons] at ho
      rcases ho with rfl | ho
      · exact .inr rfl
      · exact hcs o ho
    · rw [run_cons]; simp only [step]; rw [e]; exact hex
    · rw [run_cons]; simp only [step]; rw [e]; exact her

end Rtsp.Async
