import Rtsp.Proofs.FrameMono
/-
`chunk_independent`: the chunked reader returns, for every partition of the byte stream into
chunks, what reading the concatenation returns.
-/
namespace Rtsp.Frame

theorem drain_nil (up : Bytes → Option Bytes) (f : Nat) : drain up f [] = ([], .more false []) := by
  cases f <;> simp [drain, readElem]

/-- enough fuel is as good as any other amount of enough fuel -/
theorem drain_fuel (up : Bytes → Option Bytes) :
    ∀ f g bs, bs.length ≤ f → bs.length ≤ g → drain up f bs = drain up g bs := by
  intro f
  induction f with
  | zero =>
    intro g bs hf _
    have : bs = [] := List.eq_nil_of_length_eq_zero (by omega)
    subst this
    simp [drain_nil]
  | succ f ih =>
    intro g bs hf hg
    cases g with
    | zero =>
      have : bs = [] := List.eq_nil_of_length_eq_zero (by omega)
      subst this
      simp [drain_nil]
    | succ g =>
      simp only [drain]
      cases hr : readElem up bs with
      | ok e rest =>
        have hlen := ((mono_readElem up bs []).1 e rest hr).2
        simp only
        rw [ih g rest (by omega) (by omega)]
      | more h => rfl
      | err => rfl

/-- the canonical amount of fuel -/
def drainL (up : Bytes → Option Bytes) (bs : Bytes) : List Elem × Stop := drain up bs.length bs

theorem drainL_eq (up : Bytes → Option Bytes) (f : Nat) (bs : Bytes) (h : bs.length ≤ f) :
    drain up f bs = drainL up bs := drain_fuel up f bs.length bs h (Nat.le_refl _)

theorem drainL_unfold (up : Bytes → Option Bytes) (bs : Bytes) :
    drainL up bs =
      match readElem up bs with
      | .ok e rest => (e :: (drainL up rest).1, (drainL up rest).2)
      | .more h => ([], .more h bs)
      | .err => ([], .err) := by
  cases bs with
  | nil => simp [drainL, drain, readElem]
  | cons b r =>
    simp only [drainL, List.length_cons, drain]
    cases hr : readElem up (b :: r) with
    | ok e rest =>
      have hlen := ((mono_readElem up (b :: r) []).1 e rest hr).2
      simp only [List.length_cons] at hlen
      simp only
      rw [drain_fuel up r.length rest.length rest (by omega) (Nat.le_refl _)]
    | more h => rfl
    | err => rfl

/-- draining more bytes: the elements already decided stay, reading continues on the pending bytes -/
theorem drainL_append (up : Bytes → Option Bytes) (x : Bytes) :
    ∀ (n : Nat) (bs : Bytes), bs.length ≤ n →
      (∀ es h buf, drainL up bs = (es, .more h buf) →
        drainL up (bs ++ x) = (es ++ (drainL up (buf ++ x)).1, (drainL up (buf ++ x)).2)) ∧
      (∀ es, drainL up bs = (es, .err) → drainL up (bs ++ x) = (es, .err)) := by
  intro n
  induction n with
  | zero =>
    intro bs hn
    have : bs = [] := List.eq_nil_of_length_eq_zero (by omega)
    subst this
    constructor
    · intro es h buf e
      simp only [drainL, List.length_nil, drain_nil, Prod.mk.injEq, Stop.more.injEq] at e
      obtain ⟨rfl, _, rfl⟩ := e
      simp
    · intro es e
      simp [drainL, drain_nil] at e
  | succ n ih =>
    intro bs hn
    rw [drainL_unfold up bs, drainL_unfold up (bs ++ x)]
    cases hr : readElem up bs with
    | ok e rest =>
      have hm := (mono_readElem up bs x).1 e rest hr
      have hi := ih rest (by have := hm.2; omega)
      simp only [hm.1]
      constructor
      · intro es h buf eq
        simp only [Prod.mk.injEq] at eq
        obtain ⟨rfl, h2⟩ := eq
        have := hi.1 (drainL up rest).1 h buf (by rw [← h2])
        rw [this]; simp
      · intro es eq
        simp only [Prod.mk.injEq] at eq
        obtain ⟨rfl, h2⟩ := eq
        have := hi.2 (drainL up rest).1 (by rw [← h2])
        rw [this]
    | more h =>
      constructor
      · intro es h' buf eq
        simp only [Prod.mk.injEq, Stop.more.injEq] at eq
        obtain ⟨rfl, _, rfl⟩ := eq
        simp only [List.nil_append]
        exact (drainL_unfold up (bs ++ x)).symm ▸ rfl
      · intro es eq; simp at eq
    | err =>
      have hm := (mono_readElem up bs x).2 hr
      simp only [hm]
      constructor
      · intro es h buf eq; simp at eq
      · intro es eq; exact eq

theorem readAll_nil (up : Bytes → Option Bytes) (buf : Bytes) :
    readAll up buf [] = ((drainL up buf).1, (drainL up buf).2.atEnd) := rfl

theorem readAll_cons (up : Bytes → Option Bytes) (buf c : Bytes) (cs : List Bytes) :
    readAll up buf (c :: cs) =
      match (drainL up (buf ++ c)).2 with
      | .more _ buf' => ((drainL up (buf ++ c)).1 ++ (readAll up buf' cs).1, (readAll up buf' cs).2)
      | .err => ((drainL up (buf ++ c)).1, .err) := rfl

/-- reading through the chunked reader = reading the concatenation at once (general form: any
bytes already pending) -/
theorem readAll_flatten (up : Bytes → Option Bytes) :
    ∀ (chunks : List Bytes) (buf : Bytes), readAll up buf chunks = readAll up (buf ++ chunks.flatten) [] := by
  intro chunks
  induction chunks with
  | nil => intro buf; simp
  | cons c cs ih =>
    intro buf
    rw [readAll_cons, readAll_nil]
    have hA := drainL_append up cs.flatten (buf ++ c).length (buf ++ c) (Nat.le_refl _)
    have hflat : buf ++ (c :: cs).flatten = (buf ++ c) ++ cs.flatten := by simp
    rw [hflat]
    cases hd : (drainL up (buf ++ c)).2 with
    | more h buf' =>
      have h1 := hA.1 (drainL up (buf ++ c)).1 h buf' (by rw [← hd])
      simp only [ih buf', readAll_nil, h1]
    | err =>
      have h1 := hA.2 (drainL up (buf ++ c)).1 (by rw [← hd])
      simp only [h1, Stop.atEnd]

/-- **chunk_independent**: for every partition of a byte stream into chunks (1-byte chunks and
empty chunks included) the chunked reader yields the element sequence, and the same way of ending,
as parsing the concatenation. -/
theorem chunk_independent (up : Bytes → Option Bytes) (chunks : List Bytes) :
    readAll up [] chunks = parseAll up chunks.flatten := by
  rw [parseAll, readAll_flatten up chunks [], readAll_flatten up [chunks.flatten] []]
  simp

/-- two partitions of the same byte stream are read alike -/
theorem chunk_independent' (up : Bytes → Option Bytes) (c1 c2 : List Bytes) (h : c1.flatten = c2.flatten) :
    readAll up [] c1 = readAll up [] c2 := by
  rw [chunk_independent, chunk_independent, h]

end Rtsp.Frame
