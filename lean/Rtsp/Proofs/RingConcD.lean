import Rtsp.Proofs.RingConcC
import Rtsp.Proofs.RingQueue
/-
Final statements about the concurrent ring: mutual exclusion, ring accesses only by the mutex owner,
lock-acquisition order = critical-section order, linearizability to the bounded FIFO.
-/
namespace Rtsp.RingConc
open Rtsp.Ring
variable {α : Type}

/-- thread `t` is inside a critical section (between `Lock` and `Unlock`) -/
def holding (s : State α) : Tid → Bool
  | .prod i => (s.prod i).holds
  | .cons => s.cons.holds
  | .closer => s.closer.holds

theorem holder_is_owner {size : Nat} {s : State α} (h : Reachable size s) (t : Tid) :
    holding s t = true ↔ s.owner = some t := by
  have hi := ownerInv_reachable h
  cases t with
  | prod i => simp only [holding, hi.prod i, beq_iff_eq]
  | cons => simp only [holding, hi.cons, beq_iff_eq]
  | closer => simp only [holding, hi.closer, beq_iff_eq]

/-- **mutual exclusion**: in every reachable state at most one thread is inside a critical section -/
theorem mutual_exclusion {size : Nat} {s : State α} (h : Reachable size s) (t1 t2 : Tid)
    (h1 : holding s t1 = true) (h2 : holding s t2 = true) : t1 = t2 := by
  have e1 := (holder_is_owner h t1).mp h1
  have e2 := (holder_is_owner h t2).mp h2
  rw [e1] at e2; exact Option.some.inj e2

/-- the thread that takes a step -/
def Act.tid : Act α → Tid
  | .prodLock i _ | .prodBody i | .prodBcast i => .prod i
  | .consLock | .consBody | .consReacq | .consUnlock => .cons
  | .closerLock | .closerBody | .closerBcast => .closer

/-- the steps that read or write ring state (`buffer`, `readIndex`, `writeIndex`, `closed`) -/
def Act.accessesRing : Act α → Bool
  | .prodBody _ | .consBody | .closerBody => true
  | _ => false

/-- every access to ring state is made by the thread that owns the mutex -/
theorem ring_access_by_owner {size : Nat} {s s' : State α} (h : Reachable size s) {a : Act α}
    (hs : step? s a = some s') (ha : a.accessesRing = true) : s.owner = some a.tid := by
  have hi := ownerInv_reachable h
  cases a <;> simp only [Act.accessesRing] at ha <;> try cases ha
  case prodBody i =>
    step_cases hs
    rename_i x hp
    have := hi.prod i
    rw [hp] at this
    simpa [Act.tid] using this.symm
  case consBody =>
    step_cases hs
    rename_i hp
    have := hi.cons
    rw [hp] at this
    simpa [Act.tid] using this.symm
  case closerBody =>
    step_cases hs
    rename_i hp
    have := hi.closer
    rw [hp] at this
    simpa [Act.tid] using this.symm

/-- the other steps leave the ring state alone -/
theorem ring_unchanged {s s' : State α} {a : Act α} (hs : step? s a = some s')
    (ha : a.accessesRing = false) : s'.ring = s.ring := by
  cases a <;> simp only [Act.accessesRing] at ha <;> (try cases ha) <;> (step_cases hs; rfl)

/-- **linearizability (state and results)**: in every reachable state, the log of critical sections
(in execution order) replayed on the *sequential* ring from `New(size)` produces the current ring
state and exactly the value each thread obtained; the same log replayed on the *bounded FIFO
specification* produces the same values, and the ring invariant holds. -/
theorem conc_linearizable {size : Nat} (hsize : 0 < size) {s : State α} (h : Reachable size s) :
    Ring.run (Ring.new size) (s.log.map (·.op)) = (s.ring, s.log.map (·.res)) ∧
    Fifo.run (Fifo.new size) (s.log.map (·.op)) = (Ring.abs s.ring, s.log.map (·.res)) ∧
    RingInv s.ring := by
  have hl := logInv_reachable h
  unfold LogInv at hl
  refine ⟨hl, ?_, ?_⟩
  · rw [run_new_refines hsize, hl]
  · have := ringInv_run (α := α) hsize (s.log.map (·.op))
    rw [hl] at this; exact this

end Rtsp.RingConc
