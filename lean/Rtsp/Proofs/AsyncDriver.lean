import Rtsp.Proofs.AsyncProps
import Rtsp.Drv.Ring
/-
The deterministic schedule used by the correspondence driver (`settle`, `post`, `joinFuel`, and the
line-protocol operations built from them) consists of steps of the small-step processor model, so
every state the compiled oracle prints is `Reachable` and all the theorems apply to it.
-/
namespace Rtsp.Async
open Rtsp.Ring
variable {size : Nat} {b : Bool}

theorem cpull_of_not_pulling {p : Proc} (h : p.cons ≠ .pulling) : cpull p = p := by
  unfold cpull
  split
  · rename_i hc; exact absurd hc h
  · rfl

theorem settle_eq (p : Proc) : settle p = run p [.cerr, .cpull] := by
  show settle p = cpull (cerr p)
  simp only [settle]
  split
  · rfl
  · rename_i hc
    rw [cpull_of_not_pulling]
    intro e; exact hc e

theorem Reachable.settle {p : Proc} (hr : Reachable size b p) : Reachable size b (settle p) := by
  rw [settle_eq]; exact hr.run _

theorem Reachable.step {p : Proc} (hr : Reachable size b p) (op : AOp) : Reachable size b (step p op) :=
  hr.run [op]

theorem Reachable.post {p : Proc} (hr : Reachable size b p) : Reachable size b (Rtsp.Drv.Async.post p) := by
  simp only [Rtsp.Drv.Async.post]
  split
  · exact hr.settle.step .closeStep
  · exact hr.settle

theorem Reachable.joinFuel {p : Proc} (n : Nat) (hr : Reachable size b p) : Reachable size b (joinFuel n p) := by
  induction n generalizing p with
  | zero => exact hr
  | succ n ih =>
    simp only [Async.joinFuel]
    split
    · exact hr
    · have h1 : Reachable size b (Async.settle (cexec p)) := (hr.step .cexec).settle
      have h2 : Reachable size b (closeStep (Async.settle (cexec p))) := h1.step .closeStep
      split
      · exact h2
      · exact ih h2

/-- the states behind the oracle's `async push / start / exec / closebegin / closeend` lines -/
theorem driver_push_reachable {p : Proc} (hr : Reachable size b p) (c : Cb) :
    Reachable size b (Rtsp.Drv.Async.post (push p c).1) := (hr.step (.push c)).post
theorem driver_start_reachable {p : Proc} (hr : Reachable size b p) :
    Reachable size b (Rtsp.Drv.Async.post (start p)) := (hr.step .start).post
theorem driver_exec_reachable {p : Proc} (hr : Reachable size b p) :
    Reachable size b (Rtsp.Drv.Async.post (cexec p)) := (hr.step .cexec).post
theorem driver_closebegin_reachable {p : Proc} (hr : Reachable size b p) :
    Reachable size b (Rtsp.Drv.Async.post (closeStep (closeStep p))) := ((hr.step .closeStep).step .closeStep).post
theorem driver_closeend_reachable {p : Proc} (hr : Reachable size b p) :
    Reachable size b (joinFuel 4 p) := hr.joinFuel 4

end Rtsp.Async
