import Rtsp.Model.B64
/-
Base64: one quantum.  `encode` of a group of 1..3 bytes is one quantum of 4 characters; the Go
decoder (`decodeGo`) maps a run of full quanta, optionally closed by a padded quantum, back to the
bytes.
-/
namespace Rtsp.Frame

theorem alphabet_ne_pad (s : Nat) : alphabet s ≠ PAD := by
  intro h
  have := congrArg UInt8.toNat h
  unfold alphabet at this
  split at this
  · rw [Nat.toUInt8_eq, UInt8.toNat_ofNat'] at this; simp [PAD] at this; omega
  · split at this
    · rw [Nat.toUInt8_eq, UInt8.toNat_ofNat'] at this; simp [PAD] at this; omega
    · split at this
      · rw [Nat.toUInt8_eq, UInt8.toNat_ofNat'] at this; simp [PAD] at this; omega
      · split at this <;> simp [PAD] at this

theorem decodeMap_alphabet_fin : ∀ s : Fin 64, decodeMap (alphabet s.val) = some s.val := by decide

theorem decodeMap_alphabet (s : Nat) (h : s < 64) : decodeMap (alphabet s) = some s :=
  decodeMap_alphabet_fin ⟨s, h⟩

theorem decodeMap_pad : decodeMap PAD = none := by decide
theorem isNL_pad : isNL PAD = false := by decide

theorem ofNat_toNat (a : UInt8) : a.toNat.toUInt8 = a := by
  rw [Nat.toUInt8_eq]; exact UInt8.ofNat_toNat

/-- the three sextet formulas of `encode` are below 64 and invert -/
theorem quantum3 (a b c : UInt8) :
    quantumBytes (a.toNat / 4) (a.toNat % 4 * 16 + b.toNat / 16) (b.toNat % 16 * 4 + c.toNat / 64) (c.toNat % 64) = [a, b, c] := by
  have ha := a.toNat_lt; have hb := b.toNat_lt; have hc := c.toNat_lt
  have e1 : a.toNat / 4 * 4 + (a.toNat % 4 * 16 + b.toNat / 16) / 16 = a.toNat := by omega
  have e2 : (a.toNat % 4 * 16 + b.toNat / 16) % 16 * 16 + (b.toNat % 16 * 4 + c.toNat / 64) / 4 = b.toNat := by omega
  have e3 : (b.toNat % 16 * 4 + c.toNat / 64) % 4 * 64 + c.toNat % 64 = c.toNat := by omega
  simp only [quantumBytes, e1, e2, e3, ofNat_toNat]

theorem quantum2 (a b : UInt8) :
    (quantumBytes (a.toNat / 4) (a.toNat % 4 * 16 + b.toNat / 16) (b.toNat % 16 * 4) 0).take 2 = [a, b] := by
  have ha := a.toNat_lt; have hb := b.toNat_lt
  have e1 : a.toNat / 4 * 4 + (a.toNat % 4 * 16 + b.toNat / 16) / 16 = a.toNat := by omega
  have e2 : (a.toNat % 4 * 16 + b.toNat / 16) % 16 * 16 + (b.toNat % 16 * 4) / 4 = b.toNat := by omega
  simp only [quantumBytes, e1, e2, ofNat_toNat, List.take]

theorem quantum1 (a : UInt8) :
    (quantumBytes (a.toNat / 4) (a.toNat % 4 * 16) 0 0).take 1 = [a] := by
  have ha := a.toNat_lt
  have e1 : a.toNat / 4 * 4 + (a.toNat % 4 * 16) / 16 = a.toNat := by omega
  simp only [quantumBytes, e1, ofNat_toNat, List.take]

/-- a group: what one quantum stands for -/
def GroupOK (g : Bytes) : Prop := 1 ≤ g.length ∧ g.length ≤ 3

theorem encode_length (g : Bytes) (h : GroupOK g) : (encode g).length = 4 := by
  match g, h with
  | [a], _ => rfl
  | [a, b], _ => rfl
  | [a, b, c], _ => rfl
  | _ :: _ :: _ :: _ :: _, h => simp [GroupOK] at h
  | [], h => simp [GroupOK] at h

theorem encode_head_ne_pad (g : Bytes) (h : GroupOK g) : ∃ c r, encode g = c :: r ∧ c ≠ PAD := by
  match g, h with
  | [a], _ => exact ⟨_, _, rfl, alphabet_ne_pad _⟩
  | [a, b], _ => exact ⟨_, _, rfl, alphabet_ne_pad _⟩
  | [a, b, c], _ => exact ⟨_, _, rfl, alphabet_ne_pad _⟩
  | _ :: _ :: _ :: _ :: _, h => simp [GroupOK] at h
  | [], h => simp [GroupOK] at h

/-! ### the decoder on one quantum -/

theorem decodeGo_full (a b c : UInt8) (X : Bytes) :
    decodeGo [] (encode [a, b, c] ++ X) = (decodeGo [] X).map ([a, b, c] ++ ·) := by
  have h0 := decodeMap_alphabet (a.toNat / 4) (by have := a.toNat_lt; omega)
  have h1 := decodeMap_alphabet (a.toNat % 4 * 16 + b.toNat / 16) (by have := b.toNat_lt; omega)
  have h2 := decodeMap_alphabet (b.toNat % 16 * 4 + c.toNat / 64) (by have := c.toNat_lt; omega)
  have h3 := decodeMap_alphabet (c.toNat % 64) (by omega)
  simp only [encode, List.cons_append, List.nil_append, decodeGo, h0, h1, h2, h3, quantum3]

theorem decodeGo_pad2 (a b : UInt8) : decodeGo [] (encode [a, b]) = some [a, b] := by
  have h0 := decodeMap_alphabet (a.toNat / 4) (by have := a.toNat_lt; omega)
  have h1 := decodeMap_alphabet (a.toNat % 4 * 16 + b.toNat / 16) (by have := b.toNat_lt; omega)
  have h2 := decodeMap_alphabet (b.toNat % 16 * 4) (by omega)
  simp [encode, decodeGo, h0, h1, h2, decodeMap_pad, isNL_pad, skipNL, quantum2]

theorem decodeGo_pad1 (a : UInt8) : decodeGo [] (encode [a]) = some [a] := by
  have h0 := decodeMap_alphabet (a.toNat / 4) (by have := a.toNat_lt; omega)
  have h1 := decodeMap_alphabet (a.toNat % 4 * 16) (by omega)
  simp [encode, decodeGo, h0, h1, decodeMap_pad, isNL_pad, skipNL, quantum1]

/-- a segment: full groups, the last one possibly short -/
def SegOK : List Bytes → Prop
  | [] => True
  | [g] => GroupOK g
  | g :: r => g.length = 3 ∧ SegOK r

theorem decodeGo_seg : ∀ (seg : List Bytes), SegOK seg → decodeGo [] (seg.flatMap encode) = some seg.flatten := by
  intro seg
  induction seg with
  | nil => intro _; simp [decodeGo]
  | cons g r ih =>
    intro h
    cases r with
    | nil =>
      have hg : GroupOK g := h
      match g, hg with
      | [a], _ => simpa using decodeGo_pad1 a
      | [a, b], _ => simpa using decodeGo_pad2 a b
      | [a, b, c], _ =>
        have := decodeGo_full a b c []
        simp only [List.append_nil] at this
        simp [this, decodeGo]
      | _ :: _ :: _ :: _ :: _, h => simp [GroupOK] at h
      | [], h => simp [GroupOK] at h
    | cons g2 r2 =>
      have h' : g.length = 3 ∧ SegOK (g2 :: r2) := h
      match g, h'.1 with
      | [a, b, c], _ =>
        simp only [List.flatMap_cons] at ih ⊢
        rw [decodeGo_full a b c, ih h'.2]
        simp

end Rtsp.Frame
