import Rtsp.Spec.BoundedFifo
/-
Properties of the bounded FIFO specification over arbitrary operation sequences: conservation
(nothing lost, duplicated or reordered while open), order, at-most-once, nothing after close.
They transfer to the ring by `Rtsp.Ring.run_refines` (Proofs/RingQueue.lean).
-/
namespace Rtsp.Fifo
open Rtsp.Ring (PullRes Op Res)
variable {α : Type}

/-- items whose `push` returned true, in order -/
def accepted : List (Op α) → List (Res α) → List α
  | .push x :: ops, .pushed true :: rs => x :: accepted ops rs
  | _ :: ops, _ :: rs => accepted ops rs
  | _, _ => []

/-- items returned by `pull`, in order -/
def pulled : List (Res α) → List α
  | .pulled (.item x) :: rs => x :: pulled rs
  | _ :: rs => pulled rs
  | [] => []

/-- every item offered to `push`, accepted or not -/
def pushes : List (Op α) → List α
  | .push x :: ops => x :: pushes ops
  | _ :: ops => pushes ops
  | [] => []

/-- items discarded by `close` / `reset` during a run from `q` -/
def discarded (q : Fifo α) : List (Op α) → List α
  | [] => []
  | .close :: ops => q.items ++ discarded (close q) ops
  | .reset :: ops => q.items ++ discarded (reset q) ops
  | op :: ops => discarded (step q op).1 ops

def noCloseReset : List (Op α) → Prop
  | [] => True
  | .close :: _ => False
  | .reset :: _ => False
  | _ :: ops => noCloseReset ops

def noReset : List (Op α) → Prop
  | [] => True
  | .reset :: _ => False
  | _ :: ops => noReset ops

@[simp] theorem run_nil (q : Fifo α) : run q [] = (q, []) := rfl
theorem run_cons (q : Fifo α) (op : Op α) (ops : List (Op α)) :
    run q (op :: ops) = ((run (step q op).1 ops).1, (step q op).2 :: (run (step q op).1 ops).2) := rfl

theorem push_ok {q : Fifo α} (h : q.items.length < q.cap) (x : α) :
    push q x = ({ q with items := q.items ++ [x] }, true) := by simp only [push, h, if_true]
theorem push_no {q : Fifo α} (h : ¬ q.items.length < q.cap) (x : α) :
    push q x = (q, false) := by simp only [push, h, if_false]

/-- **conservation** while open: what was held plus what was accepted is exactly what was pulled
followed by what is still held — no loss, no duplication, no reordering. -/
theorem conservation (q : Fifo α) (ops : List (Op α)) (hq : q.closed = false) (hops : noCloseReset ops) :
    q.items ++ accepted ops (run q ops).2 = pulled (run q ops).2 ++ (run q ops).1.items := by
  induction ops generalizing q with
  | nil => simp [accepted, pulled]
  | cons op ops ih =>
    rw [run_cons]
    cases op with
    | push x =>
      by_cases h : q.items.length < q.cap
      · simp only [step, push_ok h]
        have := ih { q with items := q.items ++ [x] } hq hops
        simp only [accepted, pulled]
        rw [← this]; simp
      · simp only [step, push_no h]
        have := ih q hq hops
        simp only [accepted, pulled]
        exact this
    | pull =>
      cases hi : q.items with
      | nil =>
        have e : pull q = (q, .wait) := by simp only [pull, hq, hi]; rfl
        simp only [step, e]
        have := ih q hq hops
        simp only [accepted, pulled]
        rw [hi] at this; exact this
      | cons y ys =>
        have e : pull q = ({ q with items := ys }, .item y) := by simp only [pull, hq, hi]; rfl
        simp only [step, e]
        have := ih { q with items := ys } hq hops
        simp only [accepted, pulled]
        simp only [List.cons_append]
        rw [this]
    | close => exact absurd hops (by simp [noCloseReset])
    | reset => exact absurd hops (by simp [noCloseReset])

/-- **accounting** over arbitrary operation sequences (Close / Reset anywhere): every item that was
held or accepted is — exactly once — either pulled, or discarded by a Close / Reset (the signalled
loss), or still held. -/
theorem accounting (q : Fifo α) (ops : List (Op α)) :
    (q.items ++ accepted ops (run q ops).2).Perm
      (pulled (run q ops).2 ++ (discarded q ops ++ (run q ops).1.items)) := by
  induction ops generalizing q with
  | nil => simp [accepted, pulled, discarded]
  | cons op ops ih =>
    rw [run_cons]
    cases op with
    | push x =>
      by_cases h : q.items.length < q.cap
      · have := ih { q with items := q.items ++ [x] }
        simp only [step, push_ok h, accepted, pulled, discarded]
        simpa using this
      · have := ih q
        simp only [step, push_no h, accepted, pulled, discarded]
        exact this
    | pull =>
      by_cases hc : q.closed = true
      · have e : pull q = (q, .closed) := by simp only [pull, hc, if_true]
        simp only [step, e, accepted, pulled, discarded]; exact ih q
      · cases hi : q.items with
        | nil =>
          have e : pull q = (q, .wait) := by simp only [pull, hc, hi]; rfl
          simp only [step, e, accepted, pulled, discarded]
          have := ih q; rw [hi] at this; exact this
        | cons y ys =>
          have e : pull q = ({ q with items := ys }, .item y) := by simp only [pull, hc, hi]; rfl
          simp only [step, e, accepted, pulled, discarded, List.cons_append]
          exact (ih { q with items := ys }).cons y
    | close =>
      have := ih (close q)
      simp only [close, List.nil_append] at this
      simp only [step, accepted, pulled, discarded]
      refine (List.Perm.append_left q.items this).trans ?_
      simp only [List.append_assoc]
      exact List.perm_append_comm_assoc _ _ _
    | reset =>
      have := ih (reset q)
      simp only [reset, List.nil_append] at this
      simp only [step, accepted, pulled, discarded]
      refine (List.Perm.append_left q.items this).trans ?_
      simp only [List.append_assoc]
      exact List.perm_append_comm_assoc _ _ _

/-- pulled items are a subsequence of the accepted items (any operation sequence, any start) -/
theorem pulled_sublist (q : Fifo α) (ops : List (Op α)) :
    (pulled (run q ops).2).Sublist (q.items ++ accepted ops (run q ops).2) := by
  induction ops generalizing q with
  | nil => simp [pulled]
  | cons op ops ih =>
    rw [run_cons]
    cases op with
    | push x =>
      by_cases h : q.items.length < q.cap
      · simp only [step, push_ok h, accepted, pulled]
        have := ih { q with items := q.items ++ [x] }
        simpa using this
      · simp only [step, push_no h, accepted, pulled]
        exact ih q
    | pull =>
      by_cases hc : q.closed = true
      · have e : pull q = (q, .closed) := by simp only [pull, hc, if_true]
        simp only [step, e, accepted, pulled]; exact ih q
      · cases hi : q.items with
        | nil =>
          have e : pull q = (q, .wait) := by simp only [pull, hc, hi]; rfl
          simp only [step, e, accepted, pulled]
          have := ih q; rw [hi] at this; exact this
        | cons y ys =>
          have e : pull q = ({ q with items := ys }, .item y) := by simp only [pull, hc, hi]; rfl
          simp only [step, e, accepted, pulled, List.cons_append]
          exact (ih { q with items := ys }).cons_cons y
    | close =>
      simp only [step, accepted, pulled]
      have := ih (close q)
      simp only [close, List.nil_append] at this
      exact this.trans (List.sublist_append_right _ _)
    | reset =>
      simp only [step, accepted, pulled]
      have := ih (reset q)
      simp only [reset, List.nil_append] at this
      exact this.trans (List.sublist_append_right _ _)

/-- accepted items are a subsequence of the offered items -/
theorem accepted_sublist (ops : List (Op α)) (rs : List (Res α)) : (accepted ops rs).Sublist (pushes ops) := by
  induction ops generalizing rs with
  | nil => simp [accepted, pushes]
  | cons op ops ih =>
    cases rs with
    | nil => cases op <;> simp [accepted]
    | cons r rs =>
      cases op with
      | push x =>
        cases r with
        | pushed ok =>
          cases ok
          · simp only [accepted, pushes]; exact (ih rs).cons x
          · simp only [accepted, pushes]; exact (ih rs).cons_cons x
        | pulled p => simp only [accepted, pushes]; exact (ih rs).cons x
        | done => simp only [accepted, pushes]; exact (ih rs).cons x
      | pull => simp only [accepted, pushes]; exact ih rs
      | close => simp only [accepted, pushes]; exact ih rs
      | reset => simp only [accepted, pushes]; exact ih rs

/-- once closed, and until a reset, nothing is pulled and the queue stays closed -/
theorem closed_run (q : Fifo α) (ops : List (Op α)) (hq : q.closed = true) (hops : noReset ops) :
    pulled (run q ops).2 = [] ∧ (run q ops).1.closed = true := by
  induction ops generalizing q with
  | nil => exact ⟨rfl, hq⟩
  | cons op ops ih =>
    rw [run_cons]
    cases op with
    | push x =>
      have hc : (step q (.push x)).1.closed = true := by
        simp only [step, push]; split <;> exact hq
      have := ih _ hc hops
      exact ⟨by simp only [step, pulled]; exact this.1, this.2⟩
    | pull =>
      have e : pull q = (q, .closed) := by simp only [pull, hq, if_true]
      have := ih q hq hops
      simp only [step, e, pulled]; exact this
    | close =>
      have := ih (close q) rfl hops
      simp only [step, pulled]; exact this
    | reset => exact absurd hops (by simp [noReset])

/-- the results of a run split at any point -/
theorem run_append (q : Fifo α) (ops1 ops2 : List (Op α)) :
    run q (ops1 ++ ops2) = ((run (run q ops1).1 ops2).1, (run q ops1).2 ++ (run (run q ops1).1 ops2).2) := by
  induction ops1 generalizing q with
  | nil => rfl
  | cons op ops ih => simp only [List.cons_append, run_cons, ih]

theorem pulled_append (rs1 rs2 : List (Res α)) : pulled (rs1 ++ rs2) = pulled rs1 ++ pulled rs2 := by
  induction rs1 with
  | nil => rfl
  | cons r rs ih =>
    cases r with
    | pushed ok => simp only [List.cons_append, pulled, ih]
    | pulled p => cases p <;> simp only [List.cons_append, pulled, ih]
    | done => simp only [List.cons_append, pulled, ih]

/-- the queue never holds more than `cap` items -/
theorem bounded (q : Fifo α) (ops : List (Op α)) (hq : q.items.length ≤ q.cap) :
    (run q ops).1.items.length ≤ (run q ops).1.cap ∧ (run q ops).1.cap = q.cap := by
  induction ops generalizing q with
  | nil => exact ⟨hq, rfl⟩
  | cons op ops ih =>
    rw [run_cons]
    cases op with
    | push x =>
      by_cases h : q.items.length < q.cap
      · simp only [step, push_ok h]
        have := ih { q with items := q.items ++ [x] } (by simp; omega)
        exact this
      · simp only [step, push_no h]; exact ih q hq
    | pull =>
      simp only [step]
      have hle : (pull q).1.items.length ≤ (pull q).1.cap ∧ (pull q).1.cap = q.cap := by
        simp only [pull]; split
        · exact ⟨hq, rfl⟩
        · split
          · rename_i x xs hx; rw [hx] at hq; simp only [List.length_cons] at hq; exact ⟨by show xs.length ≤ q.cap; omega, rfl⟩
          · exact ⟨hq, rfl⟩
      have := ih (pull q).1 hle.1
      exact ⟨this.1, this.2.trans hle.2⟩
    | close => simp only [step]; exact ih (close q) (by simp [close])
    | reset => simp only [step]; exact ih (reset q) (by simp [reset])

end Rtsp.Fifo
