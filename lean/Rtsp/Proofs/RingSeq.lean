import Rtsp.Model.Ring
import Rtsp.Spec.BoundedFifo
import Rtsp.Proofs.RingArith
/-
Sequential refinement of the ring (Model/Ring.lean) to the bounded FIFO (Spec/BoundedFifo.lean).

`Inv r base items`: the occupied slots of `r` are exactly the cyclic interval of `items.length`
slots starting at `base`, they hold `items` in order, `writeIndex` is the slot after the interval,
and while the ring is open `readIndex = base`.  (After `Close` the code leaves `readIndex` where it
was, so on a closed ring the interval starts wherever pushes after the `Close` started: `base` is
existentially quantified in `RingInv`.)
-/
namespace Rtsp.Ring
open Rtsp.Fifo (Fifo)

variable {α : Type}

/-- abstraction function: the occupied slots in cyclic order starting at `writeIndex` -/
def absItems (r : Ring α) : List α :=
  (List.range r.size).filterMap (fun j => slot r ((r.writeIndex + j) % r.size))

def abs (r : Ring α) : Fifo α := { cap := r.size, items := absItems r, closed := r.closed }

structure Inv (r : Ring α) (base : Nat) (items : List α) : Prop where
  size_pos : 0 < r.size
  len : r.buffer.length = r.size
  base_lt : base < r.size
  rd_lt : r.readIndex < r.size
  n_le : items.length ≤ r.size
  wr : r.writeIndex = (base + items.length) % r.size
  rd : r.closed = false → r.readIndex = base
  occ : ∀ i, i < items.length → slot r ((base + i) % r.size) = items[i]?
  emp : ∀ i, items.length ≤ i → i < r.size → slot r ((base + i) % r.size) = none

/-- the state invariant of the ring -/
def RingInv (r : Ring α) : Prop := ∃ base items, Inv r base items

/-! ### slots -/

theorem slot_set_eq (r : Ring α) (i : Nat) (v : Option α) (h : i < r.buffer.length) (r' : Ring α)
    (hb : r'.buffer = r.buffer.set i v) : slot r' i = v := by
  simp only [slot, hb, List.getElem?_set, h, if_true, Option.join_some]

theorem slot_set_ne (r : Ring α) (i j : Nat) (v : Option α) (hij : i ≠ j) (r' : Ring α)
    (hb : r'.buffer = r.buffer.set i v) : slot r' j = slot r j := by
  simp only [slot, hb, List.getElem?_set, hij, if_false]

theorem length_clearAll (s : Nat) (b : List (Option α)) : (clearAll s b).length = b.length := by
  induction s with
  | zero => rfl
  | succ s ih =>
    simp only [clearAll, List.range_succ, List.foldl_append, List.foldl_cons, List.foldl_nil, List.length_set] at ih ⊢
    exact ih

theorem getElem?_clearAll_join (s : Nat) (b : List (Option α)) (i : Nat) (hi : i < s) :
    ((clearAll s b)[i]?).join = none := by
  induction s with
  | zero => omega
  | succ s ih =>
    have e : clearAll (s + 1) b = (clearAll s b).set s none := by
      simp only [clearAll, List.range_succ, List.foldl_append, List.foldl_cons, List.foldl_nil]
    rw [e, List.getElem?_set]
    by_cases h : s = i
    · simp only [h, if_true]; split <;> rfl
    · simp only [h, if_false]; exact ih (by omega)

theorem slot_clear (r r' : Ring α) (hb : r'.buffer = clearAll r.size r.buffer) (i : Nat) (hi : i < r.size) :
    slot r' i = none := by
  simp only [slot, hb]; exact getElem?_clearAll_join _ _ _ hi

/-! ### the abstraction is determined by the invariant -/

theorem absItems_of_inv {r : Ring α} {base : Nat} {items : List α} (h : Inv r base items) :
    absItems r = items := by
  have hs := h.size_pos
  apply filterMap_range_tail h.n_le
  · intro j hj
    have e : (r.writeIndex + j) % r.size = (base + (items.length + j)) % r.size := by
      rw [h.wr, Nat.mod_add_mod, Nat.add_assoc]
    rw [e]
    exact h.emp _ (by omega) (by omega)
  · intro j hj
    have e : (r.writeIndex + (r.size - items.length + j)) % r.size = (base + j) % r.size := by
      rw [h.wr, Nat.mod_add_mod]
      have : base + items.length + (r.size - items.length + j) = base + j + r.size := by
        have := h.n_le; omega
      rw [this, Nat.add_mod_right]
    rw [e]
    exact h.occ j hj

theorem abs_of_inv {r : Ring α} {base : Nat} {items : List α} (h : Inv r base items) :
    abs r = { cap := r.size, items := items, closed := r.closed } := by
  simp only [abs, absItems_of_inv h]

/-! ### every operation preserves the invariant and refines the specification -/

theorem inv_new (size : Nat) (h : 0 < size) : Inv (new (α := α) size) 0 [] where
  size_pos := h
  len := by simp [new]
  base_lt := h
  rd_lt := h
  n_le := Nat.zero_le _
  wr := by simp [new]
  rd := fun _ => rfl
  occ := fun i hi => by simp at hi
  emp := fun i _ hi => by
    simp only [slot, new, Nat.zero_add, List.getElem?_replicate]
    rw [if_pos (Nat.mod_lt _ h)]; rfl

theorem inv_close {r : Ring α} {base : Nat} {items : List α} (h : Inv r base items) :
    Inv (close r) r.writeIndex [] where
  size_pos := h.size_pos
  len := by simp only [close, length_clearAll]; exact h.len
  base_lt := by rw [h.wr]; exact Nat.mod_lt _ h.size_pos
  rd_lt := h.rd_lt
  n_le := Nat.zero_le _
  wr := by
    have : r.writeIndex < r.size := by rw [h.wr]; exact Nat.mod_lt _ h.size_pos
    simp only [close, List.length_nil, Nat.add_zero, Nat.mod_eq_of_lt this]
  rd := fun hc => by simp [close] at hc
  occ := fun i hi => by simp at hi
  emp := fun i _ _ => slot_clear r _ rfl _ (Nat.mod_lt _ h.size_pos)

theorem inv_reset {r : Ring α} {base : Nat} {items : List α} (h : Inv r base items) :
    Inv (reset r) 0 [] where
  size_pos := h.size_pos
  len := by simp only [reset, length_clearAll]; exact h.len
  base_lt := h.size_pos
  rd_lt := h.size_pos
  n_le := Nat.zero_le _
  wr := by simp only [reset, List.length_nil, Nat.add_zero, Nat.zero_mod]
  rd := fun _ => rfl
  occ := fun i hi => by simp at hi
  emp := fun i _ _ => slot_clear r _ rfl _ (Nat.mod_lt _ h.size_pos)

/-- `Push` when the queue holds `size` items: refused, nothing changes -/
theorem push_full {r : Ring α} {base : Nat} {items : List α} (h : Inv r base items)
    (hfull : items.length = r.size) (x : α) : push r x = (r, false) := by
  have hs := h.size_pos
  have hw : r.writeIndex = (base + 0) % r.size := by
    rw [h.wr, hfull, Nat.add_mod_right, Nat.add_zero]
  have : slot r r.writeIndex = items[0]? := by rw [hw]; exact h.occ 0 (by omega)
  have h0 : items[0]? = some (items[0]'(by omega)) := List.getElem?_eq_getElem (by omega)
  simp only [push, this, h0]

/-- `Push` when fewer than `size` items are held: accepted -/
theorem push_room {r : Ring α} {base : Nat} {items : List α} (h : Inv r base items)
    (hroom : items.length < r.size) (x : α) :
    (push r x).2 = true ∧ Inv (push r x).1 base (items ++ [x]) := by
  have hs := h.size_pos
  have hwlt : r.writeIndex < r.buffer.length := by rw [h.len, h.wr]; exact Nat.mod_lt _ hs
  have hnone : slot r r.writeIndex = none := by rw [h.wr]; exact h.emp _ (Nat.le_refl _) hroom
  have hp : push r x = ({ r with buffer := r.buffer.set r.writeIndex (some x), writeIndex := (r.writeIndex + 1) % r.size }, true) := by
    simp only [push, hnone]
  rw [hp]
  refine ⟨rfl, ?_⟩
  exact {
    size_pos := hs
    len := by simp only [List.length_set]; exact h.len
    base_lt := h.base_lt
    rd_lt := h.rd_lt
    n_le := by simp only [List.length_append, List.length_singleton]; show _ ≤ r.size; omega
    wr := by
      simp only [List.length_append, List.length_singleton]
      show (r.writeIndex + 1) % r.size = _
      rw [h.wr, Nat.mod_add_mod, Nat.add_assoc]
    rd := h.rd
    occ := by
      intro i hi
      simp only [List.length_append, List.length_singleton] at hi
      by_cases hin : i = items.length
      · subst hin
        rw [← h.wr]
        rw [slot_set_eq r r.writeIndex (some x) hwlt _ rfl]
        simp
      · have hilt : i < items.length := by omega
        have hne : r.writeIndex ≠ (base + i) % r.size := by
          rw [h.wr]; intro he; exact hin (idx_inj hroom (by omega) he).symm
        rw [slot_set_ne r _ _ (some x) hne _ rfl, h.occ i hilt, List.getElem?_append_left hilt]
    emp := by
      intro i hi his
      simp only [List.length_append, List.length_singleton] at hi
      have hne : r.writeIndex ≠ (base + i) % r.size := by
        rw [h.wr]; intro he
        have his' : i < r.size := his
        have := idx_inj hroom his' he
        omega
      rw [slot_set_ne r _ _ (some x) hne _ rfl]
      exact h.emp i (by omega) his }

/-- `Pull` on a closed ring -/
theorem pull_closed {r : Ring α} (hc : r.closed = true) : pullTry r = (r, .closed) := by
  simp only [pullTry, hc, if_true]

/-- `Pull` on an open empty ring: the consumer has to wait -/
theorem pull_empty {r : Ring α} {base : Nat} (h : Inv r base []) (hc : r.closed = false) :
    pullTry r = (r, .wait) := by
  have hs := h.size_pos
  have hb : r.readIndex = (base + 0) % r.size := by
    rw [h.rd hc, Nat.add_zero, Nat.mod_eq_of_lt h.base_lt]
  have : slot r r.readIndex = none := by rw [hb]; exact h.emp 0 (Nat.le_refl _) hs
  simp only [pullTry, hc, this]
  rfl

/-- `Pull` on an open non-empty ring returns the oldest item -/
theorem pull_item {r : Ring α} {base : Nat} {x : α} {xs : List α} (h : Inv r base (x :: xs))
    (hc : r.closed = false) :
    (pullTry r).2 = .item x ∧ Inv (pullTry r).1 ((base + 1) % r.size) xs := by
  have hs := h.size_pos
  have hrd := h.rd hc
  have hb : r.readIndex = (base + 0) % r.size := by
    rw [hrd, Nat.add_zero, Nat.mod_eq_of_lt h.base_lt]
  have hx : slot r r.readIndex = some x := by
    rw [hb, h.occ 0 (by simp)]; rfl
  have hp : pullTry r = ({ r with buffer := r.buffer.set r.readIndex none, readIndex := (r.readIndex + 1) % r.size }, .item x) := by
    simp only [pullTry, hc, hx]
    rfl
  rw [hp]
  refine ⟨rfl, ?_⟩
  have hn := h.n_le
  simp only [List.length_cons] at hn
  have hrlt : r.readIndex < r.buffer.length := by rw [h.len]; exact h.rd_lt
  exact {
    size_pos := hs
    len := by simp only [List.length_set]; exact h.len
    base_lt := Nat.mod_lt _ hs
    rd_lt := Nat.mod_lt _ hs
    n_le := by show xs.length ≤ r.size; omega
    wr := by
      show r.writeIndex = _
      rw [h.wr, idx_succ, List.length_cons]
    rd := fun _ => by show (r.readIndex + 1) % r.size = _; rw [hrd]
    occ := by
      intro i hi
      show slot _ (((base + 1) % r.size + i) % r.size) = _
      rw [idx_succ]
      have hne : r.readIndex ≠ (base + (i + 1)) % r.size := by
        rw [hb]; intro he
        have := idx_inj (s := r.size) (by omega) (by omega) he
        omega
      rw [slot_set_ne r _ _ none hne _ rfl, h.occ (i + 1) (by simp only [List.length_cons]; omega)]
      simp
    emp := by
      intro i hi his
      have his' : i < r.size := his
      clear his
      show slot _ (((base + 1) % r.size + i) % r.size) = _
      rw [idx_succ]
      by_cases hlast : i + 1 = r.size
      · rw [hlast, Nat.add_mod_right, Nat.mod_eq_of_lt h.base_lt, ← hrd]
        exact slot_set_eq r _ none hrlt _ rfl
      · have hne : r.readIndex ≠ (base + (i + 1)) % r.size := by
          rw [hb]; intro he
          have := idx_inj (s := r.size) (by omega) (by omega) he
          omega
        rw [slot_set_ne r _ _ none hne _ rfl]
        exact h.emp (i + 1) (by simp only [List.length_cons]; omega) (by omega) }

end Rtsp.Ring
