import Rtsp.Proofs.FrameRT2
import Rtsp.Proofs.FrameChunk
/-
Round-trip lemmas, part 3: requests, responses, frames, sequences.
-/
namespace Rtsp.Frame
open Rtsp.Facts.Frame

theorem hset_same : ∀ (h : Header) (k : Bytes) (vs : List Bytes), hlookup h k = some vs → hset h k vs = h := by
  intro h
  induction h with
  | nil => intro k vs e; simp [hlookup] at e
  | cons e r ih =>
    intro k vs hl
    obtain ⟨k', vs'⟩ := e
    by_cases hk : k' = k
    · simp only [hlookup, hk, if_true, Option.some.injEq] at hl
      simp [hset, hk, hl]
    · simp only [hlookup, hk, if_false] at hl
      simp [hset, hk, ih k vs hl]

theorem withContentLength_ok (h : Header) (body : Bytes) (hb : BodyOK h body) : withContentLength h body = h := by
  unfold withContentLength
  by_cases he : body = []
  · simp [he]
  · simp only [he, if_false]
    have := hb.2
    simp only [he, if_false] at this
    exact hset_same h _ _ this

theorem sp_not_in_rtsp10 : SP ∉ rtsp10 := by decide
theorem cr_not_in_rtsp10 : CR ∉ rtsp10 := by decide
theorem sp_not_in_star : SP ∉ star := by decide

theorem isReqPrefix_not_magic (a b : UInt8) (h : isReqPrefix a b = true) : a ≠ MAGIC ∧ ¬(a = 82 ∧ b = 84) := by
  simp only [isReqPrefix, Bool.or_eq_true, Bool.and_eq_true, decide_eq_true_eq] at h
  constructor
  · intro e
    subst e
    revert h
    simp [MAGIC]
  · intro e
    obtain ⟨rfl, rfl⟩ := e
    revert h
    simp

/-- **request round trip** (any bytes may follow) -/
theorem parseRequest_marshal (up : Bytes → Option Bytes) (r : Request) (rest : Bytes) (hr : RequestOK up r) :
    parseRequest up (marshalRequest r ++ rest) = .ok r rest := by
  obtain ⟨⟨b0, b1, t, hm, _⟩, hmsp, hmlen, hurl, hh, hb⟩ := hr
  have hmne : r.method ≠ [] := by rw [hm]; simp
  -- the URL token
  have hu : SP ∉ r.url.getD star ∧ (r.url.getD star).length < requestMaxURLLength ∧
      (if r.url.getD star = star then some none else (up (r.url.getD star)).map some) = some r.url := by
    cases hu : r.url with
    | none => exact ⟨sp_not_in_star, by decide, by simp⟩
    | some u =>
      have := hurl u hu
      simp only [Option.getD_some]
      exact ⟨this.2.1, this.2.2.1, by simp [this.1, this.2.2.2]⟩
  have hshape : marshalRequest r ++ rest =
      r.method ++ SP :: (r.url.getD star ++ SP :: (rtsp10 ++ CR :: (LF :: (marshalHeader r.header ++ (r.body ++ rest))))) := by
    simp [marshalRequest, withContentLength_ok r.header r.body hb, crlf, List.append_assoc]
  rw [hshape]
  unfold parseRequest
  rw [readLim_token SP r.method requestMaxMethodLength _ hmsp hmlen]
  simp only [PR.bind_ok, hmne, if_false]
  rw [readLim_token SP (r.url.getD star) requestMaxURLLength _ hu.1 hu.2.1]
  simp only [PR.bind_ok, hu.2.2]
  rw [readLim_token CR rtsp10 requestMaxProtocolLength _ cr_not_in_rtsp10 (by decide)]
  simp only [PR.bind_ok, ne_eq, not_true_eq_false, if_false, readByteEqual, if_true]
  rw [parseHeaders_marshalHeader r.header _ hh]
  simp only [PR.bind_ok]
  rw [parseBody_ok r.header r.body rest hb]
  simp

theorem effectiveMessage_ok (r : Response) (h : r.msg ≠ [] ∨ defaultStatusMessage r.code = none) :
    effectiveMessage r = r.msg := by
  unfold effectiveMessage
  by_cases he : r.msg = []
  · rcases h with h | h
    · exact absurd he h
    · simp [he, h]
  · simp [he]

/-- **response round trip** -/
theorem parseResponse_marshal (r : Response) (rest : Bytes) (hr : ResponseOK r) :
    parseResponse (marshalResponse r ++ rest) = .ok r rest := by
  obtain ⟨hcode, hmcr, hmlen, hmsg, hh, hb⟩ := hr
  have hshape : marshalResponse r ++ rest =
      rtsp10 ++ SP :: (toDec r.code ++ SP :: (r.msg ++ CR :: (LF :: (marshalHeader r.header ++ (r.body ++ rest))))) := by
    simp [marshalResponse, withContentLength_ok r.header r.body hb, effectiveMessage_ok r hmsg, crlf, List.append_assoc]
  rw [hshape]
  unfold parseResponse
  rw [readLim_token SP rtsp10 responseMaxProtocolLength _ sp_not_in_rtsp10 (by decide)]
  simp only [PR.bind_ok, ne_eq, not_true_eq_false, if_false]
  have hdig := toDec_all_digits r.code
  have hlen : (toDec r.code).length < responseMaxStatusCodeLength := by
    have := toDec_length_le r.code 2 (by omega)
    show _ < 4
    omega
  rw [readLimSC_token (toDec r.code) responseMaxStatusCodeLength SP _
    (not_digit_of SP _ hdig (by decide)) (not_digit_of CR _ hdig (by decide)) (Or.inl rfl) hlen]
  simp only [PR.bind_ok]
  rw [parseUint_toDec responseStatusCodeBits r.code (by
    have : (1000 : Nat) < 2 ^ responseStatusCodeBits := by decide
    omega)]
  simp only [if_true]
  rw [readLim_token CR r.msg responseMaxStatusMessageLength _ hmcr hmlen]
  simp only [PR.bind_ok, readByteEqual, if_true]
  rw [parseHeaders_marshalHeader r.header _ hh]
  simp only [PR.bind_ok]
  rw [parseBody_ok r.header r.body rest hb]
  simp

/-- **interleaved frame round trip** -/
theorem parseFrame_marshal (f : IFrame) (rest : Bytes) (hf : FrameOK f) :
    parseFrame (marshalFrame f ++ rest) = .ok f rest := by
  obtain ⟨hc, hl⟩ := hf
  have h4 : readFull 4 (marshalFrame f ++ rest) =
      .ok [MAGIC, f.channel.toUInt8, (f.payload.length / 256).toUInt8, f.payload.length.toUInt8] (f.payload ++ rest) := by
    simp [readFull, marshalFrame]
  unfold parseFrame
  rw [h4]
  simp only [PR.bind_ok, ne_eq, not_true_eq_false, if_false]
  have e1 : (f.payload.length / 256).toUInt8.toNat * 256 + f.payload.length.toUInt8.toNat = f.payload.length := by
    rw [Nat.toUInt8_eq, Nat.toUInt8_eq, UInt8.toNat_ofNat', UInt8.toNat_ofNat']; omega
  have e2 : f.channel.toUInt8.toNat = f.channel := by
    rw [Nat.toUInt8_eq, UInt8.toNat_ofNat']; omega
  rw [e1, readFull_append f.payload rest]
  simp [e2]

/-- **one element through `Conn.Read`** -/
theorem readElem_marshal (up : Bytes → Option Bytes) (e : Elem) (rest : Bytes) (he : WellFormed up e) :
    readElem up (marshalElem e ++ rest) = .ok e rest := by
  cases e with
  | req r =>
    have hr : RequestOK up r := he
    obtain ⟨⟨b0, b1, t, hm, hp⟩, _⟩ := hr
    have hshape : ∃ tl, marshalRequest r ++ rest = b0 :: b1 :: tl := by
      refine ⟨t ++ ([SP] ++ r.url.getD star ++ [SP] ++ rtsp10 ++ crlf ++
        marshalHeader (withContentLength r.header r.body) ++ r.body ++ rest), ?_⟩
      simp [marshalRequest, hm, List.append_assoc]
    obtain ⟨tl, htl⟩ := hshape
    have hnm := isReqPrefix_not_magic b0 b1 hp
    have := parseRequest_marshal up r rest he
    simp only [marshalElem]
    rw [htl] at this ⊢
    simp [readElem, hnm.1, hnm.2, hp, this]
  | res r =>
    have := parseResponse_marshal r rest he
    have h10 : rtsp10 = 82 :: 84 :: [83, 80, 47, 49, 46, 48] := by decide
    have hshape : ∃ tl, marshalResponse r ++ rest = 82 :: 84 :: tl := by
      refine ⟨[83, 80, 47, 49, 46, 48] ++ ([SP] ++ toDec r.code ++ [SP] ++ effectiveMessage r ++ crlf ++
        marshalHeader (withContentLength r.header r.body) ++ r.body ++ rest), ?_⟩
      simp [marshalResponse, h10, List.append_assoc]
    obtain ⟨tl, htl⟩ := hshape
    simp only [marshalElem]
    rw [htl] at this ⊢
    simp [readElem, MAGIC, this]
  | frame f =>
    have := parseFrame_marshal f rest he
    simp only [marshalElem]
    have hshape : marshalFrame f ++ rest = MAGIC :: f.channel.toUInt8 ::
        ([(f.payload.length / 256).toUInt8, f.payload.length.toUInt8] ++ f.payload ++ rest) := by
      simp [marshalFrame]
    rw [hshape] at this ⊢
    simp only [readElem, ↓reduceIte, this, PR.bind_ok]

theorem drainL_serializeAll (up : Bytes → Option Bytes) : ∀ (es : List Elem), (∀ e ∈ es, WellFormed up e) →
    drainL up (serializeAll es) = (es, .more false []) := by
  intro es
  induction es with
  | nil => intro _; simp [serializeAll, drainL, drain_nil]
  | cons e es ih =>
    intro h
    have he := h e (by simp)
    have := readElem_marshal up e (serializeAll es) he
    rw [drainL_unfold]
    simp only [serializeAll, List.flatMap_cons] at this ⊢
    rw [this]
    simp only
    have hi := ih (fun x hx => h x (by simp [hx]))
    simp only [serializeAll] at hi
    rw [hi]

/-- **parse_serialize**: any sequence of well-formed requests, responses and interleaved frames
written back-to-back is read back as the same sequence, and the stream ends cleanly. -/
theorem parse_serialize (up : Bytes → Option Bytes) (es : List Elem) (h : ∀ e ∈ es, WellFormed up e) :
    parseAll up (serializeAll es) = (es, .eof) := by
  rw [parseAll, readAll_flatten]
  simp only [List.flatten_cons, List.flatten_nil, List.append_nil, List.nil_append, readAll_nil,
    drainL_serializeAll up es h, Stop.atEnd]

/-- … under every partition of the byte stream into reads -/
theorem parse_serialize_chunked (up : Bytes → Option Bytes) (es : List Elem) (h : ∀ e ∈ es, WellFormed up e)
    (chunks : List Bytes) (hc : chunks.flatten = serializeAll es) :
    readAll up [] chunks = (es, .eof) := by
  rw [chunk_independent, hc, parse_serialize up es h]

end Rtsp.Frame
