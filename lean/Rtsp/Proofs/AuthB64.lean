import Rtsp.Model.B64Std
/-
Base64 (Go `StdEncoding`) round trip: `decode (encode bs) = some bs` for every byte string.
-/
namespace Rtsp.B64Std

theorem dec_enc : ∀ n : Fin 64, decChar (encChar n.val) = some n.val := by decide

theorem enc_ne_special : ∀ n : Fin 64,
    encChar n.val ≠ padc ∧ encChar n.val ≠ 10 ∧ encChar n.val ≠ 13 := by decide

theorem decChar_encChar {n : Nat} (h : n < 64) : decChar (encChar n) = some n := dec_enc ⟨n, h⟩

theorem encChar_ne_pad {n : Nat} (h : n < 64) : encChar n ≠ padc := (enc_ne_special ⟨n, h⟩).1

theorem encChar_keep {n : Nat} (h : n < 64) : (encChar n != 10 && encChar n != 13) = true := by
  have := enc_ne_special ⟨n, h⟩
  simp [this.2.1, this.2.2]

theorem pad_keep : (padc != 10 && padc != 13) = true := by decide

/-- the encoded text contains no CR / LF, so the filter of `decode` leaves it alone -/
theorem filter_encode (bs : List UInt8) :
    (encode bs).filter (fun c => c != 10 && c != 13) = encode bs := by
  fun_induction encode bs with
  | case1 a b c rest n ih =>
    have hn : n < 16777216 := by
      have := a.toNat_lt; have := b.toNat_lt; have := c.toNat_lt; omega
    simp only [List.filter_cons]
    rw [encChar_keep (by omega), encChar_keep (by omega), encChar_keep (by omega), encChar_keep (by omega)]
    simp [ih]
  | case2 a b n =>
    have hn : n < 16777216 := by
      have := a.toNat_lt; have := b.toNat_lt; omega
    simp only [List.filter_cons]
    rw [encChar_keep (by omega), encChar_keep (by omega), encChar_keep (by omega), pad_keep]
    simp
  | case3 a n =>
    have hn : n < 16777216 := by
      have := a.toNat_lt; omega
    simp only [List.filter_cons]
    rw [encChar_keep (by omega), encChar_keep (by omega), pad_keep]
    simp
  | case4 => rfl

theorem ofNat_toNat' (a : UInt8) : UInt8.ofNat a.toNat = a := by simp

theorem decodeClean_encode (bs : List UInt8) : decodeClean (encode bs) = some bs := by
  fun_induction encode bs with
  | case1 a b c rest n ih =>
    have ha := a.toNat_lt; have hb := b.toNat_lt; have hc := c.toNat_lt
    have hn : n < 16777216 := by omega
    have h3 : encChar (n % 64) ≠ padc := encChar_ne_pad (by omega)
    rw [decodeClean]
    simp only [h3, and_false, if_false]
    rw [decChar_encChar (by omega), decChar_encChar (by omega), decChar_encChar (by omega), decChar_encChar (by omega)]
    simp only [ih]
    have e1 : (n / 262144 * 262144 + n / 4096 % 64 * 4096 + n / 64 % 64 * 64 + n % 64) = n := by omega
    rw [e1]
    have e2 : n / 65536 = a.toNat := by omega
    have e3 : n / 256 % 256 = b.toNat := by omega
    have e4 : n % 256 = c.toNat := by omega
    rw [e2, e3, e4]
    simp
  | case2 a b n =>
    have ha := a.toNat_lt; have hb := b.toNat_lt
    have hn : n < 16777216 := by omega
    have h2 : encChar (n / 64 % 64) ≠ padc := encChar_ne_pad (by omega)
    rw [decodeClean]
    simp only [List.isEmpty_nil, true_and, if_true, h2, if_false]
    rw [decChar_encChar (by omega), decChar_encChar (by omega), decChar_encChar (by omega)]
    have e1 : (n / 262144 * 262144 + n / 4096 % 64 * 4096 + n / 64 % 64 * 64) = n := by omega
    simp only [e1]
    have e2 : n / 65536 = a.toNat := by omega
    have e3 : n / 256 % 256 = b.toNat := by omega
    rw [e2, e3]
    simp
  | case3 a n =>
    have ha := a.toNat_lt
    have hn : n < 16777216 := by omega
    rw [decodeClean]
    simp only [List.isEmpty_nil, true_and, if_true]
    rw [decChar_encChar (by omega), decChar_encChar (by omega)]
    have e1 : (n / 262144 * 262144 + n / 4096 % 64 * 4096) / 65536 = a.toNat := by omega
    simp only [e1]
    simp
  | case4 => rfl

/-- Go: `base64.StdEncoding.DecodeString(base64.StdEncoding.EncodeToString(b)) == b` -/
theorem decode_encode (bs : List UInt8) : decode (encode bs) = some bs := by
  rw [decode, filter_encode, decodeClean_encode]

end Rtsp.B64Std
