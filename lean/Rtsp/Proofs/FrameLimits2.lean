import Rtsp.Proofs.FrameLimits
/-
`limits_output`: every element `Conn.Read` returns, from any byte stream, is within the limits.
-/
namespace Rtsp.Frame
open Rtsp.Facts.Frame

def ElemBounded (up : Bytes → Option Bytes) : Elem → Prop
  | .req r =>
    r.method.length < requestMaxMethodLength ∧
    (∀ u, r.url = some u → ∃ raw, raw.length < requestMaxURLLength ∧ up raw = some u) ∧
    HeaderBounded headerMaxEntryCount r.header ∧ r.body.length ≤ rtspMaxBodySize
  | .res r =>
    r.code < 1000 ∧ r.msg.length < responseMaxStatusMessageLength ∧
    HeaderBounded headerMaxEntryCount r.header ∧ r.body.length ≤ rtspMaxBodySize
  | .frame f => f.channel < 256 ∧ f.payload.length < 65536

theorem headerBounded_nil : HeaderBounded 0 [] := ⟨by simp [entryCount], fun e he => by simp at he⟩

theorem parseRequest_bounded (up : Bytes → Option Bytes) (bs : Bytes) (r : Request) (rest : Bytes)
    (h : parseRequest up bs = .ok r rest) : ElemBounded up (.req r) := by
  unfold parseRequest at h
  obtain ⟨method, r1, h1, h⟩ := PR.bind_eq_ok h
  split at h
  · cases h
  · obtain ⟨raw, r2, h2, h⟩ := PR.bind_eq_ok h
    split at h
    · cases h
    · rename_i url hurl
      obtain ⟨proto, r3, _, h⟩ := PR.bind_eq_ok h
      split at h
      · cases h
      · obtain ⟨_, r4, _, h⟩ := PR.bind_eq_ok h
        obtain ⟨hd, r5, h5, h⟩ := PR.bind_eq_ok h
        obtain ⟨body, r6, h6, h⟩ := PR.bind_eq_ok h
        simp only [PR.ok.injEq] at h
        rw [← h.1]
        refine ⟨(readLim_ok_bound _ _ _ _ _ h1).1, ?_, ?_, parseBody_bounded _ _ _ _ h6⟩
        · intro u hu
          simp only at hu
          subst hu
          refine ⟨raw, (readLim_ok_bound _ _ _ _ _ h2).1, ?_⟩
          split at hurl
          · cases hurl
          · cases hup : up raw with
            | none => simp [hup] at hurl
            | some u' => simp [hup] at hurl; rw [hurl]
        · have := parseHeaders_bounded headerMaxEntryCount 0 [] _ hd r5 headerBounded_nil h5
          simpa using this

theorem parseResponse_bounded (up : Bytes → Option Bytes) (bs : Bytes) (r : Response) (rest : Bytes)
    (h : parseResponse bs = .ok r rest) : ElemBounded up (.res r) := by
  unfold parseResponse at h
  obtain ⟨proto, r1, _, h⟩ := PR.bind_eq_ok h
  split at h
  · cases h
  · obtain ⟨cd, r2, h2, h⟩ := PR.bind_eq_ok h
    obtain ⟨codeStr, delim⟩ := cd
    simp only at h
    split at h
    · cases h
    · rename_i code hcode
      obtain ⟨msg, r3, h3, h⟩ := PR.bind_eq_ok h
      obtain ⟨_, r4, _, h⟩ := PR.bind_eq_ok h
      obtain ⟨hd, r5, h5, h⟩ := PR.bind_eq_ok h
      obtain ⟨body, r6, h6, h⟩ := PR.bind_eq_ok h
      simp only [PR.ok.injEq] at h
      rw [← h.1]
      refine ⟨?_, ?_, ?_, parseBody_bounded _ _ _ _ h6⟩
      · have hl := (readLimSC_ok_bound _ _ _ _ _ h2).1
        have hv := parseUint_short _ _ _ hcode
        have e : responseMaxStatusCodeLength = 4 := rfl
        have : 10 ^ codeStr.length ≤ 10 ^ 3 := Nat.pow_le_pow_right (by omega) (by omega)
        show code < 1000
        omega
      · show msg.length < _
        split at h3
        · exact (readLim_ok_bound _ _ _ _ _ h3).1
        · simp only [PR.ok.injEq] at h3
          rw [← h3.1]; decide
      · have := parseHeaders_bounded headerMaxEntryCount 0 [] _ hd r5 headerBounded_nil h5
        simpa using this

theorem parseFrame_bounded (up : Bytes → Option Bytes) (bs : Bytes) (f : IFrame) (rest : Bytes)
    (h : parseFrame bs = .ok f rest) : ElemBounded up (.frame f) := by
  unfold parseFrame at h
  obtain ⟨hd, r1, _, h⟩ := PR.bind_eq_ok h
  split at h
  · rename_i m ch l1 l0 _hhd
    split at h
    · cases h
    · obtain ⟨p, r2, h2, h⟩ := PR.bind_eq_ok h
      simp only [PR.ok.injEq] at h
      rw [← h.1]
      have := readFull_ok_length _ _ _ _ h2
      have a := ch.toNat_lt; have b := l1.toNat_lt; have c := l0.toNat_lt
      exact ⟨by show ch.toNat < 256; omega, by show p.length < 65536; omega⟩
  · cases h

/-- **limits_output**: whatever bytes arrive, an element returned by `Conn.Read` has a method
shorter than 64 bytes, a URL token shorter than 2048, at most 255 header entries with keys
shorter than 512 and values shorter than 2048 bytes, a body of at most 128 KiB, a status code
below 1000, a status message shorter than 255, a channel below 256 and a payload below 64 KiB. -/
theorem limits_output (up : Bytes → Option Bytes) : ∀ (bs : Bytes) (e : Elem) (rest : Bytes),
    readElem up bs = .ok e rest → ElemBounded up e := by
  intro bs
  induction bs with
  | nil => intro e rest h; simp [readElem] at h
  | cons b0 t ih =>
    intro e rest h
    cases t with
    | nil => simp [readElem] at h
    | cons b1 t' =>
      simp only [readElem] at h
      split at h
      · obtain ⟨f, r, hf, h⟩ := PR.bind_eq_ok h
        simp only [PR.ok.injEq] at h
        rw [← h.1]; exact parseFrame_bounded up _ f r hf
      · split at h
        · obtain ⟨x, r, hx, h⟩ := PR.bind_eq_ok h
          simp only [PR.ok.injEq] at h
          rw [← h.1]; exact parseResponse_bounded up _ x r hx
        · split at h
          · obtain ⟨x, r, hx, h⟩ := PR.bind_eq_ok h
            simp only [PR.ok.injEq] at h
            rw [← h.1]; exact parseRequest_bounded up _ x r hx
          · exact ih e rest h

end Rtsp.Frame
