import Rtsp.Proofs.UrlStr
/-
`parse` (base.ParseURL) on text assembled from well-formed components: the central lemma
`parse_assemble` — the parser cuts `scheme://authority path ?query` exactly where the text was put
together, whatever the path and the query contain (within the stated byte classes).
-/
namespace Rtsp.Url

/-! ### the two schemes -/

theorem schemeRTSP_eq : schemeRTSP = [114, 116, 115, 112] := by decide
theorem schemeRTSPS_eq : schemeRTSPS = [114, 116, 115, 112, 115] := by decide

def IsScheme (s : Str) : Prop := s = schemeRTSP ∨ s = schemeRTSPS

theorem findSub_scheme {scheme : Str} (hs : IsScheme scheme) (X : Str) :
    findSub [58, 47, 47] (scheme ++ 58 :: 47 :: 47 :: X) = some scheme.length := by
  rcases hs with rfl | rfl
  · rw [schemeRTSP_eq]; simp [findSub, List.isPrefixOf]
  · rw [schemeRTSPS_eq]; simp [findSub, List.isPrefixOf]

theorem getScheme_scheme {scheme : Str} (hs : IsScheme scheme) (X : Str) :
    getScheme (scheme ++ 58 :: X) = some (scheme, X) := by
  rcases hs with rfl | rfl
  · rw [schemeRTSP_eq]; simp [getScheme, getSchemeAux, isAlpha, isDigit]
  · rw [schemeRTSPS_eq]; simp [getScheme, getSchemeAux, isAlpha, isDigit]

theorem scheme_lower {scheme : Str} (hs : IsScheme scheme) : scheme.map toLower = scheme := by
  rcases hs with rfl | rfl <;> decide

theorem scheme_accepted {scheme : Str} (hs : IsScheme scheme) :
    (scheme != schemeRTSP && scheme != schemeRTSPS) = false := by
  rcases hs with rfl | rfl <;> decide

theorem scheme_pos {scheme : Str} (hs : IsScheme scheme) : scheme.length ≠ 0 := by
  rcases hs with rfl | rfl <;> decide

/-! ### byte classes -/

/-- no control byte and no `#` -/
def cleanByte (c : UInt8) : Bool := !isCTL c && c != 35

/-- authority bytes: clean and none of `/ ? #` -/
def authByte (c : UInt8) : Bool := cleanByte c && !isDelim c

/-- path bytes: clean and no `?` -/
def pathByte (c : UInt8) : Bool := cleanByte c && c != 63

theorem scheme_bytes {scheme : Str} (hs : IsScheme scheme) :
    scheme.all (fun c => cleanByte c && !isDelim c && c != 63) = true := by
  rcases hs with rfl | rfl <;> decide

/-- the authority text `URL.String` writes -/
def authText (user : Option UserInfo) (host : Str) : Str := userText user ++ escape .host host

/-- the IPv6-zone rewrite of base.ParseURL leaves the authority alone -/
def zoneStable (a : Str) : Bool :=
  match splitFirst 64 a with
  | some (_, m3) => fixPct m3 == m3
  | none => true

/-- An authority text that the parser maps to `(user, host)`. -/
structure AuthOK (a : Str) (user : Option UserInfo) (host : Str) : Prop where
  bytes : a.all authByte = true
  parse : parseAuthority a = some (user, host)
  stable : zoneStable a = true

/-- An escaped path `ep` (beginning with `/`) that decodes to `path` and is printed back unchanged. -/
structure PathOK (ep path : Str) : Prop where
  slash : ep.head? = some 47
  bytes : ep.all pathByte = true
  dec : unescape .path ep = some path
  enc : escapedPathOf ep path = ep

/-- the `?query` part as `URL.String` writes it -/
def queryText (fq : Bool) (q : Str) : Str := if fq || !q.isEmpty then 63 :: q else []

/-- `scheme://authority path ?query` -/
def assemble (scheme a ep : Str) (fq : Bool) (q : Str) : Str :=
  scheme ++ 58 :: 47 :: 47 :: (a ++ (ep ++ queryText fq q))

/-! ### small facts about the classes -/

theorem authByte_not_delim {c : UInt8} (h : authByte c = true) : isDelim c = false := by
  simp [authByte] at h; simp [h.2]

theorem mem_all {p : UInt8 → Bool} {s : Str} (h : s.all p = true) {c : UInt8} (m : c ∈ s) : p c = true :=
  List.all_eq_true.1 h c m

theorem not_mem_auth {a : Str} (h : a.all authByte = true) {c : UInt8} (hc : authByte c = false) : c ∉ a :=
  not_mem_of_all h hc

theorem queryText_all {p : UInt8 → Bool} (hp : p 63 = true) {q : Str} (hq : q.all p = true) (fq : Bool) :
    (queryText fq q).all p = true := by
  unfold queryText; split <;> simp [hp, hq]

theorem pathByte_clean {s : Str} (h : s.all pathByte = true) : s.all cleanByte = true := by
  apply List.all_eq_true.2; intro c m
  have := mem_all h m; simp [pathByte] at this; exact this.1

theorem authByte_clean {s : Str} (h : s.all authByte = true) : s.all cleanByte = true := by
  apply List.all_eq_true.2; intro c m
  have := mem_all h m; simp [authByte] at this; exact this.1

/-! ### step A: the zone rewrite is the identity -/

theorem takeWhile_auth {a rest : Str} (ha : a.all authByte = true)
    (hr : rest = [] ∨ ∃ c t, rest = c :: t ∧ isDelim c = true) :
    (a ++ rest).takeWhile (fun c => !isDelim c) = a := by
  rw [List.takeWhile_append_of_pos]
  · rcases hr with rfl | ⟨c, t, rfl, hc⟩
    · simp
    · simp [hc]
  · intro c m
    have := authByte_not_delim (mem_all ha m); simp [this]

theorem rewriteZone_assemble {scheme a ep q : Str} (fq : Bool) (hs : IsScheme scheme)
    (ha : a.all authByte = true) (hst : zoneStable a = true)
    (hsl : ep.head? = some 47) (hep : ep.all cleanByte = true) (hq : q.all cleanByte = true) :
    rewriteZone (assemble scheme a ep fq q) = assemble scheme a ep fq q := by
  obtain ⟨ep', rfl⟩ : ∃ ep', ep = 47 :: ep' := by
    cases ep with
    | nil => simp at hsl
    | cons c t => simp at hsl; exact ⟨t, by rw [hsl]⟩
  unfold rewriteZone assemble
  rw [findSub_scheme hs]
  simp only
  have hm1 : (List.take scheme.length (scheme ++ 58 :: 47 :: 47 :: (a ++ (47 :: ep' ++ queryText fq q)))) = scheme := by
    simp
  have hdrop : List.drop (scheme.length + 3) (scheme ++ 58 :: 47 :: 47 :: (a ++ (47 :: ep' ++ queryText fq q)))
      = a ++ (47 :: ep' ++ queryText fq q) := by
    rw [List.drop_append]; simp
  rw [hm1, hdrop]
  have hany : scheme.any isDelim = false := by
    rcases hs with rfl | rfl <;> decide
  rw [if_neg (by simp [scheme_pos hs, hany])]
  have htw : (a ++ (47 :: ep' ++ queryText fq q)).takeWhile (fun c => !isDelim c) = a :=
    takeWhile_auth ha (Or.inr ⟨47, _, rfl, by decide⟩)
  rw [htw, List.drop_left]
  simp only [List.cons_append]
  have h10 : (ep' ++ queryText fq q).contains 10 = false := by
    have h1 : (ep' ++ queryText fq q).all cleanByte = true := by
      rw [List.all_append]
      have : ep'.all cleanByte = true := by
        rw [List.all_cons, Bool.and_eq_true] at hep; exact hep.2
      rw [this, queryText_all (by decide) hq]; rfl
    cases hc : (ep' ++ queryText fq q).contains 10 with
    | false => rfl
    | true =>
      have hm : (10 : UInt8) ∈ (ep' ++ queryText fq q) := by simpa using hc
      have := mem_all h1 hm
      revert this; decide
  rw [if_neg (by rw [h10]; exact Bool.false_ne_true)]
  cases hsp : splitFirst 64 a with
  | none => rfl
  | some r =>
    obtain ⟨m2, m3⟩ := r
    have hfix : fixPct m3 = m3 := by
      unfold zoneStable at hst; rw [hsp] at hst; simpa using hst
    obtain ⟨e, _⟩ := splitFirst_spec hsp
    simp only [hfix]
    rw [e]; simp

/-! ### step B: net/url.Parse -/

theorem mem_assemble {scheme a ep q : Str} {fq : Bool} {c : UInt8}
    (m : c ∈ assemble scheme a ep fq q) :
    c ∈ scheme ∨ c = 58 ∨ c = 47 ∨ c ∈ a ∨ c ∈ ep ∨ c ∈ queryText fq q := by
  unfold assemble at m
  simp only [List.mem_append, List.mem_cons] at m
  rcases m with m | m | m | m | m | m | m <;> simp [m]

theorem all_assemble {p : UInt8 → Bool} {scheme a ep q : Str} {fq : Bool}
    (h1 : scheme.all p = true) (h2 : p 58 = true) (h3 : p 47 = true) (h4 : a.all p = true)
    (h5 : ep.all p = true) (h6 : (queryText fq q).all p = true) :
    (assemble scheme a ep fq q).all p = true := by
  apply List.all_eq_true.2
  intro c m
  rcases mem_assemble m with m | rfl | rfl | m | m | m
  · exact mem_all h1 m
  · exact h2
  · exact h3
  · exact mem_all h4 m
  · exact mem_all h5 m
  · exact mem_all h6 m

theorem all_weaken {p r : UInt8 → Bool} {s : Str} (h : s.all p = true) (hpr : ∀ c, p c = true → r c = true) :
    s.all r = true :=
  List.all_eq_true.2 fun c m => hpr c (mem_all h m)

/-- the text before the `?`: `//authority path` -/
theorem splitQuery {R q : Str} (hR : (63 : UInt8) ∉ R) (fq : Bool) :
    (if (hasSuffix [63] (R ++ queryText fq q) && (R ++ queryText fq q).count 63 == 1) = true
      then (some ((R ++ queryText fq q).dropLast, true, ([] : Str)) : Option (Str × Bool × Str))
      else match splitFirst 63 (R ++ queryText fq q) with
        | some (r, q') => some (r, false, q')
        | none => some (R ++ queryText fq q, false, []))
    = some (R, fq && q.isEmpty, q) := by
  have hcR : R.count 63 = 0 := List.count_eq_zero.2 hR
  unfold queryText
  by_cases hq : q = []
  · subst hq
    cases fq with
    | false =>
      simp only [Bool.false_or, List.isEmpty_nil, Bool.not_true, Bool.false_eq_true, if_false, List.append_nil]
      have : (hasSuffix [63] R && R.count 63 == 1) = false := by simp [hcR]
      rw [this]
      simp [splitFirst_none hR]
    | true =>
      simp only [Bool.true_or, if_true]
      have h1 : hasSuffix [63] (R ++ [63]) = true := by
        unfold hasSuffix; exact List.isSuffixOf_iff_suffix.2 (List.suffix_append _ _)
      have h2 : (R ++ [63]).count 63 = 1 := by simp [List.count_append, hcR]
      simp [h1, h2]
  · have hne : (!q.isEmpty) = true := by cases q <;> simp_all
    simp only [hne, Bool.or_true, if_true]
    have hcond : (hasSuffix [63] (R ++ 63 :: q) && (R ++ 63 :: q).count 63 == 1) = false := by
      cases hsuf : hasSuffix [63] (R ++ 63 :: q) with
      | false => simp
      | true =>
        -- then q ends with '?', so there are at least two '?'
        have hs : [63] <:+ (R ++ 63 :: q) := List.isSuffixOf_iff_suffix.1 hsuf
        have hq63 : (63 : UInt8) ∈ q := by
          obtain ⟨t, ht⟩ := hs
          have hlast : (R ++ 63 :: q).getLast? = some 63 := by rw [← ht]; simp
          have : (R ++ 63 :: q) = (R ++ [63]) ++ q := by simp
          rw [this, List.getLast?_append, List.getLast?_eq_some_getLast hq] at hlast
          simp only [Option.some_or, Option.some.injEq] at hlast
          rw [← hlast]; exact List.getLast_mem hq
        have : 0 < q.count 63 := List.count_pos_iff.2 hq63
        simp [List.count_append, hcR]; omega
    rw [hcond]
    simp [splitFirst_append hR, hq]

theorem parseRest_ok {scheme a ep path q : Str} {user : Option UserInfo} {host : Str} {fq : Bool}
    (ha : AuthOK a user host) (hp : PathOK ep path) :
    parseRest scheme (47 :: 47 :: (a ++ ep)) fq q =
      some { scheme, user, host, path, epath := ep, forceQuery := fq, rawQuery := q } := by
  obtain ⟨ep', rfl⟩ : ∃ ep', ep = 47 :: ep' := by
    cases ep with
    | nil => have := hp.slash; simp at this
    | cons c t => have := hp.slash; simp at this; exact ⟨t, by rw [this]⟩
  have h47 : (47 : UInt8) ∉ a := not_mem_auth ha.bytes (by decide)
  unfold parseRest
  simp only [splitFirst_append h47, ha.parse, hp.dec, hp.enc]

theorem parseStd_assemble {scheme a ep path q : Str} {user : Option UserInfo} {host : Str} (fq : Bool)
    (hs : IsScheme scheme) (ha : AuthOK a user host) (hp : PathOK ep path) (hq : q.all cleanByte = true) :
    parseStd (assemble scheme a ep fq q) =
      some { scheme, user, host, path, epath := ep, forceQuery := fq && q.isEmpty, rawQuery := q } := by
  have hall : (assemble scheme a ep fq q).all cleanByte = true :=
    all_assemble (all_weaken (scheme_bytes hs) (by intro c h; simp at h; exact h.1.1)) (by decide) (by decide)
      (authByte_clean ha.bytes) (pathByte_clean hp.bytes) (queryText_all (by decide) hq fq)
  have h35 : (35 : UInt8) ∉ assemble scheme a ep fq q := not_mem_of_all hall (by decide)
  have hctl : (assemble scheme a ep fq q).any isCTL = false := by
    cases hc : (assemble scheme a ep fq q).any isCTL with
    | false => rfl
    | true =>
      obtain ⟨c, m, hcc⟩ := List.any_eq_true.1 hc
      have := mem_all hall m
      simp [cleanByte, hcc] at this
  unfold parseStd
  rw [splitFirst_none h35]
  simp only [Bool.not_true, Bool.false_eq_true, if_false, hctl]
  unfold parseNoFrag
  have hsch : getScheme (assemble scheme a ep fq q) = some (scheme, 47 :: 47 :: (a ++ (ep ++ queryText fq q))) := by
    unfold assemble; exact getScheme_scheme hs _
  rw [hsch]
  simp only [scheme_lower hs, scheme_accepted hs, Bool.false_eq_true, if_false]
  -- the query cut
  have hR : (63 : UInt8) ∉ (47 :: 47 :: (a ++ ep)) := by
    intro m
    simp only [List.mem_cons, List.mem_append] at m
    rcases m with m | m | m | m
    · revert m; decide
    · revert m; decide
    · exact not_mem_auth ha.bytes (by decide) m
    · exact not_mem_of_all hp.bytes (by decide) m
  have hre : 47 :: 47 :: (a ++ (ep ++ queryText fq q)) = (47 :: 47 :: (a ++ ep)) ++ queryText fq q := by simp
  rw [hre]
  have hsq := splitQuery (q := q) hR fq
  by_cases hc : (hasSuffix [63] ((47 :: 47 :: (a ++ ep)) ++ queryText fq q) &&
      ((47 :: 47 :: (a ++ ep)) ++ queryText fq q).count 63 == 1) = true
  · rw [if_pos hc] at hsq ⊢
    simp only [Option.some.injEq, Prod.mk.injEq] at hsq
    obtain ⟨h1, h2, h3⟩ := hsq
    rw [h1, parseRest_ok ha hp, ← h2, ← h3]
  · rw [if_neg hc] at hsq ⊢
    cases hsp : splitFirst 63 ((47 :: 47 :: (a ++ ep)) ++ queryText fq q) with
    | none =>
      rw [hsp] at hsq
      simp only [Option.some.injEq, Prod.mk.injEq] at hsq
      obtain ⟨h1, h2, h3⟩ := hsq
      simp only
      rw [h1, parseRest_ok ha hp, ← h2, ← h3]
    | some r =>
      obtain ⟨r1, r2⟩ := r
      rw [hsp] at hsq
      simp only [Option.some.injEq, Prod.mk.injEq] at hsq
      obtain ⟨h1, h2, h3⟩ := hsq
      simp only
      rw [h1, h3, parseRest_ok ha hp, ← h2]

/-- **The parser inverts the assembly.**  For a scheme `rtsp`/`rtsps`, an authority the parser accepts, an
escaped path beginning with `/`, and any query without control bytes and `#`:
`base.ParseURL("scheme://authority" + path + "?" + query)` has exactly these components. -/
theorem parse_assemble {scheme a ep path q : Str} {user : Option UserInfo} {host : Str} (fq : Bool)
    (hs : IsScheme scheme) (ha : AuthOK a user host) (hp : PathOK ep path) (hq : q.all cleanByte = true) :
    parse (assemble scheme a ep fq q) =
      some { scheme, user, host, path, epath := ep, forceQuery := fq && q.isEmpty, rawQuery := q } := by
  unfold parse
  rw [rewriteZone_assemble fq hs ha.bytes ha.stable hp.slash (pathByte_clean hp.bytes) hq]
  exact parseStd_assemble fq hs ha hp hq

end Rtsp.Url
