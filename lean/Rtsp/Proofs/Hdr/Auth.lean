import Rtsp.Proofs.Hdr.Session
import Rtsp.Model.Headers.Authenticate
set_option linter.unusedSimpArgs false
namespace Rtsp.Hdr
open Rtsp.Facts

def optQ (k : Str) : Option Str → List Elem
  | some v => [Elem.quoted k v]
  | none => []

theorem optQ_text (k : Str) (o : Option Str) :
    (render ',' 1 (optQ k o)) = (match o with | some v => quoted (k ++ ['=']) v | none => []) := by
  cases o <;> simp [optQ, render, Elem.text, quoted]

theorem parseMethod_digest (x : Str) : parseMethod (cs!"Digest " ++ x) = .ok (.digest, x) := by
  have : cut ' ' (cs!"Digest" ++ ' ' :: x) = some (cs!"Digest", x) := cut_append x (by decide)
  have e : cs!"Digest " ++ x = cs!"Digest" ++ ' ' :: x := by simp
  rw [e]; simp only [parseMethod, this]; simp

theorem parseMethod_basic (x : Str) : parseMethod (cs!"Basic " ++ x) = .ok (.basic, x) := by
  have : cut ' ' (cs!"Basic" ++ ' ' :: x) = some (cs!"Basic", x) := cut_append x (by decide)
  have e : cs!"Basic " ++ x = cs!"Basic" ++ ' ' :: x := by simp
  rw [e]; simp only [parseMethod, this]; simp

theorem parseAuthAlgorithm_algStr (a : AuthAlgorithm) : parseAuthAlgorithm (algStr a) = .ok a := by
  cases a <;> decide

theorem optQ_ok {k : Str} (hk : KeyOk ',' k) {o : Option Str} (hv : ∀ v, o = some v → '"' ∉ v) :
    ∀ e ∈ optQ k o, e.Ok ',' := by
  cases o with
  | none => simp [optQ]
  | some v => simp only [optQ, List.mem_singleton]; intro e he; subst he; exact ⟨hk, hv v rfl⟩

theorem algStr_noQuote (a : AuthAlgorithm) : '"' ∉ algStr a := by cases a <;> decide

/-- rendering with separator `", "` of a non-empty prefix followed by optional elements -/
theorem render_append_opt (e : Elem) (es fs : List Elem) :
    render ',' 1 (e :: es ++ fs) = render ',' 1 (e :: es) ++ (match fs with | [] => [] | f :: fs' => ',' :: ' ' :: render ',' 1 (f :: fs')) := by
  induction es generalizing e with
  | nil =>
    cases fs with
    | nil => simp [render]
    | cons f fs' => simp [render]
  | cons e' es ih =>
    have := ih e'
    simp only [List.cons_append] at this ⊢
    simp only [render, this]
    simp

/-! ### WWW-Authenticate -/

/-- Basic carries a realm only; Digest values contain no double quote (they are written between
quotes without escaping). -/
structure Authenticate.WellFormed (h : Authenticate) : Prop where
  realm : '"' ∉ h.realm
  nonce : '"' ∉ h.nonce
  opaq : ∀ v, h.opaq = some v → '"' ∉ v
  stale : ∀ v, h.stale = some v → '"' ∉ v
  basic : h.method = .basic → h.nonce = [] ∧ h.opaq = none ∧ h.stale = none ∧ h.algorithm = none

instance Authenticate.decWellFormed (h : Authenticate) : Decidable h.WellFormed :=
  decidable_of_iff ('"' ∉ h.realm ∧ '"' ∉ h.nonce ∧ (∀ v, h.opaq = some v → '"' ∉ v) ∧ (∀ v, h.stale = some v → '"' ∉ v) ∧
      (h.method = .basic → h.nonce = [] ∧ h.opaq = none ∧ h.stale = none ∧ h.algorithm = none))
    ⟨fun ⟨a, b, c, d, e⟩ => ⟨a, b, c, d, e⟩, fun ⟨a, b, c, d, e⟩ => ⟨a, b, c, d, e⟩⟩

example : Authenticate.WellFormed { method := .digest, realm := cs!"4419b63f5e51", nonce := cs!"8b84a3b7", stale := some cs!"FALSE", algorithm := some .sha256 } := by
  decide
example : Authenticate.WellFormed { method := .basic, realm := cs!"a, b=c" } := by decide

def Authenticate.elems (h : Authenticate) : List Elem :=
  [Elem.quoted cs!"realm" h.realm, Elem.quoted cs!"nonce" h.nonce]
  ++ optQ cs!"opaque" h.opaq ++ optQ cs!"stale" h.stale ++ optQ cs!"algorithm" (h.algorithm.map algStr)

theorem Authenticate.marshal_digest (h : Authenticate) (hm : h.method = .digest) :
    h.marshal = cs!"Digest " ++ render ',' 1 h.elems := by
  obtain ⟨m, r, n, o, s, a⟩ := h
  simp only at hm; subst hm
  cases o <;> cases s <;> cases a <;>
    simp [Authenticate.marshal, Authenticate.elems, optQ, optQuoted, quoted, render, Elem.text]

theorem Authenticate.unmarshal_marshal (h : Authenticate) (wf : h.WellFormed) :
    Authenticate.unmarshal [h.marshal] = .ok h := by
  cases hm : h.method with
  | basic =>
    obtain ⟨hn, ho, hs, ha⟩ := wf.basic hm
    obtain ⟨m, r, n, o, s, a⟩ := h
    simp only at hm hn ho hs ha; subst hm hn ho hs ha
    have hok : ∀ e ∈ [Elem.quoted cs!"realm" r], e.Ok ',' := by
      intro e he; simp at he; subst he; exact ⟨by key_ok, wf.realm⟩
    have hkv := keyValParse_render (sep := ',') (by decide) (by decide) (by decide) 1 _ hok (by simp)
    have hmar : Authenticate.marshal { method := .basic, realm := r } = cs!"Basic " ++ render ',' 1 [Elem.quoted cs!"realm" r] := by
      simp [Authenticate.marshal, render, Elem.text, quoted]
    simp only [Authenticate.unmarshal, Authenticate.unmarshalWith, Authenticate.unmarshal1With]
    rw [hmar, parseMethod_basic]
    simp only [hkv, List.map, Elem.pair, Authenticate.stepsBasic]
    simp
  | digest =>
    have hok : ∀ e ∈ h.elems, e.Ok ',' := by
      intro e he
      simp only [Authenticate.elems, List.mem_append, List.mem_cons, List.not_mem_nil, or_false] at he
      rcases he with (((he | he) | he) | he) | he
      · subst he; exact ⟨by key_ok, wf.realm⟩
      · subst he; exact ⟨by key_ok, wf.nonce⟩
      · exact optQ_ok (by key_ok) wf.opaq e he
      · exact optQ_ok (by key_ok) wf.stale e he
      · refine optQ_ok (by key_ok) ?_ e he
        intro v hv
        cases ha : h.algorithm with
        | none => rw [ha] at hv; cases hv
        | some a => rw [ha] at hv; simp at hv; subst hv; exact algStr_noQuote a
    have hnd : (h.elems.map Elem.key).Nodup := by
      obtain ⟨m, r, n, o, s, a⟩ := h
      cases o <;> cases s <;> cases a <;> simp [Authenticate.elems, optQ, Elem.key]
    have hkv := keyValParse_render (sep := ',') (by decide) (by decide) (by decide) 1 _ hok hnd
    simp only [Authenticate.unmarshal, Authenticate.unmarshalWith, Authenticate.unmarshal1With]
    rw [Authenticate.marshal_digest h hm, parseMethod_digest]
    simp only [hkv]
    obtain ⟨m, r, n, o, s, a⟩ := h
    simp only at hm; subst hm
    cases o <;> cases s <;> cases a <;>
      simp [Authenticate.elems, optQ, Elem.pair, Authenticate.stepsDigest, parseAuthAlgorithm_algStr]

end Rtsp.Hdr
