import Rtsp.Proofs.Hdr.Basic
import Rtsp.Model.Headers.Range
set_option linter.unusedSimpArgs false
/-
Decimal numerals with padding: `pad2`, `pad4`, nine-digit fractions, trailing zeros.
-/
namespace Rtsp.Hdr

theorem dec_lt10 {n : Nat} (h : n < 10) : dec n = [Nat.digitChar n] := Nat.toDigits_of_lt_base h

theorem dec_step {n : Nat} (h : 10 ≤ n) : dec n = dec (n / 10) ++ [Nat.digitChar (n % 10)] := by
  have h1 : 0 < n / 10 := by omega
  have h2 : n % 10 < 10 := Nat.mod_lt _ (by decide)
  have := Nat.toDigits_append_toDigits (b := 10) (by decide) h1 h2
  rw [Nat.toDigits_of_lt_base h2] at this
  have e : 10 * (n / 10) + n % 10 = n := by omega
  rw [e] at this
  exact this.symm

theorem digitChar_isDigit : ∀ d, d < 10 → (Nat.digitChar d).isDigit = true := by decide
theorem digitChar_val : ∀ d, d < 10 → (Nat.digitChar d).toNat - 48 = d := by decide
theorem digitChar_ne_zero_char : ∀ d, d < 10 → d ≠ 0 → Nat.digitChar d ≠ '0' := by decide

theorem pad2_lt100 {n : Nat} (h : n < 100) : pad2 n = [Nat.digitChar (n / 10), Nat.digitChar (n % 10)] := by
  unfold pad2
  by_cases h10 : n < 10
  · have : n / 10 = 0 := by omega
    have h2 : n % 10 = n := by omega
    simp [h10, dec_lt10 h10, this, h2]
  · have hq : n / 10 < 10 := by omega
    simp [h10, dec_step (by omega : 10 ≤ n), dec_lt10 hq]

theorem pad2_ge {n : Nat} (h : 10 ≤ n) : pad2 n = dec n := by
  unfold pad2; simp [show ¬ n < 10 by omega]

theorem pad4_lt {n : Nat} (h : n < 10000) :
    pad4 n = [Nat.digitChar (n / 1000), Nat.digitChar (n / 100 % 10), Nat.digitChar (n / 10 % 10), Nat.digitChar (n % 10)] := by
  unfold pad4
  by_cases h1 : n < 10
  · have a : n / 1000 = 0 := by omega
    have b : n / 100 % 10 = 0 := by omega
    have c : n / 10 % 10 = 0 := by omega
    have d : n % 10 = n := by omega
    simp [dec_lt10 h1, a, b, c, d]
  · by_cases h2 : n < 100
    · have a : n / 1000 = 0 := by omega
      have b : n / 100 % 10 = 0 := by omega
      have c : n / 10 % 10 = n / 10 := by omega
      simp [dec_step (by omega : 10 ≤ n), dec_lt10 (by omega : n / 10 < 10), a, b, c]
    · by_cases h3 : n < 1000
      · have a : n / 1000 = 0 := by omega
        have b : n / 100 % 10 = n / 10 / 10 := by omega
        have c : n / 10 % 10 = n / 10 % 10 := rfl
        simp [dec_step (by omega : 10 ≤ n), dec_step (by omega : 10 ≤ n / 10), dec_lt10 (by omega : n / 10 / 10 < 10), a, b]
      · have a : n / 1000 = n / 10 / 10 / 10 := by omega
        have b : n / 100 % 10 = n / 10 / 10 % 10 := by omega
        simp [dec_step (by omega : 10 ≤ n), dec_step (by omega : 10 ≤ n / 10), dec_step (by omega : 10 ≤ n / 10 / 10),
          dec_lt10 (by omega : n / 10 / 10 / 10 < 10), a, b]

/-- `parseUint` reads a zero-padded two-digit numeral -/
theorem parseUint_pad2 {bits n : Nat} (h : n < 2 ^ bits) : parseUint bits (pad2 n) = some n := by
  unfold pad2
  by_cases h10 : n < 10
  · simp only [h10, if_true]
    have hd := dec_all_isDigit n
    have hv := ofDigitChars_dec n
    simp only [parseUint]
    have e1 : ('0' :: dec n) ≠ [] := by simp
    have e2 : ('0' :: dec n).all Char.isDigit = true := by simp [hd]
    have e3 : Nat.ofDigitChars 10 ('0' :: dec n) 0 = n := by
      rw [Nat.ofDigitChars_cons]; simpa using hv
    simp [e1, e2, e3, h]
  · simp only [h10, if_false]; exact parseUint_dec h

end Rtsp.Hdr
