import Rtsp.Proofs.Hdr.Session
import Rtsp.Model.Headers.RtpInfo
namespace Rtsp.Hdr
open Rtsp.Facts

structure RtpInfoEntry.WellFormed (e : RtpInfoEntry) : Prop where
  noSemi : ';' ∉ e.url
  noComma : ',' ∉ e.url
  noQuote : e.url.head? ≠ some '"'
  seq : ∀ n, e.seq = some n → n < 2 ^ 16
  ts : ∀ n, e.ts = some n → n < 2 ^ 32

instance RtpInfoEntry.decWellFormed (e : RtpInfoEntry) : Decidable e.WellFormed :=
  decidable_of_iff (';' ∉ e.url ∧ ',' ∉ e.url ∧ e.url.head? ≠ some '"' ∧ (∀ n, e.seq = some n → n < 2 ^ 16) ∧ (∀ n, e.ts = some n → n < 2 ^ 32))
    ⟨fun ⟨a, b, c, d, f⟩ => ⟨a, b, c, d, f⟩, fun ⟨a, b, c, d, f⟩ => ⟨a, b, c, d, f⟩⟩

def RtpInfoEntry.elems (e : RtpInfoEntry) : List Elem :=
  [Elem.plain cs!"url" e.url]
  ++ (match e.seq with | some n => [Elem.plain cs!"seq" (dec n)] | none => [])
  ++ (match e.ts with | some n => [Elem.plain cs!"rtptime" (dec n)] | none => [])

theorem RtpInfoEntry.marshal_eq (e : RtpInfoEntry) : e.marshal = render ';' 0 e.elems := by
  rw [← joinWith_texts]
  obtain ⟨u, s, t⟩ := e
  cases s <;> cases t <;> simp [RtpInfoEntry.marshal, RtpInfoEntry.elems, optField, Elem.text]

theorem numElemOk (k : Str) (hk : KeyOk ';' k) (n : Nat) : (Elem.plain k (dec n)).Ok ';' :=
  ⟨hk, not_mem_dec (by decide) n, dec_head_ne (by decide) n⟩

theorem RtpInfoEntry.unmarshal_marshal (e : RtpInfoEntry) (wf : e.WellFormed) :
    RtpInfoEntry.unmarshalWith keyValParse e.marshal = .ok e := by
  have hurl : (Elem.plain cs!"url" e.url).Ok ';' := ⟨by key_ok, wf.noSemi, wf.noQuote⟩
  have hseq : ∀ n, (Elem.plain cs!"seq" (dec n)).Ok ';' := numElemOk _ (by key_ok)
  have hts : ∀ n, (Elem.plain cs!"rtptime" (dec n)).Ok ';' := numElemOk _ (by key_ok)
  have hok : ∀ x ∈ e.elems, x.Ok ';' := by
    obtain ⟨u, s, t⟩ := e
    cases s <;> cases t <;> simp [RtpInfoEntry.elems, hurl, hseq, hts]
  have hnd : (e.elems.map Elem.key).Nodup := by
    obtain ⟨u, s, t⟩ := e
    cases s <;> cases t <;> simp [RtpInfoEntry.elems, Elem.key]
  have hkv := keyValParse_render (sep := ';') (by decide) (by decide) (by decide) 0 _ hok hnd
  have htrim : trimLeftSp (render ';' 0 e.elems) = render ';' 0 e.elems := trimLeftSp_of_head (render_head hok)
  unfold RtpInfoEntry.unmarshalWith
  rw [RtpInfoEntry.marshal_eq, htrim, hkv]
  obtain ⟨u, s, t⟩ := e
  cases s with
  | none =>
    cases t with
    | none => simp [RtpInfoEntry.elems, Elem.pair, RtpInfoEntry.steps]
    | some b =>
      have hb : parseUint Hdr.rtptimeBits (dec b) = some b := parseUint_dec (wf.ts b rfl)
      simp [RtpInfoEntry.elems, Elem.pair, RtpInfoEntry.steps, hb]
  | some a =>
    have ha : parseUint Hdr.seqBits (dec a) = some a := parseUint_dec (wf.seq a rfl)
    cases t with
    | none => simp [RtpInfoEntry.elems, Elem.pair, RtpInfoEntry.steps, ha]
    | some b =>
      have hb : parseUint Hdr.rtptimeBits (dec b) = some b := parseUint_dec (wf.ts b rfl)
      simp [RtpInfoEntry.elems, Elem.pair, RtpInfoEntry.steps, ha, hb]

/-- no `,` inside a marshalled entry -/
theorem RtpInfoEntry.marshal_noComma (e : RtpInfoEntry) (wf : e.WellFormed) : ',' ∉ e.marshal := by
  obtain ⟨u, s, t⟩ := e
  have h1 : ∀ n, ',' ∉ dec n := not_mem_dec (by decide)
  have hu : ',' ∉ u := wf.noComma
  cases s <;> cases t <;> simp [RtpInfoEntry.marshal, optField, joinWith, hu, h1]

theorem RtpInfo.unmarshalEach_marshal : ∀ (es : List RtpInfoEntry), (∀ e ∈ es, e.WellFormed) →
    RtpInfo.unmarshalEach keyValParse (es.map RtpInfoEntry.marshal) = .ok es
  | [], _ => rfl
  | e :: es, h => by
    simp only [List.map_cons, RtpInfo.unmarshalEach]
    rw [RtpInfoEntry.unmarshal_marshal e (h e (by simp)),
        RtpInfo.unmarshalEach_marshal es (fun x hx => h x (by simp [hx]))]

/-- a well-formed RTP-Info header has at least one entry -/
structure RtpInfo.WellFormed (h : List RtpInfoEntry) : Prop where
  ne : h ≠ []
  entries : ∀ e ∈ h, e.WellFormed

instance RtpInfo.decWellFormed (h : List RtpInfoEntry) : Decidable (RtpInfo.WellFormed h) :=
  decidable_of_iff (h ≠ [] ∧ ∀ e ∈ h, e.WellFormed) ⟨fun ⟨a, b⟩ => ⟨a, b⟩, fun ⟨a, b⟩ => ⟨a, b⟩⟩

example : RtpInfo.WellFormed [{ url := cs!"rtsp://h/a b", seq := some 65535, ts := some 4294967295 }, { url := [] }] := by decide

theorem RtpInfo.unmarshal_marshal (h : List RtpInfoEntry) (wf : RtpInfo.WellFormed h) :
    RtpInfo.unmarshal [RtpInfo.marshal h] = .ok h := by
  simp only [RtpInfo.unmarshal, RtpInfo.unmarshalWith, RtpInfo.marshal]
  rw [splitOn_joinWith _ (by simpa using wf.ne)
      (by intro p hp; obtain ⟨e, he, rfl⟩ := List.mem_map.mp hp; exact RtpInfoEntry.marshal_noComma e (wf.entries e he))]
  exact RtpInfo.unmarshalEach_marshal h wf.entries

end Rtsp.Hdr
