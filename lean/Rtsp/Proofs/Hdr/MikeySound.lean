import Rtsp.Proofs.Hdr.Mikey
set_option linter.unusedSimpArgs false
/-
MIKEY, the other direction: whatever `Message.unmarshal` accepts is a well-formed message
(`Message.WF`), hence re-encoding and decoding it gives the same message.
-/
namespace Rtsp.Mikey
open Rtsp.Facts

theorem be32_lt (a b c d : UInt8) : be32 a b c d < 2 ^ 32 := by
  have := a.toNat_lt; have := b.toNat_lt; have := c.toNat_lt; have := d.toNat_lt
  simp only [be32]; omega

theorem be16_lt (a b : UInt8) : be16 a b < 65536 := by
  have := a.toNat_lt; have := b.toNat_lt
  simp only [be16]; omega

theorem readEntries_wf : ∀ (n : Nat) (buf : Bytes) (es : List SrtpIdEntry) (rest : Bytes),
    readEntries n buf = some (es, rest) → es.length = n ∧ ∀ e ∈ es, e.WF
  | 0, buf, es, rest, h => by simp [readEntries] at h; obtain ⟨rfl, _⟩ := h; simp
  | n + 1, buf, es, rest, h => by
    match buf, h with
    | p :: s0 :: s1 :: s2 :: s3 :: r0 :: r1 :: r2 :: r3 :: tl, h =>
      simp only [readEntries] at h
      cases hr : readEntries n tl with
      | none => rw [hr] at h; cases h
      | some pr =>
        obtain ⟨es', rest'⟩ := pr
        rw [hr] at h
        simp only [Option.some.injEq, Prod.mk.injEq] at h
        obtain ⟨rfl, rfl⟩ := h
        have ih := readEntries_wf n tl es' rest' hr
        refine ⟨by simp [ih.1], ?_⟩
        intro e he
        rcases List.mem_cons.mp he with rfl | he
        · exact ⟨p.toNat_lt, be32_lt _ _ _ _, be32_lt _ _ _ _⟩
        · exact ih.2 e he

theorem Header.unmarshal_wf (buf : Bytes) (h : Header) (next : Nat) (rest : Bytes)
    (hu : Header.unmarshal buf = some (h, next, rest)) : h.WF ∧ next < 256 := by
  match buf, hu with
  | ver :: dt :: nx :: vprf :: c0 :: c1 :: c2 :: c3 :: numCS :: mapType :: tl, hu =>
    simp only [Header.unmarshal] at hu
    repeat' (split at hu)
    all_goals first | (cases hu; done) | skip
    rename_i es rest' hre
    simp only [Option.some.injEq, Prod.mk.injEq] at hu
    obtain ⟨rfl, rfl, rfl⟩ := hu
    have hw := readEntries_wf _ _ _ _ hre
    exact ⟨⟨rfl, rfl, rfl, rfl, be32_lt _ _ _ _, rfl, by rw [hw.1]; exact numCS.toNat_lt, hw.2⟩, nx.toNat_lt⟩

theorem KeyData.unmarshal_wf (buf : Bytes) (k : KeyData) (len : Nat) (hu : KeyData.unmarshal buf = some (k, len)) :
    k.WF ∧ len = k.marshalSize ∧ len ≤ buf.length := by
  match buf, hu with
  | nx :: tk :: l0 :: l1 :: rest, hu =>
    have hb := be16_lt l0 l1
    by_cases hty : tk.toNat / 16 = 2
    case neg => simp [KeyData.unmarshal, hty] at hu
    by_cases hkv : tk.toNat % 16 ≠ 0 ∧ tk.toNat % 16 ≠ 1
    case pos => simp [KeyData.unmarshal, hty, hkv] at hu
    by_cases hlen : rest.length < be16 l0 l1
    case pos => simp [KeyData.unmarshal, hty, hkv, hlen] at hu
    have hl1 : (rest.take (be16 l0 l1)).length = be16 l0 l1 := by simp; omega
    by_cases hkv1 : tk.toNat % 16 = 1
    · cases hdrop : rest.drop (be16 l0 l1) with
      | nil => simp [KeyData.unmarshal, hty, hkv1, hlen, hdrop] at hu
      | cons sl rest' =>
        by_cases hsl : rest'.length < sl.toNat
        · simp [KeyData.unmarshal, hty, hkv1, hlen, hdrop, hsl] at hu
        · have e : KeyData.unmarshal (nx :: tk :: l0 :: l1 :: rest) =
              some ({ type := 2, kv := 1, keyData := rest.take (be16 l0 l1), spi := rest'.take sl.toNat }, 4 + be16 l0 l1 + 1 + sl.toNat) := by
            simp [KeyData.unmarshal, hty, hkv1, hlen, hdrop, hsl]
          rw [e] at hu
          simp only [Option.some.injEq, Prod.mk.injEq] at hu
          obtain ⟨rfl, rfl⟩ := hu
          have hl2 : (rest'.take sl.toNat).length = sl.toNat := by simp; omega
          have hrl : rest.length = be16 l0 l1 + (1 + rest'.length) := by
            have := congrArg List.length hdrop
            simp at this; omega
          refine ⟨⟨rfl, by simp only [hl1]; exact hb, Or.inr ⟨rfl, by simp only [hl2]; exact sl.toNat_lt⟩⟩, ?_, ?_⟩
          · simp only [KeyData.marshalSize, f_spi, if_true, hl1, hl2]; omega
          · simp only [List.length_cons]; omega
    · have hkv0 : tk.toNat % 16 = 0 := by
        by_cases h0 : tk.toNat % 16 = 0
        · exact h0
        · exact absurd ⟨h0, hkv1⟩ hkv
      have e : KeyData.unmarshal (nx :: tk :: l0 :: l1 :: rest) =
          some ({ type := 2, kv := 0, keyData := rest.take (be16 l0 l1), spi := [] }, 4 + be16 l0 l1) := by
        simp [KeyData.unmarshal, hty, hkv0, hlen]
      rw [e] at hu
      simp only [Option.some.injEq, Prod.mk.injEq] at hu
      obtain ⟨rfl, rfl⟩ := hu
      refine ⟨⟨rfl, by simp only [hl1]; exact hb, Or.inl ⟨rfl, rfl⟩⟩, ?_, ?_⟩
      · simp [KeyData.marshalSize, hl1]
      · simp only [List.length_cons]; omega

theorem readSubs_wf : ∀ (fuel : Nat) (data : Bytes) (subs : List KeyData), readSubs fuel data = some subs →
    subs ≠ [] ∧ (∀ k ∈ subs, k.WF) ∧ (marshalSubs subs).length = data.length
  | 0, data, subs, h => by simp [readSubs] at h
  | fuel + 1, data, subs, h => by
    simp only [readSubs] at h
    cases hk : KeyData.unmarshal data with
    | none => rw [hk] at h; cases h
    | some pr =>
      obtain ⟨kd, len⟩ := pr
      rw [hk] at h
      obtain ⟨wk, hlen, hle⟩ := KeyData.unmarshal_wf data kd len hk
      cases data with
      | nil => simp at h
      | cons next tl =>
        simp only at h
        by_cases h0 : next = 0
        · subst h0
          simp only [if_true] at h
          by_cases hl : (0 :: tl : Bytes).length = len
          · simp only [hl, if_true, Option.some.injEq] at h
            subst h
            refine ⟨by simp, by intro k hk'; simp at hk'; subst hk'; exact wk, ?_⟩
            simp only [marshalSubs, KeyData.marshal_length, ← hlen]; exact hl.symm
          · exfalso; simp only [List.length_cons] at hl; simp at h; exact hl h.1
        · simp only [h0, if_false, f_kd] at h
          by_cases h20 : next.toNat = 20
          case neg => simp [h20] at h
          · simp only [h20, ne_eq, not_true_eq_false, if_false] at h
            cases hr : readSubs fuel ((next :: tl).drop len) with
            | none => rw [hr] at h; cases h
            | some ks =>
              rw [hr] at h
              simp only [Option.some.injEq] at h
              subst h
              obtain ⟨hne, hwf, hml⟩ := readSubs_wf fuel _ ks hr
              refine ⟨by simp, ?_, ?_⟩
              · intro k hk'
                rcases List.mem_cons.mp hk' with rfl | hk'
                · exact wk
                · exact hwf k hk'
              · cases ks with
                | nil => exact absurd rfl hne
                | cons k' ks' =>
                  simp only [marshalSubs, List.length_append, KeyData.marshal_length, hml, List.length_drop, ← hlen]
                  omega

structure ParamsOk (ps : List PolicyParam) (left : Nat) : Prop where
  wf : ∀ p ∈ ps, p.WF
  len : (marshalParams ps).length = left

theorem readParams_wf : ∀ (fuel left : Nat) (buf : Bytes) (ps : List PolicyParam) (rest : Bytes),
    readParams fuel left buf = some (ps, rest) → ParamsOk ps left
  | 0, _, _, _, _, h => by simp [readParams] at h
  | fuel + 1, left, buf, ps, rest, h => by
    simp only [readParams] at h
    by_cases hl : left = 0
    · simp only [hl, if_true, Option.some.injEq, Prod.mk.injEq] at h
      obtain ⟨rfl, _⟩ := h
      exact ⟨by simp, by simp [marshalParams, hl]⟩
    · simp only [hl, if_false] at h
      match buf, h with
      | typ :: vl :: tl, h =>
        simp only at h
        by_cases h1 : tl.length < vl.toNat
        · simp [h1] at h
        · simp only [h1, if_false] at h
          by_cases h2 : left < 2 + vl.toNat
          · simp [h2] at h
          · simp only [h2, if_false] at h
            cases hr : readParams fuel (left - (2 + vl.toNat)) (tl.drop vl.toNat) with
            | none => rw [hr] at h; cases h
            | some pr =>
              obtain ⟨ps', rest'⟩ := pr
              rw [hr] at h
              simp only [Option.some.injEq, Prod.mk.injEq] at h
              obtain ⟨rfl, rfl⟩ := h
              have ih := readParams_wf fuel _ _ ps' rest' hr
              have hvl : (tl.take vl.toNat).length = vl.toNat := by simp; omega
              refine ⟨?_, ?_⟩
              · intro p hp
                rcases List.mem_cons.mp hp with rfl | hp
                · exact ⟨typ.toNat_lt, by simp only [hvl]; exact vl.toNat_lt⟩
                · exact ih.wf p hp
              · rw [marshalParams_cons]
                simp only [List.length_cons, List.length_append, hvl, ih.len]
                omega
      | [], h => simp at h
      | [_], h => simp at h

theorem Payload.unmarshal_wf (typ : Nat) (buf : Bytes) (p : Payload) (rest : Bytes)
    (hu : Payload.unmarshal typ buf = some (p, rest)) : p.WF ∧ p.typ = typ := by
  unfold Payload.unmarshal at hu
  simp only [f_kemac, f_t, f_sp, f_rand, f_randmin] at hu
  by_cases t1 : typ = 1
  · subst t1
    simp only [if_true] at hu
    match buf, hu with
    | nx :: encr :: l0 :: l1 :: tl, hu =>
      simp only at hu
      by_cases he : encr ≠ 0
      · simp [he] at hu
      · simp only [he, if_false] at hu
        by_cases hl : tl.length < be16 l0 l1 + 1
        · simp [hl] at hu
        · simp only [hl, if_false] at hu
          cases hs : readSubs (be16 l0 l1 + 1) (tl.take (be16 l0 l1)) with
          | none => rw [hs] at hu; cases hu
          | some subs =>
            rw [hs] at hu
            simp only at hu
            cases hd : tl.drop (be16 l0 l1) with
            | nil => rw [hd] at hu; cases hu
            | cons mac rest' =>
              rw [hd] at hu
              simp only at hu
              by_cases hm : mac ≠ 0
              · simp [hm] at hu
              · simp only [hm, if_false, Option.some.injEq, Prod.mk.injEq] at hu
                obtain ⟨rfl, rfl⟩ := hu
                obtain ⟨hne, hwf, hml⟩ := readSubs_wf _ _ subs hs
                have : (tl.take (be16 l0 l1)).length = be16 l0 l1 := by simp; omega
                exact ⟨Payload.WF.kemac subs hne hwf (by rw [hml, this]; exact be16_lt _ _), by simp [Payload.typ]⟩
  · simp only [t1, if_false] at hu
    by_cases t5 : typ = 5
    · subst t5
      simp only [if_true] at hu
      match buf, hu with
      | nx :: tt :: b0 :: b1 :: b2 :: b3 :: b4 :: b5 :: b6 :: b7 :: tl, hu =>
        simp only at hu
        by_cases ht : tt ≠ 0
        · simp [ht] at hu
        · simp only [ht, if_false, Option.some.injEq, Prod.mk.injEq] at hu
          obtain ⟨rfl, rfl⟩ := hu
          have h1 := be32_lt b0 b1 b2 b3
          have h2 := be32_lt b4 b5 b6 b7
          exact ⟨Payload.WF.t _ (by omega), by simp [Payload.typ]⟩
    · simp only [t5, if_false] at hu
      by_cases t10 : typ = 10
      · subst t10
        simp only [if_true] at hu
        match buf, hu with
        | nx :: no :: prot :: l0 :: l1 :: tl, hu =>
          simp only at hu
          by_cases hp : prot ≠ 0
          · simp [hp] at hu
          · simp only [hp, if_false] at hu
            cases hr : readParams (be16 l0 l1 + 1) (be16 l0 l1) tl with
            | none => rw [hr] at hu; cases hu
            | some pr =>
              obtain ⟨ps, rest'⟩ := pr
              rw [hr] at hu
              simp only [Option.some.injEq, Prod.mk.injEq] at hu
              obtain ⟨rfl, rfl⟩ := hu
              have ok := readParams_wf _ _ _ ps rest' hr
              exact ⟨Payload.WF.sp _ ps no.toNat_lt ok.wf (by rw [ok.len]; exact be16_lt _ _), by simp [Payload.typ]⟩
      · simp only [t10, if_false] at hu
        by_cases t11 : typ = 11
        · subst t11
          simp only [if_true] at hu
          match buf, hu with
          | nx :: dl :: tl, hu =>
            simp only at hu
            by_cases h16 : dl.toNat < 16
            · simp [h16] at hu
            · simp only [h16, if_false] at hu
              by_cases hl : tl.length < dl.toNat
              · simp [hl] at hu
              · simp only [hl, if_false, Option.some.injEq, Prod.mk.injEq] at hu
                obtain ⟨rfl, rfl⟩ := hu
                have : (tl.take dl.toNat).length = dl.toNat := by simp; omega
                exact ⟨Payload.WF.rand _ (by rw [this]; omega) (by rw [this]; exact dl.toNat_lt), by simp [Payload.typ]⟩
        · simp [t11] at hu

theorem readPayloads_wf : ∀ (fuel typ : Nat) (buf : Bytes) (ps : List Payload) (tail : Bytes),
    readPayloads fuel typ buf = some (ps, tail) → ∀ p ∈ ps, p.WF
  | _, 0, buf, ps, tail, h => by
    simp only [readPayloads, Option.some.injEq, Prod.mk.injEq] at h
    obtain ⟨rfl, _⟩ := h; simp
  | 0, _ + 1, _, _, _, h => by simp [readPayloads] at h
  | fuel + 1, typ + 1, buf, ps, tail, h => by
    simp only [readPayloads] at h
    cases hp : Payload.unmarshal (typ + 1) buf with
    | none => rw [hp] at h; cases h
    | some pr =>
      obtain ⟨p, rest⟩ := pr
      rw [hp] at h
      cases buf with
      | nil => simp at h
      | cons next tl =>
        simp only at h
        cases hr : readPayloads fuel next.toNat rest with
        | none => rw [hr] at h; cases h
        | some pr2 =>
          obtain ⟨ps', tail'⟩ := pr2
          rw [hr] at h
          simp only [Option.some.injEq, Prod.mk.injEq] at h
          obtain ⟨rfl, rfl⟩ := h
          have ih := readPayloads_wf fuel _ rest ps' tail' hr
          intro q hq
          rcases List.mem_cons.mp hq with rfl | hq
          · exact (Payload.unmarshal_wf _ _ _ _ hp).1
          · exact ih q hq

/-- **Whatever `Message.Unmarshal` accepts is a well-formed message.** -/
theorem Message.unmarshal_wf (buf : Bytes) (m : Message) (h : Message.unmarshal buf = some m) : m.WF := by
  simp only [Message.unmarshal] at h
  cases hh : Header.unmarshal buf with
  | none => rw [hh] at h; cases h
  | some pr =>
    obtain ⟨hd, next, rest⟩ := pr
    rw [hh] at h
    simp only at h
    cases hp : readPayloads (rest.length + 1) next rest with
    | none => rw [hp] at h; cases h
    | some pr2 =>
      obtain ⟨ps, tail⟩ := pr2
      rw [hp] at h
      have hw := (Header.unmarshal_wf buf hd next rest hh).1
      have hpw := readPayloads_wf _ _ _ ps tail hp
      have : m = { header := hd, payloads := ps } := by
        simp only at h
        split at h
        · split at h
          · cases h
          · simp only [Option.some.injEq] at h; exact h.symm
        · simp only [Option.some.injEq] at h; exact h.symm
      subst this
      exact ⟨hw, hpw⟩

/-- parse → print → parse is the identity: re-encoding an accepted message and decoding it again
gives the same message (trailing padding, the only non-canonical part of the wire form, is dropped) -/
theorem Message.unmarshal_marshal_unmarshal (buf : Bytes) (m : Message) (h : Message.unmarshal buf = some m) :
    Message.unmarshal m.marshal = some m :=
  Message.unmarshal_marshal m (Message.unmarshal_wf buf m h)

end Rtsp.Mikey
