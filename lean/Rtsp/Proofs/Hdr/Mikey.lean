import Rtsp.Model.Mikey
set_option linter.unusedSimpArgs false
/-
MIKEY: `Message.unmarshal (Message.marshal m) = some m` for every well-formed message.
-/
namespace Rtsp.Mikey
open Rtsp.Facts

@[simp] theorem f_kemac : Hdr.payloadTypeKEMAC = 1 := rfl
@[simp] theorem f_t : Hdr.payloadTypeT = 5 := rfl
@[simp] theorem f_sp : Hdr.payloadTypeSP = 10 := rfl
@[simp] theorem f_rand : Hdr.payloadTypeRAND = 11 := rfl
@[simp] theorem f_kd : Hdr.payloadTypeKeyData = 20 := rfl
@[simp] theorem f_tek : Hdr.keyDataTypeTEK = 2 := rfl
@[simp] theorem f_spi : Hdr.keyDataKVSPI = 1 := rfl
@[simp] theorem f_randmin : Hdr.randMinLen = 16 := rfl
@[simp] theorem f_cs : Hdr.csEntrySize = 9 := rfl
@[simp] theorem f_ver : Hdr.mikeyVersion = 1 := rfl

theorem toNat_ofNat_lt {n : Nat} (h : n < 256) : (UInt8.ofNat n).toNat = n := by
  simp [UInt8.toNat_ofNat', Nat.mod_eq_of_lt h]

theorem be32_put32 {n : Nat} (h : n < 2 ^ 32) :
    be32 (UInt8.ofNat (n / 16777216 % 256)) (UInt8.ofNat (n / 65536 % 256)) (UInt8.ofNat (n / 256 % 256)) (UInt8.ofNat (n % 256)) = n := by
  simp only [be32, UInt8.toNat_ofNat']
  omega

theorem be16_put16 {n : Nat} (h : n < 2 ^ 16) : be16 (UInt8.ofNat (n / 256 % 256)) (UInt8.ofNat (n % 256)) = n := by
  simp only [be16, UInt8.toNat_ofNat']
  omega

/-! ### header -/

structure SrtpIdEntry.WF (e : SrtpIdEntry) : Prop where
  policyNo : e.policyNo < 256
  ssrc : e.ssrc < 2 ^ 32
  roc : e.roc < 2 ^ 32

structure Header.WF (h : Header) : Prop where
  version : h.version = 1
  dataType : h.dataType = 0
  v : h.v = false
  prfFunc : h.prfFunc = 0
  csbId : h.csbId < 2 ^ 32
  mapType : h.csIdMapType = 0
  count : h.csIdMapInfo.length < 256
  entries : ∀ e ∈ h.csIdMapInfo, e.WF

def encEntry (e : SrtpIdEntry) : Bytes := UInt8.ofNat e.policyNo :: (put32 e.ssrc ++ put32 e.roc)

theorem encEntry_length (e : SrtpIdEntry) : (encEntry e).length = 9 := by simp [encEntry, put32]

theorem flatMap_encEntry_length (es : List SrtpIdEntry) : (es.flatMap encEntry).length = es.length * 9 := by
  induction es with
  | nil => rfl
  | cons e es ih => simp [List.flatMap_cons, encEntry_length, ih]; omega

theorem readEntries_enc (es : List SrtpIdEntry) (h : ∀ e ∈ es, e.WF) (rest : Bytes) :
    readEntries es.length (es.flatMap encEntry ++ rest) = some (es, rest) := by
  induction es with
  | nil => rfl
  | cons e es ih =>
    have we := h e (by simp)
    have ih' := ih (fun x hx => h x (by simp [hx]))
    obtain ⟨p, s, r⟩ := e
    simp only [List.flatMap_cons, encEntry, put32, List.cons_append, List.length_cons, readEntries, List.nil_append,
      List.append_assoc, ih']
    have h1 := be32_put32 we.ssrc
    have h2 := be32_put32 we.roc
    have h3 := toNat_ofNat_lt we.policyNo
    simp only at h1 h2 h3
    simp [h1, h2, h3]

theorem Header.unmarshal_marshal (h : Header) (wf : h.WF) (next : Nat) (hn : next < 256) (rest : Bytes) :
    Header.unmarshal (h.marshal next ++ rest) = some (h, next, rest) := by
  obtain ⟨ver, dt, v, prf, csb, mt, info⟩ := h
  have w1 := wf.version; have w2 := wf.dataType; have w3 := wf.v; have w4 := wf.prfFunc; have w6 := wf.mapType
  simp only at w1 w2 w3 w4 w6; subst w1 w2 w3 w4 w6
  have hc := be32_put32 wf.csbId
  have hcount := toNat_ofNat_lt wf.count
  have hre := readEntries_enc info wf.entries rest
  have hlen := flatMap_encEntry_length info
  simp only at hc hcount
  have hm : Header.marshal { csbId := csb, csIdMapInfo := info } next =
      [UInt8.ofNat 1, UInt8.ofNat 0, UInt8.ofNat next, UInt8.ofNat ((if false then 128 else 0) ||| (0 % 256))] ++ put32 csb ++
      [UInt8.ofNat info.length, UInt8.ofNat 0] ++ info.flatMap encEntry := rfl
  rw [hm]
  simp only [put32, List.cons_append, List.nil_append, List.append_assoc, Header.unmarshal]
  simp only [hcount, hc, toNat_ofNat_lt hn, f_ver, f_cs, hre]
  simp [hlen]

/-! ### key data sub-payload -/

structure KeyData.WF (k : KeyData) : Prop where
  type : k.type = 2
  len : k.keyData.length < 65536
  kv : (k.kv = 0 ∧ k.spi = []) ∨ (k.kv = 1 ∧ k.spi.length < 256)

theorem take_append_left {α} (a b : List α) : (a ++ b).take a.length = a := List.take_left' rfl
theorem drop_append_left {α} (a b : List α) : (a ++ b).drop a.length = b := List.drop_left' rfl

theorem KeyData.marshal_length (k : KeyData) (next : Nat) : (k.marshal next).length = k.marshalSize := by
  simp only [KeyData.marshal, KeyData.marshalSize, put16, f_spi]
  by_cases h : k.kv = 1 <;> simp [h] <;> omega

theorem KeyData.unmarshal_marshal (k : KeyData) (wf : k.WF) (next : Nat) (rest : Bytes) :
    KeyData.unmarshal (k.marshal next ++ rest) = some (k, k.marshalSize) := by
  obtain ⟨ty, kv, kd, spi⟩ := k
  have w1 := wf.type; simp only at w1; subst w1
  have hl := be16_put16 wf.len
  simp only at hl
  rcases wf.kv with ⟨h1, h2⟩ | ⟨h1, h2⟩
  · simp only at h1 h2; subst h1 h2
    simp only [KeyData.marshal, KeyData.marshalSize, put16, f_spi, List.cons_append, List.nil_append, List.append_assoc,
      KeyData.unmarshal, f_tek]
    have e1 : (UInt8.ofNat (2 % 256 * 16 % 256 ||| 0 % 256)).toNat / 16 = 2 := by decide
    have e2 : (UInt8.ofNat (2 % 256 * 16 % 256 ||| 0 % 256)).toNat % 16 = 0 := by decide
    simp only [e1, e2, hl]
    simp [take_append_left]
  · simp only at h1 h2; subst h1
    have hs := toNat_ofNat_lt h2
    simp only [KeyData.marshal, KeyData.marshalSize, put16, f_spi, List.cons_append, List.nil_append, List.append_assoc,
      KeyData.unmarshal, f_tek]
    have e1 : (UInt8.ofNat (2 % 256 * 16 % 256 ||| 1 % 256)).toNat / 16 = 2 := by decide
    have e2 : (UInt8.ofNat (2 % 256 * 16 % 256 ||| 1 % 256)).toNat % 16 = 1 := by decide
    simp only [e1, e2, hl]
    simp [take_append_left, drop_append_left, hs]
    omega

/-! ### KEMAC sub-payload list -/

theorem marshalSubs_length_ge (subs : List KeyData) : subs.length ≤ (marshalSubs subs).length := by
  induction subs with
  | nil => simp [marshalSubs]
  | cons k ks ih =>
    cases ks with
    | nil => simp [marshalSubs, KeyData.marshal_length, KeyData.marshalSize]; omega
    | cons k' ks' =>
      simp only [marshalSubs, List.length_append, KeyData.marshal_length, List.length_cons] at ih ⊢
      simp only [KeyData.marshalSize]; omega

theorem marshalSubs_length (subs : List KeyData) :
    (marshalSubs subs).length = subs.foldl (fun n k => n + k.marshalSize) 0 := by
  have gen : ∀ (l : List KeyData) (a : Nat), l.foldl (fun n k => n + k.marshalSize) a = a + l.foldl (fun n k => n + k.marshalSize) 0 := by
    intro l
    induction l with
    | nil => simp
    | cons k ks ih => intro a; simp only [List.foldl_cons]; rw [ih (a + k.marshalSize), ih (0 + k.marshalSize)]; omega
  induction subs with
  | nil => simp [marshalSubs]
  | cons k ks ih =>
    cases ks with
    | nil => simp [marshalSubs, KeyData.marshal_length]
    | cons k' ks' =>
      simp only [marshalSubs, List.length_append, KeyData.marshal_length, List.foldl_cons] at ih ⊢
      rw [gen _ (0 + k.marshalSize + k'.marshalSize), ih, gen _ (0 + k'.marshalSize)]; omega

theorem readSubs_marshal : ∀ (subs : List KeyData), subs ≠ [] → (∀ k ∈ subs, k.WF) → ∀ fuel, subs.length ≤ fuel →
    readSubs fuel (marshalSubs subs) = some subs
  | [], h, _, _, _ => absurd rfl h
  | [k], _, wf, fuel, hf => by
    cases fuel with
    | zero => simp at hf
    | succ fuel =>
      have hu := KeyData.unmarshal_marshal k (wf k (by simp)) 0 []
      simp only [List.append_nil] at hu
      have hlen := KeyData.marshal_length k 0
      simp only [marshalSubs, readSubs, hu]
      have hhead : ∃ t, k.marshal 0 = (0 : UInt8) :: t := ⟨_, rfl⟩
      obtain ⟨t, ht⟩ := hhead
      rw [ht] at hlen ⊢
      simp [hlen]
  | k :: k' :: ks, _, wf, fuel, hf => by
    cases fuel with
    | zero => simp at hf
    | succ fuel =>
      have hu := KeyData.unmarshal_marshal k (wf k (by simp)) 20 (marshalSubs (k' :: ks))
      have ih := readSubs_marshal (k' :: ks) (by simp) (fun x hx => wf x (by simp [hx])) fuel (by simp at hf ⊢; omega)
      have hlen := KeyData.marshal_length k 20
      simp only [marshalSubs, f_kd, readSubs, hu]
      have hdrop : (k.marshal 20 ++ marshalSubs (k' :: ks)).drop k.marshalSize = marshalSubs (k' :: ks) := by
        rw [← hlen]; exact drop_append_left _ _
      have hhead : ∃ t, k.marshal 20 = (20 : UInt8) :: t := ⟨_, rfl⟩
      obtain ⟨t, ht⟩ := hhead
      rw [ht] at hdrop ⊢
      simp only [List.cons_append] at hdrop ⊢
      simp [hdrop, ih]

/-! ### SP policy params -/

structure PolicyParam.WF (p : PolicyParam) : Prop where
  type : p.type < 256
  len : p.value.length < 256

theorem marshalParams_cons (p : PolicyParam) (ps : List PolicyParam) :
    marshalParams (p :: ps) = UInt8.ofNat p.type :: UInt8.ofNat p.value.length :: (p.value ++ marshalParams ps) := by
  simp [marshalParams, List.flatMap_cons]

theorem readParams_marshal : ∀ (ps : List PolicyParam), (∀ p ∈ ps, p.WF) → ∀ (fuel : Nat) (rest : Bytes), ps.length < fuel →
    readParams fuel (marshalParams ps).length (marshalParams ps ++ rest) = some (ps, rest)
  | [], _, fuel, rest, hf => by
    cases fuel with
    | zero => simp at hf
    | succ fuel => simp [marshalParams, readParams]
  | p :: ps, wf, fuel, rest, hf => by
    cases fuel with
    | zero => simp at hf
    | succ fuel =>
      have wp := wf p (by simp)
      have ih := readParams_marshal ps (fun x hx => wf x (by simp [hx])) fuel rest (by simp at hf; omega)
      have hty := toNat_ofNat_lt wp.type
      have hvl := toNat_ofNat_lt wp.len
      obtain ⟨ty, val⟩ := p
      simp only at hty hvl
      rw [marshalParams_cons]
      simp only [List.length_cons, List.length_append, List.cons_append, List.append_assoc, readParams, hvl, hty]
      have h1 : ¬ (val.length + (marshalParams ps).length + 1 + 1 = 0) := by omega
      have h2 : ¬ ((val ++ (marshalParams ps ++ rest)).length < val.length) := by simp
      have h3 : ¬ (val.length + (marshalParams ps).length + 1 + 1 < 2 + val.length) := by omega
      have h4 : val.length + (marshalParams ps).length + 1 + 1 - (2 + val.length) = (marshalParams ps).length := by omega
      simp only [h1, h2, h3, h4, if_false, drop_append_left, take_append_left, ih]

end Rtsp.Mikey
