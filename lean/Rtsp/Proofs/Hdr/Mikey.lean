import Rtsp.Model.Mikey
set_option linter.unusedSimpArgs false
/-
MIKEY: `Message.unmarshal (Message.marshal m) = some m` for every well-formed message.
-/
namespace Rtsp.Mikey
open Rtsp.Facts

@[simp] theorem f_kemac : Hdr.payloadTypeKEMAC = 1 := rfl
@[simp] theorem f_t : Hdr.payloadTypeT = 5 := rfl
@[simp] theorem f_sp : Hdr.payloadTypeSP = 10 := rfl
@[simp] theorem f_rand : Hdr.payloadTypeRAND = 11 := rfl
@[simp] theorem f_kd : Hdr.payloadTypeKeyData = 20 := rfl
@[simp] theorem f_tek : Hdr.keyDataTypeTEK = 2 := rfl
@[simp] theorem f_spi : Hdr.keyDataKVSPI = 1 := rfl
@[simp] theorem f_randmin : Hdr.randMinLen = 16 := rfl
@[simp] theorem f_cs : Hdr.csEntrySize = 9 := rfl
@[simp] theorem f_ver : Hdr.mikeyVersion = 1 := rfl

theorem toNat_ofNat_lt {n : Nat} (h : n < 256) : (UInt8.ofNat n).toNat = n := by
  simp [UInt8.toNat_ofNat', Nat.mod_eq_of_lt h]

theorem be32_put32 {n : Nat} (h : n < 2 ^ 32) :
    be32 (UInt8.ofNat (n / 16777216 % 256)) (UInt8.ofNat (n / 65536 % 256)) (UInt8.ofNat (n / 256 % 256)) (UInt8.ofNat (n % 256)) = n := by
  simp only [be32, UInt8.toNat_ofNat']
  omega

theorem be16_put16 {n : Nat} (h : n < 2 ^ 16) : be16 (UInt8.ofNat (n / 256 % 256)) (UInt8.ofNat (n % 256)) = n := by
  simp only [be16, UInt8.toNat_ofNat']
  omega

/-! ### header -/

structure SrtpIdEntry.WF (e : SrtpIdEntry) : Prop where
  policyNo : e.policyNo < 256
  ssrc : e.ssrc < 2 ^ 32
  roc : e.roc < 2 ^ 32

structure Header.WF (h : Header) : Prop where
  version : h.version = 1
  dataType : h.dataType = 0
  v : h.v = false
  prfFunc : h.prfFunc = 0
  csbId : h.csbId < 2 ^ 32
  mapType : h.csIdMapType = 0
  count : h.csIdMapInfo.length < 256
  entries : ∀ e ∈ h.csIdMapInfo, e.WF

def encEntry (e : SrtpIdEntry) : Bytes := UInt8.ofNat e.policyNo :: (put32 e.ssrc ++ put32 e.roc)

theorem encEntry_length (e : SrtpIdEntry) : (encEntry e).length = 9 := by simp [encEntry, put32]

theorem flatMap_encEntry_length (es : List SrtpIdEntry) : (es.flatMap encEntry).length = es.length * 9 := by
  induction es with
  | nil => rfl
  | cons e es ih => simp [List.flatMap_cons, encEntry_length, ih]; omega

theorem readEntries_enc (es : List SrtpIdEntry) (h : ∀ e ∈ es, e.WF) (rest : Bytes) :
    readEntries es.length (es.flatMap encEntry ++ rest) = some (es, rest) := by
  induction es with
  | nil => rfl
  | cons e es ih =>
    have we := h e (by simp)
    have ih' := ih (fun x hx => h x (by simp [hx]))
    obtain ⟨p, s, r⟩ := e
    simp only [List.flatMap_cons, encEntry, put32, List.cons_append, List.length_cons, readEntries, List.nil_append,
      List.append_assoc, ih']
    have h1 := be32_put32 we.ssrc
    have h2 := be32_put32 we.roc
    have h3 := toNat_ofNat_lt we.policyNo
    simp only at h1 h2 h3
    simp [h1, h2, h3]

theorem Header.unmarshal_marshal (h : Header) (wf : h.WF) (next : Nat) (hn : next < 256) (rest : Bytes) :
    Header.unmarshal (h.marshal next ++ rest) = some (h, next, rest) := by
  obtain ⟨ver, dt, v, prf, csb, mt, info⟩ := h
  have w1 := wf.version; have w2 := wf.dataType; have w3 := wf.v; have w4 := wf.prfFunc; have w6 := wf.mapType
  simp only at w1 w2 w3 w4 w6; subst w1 w2 w3 w4 w6
  have hc := be32_put32 wf.csbId
  have hcount := toNat_ofNat_lt wf.count
  have hre := readEntries_enc info wf.entries rest
  have hlen := flatMap_encEntry_length info
  simp only at hc hcount
  have hm : Header.marshal { csbId := csb, csIdMapInfo := info } next =
      [UInt8.ofNat 1, UInt8.ofNat 0, UInt8.ofNat next, UInt8.ofNat ((if false then 128 else 0) ||| (0 % 256))] ++ put32 csb ++
      [UInt8.ofNat info.length, UInt8.ofNat 0] ++ info.flatMap encEntry := rfl
  rw [hm]
  simp only [put32, List.cons_append, List.nil_append, List.append_assoc, Header.unmarshal]
  simp only [hcount, hc, toNat_ofNat_lt hn, f_ver, f_cs, hre]
  simp [hlen]

/-! ### key data sub-payload -/

structure KeyData.WF (k : KeyData) : Prop where
  type : k.type = 2
  len : k.keyData.length < 65536
  kv : (k.kv = 0 ∧ k.spi = []) ∨ (k.kv = 1 ∧ k.spi.length < 256)

theorem take_append_left {α} (a b : List α) : (a ++ b).take a.length = a := List.take_left' rfl
theorem drop_append_left {α} (a b : List α) : (a ++ b).drop a.length = b := List.drop_left' rfl

theorem KeyData.marshal_length (k : KeyData) (next : Nat) : (k.marshal next).length = k.marshalSize := by
  simp only [KeyData.marshal, KeyData.marshalSize, put16, f_spi]
  by_cases h : k.kv = 1 <;> simp [h] <;> omega

theorem KeyData.unmarshal_marshal (k : KeyData) (wf : k.WF) (next : Nat) (rest : Bytes) :
    KeyData.unmarshal (k.marshal next ++ rest) = some (k, k.marshalSize) := by
  obtain ⟨ty, kv, kd, spi⟩ := k
  have w1 := wf.type; simp only at w1; subst w1
  have hl := be16_put16 wf.len
  simp only at hl
  rcases wf.kv with ⟨h1, h2⟩ | ⟨h1, h2⟩
  · simp only at h1 h2; subst h1 h2
    simp only [KeyData.marshal, KeyData.marshalSize, put16, f_spi, List.cons_append, List.nil_append, List.append_assoc,
      KeyData.unmarshal, f_tek]
    have e1 : (UInt8.ofNat (2 % 256 * 16 % 256 ||| 0 % 256)).toNat / 16 = 2 := by decide
    have e2 : (UInt8.ofNat (2 % 256 * 16 % 256 ||| 0 % 256)).toNat % 16 = 0 := by decide
    simp only [e1, e2, hl]
    simp [take_append_left]
  · simp only at h1 h2; subst h1
    have hs := toNat_ofNat_lt h2
    simp only [KeyData.marshal, KeyData.marshalSize, put16, f_spi, List.cons_append, List.nil_append, List.append_assoc,
      KeyData.unmarshal, f_tek]
    have e1 : (UInt8.ofNat (2 % 256 * 16 % 256 ||| 1 % 256)).toNat / 16 = 2 := by decide
    have e2 : (UInt8.ofNat (2 % 256 * 16 % 256 ||| 1 % 256)).toNat % 16 = 1 := by decide
    simp only [e1, e2, hl]
    simp [take_append_left, drop_append_left, hs]
    omega

/-! ### KEMAC sub-payload list -/

theorem marshalSubs_length_ge (subs : List KeyData) : subs.length ≤ (marshalSubs subs).length := by
  induction subs with
  | nil => simp [marshalSubs]
  | cons k ks ih =>
    cases ks with
    | nil => simp [marshalSubs, KeyData.marshal_length, KeyData.marshalSize]; omega
    | cons k' ks' =>
      simp only [marshalSubs, List.length_append, KeyData.marshal_length, List.length_cons] at ih ⊢
      simp only [KeyData.marshalSize]; omega

theorem marshalSubs_length (subs : List KeyData) :
    (marshalSubs subs).length = subs.foldl (fun n k => n + k.marshalSize) 0 := by
  have gen : ∀ (l : List KeyData) (a : Nat), l.foldl (fun n k => n + k.marshalSize) a = a + l.foldl (fun n k => n + k.marshalSize) 0 := by
    intro l
    induction l with
    | nil => simp
    | cons k ks ih => intro a; simp only [List.foldl_cons]; rw [ih (a + k.marshalSize), ih (0 + k.marshalSize)]; omega
  induction subs with
  | nil => simp [marshalSubs]
  | cons k ks ih =>
    cases ks with
    | nil => simp [marshalSubs, KeyData.marshal_length]
    | cons k' ks' =>
      simp only [marshalSubs, List.length_append, KeyData.marshal_length, List.foldl_cons] at ih ⊢
      rw [gen _ (0 + k.marshalSize + k'.marshalSize), ih, gen _ (0 + k'.marshalSize)]; omega

theorem readSubs_last (fuel : Nat) (t : Bytes) (k : KeyData)
    (hu : KeyData.unmarshal (0 :: t) = some (k, (0 :: t : Bytes).length)) : readSubs (fuel + 1) (0 :: t) = some [k] := by
  simp [readSubs, hu]

theorem readSubs_more (fuel : Nat) (t : Bytes) (k : KeyData) (n : Nat) (ks : List KeyData)
    (hu : KeyData.unmarshal (20 :: t) = some (k, n)) (hr : readSubs fuel ((20 :: t : Bytes).drop n) = some ks) :
    readSubs (fuel + 1) (20 :: t) = some (k :: ks) := by
  simp only [readSubs, hu, hr, f_kd]
  simp

theorem readSubs_marshal : ∀ (subs : List KeyData), subs ≠ [] → (∀ k ∈ subs, k.WF) → ∀ fuel, subs.length ≤ fuel →
    readSubs fuel (marshalSubs subs) = some subs
  | [], h, _, _, _ => absurd rfl h
  | [k], _, wf, fuel, hf => by
    cases fuel with
    | zero => simp at hf
    | succ fuel =>
      have hu := KeyData.unmarshal_marshal k (wf k (by simp)) 0 []
      simp only [List.append_nil] at hu
      have hlen := KeyData.marshal_length k 0
      have hhead : ∃ t, k.marshal 0 = (0 : UInt8) :: t := ⟨_, rfl⟩
      obtain ⟨t, ht⟩ := hhead
      simp only [marshalSubs]
      rw [ht] at hlen hu ⊢
      exact readSubs_last fuel t k (by rw [hu, hlen])
  | k :: k' :: ks, _, wf, fuel, hf => by
    cases fuel with
    | zero => simp at hf
    | succ fuel =>
      have hu := KeyData.unmarshal_marshal k (wf k (by simp)) 20 (marshalSubs (k' :: ks))
      have ih := readSubs_marshal (k' :: ks) (by simp) (fun x hx => wf x (by simp [hx])) fuel (by simp at hf ⊢; omega)
      have hlen := KeyData.marshal_length k 20
      have hdrop : (k.marshal 20 ++ marshalSubs (k' :: ks)).drop k.marshalSize = marshalSubs (k' :: ks) := by
        rw [← hlen]; exact drop_append_left _ _
      have hhead : ∃ t, k.marshal 20 = (20 : UInt8) :: t := ⟨_, rfl⟩
      obtain ⟨t, ht⟩ := hhead
      simp only [marshalSubs, f_kd]
      rw [ht] at hdrop hu ⊢
      exact readSubs_more fuel _ k _ _ hu (by have h' := ih; rw [← hdrop] at h'; exact h')

/-! ### SP policy params -/

structure PolicyParam.WF (p : PolicyParam) : Prop where
  type : p.type < 256
  len : p.value.length < 256

theorem marshalParams_cons (p : PolicyParam) (ps : List PolicyParam) :
    marshalParams (p :: ps) = UInt8.ofNat p.type :: UInt8.ofNat p.value.length :: (p.value ++ marshalParams ps) := by
  simp [marshalParams, List.flatMap_cons]

theorem readParams_marshal : ∀ (ps : List PolicyParam), (∀ p ∈ ps, p.WF) → ∀ (fuel : Nat) (rest : Bytes), ps.length < fuel →
    readParams fuel (marshalParams ps).length (marshalParams ps ++ rest) = some (ps, rest)
  | [], _, fuel, rest, hf => by
    cases fuel with
    | zero => simp at hf
    | succ fuel => simp [marshalParams, readParams]
  | p :: ps, wf, fuel, rest, hf => by
    cases fuel with
    | zero => simp at hf
    | succ fuel =>
      have wp := wf p (by simp)
      have ih := readParams_marshal ps (fun x hx => wf x (by simp [hx])) fuel rest (by simp at hf; omega)
      have hty := toNat_ofNat_lt wp.type
      have hvl := toNat_ofNat_lt wp.len
      obtain ⟨ty, val⟩ := p
      simp only at hty hvl
      rw [marshalParams_cons]
      simp only [List.length_cons, List.length_append, List.cons_append, List.append_assoc, readParams, hvl, hty]
      have h1 : ¬ (val.length + (marshalParams ps).length + 1 + 1 = 0) := by omega
      have h2 : ¬ ((val ++ (marshalParams ps ++ rest)).length < val.length) := by simp
      have h3 : ¬ (val.length + (marshalParams ps).length + 1 + 1 < 2 + val.length) := by omega
      have h4 : val.length + (marshalParams ps).length + 1 + 1 - (2 + val.length) = (marshalParams ps).length := by omega
      simp only [h1, h2, h3, h4, if_false, drop_append_left, take_append_left, ih]
      simp

/-! ### payloads -/

/-- The values `Marshal` can express and `Unmarshal` accepts: fixed algorithm/type bytes are the
only supported ones, lengths fit their wire fields, RAND holds at least 16 bytes, KEMAC at least
one key. -/
inductive Payload.WF : Payload → Prop
  | kemac (subs : List KeyData) (hne : subs ≠ []) (hwf : ∀ k ∈ subs, k.WF) (hlen : (marshalSubs subs).length < 65536) :
      Payload.WF (.kemac 0 subs 0)
  | t (tv : Nat) (h : tv < 2 ^ 64) : Payload.WF (.t 0 tv)
  | sp (no : Nat) (ps : List PolicyParam) (hno : no < 256) (hwf : ∀ p ∈ ps, p.WF) (hlen : (marshalParams ps).length < 65536) :
      Payload.WF (.sp no 0 ps)
  | rand (d : Bytes) (h1 : 16 ≤ d.length) (h2 : d.length < 256) : Payload.WF (.rand d)

theorem marshalParams_length_ge (ps : List PolicyParam) : ps.length ≤ (marshalParams ps).length := by
  induction ps with
  | nil => simp [marshalParams]
  | cons p ps ih => rw [marshalParams_cons]; simp; omega

theorem Payload.unmarshal_marshal (p : Payload) (wf : p.WF) (next : Nat) (rest : Bytes) :
    Payload.unmarshal p.typ (p.marshal next ++ rest) = some (p, rest) := by
  cases wf with
  | kemac subs hne hwf hlen =>
    have hL := marshalSubs_length subs
    have hb := be16_put16 (n := (marshalSubs subs).length) hlen
    have hrs := readSubs_marshal subs hne hwf ((marshalSubs subs).length + 1) (by have := marshalSubs_length_ge subs; omega)
    simp only [Payload.typ, Payload.marshal, ← hL, put16, f_kemac, Payload.unmarshal, List.cons_append, List.nil_append,
      List.append_assoc, if_true, hb]
    have e0 : ((UInt8.ofNat 0) ≠ 0) = False := by decide
    simp only [e0, if_false, take_append_left, drop_append_left, hrs]
    simp
  | t tv h =>
    have h1 := be32_put32 (n := tv / 4294967296) (by omega)
    have h2 := be32_put32 (n := tv % 4294967296) (by omega)
    simp only [Payload.typ, Payload.marshal, put32, f_t, f_kemac, Payload.unmarshal, List.cons_append, List.nil_append]
    have e0 : ((UInt8.ofNat 0) ≠ 0) = False := by decide
    simp only [e0, h1, h2]
    simp
    omega
  | sp no ps hno hwf hlen =>
    have hb := be16_put16 (n := (marshalParams ps).length) hlen
    have hrp := readParams_marshal ps hwf ((marshalParams ps).length + 1) rest (by have := marshalParams_length_ge ps; omega)
    have hn := toNat_ofNat_lt hno
    simp only [Payload.typ, Payload.marshal, put16, f_sp, f_t, f_kemac, Payload.unmarshal, List.cons_append, List.nil_append,
      List.append_assoc, hb, hrp, hn]
    have e0 : ((UInt8.ofNat 0) ≠ 0) = False := by decide
    simp [e0]
  | rand d h1 h2 =>
    have hl := toNat_ofNat_lt h2
    simp only [Payload.typ, Payload.marshal, f_rand, f_sp, f_t, f_kemac, f_randmin, Payload.unmarshal, List.cons_append,
      List.nil_append, hl, take_append_left, drop_append_left]
    have : ¬ (d.length < 16) := by omega
    simp [this]

theorem Payload.typ_pos (p : Payload) : ∃ t, p.typ = t + 1 ∧ p.typ < 256 := by
  cases p <;> simp [Payload.typ]

theorem Payload.marshal_head (p : Payload) (next : Nat) : ∃ t, p.marshal next = UInt8.ofNat next :: t := by
  cases p <;> simp [Payload.marshal]

def firstTyp : List Payload → Nat
  | [] => 0
  | p :: _ => p.typ

theorem firstTyp_lt (ps : List Payload) : firstTyp ps < 256 := by
  cases ps with
  | nil => simp [firstTyp]
  | cons p _ => obtain ⟨_, _, h⟩ := p.typ_pos; exact h

theorem marshalPayloads_cons (p : Payload) (ps : List Payload) :
    marshalPayloads (p :: ps) = p.marshal (firstTyp ps) ++ marshalPayloads ps := by
  cases ps with
  | nil => simp [marshalPayloads, firstTyp]
  | cons q qs => simp [marshalPayloads, firstTyp]

theorem readPayloads_step (fuel t : Nat) (next : Nat) (hn : next < 256) (b : Bytes) (p : Payload) (rest : Bytes) (ps : List Payload) (tail : Bytes)
    (hu : Payload.unmarshal (t + 1) (UInt8.ofNat next :: b) = some (p, rest))
    (hr : readPayloads fuel next rest = some (ps, tail)) :
    readPayloads (fuel + 1) (t + 1) (UInt8.ofNat next :: b) = some (p :: ps, tail) := by
  simp only [readPayloads, hu, toNat_ofNat_lt hn, hr]

theorem readPayloads_marshal : ∀ (ps : List Payload), (∀ p ∈ ps, p.WF) → ∀ (fuel : Nat) (tail : Bytes), ps.length ≤ fuel →
    readPayloads fuel (firstTyp ps) (marshalPayloads ps ++ tail) = some (ps, tail)
  | [], _, fuel, tail, _ => by cases fuel <;> simp [firstTyp, marshalPayloads, readPayloads]
  | p :: ps, wf, fuel, tail, hf => by
    cases fuel with
    | zero => simp at hf
    | succ fuel =>
      have ih := readPayloads_marshal ps (fun x hx => wf x (by simp [hx])) fuel tail (by simp at hf; omega)
      have hu := Payload.unmarshal_marshal p (wf p (by simp)) (firstTyp ps) (marshalPayloads ps ++ tail)
      obtain ⟨t, ht, _⟩ := p.typ_pos
      obtain ⟨b, hb⟩ := p.marshal_head (firstTyp ps)
      rw [marshalPayloads_cons, List.append_assoc]
      show readPayloads (fuel + 1) p.typ _ = _
      rw [ht] at hu ⊢
      rw [hb] at hu ⊢
      exact readPayloads_step fuel t _ (firstTyp_lt ps) _ p _ ps tail hu ih

theorem Payload.marshal_length_ge (p : Payload) (next : Nat) : 2 ≤ (p.marshal next).length := by
  cases p <;> simp [Payload.marshal] <;> omega

theorem marshalPayloads_length_ge (ps : List Payload) : ps.length ≤ (marshalPayloads ps).length := by
  induction ps with
  | nil => simp [marshalPayloads]
  | cons p ps ih =>
    rw [marshalPayloads_cons]
    have := p.marshal_length_ge (firstTyp ps)
    simp only [List.length_cons, List.length_append]; omega

/-! ### message -/

structure Message.WF (m : Message) : Prop where
  header : m.header.WF
  payloads : ∀ p ∈ m.payloads, p.WF

/-- **MIKEY round trip** -/
theorem Message.unmarshal_marshal (m : Message) (wf : m.WF) : Message.unmarshal m.marshal = some m := by
  obtain ⟨h, ps⟩ := m
  have hft : ∀ qs : List Payload, (match qs with | p :: _ => p.typ | [] => 0) = firstTyp qs := by
    intro qs; cases qs <;> rfl
  have hh := Header.unmarshal_marshal h wf.header (firstTyp ps) (firstTyp_lt ps) (marshalPayloads ps)
  have hp := readPayloads_marshal ps wf.payloads ((marshalPayloads ps).length + 1) []
    (by have := marshalPayloads_length_ge ps; omega)
  simp only [List.append_nil] at hp
  have hm : Message.marshal { header := h, payloads := ps } = h.marshal (firstTyp ps) ++ marshalPayloads ps := by
    cases ps <;> rfl
  rw [hm]
  simp only [Message.unmarshal, hh, hp]

end Rtsp.Mikey
