import Rtsp.Proofs.Hdr.Auth
import Rtsp.Proofs.AuthB64
set_option linter.unusedSimpArgs false
namespace Rtsp.Hdr
open Rtsp.Facts

/-! ### bytes and characters -/

theorem char_toNat_ofNat {n : Nat} (h : n < 256) : (Char.ofNat n).toNat = n := by
  have hv : n.isValidChar := Or.inl (by omega)
  simp [Char.ofNat, hv, Char.ofNatAux, Char.toNat]

theorem toBytes_ofBytes (b : List UInt8) : toBytes (ofBytes b) = b := by
  induction b with
  | nil => rfl
  | cons x xs ih =>
    have hx : (Char.ofNat x.toNat).toNat = x.toNat := char_toNat_ofNat x.toNat_lt
    simp only [toBytes, ofBytes, List.map_cons] at ih ⊢
    rw [ih, hx]; simp

/-- strings that are byte strings: every character stands for one byte -/
def IsBytes (s : Str) : Prop := ∀ c ∈ s, c.toNat < 256

instance (s : Str) : Decidable (IsBytes s) := by unfold IsBytes; infer_instance

theorem ofBytes_toBytes {s : Str} (h : IsBytes s) : ofBytes (toBytes s) = s := by
  induction s with
  | nil => rfl
  | cons c cs ih =>
    have hc : c.toNat < 256 := h c (by simp)
    have ih' := ih (fun x hx => h x (by simp [hx]))
    simp only [toBytes, ofBytes, List.map_cons] at ih' ⊢
    have : Char.ofNat (UInt8.ofNat c.toNat).toNat = c := by
      have : (UInt8.ofNat c.toNat).toNat = c.toNat := by simp [UInt8.toNat_ofNat, Nat.mod_eq_of_lt hc]
      rw [this]; exact Char.ofNat_toNat c
    rw [ih', this]

/-! ### Authorization -/

/-- Basic: the user name has no colon (RFC 7617), user name and password are byte strings, the
Digest fields keep their zero values.  Digest: no double quote inside the quoted fields and no
Basic password. -/
structure Authorization.WellFormed (h : Authorization) : Prop where
  basic : h.method = .basic → ':' ∉ h.username ∧ IsBytes h.username ∧ IsBytes h.basicPass ∧
    h.realm = [] ∧ h.nonce = [] ∧ h.uri = [] ∧ h.response = [] ∧ h.opaq = none ∧ h.algorithm = none
  digest : h.method = .digest → '"' ∉ h.username ∧ '"' ∉ h.realm ∧ '"' ∉ h.nonce ∧ '"' ∉ h.uri ∧ '"' ∉ h.response ∧
    (∀ v, h.opaq = some v → '"' ∉ v) ∧ h.basicPass = []

instance Authorization.decWellFormed (h : Authorization) : Decidable h.WellFormed :=
  decidable_of_iff
    ((h.method = .basic → ':' ∉ h.username ∧ IsBytes h.username ∧ IsBytes h.basicPass ∧
        h.realm = [] ∧ h.nonce = [] ∧ h.uri = [] ∧ h.response = [] ∧ h.opaq = none ∧ h.algorithm = none) ∧
     (h.method = .digest → '"' ∉ h.username ∧ '"' ∉ h.realm ∧ '"' ∉ h.nonce ∧ '"' ∉ h.uri ∧ '"' ∉ h.response ∧
        (∀ v, h.opaq = some v → '"' ∉ v) ∧ h.basicPass = []))
    ⟨fun ⟨a, b⟩ => ⟨a, b⟩, fun ⟨a, b⟩ => ⟨a, b⟩⟩

example : Authorization.WellFormed { method := .basic, username := cs!"user", basicPass := cs!"my:pass:" } := by decide
example : Authorization.WellFormed {
    method := .digest, username := cs!"Mufasa", realm := cs!"testrealm@host.com", nonce := cs!"dcd98b",
    uri := cs!"rtsp://h/p?a=b,c", response := cs!"6629fae49393a05397450978507c4ef1", opaq := some [], algorithm := some .md5 } := by
  decide

def Authorization.elems (h : Authorization) : List Elem :=
  [Elem.quoted cs!"username" h.username, Elem.quoted cs!"realm" h.realm, Elem.quoted cs!"nonce" h.nonce,
   Elem.quoted cs!"uri" h.uri, Elem.quoted cs!"response" h.response]
  ++ optQ cs!"opaque" h.opaq ++ optQ cs!"algorithm" (h.algorithm.map algStr)

theorem Authorization.marshal_digest (h : Authorization) (hm : h.method = .digest) :
    h.marshal = cs!"Digest " ++ render ',' 1 h.elems := by
  obtain ⟨m, u, p, r, n, ur, rs, o, a⟩ := h
  simp only at hm; subst hm
  cases o <;> cases a <;>
    simp [Authorization.marshal, Authorization.elems, optQ, optQuoted, quoted, render, Elem.text]

theorem Authorization.unmarshal_marshal (h : Authorization) (wf : h.WellFormed) :
    Authorization.unmarshal [h.marshal] = .ok h := by
  cases hm : h.method with
  | basic =>
    obtain ⟨hu, hbu, hbp, h1, h2, h3, h4, h5, h6⟩ := wf.basic hm
    obtain ⟨m, u, p, r, n, ur, rs, o, a⟩ := h
    simp only at hm hu hbu hbp h1 h2 h3 h4 h5 h6; subst hm h1 h2 h3 h4 h5 h6
    have hb : IsBytes (u ++ ':' :: p) := by
      intro c hc
      simp only [List.mem_append, List.mem_cons] at hc
      rcases hc with hc | hc | hc
      · exact hbu c hc
      · subst hc; decide
      · exact hbp c hc
    simp only [Authorization.unmarshal, Authorization.unmarshalWith, Authorization.unmarshal1With, Authorization.marshal]
    rw [parseMethod_basic]
    simp only [toBytes_ofBytes, B64Std.decode_encode, ofBytes_toBytes hb, cut_append p hu]
  | digest =>
    obtain ⟨w1, w2, w3, w4, w5, w6, w7⟩ := wf.digest hm
    have hok : ∀ e ∈ h.elems, e.Ok ',' := by
      intro e he
      simp only [Authorization.elems, List.mem_append, List.mem_cons, List.not_mem_nil, or_false] at he
      rcases he with ((he | he | he | he | he) | he) | he
      · subst he; exact ⟨by key_ok, w1⟩
      · subst he; exact ⟨by key_ok, w2⟩
      · subst he; exact ⟨by key_ok, w3⟩
      · subst he; exact ⟨by key_ok, w4⟩
      · subst he; exact ⟨by key_ok, w5⟩
      · exact optQ_ok (by key_ok) w6 e he
      · refine optQ_ok (by key_ok) ?_ e he
        intro v hv
        cases ha : h.algorithm with
        | none => rw [ha] at hv; cases hv
        | some a => rw [ha] at hv; simp at hv; subst hv; exact algStr_noQuote a
    have hnd : (h.elems.map Elem.key).Nodup := by
      obtain ⟨m, u, p, r, n, ur, rs, o, a⟩ := h
      cases o <;> cases a <;> simp [Authorization.elems, optQ, Elem.key]
    have hkv := keyValParse_render (sep := ',') (by decide) (by decide) (by decide) 1 _ hok hnd
    simp only [Authorization.unmarshal, Authorization.unmarshalWith, Authorization.unmarshal1With]
    rw [Authorization.marshal_digest h hm, parseMethod_digest]
    simp only [hkv]
    obtain ⟨m, u, p, r, n, ur, rs, o, a⟩ := h
    simp only at hm w7; subst hm w7
    cases o <;> cases a <;>
      simp [Authorization.elems, optQ, Elem.pair, Authorization.stepsDigest, parseAuthAlgorithm_algStr, AuthzFlags.all]

end Rtsp.Hdr
