import Rtsp.Proofs.Hdr.RangeNpt
import Rtsp.Proofs.Hdr.RangeUtc
import Rtsp.Proofs.Hdr.Session
set_option linter.unusedSimpArgs false
namespace Rtsp.Hdr
open Rtsp.Facts

/-- what the text of one time must satisfy inside `kind=start-stop[;time=…]` -/
structure TextOk (s : Str) : Prop where
  ne : s ≠ []
  noDash : '-' ∉ s
  noSemi : ';' ∉ s
  noQuote : '"' ∉ s

def optText {α : Type} (m : α → Str) : Option α → Str
  | some e => m e
  | none => []

theorem rangeValue_roundtrip {α : Type} (p : Str → Res α) (m : α → Str) (Good : α → Prop)
    (hp : ∀ x, Good x → p (m x) = .ok x) (htext : ∀ x, TextOk (m x))
    (a : α) (b : Option α) (ga : Good a) (gb : ∀ e, b = some e → Good e) :
    rangeValue p (m a ++ '-' :: optText m b) = .ok (a, b) := by
  cases b with
  | none =>
    simp only [rangeValue, optText]
    rw [splitOn_append _ (htext a).noDash]
    simp [splitOn, startStop, hp a ga]
  | some e =>
    simp only [rangeValue, optText]
    rw [splitOn_append _ (htext a).noDash, splitOn_noSep (htext e).noDash]
    simp [startStop, hp a ga, hp e (gb e rfl), (htext e).ne]

/-! ### texts -/

theorem smpte_textOk (t : SmpteTime) : TextOk t.marshal :=
  ⟨t.marshal_ne_nil, smpte_noChar (by decide) (by decide) (by decide) t, smpte_noChar (by decide) (by decide) (by decide) t,
   smpte_noChar (by decide) (by decide) (by decide) t⟩

theorem npt_textOk (d : Int) : TextOk (nptMarshalTime d) := by
  have h := nptMarshalTime_chars d
  have no : ∀ c : Char, c.isDigit = false → c ≠ '.' → c ∉ nptMarshalTime d := by
    intro c hc hd hm
    rcases h c hm with h | h
    · rw [h] at hc; cases hc
    · exact hd h
  exact ⟨nptMarshalTime_ne_nil d, no _ (by decide) (by decide), no _ (by decide) (by decide), no _ (by decide) (by decide)⟩

theorem pad4_isDigit (n : Nat) : ∀ c ∈ pad4 n, c.isDigit = true := by
  intro c hc
  unfold pad4 at hc
  have := List.mem_of_mem_drop hc
  simp only [List.mem_append, List.mem_replicate] at this
  rcases this with ⟨_, rfl⟩ | h
  · decide
  · exact dec_isDigit h

theorem pad2_isDigit (n : Nat) : ∀ c ∈ pad2 n, c.isDigit = true := by
  intro c hc
  cases h : c.isDigit with
  | true => rfl
  | false => exact absurd hc (not_mem_pad2 h n)

theorem utc_textOk (c : Civil) : TextOk (marshalUTC c) := by
  have no : ∀ x : Char, x.isDigit = false → x ≠ 'T' → x ≠ 'Z' → x ∉ marshalUTC c := by
    intro x hx h1 h2 hm
    simp only [marshalUTC, List.mem_append, List.mem_cons, List.not_mem_nil, or_false] at hm
    have p4 := pad4_isDigit c.year x
    have p2 := fun n => pad2_isDigit n x
    repeat' (rcases hm with hm | hm)
    all_goals first
      | exact absurd rfl h1
      | exact absurd rfl h2
      | exact h1 hm
      | exact h2 hm
      | (have := p4 hm; rw [this] at hx; cases hx)
      | (have := p2 _ hm; rw [this] at hx; cases hx)
  exact ⟨marshalUTC_ne_nil c, no _ (by decide) (by decide) (by decide), no _ (by decide) (by decide) (by decide),
    no _ (by decide) (by decide) (by decide)⟩

/-! ### well-formed ranges -/

def NptOk (d : Int) : Prop := 0 ≤ d ∧ d < 1000000000000000

instance : DecidablePred NptOk := fun d => by unfold NptOk; infer_instance

/-- SMPTE: whole non-negative seconds below 2^53 ns, frames below 2^32.  NPT: non-negative, below
10^15 ns (any nanosecond value, in particular every millisecond value).  UTC: a valid civil time
with year ≤ 9999 and whole seconds. -/
def RangeValue.WF : RangeValue → Prop
  | .smpte a b => a.WF ∧ ∀ e, b = some e → e.WF
  | .npt a b => NptOk a ∧ ∀ e, b = some e → NptOk e
  | .utc a b => a.WF ∧ ∀ e, b = some e → e.WF

instance RangeValue.decWF (v : RangeValue) : Decidable v.WF := by
  cases v <;> (unfold RangeValue.WF; infer_instance)

structure Range.WellFormed (h : Range) : Prop where
  value : h.value.WF
  time : ∀ t, h.time = some t → t.WF

instance Range.decWellFormed (h : Range) : Decidable h.WellFormed :=
  decidable_of_iff (h.value.WF ∧ ∀ t, h.time = some t → t.WF) ⟨fun ⟨a, b⟩ => ⟨a, b⟩, fun ⟨a, b⟩ => ⟨a, b⟩⟩

example : Range.WellFormed { value := .npt 1001000000 (some 999999999999999), time := some { year := 1997, month := 11, day := 8, hour := 14 } } := by
  decide
example : Range.WellFormed { value := .smpte { time := 36420000000000 } (some { time := 36453000000000, frame := 5, subframe := 1 }) } := by
  decide
example : Range.WellFormed { value := .utc { year := 1996, month := 11, day := 8, hour := 14, min := 23 } none } := by decide

/-- key and value text of the range specifier -/
def RangeValue.key : RangeValue → Str
  | .smpte .. => cs!"smpte"
  | .npt .. => cs!"npt"
  | .utc .. => cs!"clock"

def RangeValue.text : RangeValue → Str
  | .smpte a b => a.marshal ++ '-' :: optText SmpteTime.marshal b
  | .npt a b => nptMarshalTime a ++ '-' :: optText nptMarshalTime b
  | .utc a b => marshalUTC a ++ '-' :: optText marshalUTC b

theorem RangeValue.marshal_eq (v : RangeValue) : v.marshal = v.key ++ '=' :: v.text := by
  cases v with
  | smpte a b => cases b <;> simp [RangeValue.marshal, RangeValue.key, RangeValue.text, optText]
  | npt a b => cases b <;> simp [RangeValue.marshal, RangeValue.key, RangeValue.text, optText]
  | utc a b => cases b <;> simp [RangeValue.marshal, RangeValue.key, RangeValue.text, optText]

theorem startStop_text_ok {α} (m : α → Str) (htext : ∀ x, TextOk (m x)) (a : α) (b : Option α) :
    ';' ∉ (m a ++ '-' :: optText m b) ∧ (m a ++ '-' :: optText m b).head? ≠ some '"' := by
  have ha := htext a
  constructor
  · cases b with
    | none => simp [ha.noSemi, optText]
    | some e => simp [ha.noSemi, (htext e).noSemi, optText]
  · cases hm : m a with
    | nil => exact absurd hm ha.ne
    | cons x xs =>
      have : x ≠ '"' := by intro e; apply ha.noQuote; rw [hm, e]; simp
      simpa using this

theorem RangeValue.elem_ok (v : RangeValue) : (Elem.plain v.key v.text).Ok ';' := by
  cases v with
  | smpte a b => exact ⟨by simp only [RangeValue.key]; key_ok, startStop_text_ok _ smpte_textOk a b⟩
  | npt a b => exact ⟨by simp only [RangeValue.key]; key_ok, startStop_text_ok _ npt_textOk a b⟩
  | utc a b => exact ⟨by simp only [RangeValue.key]; key_ok, startStop_text_ok _ utc_textOk a b⟩

theorem Range.step_value (v : RangeValue) (wf : v.WF) (st : Option RangeValue × Option Civil) :
    Range.step st v.key v.text = .ok (some v, st.2) := by
  cases v with
  | smpte a b =>
    have := rangeValue_roundtrip SmpteTime.unmarshal SmpteTime.marshal SmpteTime.WF SmpteTime.unmarshal_marshal smpte_textOk a b wf.1 wf.2
    simp [Range.step, RangeValue.key, RangeValue.text, this]
  | npt a b =>
    have := rangeValue_roundtrip nptTime nptMarshalTime NptOk (fun x hx => nptTime_marshal hx.1 hx.2) npt_textOk a b wf.1 wf.2
    simp [Range.step, RangeValue.key, RangeValue.text, this]
  | utc a b =>
    have := rangeValue_roundtrip parseUTC marshalUTC Civil.WF parseUTC_marshalUTC utc_textOk a b wf.1 wf.2
    simp [Range.step, RangeValue.key, RangeValue.text, this]

theorem Range.step_time (t : Civil) (wf : t.WF) (st : Option RangeValue × Option Civil) :
    Range.step st cs!"time" (marshalUTC t) = .ok (st.1, some t) := by
  simp [Range.step, parseUTC_marshalUTC t wf]

/-- **Range round trip** -/
theorem Range.unmarshal_marshal (h : Range) (wf : h.WellFormed) : Range.unmarshal [h.marshal] = .ok h := by
  obtain ⟨v, t⟩ := h
  have hv := RangeValue.elem_ok v
  cases t with
  | none =>
    have hm : Range.marshal { value := v, time := none } = render ';' 0 [Elem.plain v.key v.text] := by
      simp [Range.marshal, RangeValue.marshal_eq, render, Elem.text]
    have hkv := keyValParse_render (sep := ';') (by decide) (by decide) (by decide) 0 [Elem.plain v.key v.text]
      (by intro e he; simp at he; subst he; exact hv) (by simp)
    simp only [Range.unmarshal, Range.unmarshalWith, Range.unmarshal1With]
    rw [hm, hkv]
    simp only [List.map, Elem.pair, Range.steps, Range.step_value v wf.value]
  | some t =>
    have wt := wf.time t rfl
    have ht : (Elem.plain cs!"time" (marshalUTC t)).Ok ';' := by
      have := utc_textOk t
      refine ⟨by key_ok, this.noSemi, ?_⟩
      cases hm : marshalUTC t with
      | nil => exact absurd hm this.ne
      | cons x xs =>
        have hx : x ≠ '"' := by intro e; apply this.noQuote; rw [hm, e]; simp
        simpa using hx
    have hm : Range.marshal { value := v, time := some t } = render ';' 0 [Elem.plain v.key v.text, Elem.plain cs!"time" (marshalUTC t)] := by
      simp [Range.marshal, RangeValue.marshal_eq, render, Elem.text]
    have hnd : ([Elem.plain v.key v.text, Elem.plain cs!"time" (marshalUTC t)].map Elem.key).Nodup := by
      cases v <;> simp [Elem.key, RangeValue.key]
    have hkv := keyValParse_render (sep := ';') (by decide) (by decide) (by decide) 0
      [Elem.plain v.key v.text, Elem.plain cs!"time" (marshalUTC t)]
      (by intro e he; simp at he; rcases he with he | he <;> subst he; exact hv; exact ht) hnd
    simp only [Range.unmarshal, Range.unmarshalWith, Range.unmarshal1With]
    rw [hm, hkv]
    simp only [List.map, Elem.pair, Range.steps, Range.step_value v wf.value, Range.step_time t wt]

end Rtsp.Hdr
