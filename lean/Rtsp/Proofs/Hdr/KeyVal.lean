import Rtsp.Proofs.Hdr.Basic
/-
`keyValParse` on texts that are rendered from a list of elements (`key`, `key=value`,
`key="value"`), and the independence of `keyValParseWith` from the representation of the Go map.
-/
namespace Rtsp.Hdr

/-! ### readKey / readUntil -/

/-- `rest` is empty or starts with a character that stops `readKey` -/
def StopsKey (sep : Char) (rest : Str) : Prop := rest = [] ∨ rest.head? = some '=' ∨ rest.head? = some sep

theorem readKey_append {sep : Char} {k rest : Str} (h1 : '=' ∉ k) (h2 : sep ∉ k) (hr : StopsKey sep rest) :
    readKey sep (k ++ rest) = (k, rest) := by
  induction k with
  | nil =>
    cases rest with
    | nil => rfl
    | cons c cs =>
      have : c = '=' ∨ c = sep := by
        rcases hr with h | h | h
        · cases h
        · left; simpa using h
        · right; simpa using h
      simp [readKey, this]
  | cons c cs ih =>
    have hc1 : c ≠ '=' := fun e => h1 (by simp [e])
    have hc2 : c ≠ sep := fun e => h2 (by simp [e])
    have := ih (fun m => h1 (by simp [m])) (fun m => h2 (by simp [m]))
    simp [readKey, hc1, hc2, this]

theorem readUntil_append {sep : Char} {v rest : Str} (h : sep ∉ v) (hr : rest = [] ∨ rest.head? = some sep) :
    readUntil sep (v ++ rest) = (v, rest) := by
  induction v with
  | nil =>
    cases rest with
    | nil => rfl
    | cons c cs =>
      have : c = sep := by
        rcases hr with h | h
        · cases h
        · simpa using h
      simp [readUntil, this]
  | cons c cs ih =>
    have hc : c ≠ sep := fun e => h (by simp [e])
    have := ih (fun m => h (by simp [m]))
    simp [readUntil, hc, this]

/-! ### elements -/

inductive Elem
  | bare (k : Str)
  | plain (k v : Str)
  | quoted (k v : Str)

def Elem.text : Elem → Str
  | .bare k => k
  | .plain k v => k ++ '=' :: v
  | .quoted k v => k ++ '=' :: '"' :: (v ++ ['"'])

def Elem.pair : Elem → Str × Str
  | .bare k => (k, [])
  | .plain k v => (k, v)
  | .quoted k v => (k, v)

structure KeyOk (sep : Char) (k : Str) : Prop where
  ne : k ≠ []
  nsp : k.head? ≠ some ' '
  neq : '=' ∉ k
  nsep : sep ∉ k

def Elem.Ok (sep : Char) : Elem → Prop
  | .bare k => KeyOk sep k
  | .plain k v => KeyOk sep k ∧ sep ∉ v ∧ v.head? ≠ some '"'
  | .quoted k v => KeyOk sep k ∧ '"' ∉ v

def Elem.key : Elem → Str
  | .bare k => k
  | .plain k _ => k
  | .quoted k _ => k

theorem Elem.keyOk {sep : Char} {e : Elem} (h : e.Ok sep) : KeyOk sep e.key := by
  cases e <;> simp [Elem.Ok] at h <;> simp [Elem.key, h]

theorem Elem.text_eq (e : Elem) : ∃ t, e.text = e.key ++ t := by
  cases e <;> simp [Elem.text, Elem.key]

theorem Elem.text_ne_nil {sep : Char} {e : Elem} (h : e.Ok sep) : e.text ≠ [] := by
  obtain ⟨t, ht⟩ := e.text_eq
  have := (Elem.keyOk h).ne
  intro h0; rw [ht] at h0; simp at h0; exact this h0.1

theorem Elem.text_head {sep : Char} {e : Elem} (h : e.Ok sep) : e.text.head? ≠ some ' ' := by
  obtain ⟨t, ht⟩ := e.text_eq
  have hk := Elem.keyOk h
  rw [ht]
  cases hkey : e.key with
  | nil => exact absurd hkey hk.ne
  | cons c cs => have := hk.nsp; rw [hkey] at this; simpa using this

/-- elements joined by the separator followed by `sp` spaces -/
def render (sep : Char) (sp : Nat) : List Elem → Str
  | [] => []
  | [e] => e.text
  | e :: e' :: es => e.text ++ sep :: (List.replicate sp ' ' ++ render sep sp (e' :: es))

theorem render_head {sep : Char} {sp : Nat} {es : List Elem} (h : ∀ e ∈ es, e.Ok sep) :
    (render sep sp es).head? ≠ some ' ' := by
  cases es with
  | nil => simp [render]
  | cons e rest =>
    have he := Elem.text_head (h e (by simp))
    have hne := Elem.text_ne_nil (h e (by simp))
    cases rest with
    | nil => simpa [render] using he
    | cons e' es =>
      simp only [render]
      cases ht : e.text with
      | nil => exact absurd ht hne
      | cons c cs => rw [ht] at he; simpa using he

/-- the tail that follows an element inside a rendered text -/
def Tail (sep : Char) (tail : Str) : Prop := tail = [] ∨ tail.head? = some sep

/-- one iteration of the loop on `e.text ++ tail` -/
theorem kvLoop_elem {sep : Char} (hs1 : sep ≠ '=') (hs2 : sep ≠ '"') {e : Elem} (he : e.Ok sep) {tail : Str}
    (ht : Tail sep tail) (fuel : Nat) :
    kvLoop sep (fuel + 1) (e.text ++ tail) =
      match kvLoop sep fuel (trimLeftSp (skipSep sep tail)) with
      | .ok rest => .ok (e.pair :: rest)
      | .err x => .err x
      | .unm => .unm := by
  have hk := Elem.keyOk he
  have hne : e.text ++ tail ≠ [] := by
    intro h; simp at h; exact Elem.text_ne_nil he h.1
  cases hx : e.text ++ tail with
  | nil => exact absurd hx hne
  | cons c cs =>
    rw [← hx]
    have hstop : StopsKey sep tail := by
      rcases ht with h | h
      · exact Or.inl h
      · exact Or.inr (Or.inr h)
    cases e with
    | bare k =>
      simp only [Elem.text, Elem.pair, Elem.key] at *
      have hrk := readKey_append hk.neq hk.nsep hstop
      rw [hx] at hrk ⊢
      cases tail with
      | nil => simp only [kvLoop, hrk]; rfl
      | cons t ts =>
        have htsep : t = sep := by
          rcases ht with h | h
          · cases h
          · simpa using h
        subst htsep
        simp only [kvLoop, hrk]
        split
        · rename_i r heq; simp at heq; exact absurd heq.1 hs1
        · rfl
    | plain k v =>
      simp only [Elem.text, Elem.pair, Elem.key, Elem.Ok] at *
      have hrk : readKey sep (k ++ ('=' :: (v ++ tail))) = (k, '=' :: (v ++ tail)) :=
        readKey_append hk.neq hk.nsep (Or.inr (Or.inl rfl))
      have hx' : k ++ '=' :: (v ++ tail) = c :: cs := by simpa using hx
      have hrv : readValue sep (v ++ tail) = .ok (v, tail) := by
        have hru := readUntil_append (rest := tail) he.2.1 ht
        unfold readValue
        split
        · rename_i rest heq
          exfalso
          cases v with
          | nil =>
            simp at heq
            rcases ht with h | h
            · rw [h] at heq; cases heq
            · rw [heq] at h; simp at h; exact hs2 h.symm
          | cons a as => simp at heq; exact he.2.2 (by simp [heq.1])
        · rw [hru]
      have hxx : k ++ '=' :: v ++ tail = k ++ '=' :: (v ++ tail) := by simp
      rw [hxx, hx']
      rw [hx'] at hrk
      simp only [kvLoop, hrk, hrv]
      rfl
    | quoted k v =>
      simp only [Elem.text, Elem.pair, Elem.key, Elem.Ok] at *
      have hrk : readKey sep (k ++ ('=' :: '"' :: (v ++ '"' :: tail))) = (k, '=' :: '"' :: (v ++ '"' :: tail)) :=
        readKey_append hk.neq hk.nsep (Or.inr (Or.inl rfl))
      have hxx : k ++ '=' :: '"' :: (v ++ ['"']) ++ tail = k ++ ('=' :: '"' :: (v ++ '"' :: tail)) := by simp
      have hx' : k ++ ('=' :: '"' :: (v ++ '"' :: tail)) = c :: cs := by rw [← hxx]; exact hx
      have hrv : readValue sep ('"' :: (v ++ '"' :: tail)) = .ok (v, tail) := by
        simp [readValue, cut_append tail he.2]
      rw [hxx, hx']
      rw [hx'] at hrk
      simp only [kvLoop, hrk, hrv]
      rfl

theorem render_length_cons (sep : Char) (sp : Nat) (e e' : Elem) (es : List Elem) :
    (render sep sp (e :: e' :: es)).length = e.text.length + 1 + sp + (render sep sp (e' :: es)).length := by
  simp [render]; omega

/-- the loop on a rendered list of well-formed elements yields their pairs -/
theorem kvLoop_render {sep : Char} (hs1 : sep ≠ '=') (hs2 : sep ≠ '"') (hs3 : sep ≠ ' ') (sp : Nat) :
    ∀ (es : List Elem) (fuel : Nat), (∀ e ∈ es, e.Ok sep) → (render sep sp es).length ≤ fuel →
      kvLoop sep fuel (render sep sp es) = .ok (es.map Elem.pair)
  | [], fuel, _, _ => by cases fuel <;> simp [render, kvLoop]
  | [e], fuel, h, hf => by
    have he := h e (by simp)
    have hne := Elem.text_ne_nil he
    cases fuel with
    | zero => simp [render] at hf; exact absurd hf hne
    | succ fuel =>
      have := kvLoop_elem hs1 hs2 he (tail := []) (Or.inl rfl) fuel
      simp only [List.append_nil] at this
      simp only [render, this, skipSep, trimLeftSp]
      cases fuel <;> simp [kvLoop]
  | e :: e' :: es, fuel, h, hf => by
    have he := h e (by simp)
    have hne := Elem.text_ne_nil he
    cases fuel with
    | zero => simp [render] at hf
    | succ fuel =>
      have hrest : ∀ x ∈ e' :: es, x.Ok sep := fun x hx => h x (by simp [hx])
      have hlen := render_length_cons sep sp e e' es
      have htl : 0 < e.text.length := List.length_pos_iff.mpr hne
      have ih := kvLoop_render hs1 hs2 hs3 sp (e' :: es) fuel hrest (by omega)
      have hstep := kvLoop_elem hs1 hs2 he
        (tail := sep :: (List.replicate sp ' ' ++ render sep sp (e' :: es))) (Or.inr (by simp)) fuel
      simp only [render]
      rw [hstep]
      simp only [skipSep, if_true]
      rw [trimLeftSp_replicate sp (render_head hrest), ih]
      simp

end Rtsp.Hdr

namespace Rtsp.Hdr

/-! ### the Go map: `keys` mirrors the map, lookups do not depend on the map's arrangement -/

theorem mapHas_iff (m : List (Str × Str)) (k : Str) : mapHas m k = true ↔ k ∈ m.map Prod.fst := by
  induction m with
  | nil => simp [mapHas]
  | cons p ps ih =>
    simp only [mapHas, List.map_cons, List.mem_cons]
    by_cases h : p.1 = k
    · simp [h]
    · simp [h, ih]; intro e; exact absurd e.symm h

theorem mapSet_keys (m : List (Str × Str)) (k v : Str) :
    (mapSet m k v).map Prod.fst = if mapHas m k then m.map Prod.fst else m.map Prod.fst ++ [k] := by
  induction m with
  | nil => simp [mapSet, mapHas]
  | cons p ps ih =>
    by_cases h : p.1 = k
    · simp [mapSet, mapHas, h]
    · simp only [mapSet, mapHas, h, if_false, List.map_cons, ih]
      split <;> simp

theorem mapGet_of_mem {m : List (Str × Str)} (hnd : (m.map Prod.fst).Nodup) {k v : Str} (h : (k, v) ∈ m) :
    mapGet m k = v := by
  induction m with
  | nil => cases h
  | cons p ps ih =>
    simp only [List.map_cons, List.nodup_cons] at hnd
    rcases List.mem_cons.mp h with h | h
    · subst h; simp [mapGet]
    · have hne : p.1 ≠ k := by
        intro e; apply hnd.1; rw [e]; exact List.mem_map.mpr ⟨(k, v), h, rfl⟩
      simp [mapGet, hne, ih hnd.2 h]

theorem mapGet_mapSet_self (m : List (Str × Str)) (k v : Str) : mapGet (mapSet m k v) k = v := by
  induction m with
  | nil => simp [mapSet, mapGet]
  | cons p ps ih =>
    by_cases h : p.1 = k
    · simp [mapSet, mapGet, h]
    · simp [mapSet, mapGet, h, ih]

theorem mapSet_fresh {m : List (Str × Str)} {p : Str × Str} (hp : mapHas m p.1 = false) :
    mapSet m p.1 p.2 = m ++ [p] := by
  induction m with
  | nil => simp [mapSet]
  | cons q qs ihq =>
    simp only [mapHas] at hp
    by_cases hq : q.1 = p.1
    · simp [hq] at hp
    · simp only [hq, if_false] at hp
      simp [mapSet, hq, ihq hp]

/-- the invariant of `keyValParseOrdered`'s two results -/
structure KV.Inv (kv : KV) : Prop where
  keys_eq : kv.keys = kv.map.map Prod.fst
  nodup : (kv.map.map Prod.fst).Nodup

theorem KV.Inv.add {kv : KV} (h : kv.Inv) (k v : Str) : (kv.add k v).Inv := by
  constructor
  · simp only [KV.add, mapSet_keys, h.keys_eq]
  · simp only [KV.add, mapSet_keys]
    split
    · exact h.nodup
    · rename_i hh
      have : k ∉ kv.map.map Prod.fst := fun hm => hh ((mapHas_iff _ _).mpr hm)
      exact List.nodup_append.mpr ⟨h.nodup, by simp, by
        intro a ha b hb; simp at hb; subst hb; intro e; subst e; exact this ha⟩

theorem KV.inv_foldl (raw : List (Str × Str)) : ∀ kv : KV, kv.Inv → (raw.foldl (fun kv p => kv.add p.1 p.2) kv).Inv := by
  induction raw with
  | nil => intro kv h; exact h
  | cons p ps ih => intro kv h; exact ih _ (h.add p.1 p.2)

theorem KV.inv_ofPairs (raw : List (Str × Str)) : (KV.ofPairs raw).Inv :=
  KV.inv_foldl raw _ ⟨rfl, by simp⟩

/-- under the invariant the callers see exactly the map's entries, in key order -/
theorem KV.pairs_eq_map {kv : KV} (h : kv.Inv) : kv.pairs = kv.map := by
  unfold KV.pairs
  rw [h.keys_eq, List.map_map]
  have : ∀ p ∈ kv.map, ((fun k => (k, mapGet kv.map k)) ∘ Prod.fst) p = p := by
    intro p hp
    have := mapGet_of_mem h.nodup (k := p.1) (v := p.2) hp
    simp [this]
  rw [List.map_congr_left this, List.map_id']

/-- rearranging the map's representation does not change what the callers see -/
theorem KV.pairs_perm {kv : KV} (h : kv.Inv) {m' : List (Str × Str)} (hp : m'.Perm kv.map) :
    ({ kv with map := m' } : KV).pairs = kv.pairs := by
  unfold KV.pairs
  apply List.map_congr_left
  intro k hk
  rw [h.keys_eq] at hk
  obtain ⟨p, hpm, hpk⟩ := List.mem_map.mp hk
  have hnd' : (m'.map Prod.fst).Nodup := (hp.map Prod.fst).nodup_iff.mpr h.nodup
  have h1 : mapGet kv.map k = p.2 := mapGet_of_mem h.nodup (by rw [← hpk]; exact hpm)
  have h2 : mapGet m' k = p.2 := mapGet_of_mem hnd' (by rw [← hpk]; exact hp.mem_iff.mpr hpm)
  simp [h1, h2]

/-- **Independence from map order.**  Whatever rearrangement `π` is applied to the representation
of the Go map, `keyValParseOrdered`'s callers see the same pairs. -/
theorem keyValParseWith_perm (π : List (Str × Str) → List (Str × Str)) (hπ : ∀ m, (π m).Perm m)
    (sep : Char) (s : Str) : keyValParseWith π sep s = keyValParse sep s := by
  unfold keyValParse keyValParseWith
  cases kvRaw sep s with
  | ok raw => simp only [id]; rw [KV.pairs_perm (KV.inv_ofPairs raw) (hπ _)]
  | err e => rfl
  | unm => rfl

/-- adding pairs with fresh, distinct keys appends them -/
theorem KV.foldl_fresh (raw : List (Str × Str)) : ∀ kv : KV, kv.Inv → (raw.map Prod.fst).Nodup →
    (∀ k ∈ raw.map Prod.fst, k ∉ kv.map.map Prod.fst) →
    (raw.foldl (fun kv p => kv.add p.1 p.2) kv).map = kv.map ++ raw := by
  induction raw with
  | nil => intro kv _ _ _; simp
  | cons p ps ih =>
    intro kv h hnd hfresh
    simp only [List.map_cons, List.nodup_cons] at hnd
    have hp : mapHas kv.map p.1 = false := by
      cases hh : mapHas kv.map p.1 with
      | false => rfl
      | true => exact absurd ((mapHas_iff _ _).mp hh) (hfresh p.1 (by simp))
    have hmap : (kv.add p.1 p.2).map = kv.map ++ [p] := by
      simp only [KV.add]; exact mapSet_fresh hp
    simp only [List.foldl_cons]
    rw [ih (kv.add p.1 p.2) (h.add _ _) hnd.2]
    · rw [hmap]; simp
    · intro k hk
      rw [hmap]
      simp only [List.map_append, List.map_cons, List.map_nil, List.mem_append, List.mem_singleton, not_or]
      exact ⟨hfresh k (by simp [hk]), fun e => hnd.1 (e ▸ hk)⟩

theorem KV.pairs_ofPairs_nodup {raw : List (Str × Str)} (hnd : (raw.map Prod.fst).Nodup) :
    (KV.ofPairs raw).pairs = raw := by
  rw [KV.pairs_eq_map (KV.inv_ofPairs raw)]
  have := KV.foldl_fresh raw { keys := [], map := [] } ⟨rfl, by simp⟩ hnd (by simp)
  simpa [KV.ofPairs] using this

/-- **The tokenizer on a rendered element list.** -/
theorem keyValParse_render {sep : Char} (hs1 : sep ≠ '=') (hs2 : sep ≠ '"') (hs3 : sep ≠ ' ') (sp : Nat)
    (es : List Elem) (hok : ∀ e ∈ es, e.Ok sep) (hnd : (es.map Elem.key).Nodup) :
    keyValParse sep (render sep sp es) = .ok (es.map Elem.pair) := by
  have hraw : kvRaw sep (render sep sp es) = .ok (es.map Elem.pair) :=
    kvLoop_render hs1 hs2 hs3 sp es _ hok (Nat.le_refl _)
  have hkeys : (es.map Elem.pair).map Prod.fst = es.map Elem.key := by
    rw [List.map_map]; apply List.map_congr_left; intro e _; cases e <;> rfl
  unfold keyValParse keyValParseWith
  rw [hraw]
  simp only [id]
  rw [KV.pairs_ofPairs_nodup (by rw [hkeys]; exact hnd)]

end Rtsp.Hdr

namespace Rtsp.Hdr

theorem joinWith_texts (sep : Char) (es : List Elem) : joinWith sep (es.map Elem.text) = render sep 0 es := by
  induction es with
  | nil => rfl
  | cons e rest ih =>
    cases rest with
    | nil => rfl
    | cons e' es => simp only [List.map_cons, joinWith, render] at ih ⊢; rw [ih]; simp

theorem splitOn_joinWith {sep : Char} : ∀ (parts : List Str), parts ≠ [] → (∀ p ∈ parts, sep ∉ p) →
    splitOn sep (joinWith sep parts) = parts
  | [], h, _ => absurd rfl h
  | [p], _, h => by simpa [joinWith] using splitOn_noSep (h p (by simp))
  | p :: q :: ps, _, h => by
    simp only [joinWith]
    rw [splitOn_append _ (h p (by simp)), splitOn_joinWith (q :: ps) (by simp) (fun x hx => h x (by simp [hx]))]

end Rtsp.Hdr
