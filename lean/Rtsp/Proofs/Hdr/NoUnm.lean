import Rtsp.Model.Headers.Transport
import Rtsp.Model.Headers.Session
import Rtsp.Model.Headers.RtpInfo
import Rtsp.Model.Headers.Authenticate
import Rtsp.Model.Headers.KeyMgmt
set_option linter.unusedSimpArgs false
/-
The third outcome `unm` ("outside the modelled domain") is unreachable for every header except
Range: for Transport, Transports, Session, RTP-Info, WWW-Authenticate, Authorization and KeyMgmt the
model decides EVERY header value (value or failure class).  `unm` arises only from NPT seconds
that leave the plain-decimal domain (`parseFloatNs`).
-/
namespace Rtsp.Hdr

theorem readValue_ne_unm (sep : Char) (s : Str) : readValue sep s ≠ .unm := by
  unfold readValue
  split
  · split <;> (intro h; cases h)
  · intro h; cases h

/-- closes `X ≠ .unm` goals that are constructor clashes or contradict a `… ≠ .unm` fact in context -/
macro "no_unm" : tactic => `(tactic| first
  | (intro h; cases h; done)
  | (intro _; simp_all; done))

theorem kvLoop_ne_unm (sep : Char) : ∀ (fuel : Nat) (s : Str), kvLoop sep fuel s ≠ .unm := by
  intro fuel
  induction fuel with
  | zero => intro s; cases s <;> (intro h; cases h)
  | succ n ih =>
    intro s
    cases s with
    | nil => intro h; cases h
    | cons c cs =>
      simp only [kvLoop]
      split
      · rename_i r _
        have hv := readValue_ne_unm sep r
        cases hrv : readValue sep r with
        | ok p =>
          obtain ⟨v, r'⟩ := p
          have := ih (trimLeftSp (skipSep sep r'))
          simp only
          cases hk : kvLoop sep n (trimLeftSp (skipSep sep r')) with
          | ok rest => intro h; cases h
          | err e => intro h; cases h
          | unm => exact absurd hk this
        | err e => intro h; cases h
        | unm => exact absurd hrv hv
      · split
        · intro h; cases h
        · intro h; cases h
        · rename_i heq; exact absurd heq (ih _)

theorem keyValParse_ne_unm (sep : Char) (s : Str) : keyValParse sep s ≠ .unm := by
  unfold keyValParse keyValParseWith kvRaw
  have := kvLoop_ne_unm sep s.length s
  split <;> simp_all

theorem parsePorts_ne_unm (v : Str) : parsePorts v ≠ .unm := by
  unfold parsePorts; split
  · split <;> simp
  · split <;> simp
  · simp

theorem parseMode_ne_unm (v : Str) : parseMode v ≠ .unm := by
  unfold parseMode; split
  · simp
  · split <;> simp

theorem parseAuthAlgorithm_ne_unm (v : Str) : parseAuthAlgorithm v ≠ .unm := by
  unfold parseAuthAlgorithm; split
  · simp
  · split <;> simp

theorem ite_ne_unm {α : Type} {c : Prop} [Decidable c] {a b : Res α} (ha : a ≠ .unm) (hb : b ≠ .unm) :
    (if c then a else b) ≠ .unm := by
  split <;> assumption

theorem Transport.step_ne_unm (st : Transport × Bool) (k v : Str) : Transport.step st k v ≠ .unm := by
  have h1 := parsePorts_ne_unm v
  have h2 := parseMode_ne_unm v
  unfold Transport.step
  simp only
  repeat' (first | apply ite_ne_unm | (intro h; cases h; done))
  all_goals (split <;> first
    | (intro h; cases h; done)
    | exact absurd ‹parsePorts v = Res.unm› h1
    | exact absurd ‹parseMode v = Res.unm› h2)

theorem Transport.steps_ne_unm : ∀ (pairs : List (Str × Str)) (st : Transport × Bool), Transport.steps st pairs ≠ .unm
  | [], st => by simp [Transport.steps]
  | (k, v) :: rest, st => by
    have h := Transport.step_ne_unm st k v
    simp only [Transport.steps]
    split
    · exact Transport.steps_ne_unm rest _
    · simp
    · simp_all

theorem Transport.unmarshal1_ne_unm (s : Str) : Transport.unmarshal1With keyValParse s ≠ .unm := by
  have h1 := keyValParse_ne_unm ';' s
  unfold Transport.unmarshal1With
  split
  · rename_i pairs _
    have h2 := Transport.steps_ne_unm pairs ({}, false)
    split <;> simp_all
  · simp
  · simp_all

theorem Transport.unmarshal_ne_unm (v : List Str) : Transport.unmarshal v ≠ .unm := by
  unfold Transport.unmarshal Transport.unmarshalWith
  split
  · simp
  · exact Transport.unmarshal1_ne_unm _
  · simp

theorem Transports.unmarshalEach_ne_unm : ∀ ps : List Str, Transports.unmarshalEach keyValParse ps ≠ .unm
  | [] => by simp [Transports.unmarshalEach]
  | p :: ps => by
    have h1 := Transport.unmarshal1_ne_unm (trimLeftSp p)
    have h2 := Transports.unmarshalEach_ne_unm ps
    simp only [Transports.unmarshalEach]
    split
    · split <;> simp_all
    · simp
    · simp_all

theorem Transports.unmarshal_ne_unm (v : List Str) : Transports.unmarshal v ≠ .unm := by
  unfold Transports.unmarshal Transports.unmarshalWith
  split
  · simp
  · exact Transports.unmarshalEach_ne_unm _
  · simp

theorem Session.steps_ne_unm : ∀ (pairs : List (Str × Str)) (t : Option Nat), Session.steps t pairs ≠ .unm
  | [], t => by simp [Session.steps]
  | (k, v) :: rest, t => by
    simp only [Session.steps]
    split
    · split
      · exact Session.steps_ne_unm rest _
      · simp
    · exact Session.steps_ne_unm rest _

theorem Session.unmarshal_ne_unm (v : List Str) : Session.unmarshal v ≠ .unm := by
  unfold Session.unmarshal Session.unmarshalWith
  split
  · simp
  · rename_i s
    unfold Session.unmarshal1With
    split
    · simp
    · rename_i id rest _
      have h1 := keyValParse_ne_unm ';' (trimLeftSp rest)
      split
      · rename_i pairs _
        have h2 := Session.steps_ne_unm pairs none
        split <;> simp_all
      · simp
      · simp_all
  · simp

theorem RtpInfoEntry.steps_ne_unm : ∀ (pairs : List (Str × Str)) (st : RtpInfoEntry × Bool), RtpInfoEntry.steps st pairs ≠ .unm
  | [], st => by simp [RtpInfoEntry.steps]
  | (k, v) :: rest, st => by
    simp only [RtpInfoEntry.steps]
    split
    · exact RtpInfoEntry.steps_ne_unm rest _
    · split
      · split
        · exact RtpInfoEntry.steps_ne_unm rest _
        · simp
      · split
        · split
          · exact RtpInfoEntry.steps_ne_unm rest _
          · simp
        · exact RtpInfoEntry.steps_ne_unm rest _

theorem RtpInfoEntry.unmarshal_ne_unm (p : Str) : RtpInfoEntry.unmarshalWith keyValParse p ≠ .unm := by
  have h1 := keyValParse_ne_unm ';' (trimLeftSp p)
  unfold RtpInfoEntry.unmarshalWith
  split
  · rename_i pairs _
    have h2 := RtpInfoEntry.steps_ne_unm pairs ({}, false)
    split <;> simp_all
  · simp
  · simp_all

theorem RtpInfo.unmarshalEach_ne_unm : ∀ ps : List Str, RtpInfo.unmarshalEach keyValParse ps ≠ .unm
  | [] => by simp [RtpInfo.unmarshalEach]
  | p :: ps => by
    have h1 := RtpInfoEntry.unmarshal_ne_unm p
    have h2 := RtpInfo.unmarshalEach_ne_unm ps
    simp only [RtpInfo.unmarshalEach]
    split
    · split <;> simp_all
    · simp
    · simp_all

theorem RtpInfo.unmarshal_ne_unm (v : List Str) : RtpInfo.unmarshal v ≠ .unm := by
  unfold RtpInfo.unmarshal RtpInfo.unmarshalWith
  split
  · simp
  · exact RtpInfo.unmarshalEach_ne_unm _
  · simp

theorem Authenticate.stepsDigest_ne_unm : ∀ (pairs : List (Str × Str)) (st : Authenticate × Bool × Bool),
    Authenticate.stepsDigest st pairs ≠ .unm
  | [], st => by simp [Authenticate.stepsDigest]
  | (k, v) :: rest, st => by
    have ha := parseAuthAlgorithm_ne_unm v
    simp only [Authenticate.stepsDigest]
    repeat' split
    all_goals first | exact Authenticate.stepsDigest_ne_unm rest _ | simp_all

theorem parseMethod_ne_unm (s : Str) : parseMethod s ≠ .unm := by
  unfold parseMethod; split
  · simp
  · split
    · simp
    · split <;> simp

theorem Authenticate.unmarshal_ne_unm (v : List Str) : Authenticate.unmarshal v ≠ .unm := by
  unfold Authenticate.unmarshal Authenticate.unmarshalWith
  split
  · simp
  · rename_i s
    have hm := parseMethod_ne_unm s
    unfold Authenticate.unmarshal1With
    split
    · rename_i rest _
      have h1 := keyValParse_ne_unm ',' rest
      split
      · split <;> simp
      · simp
      · simp_all
    · rename_i rest _
      have h1 := keyValParse_ne_unm ',' rest
      split
      · rename_i pairs _
        have h2 := Authenticate.stepsDigest_ne_unm pairs ({ method := .digest }, false, false)
        split <;> simp_all
      · simp
      · simp_all
    · simp
    · simp_all
  · simp

theorem Authorization.stepsDigest_ne_unm : ∀ (pairs : List (Str × Str)) (st : Authorization × AuthzFlags),
    Authorization.stepsDigest st pairs ≠ .unm
  | [], st => by simp [Authorization.stepsDigest]
  | (k, v) :: rest, st => by
    have ha := parseAuthAlgorithm_ne_unm v
    simp only [Authorization.stepsDigest]
    repeat' split
    all_goals first | exact Authorization.stepsDigest_ne_unm rest _ | simp_all

theorem Authorization.unmarshal_ne_unm (v : List Str) : Authorization.unmarshal v ≠ .unm := by
  unfold Authorization.unmarshal Authorization.unmarshalWith
  split
  · simp
  · rename_i s
    have hm := parseMethod_ne_unm s
    unfold Authorization.unmarshal1With
    split
    · split
      · split <;> simp
      · simp
    · rename_i rest _
      have h1 := keyValParse_ne_unm ',' rest
      split
      · rename_i pairs _
        have h2 := Authorization.stepsDigest_ne_unm pairs ({ method := .digest }, {})
        split
        · split <;> simp
        · simp
        · simp_all
      · simp
      · simp_all
    · simp
    · simp_all
  · simp

theorem KeyMgmt.steps_ne_unm : ∀ (pairs : List (Str × Str)) (st : KeyMgmtSt), KeyMgmt.steps st pairs ≠ .unm
  | [], st => by simp [KeyMgmt.steps]
  | (k, v) :: rest, st => by
    simp only [KeyMgmt.steps]
    repeat' split
    all_goals first | exact KeyMgmt.steps_ne_unm rest _ | simp_all

theorem KeyMgmt.unmarshal_ne_unm (v : List Str) : KeyMgmt.unmarshal v ≠ .unm := by
  unfold KeyMgmt.unmarshal KeyMgmt.unmarshalWith
  split
  · simp
  · rename_i s
    have h1 := keyValParse_ne_unm ';' s
    unfold KeyMgmt.unmarshal1With
    split
    · rename_i pairs _
      have h2 := KeyMgmt.steps_ne_unm pairs {}
      split
      · repeat' split
        all_goals simp
      · simp
      · simp_all
    · simp
    · simp_all
  · simp

end Rtsp.Hdr
