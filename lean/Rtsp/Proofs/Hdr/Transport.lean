import Rtsp.Proofs.Hdr.Session
import Rtsp.Model.Headers.Transport
set_option linter.unusedSimpArgs false
namespace Rtsp.Hdr
open Rtsp.Facts

/-! ### pieces -/

theorem parsePorts_portsStr {a b : Nat} (ha : a < 2 ^ 31) (hb : b < 2 ^ 31) : parsePorts (portsStr (a, b)) = .ok (a, b) := by
  have h1 : '-' ∉ dec a := not_mem_dec (by decide) a
  have h2 : '-' ∉ dec b := not_mem_dec (by decide) b
  have pa : parseUint Hdr.portBits (dec a) = some a := parseUint_dec ha
  have pb : parseUint Hdr.portBits (dec b) = some b := parseUint_dec hb
  simp only [parsePorts, portsStr]
  rw [splitOn_append _ h1, splitOn_noSep h2]
  simp [pa, pb]

theorem hexVal_hexDigitUpper : ∀ d, d < 16 → hexVal (hexDigitUpper d) = some d := by decide

theorem hexDigitUpper_ne_semi : ∀ d, d < 16 → hexDigitUpper d ≠ ';' := by decide
theorem hexDigitUpper_ne_comma : ∀ d, d < 16 → hexDigitUpper d ≠ ',' := by decide
theorem hexDigitUpper_ne_quote : ∀ d, d < 16 → hexDigitUpper d ≠ '"' := by decide
theorem hexDigitUpper_ne_space : ∀ d, d < 16 → hexDigitUpper d ≠ ' ' := by decide

theorem parseSsrc_hex8Upper {n : Nat} (h : n < 2 ^ 32) : parseSsrc (hex8Upper n) = some n := by
  have hv := fun d (hd : d < 16) => hexVal_hexDigitUpper d hd
  have hsp := hexDigitUpper_ne_space (n / 0x10000000 % 16) (by omega)
  simp only [parseSsrc, hex8Upper]
  have htrim : ∀ (c : Char) (cs : Str), c ≠ ' ' → trimLeftSp (c :: cs) = c :: cs := by
    intro c cs hc; exact trimLeftSp_of_head (by simpa using hc)
  simp only [htrim _ _ hsp]
  have : Hdr.ssrcMaxBytes = 4 := rfl
  simp only [List.length_cons, List.length_nil, this]
  simp only [Nat.reduceAdd, Nat.reduceMod, Nat.reduceMul, ne_eq, not_true_eq_false, if_false, Nat.le_refl, if_true]
  have hm : ∀ x, x % 16 < 16 := fun x => Nat.mod_lt _ (by decide)
  simp only [hexNat, hv _ (hm _)]
  simp only [List.length_cons, List.length_nil, Nat.reduceAdd, Nat.le_refl, if_true]
  congr 1
  omega

theorem parseMode_play : parseMode cs!"play" = .ok .play := by decide
theorem parseMode_record : parseMode cs!"record" = .ok .record := by decide


/-! ### well-formed transports -/

def PairOk (p : Nat × Nat) : Prop := p.1 < 2 ^ 31 ∧ p.2 < 2 ^ 31
def HostOk (s : Str) : Prop := s ≠ [] ∧ ';' ∉ s ∧ s.head? ≠ some '"'

/-- The grammar of a Transport value that `Marshal` can express and `Unmarshal` reads back:
host fields are non-empty, contain no `;` and do not start with a quote; port numbers fit 31 bits
(`ParseUint(…, 31)`), ttl and ssrc 32 bits. -/
structure Transport.WellFormed (h : Transport) : Prop where
  source : ∀ s, h.source = some s → HostOk s
  destination : ∀ s, h.destination = some s → HostOk s
  interleaved : ∀ p, h.interleaved = some p → PairOk p
  ttl : ∀ n, h.ttl = some n → n < 2 ^ 32
  ports : ∀ p, h.ports = some p → PairOk p
  clientPorts : ∀ p, h.clientPorts = some p → PairOk p
  serverPorts : ∀ p, h.serverPorts = some p → PairOk p
  ssrc : ∀ n, h.ssrc = some n → n < 2 ^ 32

instance decPairOk : DecidablePred PairOk := fun p => by unfold PairOk; infer_instance
instance decHostOk : DecidablePred HostOk := fun s => by unfold HostOk; infer_instance

instance Transport.decWellFormed (h : Transport) : Decidable h.WellFormed :=
  decidable_of_iff ((∀ s, h.source = some s → HostOk s) ∧ (∀ s, h.destination = some s → HostOk s) ∧
      (∀ p, h.interleaved = some p → PairOk p) ∧ (∀ n, h.ttl = some n → n < 2 ^ 32) ∧ (∀ p, h.ports = some p → PairOk p) ∧
      (∀ p, h.clientPorts = some p → PairOk p) ∧ (∀ p, h.serverPorts = some p → PairOk p) ∧ (∀ n, h.ssrc = some n → n < 2 ^ 32))
    ⟨fun ⟨a, b, c, d, e, f, g, i⟩ => ⟨a, b, c, d, e, f, g, i⟩, fun ⟨a, b, c, d, e, f, g, i⟩ => ⟨a, b, c, d, e, f, g, i⟩⟩

example : Transport.WellFormed {
    profile := .savp, protocol := .tcp, delivery := some .multicast, source := some cs!"10.0.0.1",
    interleaved := some (0, 1), ttl := some 4294967295, clientPorts := some (2147483647, 0), ssrc := some 0xDEADBEEF,
    mode := some .record } := by
  decide

def optE (k : Str) : Option Str → List Elem
  | some v => [Elem.plain k v]
  | none => []

def delStr : Delivery → Str
  | .unicast => cs!"unicast"
  | .multicast => cs!"multicast"

def modeStr : Mode → Str
  | .play => cs!"play"
  | .record => cs!"record"

def Transport.elems (h : Transport) : List Elem :=
  [Elem.bare (profileStr h)]
  ++ (match h.delivery with | some d => [Elem.bare (delStr d)] | none => [])
  ++ optE cs!"source" h.source
  ++ optE cs!"destination" h.destination
  ++ optE cs!"interleaved" (h.interleaved.map portsStr)
  ++ optE cs!"port" (h.ports.map portsStr)
  ++ optE cs!"ttl" (h.ttl.map dec)
  ++ optE cs!"client_port" (h.clientPorts.map portsStr)
  ++ optE cs!"server_port" (h.serverPorts.map portsStr)
  ++ optE cs!"ssrc" (h.ssrc.map hex8Upper)
  ++ optE cs!"mode" (h.mode.map modeStr)

theorem optE_text (k : Str) (o : Option Str) : (optE k o).map Elem.text = optField (k ++ ['=']) o := by
  cases o <;> simp [optE, optField, Elem.text]

theorem Transport.marshal_eq (h : Transport) : h.marshal = render ';' 0 h.elems := by
  rw [← joinWith_texts, Transport.marshal]
  congr 1
  simp only [Transport.elems, List.map_append, optE_text, Transport.fields]
  obtain ⟨pr, pt, dl, a3, a4, a5, a6, a7, a8, a9, a10, md⟩ := h
  cases dl with
  | none => cases md with
    | none => simp [optField, Elem.text]
    | some m => cases m <;> simp [optField, Elem.text, modeStr]
  | some d => cases d <;> cases md with
    | none => simp [optField, Elem.text, delStr]
    | some m => cases m <;> simp [optField, Elem.text, modeStr, delStr]


/-! ### the loop over the pairs of a marshalled transport -/

theorem Transport.steps_append (st : Transport × Bool) (a b : List (Str × Str)) :
    Transport.steps st (a ++ b) =
      match Transport.steps st a with
      | .ok st' => Transport.steps st' b
      | .err e => .err e
      | .unm => .unm := by
  induction a generalizing st with
  | nil => rfl
  | cons p ps ih =>
    obtain ⟨k, v⟩ := p
    simp only [List.cons_append, Transport.steps]
    cases Transport.step st k v with
    | ok st' => exact ih st'
    | err e => rfl
    | unm => rfl

theorem step_profile (h0 h : Transport) (pf : Bool) :
    Transport.step (h0, pf) (profileStr h) [] = .ok ({ h0 with profile := h.profile, protocol := h.protocol }, true) := by
  obtain ⟨pr, pt, _, _, _, _, _, _, _, _, _, _⟩ := h
  cases pr <;> cases pt <;> simp [Transport.step, profileStr]

theorem piece_delivery (h0 : Transport) (pf : Bool) (o : Option Delivery) :
    Transport.steps (h0, pf) ((match o with | some d => [Elem.bare (delStr d)] | none => []).map Elem.pair) =
      .ok ({ h0 with delivery := o.or h0.delivery }, pf) := by
  cases o with
  | none => simp [Transport.steps]
  | some d => cases d <;> simp [Transport.steps, Transport.step, delStr, Elem.pair]

theorem piece_source (h0 : Transport) (pf : Bool) (o : Option Str) (wf : ∀ s, o = some s → HostOk s) :
    Transport.steps (h0, pf) ((optE cs!"source" o).map Elem.pair) = .ok ({ h0 with source := o.or h0.source }, pf) := by
  cases o with
  | none => simp [Transport.steps, optE]
  | some v => have := (wf v rfl).1; simp [Transport.steps, Transport.step, optE, Elem.pair, this]

theorem piece_destination (h0 : Transport) (pf : Bool) (o : Option Str) (wf : ∀ s, o = some s → HostOk s) :
    Transport.steps (h0, pf) ((optE cs!"destination" o).map Elem.pair) = .ok ({ h0 with destination := o.or h0.destination }, pf) := by
  cases o with
  | none => simp [Transport.steps, optE]
  | some v => have := (wf v rfl).1; simp [Transport.steps, Transport.step, optE, Elem.pair, this]

theorem piece_interleaved (h0 : Transport) (pf : Bool) (o : Option (Nat × Nat)) (wf : ∀ p, o = some p → PairOk p) :
    Transport.steps (h0, pf) ((optE cs!"interleaved" (o.map portsStr)).map Elem.pair) =
      .ok ({ h0 with interleaved := o.or h0.interleaved }, pf) := by
  cases o with
  | none => simp [Transport.steps, optE]
  | some p =>
    have := parsePorts_portsStr (wf p rfl).1 (wf p rfl).2
    simp [Transport.steps, Transport.step, optE, Elem.pair, this]

theorem piece_ports (h0 : Transport) (pf : Bool) (o : Option (Nat × Nat)) (wf : ∀ p, o = some p → PairOk p) :
    Transport.steps (h0, pf) ((optE cs!"port" (o.map portsStr)).map Elem.pair) =
      .ok ({ h0 with ports := o.or h0.ports }, pf) := by
  cases o with
  | none => simp [Transport.steps, optE]
  | some p =>
    have := parsePorts_portsStr (wf p rfl).1 (wf p rfl).2
    simp [Transport.steps, Transport.step, optE, Elem.pair, this]

theorem piece_clientPorts (h0 : Transport) (pf : Bool) (o : Option (Nat × Nat)) (wf : ∀ p, o = some p → PairOk p) :
    Transport.steps (h0, pf) ((optE cs!"client_port" (o.map portsStr)).map Elem.pair) =
      .ok ({ h0 with clientPorts := o.or h0.clientPorts }, pf) := by
  cases o with
  | none => simp [Transport.steps, optE]
  | some p =>
    have := parsePorts_portsStr (wf p rfl).1 (wf p rfl).2
    simp [Transport.steps, Transport.step, optE, Elem.pair, this]

theorem piece_serverPorts (h0 : Transport) (pf : Bool) (o : Option (Nat × Nat)) (wf : ∀ p, o = some p → PairOk p) :
    Transport.steps (h0, pf) ((optE cs!"server_port" (o.map portsStr)).map Elem.pair) =
      .ok ({ h0 with serverPorts := o.or h0.serverPorts }, pf) := by
  cases o with
  | none => simp [Transport.steps, optE]
  | some p =>
    have := parsePorts_portsStr (wf p rfl).1 (wf p rfl).2
    simp [Transport.steps, Transport.step, optE, Elem.pair, this]

theorem piece_ttl (h0 : Transport) (pf : Bool) (o : Option Nat) (wf : ∀ n, o = some n → n < 2 ^ 32) :
    Transport.steps (h0, pf) ((optE cs!"ttl" (o.map dec)).map Elem.pair) = .ok ({ h0 with ttl := o.or h0.ttl }, pf) := by
  cases o with
  | none => simp [Transport.steps, optE]
  | some n =>
    have : parseUint Hdr.ttlBits (dec n) = some n := parseUint_dec (wf n rfl)
    simp [Transport.steps, Transport.step, optE, Elem.pair, this]

theorem piece_ssrc (h0 : Transport) (pf : Bool) (o : Option Nat) (wf : ∀ n, o = some n → n < 2 ^ 32) :
    Transport.steps (h0, pf) ((optE cs!"ssrc" (o.map hex8Upper)).map Elem.pair) = .ok ({ h0 with ssrc := o.or h0.ssrc }, pf) := by
  cases o with
  | none => simp [Transport.steps, optE]
  | some n =>
    have := parseSsrc_hex8Upper (wf n rfl)
    simp [Transport.steps, Transport.step, optE, Elem.pair, this]

theorem piece_mode (h0 : Transport) (pf : Bool) (o : Option Mode) :
    Transport.steps (h0, pf) ((optE cs!"mode" (o.map modeStr)).map Elem.pair) = .ok ({ h0 with mode := o.or h0.mode }, pf) := by
  cases o with
  | none => simp [Transport.steps, optE]
  | some m =>
    cases m
    · simp [Transport.steps, Transport.step, optE, Elem.pair, modeStr, parseMode_play]
    · simp [Transport.steps, Transport.step, optE, Elem.pair, modeStr, parseMode_record]

theorem Transport.steps_elems (h : Transport) (wf : h.WellFormed) :
    Transport.steps ({}, false) (h.elems.map Elem.pair) = .ok (h, true) := by
  simp only [Transport.elems, List.map_append, Transport.steps_append]
  have h1 : Transport.steps ({}, false) ([Elem.bare (profileStr h)].map Elem.pair) =
      .ok ({ profile := h.profile, protocol := h.protocol }, true) := by
    simp only [List.map, Elem.pair, Transport.steps, step_profile]
  rw [h1]; simp only
  rw [piece_delivery]; simp only
  rw [piece_source _ _ _ wf.source]; simp only
  rw [piece_destination _ _ _ wf.destination]; simp only
  rw [piece_interleaved _ _ _ wf.interleaved]; simp only
  rw [piece_ports _ _ _ wf.ports]; simp only
  rw [piece_ttl _ _ _ wf.ttl]; simp only
  rw [piece_clientPorts _ _ _ wf.clientPorts]; simp only
  rw [piece_serverPorts _ _ _ wf.serverPorts]; simp only
  rw [piece_ssrc _ _ _ wf.ssrc]; simp only
  rw [piece_mode]
  simp only [Option.or_none]


/-! ### the elements are well-formed and their keys distinct -/

theorem optE_ok {k : Str} (hk : KeyOk ';' k) {o : Option Str} (hv : ∀ v, o = some v → ';' ∉ v ∧ v.head? ≠ some '"') :
    ∀ e ∈ optE k o, e.Ok ';' := by
  cases o with
  | none => simp [optE]
  | some v => simp only [optE, List.mem_singleton]; intro e he; subst he; exact ⟨hk, hv v rfl⟩

theorem portsStr_ok (c : Char) (hc : c.isDigit = false) (hm : c ≠ '-') (p : Nat × Nat) :
    c ∉ portsStr p ∧ (portsStr p).head? ≠ some c := by
  have h1 := not_mem_dec hc p.1
  have h2 := not_mem_dec hc p.2
  constructor
  · simp [portsStr, h1, h2, hm]
  · have hne := dec_ne_nil p.1
    have hh := dec_head_ne hc p.1
    simp only [portsStr]
    cases hd : dec p.1 with
    | nil => exact absurd hd hne
    | cons x xs => rw [hd] at hh; simpa using hh

theorem hex8Upper_mem {c : Char} (h : c ∈ hex8Upper n) : ∃ d, d < 16 ∧ c = hexDigitUpper d := by
  have hm : ∀ x, x % 16 < 16 := fun x => Nat.mod_lt _ (by decide)
  simp only [hex8Upper, List.mem_cons, List.not_mem_nil, or_false] at h
  rcases h with h | h | h | h | h | h | h | h <;> exact ⟨_, hm _, h⟩

theorem hex8Upper_ok (n : Nat) : ';' ∉ hex8Upper n ∧ (hex8Upper n).head? ≠ some '"' := by
  constructor
  · intro h; obtain ⟨d, hd, e⟩ := hex8Upper_mem h; exact hexDigitUpper_ne_semi d hd e.symm
  · simp only [hex8Upper, List.head?_cons, ne_eq, Option.some.injEq]
    exact hexDigitUpper_ne_quote _ (Nat.mod_lt _ (by decide))

theorem Transport.elems_ok (h : Transport) (wf : h.WellFormed) : ∀ e ∈ h.elems, e.Ok ';' := by
  have hp : ∀ o : Option (Nat × Nat), ∀ v, o.map portsStr = some v → ';' ∉ v ∧ v.head? ≠ some '"' := by
    intro o v hv
    cases o with
    | none => cases hv
    | some p => simp at hv; subst hv; exact ⟨(portsStr_ok ';' (by decide) (by decide) p).1, (portsStr_ok '"' (by decide) (by decide) p).2⟩
  intro e he
  simp only [Transport.elems, List.mem_append] at he
  rcases he with ((((((((((he | he) | he) | he) | he) | he) | he) | he) | he) | he) | he)
  · simp only [List.mem_singleton] at he; subst he
    obtain ⟨pr, pt, _, _, _, _, _, _, _, _, _, _⟩ := h
    cases pr <;> cases pt <;> (simp only [Elem.Ok, profileStr]; key_ok)
  · cases hd : h.delivery with
    | none => rw [hd] at he; cases he
    | some d => rw [hd] at he; simp only [List.mem_singleton] at he; subst he; cases d <;> (simp only [Elem.Ok, delStr]; key_ok)
  · exact optE_ok (by key_ok) (fun v hv => ⟨(wf.source v hv).2.1, (wf.source v hv).2.2⟩) e he
  · exact optE_ok (by key_ok) (fun v hv => ⟨(wf.destination v hv).2.1, (wf.destination v hv).2.2⟩) e he
  · exact optE_ok (by key_ok) (hp _) e he
  · exact optE_ok (by key_ok) (hp _) e he
  · refine optE_ok (by key_ok) ?_ e he
    intro v hv
    cases ht : h.ttl with
    | none => rw [ht] at hv; cases hv
    | some n => rw [ht] at hv; simp at hv; subst hv; exact ⟨not_mem_dec (by decide) n, dec_head_ne (by decide) n⟩
  · exact optE_ok (by key_ok) (hp _) e he
  · exact optE_ok (by key_ok) (hp _) e he
  · refine optE_ok (by key_ok) ?_ e he
    intro v hv
    cases ht : h.ssrc with
    | none => rw [ht] at hv; cases hv
    | some n => rw [ht] at hv; simp at hv; subst hv; exact hex8Upper_ok n
  · refine optE_ok (by key_ok) ?_ e he
    intro v hv
    cases ht : h.mode with
    | none => rw [ht] at hv; cases hv
    | some m => rw [ht] at hv; simp at hv; subst hv; cases m <;> decide

theorem optE_keys_sublist (k : Str) (o : Option Str) : ((optE k o).map Elem.key).Sublist [k] := by
  cases o <;> simp [optE, Elem.key]

theorem Transport.elems_nodup (h : Transport) : (h.elems.map Elem.key).Nodup := by
  have hsub : (h.elems.map Elem.key).Sublist
      ([profileStr h] ++ [delStr (h.delivery.getD .unicast)] ++ [cs!"source"] ++ [cs!"destination"] ++ [cs!"interleaved"] ++ [cs!"port"]
        ++ [cs!"ttl"] ++ [cs!"client_port"] ++ [cs!"server_port"] ++ [cs!"ssrc"] ++ [cs!"mode"]) := by
    simp only [Transport.elems, List.map_append]
    refine List.Sublist.append (List.Sublist.append (List.Sublist.append (List.Sublist.append (List.Sublist.append
      (List.Sublist.append (List.Sublist.append (List.Sublist.append (List.Sublist.append (List.Sublist.append ?_ ?_)
      (optE_keys_sublist _ _)) (optE_keys_sublist _ _)) (optE_keys_sublist _ _)) (optE_keys_sublist _ _))
      (optE_keys_sublist _ _)) (optE_keys_sublist _ _)) (optE_keys_sublist _ _)) (optE_keys_sublist _ _)) (optE_keys_sublist _ _)
    · simp [Elem.key]
    · cases h.delivery <;> simp [Elem.key]
  refine List.Sublist.nodup hsub ?_
  obtain ⟨pr, pt, dl, _, _, _, _, _, _, _, _, _⟩ := h
  cases pr <;> cases pt <;> cases dl with
  | none => simp only [profileStr, delStr, Option.getD]; decide
  | some d => cases d <;> (simp only [profileStr, delStr, Option.getD]; decide)

/-- **Transport round trip** -/
theorem Transport.unmarshal_marshal (h : Transport) (wf : h.WellFormed) :
    Transport.unmarshal [h.marshal] = .ok h := by
  have hkv := keyValParse_render (sep := ';') (by decide) (by decide) (by decide) 0 _ (Transport.elems_ok h wf) (Transport.elems_nodup h)
  simp only [Transport.unmarshal, Transport.unmarshalWith, Transport.unmarshal1With]
  rw [Transport.marshal_eq, hkv]
  simp only [Transport.steps_elems h wf]


/-! ### Transports -/

theorem render_not_mem {c sep : Char} (hc : c ≠ sep) {es : List Elem} (h : ∀ e ∈ es, c ∉ e.text) :
    c ∉ render sep 0 es := by
  induction es with
  | nil => simp [render]
  | cons e rest ih =>
    cases rest with
    | nil => simpa [render] using h e (by simp)
    | cons e' es =>
      have := ih (fun x hx => h x (by simp [hx]))
      simp only [render, List.replicate, List.nil_append, List.mem_append, List.mem_cons, not_or]
      exact ⟨h e (by simp), hc, this⟩

theorem optE_noComma {k : Str} (hk : ',' ∉ k) {o : Option Str} (hv : ∀ v, o = some v → ',' ∉ v) :
    ∀ e ∈ optE k o, ',' ∉ e.text := by
  cases o with
  | none => simp [optE]
  | some v =>
    simp only [optE, List.mem_singleton]; intro e he; subst he
    simp [Elem.text, hk, hv v rfl]

/-- a transport inside a `Transports` header: additionally no `,` in the host fields -/
structure Transport.WellFormedListed (h : Transport) : Prop extends Transport.WellFormed h where
  sourceNoComma : ∀ s, h.source = some s → ',' ∉ s
  destinationNoComma : ∀ s, h.destination = some s → ',' ∉ s

instance Transport.decWellFormedListed (h : Transport) : Decidable h.WellFormedListed :=
  decidable_of_iff (h.WellFormed ∧ (∀ s, h.source = some s → ',' ∉ s) ∧ (∀ s, h.destination = some s → ',' ∉ s))
    ⟨fun ⟨a, b, c⟩ => ⟨a, b, c⟩, fun ⟨a, b, c⟩ => ⟨a, b, c⟩⟩

theorem Transport.marshal_noComma (h : Transport) (wf : h.WellFormedListed) : ',' ∉ h.marshal := by
  rw [Transport.marshal_eq]
  apply render_not_mem (by decide)
  have hp : ∀ o : Option (Nat × Nat), ∀ v, o.map portsStr = some v → ',' ∉ v := by
    intro o v hv
    cases o with
    | none => cases hv
    | some p => simp at hv; subst hv; exact (portsStr_ok ',' (by decide) (by decide) p).1
  intro e he
  simp only [Transport.elems, List.mem_append] at he
  rcases he with ((((((((((he | he) | he) | he) | he) | he) | he) | he) | he) | he) | he)
  · simp only [List.mem_singleton] at he; subst he
    obtain ⟨pr, pt, _, _, _, _, _, _, _, _, _, _⟩ := h
    cases pr <;> cases pt <;> (simp only [Elem.text, profileStr]; decide)
  · cases hd : h.delivery with
    | none => rw [hd] at he; cases he
    | some d => rw [hd] at he; simp only [List.mem_singleton] at he; subst he; cases d <;> (simp only [Elem.text, delStr]; decide)
  · exact optE_noComma (by decide) wf.sourceNoComma e he
  · exact optE_noComma (by decide) wf.destinationNoComma e he
  · exact optE_noComma (by decide) (hp _) e he
  · exact optE_noComma (by decide) (hp _) e he
  · refine optE_noComma (by decide) ?_ e he
    intro v hv
    cases ht : h.ttl with
    | none => rw [ht] at hv; cases hv
    | some n => rw [ht] at hv; simp at hv; subst hv; exact not_mem_dec (by decide) n
  · exact optE_noComma (by decide) (hp _) e he
  · exact optE_noComma (by decide) (hp _) e he
  · refine optE_noComma (by decide) ?_ e he
    intro v hv
    cases ht : h.ssrc with
    | none => rw [ht] at hv; cases hv
    | some n =>
      rw [ht] at hv; simp at hv; subst hv
      intro hm; obtain ⟨d, hd, e⟩ := hex8Upper_mem hm; exact hexDigitUpper_ne_comma d hd e.symm
  · refine optE_noComma (by decide) ?_ e he
    intro v hv
    cases ht : h.mode with
    | none => rw [ht] at hv; cases hv
    | some m => rw [ht] at hv; simp at hv; subst hv; cases m <;> decide

theorem Transports.unmarshalEach_marshal : ∀ (ts : List Transport), (∀ t ∈ ts, t.WellFormedListed) →
    Transports.unmarshalEach keyValParse (ts.map Transport.marshal) = .ok ts
  | [], _ => rfl
  | t :: ts, h => by
    have wf := (h t (by simp)).toWellFormed
    have htrim : trimLeftSp t.marshal = t.marshal := by
      rw [Transport.marshal_eq]; exact trimLeftSp_of_head (render_head (Transport.elems_ok t wf))
    have h1 : Transport.unmarshal1With keyValParse t.marshal = .ok t := by
      have := Transport.unmarshal_marshal t wf
      simpa [Transport.unmarshal, Transport.unmarshalWith] using this
    simp only [List.map_cons, Transports.unmarshalEach, htrim, h1]
    rw [Transports.unmarshalEach_marshal ts (fun x hx => h x (by simp [hx]))]

structure Transports.WellFormed (ts : List Transport) : Prop where
  ne : ts ≠ []
  each : ∀ t ∈ ts, t.WellFormedListed

instance Transports.decWellFormed (ts : List Transport) : Decidable (Transports.WellFormed ts) :=
  decidable_of_iff (ts ≠ [] ∧ ∀ t ∈ ts, t.WellFormedListed) ⟨fun ⟨a, b⟩ => ⟨a, b⟩, fun ⟨a, b⟩ => ⟨a, b⟩⟩

example : Transports.WellFormed [{ protocol := .tcp, interleaved := some (0, 1) }, { delivery := some .unicast, clientPorts := some (3456, 3457) }] := by
  decide

/-- **Transports round trip** -/
theorem Transports.unmarshal_marshal (ts : List Transport) (wf : Transports.WellFormed ts) :
    Transports.unmarshal [Transports.marshal ts] = .ok ts := by
  simp only [Transports.unmarshal, Transports.unmarshalWith, Transports.marshal]
  rw [splitOn_joinWith _ (by simpa using wf.ne)
      (by intro p hp; obtain ⟨t, ht, rfl⟩ := List.mem_map.mp hp; exact Transport.marshal_noComma t (wf.each t ht))]
  exact Transports.unmarshalEach_marshal ts wf.each

end Rtsp.Hdr
