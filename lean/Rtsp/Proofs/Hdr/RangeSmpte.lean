import Rtsp.Proofs.Hdr.Digits
set_option linter.unusedSimpArgs false
namespace Rtsp.Hdr
open Rtsp.Facts

theorem not_mem_pad2 {c : Char} (hc : c.isDigit = false) (n : Nat) : c ∉ pad2 n := by
  unfold pad2
  have h0 : c ≠ '0' := by intro e; subst e; simp at hc
  have := not_mem_dec hc n
  split <;> simp [this, h0]

theorem pad2_ne_nil (n : Nat) : pad2 n ≠ [] := by
  unfold pad2; split
  · simp
  · exact dec_ne_nil n

theorem wrap64_small {x : Int} (h1 : -9223372036854775808 ≤ x) (h2 : x < 9223372036854775808) : wrap64 x = x := by
  unfold wrap64; omega

theorem secsToDur_small {d : Nat} (h : d < 9007199255) : secsToDur d = (d : Int) * 1000000000 := by
  unfold secsToDur
  have : (d % 18446744073709551616 : Nat) = d := Nat.mod_eq_of_lt (by omega)
  rw [this]
  have e : Int.ofNat d = (d : Int) := rfl
  rw [e, wrap64_small (x := (d : Int)) (by omega) (by omega), wrap64_small (by omega) (by omega)]

theorem split3 {a b c : Str} (ha : ':' ∉ a) (hb : ':' ∉ b) (hc : ':' ∉ c) :
    splitOn ':' (a ++ ':' :: (b ++ ':' :: c)) = [a, b, c] := by
  rw [splitOn_append _ ha, splitOn_append _ hb, splitOn_noSep hc]

theorem split4 {a b c d : Str} (ha : ':' ∉ a) (hb : ':' ∉ b) (hc : ':' ∉ c) (hd : ':' ∉ d) :
    splitOn ':' (a ++ ':' :: (b ++ ':' :: (c ++ ':' :: d))) = [a, b, c, d] := by
  rw [splitOn_append _ ha, splitOn_append _ hb, splitOn_append _ hc, splitOn_noSep hd]

/-- an SMPTE time that `marshal` prints faithfully: a whole number of seconds, non-negative, below
2^53 ns (`uint64(t.Time.Seconds())` is exact there); frame numbers fit `ParseUint(…, 32)` -/
structure SmpteTime.WF (t : SmpteTime) : Prop where
  nonneg : 0 ≤ t.time
  whole : t.time % 1000000000 = 0
  small : t.time < 9007199254740992
  frame : t.frame < 2 ^ 32
  subframe : t.subframe < 2 ^ 32

instance SmpteTime.decWF (t : SmpteTime) : Decidable t.WF :=
  decidable_of_iff (0 ≤ t.time ∧ t.time % 1000000000 = 0 ∧ t.time < 9007199254740992 ∧ t.frame < 2 ^ 32 ∧ t.subframe < 2 ^ 32)
    ⟨fun ⟨a, b, c, d, e⟩ => ⟨a, b, c, d, e⟩, fun ⟨a, b, c, d, e⟩ => ⟨a, b, c, d, e⟩⟩

example : SmpteTime.WF { time := 36420000000000, frame := 5, subframe := 1 } := by decide

def smpteBase (d : Nat) : Str := dec (d / 3600) ++ ':' :: (pad2 (d % 3600 / 60) ++ ':' :: pad2 (d % 60))

theorem smpteHms_base {d : Nat} (h : d < 9007199255) :
    smpteHms (dec (d / 3600)) (pad2 (d % 3600 / 60)) (pad2 (d % 60)) = .ok ((d : Int) * 1000000000) := by
  have p1 : parseUint Hdr.hmsBits (dec (d / 3600)) = some (d / 3600) := parseUint_dec (by show _ < 2 ^ 64; omega)
  have p2 : parseUint Hdr.hmsBits (pad2 (d % 3600 / 60)) = some (d % 3600 / 60) := parseUint_pad2 (by show _ < 2 ^ 64; omega)
  have p3 : parseUint Hdr.hmsBits (pad2 (d % 60)) = some (d % 60) := parseUint_pad2 (by show _ < 2 ^ 64; omega)
  simp only [smpteHms, p1, p2, p3]
  have e : d % 60 + d % 3600 / 60 * 60 + d / 3600 * 3600 = d := by omega
  rw [e, secsToDur_small h]

theorem SmpteTime.marshal_eq (t : SmpteTime) :
    t.marshal =
      if t.frame > 0 ∨ t.subframe > 0 then
        if t.subframe > 0 then smpteBase (t.time.toNat / 1000000000) ++ ':' :: (pad2 t.frame ++ '.' :: pad2 t.subframe)
        else smpteBase (t.time.toNat / 1000000000) ++ ':' :: pad2 t.frame
      else smpteBase (t.time.toNat / 1000000000) := by
  simp only [SmpteTime.marshal, smpteBase]
  split
  · split <;> simp
  · simp

theorem smpte_noChar {c : Char} (hc : c.isDigit = false) (h1 : c ≠ ':') (h2 : c ≠ '.') (t : SmpteTime) : c ∉ t.marshal := by
  have a := fun n => not_mem_dec hc n
  have b := fun n => not_mem_pad2 hc n
  rw [SmpteTime.marshal_eq]
  split
  · split <;> simp [smpteBase, a, b, h1, h2]
  · simp [smpteBase, a, b, h1]

theorem SmpteTime.marshal_ne_nil (t : SmpteTime) : t.marshal ≠ [] := by
  have := dec_ne_nil (t.time.toNat / 1000000000 / 3600)
  rw [SmpteTime.marshal_eq]
  split
  · split <;> simp [smpteBase, this]
  · simp [smpteBase, this]

theorem SmpteTime.unmarshal_marshal (t : SmpteTime) (wf : t.WF) : SmpteTime.unmarshal t.marshal = .ok t := by
  obtain ⟨tm, fr, sf⟩ := t
  have w1 := wf.nonneg; have w2 := wf.whole; have w3 := wf.small; have w4 := wf.frame; have w5 := wf.subframe
  simp only at w1 w2 w3 w4 w5
  have hd : tm.toNat / 1000000000 < 9007199255 := by omega
  have htm : ((tm.toNat / 1000000000 : Nat) : Int) * 1000000000 = tm := by omega
  have c1 : ':' ∉ dec (tm.toNat / 1000000000 / 3600) := not_mem_dec (by decide) _
  have c2 : ∀ n, ':' ∉ pad2 n := not_mem_pad2 (by decide)
  have c3 : ∀ n, '.' ∉ pad2 n := not_mem_pad2 (by decide)
  have hb := smpteHms_base hd
  rw [SmpteTime.marshal_eq]
  simp only
  by_cases hsf : sf > 0
  · have pf : parseUint Hdr.frameBits (pad2 fr) = some fr := parseUint_pad2 w4
    have ps : parseUint Hdr.frameBits (pad2 sf) = some sf := parseUint_pad2 w5
    have hnc : ':' ∉ pad2 fr ++ '.' :: pad2 sf := by simp [c2]
    simp only [hsf, or_true, if_true, smpteBase, SmpteTime.unmarshal, List.append_assoc, List.cons_append]
    rw [split4 c1 (c2 _) (c2 _) hnc]
    simp only [hb, splitOn_append _ (c3 fr), splitOn_noSep (c3 sf), pf, ps, htm]
  · have hsf0 : sf = 0 := by omega
    subst hsf0
    by_cases hfr : fr > 0
    · have pf : parseUint Hdr.frameBits (pad2 fr) = some fr := parseUint_pad2 w4
      simp only [hfr, true_or, if_true, hsf, if_false, smpteBase, SmpteTime.unmarshal, List.append_assoc, List.cons_append]
      rw [split4 c1 (c2 _) (c2 _) (c2 fr)]
      simp only [hb, splitOn_noSep (c3 fr), pf, htm]
    · have hfr0 : fr = 0 := by omega
      subst hfr0
      simp only [hfr, hsf, or_self, if_false, smpteBase, SmpteTime.unmarshal]
      rw [split3 c1 (c2 _) (c2 _)]
      simp only [hb, htm]

end Rtsp.Hdr
