import Rtsp.Proofs.Hdr.KeyVal
import Rtsp.Model.Headers.Session
namespace Rtsp.Hdr
open Rtsp.Facts

/-- a literal key is well-formed for both separators -/
macro "key_ok" : tactic => `(tactic| (constructor <;> decide))

structure Session.WellFormed (h : Session) : Prop where
  noSemi : ';' ∉ h.session
  timeout : ∀ t, h.timeout = some t → t < 2 ^ 32

instance Session.decWellFormed (h : Session) : Decidable h.WellFormed :=
  decidable_of_iff (';' ∉ h.session ∧ ∀ t, h.timeout = some t → t < 2 ^ 32)
    ⟨fun ⟨a, b⟩ => ⟨a, b⟩, fun ⟨a, b⟩ => ⟨a, b⟩⟩

example : Session.WellFormed { session := cs!"abc 12", timeout := some 60 } := by decide

theorem Session.unmarshal_marshal (h : Session) (wf : h.WellFormed) :
    Session.unmarshal [h.marshal] = .ok h := by
  obtain ⟨id, to⟩ := h
  cases to with
  | none =>
    simp only [Session.marshal, Session.unmarshal, Session.unmarshalWith, Session.unmarshal1With]
    rw [cut_none wf.noSemi]
  | some t =>
    have ht : t < 2 ^ 32 := wf.timeout t rfl
    have hm : Session.marshal { session := id, timeout := some t } = id ++ ';' :: (render ';' 0 [Elem.plain cs!"timeout" (dec t)]) := by
      simp [Session.marshal, render, Elem.text]
    have hok : ∀ e ∈ [Elem.plain cs!"timeout" (dec t)], e.Ok ';' := by
      intro e he; simp at he; subst he
      exact ⟨by key_ok, not_mem_dec (by decide) t, dec_head_ne (by decide) t⟩
    have hkv := keyValParse_render (sep := ';') (by decide) (by decide) (by decide) 0 _ hok (by simp)
    have htrim : trimLeftSp (render ';' 0 [Elem.plain cs!"timeout" (dec t)]) = render ';' 0 [Elem.plain cs!"timeout" (dec t)] :=
      trimLeftSp_of_head (render_head hok)
    simp only [Session.unmarshal, Session.unmarshalWith, Session.unmarshal1With, hm]
    rw [cut_append _ wf.noSemi]
    simp only [htrim, hkv, List.map, Elem.pair, Session.steps]
    have : parseUint Hdr.timeoutBits (dec t) = some t := parseUint_dec ht
    simp [this, Session.steps]

end Rtsp.Hdr
