import Rtsp.Proofs.Hdr.Digits
set_option linter.unusedSimpArgs false
namespace Rtsp.Hdr
open Rtsp.Facts

/-- a civil time that the layout `20060102T150405Z` can print: year 0..9999, valid calendar day,
whole seconds -/
structure Civil.WF (c : Civil) : Prop where
  year : c.year < 10000
  month : 1 ≤ c.month ∧ c.month ≤ 12
  day : 1 ≤ c.day ∧ c.day ≤ daysIn c.month c.year
  hour : c.hour < 24
  min : c.min < 60
  sec : c.sec < 60
  nsec : c.nsec = 0

instance Civil.decWF (c : Civil) : Decidable c.WF :=
  decidable_of_iff (c.year < 10000 ∧ (1 ≤ c.month ∧ c.month ≤ 12) ∧ (1 ≤ c.day ∧ c.day ≤ daysIn c.month c.year) ∧
      c.hour < 24 ∧ c.min < 60 ∧ c.sec < 60 ∧ c.nsec = 0)
    ⟨fun ⟨a, b, c, d, e, f, g⟩ => ⟨a, b, c, d, e, f, g⟩, fun ⟨a, b, c, d, e, f, g⟩ => ⟨a, b, c, d, e, f, g⟩⟩

example : Civil.WF { year := 2024, month := 2, day := 29, hour := 23, min := 59, sec := 59 } := by decide
example : ¬ Civil.WF { year := 1900, month := 2, day := 29 } := by decide

theorem daysIn_le (m y : Nat) : daysIn m y ≤ 31 := by
  unfold daysIn; split
  · split <;> omega
  · split <;> omega

theorem d2_digitChar {n : Nat} (h : n < 100) : d2 (Nat.digitChar (n / 10)) (Nat.digitChar (n % 10)) = n := by
  have h1 := digitChar_val (n / 10) (by omega)
  have h2 := digitChar_val (n % 10) (by omega)
  simp only [d2, h1, h2]; omega

theorem marshalUTC_ne_nil (c : Civil) : marshalUTC c ≠ [] := by
  simp [marshalUTC]

theorem parseUTC_marshalUTC (c : Civil) (wf : c.WF) : parseUTC (marshalUTC c) = .ok c := by
  obtain ⟨y, mo, d, h, mi, s, ns⟩ := c
  have hy := wf.year; have hmo := wf.month; have hd := wf.day; have hh := wf.hour
  have hmi := wf.min; have hs := wf.sec; have hns := wf.nsec
  simp only at hy hmo hd hh hmi hs hns
  subst hns
  have hdl := daysIn_le mo y
  have dg := fun n (hn : n < 10) => digitChar_isDigit n hn
  have e1 := pad4_lt hy
  have e2 := pad2_lt100 (show mo < 100 by omega)
  have e3 := pad2_lt100 (show d < 100 by omega)
  have e4 := pad2_lt100 (show h < 100 by omega)
  have e5 := pad2_lt100 (show mi < 100 by omega)
  have e6 := pad2_lt100 (show s < 100 by omega)
  simp only [marshalUTC, e1, e2, e3, e4, e5, e6, List.cons_append, List.nil_append, parseUTC, utcTail]
  have v1 : Nat.ofDigitChars 10 [Nat.digitChar (y / 1000), Nat.digitChar (y / 100 % 10), Nat.digitChar (y / 10 % 10), Nat.digitChar (y % 10)] 0 = y := by
    simp only [Nat.ofDigitChars_cons, Nat.ofDigitChars_nil]
    have a := digitChar_val (y / 1000) (by omega)
    have b := digitChar_val (y / 100 % 10) (by omega)
    have c := digitChar_val (y / 10 % 10) (by omega)
    have d := digitChar_val (y % 10) (by omega)
    simp only [Char.reduceToNat] at a b c d ⊢
    rw [a, b, c, d]; omega
  have hall : [Nat.digitChar (y / 1000), Nat.digitChar (y / 100 % 10), Nat.digitChar (y / 10 % 10), Nat.digitChar (y % 10),
      Nat.digitChar (mo / 10), Nat.digitChar (mo % 10), Nat.digitChar (d / 10), Nat.digitChar (d % 10),
      Nat.digitChar (h / 10), Nat.digitChar (h % 10), Nat.digitChar (mi / 10), Nat.digitChar (mi % 10),
      Nat.digitChar (s / 10), Nat.digitChar (s % 10)].all Char.isDigit = true := by
    simp only [List.all_cons, List.all_nil, Bool.and_true, Bool.and_eq_true]
    refine ⟨dg _ (by omega), dg _ (by omega), dg _ (by omega), dg _ (by omega), dg _ (by omega), dg _ (by omega), dg _ (by omega),
      dg _ (by omega), dg _ (by omega), dg _ (by omega), dg _ (by omega), dg _ (by omega), dg _ (by omega), dg _ (by omega)⟩
  simp only [hall, if_true, v1, d2_digitChar (show mo < 100 by omega), d2_digitChar (show d < 100 by omega),
    d2_digitChar (show h < 100 by omega), d2_digitChar (show mi < 100 by omega), d2_digitChar (show s < 100 by omega)]
  simp [hmo, hd, hh, hmi, hs]

end Rtsp.Hdr
