import Rtsp.Proofs.Hdr.Authorization
import Rtsp.Proofs.Hdr.Mikey
import Rtsp.Model.Headers.KeyMgmt
set_option linter.unusedSimpArgs false
namespace Rtsp.Hdr
open Rtsp.Facts

/-! ### the base64 text contains no double quote -/

theorem encChar_ne_quote (n : Nat) : B64Std.encChar n ≠ 34 := by
  intro h
  have h' := congrArg UInt8.toNat h
  unfold B64Std.encChar at h'
  split at h'
  · simp [UInt8.toNat_ofNat'] at h'; omega
  · split at h'
    · simp [UInt8.toNat_ofNat'] at h'; omega
    · split at h'
      · simp [UInt8.toNat_ofNat'] at h'; omega
      · split at h' <;> simp at h'

theorem encode_noQuote (bs : List UInt8) : ∀ c ∈ B64Std.encode bs, c ≠ 34 := by
  fun_induction B64Std.encode bs with
  | case1 a b c rest n ih =>
    intro x hx
    simp only [List.mem_cons] at hx
    rcases hx with hx | hx | hx | hx | hx
    · subst hx; exact encChar_ne_quote _
    · subst hx; exact encChar_ne_quote _
    · subst hx; exact encChar_ne_quote _
    · subst hx; exact encChar_ne_quote _
    · exact ih x hx
  | case2 a b n =>
    intro x hx
    simp only [List.mem_cons, List.not_mem_nil, or_false] at hx
    rcases hx with hx | hx | hx | hx
    · subst hx; exact encChar_ne_quote _
    · subst hx; exact encChar_ne_quote _
    · subst hx; exact encChar_ne_quote _
    · subst hx; decide
  | case3 a n =>
    intro x hx
    simp only [List.mem_cons, List.not_mem_nil, or_false] at hx
    rcases hx with hx | hx | hx | hx
    · subst hx; exact encChar_ne_quote _
    · subst hx; exact encChar_ne_quote _
    · subst hx; decide
    · subst hx; decide
  | case4 => simp

theorem ofBytes_encode_noQuote (bs : List UInt8) : '"' ∉ ofBytes (B64Std.encode bs) := by
  intro h
  simp only [ofBytes, List.mem_map] at h
  obtain ⟨x, hx, he⟩ := h
  have hne := encode_noQuote bs x hx
  have : (Char.ofNat x.toNat).toNat = x.toNat := char_toNat_ofNat x.toNat_lt
  rw [he] at this
  apply hne
  apply UInt8.toNat_inj.mp
  rw [← this]; rfl

/-! ### KeyMgmt -/

structure KeyMgmt.WellFormed (h : KeyMgmt) : Prop where
  url : '"' ∉ h.url
  msg : h.msg.WF

def KeyMgmt.elems (h : KeyMgmt) : List Elem :=
  [Elem.plain cs!"prot" cs!"mikey", Elem.quoted cs!"uri" h.url, Elem.quoted cs!"data" (ofBytes (B64Std.encode h.msg.marshal))]

theorem KeyMgmt.marshal_eq (h : KeyMgmt) : h.marshal = render ';' 0 h.elems := by
  simp [KeyMgmt.marshal, KeyMgmt.elems, render, Elem.text, quoted]

/-- **KeyMgmt round trip** -/
theorem KeyMgmt.unmarshal_marshal (h : KeyMgmt) (wf : h.WellFormed) : KeyMgmt.unmarshal [h.marshal] = .ok h := by
  have hok : ∀ e ∈ h.elems, e.Ok ';' := by
    intro e he
    simp only [KeyMgmt.elems, List.mem_cons, List.not_mem_nil, or_false] at he
    rcases he with he | he | he
    · subst he; exact ⟨by key_ok, by decide, by decide⟩
    · subst he; exact ⟨by key_ok, wf.url⟩
    · subst he; exact ⟨by key_ok, ofBytes_encode_noQuote _⟩
  have hnd : (h.elems.map Elem.key).Nodup := by simp [KeyMgmt.elems, Elem.key]
  have hkv := keyValParse_render (sep := ';') (by decide) (by decide) (by decide) 0 _ hok hnd
  simp only [KeyMgmt.unmarshal, KeyMgmt.unmarshalWith, KeyMgmt.unmarshal1With]
  rw [KeyMgmt.marshal_eq, hkv]
  obtain ⟨u, m⟩ := h
  simp [KeyMgmt.elems, Elem.pair, KeyMgmt.steps, toBytes_ofBytes, B64Std.decode_encode, Mikey.Message.unmarshal_marshal m wf.msg]

end Rtsp.Hdr
