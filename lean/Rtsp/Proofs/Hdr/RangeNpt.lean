import Rtsp.Proofs.Hdr.RangeSmpte
set_option linter.unusedSimpArgs false
namespace Rtsp.Hdr
open Rtsp.Facts

/-! ### nine-digit fractions -/

/-- the zero-padded nine-digit numeral of `r` -/
def pad9 (r : Nat) : Str := (List.replicate 9 '0' ++ dec r).drop (dec r).length

theorem dec_length_le9 {r : Nat} (h : r < 1000000000) : (dec r).length ≤ 9 :=
  (Nat.length_toDigits_le_iff (b := 10) (by decide) (by decide)).mpr (by simpa using h)

theorem pad9_eq {r : Nat} (h : r < 1000000000) : pad9 r = List.replicate (9 - (dec r).length) '0' ++ dec r := by
  have hl := dec_length_le9 h
  unfold pad9
  rw [List.drop_append_of_le_length (by rw [List.length_replicate]; exact hl), List.drop_replicate]

theorem pad9_length {r : Nat} (h : r < 1000000000) : (pad9 r).length = 9 := by
  have hl := dec_length_le9 h
  rw [pad9_eq h]; simp; omega

theorem pad9_value {r : Nat} (h : r < 1000000000) : Nat.ofDigitChars 10 (pad9 r) 0 = r := by
  rw [pad9_eq h, Nat.ofDigitChars_append, Nat.ofDigitChars_replicate_zero]
  simpa using ofDigitChars_dec r

theorem pad9_isDigit {r : Nat} (h : r < 1000000000) : ∀ c ∈ pad9 r, c.isDigit = true := by
  intro c hc
  rw [pad9_eq h] at hc
  simp only [List.mem_append, List.mem_replicate] at hc
  rcases hc with ⟨_, rfl⟩ | hc
  · decide
  · exact dec_isDigit hc

theorem takeWhile_all {α} (p : α → Bool) (l : List α) : ∀ c ∈ l.takeWhile p, p c = true := by
  induction l with
  | nil => simp
  | cons x xs ih =>
    intro c hc
    simp only [List.takeWhile_cons] at hc
    split at hc
    · rcases List.mem_cons.mp hc with h | h
      · subst h; assumption
      · exact ih c h
    · cases hc

/-- a list is its `dropTrailingZeros` followed by zeros -/
theorem dropTrailingZeros_spec (s : Str) : ∃ k, s = dropTrailingZeros s ++ List.replicate k '0' := by
  refine ⟨(s.reverse.takeWhile (· = '0')).length, ?_⟩
  have h := List.takeWhile_append_dropWhile (p := fun c => decide (c = '0')) (l := s.reverse)
  have hall : ∀ c ∈ s.reverse.takeWhile (fun c => decide (c = '0')), c = '0' := by
    intro c hc; simpa using takeWhile_all _ _ c hc
  have hrep : s.reverse.takeWhile (fun c => decide (c = '0')) = List.replicate (s.reverse.takeWhile (fun c => decide (c = '0'))).length '0' :=
    List.eq_replicate_iff.mpr ⟨rfl, hall⟩
  have : s = (s.reverse.dropWhile (fun c => decide (c = '0'))).reverse ++ (s.reverse.takeWhile (fun c => decide (c = '0'))).reverse := by
    rw [← List.reverse_append, h, List.reverse_reverse]
  unfold dropTrailingZeros
  conv => lhs; rw [this]
  congr 1
  rw [hrep]; simp

theorem dropTrailingZeros_sub (s : Str) : ∀ c ∈ dropTrailingZeros s, c ∈ s := by
  intro c hc
  unfold dropTrailingZeros at hc
  have := List.mem_reverse.mp hc
  exact List.mem_reverse.mp ((List.dropWhile_sublist _).mem this)

theorem ofDigitChars_zeros (k : Nat) : Nat.ofDigitChars 10 (List.replicate k '0') 0 = 0 := by
  rw [Nat.ofDigitChars_replicate_zero]; simp

/-- the fraction printed for `r` and what `frac9` reads back -/
theorem frac9_dropTrailingZeros {r : Nat} (h : r < 1000000000) :
    (dropTrailingZeros (pad9 r)).length ≤ 9 ∧ frac9 (dropTrailingZeros (pad9 r)) = r ∧
    (dropTrailingZeros (pad9 r) = [] → r = 0) := by
  obtain ⟨k, hk⟩ := dropTrailingZeros_spec (pad9 r)
  have hlen := pad9_length h
  have hl : (dropTrailingZeros (pad9 r)).length + k = 9 := by
    have := congrArg List.length hk; simp [hlen] at this; omega
  refine ⟨by omega, ?_, ?_⟩
  · unfold frac9
    have : (dropTrailingZeros (pad9 r) ++ List.replicate 9 '0').take 9 = pad9 r := by
      conv => rhs; rw [hk]
      rw [List.take_append]
      have h1 : (dropTrailingZeros (pad9 r)).take 9 = dropTrailingZeros (pad9 r) := List.take_of_length_le (by omega)
      rw [h1, List.take_replicate]
      congr 2
      omega
    rw [this, pad9_value h]
  · intro he
    rw [he] at hk
    have := pad9_value h
    rw [hk] at this
    simpa [ofDigitChars_zeros] using this.symm

/-! ### NPT times -/

theorem nptMarshalTime_eq (d : Int) :
    nptMarshalTime d =
      if dropTrailingZeros (pad9 (d.toNat % 1000000000)) = [] then dec (d.toNat / 1000000000)
      else dec (d.toNat / 1000000000) ++ '.' :: dropTrailingZeros (pad9 (d.toNat % 1000000000)) := rfl

theorem floatAlphabet_digit {c : Char} (h : c.isDigit = true) : floatAlphabet c = true := by
  simp [floatAlphabet, h]

theorem secsToDur_zero : secsToDur 0 = 0 := by decide

/-- the time prints without `:` and without `-` -/
theorem nptMarshalTime_chars (d : Int) : ∀ c ∈ nptMarshalTime d, c.isDigit = true ∨ c = '.' := by
  intro c hc
  have hr : d.toNat % 1000000000 < 1000000000 := Nat.mod_lt _ (by decide)
  rw [nptMarshalTime_eq] at hc
  split at hc
  · exact Or.inl (dec_isDigit hc)
  · simp only [List.mem_append, List.mem_cons] at hc
    rcases hc with hc | hc | hc
    · exact Or.inl (dec_isDigit hc)
    · exact Or.inr hc
    · exact Or.inl (pad9_isDigit hr c (dropTrailingZeros_sub _ c hc))

theorem nptMarshalTime_ne_nil (d : Int) : nptMarshalTime d ≠ [] := by
  have := dec_ne_nil (d.toNat / 1000000000)
  rw [nptMarshalTime_eq]; split <;> simp [this]

/-- **NPT time round trip** (exact decimal text): every non-negative duration below 10^15 ns -/
theorem nptTime_marshal {d : Int} (h0 : 0 ≤ d) (h1 : d < 1000000000000000) : nptTime (nptMarshalTime d) = .ok d := by
  have hr : d.toNat % 1000000000 < 1000000000 := Nat.mod_lt _ (by decide)
  have hq : d.toNat / 1000000000 < 1000000 := by omega
  obtain ⟨fl, fv, fz⟩ := frac9_dropTrailingZeros hr
  have hchars := nptMarshalTime_chars d
  have hnocolon : ':' ∉ nptMarshalTime d := by
    intro hm; rcases hchars _ hm with h | h
    · exact absurd h (by decide)
    · exact absurd h (by decide)
  have hany : (nptMarshalTime d).any (fun c => !floatAlphabet c) = false := by
    rw [List.any_eq_false]
    intro c hc
    rcases hchars c hc with h | h
    · simp [floatAlphabet_digit h]
    · subst h; decide
  have hall : (nptMarshalTime d).all (fun c => c.isDigit || c = '.') = true := by
    rw [List.all_eq_true]
    intro c hc
    rcases hchars c hc with h | h
    · simp [h]
    · simp [h]
  have hdq : '.' ∉ dec (d.toNat / 1000000000) := not_mem_dec (by decide) _
  have hdf : '.' ∉ dropTrailingZeros (pad9 (d.toNat % 1000000000)) := by
    intro hm
    have := pad9_isDigit hr _ (dropTrailingZeros_sub _ _ hm)
    exact absurd this (by decide)
  have hval := ofDigitChars_dec (d.toNat / 1000000000)
  have hpf : parseFloatNs (nptMarshalTime d) = .ok d.toNat := by
    unfold parseFloatNs
    rw [hany, hall]
    simp only [Bool.false_eq_true, if_false, if_true]
    rw [nptMarshalTime_eq]
    by_cases hf : dropTrailingZeros (pad9 (d.toNat % 1000000000)) = []
    · have hr0 := fz hf
      simp only [hf, if_true, splitOn_noSep hdq, dec_ne_nil, if_false, hval, hq]
      congr 1; omega
    · simp only [hf, if_false, splitOn_append _ hdq, splitOn_noSep hdf, dec_ne_nil, false_and, hval, hq, if_true, fl, fv]
      congr 1; omega
  have hw : wrap64 (Int.ofNat d.toNat + 0) = d := by
    have e : Int.ofNat d.toNat = d := Int.toNat_of_nonneg h0
    rw [e, Int.add_zero, wrap64_small (by omega) (by omega)]
  simp only [nptTime, splitOn_noSep hnocolon, hpf, secsToDur_zero, hw]

end Rtsp.Hdr
