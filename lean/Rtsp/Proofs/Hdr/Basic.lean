import Rtsp.Model.Headers.KeyVal
/-
Lemmas about the string helpers of Model/Headers/Basic.lean (core Lean only).
-/
namespace Rtsp.Hdr

/-- `∀ a, o = some a → P a` is decidable: WellFormed predicates are conjunctions of such clauses -/
instance decForallSome {α : Type} (o : Option α) (P : α → Prop) [DecidablePred P] : Decidable (∀ a, o = some a → P a) :=
  match o with
  | none => isTrue (by intro a h; cases h)
  | some x => if h : P x then isTrue (by intro a e; cases e; exact h) else isFalse (fun H => h (H x rfl))

/-! ### splitOn / cut / joinWith -/

theorem splitOn_ne_nil (sep : Char) (s : Str) : splitOn sep s ≠ [] := by
  induction s with
  | nil => simp [splitOn]
  | cons c cs ih =>
    simp only [splitOn]
    split
    · simp
    · split <;> simp

theorem splitOn_noSep {sep : Char} {a : Str} (h : sep ∉ a) : splitOn sep a = [a] := by
  induction a with
  | nil => rfl
  | cons c cs ih =>
    have hc : c ≠ sep := fun e => h (by simp [e])
    have hcs : sep ∉ cs := fun m => h (by simp [m])
    simp [splitOn, hc, ih hcs]

theorem splitOn_append {sep : Char} {a : Str} (b : Str) (h : sep ∉ a) :
    splitOn sep (a ++ sep :: b) = a :: splitOn sep b := by
  induction a with
  | nil => simp [splitOn]
  | cons c cs ih =>
    have hc : c ≠ sep := fun e => h (by simp [e])
    have hcs : sep ∉ cs := fun m => h (by simp [m])
    simp [splitOn, hc, ih hcs]

theorem cut_append {sep : Char} {a : Str} (b : Str) (h : sep ∉ a) : cut sep (a ++ sep :: b) = some (a, b) := by
  induction a with
  | nil => simp [cut]
  | cons c cs ih =>
    have hc : c ≠ sep := fun e => h (by simp [e])
    have hcs : sep ∉ cs := fun m => h (by simp [m])
    simp [cut, hc, ih hcs]

theorem cut_none {sep : Char} {a : Str} (h : sep ∉ a) : cut sep a = none := by
  induction a with
  | nil => rfl
  | cons c cs ih =>
    have hc : c ≠ sep := fun e => h (by simp [e])
    have hcs : sep ∉ cs := fun m => h (by simp [m])
    simp [cut, hc, ih hcs]

/-! ### trimLeftSp -/

theorem trimLeftSp_of_head {s : Str} (h : s.head? ≠ some ' ') : trimLeftSp s = s := by
  cases s with
  | nil => rfl
  | cons c cs =>
    have : c ≠ ' ' := by simpa using h
    unfold trimLeftSp
    split
    · rename_i heq; cases heq; exact absurd rfl this
    · rfl

theorem trimLeftSp_replicate (n : Nat) {s : Str} (h : s.head? ≠ some ' ') :
    trimLeftSp (List.replicate n ' ' ++ s) = s := by
  induction n with
  | zero => simpa using trimLeftSp_of_head h
  | succ n ih => simp [List.replicate_succ, trimLeftSp, ih]

/-! ### decimal numbers -/

theorem dec_ne_nil (n : Nat) : dec n ≠ [] := Nat.toDigits_ne_nil

theorem dec_isDigit {n : Nat} {c : Char} (h : c ∈ dec n) : c.isDigit = true :=
  Nat.isDigit_of_mem_toDigits (by decide) (by decide) h

theorem dec_all_isDigit (n : Nat) : (dec n).all Char.isDigit = true := by
  rw [List.all_eq_true]; intro c hc; exact dec_isDigit hc

theorem ofDigitChars_dec (n : Nat) : Nat.ofDigitChars 10 (dec n) 0 = n := Nat.ofDigitChars_ten_toDigits

theorem parseUint_dec {bits n : Nat} (h : n < 2 ^ bits) : parseUint bits (dec n) = some n := by
  simp [parseUint, dec_ne_nil, dec_all_isDigit, ofDigitChars_dec, h]

/-- a character that is not a decimal digit does not occur in a decimal numeral -/
theorem not_mem_dec {c : Char} (hc : c.isDigit = false) (n : Nat) : c ∉ dec n := by
  intro h; rw [dec_isDigit h] at hc; cases hc

theorem dec_head_ne {c : Char} (hc : c.isDigit = false) (n : Nat) : (dec n).head? ≠ some c := by
  intro h
  have : c ∈ dec n := by
    cases hd : dec n with
    | nil => simp [hd] at h
    | cons x xs => simp [hd] at h; simp [h]
  exact not_mem_dec hc n this

end Rtsp.Hdr
