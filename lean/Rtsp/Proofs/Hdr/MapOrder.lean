import Rtsp.Proofs.Hdr.KeyVal
import Rtsp.Model.Headers.Transport
import Rtsp.Model.Headers.Range
/-
What the repaired defect was: if a header codec iterates over the Go map itself (as the code did
before "fix: parse header key/value pairs in a deterministic order"), the result depends on the
arrangement of the map.
-/
namespace Rtsp.Hdr

/-- the pre-fix reading of `keyValParse`'s result: the callers range over the map, i.e. over some
arrangement `π` of its entries -/
def keyValParseMapOrder (π : List (Str × Str) → List (Str × Str)) : KvParser := fun sep s =>
  match kvRaw sep s with
  | .ok raw => .ok (π (KV.ofPairs raw).map)
  | .err e => .err e
  | .unm => .unm

/-- two arrangements of the same map give two different Transport values … -/
theorem map_iteration_order_dependent_value :
    Transport.unmarshalWith (keyValParseMapOrder id) [cs!"RTP/AVP;RTP/AVP/TCP"] ≠
    Transport.unmarshalWith (keyValParseMapOrder List.reverse) [cs!"RTP/AVP;RTP/AVP/TCP"] := by decide

/-- … and two different failure classes -/
theorem map_iteration_order_dependent_error :
    Transport.unmarshalWith (keyValParseMapOrder id) [cs!"RTP/AVP;mode=x;port=y"] = .err .mode ∧
    Transport.unmarshalWith (keyValParseMapOrder List.reverse) [cs!"RTP/AVP;mode=x;port=y"] = .err .ports := by decide

/-- The repaired tokenizer interface is the old one read in insertion order: wherever the old
parser's answer did not depend on the arrangement of the map, the repair changed nothing. -/
theorem keyValParse_eq_mapOrder_id : keyValParse = keyValParseMapOrder id := by
  funext sep s
  unfold keyValParse keyValParseWith keyValParseMapOrder
  cases kvRaw sep s with
  | ok raw => simp only [id]; rw [KV.pairs_eq_map (KV.inv_ofPairs raw)]
  | err e => rfl
  | unm => rfl

end Rtsp.Hdr
